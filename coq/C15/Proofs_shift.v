(* C15 proofs, finite-element assembly of the shift operator: congruences X^T B X, symmetry, vanishing row sums,
   positivity, lumped masses, binomial coefficients. *)
From Coq Require Import List Arith ZArith QArith Qabs Bool Lqa Lia Setoid Morphisms.
From Gst Require Import lib.QAux lib.LinAlgQ C15.Model C15.ModelOp C15.ModelShift C15.Spec C15.Proofs_op.
Import ListNotations.
Local Open Scope Q_scope.

(* ------------------------------------------------------------------ sums *)
Lemma sumn_mult_l n c f : c * sumn n f == sumn n (fun i => c * f i).
Proof. symmetry. apply sumn_scal_l. Qed.
Lemma sumn_mult_r n c f : sumn n f * c == sumn n (fun i => f i * c).
Proof. symmetry. apply sumn_scal_r. Qed.

(* ------------------------------------------------------------------ congruence X^T B X *)
(* (X^T B X) x = X^T (B (X x)) *)
Lemma congr_apply n m X B x i :
  fmv n (congr m X B) x i == sumn m (fun p => X p i * fmv m B (fmv n X x) p).
Proof.
  unfold fmv, congr.
  (* left: sum_j (sum_p sum_q X p i B p q X q j) x j *)
  rewrite (sumn_ext n (fun l => sumn m (fun p => sumn m (fun q => X p i * B p q * X q l)) * x l)
                      (fun l => sumn m (fun p => sumn m (fun q => X p i * B p q * X q l * x l)))).
  2:{ intros l _. rewrite sumn_mult_r. apply sumn_ext. intros p _. rewrite sumn_mult_r. reflexivity. }
  rewrite sumn_swap. apply sumn_ext. intros p _.
  rewrite sumn_mult_l.
  rewrite (sumn_ext n (fun i0 => sumn m (fun q => X p i * B p q * X q i0 * x i0))
                      (fun i0 => sumn m (fun q => X p i * (B p q * (X q i0 * x i0)))))
    by (intros; apply sumn_ext; intros; ring).
  rewrite sumn_swap. apply sumn_ext. intros q _.
  rewrite <- (sumn_scal_l n (B p q) (fun i0 => X q i0 * x i0)).
  rewrite <- (sumn_scal_l n (X p i) (fun i0 => B p q * (X q i0 * x i0))). reflexivity.
Qed.

(* x^T (X^T w) = (X x)^T w *)
Lemma fdot_transpose n m X x w :
  fdot n x (fun i => sumn m (fun p => X p i * w p)) == fdot m (fmv n X x) w.
Proof.
  unfold fdot, fmv.
  rewrite (sumn_ext n (fun l => x l * sumn m (fun p => X p l * w p)) (fun l => sumn m (fun p => X p l * x l * w p)))
    by (intros l _; rewrite sumn_mult_l; apply sumn_ext; intros; ring).
  rewrite sumn_swap. apply sumn_ext. intros p _. rewrite sumn_mult_r. reflexivity.
Qed.

Lemma congr_quad n m X B x :
  fdot n x (fmv n (congr m X B) x) == fdot m (fmv n X x) (fmv m B (fmv n X x)).
Proof.
  rewrite <- fdot_transpose. apply fdot_ext; [intros; reflexivity|]. intros l _. apply congr_apply.
Qed.

Lemma congr_psd n m X B : fpsd m B -> fpsd n (congr m X B).
Proof. intros H x. rewrite congr_quad. apply H. Qed.

Lemma congr_sym m X B i j : fsym m B -> congr m X B i j == congr m X B j i.
Proof.
  intro H. unfold congr. rewrite sumn_swap. apply sumn_ext. intros q Hq. apply sumn_ext. intros p Hp.
  rewrite (H p q Hp Hq). ring.
Qed.

Lemma congr_ext m X X' B B' i j :
  (forall p, (p < m)%nat -> X p i == X' p i) -> (forall p, (p < m)%nat -> X p j == X' p j) ->
  (forall p q, (p < m)%nat -> (q < m)%nat -> B p q == B' p q) -> congr m X B i j == congr m X' B' i j.
Proof.
  intros Hi Hj HB. unfold congr. apply sumn_ext. intros p Hp. apply sumn_ext. intros q Hq.
  rewrite (Hi p Hp), (Hj q Hq), (HB p q Hp Hq). reflexivity.
Qed.

(* positivity is a property of the n x n block *)
Lemma fpsd_block n A B : (forall i j, (i < n)%nat -> (j < n)%nat -> A i j == B i j) -> fpsd n A -> fpsd n B.
Proof. exact (fpsd_ext n A B). Qed.

(* ------------------------------------------------------------------ hh = A^T diag(s^2) A *)
Lemma diag_sq_sym m s : fsym m (diag_sq s).
Proof. intros i j _ _. unfold diag_sq. rewrite Nat.eqb_sym. destruct (Nat.eqb_spec j i); [subst; reflexivity|reflexivity]. Qed.

Lemma diag_sq_psd m s : fpsd m (diag_sq s).
Proof.
  intro x. unfold fdot, fmv. apply sumn_nonneg. intros k Hk.
  rewrite (sumn_ext m (fun l => diag_sq s k l * x l) (fun l => delta k l * (vget s k * vget s k * x l))).
  - rewrite sumn_delta_l by exact Hk. assert (0 <= (vget s k * x k) * (vget s k * x k)) by nra. lra.
  - intros l _. unfold diag_sq, delta. destruct (Nat.eqb k l); ring.
Qed.

Lemma hh_entries ndim A s i j : (i < ndim)%nat -> (j < ndim)%nat ->
  get (hh_mat ndim A s) i j == congr ndim (get A) (diag_sq s) i j.
Proof. intros. unfold hh_mat, mcongr. apply get_mkr; assumption. Qed.

Lemma hh_sym ndim A s : fsym ndim (get (hh_mat ndim A s)).
Proof. intros i j Hi Hj. rewrite !hh_entries by assumption. apply congr_sym, diag_sq_sym. Qed.

Lemma hh_psd ndim A s : fpsd ndim (get (hh_mat ndim A s)).
Proof.
  apply (fpsd_block ndim (congr ndim (get A) (diag_sq s))).
  - intros. symmetry. apply hh_entries; assumption.
  - apply congr_psd, diag_sq_psd.
Qed.

(* ------------------------------------------------------------------ element matrices *)
Lemma elem_B_entries ndim P H i j : (i < ndim)%nat -> (j < ndim)%nat ->
  get (elem_B ndim P H) i j == congr ndim (fun p a => get P a p) (get H) i j.
Proof. intros. unfold elem_B, mcongr. apply get_mkr; assumption. Qed.

Lemma elem_B_sym ndim P H : fsym ndim (get H) -> fsym ndim (get (elem_B ndim P H)).
Proof. intros HS i j Hi Hj. rewrite !elem_B_entries by assumption. apply congr_sym, HS. Qed.

Lemma elem_B_psd ndim P H : fpsd ndim (get H) -> fpsd ndim (get (elem_B ndim P H)).
Proof.
  intro HP. apply (fpsd_block ndim (congr ndim (fun p a => get P a p) (get H))).
  - intros. symmetry. apply elem_B_entries; assumption.
  - apply congr_psd, HP.
Qed.

(* the difference matrix N = [ I | -1 ] : ndim x (ndim+1) *)
Definition Nmat (ndim : nat) : fmat := fun p a => if Nat.eqb a ndim then -1 else delta p a.

Lemma sumn_delta_gen n f k : sumn n (fun p => delta p k * f p) == if Nat.ltb k n then f k else 0.
Proof.
  induction n as [|n IH]; [reflexivity|]. cbn [sumn]. rewrite IH. unfold delta.
  destruct (Nat.ltb_spec k n), (Nat.ltb_spec k (S n)), (Nat.eqb_spec n k); try lia; try subst; ring.
Qed.

(* the element matrix of the loops is N^T B' N when B' is symmetric *)
Lemma elem_E_congr ndim B' a b :
  fsym ndim B' -> (a <= ndim)%nat -> (b <= ndim)%nat ->
  elem_E ndim B' a b == congr ndim (Nmat ndim) B' a b.
Proof.
  intros HS Ha Hb. unfold elem_E, congr, Nmat.
  destruct (Nat.ltb_spec a ndim) as [La|La]; destruct (Nat.ltb_spec b ndim) as [Lb|Lb].
  - (* interior *)
    destruct (Nat.eqb_spec a ndim); [lia|]. destruct (Nat.eqb_spec b ndim); [lia|].
    rewrite (sumn_ext ndim (fun p => sumn ndim (fun q => delta p a * B' p q * delta q b))
                           (fun p => delta p a * sumn ndim (fun q => delta q b * B' p q)))
      by (intros p _; rewrite sumn_mult_l; apply sumn_ext; intros; ring).
    rewrite sumn_delta_gen. destruct (Nat.ltb_spec a ndim); [|lia].
    rewrite sumn_delta_gen. destruct (Nat.ltb_spec b ndim); [|lia]. reflexivity.
  - assert (b = ndim) by lia. subst b. destruct (Nat.eqb_spec a ndim); [lia|]. rewrite Nat.eqb_refl.
    rewrite (sumn_ext ndim (fun p => sumn ndim (fun q => delta p a * B' p q * -1))
                           (fun p => delta p a * - sumn ndim (fun q => B' p q))).
    + rewrite sumn_delta_gen. destruct (Nat.ltb_spec a ndim); [reflexivity|lia].
    + intros p _. rewrite (sumn_ext ndim (fun q => delta p a * B' p q * -1) (fun q => (- delta p a) * B' p q)) by (intros; ring).
      rewrite (sumn_scal_l ndim (- delta p a) (fun q => B' p q)). ring.
  - assert (a = ndim) by lia. subst a. destruct (Nat.eqb_spec b ndim); [lia|]. rewrite Nat.eqb_refl.
    rewrite sumn_swap.
    rewrite (sumn_ext ndim (fun j => sumn ndim (fun i => -1 * B' i j * delta j b))
                           (fun q => delta q b * - sumn ndim (fun p => B' q p))).
    + rewrite sumn_delta_gen. destruct (Nat.ltb_spec b ndim); [reflexivity|lia].
    + intros q Hq. rewrite (sumn_ext ndim (fun i => -1 * B' i q * delta q b) (fun i => (- delta q b) * B' q i))
        by (intros i Hi; rewrite (HS i q Hi Hq); ring).
      rewrite (sumn_scal_l ndim (- delta q b) (fun i => B' q i)). ring.
  - assert (a = ndim) by lia. assert (b = ndim) by lia. subst a b. rewrite Nat.eqb_refl.
    apply sumn_ext. intros p _. apply sumn_ext. intros; ring.
Qed.

(* the rows of N sum to zero: constants are in the kernel of every element matrix *)
Lemma Nmat_row_sum ndim q : (q < ndim)%nat -> sumn (S ndim) (fun b => Nmat ndim q b) == 0.
Proof.
  intro Hq. cbn [sumn]. unfold Nmat at 2. rewrite Nat.eqb_refl.
  rewrite (sumn_ext ndim (fun b => Nmat ndim q b) (fun b => delta q b * 1)).
  - rewrite sumn_delta_l by exact Hq. ring.
  - intros b Hb. unfold Nmat. destruct (Nat.eqb_spec b ndim); [lia|]. ring.
Qed.

Lemma congr_row_sum n m X B a :
  (forall q, (q < m)%nat -> sumn n (fun b => X q b) == 0) -> sumn n (fun b => congr m X B a b) == 0.
Proof.
  intro H. unfold congr. rewrite sumn_swap. apply sumn_zero. intros p _.
  rewrite sumn_swap. apply sumn_zero. intros q Hq.
  rewrite (sumn_scal_l n (X p a * B p q) (fun b => X q b)). rewrite (H q Hq). ring.
Qed.

Lemma elem_E_row_sum ndim B' a : fsym ndim B' -> (a <= ndim)%nat -> sumn (S ndim) (fun b => elem_E ndim B' a b) == 0.
Proof.
  intros HS Ha.
  rewrite (sumn_ext (S ndim) (fun b => elem_E ndim B' a b) (fun b => congr ndim (Nmat ndim) B' a b))
    by (intros b Hb; apply elem_E_congr; [exact HS|exact Ha|lia]).
  apply congr_row_sum. intros q Hq. apply Nmat_row_sum; exact Hq.
Qed.

(* ------------------------------------------------------------------ one element of make_elem *)
Definition elem_ok (ndim : nat) (e : elem) : Prop :=
  (forall a b, (a <= ndim)%nat -> (b <= ndim)%nat -> get (e_E e) a b == get (e_E e) b a) /\
  (forall a, (a <= ndim)%nat -> sumn (S ndim) (fun b => get (e_E e) a b) == 0) /\
  fpsd (S ndim) (get (e_E e)) /\ 0 <= e_ratio e.

Lemma factq_pos n : 0 < factq n.
Proof. unfold factq. pose proof (lt_O_fact n). unfold Qlt. cbn. lia. Qed.
Lemma div_nonneg r f : 0 < f -> 0 <= r -> 0 <= r / f.
Proof. intros Hf H. apply Qle_shift_div_l; [exact Hf|lra]. Qed.
Lemma div_pos r f : 0 < f -> 0 < r -> 0 < r / f.
Proof. intros Hf H. apply Qlt_shift_div_l; [exact Hf|lra]. Qed.

Lemma scaled_sym m B c f : fsym m B -> fsym m (fun i j => B i j * c / f).
Proof. intros H i j Hi Hj. rewrite (H i j Hi Hj). reflexivity. Qed.
Lemma scaled_psd m B c f : 0 < f -> 0 <= c -> fpsd m B -> fpsd m (fun i j => B i j * c / f).
Proof.
  intros Hf Hc H x. specialize (H x).
  assert (Hf0 : ~ f == 0) by lra.
  assert (E : fdot m x (fmv m (fun i j => B i j * c / f) x) == c / f * fdot m x (fmv m B x)).
  { unfold fdot, fmv. rewrite sumn_mult_l. apply sumn_ext. intros i _.
    rewrite (sumn_ext m (fun l => B i l * c / f * x l) (fun l => c / f * (B i l * x l))) by (intros; field; exact Hf0).
    rewrite (sumn_scal_l m (c / f) (fun l => B i l * x l)). ring. }
  rewrite E. pose proof (div_nonneg c f Hf Hc). nra.
Qed.

Lemma make_elem_ok ndim H rt m e :
  0 <= rt -> fsym ndim (get H) -> fpsd ndim (get H) -> make_elem ndim H rt m = Some e -> elem_ok ndim e.
Proof.
  intros Hrt HS HP. unfold make_elem. destruct (elem_P ndim (snd m)) as [P|]; [|discriminate].
  intro E. injection E as E. subst e. unfold elem_ok. cbn [e_E e_ratio].
  set (ratio := rt * elem_absdet ndim (snd m)).
  assert (Hr : 0 <= ratio). { unfold ratio, elem_absdet. apply Qmult_le_0_compat; [exact Hrt|apply Qabs_nonneg]. }
  set (B' := fun i j => get (elem_B ndim P H) i j * ratio / factq ndim).
  assert (HBs : fsym ndim B') by (apply scaled_sym, elem_B_sym, HS).
  assert (HBp : fpsd ndim B') by (apply scaled_psd; [apply factq_pos|exact Hr|apply elem_B_psd, HP]).
  assert (Hg : forall a b, (a <= ndim)%nat -> (b <= ndim)%nat ->
               get (mkr (S ndim) (S ndim) (elem_E ndim B')) a b == congr ndim (Nmat ndim) B' a b).
  { intros a b Ha Hb. rewrite get_mkr by lia. apply elem_E_congr; assumption. }
  split; [|split; [|split]].
  - intros a b Ha Hb. rewrite !Hg by assumption. apply congr_sym, HBs.
  - intros a Ha. rewrite (sumn_ext (S ndim) _ (fun b => elem_E ndim B' a b)) by (intros b Hb; apply get_mkr; lia).
    apply elem_E_row_sum; assumption.
  - apply (fpsd_block (S ndim) (congr ndim (Nmat ndim) B')).
    + intros a b Ha Hb. symmetry. apply Hg; lia.
    + apply congr_psd, HBp.
  - exact Hr.
Qed.

Lemma omap_Forall {A B} (f : A -> option B) (P : B -> Prop) :
  (forall x y, f x = Some y -> P y) -> forall l l', omap f l = Some l' -> Forall P l'.
Proof.
  intros H. induction l as [|x l IH]; intros l' E; cbn [omap] in E.
  - injection E as E. subst l'. constructor.
  - destruct (f x) as [y|] eqn:Ex; [|discriminate]. destruct (omap f l) as [ys|]; [|discriminate].
    injection E as E. subst l'. constructor; [apply (H x y Ex)|apply IH; reflexivity].
Qed.

(* ------------------------------------------------------------------ global assembly *)
Definition fassemble (nc : nat) (els : list elem) : fmat := fun i j => lsumQ (map (fun e => scatter nc e i j) els).

Lemma S_raw_entries n nc els i j : (i < n)%nat -> (j < n)%nat -> get (S_raw n nc els) i j == fassemble nc els i j.
Proof. intros. unfold S_raw. apply get_mkr; assumption. Qed.

Lemma scatter_sym ndim e i j : elem_ok ndim e -> scatter (S ndim) e i j == scatter (S ndim) e j i.
Proof. intros [H _]. unfold scatter. apply congr_sym. intros a b Ha Hb. apply H; lia. Qed.

Lemma fassemble_sym ndim els i j : Forall (elem_ok ndim) els -> fassemble (S ndim) els i j == fassemble (S ndim) els j i.
Proof.
  unfold fassemble. induction 1 as [|e els He _ IH]; cbn [map lsumQ fold_right]; [reflexivity|].
  unfold lsumQ in IH. rewrite IH, (scatter_sym ndim e i j He). reflexivity.
Qed.

Lemma lsumQ_sumn_swap {A} (l : list A) n (f : A -> nat -> Q) :
  sumn n (fun j => lsumQ (map (fun e => f e j) l)) == lsumQ (map (fun e => sumn n (f e)) l).
Proof.
  induction l as [|e l IH]; cbn [map lsumQ fold_right].
  - apply sumn_zero. intros; reflexivity.
  - unfold lsumQ in *. rewrite sumn_add, IH. reflexivity.
Qed.

Definition apex_in (n nc : nat) (e : elem) : Prop := forall a, (a < nc)%nat -> (nth a (e_apex e) 0 < n)%nat.

Lemma gather_row_sum n e a : (nth a (e_apex e) 0 < n)%nat -> sumn n (fun i => gather e a i) == 1.
Proof.
  intro H. unfold gather. rewrite (sumn_ext n _ (fun i => delta (nth a (e_apex e) 0%nat) i * 1)) by (intros; ring).
  apply sumn_delta_l; exact H.
Qed.

Lemma scatter_row_sum n ndim e i : elem_ok ndim e -> apex_in n (S ndim) e -> sumn n (fun j => scatter (S ndim) e i j) == 0.
Proof.
  intros [_ [Hrow _]] Hin. unfold scatter, congr. rewrite sumn_swap. apply sumn_zero. intros p Hp.
  rewrite sumn_swap.
  rewrite (sumn_ext (S ndim) (fun q => sumn n (fun i0 => gather e p i * get (e_E e) p q * gather e q i0))
                             (fun q => gather e p i * get (e_E e) p q)).
  - rewrite (sumn_scal_l (S ndim) (gather e p i) (fun q => get (e_E e) p q)). rewrite (Hrow p) by lia. ring.
  - intros q Hq. rewrite (sumn_scal_l n (gather e p i * get (e_E e) p q) (fun i0 => gather e q i0)).
    rewrite gather_row_sum by (apply Hin; exact Hq). ring.
Qed.

Lemma fassemble_row_sum n ndim els i :
  Forall (elem_ok ndim) els -> Forall (apex_in n (S ndim)) els -> sumn n (fun j => fassemble (S ndim) els i j) == 0.
Proof.
  intros H1 H2. unfold fassemble. rewrite lsumQ_sumn_swap.
  induction H1 as [|e els He _ IH]; cbn [map lsumQ fold_right]; [reflexivity|].
  inversion H2 as [|? ? Hin Hrest]; subst. unfold lsumQ in IH. rewrite (IH Hrest), (scatter_row_sum n ndim e i He Hin). ring.
Qed.

Lemma fdot_lsum {A} n (l : list A) (F : A -> fmat) x :
  fdot n x (fmv n (fun i j => lsumQ (map (fun e => F e i j) l)) x) == lsumQ (map (fun e => fdot n x (fmv n (F e) x)) l).
Proof.
  induction l as [|e l IH]; cbn [map lsumQ fold_right].
  - unfold fdot, fmv. apply sumn_zero. intros i _. rewrite (sumn_zero n) by (intros; ring). ring.
  - unfold lsumQ in *. rewrite <- IH. unfold fdot, fmv.
    rewrite <- sumn_add. apply sumn_ext. intros i _.
    rewrite (sumn_ext n (fun l0 => (F e i l0 + fold_right Qplus 0 (map (fun e0 => F e0 i l0) l)) * x l0)
                        (fun l0 => F e i l0 * x l0 + fold_right Qplus 0 (map (fun e0 => F e0 i l0) l) * x l0)) by (intros; ring).
    rewrite sumn_add. ring.
Qed.

Lemma fassemble_psd n ndim els : Forall (elem_ok ndim) els -> fpsd n (fassemble (S ndim) els).
Proof.
  intros H x. unfold fassemble. rewrite (fdot_lsum n els (fun e => scatter (S ndim) e) x).
  induction H as [|e els [_ [_ [He _]]] _ IH]; cbn [map lsumQ fold_right]; [lra|].
  assert (0 <= fdot n x (fmv n (scatter (S ndim) e) x)) by (unfold scatter; apply congr_psd, He).
  unfold lsumQ in IH. lra.
Qed.

(* ------------------------------------------------------------------ the assembled shift operator *)
Lemma build_shift_elems ndim n A s rt meshes sh :
  0 <= rt -> build_shift ndim n A s rt meshes = Some sh ->
  exists els, Forall (elem_ok ndim) els /\ sh_Sraw sh = S_raw n (S ndim) els /\ sh_tildeC sh = tildeC n (S ndim) els /\
              omap (make_elem ndim (hh_mat ndim A s) rt) meshes = Some els.
Proof.
  intros Hrt. unfold build_shift. destruct (omap (make_elem ndim (hh_mat ndim A s) rt) meshes) as [els|] eqn:E; [|discriminate].
  intro H. injection H as H. subst sh. exists els. cbn [sh_Sraw sh_tildeC]. split; [|repeat split; reflexivity].
  apply (omap_Forall _ _ (fun m e => make_elem_ok ndim _ rt m e Hrt (hh_sym ndim A s) (hh_psd ndim A s)) meshes els E).
Qed.

Lemma scaled_S_entries n d Sr i j : (i < n)%nat -> (j < n)%nat -> get (scaled_S n d Sr) i j == vget d i * get Sr i j * vget d j.
Proof. intros. unfold scaled_S. apply get_mkr; assumption. Qed.

Lemma scaled_S_sym n d Sr : fsym n (get Sr) -> fsym n (get (scaled_S n d Sr)).
Proof. intros H i j Hi Hj. rewrite !scaled_S_entries by assumption. rewrite (H i j Hi Hj). ring. Qed.

Lemma scaled_S_psd n d Sr : fpsd n (get Sr) -> fpsd n (get (scaled_S n d Sr)).
Proof.
  intros H x.
  assert (E : fdot n x (fmv n (get (scaled_S n d Sr)) x) == fdot n (fun i => vget d i * x i) (fmv n (get Sr) (fun i => vget d i * x i))).
  { unfold fdot, fmv. apply sumn_ext. intros i Hi.
    rewrite (sumn_ext n (fun l => get (scaled_S n d Sr) i l * x l) (fun l => vget d i * (get Sr i l * (vget d l * x l))))
      by (intros l Hl; rewrite scaled_S_entries by assumption; ring).
    rewrite (sumn_scal_l n (vget d i) (fun l => get Sr i l * (vget d l * x l))). ring. }
  rewrite E. apply H.
Qed.

(* S symmetric with vanishing row sums and positive semi-definite, unconditionally for a modelled meshing *)
Lemma shift_raw_props ndim n A s rt meshes sh :
  0 <= rt -> build_shift ndim n A s rt meshes = Some sh ->
  fsym n (get (sh_Sraw sh)) /\ fpsd n (get (sh_Sraw sh)) /\
  (Forall (fun m => forall a, (a < S ndim)%nat -> (nth a (fst m) 0 < n)%nat) meshes ->
   forall i, (i < n)%nat -> sumn n (fun j => get (sh_Sraw sh) i j) == 0).
Proof.
  intros Hrt Hb. destruct (build_shift_elems _ _ _ _ _ _ _ Hrt Hb) as [els [Hok [HS [_ Hom]]]]. rewrite HS.
  split; [|split].
  - intros i j Hi Hj. rewrite !S_raw_entries by assumption. apply fassemble_sym, Hok.
  - apply (fpsd_block n (fassemble (S ndim) els)); [intros; symmetry; apply S_raw_entries; assumption|apply fassemble_psd, Hok].
  - intros Hap i Hi.
    rewrite (sumn_ext n _ (fun j => fassemble (S ndim) els i j)) by (intros j Hj; apply S_raw_entries; assumption).
    apply (fassemble_row_sum n ndim els i Hok).
    clear -Hap Hom. revert els Hom. induction meshes as [|m ms IH]; intros els Hom; cbn [omap] in Hom.
    + injection Hom as Hom. subst els. constructor.
    + destruct (make_elem ndim (hh_mat ndim A s) rt m) as [e|] eqn:Ee; [|discriminate].
      destruct (omap (make_elem ndim (hh_mat ndim A s) rt) ms) as [es|] eqn:Eo; [|discriminate].
      injection Hom as Hom. subst els. inversion Hap as [|? ? Hm Hrest]; subst. constructor; [|apply IH; [exact Hrest|reflexivity]].
      unfold make_elem in Ee. destruct (elem_P ndim (snd m)); [|discriminate]. injection Ee as Ee. subst e.
      unfold apex_in. cbn [e_apex]. exact Hm.
Qed.

(* hence Q = Lambda P(S) Lambda is symmetric positive semi-definite for every scaling diagonal d, and positive definite
   when c_0 > 0 and no Lambda_i vanishes: the hypotheses on S of C15_Q_psd / C15_Q_pd are discharged *)
Lemma assembled_Q_pd ndim n A s rt meshes sh d lam c :
  0 <= rt -> build_shift ndim n A s rt meshes = Some sh ->
  let Sm := scaled_S n d (sh_Sraw sh) in
  coeffs_nonneg c -> c <> [] ->
  fsym n (get (build_Q n Sm lam c)) /\ fpsd n (get (build_Q n Sm lam c)) /\
  (0 < nth 0 c 0 -> (forall i, (i < n)%nat -> ~ vget lam i == 0) -> fpd n (get (build_Q n Sm lam c))).
Proof.
  intros Hrt Hb Sm Hc Hne. destruct (shift_raw_props _ _ _ _ _ _ _ Hrt Hb) as [Hs [Hp _]].
  assert (HS : fsym n (get Sm)) by (apply scaled_S_sym, Hs).
  assert (HP : fpsd n (get Sm)) by (apply scaled_S_psd, Hp).
  split; [apply build_Q_sym; assumption|]. split; [apply build_Q_psd; assumption|].
  intros H0 Hl. apply build_Q_pd; assumption.
Qed.

(* ------------------------------------------------------------------ lumped masses *)
Lemma tildeC_entries n nc els i : (i < n)%nat ->
  vget (tildeC n nc els) i == lsumQ (map (fun e => sumn nc (fun a => gather e a i * (e_ratio e / factq nc))) els).
Proof. intro Hi. unfold tildeC. apply vget_vkr; exact Hi. Qed.

Lemma sumn_const n c : sumn n (fun _ => c) == inject_Z (Z.of_nat n) * c.
Proof. induction n as [|k IH]; [cbn; ring|]. cbn [sumn]. rewrite IH, Nat2Z.inj_succ. unfold Z.succ. rewrite inject_Z_plus. ring. Qed.

Lemma factq_S n : factq (S n) == inject_Z (Z.of_nat (S n)) * factq n.
Proof. unfold factq. change (fact (S n)) with (S n * fact n)%nat. rewrite Nat2Z.inj_mul, inject_Z_mult. reflexivity. Qed.

(* the masses add up to the sum of the ratios divided by (ncorner-1)! : every simplex gives its volume *)
Lemma tildeC_sum n nc els :
  Forall (apex_in n (S nc)) els ->
  sumn n (fun i => vget (tildeC n (S nc) els) i) == lsumQ (map (fun e => e_ratio e / factq nc) els).
Proof.
  intro Hin.
  rewrite (sumn_ext n _ (fun i => lsumQ (map (fun e => sumn (S nc) (fun a => gather e a i * (e_ratio e / factq (S nc)))) els)))
    by (intros i Hi; apply tildeC_entries; exact Hi).
  rewrite lsumQ_sumn_swap.
  induction Hin as [|e els He _ IH]; cbn [map lsumQ fold_right]; [reflexivity|].
  unfold lsumQ in IH. rewrite IH. apply Qplus_comp; [|reflexivity].
  rewrite sumn_swap.
  rewrite (sumn_ext (S nc) (fun a => sumn n (fun i => gather e a i * (e_ratio e / factq (S nc)))) (fun _ => e_ratio e / factq (S nc))).
  - rewrite sumn_const. rewrite factq_S. pose proof (factq_pos nc).
    assert (0 < inject_Z (Z.of_nat (S nc))) by (unfold Qlt; cbn; lia). field. split; lra.
  - intros a Ha. rewrite (sumn_scal_r n (e_ratio e / factq (S nc)) (fun i => gather e a i)). rewrite gather_row_sum by (apply He; exact Ha). ring.
Qed.

Lemma tildeC_nonneg n nc els i : (i < n)%nat -> Forall (fun e => 0 <= e_ratio e) els -> 0 <= vget (tildeC n nc els) i.
Proof.
  intros Hi H. rewrite tildeC_entries by exact Hi.
  induction H as [|e els He _ IH]; cbn [map lsumQ fold_right]; [lra|].
  assert (0 <= sumn nc (fun a => gather e a i * (e_ratio e / factq nc))).
  { apply sumn_nonneg. intros a _. pose proof (div_nonneg _ _ (factq_pos nc) He). unfold gather, delta. destruct (Nat.eqb _ i); lra. }
  unfold lsumQ in IH. lra.
Qed.

(* an apex of a mesh with a positive ratio has a positive mass *)
Lemma tildeC_pos n nc els i e a :
  (i < n)%nat -> Forall (fun e => 0 <= e_ratio e) els -> In e els -> (a < nc)%nat -> nth a (e_apex e) 0%nat = i -> 0 < e_ratio e ->
  0 < vget (tildeC n nc els) i.
Proof.
  intros Hi H Hin Ha Hap Hr. rewrite tildeC_entries by exact Hi.
  induction H as [|e' els He' Hrest IH]; [destruct Hin|]. cbn [map lsumQ fold_right].
  assert (Hnn : forall e0, 0 <= e_ratio e0 -> 0 <= sumn nc (fun a0 => gather e0 a0 i * (e_ratio e0 / factq nc))).
  { intros e0 H0. apply sumn_nonneg. intros a0 _. pose proof (div_nonneg _ _ (factq_pos nc) H0). unfold gather, delta. destruct (Nat.eqb _ i); lra. }
  assert (Hall : 0 <= fold_right Qplus 0 (map (fun e0 => sumn nc (fun a0 => gather e0 a0 i * (e_ratio e0 / factq nc))) els)).
  { clear -Hrest Hnn. induction Hrest as [|x l Hx _ IHl]; cbn [map fold_right]; [lra|]. specialize (Hnn x Hx). lra. }
  destruct Hin as [Hin|Hin].
  - subst e'. assert (0 < sumn nc (fun a0 => gather e a0 i * (e_ratio e / factq nc))).
    { pose proof (div_pos _ _ (factq_pos nc) Hr).
      apply (sumn_pos_term nc _ a); [intros k _; unfold gather, delta; destruct (Nat.eqb _ i); lra|exact Ha|].
      unfold gather, delta. rewrite Hap, Nat.eqb_refl. lra. }
    lra.
  - specialize (IH Hin). specialize (Hnn e' He'). unfold lsumQ in IH. lra.
Qed.

(* ------------------------------------------------------------------ masses of a built operator *)
Lemma omap_ratios ndim H rt : forall meshes els, omap (make_elem ndim H rt) meshes = Some els ->
  map e_ratio els = map (fun m => rt * elem_absdet ndim (snd m)) meshes /\
  Forall (fun e => 0 <= rt -> 0 <= e_ratio e) els /\
  map e_apex els = map fst meshes.
Proof.
  induction meshes as [|m ms IH]; intros els E; cbn [omap] in E.
  - injection E as E. subst els. repeat split; constructor.
  - destruct (make_elem ndim H rt m) as [e|] eqn:Ee; [|discriminate].
    destruct (omap (make_elem ndim H rt) ms) as [es|] eqn:Eo; [|discriminate].
    injection E as E. subst els. destruct (IH es eq_refl) as [I1 [I2 I3]].
    unfold make_elem in Ee. destruct (elem_P ndim (snd m)); [|discriminate]. injection Ee as Ee. subst e.
    cbn [map e_ratio e_apex]. rewrite I1, I3. repeat split. constructor; [|exact I2].
    cbn [e_ratio]. intro Hrt. unfold elem_absdet. apply Qmult_le_0_compat; [exact Hrt|apply Qabs_nonneg].
Qed.

Definition apices_in_range (ndim n : nat) (meshes : list (list nat * list (list Q))) : Prop :=
  Forall (fun m => forall a, (a < S ndim)%nat -> (nth a (fst m) 0 < n)%nat) meshes.

(* the lumped masses add up to rt x the volume of the meshing, in every dimension (volume of a simplex = |det M| / ndim!) *)
Lemma build_shift_mass ndim n A s rt meshes sh :
  build_shift ndim n A s rt meshes = Some sh -> apices_in_range ndim n meshes ->
  sumn n (fun i => vget (sh_tildeC sh) i) == rt * lsumQ (map (fun m => elem_absdet ndim (snd m) / factq ndim) meshes).
Proof.
  unfold build_shift. destruct (omap (make_elem ndim (hh_mat ndim A s) rt) meshes) as [els|] eqn:E; [|discriminate].
  intros H Hin. injection H as H. subst sh. cbn [sh_tildeC].
  destruct (omap_ratios _ _ _ _ _ E) as [Hr [_ Ha]].
  rewrite tildeC_sum.
  - assert (G : forall l : list elem, lsumQ (map (fun e => e_ratio e / factq ndim) l) == lsumQ (map e_ratio l) / factq ndim).
    { pose proof (factq_pos ndim). induction l as [|x l IHl]; cbn [map lsumQ fold_right]; [field; lra|]. unfold lsumQ in IHl. rewrite IHl. field. lra. }
    rewrite G, Hr. clear. pose proof (factq_pos ndim). induction meshes as [|m ms IH]; cbn [map lsumQ fold_right]; [field; lra|].
    unfold lsumQ in IH.
    setoid_replace ((rt * elem_absdet ndim (snd m) + fold_right Qplus 0 (map (fun m0 => rt * elem_absdet ndim (snd m0)) ms)) / factq ndim)
      with (rt * (elem_absdet ndim (snd m) / factq ndim) + fold_right Qplus 0 (map (fun m0 => rt * elem_absdet ndim (snd m0)) ms) / factq ndim)
      by (field; lra).
    rewrite IH. ring.
  - clear -Hin Ha. revert els Ha. induction Hin as [|m ms Hm _ IH]; intros [|e es] Ha; try discriminate Ha; constructor.
    + cbn [map] in Ha. injection Ha as Ha1 Ha2. unfold apex_in. rewrite Ha1. exact Hm.
    + cbn [map] in Ha. injection Ha as Ha1 Ha2. apply IH; exact Ha2.
Qed.

(* ------------------------------------------------------------------ Markov coefficients *)
Lemma binom_nonneg p : forall i, (0 <= binom p i)%Z.
Proof. induction p as [|p IH]; intros [|i]; cbn [binom]; try lia. pose proof (IH i). pose proof (IH (S i)). lia. Qed.

Lemma markov_nonneg p : coeffs_nonneg (markov_coeffs p).
Proof.
  intro k. unfold markov_coeffs. destruct (Nat.lt_ge_cases k (S p)) as [L|L].
  - rewrite (nth_map_seq (fun i => inject_Z (binom p i)) (S p) k 0 L).
    pose proof (binom_nonneg p k). unfold Qle. cbn. lia.
  - rewrite nth_overflow by (rewrite map_length, seq_length; exact L). lra.
Qed.
Lemma markov_c0 p : nth 0 (markov_coeffs p) 0 == 1.
Proof. unfold markov_coeffs. cbn [seq map nth]. destruct p; reflexivity. Qed.
Lemma markov_nonempty p : markov_coeffs p <> [].
Proof. unfold markov_coeffs. cbn [seq map]. discriminate. Qed.

(* the precision matrix of a Matern model on a modelled meshing is symmetric positive definite, without hypothesis on S *)
Lemma matern_Q_spd ndim n A s rt meshes sh d lam p :
  0 <= rt -> build_shift ndim n A s rt meshes = Some sh ->
  (forall i, (i < n)%nat -> ~ vget lam i == 0) ->
  let Qm := build_Q n (scaled_S n d (sh_Sraw sh)) lam (markov_coeffs p) in
  fsym n (get Qm) /\ fpd n (get Qm).
Proof.
  intros Hrt Hb Hl Qm.
  destruct (assembled_Q_pd ndim n A s rt meshes sh d lam (markov_coeffs p) Hrt Hb (markov_nonneg p) (markov_nonempty p)) as [Hs [_ Hpd]].
  split; [exact Hs|]. apply Hpd; [rewrite markov_c0; lra|exact Hl].
Qed.

(* ------------------------------------------------------------------ binomial theorem: sum_k C(p,k) S^k = (I + S)^p *)
Definition pm (n : nat) (A : fmat) (p : nat) : fmat := fun i j => sumn (S p) (fun k => inject_Z (binom p k) * fpow n A k i j).

Lemma binom_gt : forall p k, (p < k)%nat -> binom p k = 0%Z.
Proof.
  induction p as [|p IH]; intros [|k] H; try lia; cbn [binom]; [reflexivity|].
  rewrite (IH k), (IH (S k)) by lia. reflexivity.
Qed.
Lemma binom_0 p : binom p 0 = 1%Z.
Proof. destruct p; reflexivity. Qed.

Lemma poly_mat_markov n A p i j : poly_mat n A (markov_coeffs p) i j == pm n A p i j.
Proof.
  unfold poly_mat, pm, markov_coeffs. rewrite map_length, seq_length. apply sumn_ext. intros k Hk.
  rewrite (nth_map_seq (fun i0 => inject_Z (binom p i0)) (S p) k 0 Hk). reflexivity.
Qed.

Definition IplusA (A : fmat) : fmat := fun a b => delta a b + A a b.

Lemma fmul_IplusA n B A i j : (j < n)%nat -> fmul n B (IplusA A) i j == B i j + fmul n B A i j.
Proof.
  intro Hj. unfold fmul, IplusA.
  rewrite (sumn_ext n (fun l => B i l * (delta l j + A l j)) (fun l => B i l * delta l j + B i l * A l j)) by (intros; ring).
  rewrite sumn_add. rewrite (sumn_delta_r n j (fun l => B i l) Hj). reflexivity.
Qed.

Lemma pm_step n A p i j : (i < n)%nat -> (j < n)%nat ->
  pm n A (S p) i j == pm n A p i j + fmul n (pm n A p) A i j.
Proof.
  intros Hi Hj. unfold pm at 1.
  rewrite (sumn_S_first (S p)). rewrite binom_0. cbn [fpow].
  (* C(p+1,k+1) = C(p,k) + C(p,k+1) *)
  rewrite (sumn_ext (S p) (fun k => inject_Z (binom (S p) (S k)) * fpow n A (S k) i j)
                          (fun k => inject_Z (binom p k) * fpow n A (S k) i j + inject_Z (binom p (S k)) * fpow n A (S k) i j))
    by (intros k _; cbn [binom]; rewrite inject_Z_plus; ring).
  rewrite sumn_add.
  (* second sum: its last term vanishes, the rest is pm p minus its first term *)
  assert (E2 : sumn (S p) (fun k => inject_Z (binom p (S k)) * fpow n A (S k) i j) ==
               sumn p (fun k => inject_Z (binom p (S k)) * fpow n A (S k) i j)).
  { cbn [sumn]. rewrite (binom_gt p (S p)) by lia. change (inject_Z 0) with 0. ring. }
  rewrite E2.
  assert (E1 : pm n A p i j == 1 * delta i j + sumn p (fun k => inject_Z (binom p (S k)) * fpow n A (S k) i j)).
  { unfold pm. rewrite (sumn_S_first p). rewrite binom_0. cbn [fpow]. reflexivity. }
  rewrite E1.
  (* first sum = (pm p) . A *)
  assert (E3 : fmul n (pm n A p) A i j == sumn (S p) (fun k => inject_Z (binom p k) * fpow n A (S k) i j)).
  { unfold fmul, pm.
    rewrite (sumn_ext n (fun l => sumn (S p) (fun k => inject_Z (binom p k) * fpow n A k i l) * A l j)
                        (fun l => sumn (S p) (fun k => inject_Z (binom p k) * (fpow n A k i l * A l j))))
      by (intros l _; rewrite sumn_mult_r; apply sumn_ext; intros; ring).
    rewrite sumn_swap. apply sumn_ext. intros k _.
    rewrite (sumn_scal_l n (inject_Z (binom p k)) (fun l => fpow n A k i l * A l j)). reflexivity. }
  rewrite <- E1. rewrite E3. rewrite E1. change (inject_Z 1) with 1. ring.
Qed.

Lemma binomial_theorem n A p : forall i j, (i < n)%nat -> (j < n)%nat -> pm n A p i j == fpow n (IplusA A) p i j.
Proof.
  induction p as [|p IH]; intros i j Hi Hj.
  - unfold pm. cbn [sumn binom fpow]. change (inject_Z 1) with 1. ring.
  - rewrite pm_step by assumption. cbn [fpow].
    rewrite fmul_IplusA by exact Hj. rewrite <- (IH i j Hi Hj).
    apply Qplus_comp; [reflexivity|]. apply fmul_ext; intros l Hl; [apply IH; assumption|reflexivity].
Qed.

(* the precision matrix of a Matern structure: Q_ij = Lambda_i ((I + S)^p)_ij Lambda_j *)
Lemma matern_Q_entries n Sm lam p i j : (i < n)%nat -> (j < n)%nat ->
  get (build_Q n Sm lam (markov_coeffs p)) i j == vget lam i * fpow n (IplusA (get Sm)) p i j * vget lam j.
Proof.
  intros Hi Hj. rewrite build_Q_entries by (try assumption; apply markov_nonempty).
  unfold Qspec. rewrite poly_mat_markov, binomial_theorem by assumption. reflexivity.
Qed.

(* ------------------------------------------------------------------ non-stationary anisotropy *)

Lemma omap_Forall_in {A B} (f : A -> option B) (P : B -> Prop) : forall l l',
  (forall x y, In x l -> f x = Some y -> P y) -> omap f l = Some l' -> Forall P l'.
Proof.
  induction l as [|x l IH]; intros l' H E; cbn [omap] in E.
  - injection E as E. subst l'. constructor.
  - destruct (f x) as [y|] eqn:Ex; [|discriminate]. destruct (omap f l) as [ys|] eqn:Eo; [|discriminate].
    injection E as E. subst l'. constructor; [apply (H x y (or_introl eq_refl) Ex)|].
    apply IH; [|reflexivity]. intros x' y' Hin. apply H. right. exact Hin.
Qed.

Lemma omap_apex ndim : forall pms els n,
  omap (elem_of_ns ndim) pms = Some els ->
  Forall (fun pm => forall a, (a < S ndim)%nat -> (nth a (fst (snd pm)) 0 < n)%nat) pms -> Forall (apex_in n (S ndim)) els.
Proof.
  induction pms as [|pm pms IH]; intros els n E H; cbn [omap] in E.
  - injection E as E. subst els. constructor.
  - destruct (elem_of_ns ndim pm) as [e|] eqn:Ee; [|discriminate]. destruct (omap (elem_of_ns ndim) pms) as [es|] eqn:Eo; [|discriminate].
    injection E as E. subst els. inversion H as [|? ? Hm Hrest]; subst. constructor; [|apply IH; [reflexivity|exact Hrest]].
    unfold elem_of_ns, make_elem in Ee. destruct (elem_P ndim (snd (snd pm))); [|discriminate]. injection Ee as Ee. subst e.
    unfold apex_in. cbn [e_apex]. exact Hm.
Qed.

(* per-mesh anisotropy: the assembled matrix keeps symmetry, positivity and vanishing row sums *)
Lemma shift_ns_props ndim n params meshes sh :
  Forall (fun p => 0 <= snd p) params -> build_shift_ns ndim n params meshes = Some sh ->
  fsym n (get (sh_Sraw sh)) /\ fpsd n (get (sh_Sraw sh)) /\
  (Forall (fun m => forall a, (a < S ndim)%nat -> (nth a (fst m) 0 < n)%nat) meshes ->
   forall i, (i < n)%nat -> sumn n (fun j => get (sh_Sraw sh) i j) == 0).
Proof.
  intros Hrt. unfold build_shift_ns. destruct (omap (elem_of_ns ndim) (combine params meshes)) as [els|] eqn:E; [|discriminate].
  intro H. injection H as H. subst sh. cbn [sh_Sraw].
  assert (Hok : Forall (elem_ok ndim) els).
  { apply (omap_Forall_in (elem_of_ns ndim) (elem_ok ndim) (combine params meshes) els); [|exact E].
    intros pm e Hin He. unfold elem_of_ns in He.
    eapply make_elem_ok; [|apply hh_sym|apply hh_psd|exact He].
    rewrite Forall_forall in Hrt. apply (Hrt (fst pm)). destruct pm as [p m]. apply (in_combine_l _ _ _ _ Hin). }
  split; [|split].
  - intros i j Hi Hj. rewrite !S_raw_entries by assumption. apply fassemble_sym, Hok.
  - apply (fpsd_block n (fassemble (S ndim) els)); [intros; symmetry; apply S_raw_entries; assumption|apply fassemble_psd, Hok].
  - intros Hap i Hi.
    rewrite (sumn_ext n _ (fun j => fassemble (S ndim) els i j)) by (intros j Hj; apply S_raw_entries; assumption).
    apply (fassemble_row_sum n ndim els i Hok). apply (omap_apex ndim _ els n E).
    rewrite Forall_forall in *. intros [p m] Hin. apply (Hap m). apply (in_combine_r _ _ _ _ Hin).
Qed.

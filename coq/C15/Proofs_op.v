(* C15 proofs, operators: Horner on an operator, matrix-free = assembled, symmetry and positivity of Q. *)
From Coq Require Import List Arith ZArith QArith Bool Lqa Lia Setoid Morphisms.
From Gst Require Import lib.QAux lib.LinAlgQ C15.ModelOp C15.Spec.
Import ListNotations.
Local Open Scope Q_scope.

(* ------------------------------------------------------------------ sums *)
Lemma sumn_S_first n f : sumn (S n) f == f O + sumn n (fun k => f (S k)).
Proof.
  induction n as [|n IH]; [cbn [sumn]; ring|].
  change (sumn (S (S n)) f) with (sumn (S n) f + f (S n)). rewrite IH. cbn [sumn]. ring.
Qed.

Lemma sumn_cons_nth c0 r (g : nat -> Q) :
  sumn (length (c0 :: r)) (fun k => nth k (c0 :: r) 0 * g k) == c0 * g O + sumn (length r) (fun k => nth k r 0 * g (S k)).
Proof. cbn [length]. rewrite sumn_S_first. reflexivity. Qed.

Lemma sumn_pos_term n f i : (forall k, (k < n)%nat -> 0 <= f k) -> (i < n)%nat -> 0 < f i -> 0 < sumn n f.
Proof.
  induction n as [|n IH]; intros Hf Hi Hp; [lia|]. cbn [sumn].
  assert (H0 : 0 <= sumn n f) by (apply sumn_nonneg; intros; apply Hf; lia).
  assert (Hn : 0 <= f n) by (apply Hf; lia).
  destruct (Nat.eq_dec i n) as [E|E].
  - subst i. lra.
  - assert (0 < sumn n f) by (apply IH; [intros; apply Hf; lia|lia|exact Hp]). lra.
Qed.

(* ------------------------------------------------------------------ vectors of the model *)
Lemma vget_axpy n c inv w i : (i < n)%nat -> vget (axpy n c inv w) i == c * vget inv i + vget w i.
Proof. intro Hi. unfold axpy. apply vget_vkr; exact Hi. Qed.
Lemma vget_scal n c inv i : (i < n)%nat -> vget (scal n c inv) i == c * vget inv i.
Proof. intro Hi. unfold scal. apply vget_vkr; exact Hi. Qed.
Lemma vget_prod_lambda n lam x i : (i < n)%nat -> vget (prod_lambda n lam x) i == vget x i * vget lam i.
Proof. intro Hi. unfold prod_lambda. apply vget_vkr; exact Hi. Qed.

(* ------------------------------------------------------------------ iterated application *)
Lemma fmv_ext_r n A x x' i : (forall l, (l < n)%nat -> x l == x' l) -> fmv n A x i == fmv n A x' i.
Proof. intro H. apply fmv_ext; [intros; reflexivity|exact H]. Qed.

Lemma fiter_ext n A k v v' : (forall l, (l < n)%nat -> v l == v' l) -> forall i, (i < n)%nat -> fiter n A k v i == fiter n A k v' i.
Proof.
  induction k as [|k IH]; intros H i Hi; cbn [fiter]; [apply H; exact Hi|].
  apply fmv_ext_r. intros l Hl. apply IH; assumption.
Qed.

Lemma fmv_lin n A c v w i : fmv n A (fun l => c * v l + w l) i == c * fmv n A v i + fmv n A w i.
Proof.
  unfold fmv.
  rewrite (sumn_ext n (fun l => A i l * (c * v l + w l)) (fun l => c * (A i l * v l) + A i l * w l)) by (intros; ring).
  rewrite sumn_add. rewrite (sumn_scal_l n c (fun l => A i l * v l)). reflexivity.
Qed.

Lemma fiter_lin n A k c v w i : (i < n)%nat ->
  fiter n A k (fun l => c * v l + w l) i == c * fiter n A k v i + fiter n A k w i.
Proof.
  revert i. induction k as [|k IH]; intros i Hi; cbn [fiter]; [reflexivity|].
  rewrite <- fmv_lin. apply fmv_ext_r. intros l Hl. apply IH; exact Hl.
Qed.

Lemma fiter_scal n A k c v i : (i < n)%nat -> fiter n A k (fun l => c * v l) i == c * fiter n A k v i.
Proof.
  revert i. induction k as [|k IH]; intros i Hi; cbn [fiter]; [reflexivity|].
  unfold fmv. rewrite <- (sumn_scal_l n c (fun l => A i l * fiter n A k v l)).
  apply sumn_ext. intros l Hl. rewrite IH by exact Hl. ring.
Qed.

(* A^k (A w) = A (A^k w) *)
Lemma fiter_comm n A k w i : fiter n A k (fmv n A w) i == fiter n A (S k) w i.
Proof.
  revert i. induction k as [|k IH]; intro i; [reflexivity|].
  change (fiter n A (S k) (fmv n A w) i) with (fmv n A (fiter n A k (fmv n A w)) i).
  change (fiter n A (S (S k)) w i) with (fmv n A (fiter n A (S k) w) i).
  apply fmv_ext_r. intros l _. apply IH.
Qed.

(* ------------------------------------------------------------------ ClassicalPolynomial::evalOp *)
Lemma eval_op_loop_spec n Op r inv :
  forall out i, (i < n)%nat ->
  vget (eval_op_loop n Op r inv out) i ==
  sumn (length r) (fun j => nth j (rev r) 0 * fiter n (get Op) j (vget inv) i)
  + fiter n (get Op) (length r) (vget out) i.
Proof.
  induction r as [|c r IH]; intros out i Hi.
  - cbn [eval_op_loop length sumn fiter]. ring.
  - cbn [eval_op_loop]. rewrite IH by exact Hi.
    cbn [length rev]. cbn [sumn].
    (* the accumulated vector *)
    assert (E : fiter n (get Op) (length r) (vget (axpy n c inv (mmv n n Op out))) i ==
                c * fiter n (get Op) (length r) (vget inv) i + fiter n (get Op) (S (length r)) (vget out) i).
    { rewrite (fiter_ext n (get Op) (length r) _ (fun l => c * vget inv l + fmv n (get Op) (vget out) l)).
      - rewrite fiter_lin by exact Hi. rewrite fiter_comm. reflexivity.
      - intros l Hl. rewrite vget_axpy by exact Hl. rewrite vget_mmv by exact Hl. reflexivity.
      - exact Hi. }
    rewrite E.
    rewrite (sumn_ext (length r) (fun j => nth j (rev r ++ [c]) 0 * fiter n (get Op) j (vget inv) i)
                                 (fun j => nth j (rev r) 0 * fiter n (get Op) j (vget inv) i)).
    + rewrite app_nth2 by (rewrite rev_length; lia). rewrite rev_length, Nat.sub_diag. cbn [nth]. ring.
    + intros j Hj. rewrite app_nth1 by (rewrite rev_length; exact Hj). reflexivity.
Qed.

Lemma eval_op_spec n Op c inv i :
  c <> [] -> (i < n)%nat -> vget (eval_op n Op c inv) i == poly_apply n (get Op) c (vget inv) i.
Proof.
  intros Hc Hi. unfold eval_op, poly_apply.
  destruct (rev c) as [|cd r] eqn:E.
  - exfalso. apply Hc. rewrite <- (rev_involutive c), E. reflexivity.
  - assert (Ec : c = rev r ++ [cd]) by (rewrite <- (rev_involutive c), E; reflexivity).
    assert (Hl : length c = S (length r)) by (rewrite Ec, app_length, rev_length; cbn [length]; lia).
    assert (Hn : nth (length r) c 0 = cd).
    { rewrite Ec, app_nth2 by (rewrite rev_length; lia). rewrite rev_length, Nat.sub_diag. reflexivity. }
    rewrite eval_op_loop_spec by exact Hi.
    rewrite Hl. cbn [sumn]. rewrite Hn.
    rewrite (fiter_ext n (get Op) (length r) (vget (scal n cd inv)) (fun l => cd * vget inv l))
      by (intros; try apply vget_scal; assumption).
    rewrite fiter_scal by exact Hi.
    rewrite (sumn_ext (length r) (fun j => nth j c 0 * fiter n (get Op) j (vget inv) i)
                                 (fun j => nth j (rev r) 0 * fiter n (get Op) j (vget inv) i)); [reflexivity|].
    intros j Hj. rewrite Ec, app_nth1 by (rewrite rev_length; exact Hj). reflexivity.
Qed.

(* one-step unfolding of the polynomial: P(A) v = c0 v + A (P'(A) v) *)
Lemma poly_apply_cons n A c0 r v i :
  poly_apply n A (c0 :: r) v i == c0 * v i + fmv n A (poly_apply n A r v) i.
Proof.
  unfold poly_apply. rewrite (sumn_cons_nth c0 r (fun k => fiter n A k v i)). cbn [fiter].
  apply Qplus_comp; [reflexivity|].
  unfold fmv.
  rewrite (sumn_ext n (fun l => A i l * sumn (length r) (fun j => nth j r 0 * fiter n A j v l))
                      (fun l => sumn (length r) (fun j => nth j r 0 * (A i l * fiter n A j v l)))).
  - rewrite sumn_swap. apply sumn_ext. intros j _.
    rewrite (sumn_scal_l n (nth j r 0) (fun l => A i l * fiter n A j v l)). reflexivity.
  - intros l _. rewrite <- (sumn_scal_l (length r) (A i l) (fun j => nth j r 0 * fiter n A j v l)).
    apply sumn_ext; intros; ring.
Qed.

(* evalOpTraining: store[0] is the Horner value, store[j] the value of the polynomial with coefficients c_j.. *)
Lemma eval_op_training_hd n Op c inv i :
  c <> [] -> (i < n)%nat ->
  vget (hd [] (eval_op_training n Op c inv)) i == poly_apply n (get Op) c (vget inv) i.
Proof.
  revert i. induction c as [|c0 r IH]; intros i Hc Hi; [contradiction|].
  destruct r as [|c1 r'].
  - cbn [eval_op_training hd]. rewrite vget_scal by exact Hi.
    unfold poly_apply. cbn [length sumn nth fiter]. ring.
  - change (eval_op_training n Op (c0 :: c1 :: r') inv)
      with (axpy n c0 inv (mmv n n Op (hd [] (eval_op_training n Op (c1 :: r') inv))) :: eval_op_training n Op (c1 :: r') inv).
    cbn [hd]. rewrite vget_axpy by exact Hi. rewrite vget_mmv by exact Hi.
    rewrite poly_apply_cons. apply Qplus_comp; [reflexivity|].
    apply fmv_ext_r. intros l Hl. apply IH; [discriminate|exact Hl].
Qed.

(* evalOpCumul adds the polynomial applied to inv to the destination *)
Lemma fiter_mmv n Op j w i : (i < n)%nat ->
  fiter n (get Op) j (vget (mmv n n Op w)) i == fiter n (get Op) (S j) (vget w) i.
Proof.
  intro Hi.
  rewrite (fiter_ext n (get Op) j (vget (mmv n n Op w)) (fmv n (get Op) (vget w)))
    by (intros; try apply vget_mmv; assumption).
  apply fiter_comm.
Qed.

Lemma cumul_loop_spec n Op cs :
  forall w outv i, (i < n)%nat ->
  vget (cumul_loop n Op cs w outv) i ==
  vget outv i + sumn (length cs) (fun j => nth j cs 0 * fiter n (get Op) j (vget w) i).
Proof.
  induction cs as [|c r IH]; intros w outv i Hi.
  - cbn [cumul_loop length sumn]. ring.
  - rewrite (sumn_cons_nth c r (fun j => fiter n (get Op) j (vget w) i)). cbn [fiter].
    destruct r as [|c1 r'].
    + cbn [cumul_loop length sumn]. rewrite vget_axpy by exact Hi. ring.
    + change (cumul_loop n Op (c :: c1 :: r') w outv)
        with (cumul_loop n Op (c1 :: r') (mmv n n Op w) (axpy n c w outv)).
      rewrite IH by exact Hi. rewrite vget_axpy by exact Hi.
      rewrite (sumn_ext (length (c1 :: r')) (fun j => nth j (c1 :: r') 0 * fiter n (get Op) j (vget (mmv n n Op w)) i)
                                            (fun k => nth k (c1 :: r') 0 * fmv n (get Op) (fiter n (get Op) k (vget w)) i)).
      * ring.
      * intros j _. apply Qmult_comp; [reflexivity|]. apply (fiter_mmv n Op j w i Hi).
Qed.

Lemma eval_op_cumul_spec n Op c inv outv i :
  c <> [] -> (i < n)%nat ->
  vget (eval_op_cumul n Op c inv outv) i == vget outv i + poly_apply n (get Op) c (vget inv) i.
Proof.
  intros Hc Hi. destruct c as [|c0 r]; [contradiction|].
  unfold eval_op_cumul. rewrite cumul_loop_spec by exact Hi. rewrite vget_axpy by exact Hi.
  unfold poly_apply. rewrite (sumn_cons_nth c0 r (fun j => fiter n (get Op) j (vget inv) i)). cbn [fiter].
  rewrite (sumn_ext (length r) (fun j => nth j r 0 * fiter n (get Op) j (vget (mmv n n Op inv)) i)
                               (fun k => nth k r 0 * fmv n (get Op) (fiter n (get Op) k (vget inv)) i)).
  - ring.
  - intros j _. apply Qmult_comp; [reflexivity|]. apply (fiter_mmv n Op j inv i Hi).
Qed.

(* ------------------------------------------------------------------ matrix powers *)
Lemma fmv_fpow n A k w i : (i < n)%nat -> fmv n (fpow n A k) w i == fiter n A k w i.
Proof.
  revert w i. induction k as [|k IH]; intros w i Hi.
  - cbn [fpow fiter]. apply fmv_delta; exact Hi.
  - cbn [fpow]. rewrite <- fmv_fmv. rewrite IH by exact Hi. apply fiter_comm.
Qed.

Lemma fmv_poly_mat n A c w i : (i < n)%nat -> fmv n (poly_mat n A c) w i == poly_apply n A c w i.
Proof.
  intro Hi. unfold poly_mat, poly_apply, fmv.
  rewrite (sumn_ext n (fun l => sumn (length c) (fun k => nth k c 0 * fpow n A k i l) * w l)
                      (fun l => sumn (length c) (fun k => nth k c 0 * (fpow n A k i l * w l))))
    by (intros l _; rewrite <- sumn_scal_r; apply sumn_ext; intros; ring).
  rewrite sumn_swap. apply sumn_ext. intros k _. rewrite sumn_scal_l.
  apply Qmult_comp; [reflexivity|]. apply (fmv_fpow n A k w i Hi).
Qed.

(* ------------------------------------------------------------------ PrecisionOpCs::_build_Q *)
Lemma build_loop_cons n Sm c r Qm Bi :
  build_loop n Sm (c :: r) Qm Bi =
  let Q' := mkr n n (fun i j => get Qm i j + c * get Bi i j) in
  match r with [] => Q' | _ => build_loop n Sm r Q' (mmul n n n Bi Sm) end.
Proof. reflexivity. Qed.

Lemma build_loop_spec n Sm cs :
  forall Qm Bi m,
  (forall i j, (i < n)%nat -> (j < n)%nat -> get Bi i j == fpow n (get Sm) m i j) ->
  forall i j, (i < n)%nat -> (j < n)%nat ->
  get (build_loop n Sm cs Qm Bi) i j ==
  get Qm i j + sumn (length cs) (fun k => nth k cs 0 * fpow n (get Sm) (m + k) i j).
Proof.
  induction cs as [|c r IH]; intros Qm Bi m HB i j Hi Hj.
  - cbn [build_loop length sumn]. ring.
  - rewrite (sumn_cons_nth c r (fun k => fpow n (get Sm) (m + k) i j)). rewrite Nat.add_0_r.
    rewrite build_loop_cons. cbv zeta. destruct r as [|c1 r'].
    + rewrite get_mkr by assumption. cbn [length sumn]. rewrite HB by assumption. ring.
    + rewrite (IH _ _ (S m)); try assumption.
      * rewrite get_mkr by assumption. rewrite HB by assumption.
        rewrite (sumn_ext (length (c1 :: r')) (fun k => nth k (c1 :: r') 0 * fpow n (get Sm) (S m + k) i j)
                                              (fun k => nth k (c1 :: r') 0 * fpow n (get Sm) (m + S k) i j))
          by (intros k _; replace (m + S k)%nat with (S m + k)%nat by lia; reflexivity).
        ring.
      * intros a b Ha Hb. rewrite get_mmul by assumption.
        change (fpow n (get Sm) (S m) a b) with (fmul n (fpow n (get Sm) m) (get Sm) a b).
        apply fmul_ext; intros l Hl; [apply HB; assumption|reflexivity].
Qed.

Lemma build_Q_entries n Sm lam c i j :
  c <> [] -> (i < n)%nat -> (j < n)%nat ->
  get (build_Q n Sm lam c) i j == Qspec n (get Sm) (vget lam) c i j.
Proof.
  intros Hc Hi Hj. destruct c as [|c0 r]; [contradiction|].
  unfold build_Q, Qspec. rewrite get_mkr by assumption.
  apply Qmult_comp; [|reflexivity]. apply Qmult_comp; [reflexivity|].
  rewrite (build_loop_spec n Sm r _ Sm 1%nat); try assumption.
  - rewrite get_mk by assumption. unfold poly_mat.
    rewrite (sumn_cons_nth c0 r (fun k => fpow n (get Sm) k i j)).
    apply Qplus_comp; [reflexivity|]. apply sumn_ext. intros k _. reflexivity.
  - intros a b Ha Hb. change (fpow n (get Sm) 1 a b) with (fmul n delta (get Sm) a b).
    symmetry. apply fmul_delta_l; exact Ha.
Qed.

(* ------------------------------------------------------------------ matrix-free = assembled *)
Lemma add_eval_power_spec n Sm lam c v i :
  c <> [] -> (i < n)%nat ->
  vget (add_eval_power n Sm lam c v) i ==
  vget lam i * poly_apply n (get Sm) c (fun l => vget lam l * vget v l) i.
Proof.
  intros Hc Hi. unfold add_eval_power. rewrite vget_prod_lambda by exact Hi.
  rewrite eval_op_spec by assumption.
  rewrite Qmult_comm. apply Qmult_comp; [reflexivity|].
  unfold poly_apply. apply sumn_ext. intros k _. apply Qmult_comp; [reflexivity|].
  apply fiter_ext; [|exact Hi]. intros l Hl. rewrite vget_prod_lambda by exact Hl. ring.
Qed.

Lemma fmv_Qspec n A lam c v i :
  (i < n)%nat -> fmv n (Qspec n A lam c) v i == lam i * poly_apply n A c (fun l => lam l * v l) i.
Proof.
  intro Hi. rewrite <- fmv_poly_mat by exact Hi. unfold Qspec, fmv.
  rewrite <- sumn_scal_l. apply sumn_ext. intros; ring.
Qed.

Lemma free_eq_assembled n Sm lam c v i :
  c <> [] -> (i < n)%nat ->
  vget (eval_direct_cs n Sm lam c v) i == vget (add_eval_power n Sm lam c v) i.
Proof.
  intros Hc Hi. unfold eval_direct_cs. rewrite vget_mmv by exact Hi.
  rewrite add_eval_power_spec by assumption.
  rewrite <- fmv_Qspec by exact Hi.
  apply fmv_ext; [|intros; reflexivity]. intros l Hl. apply build_Q_entries; assumption.
Qed.

Lemma training_eq_plain n Sm lam c v i :
  c <> [] -> (i < n)%nat ->
  vget (add_eval_power_training n Sm lam c v) i == vget (add_eval_power n Sm lam c v) i.
Proof.
  intros Hc Hi. unfold add_eval_power_training, add_eval_power.
  rewrite !vget_prod_lambda by exact Hi. apply Qmult_comp; [|reflexivity].
  rewrite eval_op_spec by assumption.
  destruct c as [|c0 r]; [contradiction|].
  assert (E : forall d, hd d (eval_op_training n Sm (c0 :: r) (prod_lambda n lam v)) =
                        hd [] (eval_op_training n Sm (c0 :: r) (prod_lambda n lam v))).
  { intro d. destruct r; reflexivity. }
  rewrite E. apply eval_op_training_hd; [discriminate|exact Hi].
Qed.

(* ------------------------------------------------------------------ symmetry *)
Lemma fpow_comm n A k i j : (i < n)%nat -> (j < n)%nat ->
  fmul n (fpow n A k) A i j == fmul n A (fpow n A k) i j.
Proof.
  revert i j. induction k as [|k IH]; intros i j Hi Hj.
  - cbn [fpow]. rewrite fmul_delta_l, fmul_delta_r by assumption. reflexivity.
  - cbn [fpow]. rewrite (fmul_ext n (fmul n (fpow n A k) A) (fmul n A (fpow n A k)) A A i j)
      by (intros; try reflexivity; apply IH; assumption).
    apply fmul_assoc.
Qed.

Lemma fpow_sym n A k : fsym n A -> fsym n (fpow n A k).
Proof.
  intro HS. induction k as [|k IH]; intros i j Hi Hj.
  - cbn [fpow]. rewrite delta_sym. reflexivity.
  - cbn [fpow]. rewrite (fpow_comm n A k j i Hj Hi). unfold fmul. apply sumn_ext. intros l Hl.
    rewrite (IH i l Hi Hl), (HS l j Hl Hj). ring.
Qed.

Lemma Qspec_sym n A lam c : fsym n A -> fsym n (Qspec n A lam c).
Proof.
  intros HS i j Hi Hj. unfold Qspec, poly_mat.
  rewrite (sumn_ext (length c) (fun k => nth k c 0 * fpow n A k i j) (fun k => nth k c 0 * fpow n A k j i))
    by (intros k _; rewrite (fpow_sym n A k HS i j Hi Hj); reflexivity).
  ring.
Qed.

Lemma build_Q_sym n Sm lam c :
  c <> [] -> fsym n (get Sm) -> fsym n (get (build_Q n Sm lam c)).
Proof.
  intros Hc HS i j Hi Hj. rewrite !build_Q_entries by assumption. apply Qspec_sym; assumption.
Qed.

(* ------------------------------------------------------------------ positivity *)
Lemma fdot_sq_nonneg n x : 0 <= fdot n x x.
Proof. unfold fdot. apply sumn_nonneg. intros i _. nra. Qed.

(* for a symmetric A:  (A^a y) . (A^b y) = y . A^(a+b) y *)
Lemma fdot_fiter_shift n A a b y : fsym n A ->
  fdot n (fiter n A a y) (fiter n A b y) == fdot n y (fiter n A (a + b) y).
Proof.
  intro HS. revert b. induction a as [|a IH]; intro b; [reflexivity|].
  cbn [fiter]. rewrite fdot_comm. rewrite (dual_eq_primal n A (fiter n A b y) (fiter n A a y) HS).
  rewrite fdot_comm.
  change (fmv n A (fiter n A b y)) with (fiter n A (S b) y).
  rewrite IH. replace (a + S b)%nat with (S a + b)%nat by lia. reflexivity.
Qed.

Lemma fdot_fiter_nonneg n A k y : fsym n A -> fpsd n A -> 0 <= fdot n y (fiter n A k y).
Proof.
  intros HS HP. destruct (Nat.Even_or_Odd k) as [[m Hm]|[m Hm]]; subst k.
  - replace (2 * m)%nat with (m + m)%nat by lia. rewrite <- fdot_fiter_shift by exact HS. apply fdot_sq_nonneg.
  - replace (2 * m + 1)%nat with (m + S m)%nat by lia. rewrite <- fdot_fiter_shift by exact HS.
    cbn [fiter]. apply HP.
Qed.

Lemma fdot_poly n A c y :
  fdot n y (poly_apply n A c y) == sumn (length c) (fun k => nth k c 0 * fdot n y (fiter n A k y)).
Proof.
  unfold fdot, poly_apply.
  rewrite (sumn_ext n (fun l => y l * sumn (length c) (fun j => nth j c 0 * fiter n A j y l))
                      (fun l => sumn (length c) (fun j => nth j c 0 * (y l * fiter n A j y l))))
    by (intros l _; rewrite <- sumn_scal_l; apply sumn_ext; intros; ring).
  rewrite sumn_swap. apply sumn_ext. intros k _. rewrite sumn_scal_l. reflexivity.
Qed.

Lemma fdot_Qspec n A lam c x :
  fdot n x (fmv n (Qspec n A lam c) x) ==
  fdot n (fun l => lam l * x l) (poly_apply n A c (fun l => lam l * x l)).
Proof.
  unfold fdot. apply sumn_ext. intros i Hi. rewrite fmv_Qspec by exact Hi. ring.
Qed.

Definition coeffs_nonneg (c : list Q) : Prop := forall k, 0 <= nth k c 0.

Lemma Qspec_psd n A lam c : fsym n A -> fpsd n A -> coeffs_nonneg c -> fpsd n (Qspec n A lam c).
Proof.
  intros HS HP Hc x. rewrite fdot_Qspec, fdot_poly. apply sumn_nonneg. intros k _.
  assert (0 <= fdot n (fun l => lam l * x l) (fiter n A k (fun l => lam l * x l))) by (apply fdot_fiter_nonneg; assumption).
  specialize (Hc k). nra.
Qed.

Lemma Qspec_pd n A lam c :
  fsym n A -> fpsd n A -> coeffs_nonneg c -> 0 < nth 0 c 0 ->
  (forall i, (i < n)%nat -> ~ lam i == 0) -> fpd n (Qspec n A lam c).
Proof.
  intros HS HP Hc H0 Hl x [i [Hi Hx]]. rewrite fdot_Qspec, fdot_poly.
  destruct c as [|c0 r]; [cbn [nth] in H0; lra|].
  set (y := fun l => lam l * x l).
  rewrite (sumn_cons_nth c0 r (fun k => fdot n y (fiter n A k y))). cbn [nth] in H0.
  change (fiter n A 0 y) with y.
  assert (Hy : 0 < fdot n y y).
  { unfold fdot. apply (sumn_pos_term n _ i); [intros k _; nra|exact Hi|].
    assert (Hne : ~ y i == 0). { unfold y. intro E. specialize (Hl i Hi). apply Qmult_integral in E. tauto. }
    destruct (Qlt_le_dec 0 (y i)) as [Hp|Hp]; [nra|].
    assert (y i < 0) by (destruct (Qeq_dec (y i) 0); [contradiction|lra]). nra. }
  assert (Hr : 0 <= sumn (length r) (fun k => nth k r 0 * fdot n y (fiter n A (S k) y))).
  { apply sumn_nonneg. intros k _.
    assert (0 <= fdot n y (fiter n A (S k) y)) by (apply fdot_fiter_nonneg; assumption).
    specialize (Hc (S k)). cbn [nth] in Hc. nra. }
  assert (0 < c0 * fdot n y y) by (apply Qmult_lt_0_compat; assumption).
  lra.
Qed.

Lemma fpsd_ext n A B : (forall i j, (i < n)%nat -> (j < n)%nat -> A i j == B i j) -> fpsd n A -> fpsd n B.
Proof.
  intros E H x. specialize (H x).
  rewrite (fdot_ext n x x (fmv n B x) (fmv n A x)); [exact H|intros; reflexivity|].
  intros l Hl. apply fmv_ext; [|intros; reflexivity]. intros k Hk. symmetry. apply E; assumption.
Qed.
Lemma fpd_ext n A B : (forall i j, (i < n)%nat -> (j < n)%nat -> A i j == B i j) -> fpd n A -> fpd n B.
Proof.
  intros E H x Hx. specialize (H x Hx).
  rewrite (fdot_ext n x x (fmv n B x) (fmv n A x)); [exact H|intros; reflexivity|].
  intros l Hl. apply fmv_ext; [|intros; reflexivity]. intros k Hk. symmetry. apply E; assumption.
Qed.

Lemma build_Q_psd n Sm lam c :
  c <> [] -> fsym n (get Sm) -> fpsd n (get Sm) -> coeffs_nonneg c -> fpsd n (get (build_Q n Sm lam c)).
Proof.
  intros Hc HS HP Hn. apply (fpsd_ext n (Qspec n (get Sm) (vget lam) c)).
  - intros. symmetry. apply build_Q_entries; assumption.
  - apply Qspec_psd; assumption.
Qed.
Lemma build_Q_pd n Sm lam c :
  fsym n (get Sm) -> fpsd n (get Sm) -> coeffs_nonneg c -> 0 < nth 0 c 0 ->
  (forall i, (i < n)%nat -> ~ vget lam i == 0) -> fpd n (get (build_Q n Sm lam c)).
Proof.
  intros HS HP Hn H0 Hl.
  assert (Hc : c <> []) by (intro E; subst c; cbn [nth] in H0; lra).
  apply (fpd_ext n (Qspec n (get Sm) (vget lam) c)).
  - intros. symmetry. apply build_Q_entries; assumption.
  - apply Qspec_pd; assumption.
Qed.


(* ------------------------------------------------------------------ addToDest *)
Lemma add_to_dest_cs_spec n Sm lam c inv outv i :
  c <> [] -> (i < n)%nat ->
  vget (add_to_dest_cs n Sm lam c inv outv) i == vget outv i + vget (add_eval_power n Sm lam c inv) i.
Proof.
  intros Hc Hi. unfold add_to_dest_cs. rewrite vget_vkr by exact Hi.
  apply Qplus_comp; [reflexivity|]. apply (free_eq_assembled n Sm lam c inv i Hc Hi).
Qed.

Lemma add_to_dest_free_spec n Sm lam c inv outv i :
  (i < n)%nat ->
  vget (add_to_dest_free n Sm lam c inv outv) i == vget outv i + vget (add_eval_power n Sm lam c inv) i.
Proof. intro Hi. unfold add_to_dest_free. apply vget_vkr; exact Hi. Qed.

Lemma add_to_dest_agree n Sm lam c inv outv i :
  c <> [] -> (i < n)%nat ->
  vget (add_to_dest_free n Sm lam c inv outv) i == vget (add_to_dest_cs n Sm lam c inv outv) i /\
  vget (add_to_dest_cs n Sm lam c inv outv) i == vget outv i + fmv n (Qspec n (get Sm) (vget lam) c) (vget inv) i.
Proof.
  intros Hc Hi. rewrite add_to_dest_free_spec, add_to_dest_cs_spec by assumption. split; [reflexivity|].
  apply Qplus_comp; [reflexivity|]. rewrite add_eval_power_spec by assumption. symmetry. apply fmv_Qspec; exact Hi.
Qed.

(* C15 proofs, projection matrix as a linear map (mesh2point / point2mesh are adjoint) and the kriging system. *)
From Coq Require Import List Arith ZArith QArith Qabs Bool Lqa Lia Setoid Morphisms.
From Gst Require Import lib.QAux lib.LinAlgQ C15.Model C15.ModelOp C15.ModelShift C15.ModelKrig C15.Spec C15.Proofs_op C15.Proofs_shift.
Import ListNotations.
Local Open Scope Q_scope.

Definition cols_in (n : nat) (r : list (Z * Q)) : Prop := Forall (fun e => (0 <= fst e < Z.of_nat n)%Z) r.

(* the sparse row applied to a vector = the dense row applied to it *)
Lemma row_apply_dense n r v : cols_in n r -> row_apply r v == sumn n (fun c => dense_entry r c * vget v c).
Proof.
  induction 1 as [|e r He _ IH]; unfold row_apply, dense_entry in *; cbn [map lsumQ fold_right].
  - symmetry. apply sumn_zero. intros; ring.
  - unfold lsumQ in IH. rewrite IH.
    rewrite (sumn_ext n (fun c => ((if Z.eqb (fst e) (Z.of_nat c) then snd e else 0) +
                                   fold_right Qplus 0 (map (fun e0 => if Z.eqb (fst e0) (Z.of_nat c) then snd e0 else 0) r)) * vget v c)
                        (fun c => delta (Z.to_nat (fst e)) c * (snd e * vget v c) +
                                  fold_right Qplus 0 (map (fun e0 => if Z.eqb (fst e0) (Z.of_nat c) then snd e0 else 0) r) * vget v c)).
    + rewrite sumn_add. rewrite sumn_delta_l by lia.
      destruct (Z.ltb_spec (fst e) 0); [lia|]. reflexivity.
    + intros c Hc. unfold delta.
      destruct (Z.eqb_spec (fst e) (Z.of_nat c)) as [E|E]; destruct (Nat.eqb_spec (Z.to_nat (fst e)) c) as [E'|E']; try lia; ring.
Qed.

(* <A v, y> = <v, A^T y> *)
Lemma adjoint_dense n m (A : fmat) (v y : fvec) :
  fdot m y (fun k => sumn n (fun c => A k c * v c)) == fdot n v (fun c => sumn m (fun k => A k c * y k)).
Proof. rewrite (fdot_transpose n m A v y). apply fdot_comm. Qed.

Lemma vget_map_rows {A} (f : A -> Q) (l : list A) (d : A) k : (k < length l)%nat -> vget (map f l) k = f (nth k l d).
Proof. intro H. unfold vget. rewrite (nth_indep _ 0 (f d)) by (rewrite map_length; exact H). apply map_nth. Qed.

Lemma mesh2point_point2mesh_adjoint n rows v y :
  Forall (cols_in n) rows ->
  fdot (length rows) (vget y) (vget (mesh2point rows v)) == fdot n (vget v) (vget (point2mesh n rows y)).
Proof.
  intro Hc.
  rewrite (fdot_ext (length rows) (vget y) (vget y) (vget (mesh2point rows v)) (fun k => sumn n (fun c => dense_A rows k c * vget v c))).
  - rewrite adjoint_dense. apply fdot_ext; [intros; reflexivity|]. intros c Hcn.
    unfold point2mesh. rewrite vget_vkr by exact Hcn. rewrite sumnr_sumn. reflexivity.
  - intros; reflexivity.
  - intros k Hk. unfold mesh2point. rewrite (vget_map_rows (fun r => row_apply r v) rows [] k Hk).
    unfold dense_A. apply row_apply_dense. rewrite Forall_forall in Hc. apply Hc. apply nth_In; exact Hk.
Qed.

(* ------------------------------------------------------------------ the kriging system *)
Definition inv_var (var : list Q) : fmat := fun k l => if Nat.eqb k l then / vget var k else 0.

Lemma inv_var_psd m var : (forall k, (k < m)%nat -> 0 < vget var k) -> fpsd m (inv_var var).
Proof.
  intros Hv x. unfold fdot, fmv. apply sumn_nonneg. intros k Hk.
  rewrite (sumn_ext m (fun l => inv_var var k l * x l) (fun l => delta k l * (/ vget var k * x l))).
  - rewrite sumn_delta_l by exact Hk. assert (0 < / vget var k) by (apply Qinv_lt_0_compat, Hv, Hk).
    assert (0 <= x k * x k) by nra. nra.
  - intros l _. unfold inv_var, delta. destruct (Nat.eqb k l); ring.
Qed.

Lemma krig_matrix_entries n Qm rows var i j : (i < n)%nat -> (j < n)%nat ->
  get (krig_matrix n Qm rows var) i j == get Qm i j + congr (length rows) (dense_A rows) (inv_var var) i j.
Proof.
  intros Hi Hj. unfold krig_matrix. rewrite get_mkr by assumption. apply Qplus_comp; [reflexivity|].
  rewrite sumnr_sumn. unfold congr. apply sumn_ext. intros p Hp.
  rewrite (sumn_ext (length rows) (fun q => dense_A rows p i * inv_var var p q * dense_A rows q j)
                                  (fun q => delta p q * (dense_A rows p i * / vget var p * dense_A rows q j))).
  - rewrite sumn_delta_l by exact Hp. reflexivity.
  - intros q _. unfold inv_var, delta. destruct (Nat.eqb p q); ring.
Qed.

Lemma fdot_fmv_add n A B x : fdot n x (fmv n (fun i j => A i j + B i j) x) == fdot n x (fmv n A x) + fdot n x (fmv n B x).
Proof.
  unfold fdot, fmv. rewrite <- sumn_add. apply sumn_ext. intros i _.
  rewrite (sumn_ext n (fun l => (A i l + B i l) * x l) (fun l => A i l * x l + B i l * x l)) by (intros; ring).
  rewrite sumn_add. ring.
Qed.

(* the posterior precision Q + A^T R^-1 A is positive definite as soon as Q is and the data variances are positive *)
Lemma krig_matrix_pd n Qm rows var :
  fpd n (get Qm) -> (forall k, (k < length rows)%nat -> 0 < vget var k) -> fpd n (get (krig_matrix n Qm rows var)).
Proof.
  intros HQ Hv.
  apply (fpd_ext n (fun i j => get Qm i j + congr (length rows) (dense_A rows) (inv_var var) i j)).
  - intros i j Hi Hj. symmetry. apply krig_matrix_entries; assumption.
  - intros x Hx. rewrite fdot_fmv_add.
    assert (0 < fdot n x (fmv n (get Qm) x)) by (apply HQ, Hx).
    assert (0 <= fdot n x (fmv n (congr (length rows) (dense_A rows) (inv_var var)) x)) by (apply congr_psd, inv_var_psd, Hv).
    lra.
Qed.

(* a positive definite system has at most one solution *)
Lemma fmv_sub n A w w' i : fmv n A (fun l => w l - w' l) i == fmv n A w i - fmv n A w' i.
Proof.
  unfold fmv. rewrite <- sumn_sub. apply sumn_ext. intros; ring.
Qed.

Lemma fpd_unique n A w w' :
  fpd n A -> (forall i, (i < n)%nat -> fmv n A w i == fmv n A w' i) -> forall i, (i < n)%nat -> w i == w' i.
Proof.
  intros HA Heq i Hi. destruct (Qeq_dec (w i) (w' i)) as [E|E]; [exact E|]. exfalso.
  set (z := fun l => w l - w' l).
  assert (Hz : exists k, (k < n)%nat /\ ~ z k == 0). { exists i. split; [exact Hi|]. unfold z. intro H0. apply E. lra. }
  pose proof (HA z Hz) as Hpos.
  assert (H0 : fdot n z (fmv n A z) == 0).
  { unfold fdot. apply sumn_zero. intros l Hl. unfold z at 2. rewrite fmv_sub. rewrite (Heq l Hl). ring. }
  lra.
Qed.

(* the vector returned by the model solves the kriging system, and nothing else does when Q is positive definite *)
Lemma krig_solve_correct n Qm rows var y z :
  krig_solve n Qm rows var y = Some z ->
  forall i, (i < n)%nat -> fmv n (get (krig_matrix n Qm rows var)) (vget z) i == vget (krig_rhs n rows var y) i.
Proof.
  unfold krig_solve. set (M := krig_matrix n Qm rows var). set (b := krig_rhs n rows var y).
  destruct (solve_checked n 1 M (map (fun x => [x]) b)) as [W|] eqn:E; [|discriminate].
  intro H. injection H as H. subst z. intros i Hi.
  pose proof (solve_checked_correct n 1 M _ W E i 0%nat Hi (Nat.lt_0_1)) as Hc.
  unfold fmul in Hc. unfold fmv.
  rewrite (sumn_ext n (fun l => get M i l * vget (map (fun r => nth 0 r 0) W) l) (fun l => get M i l * get W l 0)).
  - rewrite Hc. unfold get, vget. destruct (Nat.lt_ge_cases i (length b)) as [L|L].
    + rewrite (nth_indep _ [] [0]) by (rewrite map_length; exact L). rewrite (map_nth (fun x => [x]) b 0 i). reflexivity.
    + rewrite (nth_overflow (map _ b)) by (rewrite map_length; exact L). rewrite (nth_overflow b) by exact L. destruct i; reflexivity.
  - intros l Hl. apply Qmult_comp; [reflexivity|]. unfold vget, get.
    destruct (Nat.lt_ge_cases l (length W)) as [L|L].
    + rewrite (nth_indep _ 0 (nth 0 [] 0)) by (rewrite map_length; exact L). rewrite (map_nth (fun r => nth 0 r 0) W [] l). reflexivity.
    + rewrite (nth_overflow (map _ W)) by (rewrite map_length; exact L). rewrite (nth_overflow W) by exact L. reflexivity.
Qed.

Lemma krig_solution_unique n Qm rows var y z w :
  fpd n (get Qm) -> (forall k, (k < length rows)%nat -> 0 < vget var k) ->
  krig_solve n Qm rows var y = Some z ->
  (forall i, (i < n)%nat -> fmv n (get (krig_matrix n Qm rows var)) w i == vget (krig_rhs n rows var y) i) ->
  forall i, (i < n)%nat -> w i == vget z i.
Proof.
  intros HQ Hv Hs Hw. apply (fpd_unique n (get (krig_matrix n Qm rows var))).
  - apply krig_matrix_pd; assumption.
  - intros i Hi. rewrite (Hw i Hi). symmetry. apply (krig_solve_correct n Qm rows var y z Hs i Hi).
Qed.

(* ------------------------------------------------------------------ several structures: block-diagonal precision *)

Lemma block_diag_quad n Qm r x :
  fdot (n + block_size r) x (fmv (n + block_size r) (block_diag ((n, Qm) :: r)) x) ==
  fdot n x (fmv n (get Qm) x) + fdot (block_size r) (fun i => x (n + i)%nat) (fmv (block_size r) (block_diag r) (fun i => x (n + i)%nat)).
Proof.
  unfold fdot. rewrite sumn_split. apply Qplus_comp.
  - apply sumn_ext. intros i Hi. apply Qmult_comp; [reflexivity|]. unfold fmv. rewrite sumn_split.
    rewrite (sumn_zero (block_size r)).
    + rewrite Qplus_0_r. apply sumn_ext. intros l Hl. cbn [block_diag].
      destruct (Nat.ltb_spec i n); [|lia]. destruct (Nat.ltb_spec l n); [|lia]. reflexivity.
    + intros l _. cbn [block_diag]. destruct (Nat.ltb_spec i n); [|lia]. destruct (Nat.ltb_spec (n + l) n); [lia|]. ring.
  - apply sumn_ext. intros i Hi. apply Qmult_comp; [reflexivity|]. unfold fmv. rewrite sumn_split.
    rewrite (sumn_zero n).
    + rewrite Qplus_0_l. apply sumn_ext. intros l Hl. cbn [block_diag].
      destruct (Nat.ltb_spec (n + i) n); [lia|]. destruct (Nat.ltb_spec (n + l) n); [lia|].
      replace (n + i - n)%nat with i by lia. replace (n + l - n)%nat with l by lia. reflexivity.
    + intros l Hl. cbn [block_diag]. destruct (Nat.ltb_spec (n + i) n); [lia|]. destruct (Nat.ltb_spec l n); [|lia]. ring.
Qed.

Lemma block_diag_psd blocks : Forall (fun b => fpsd (fst b) (get (snd b))) blocks -> fpsd (block_size blocks) (block_diag blocks).
Proof.
  induction 1 as [|[n Qm] r Hb _ IH]; intro x.
  - cbn [block_size]. unfold fdot. cbn [sumn]. lra.
  - cbn [block_size]. rewrite block_diag_quad. cbn [fst snd] in Hb.
    pose proof (Hb x). pose proof (IH (fun i => x (n + i)%nat)). lra.
Qed.

Lemma fpd_fpsd n A : fpd n A -> fpsd n A.
Proof.
  intros H y. destruct (Qlt_le_dec (fdot n y (fmv n A y)) 0) as [L|L]; [|exact L]. exfalso.
  assert (Hz : forall k, (k < n)%nat -> y k == 0).
  { intros k Hk. destruct (Qeq_dec (y k) 0) as [E|E]; [exact E|]. exfalso.
    assert (0 < fdot n y (fmv n A y)) by (apply H; exists k; split; assumption). lra. }
  assert (fdot n y (fmv n A y) == 0) by (unfold fdot; apply sumn_zero; intros k Hk; rewrite (Hz k Hk); ring). lra.
Qed.

Lemma block_diag_pd blocks : Forall (fun b => fpd (fst b) (get (snd b))) blocks -> fpd (block_size blocks) (block_diag blocks).
Proof.
  induction 1 as [|[n Qm] r Hb Hr IH]; intros x [i [Hi Hx]].
  - cbn [block_size] in Hi. lia.
  - cbn [block_size] in *. rewrite block_diag_quad. cbn [fst snd] in Hb.
    assert (Hrp : Forall (fun b => fpsd (fst b) (get (snd b))) r).
    { clear -Hr. induction Hr as [|b bs H1 _ IHf]; constructor; [apply fpd_fpsd, H1|exact IHf]. }
    destruct (Nat.lt_ge_cases i n) as [L|L].
    + assert (0 < fdot n x (fmv n (get Qm) x)) by (apply Hb; exists i; split; assumption).
      pose proof (block_diag_psd r Hrp (fun k => x (n + k)%nat)). lra.
    + assert (0 < fdot (block_size r) (fun k => x (n + k)%nat) (fmv (block_size r) (block_diag r) (fun k => x (n + k)%nat))).
      { apply IH. exists (i - n)%nat. split; [lia|]. replace (n + (i - n))%nat with i by lia. exact Hx. }
      pose proof (fpd_fpsd n (get Qm) Hb x). lra.
Qed.

Lemma block_diag_mat_pd blocks :
  Forall (fun b => fpd (fst b) (get (snd b))) blocks -> fpd (block_size blocks) (get (block_diag_mat blocks)).
Proof.
  intro H. apply (fpd_ext (block_size blocks) (block_diag blocks)).
  - intros i j Hi Hj. unfold block_diag_mat. rewrite get_mk by assumption. reflexivity.
  - apply block_diag_pd, H.
Qed.

(* ------------------------------------------------------------------ any solver meeting its residual contract returns the solution *)
Lemma Qabs_sumn_le n f g : (forall i, (i < n)%nat -> Qabs (f i) <= g i) -> Qabs (sumn n f) <= sumn n g.
Proof.
  induction n as [|n IH]; intro H; cbn [sumn]; [apply Qabs_case; intros; lra|].
  eapply Qle_trans; [apply Qabs_triangle|]. apply Qplus_le_compat; [apply IH; intros; apply H; lia|apply H; lia].
Qed.

(* x - z = B (A x - b) when B is the inverse of A and A z = b *)
Lemma error_from_residual n A B b z x i :
  finv n A B -> (forall k, (k < n)%nat -> fmv n A z k == b k) -> (i < n)%nat ->
  x i - z i == sumn n (fun j => B i j * (fmv n A x j - b j)).
Proof.
  intros HB Hz Hi.
  rewrite (finv_unique_solution n A B (fmv n A x) x HB (fun k _ => Qeq_refl _) i Hi).
  rewrite (finv_unique_solution n A B b z HB Hz i Hi).
  unfold fmv at 1 3. rewrite <- sumn_sub. apply sumn_ext. intros; ring.
Qed.

(* a solver that leaves a residual of at most rho on every component, whatever its initial guess, returns the solution within
   rho x (absolute row sum of the inverse); two runs from two guesses differ by at most twice that *)
Lemma solution_independent_of_guess n A B b z (solver : fvec -> fvec) rho :
  finv n A B -> (forall k, (k < n)%nat -> fmv n A z k == b k) ->
  (forall guess k, (k < n)%nat -> Qabs (fmv n A (solver guess) k - b k) <= rho) ->
  forall g1 g2 i, (i < n)%nat ->
    Qabs (solver g1 i - z i) <= rho * sumn n (fun j => Qabs (B i j)) /\
    Qabs (solver g1 i - solver g2 i) <= 2 * rho * sumn n (fun j => Qabs (B i j)).
Proof.
  intros HB Hz Hs g1 g2 i Hi.
  assert (G : forall g, Qabs (solver g i - z i) <= rho * sumn n (fun j => Qabs (B i j))).
  { intro g. rewrite (error_from_residual n A B b z (solver g) i HB Hz Hi).
    eapply Qle_trans; [apply (Qabs_sumn_le n _ (fun j => Qabs (B i j) * rho))|].
    - intros j Hj. rewrite Qabs_Qmult. pose proof (Qabs_nonneg (B i j)). pose proof (Hs g j Hj).
      pose proof (Qabs_nonneg (fmv n A (solver g) j - b j)). nra.
    - rewrite (sumn_scal_r n rho (fun j => Qabs (B i j))). rewrite Qmult_comm. apply Qle_refl. }
  split; [apply G|].
  setoid_replace (solver g1 i - solver g2 i) with ((solver g1 i - z i) - (solver g2 i - z i)) by ring.
  eapply Qle_trans; [apply Qabs_triangle|]. rewrite Qabs_opp. pose proof (G g1). pose proof (G g2). lra.
Qed.

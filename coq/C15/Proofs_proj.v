(* C15 proofs, projection rows: what an accepted simplex guarantees, empty rows, alignment of the rows. *)
From Coq Require Import List Arith ZArith QArith Qabs Qminmax Bool Lqa Lia Setoid Morphisms.
From Gst Require Import lib.QAux lib.LinAlgQ C15.gen.MSS C15.Model C15.Spec C15.Proofs_tile.
Import ListNotations.
Local Open Scope Q_scope.

(* ------------------------------------------------------------------ barycentric weights reproduce affine functions *)
Lemma comb_affine ndim a b : forall l cs, length l = length cs ->
  wapply (affine ndim a b) l cs == b * lsumQ l + sumn ndim (fun d => a d * wcomb l cs d).
Proof.
  induction l as [|w l IH]; intros cs Hl; destruct cs as [|c cs]; try discriminate Hl.
  - unfold wapply, wcomb, lsumQ. cbn [C16.Model.map2 fold_right].
    rewrite (sumn_zero ndim) by (intros; ring). ring.
  - injection Hl as Hl. specialize (IH cs Hl).
    unfold wapply, wcomb, lsumQ in *. cbn [C16.Model.map2 fold_right]. rewrite IH.
    unfold affine.
    rewrite (sumn_ext ndim (fun d => a d * (w * nth d c 0 + fold_right Qplus 0 (C16.Model.map2 (fun w0 c0 => w0 * nth d c0 0) l cs)))
                           (fun d => w * (a d * nth d c 0) + a d * fold_right Qplus 0 (C16.Model.map2 (fun w0 c0 => w0 * nth d c0 0) l cs)))
      by (intros; ring).
    rewrite sumn_add. rewrite (sumn_scal_l ndim w (fun d => a d * nth d c 0)). ring.
Qed.

Lemma bary_affine ndim cs x l a b :
  bary_system ndim cs x l -> wapply (affine ndim a b) l cs == affine ndim a b x.
Proof.
  intros [Hl [Hs Hc]]. rewrite comb_affine by exact Hl. unfold wsum in Hs. rewrite Hs. unfold affine.
  rewrite (sumn_ext ndim (fun d => a d * wcomb l cs d) (fun d => a d * nth d x 0))
    by (intros d Hd; rewrite (Hc d Hd); reflexivity).
  ring.
Qed.

(* the weights of a point in a reference simplex are the weights of its image in the image simplex,
   for any map T that is affine (coefficients A, t0) on the corners and the point *)
Lemma wcomb_map l cs T idim : wcomb l (map T cs) idim = wapply (fun c => nth idim (T c) 0) l cs.
Proof.
  unfold wcomb, wapply. f_equal. revert cs. induction l as [|w l IH]; intros [|c cs]; cbn [map C16.Model.map2]; try reflexivity.
  f_equal. apply IH.
Qed.
Lemma wapply_ext f g l cs : (forall c, In c cs -> f c == g c) -> wapply f l cs == wapply g l cs.
Proof.
  unfold wapply. revert cs. induction l as [|w l IH]; intros [|c cs] H; cbn [C16.Model.map2 lsumQ fold_right]; try reflexivity.
  rewrite (H c) by (left; reflexivity). unfold lsumQ in IH. rewrite (IH cs) by (intros; apply H; right; assumption). reflexivity.
Qed.
Lemma bary_system_image ndim ucs u l (T : list Q -> list Q) (A : nat -> nat -> Q) (t0 : nat -> Q) :
  bary_system ndim ucs u l ->
  (forall c idim, In c ucs -> (idim < ndim)%nat -> nth idim (T c) 0 == affine ndim (A idim) (t0 idim) c) ->
  (forall idim, (idim < ndim)%nat -> nth idim (T u) 0 == affine ndim (A idim) (t0 idim) u) ->
  bary_system ndim (map T ucs) (T u) l.
Proof.
  intros Hb HT Hu. pose proof Hb as [Hl [Hs Hc]].
  split; [rewrite map_length; exact Hl|]. split; [exact Hs|].
  intros idim Hi. rewrite wcomb_map.
  rewrite (wapply_ext _ (affine ndim (A idim) (t0 idim))) by (intros c Hin; apply HT; assumption).
  rewrite (bary_affine ndim ucs u l) by exact Hb. symmetry. apply Hu; exact Hi.
Qed.

(* ------------------------------------------------------------------ clamping *)
Lemma clamp01_spec l : - eps6 <= l -> l <= 1 + eps6 ->
  0 <= clamp01 l /\ clamp01 l <= 1 /\ Qabs (clamp01 l - l) <= eps6 /\ (0 <= l -> l <= 1 -> clamp01 l = l).
Proof.
  intros H1 H2. unfold clamp01, eps6 in *.
  destruct (qltb_spec l 0) as [E|E]; [|destruct (qltb_spec 1 l) as [E'|E']].
  - split; [lra|]. split; [lra|]. split; [apply Qabs_case; intros; lra|intros; lra].
  - split; [lra|]. split; [lra|]. split; [apply Qabs_case; intros; lra|intros; lra].
  - split; [lra|]. split; [lra|]. split; [apply Qabs_case; intros; lra|intros; reflexivity].
Qed.

Lemma existsb_false_Forall {A} (f : A -> bool) l : existsb f l = false -> Forall (fun x => f x = false) l.
Proof.
  induction l as [|x l IH]; intro H; constructor; cbn [existsb] in H; apply orb_false_iff in H; [tauto|apply IH; tauto].
Qed.

Lemma lam_bad_false l : lam_bad l = false -> - eps6 <= l /\ l <= 1 + eps6.
Proof.
  unfold lam_bad. intro H. apply orb_false_iff in H. destruct H as [H1 H2].
  apply qltb_false in H1. apply qltb_false in H2. split; assumption.
Qed.

(* ------------------------------------------------------------------ MeshETurbo::_addWeights *)
Definition simplex_coords (t : turbo) (icas : nat) (indg0 : list Z) : list (list Q) :=
  map (C16.Model.node (t_grid t)) (simplex_inds (t_ndim t) (polarized (t_pol t) (t_ndim t) indg0) icas indg0).
Definition simplex_ranks (t : turbo) (icas : nat) (indg0 : list Z) : list Z :=
  map (C16.Model.indiceToRank (t_nx t)) (simplex_inds (t_ndim t) (polarized (t_pol t) (t_ndim t) indg0) icas indg0).

Lemma add_weights_ok t sb icas indg0 coor idx lam w m :
  add_weights t sb icas indg0 coor = Wok idx lam w m ->
  bary (simplex_coords t icas indg0) coor = Some lam /\
  w = map clamp01 lam /\
  Forall (fun l => lam_bad l = false) lam /\
  idx = map (atoR sb) (simplex_ranks t icas indg0) /\
  Forall (fun r => (r <? 0)%Z = false) (simplex_ranks t icas indg0) /\
  Forall (fun r => (r <? 0)%Z = false) idx.
Proof.
  unfold add_weights, simplex_coords, simplex_ranks. intro H.
  destruct (existsb (fun r => (r <? 0)%Z) (map (C16.Model.indiceToRank (t_nx t)) _)) eqn:E1; [discriminate|].
  destruct (existsb (fun r => (r <? 0)%Z) (map (atoR sb) _)) eqn:E2; [discriminate|].
  destruct (bary _ coor) as [lam'|] eqn:E3; [|discriminate].
  destruct (existsb lam_bad lam') eqn:E4; [discriminate|].
  injection H as H1 H2 H3 H4. subst.
  repeat split; try reflexivity.
  - apply existsb_false_Forall; exact E4.
  - apply existsb_false_Forall; exact E1.
  - apply existsb_false_Forall; exact E2.
Qed.

Lemma Forall_map_clamp lam :
  Forall (fun l => lam_bad l = false) lam ->
  Forall2 (fun l wc => - eps6 <= l /\ l <= 1 + eps6 /\ wc = clamp01 l /\ 0 <= wc /\ wc <= 1 /\ Qabs (wc - l) <= eps6)
          lam (map clamp01 lam).
Proof.
  induction 1 as [|l lam Hl _ IH]; cbn [map]; constructor; [|exact IH].
  apply lam_bad_false in Hl. destruct Hl as [H1 H2].
  destruct (clamp01_spec l H1 H2) as [A [B [C _]]]. repeat split; assumption.
Qed.

Lemma lsumQ_le_one l : all_nonneg l -> lsumQ l == 1 -> Forall (fun t => 0 <= t /\ t <= 1) l.
Proof.
  revert l. assert (G : forall l s, all_nonneg l -> lsumQ l <= s -> Forall (fun t => 0 <= t /\ t <= s) l).
  { induction l as [|x l IH]; intros s Hn Hs; constructor.
    - cbn [all_nonneg fold_right lsumQ] in *. destruct Hn as [Hx Hn].
      assert (0 <= lsumQ l). { clear -Hn. induction l as [|y l IH]; cbn [lsumQ fold_right all_nonneg] in *; [lra|]. destruct Hn. specialize (IH H0). unfold lsumQ in IH. lra. }
      unfold lsumQ in *. split; lra.
    - cbn [all_nonneg fold_right lsumQ] in *. destruct Hn as [Hx Hn]. apply IH; [exact Hn|]. unfold lsumQ in *. lra. }
  intros l Hn Hs. apply G; [exact Hn|lra].
Qed.

Lemma map_clamp_id lam : Forall (fun t => 0 <= t /\ t <= 1) lam -> map clamp01 lam = lam.
Proof.
  induction 1 as [|l lam [H0 H1] _ IH]; [reflexivity|]. cbn [map]. rewrite IH. f_equal.
  unfold clamp01. destruct (qltb_spec l 0); [lra|]. destruct (qltb_spec 1 l); [lra|]. reflexivity.
Qed.

(* what an accepted simplex guarantees *)
Lemma weights_affine t sb icas indg0 coor idx lam w m :
  add_weights t sb icas indg0 coor = Wok idx lam w m ->
  let cs := simplex_coords t icas indg0 in
  bary_system (length coor) cs coor lam /\
  Forall2 (fun l wc => - eps6 <= l /\ l <= 1 + eps6 /\ wc = clamp01 l /\ 0 <= wc /\ wc <= 1 /\ Qabs (wc - l) <= eps6) lam w /\
  (forall a b, wapply (affine (length coor) a b) lam cs == affine (length coor) a b coor) /\
  (all_nonneg lam -> w = lam /\ wsum w == 1 /\
                     forall a b, wapply (affine (length coor) a b) w cs == affine (length coor) a b coor).
Proof.
  intros H cs. destruct (add_weights_ok _ _ _ _ _ _ _ _ _ H) as [Hb [Hw [Hl _]]].
  pose proof (bary_sound _ _ _ Hb) as Hs. fold cs in Hs.
  split; [exact Hs|]. split; [subst w; apply Forall_map_clamp; exact Hl|].
  split; [intros a b; apply bary_affine; exact Hs|].
  intro Hn. destruct Hs as [Hlen [Hsum Hc]].
  assert (E : w = lam) by (subst w; apply map_clamp_id, lsumQ_le_one; assumption).
  subst w. rewrite E. split; [reflexivity|]. split; [exact Hsum|].
  intros a b. apply bary_affine. repeat split; assumption.
Qed.

(* ------------------------------------------------------------------ _addElementToTriplet: the first accepted simplex wins *)
Lemma add_element_loop_found t sb indg0 coor : forall cases m0 f m,
  add_element_loop t sb indg0 coor cases m0 = (Some f, m) ->
  exists pre icas post m', cases = pre ++ icas :: post /\
    add_weights t sb icas indg0 coor = Wok (fst (fst f)) (snd (fst f)) (snd f) m' /\
    forall j, In j pre -> exists mj, add_weights t sb j indg0 coor = Wfail mj.
Proof.
  induction cases as [|icas rest IH]; intros m0 f m H; [discriminate|].
  cbn [add_element_loop] in H.
  destruct (add_weights t sb icas indg0 coor) as [m'|idx lam w m'] eqn:E.
  - destruct (IH _ _ _ H) as [pre [k [post [mk [Hc [Hk Hpre]]]]]].
    exists (icas :: pre), k, post, mk. split; [rewrite Hc; reflexivity|]. split; [exact Hk|].
    intros j [Hj|Hj]; [subst j; exists m'; exact E|apply Hpre; exact Hj].
  - injection H as H1 H2. subst f. exists [], icas, rest, m'. cbn [fst snd]. split; [reflexivity|]. split; [exact E|].
    intros j [].
Qed.

Lemma add_element_loop_none t sb indg0 coor : forall cases m0 m,
  add_element_loop t sb indg0 coor cases m0 = (None, m) ->
  forall j, In j cases -> exists mj, add_weights t sb j indg0 coor = Wfail mj.
Proof.
  induction cases as [|icas rest IH]; intros m0 m H j Hj; [destruct Hj|].
  cbn [add_element_loop] in H.
  destruct (add_weights t sb icas indg0 coor) as [m'|idx lam w m'] eqn:E; [|discriminate].
  destruct Hj as [Hj|Hj]; [subst j; exists m'; exact E|]. apply (IH _ _ H j Hj).
Qed.

(* a non-empty row is the (clamped) barycentric weights of an accepted simplex of the meshing *)
Lemma proj_point_found t sb coor idx lam w :
  p_found (proj_point t sb coor) = Some (idx, lam, w) ->
  p_located (proj_point t sb coor) = true /\
  exists indg icas m, (icas < nper_cell (t_ndim t))%nat /\ add_weights t sb icas indg coor = Wok idx lam w m.
Proof.
  unfold proj_point.
  destruct (C16.Model.c2i (t_grid t) coor false eps6) as [out indg0] eqn:Ec. cbn [fst snd].
  destruct out; [cbn [p_found]; discriminate|].
  unfold add_element.
  destruct (add_element_loop t sb indg0 coor (seq 0 (nper_cell (t_ndim t))) 1) as [[f|] m1] eqn:E1; cbn [fst snd].
  - cbn [p_found p_located]. intro H. injection H as H. subst f. split; [reflexivity|].
    destruct (add_element_loop_found _ _ _ _ _ _ _ _ E1) as [pre [k [post [mk [Hc [Hk _]]]]]].
    exists indg0, k, mk. split; [|exact Hk].
    assert (In k (seq 0 (nper_cell (t_ndim t)))) by (rewrite Hc; apply in_or_app; right; left; reflexivity).
    apply in_seq in H. lia.
  - destruct (existsb (fun b => b) (C16.Model.map2 (fun i n => Z.eqb i (n - 1)) indg0 (t_nx t))); cbn [p_found p_located].
    + set (indg1 := C16.Model.map2 _ indg0 _).
      destruct (add_element_loop t sb indg1 coor (seq 0 (nper_cell (t_ndim t))) 1) as [[f|] m2] eqn:E2; cbn [fst]; [|discriminate].
      intro H. injection H as H. subst f. split; [reflexivity|].
      destruct (add_element_loop_found _ _ _ _ _ _ _ _ E2) as [pre [k [post [mk [Hc [Hk _]]]]]].
      exists indg1, k, mk. split; [|exact Hk].
      assert (In k (seq 0 (nper_cell (t_ndim t)))) by (rewrite Hc; apply in_or_app; right; left; reflexivity).
      apply in_seq in H. lia.
    + discriminate.
Qed.

(* a sample outside the grid has no weights *)
Lemma proj_point_outside t sb coor :
  fst (C16.Model.c2i (t_grid t) coor false eps6) = true ->
  p_located (proj_point t sb coor) = false /\ p_found (proj_point t sb coor) = None.
Proof. intro H. unfold proj_point. rewrite H. split; reflexivity. Qed.

(* a located sample none of whose candidate simplices is accepted has no weights *)
Lemma proj_point_rejected t sb coor :
  (forall indg icas, (icas < nper_cell (t_ndim t))%nat -> exists m, add_weights t sb icas indg coor = Wfail m) ->
  p_found (proj_point t sb coor) = None.
Proof.
  intro H. destruct (p_found (proj_point t sb coor)) as [[[idx lam] w]|] eqn:E; [|reflexivity].
  destruct (proj_point_found _ _ _ _ _ _ E) as [_ [indg [icas [m [Hi Hk]]]]].
  destruct (H indg icas Hi) as [m' Hm]. rewrite Hm in Hk. discriminate.
Qed.

(* ------------------------------------------------------------------ rows of the matrix *)
Definition row_spec (t : turbo) (sb : list bool) (coor : list Q) : list (Z * Q) :=
  match p_found (proj_point t sb coor) with Some f => entries_of f | None => [] end.

Lemma turbo_loop_rows_ge t sb : forall pts iech e, In e (fst (turbo_loop t sb pts iech)) -> (iech <= fst e)%nat.
Proof.
  induction pts as [|c pts IH]; intros iech e H; [destruct H|].
  cbn [turbo_loop fst] in H. destruct (p_found (proj_point t sb c)).
  - destruct H as [H|H]; [subst e; cbn [fst]; lia|]. specialize (IH _ _ H). lia.
  - specialize (IH _ _ H). lia.
Qed.

Lemma row_of_nil trip r : (forall e, In e trip -> fst e <> r) -> row_of trip r = [].
Proof.
  induction trip as [|e trip IH]; intro H; [reflexivity|].
  unfold row_of. cbn [flat_map]. destruct (Nat.eqb_spec (fst e) r) as [E|E].
  - exfalso. apply (H e); [left; reflexivity|exact E].
  - cbn [app]. apply IH. intros e' He'. apply H. right. exact He'.
Qed.

Lemma turbo_loop_rows t sb : forall pts iech k, (k < length pts)%nat ->
  row_of (fst (turbo_loop t sb pts iech)) (iech + k) = row_spec t sb (nth k pts []).
Proof.
  induction pts as [|c pts IH]; intros iech k Hk; [cbn in Hk; lia|].
  cbn [turbo_loop fst].
  destruct k as [|k].
  - rewrite Nat.add_0_r. cbn [nth]. unfold row_spec.
    assert (Hnil : row_of (fst (turbo_loop t sb pts (S iech))) iech = []).
    { apply row_of_nil. intros e He. pose proof (turbo_loop_rows_ge _ _ _ _ _ He). lia. }
    destruct (p_found (proj_point t sb c)) as [f|].
    + unfold row_of at 1. cbn [flat_map fst snd]. rewrite Nat.eqb_refl. fold (row_of (fst (turbo_loop t sb pts (S iech))) iech).
      rewrite Hnil. apply app_nil_r.
    + exact Hnil.
  - cbn [nth length] in *. replace (iech + S k)%nat with (S iech + k)%nat by lia.
    destruct (p_found (proj_point t sb c)) as [f|].
    + unfold row_of at 1. cbn [flat_map fst snd].
      destruct (Nat.eqb_spec iech (S iech + k)) as [E|E]; [lia|]. cbn [app].
      apply IH; lia.
    + apply IH; lia.
Qed.

(* row k of the matrix is the row of sample k, whatever the samples (on the grid or not) *)
Lemma rows_aligned t pts k :
  (k < length pts)%nat ->
  nth k (fst (proj_turbo t pts)) [] = row_spec t (selbis t) (nth k pts []).
Proof.
  intros Hk. unfold proj_turbo. cbn [fst].
  rewrite (nth_map_seq _ (length pts) k [] Hk).
  apply (turbo_loop_rows t (selbis t) pts 0 k Hk).
Qed.
Lemma rows_count t pts : length (fst (proj_turbo t pts)) = length pts.
Proof. unfold proj_turbo. cbn [fst]. rewrite map_length, seq_length. reflexivity. Qed.
(* in particular a sample outside the grid has an empty row *)
Lemma row_outside_empty t pts k :
  (k < length pts)%nat -> fst (C16.Model.c2i (t_grid t) (nth k pts []) false eps6) = true ->
  nth k (fst (proj_turbo t pts)) [] = [].
Proof.
  intros Hk Ho. rewrite rows_aligned by exact Hk. unfold row_spec.
  destruct (proj_point_outside t (selbis t) _ Ho) as [_ E]. rewrite E. reflexivity.
Qed.

(* ------------------------------------------------------------------ a point of a cell gets a row *)
(* The cell is described by an affine map T (coefficients A, t0) sending the reference corners to the grid nodes
   and the local coordinates u to the sample *)
Lemma cell_covered ndim ipol (T : list Q -> list Q) A t0 u :
  (1 <= ndim <= 3)%nat -> (ipol < npol ndim)%nat -> length u = ndim -> in_unit_cube u ->
  (forall c idim, (idim < ndim)%nat -> nth idim (T c) 0 == affine ndim (A idim) (t0 idim) c) ->
  exists icas l, (icas < nper_cell ndim)%nat /\ all_nonneg l /\
                 bary_system ndim (map T (unit_corners ndim ipol icas)) (T u) l.
Proof.
  intros Hn Hp Hl Hu HT.
  destruct (tile_cover ndim ipol u Hn Hp Hl Hu) as [icas [l [Hi [Hb Hnn]]]].
  exists icas, l. split; [exact Hi|]. split; [exact Hnn|].
  apply (bary_system_image ndim _ u l T A t0).
  - pose proof (bary_sound _ _ _ Hb) as Hs. rewrite Hl in Hs. exact Hs.
  - intros c idim _ Hd. apply HT; exact Hd.
  - intros idim Hd. apply HT; exact Hd.
Qed.

(* ... and a non-degenerate simplex whose exact weights are non-negative is accepted by _addWeights with these weights *)
Lemma Forall2_Qeq_nonneg l l' : Forall2 Qeq l' l -> all_nonneg l' -> all_nonneg l.
Proof. induction 1 as [|a b l' l E _ IH]; intro H; cbn [all_nonneg fold_right] in *; [exact I|]. destruct H. split; [lra|apply IH; assumption]. Qed.
Lemma Forall2_Qeq_sum l l' : Forall2 Qeq l' l -> lsumQ l' == lsumQ l.
Proof. induction 1 as [|a b l' l E _ IH]; cbn [lsumQ fold_right]; [reflexivity|]. unfold lsumQ in IH. rewrite E, IH. reflexivity. Qed.

Lemma nonneg_not_bad lam : all_nonneg lam -> lsumQ lam == 1 -> existsb lam_bad lam = false.
Proof.
  intros Hn Hs. pose proof (lsumQ_le_one lam Hn Hs) as HF.
  clear Hn Hs. induction HF as [|l lam [H0 H1] _ IH]; [reflexivity|].
  cbn [existsb]. rewrite IH. rewrite orb_false_r. unfold lam_bad, eps6.
  destruct (qltb_spec l (- (1 # 1000000))); [lra|]. destruct (qltb_spec (1 + (1 # 1000000)) l); [lra|]. reflexivity.
Qed.

Lemma add_weights_accepts t sb icas indg0 coor l' :
  Forall (fun r => (r <? 0)%Z = false) (simplex_ranks t icas indg0) ->
  Forall (fun r => (r <? 0)%Z = false) (map (atoR sb) (simplex_ranks t icas indg0)) ->
  bary (simplex_coords t icas indg0) coor <> None ->
  bary_system (length coor) (simplex_coords t icas indg0) coor l' -> all_nonneg l' ->
  exists lam m, add_weights t sb icas indg0 coor = Wok (map (atoR sb) (simplex_ranks t icas indg0)) lam lam m /\ Forall2 Qeq l' lam.
Proof.
  intros Hr Hi Hnd Hs Hn.
  destruct (bary (simplex_coords t icas indg0) coor) as [lam|] eqn:Eb; [|contradiction].
  pose proof (bary_unique _ _ _ _ Eb Hs) as Hu.
  assert (Hnn : all_nonneg lam) by (apply (Forall2_Qeq_nonneg _ _ Hu Hn)).
  assert (Hsum : lsumQ lam == 1).
  { rewrite <- (Forall2_Qeq_sum _ _ Hu). destruct Hs as [_ [Hs _]]. exact Hs. }
  exists lam. eexists. split; [|exact Hu].
  unfold add_weights. unfold simplex_coords, simplex_ranks in *.
  assert (E1 : existsb (fun r => (r <? 0)%Z) (map (C16.Model.indiceToRank (t_nx t))
              (simplex_inds (t_ndim t) (polarized (t_pol t) (t_ndim t) indg0) icas indg0)) = false).
  { clear -Hr. induction Hr as [|r l Hr _ IH]; [reflexivity|]. cbn [existsb]. rewrite Hr, IH. reflexivity. }
  rewrite E1.
  assert (E2 : existsb (fun r => (r <? 0)%Z) (map (atoR sb) (map (C16.Model.indiceToRank (t_nx t))
              (simplex_inds (t_ndim t) (polarized (t_pol t) (t_ndim t) indg0) icas indg0))) = false).
  { clear -Hi. induction Hi as [|r l Hr _ IH]; [reflexivity|]. cbn [existsb]. rewrite Hr, IH. reflexivity. }
  rewrite E2. rewrite Eb. rewrite (nonneg_not_bad lam Hnn Hsum).
  rewrite (map_clamp_id lam (lsumQ_le_one lam Hnn Hsum)). reflexivity.
Qed.

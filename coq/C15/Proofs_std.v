(* C15 proofs, AMesh::_weightsInMesh (standard meshing): volume ratios versus exact barycentric coordinates. *)
From Coq Require Import List Arith ZArith QArith Qabs Qminmax Bool Lqa Lia Setoid Morphisms.
From Gst Require Import lib.QAux lib.LinAlgQ C15.gen.MSS C15.Model C15.Spec C15.Proofs_tile C15.Proofs_proj.
Import ListNotations.
Local Open Scope Q_scope.

Lemma Qabs_pos_of_nz D : ~ D == 0 -> 0 < Qabs D.
Proof.
  intro H. apply Qabs_case; intro H1.
  - destruct (Qlt_le_dec 0 D) as [L|L]; [exact L|]. exfalso. apply H. apply Qle_antisym; assumption.
  - destruct (Qlt_le_dec D 0) as [L|L]; [lra|]. exfalso. apply H. apply Qle_antisym; assumption.
Qed.

Lemma Qabs_div_fac N D f : ~ D == 0 -> 0 < f -> Qabs N / (Qabs D / f) / f == Qabs (N / D).
Proof.
  intros HD Hf. pose proof (Qabs_pos_of_nz D HD) as HA.
  unfold Qdiv at 4. rewrite Qabs_Qmult, Qabs_Qinv. field. split; lra.
Qed.

Lemma facdim_pos ndim : (1 <= ndim <= 3)%nat -> 0 < facdim ndim.
Proof. intro H. destruct ndim as [|[|[|[|?]]]]; try lia; cbn; lra. Qed.

(* ------------------------------------------------------------------ ratio_i = |lambda_i| *)
Ltac ratio_case Hd :=
  unfold sratio, mesh_unit;
  cbn [remove_at map C16.Model.vsub C16.Model.map2 detl facdim length nth];
  rewrite Qabs_div_fac by (first [ exact Hd | (let Hz := fresh "Hz" in intro Hz; apply Hd; rewrite <- Hz; unfold det2, det3; ring) | lra ]);
  cbv zeta;
  first [ apply Qabs_wd; unfold det2, det3 in *; field; exact Hd
        | rewrite <- Qabs_opp; apply Qabs_wd; unfold det2, det3 in *; field; exact Hd ].

Lemma sratio_shape cs x l i :
  bary_shape cs x l -> (i < length cs)%nat ->
  sratio (length x) cs x (mesh_unit (length x) cs) i == Qabs (nth i l 0).
Proof.
  intros H Hi.
  destruct H as [a b x0 Hd|a0 a1 b0 b1 c0 c1 x0 x1 d Hd|a0 a1 a2 b0 b1 b2 c0 c1 c2 d0 d1 d2 x0 x1 x2 d Hd].
  - destruct i as [|[|?]]; [| |cbn in Hi; lia]; ratio_case Hd.
  - subst d. destruct i as [|[|[|?]]]; [| | |cbn in Hi; lia]; ratio_case Hd.
  - subst d. destruct i as [|[|[|[|?]]]]; [| | | |cbn in Hi; lia]; ratio_case Hd.
Qed.

Lemma sratio_bary cs x l i :
  bary cs x = Some l -> (i < length cs)%nat ->
  sratio (length x) cs x (mesh_unit (length x) cs) i == Qabs (nth i l 0).
Proof. intros H. apply sratio_shape, bary_inv, H. Qed.

(* ------------------------------------------------------------------ what an accepted mesh guarantees *)
Lemma Qdiv_nonneg a b : 0 <= a -> 0 <= b -> 0 <= a / b.
Proof.
  intros Ha Hb. destruct (Qeq_dec b 0) as [E|E].
  - unfold Qdiv. rewrite E. unfold Qinv. cbn. lra.
  - assert (0 < b) by (destruct (Qlt_le_dec 0 b); [assumption|exfalso; apply E; apply Qle_antisym; assumption]).
    apply Qle_shift_div_l; [assumption|lra].
Qed.

Lemma mesh_unit_nonneg ndim cs : 0 <= mesh_unit ndim cs.
Proof.
  unfold mesh_unit. destruct cs as [|c0 r]; [lra|].
  apply Qdiv_nonneg; [apply Qabs_nonneg|]. destruct ndim as [|[|[|[|?]]]]; cbn; lra.
Qed.

Lemma sratio_nonneg ndim cs coor i : 0 <= sratio ndim cs coor (mesh_unit ndim cs) i.
Proof.
  unfold sratio. apply Qdiv_nonneg; [apply Qdiv_nonneg; [apply Qabs_nonneg|apply mesh_unit_nonneg]|].
  destruct ndim as [|[|[|[|?]]]]; cbn; lra.
Qed.

Lemma weights_in_mesh_ok ndim cs coor ws m :
  weights_in_mesh ndim cs coor (mesh_unit ndim cs) eps5 = (Some ws, m) ->
  Forall (fun w => 0 <= w /\ w <= 1 + eps5) ws /\ Qabs (lsumQ ws - 1) <= eps5.
Proof.
  unfold weights_in_mesh. set (wl := map (sratio ndim cs coor (mesh_unit ndim cs)) (seq 0 (length cs))).
  destruct (existsb (fun r => qltb r (- eps5) || qltb (1 + eps5) r) wl) eqn:E1; [discriminate|].
  destruct (qleb_spec (Qabs (lsumQ wl - 1)) eps5) as [E2|E2]; [|discriminate].
  intro H. injection H as H _. subst ws. split; [|exact E2].
  apply existsb_false_Forall in E1.
  apply Forall_forall. intros w Hw. rewrite Forall_forall in E1. specialize (E1 w Hw).
  apply orb_false_iff in E1. destruct E1 as [_ E1]. apply qltb_false in E1. split; [|exact E1].
  unfold wl in Hw. apply in_map_iff in Hw. destruct Hw as [i [Hw _]]. subst w. apply sratio_nonneg.
Qed.

(* ------------------------------------------------------------------ a point of the mesh gets its exact weights *)
Lemma nth_nonneg l i : all_nonneg l -> 0 <= nth i l 0.
Proof.
  revert i. induction l as [|x l IH]; intros i H; [destruct i; cbn; lra|].
  cbn [all_nonneg fold_right] in H. destruct H as [Hx Hl]. destruct i as [|i]; [exact Hx|apply IH; exact Hl].
Qed.

Lemma Forall2_nth_seq (f : nat -> Q) l : (forall i, (i < length l)%nat -> f i == nth i l 0) ->
  Forall2 Qeq (map f (seq 0 (length l))) l.
Proof.
  revert f. induction l as [|x l IH]; intros f H; [constructor|].
  cbn [length seq map]. constructor; [apply (H 0%nat); cbn; lia|].
  rewrite <- seq_shift, map_map. apply IH. intros i Hi. apply (H (S i)). cbn; lia.
Qed.

Lemma wcomb_Qeq l l' : Forall2 Qeq l l' -> forall cs idim, wcomb l cs idim == wcomb l' cs idim.
Proof.
  unfold wcomb. induction 1 as [|w0 w1 l0 l1 E _ IH]; intros [|c cs] idim; cbn [C16.Model.map2 lsumQ fold_right]; try reflexivity.
  unfold lsumQ in IH. rewrite E, (IH cs idim). reflexivity.
Qed.

Lemma weights_in_mesh_inside cs x l :
  bary cs x = Some l -> all_nonneg l ->
  exists ws m, weights_in_mesh (length x) cs x (mesh_unit (length x) cs) eps5 = (Some ws, m) /\ Forall2 Qeq ws l /\
               lsumQ ws == 1 /\
               forall a b, wapply (affine (length x) a b) ws cs == affine (length x) a b x.
Proof.
  intros Hb Hn.
  pose proof (bary_sound _ _ _ Hb) as Hs. pose proof Hs as [Hlen [Hsum Hc]].
  unfold weights_in_mesh.
  set (ws := map (sratio (length x) cs x (mesh_unit (length x) cs)) (seq 0 (length cs))).
  assert (HF : Forall2 Qeq ws l).
  { unfold ws. rewrite <- Hlen. apply Forall2_nth_seq. intros i Hi.
    rewrite (sratio_bary cs x l i Hb) by (rewrite <- Hlen; exact Hi).
    apply Qabs_pos. apply nth_nonneg; exact Hn. }
  assert (Hsw : lsumQ ws == 1) by (rewrite (Forall2_Qeq_sum _ _ HF); exact Hsum).
  assert (Hnw : all_nonneg ws) by (apply (Forall2_Qeq_nonneg ws l); [|exact Hn];
    clear -HF; induction HF; constructor; [symmetry; assumption|assumption]).
  pose proof (lsumQ_le_one ws Hnw Hsw) as H01.
  assert (E1 : existsb (fun r => qltb r (- eps5) || qltb (1 + eps5) r) ws = false).
  { clear -H01. induction H01 as [|w ws [H0 H1] _ IH]; [reflexivity|]. cbn [existsb]. rewrite IH, orb_false_r. unfold eps5.
    destruct (qltb_spec w (- (1 # 100000))); [lra|]. destruct (qltb_spec (1 + (1 # 100000)) w); [lra|]. reflexivity. }
  rewrite E1.
  destruct (qleb_spec (Qabs (lsumQ ws - 1)) eps5) as [E2|E2].
  - exists ws. eexists. split; [reflexivity|]. split; [exact HF|]. split; [exact Hsw|].
    intros a b. apply bary_affine. split; [|split].
    + unfold ws. rewrite map_length, seq_length. reflexivity.
    + exact Hsw.
    + intros idim Hd. rewrite (wcomb_Qeq ws l HF cs idim). exact (Hc idim Hd).
  - exfalso. apply E2. rewrite Hsw. unfold eps5. apply Qabs_case; intros; lra.
Qed.

(* ------------------------------------------------------------------ rows of MeshEStandard::resetProjMatrix *)
Lemma standard_loop_rows_ge s : forall pts im0 iech e, In e (fst (standard_loop s pts im0 iech)) -> (iech <= fst e)%nat.
Proof.
  induction pts as [|c pts IH]; intros im0 iech e H; [destruct H|].
  cbn [standard_loop] in H.
  destruct (fst (s_search s c (rotate_from (length (s_meshes s)) im0) 1)) as [[imesh ws]|].
  - cbn [fst] in H. destruct H as [H|H]; [subst e; cbn [fst]; lia|]. specialize (IH _ _ _ H). lia.
  - cbn [fst] in H. specialize (IH _ _ _ H). lia.
Qed.

Definition srow_none : srow := {| sr_found := None; sr_margin := 1 |}.

Lemma standard_loop_rows s : forall pts im0 iech k, (k < length pts)%nat ->
  row_of (fst (standard_loop s pts im0 iech)) (iech + k) =
  srow_entries s (nth k (snd (standard_loop s pts im0 iech)) srow_none).
Proof.
  induction pts as [|c pts IH]; intros im0 iech k Hk; [cbn in Hk; lia|].
  cbn [standard_loop].
  destruct (s_search s c (rotate_from (length (s_meshes s)) im0) 1) as [[[imesh ws]|] m] eqn:Es; cbn [fst snd].
  - destruct k as [|k].
    + rewrite Nat.add_0_r. cbn [nth]. unfold srow_entries. cbn [sr_found].
      unfold row_of. cbn [flat_map fst snd]. rewrite Nat.eqb_refl.
      fold (row_of (fst (standard_loop s pts imesh (S iech))) iech).
      rewrite (row_of_nil _ iech); [apply app_nil_r|].
      intros e He. pose proof (standard_loop_rows_ge _ _ _ _ _ He). lia.
    + cbn [nth length] in *. replace (iech + S k)%nat with (S iech + k)%nat by lia.
      unfold row_of at 1. cbn [flat_map fst snd].
      destruct (Nat.eqb_spec iech (S iech + k)) as [E|E]; [lia|]. cbn [app].
      apply IH; lia.
  - destruct k as [|k].
    + rewrite Nat.add_0_r. cbn [nth]. unfold srow_entries. cbn [sr_found].
      apply row_of_nil. intros e He. pose proof (standard_loop_rows_ge _ _ _ _ _ He). lia.
    + cbn [nth length] in *. replace (iech + S k)%nat with (S iech + k)%nat by lia. apply IH; lia.
Qed.

(* one row per sample, and row k holds the weights found for sample k (or nothing) *)
Lemma standard_rows s pts :
  fst (fst (proj_standard s pts)) = length pts /\
  length (snd (fst (proj_standard s pts))) = length pts /\
  forall k, (k < length pts)%nat ->
    nth k (snd (fst (proj_standard s pts))) [] = srow_entries s (nth k (snd (proj_standard s pts)) srow_none).
Proof.
  unfold proj_standard. cbn [fst snd]. split; [reflexivity|]. split; [rewrite map_length, seq_length; reflexivity|].
  intros k Hk. rewrite (nth_map_seq _ (length pts) k [] Hk).
  apply (standard_loop_rows s pts 0 0 k Hk).
Qed.

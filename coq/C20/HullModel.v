(* C20 — certificate checker for the convex hull returned by Polygons::createFromDb (translation validation):
   executable definitions only. *)
From Coq Require Import List ZArith QArith Bool.
From Gst Require Import lib.QAux C20.Model C20.Spec.
Import ListNotations.
Local Open Scope Q_scope.

Definition orient (a b c : pt) : Q :=
  (fst b - fst a) * (snd c - snd a) - (snd b - snd a) * (fst c - fst a).
Definition pt_eqb (a b : pt) : bool := qeqb (fst a) (fst b) && qeqb (snd a) (snd b).
Definition side_ok (s : Q) (pts : list pt) (e : pt * pt) : bool :=
  forallb (fun p => qleb 0 (s * orient (fst e) (snd e) p)) pts.
(* hull = vertex list as stored in the PolyElem *)
Definition hull_ok (pts hull : list pt) : bool :=
  forallb (fun v => existsb (pt_eqb v) pts) hull &&
  (forallb (side_ok 1 pts) (edges (close hull)) || forallb (side_ok (-(1)) pts) (edges (close hull))) &&
  forallb (fun p => inside2d (close hull) p || on_boundary_b (close hull) p) pts.

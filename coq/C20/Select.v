(* C20 — db_polygon: the selection is decided sample by sample, only narrows an existing selection,
   and with longitude periodicity is the union of the answers at x-360, x, x+360. *)
From Coq Require Import List ZArith QArith Bool Lia.
From Gst Require Import lib.QAux C20.Model C20.Spec C20.Proofs.
Import ListNotations.
Local Open Scope Q_scope.

Definition s_dflt : sample := {| s_active := false; s_xy := (0, 0); s_z := None |}.

Lemma db_polygon_length pes fs fp nested db : length (db_polygon pes fs fp nested db) = length db.
Proof. unfold db_polygon. apply map_length. Qed.

(* sample i's answer is a function of sample i alone: no other sample, and no position in the table, matters *)
Lemma db_polygon_pointwise pes fs fp nested db i : (i < length db)%nat ->
  nth i (db_polygon pes fs fp nested db) false = db_polygon_one pes fs fp nested (nth i db s_dflt).
Proof.
  intro Hi. unfold db_polygon.
  rewrite (nth_indep _ false (db_polygon_one pes fs fp nested s_dflt)) by (rewrite map_length; exact Hi).
  apply map_nth.
Qed.

(* with flag_sel, a masked sample is never selected: the new selection is a subset of the old one *)
Lemma db_polygon_narrows pes fp nested s :
  db_polygon_one pes true fp nested s = true -> s_active s = true.
Proof.
  unfold db_polygon_one. cbn [negb orb]. destruct (s_active s); [reflexivity|discriminate].
Qed.

(* without flag_sel the previous selection is ignored *)
Lemma db_polygon_ignores_selection pes fp nested a1 a2 xy z :
  db_polygon_one pes false fp nested {| s_active := a1; s_xy := xy; s_z := z |} =
  db_polygon_one pes false fp nested {| s_active := a2; s_xy := xy; s_z := z |}.
Proof. unfold db_polygon_one. cbn [negb orb s_xy s_z]. reflexivity. Qed.

(* complete characterisation *)
Lemma db_polygon_one_spec pes fs fp nested s :
  db_polygon_one pes fs fp nested s =
  (negb fs || s_active s) &&
  (polygons_inside pes (s_xy s) (s_z s) nested ||
   (fp && (polygons_inside pes (shiftx (-(360#1)) (s_xy s)) (s_z s) nested ||
           polygons_inside pes (shiftx (360#1) (s_xy s)) (s_z s) nested))).
Proof.
  unfold db_polygon_one. destruct (negb fs || s_active s); cbn [andb]; [|reflexivity].
  destruct fp; cbn [andb].
  - rewrite orb_assoc. reflexivity.
  - rewrite orb_false_r. reflexivity.
Qed.

(* periodicity can only add samples *)
Lemma db_polygon_period_monotone pes fs nested s :
  db_polygon_one pes fs false nested s = true -> db_polygon_one pes fs true nested s = true.
Proof.
  rewrite !db_polygon_one_spec. cbn [andb]. rewrite orb_false_r.
  intro H. apply andb_true_iff in H. destruct H as [H1 H2]. rewrite H1, H2. reflexivity.
Qed.

(* C20 — the answer does not depend on which vertex of the ring the list starts with. *)
From Coq Require Import List ZArith QArith Bool Lia.
From Gst Require Import lib.QAux C20.Model C20.Spec C20.Proofs.
Import ListNotations.
Local Open Scope Q_scope.

(* the closed loop of an open ring of vertices: back to the first vertex *)
Definition ring (l : list pt) : list pt :=
  match l with [] => [] | p :: _ => l ++ [p] end.
(* one step of rotation, k steps *)
Definition rot1 (l : list pt) : list pt :=
  match l with [] => [] | p :: m => m ++ [p] end.
Fixpoint rotn (k : nat) (l : list pt) : list pt :=
  match k with O => l | S k' => rotn k' (rot1 l) end.

Lemma ring_rot1_cons p p1 m : ring (rot1 (p :: p1 :: m)) = ((p1 :: m) ++ [p]) ++ [p1].
Proof. reflexivity. Qed.

Lemma count_cross_rot1 xx yy l : count_cross xx yy (ring (rot1 l)) = count_cross xx yy (ring l).
Proof.
  destruct l as [|p [|p1 m]]; [reflexivity|reflexivity|].
  rewrite ring_rot1_cons.
  change (ring (p :: p1 :: m)) with (p :: p1 :: (m ++ [p])).
  rewrite count_cross_cons2.
  change ((p1 :: m) ++ [p]) with (p1 :: (m ++ [p])).
  change (((p1 :: m ++ [p])) ++ [p1]) with (((p1 :: m) ++ [p]) ++ [p1]).
  rewrite count_cross_app_last.
  change ((p1 :: m) ++ [p]) with (p1 :: (m ++ [p])). lia.
Qed.

Lemma edges_ring_rot1 l e : In e (edges (ring (rot1 l))) -> In e (edges (ring l)).
Proof.
  destruct l as [|p [|p1 m]]; [intros []| |].
  - cbn. intros [H|[]]. left. exact H.
  - rewrite ring_rot1_cons. rewrite edges_app_last. rewrite in_app_iff.
    change (ring (p :: p1 :: m)) with (p :: p1 :: (m ++ [p])).
    change ((p1 :: m) ++ [p]) with (p1 :: (m ++ [p])).
    intros [H|[H|[]]].
    + right. exact H.
    + left. exact H.
Qed.

Lemma on_boundary_rot1 l q : on_boundary (ring (rot1 l)) q -> on_boundary (ring l) q.
Proof. intros [e [Hin Hon]]. exists e. split; [apply edges_ring_rot1; exact Hin|exact Hon]. Qed.

Lemma inside2d_rot1 l q : ~ on_boundary (ring l) q -> inside2d (ring (rot1 l)) q = inside2d (ring l) q.
Proof.
  intro Hnb.
  rewrite (inside2d_half_open (ring l) q Hnb).
  rewrite inside2d_half_open by (intro H; apply Hnb; apply on_boundary_rot1; exact H).
  rewrite count_cross_rot1. reflexivity.
Qed.

Lemma on_boundary_rotn k : forall l q, on_boundary (ring (rotn k l)) q -> on_boundary (ring l) q.
Proof.
  induction k as [|k IH]; intros l q H; [exact H|].
  apply on_boundary_rot1. apply IH. exact H.
Qed.

Lemma inside2d_rotn k : forall l q, ~ on_boundary (ring l) q -> inside2d (ring (rotn k l)) q = inside2d (ring l) q.
Proof.
  induction k as [|k IH]; intros l q Hnb; [reflexivity|].
  cbn [rotn]. rewrite IH.
  - apply inside2d_rot1. exact Hnb.
  - intro H. apply Hnb. apply on_boundary_rot1. exact H.
Qed.

(* rotn is the usual rotation *)
Lemma rotn_skipn_firstn k : forall l, (k <= length l)%nat -> rotn k l = skipn k l ++ firstn k l.
Proof.
  induction k as [|k IH]; intros l Hk; [cbn; rewrite app_nil_r; reflexivity|].
  destruct l as [|p m]; [cbn in Hk; lia|].
  cbn [rotn rot1]. rewrite IH by (rewrite app_length; cbn in *; lia).
  cbn [skipn firstn]. cbn [length] in Hk.
  rewrite skipn_app, firstn_app.
  replace (k - length m)%nat with O by lia. cbn [skipn firstn]. rewrite app_nil_r.
  rewrite <- app_assoc. reflexivity.
Qed.

(* closePolyElem produces that ring when the list is not already closed, and leaves an exactly closed ring alone *)
Lemma close_ring l : is_closed l = false -> close l = ring l.
Proof. destruct l as [|p m]; [reflexivity|]. unfold close. intros ->. reflexivity. Qed.

(* a zero-length closing edge never counts: closing an already closed list changes nothing off the boundary *)
Lemma cross_degenerate xx yy x0 y0 : cross_half_open_b xx yy x0 y0 x0 y0 = false.
Proof.
  unfold cross_half_open_b.
  destruct (qltb y0 yy) eqn:E1; destruct (qleb yy y0) eqn:E2; try reflexivity.
  apply qltb_true in E1. apply qleb_true in E2. exfalso. apply (Qlt_irrefl yy). eapply Qle_lt_trans; eassumption.
Qed.

(* C20: the half-open rule is the generic crossing count of a ray infinitesimally below the query. *)
From Coq Require Import List ZArith QArith Qabs Qminmax Bool Lqa Lia.
From Gst Require Import lib.QAux C20.Model C20.Spec C20.Proofs.
Import ListNotations.
Local Open Scope Q_scope.

Definition cross_generic_b (xx yy x0 y0 x1 y1 : Q) : bool :=
  ((qltb y1 yy && qltb yy y0) || (qltb y0 yy && qltb yy y1)) &&
  qltb ((xx - x0) * (y1 - y0) * (y1 - y0)) ((x1 - x0) * (yy - y0) * (y1 - y0)).

Lemma cross_generic_b_spec xx yy x0 y0 x1 y1 :
  cross_generic_b xx yy x0 y0 x1 y1 = true <-> cross_generic xx yy x0 y0 x1 y1.
Proof.
  unfold cross_generic_b, cross_generic.
  rewrite andb_true_iff, orb_true_iff, !andb_true_iff, !qltb_true. tauto.
Qed.

Fixpoint count_generic (xx yy : Q) (pts : list pt) : Z :=
  match pts with
  | p0 :: ((p1 :: _) as tl) =>
      ((if cross_generic_b xx yy (fst p0) (snd p0) (fst p1) (snd p1) then 1 else 0)
       + count_generic xx yy tl)%Z
  | _ => 0%Z
  end.

Definition myabs (x : Q) : Q := if qleb 0 x then x else - x.
Lemma myabs_spec x : 0 <= myabs x /\ x <= myabs x /\ - x <= myabs x.
Proof. unfold myabs. destruct (qleb_spec 0 x); repeat split; lra. Qed.

(* a perturbation smaller than |F| / (|c|+1) does not change the sign of F *)
Lemma sign_stable F c e :
  ~ F == 0 -> 0 < e -> e * (myabs c + 1) < myabs F -> (0 < F - e * c <-> 0 < F).
Proof.
  intros HF He Hb.
  destruct (myabs_spec c) as [C0 [C1 C2]]. destruct (myabs_spec F) as [F0 [F1 F2]].
  assert (HA : myabs F == F \/ myabs F == - F) by (unfold myabs; destruct (qleb 0 F); [left|right]; reflexivity).
  assert (Hec : - (e * myabs c) <= e * c <= e * myabs c) by (split; nra).
  split; intro H.
  - destruct (Q_dec F 0) as [[Hn|Hp]|Hz]; [|exact Hp|contradiction].
    exfalso. destruct HA as [HA|HA]; nra.
  - destruct HA as [HA|HA]; nra.
Qed.

Definition qmin3 (a b c : Q) : Q := Qmin a (Qmin b c).
Lemma qmin3_spec a b c : qmin3 a b c <= a /\ qmin3 a b c <= b /\ qmin3 a b c <= c.
Proof.
  unfold qmin3. pose proof (Q.le_min_l a (Qmin b c)). pose proof (Q.le_min_r a (Qmin b c)).
  pose proof (Q.le_min_l b c). pose proof (Q.le_min_r b c). repeat split; lra.
Qed.
Lemma qmin3_pos a b c : 0 < a -> 0 < b -> 0 < c -> 0 < qmin3 a b c.
Proof.
  intros. unfold qmin3. apply Q.min_glb_lt; [assumption|]. apply Q.min_glb_lt; assumption.
Qed.

(* distance from the query ordinate down to an endpoint strictly below it (1 when the endpoint is not below) *)
Definition gap (yy y : Q) : Q := if qltb y yy then yy - y else 1.
Lemma gap_pos yy y : 0 < gap yy y.
Proof. unfold gap. destruct (qltb_spec y yy); lra. Qed.

Definition Fval (xx yy x0 y0 x1 y1 : Q) : Q :=
  (x1 - x0) * (yy - y0) * (y1 - y0) - (xx - x0) * (y1 - y0) * (y1 - y0).
Definition cval (x0 y0 x1 y1 : Q) : Q := (x1 - x0) * (y1 - y0).
Definition edge_delta (xx yy x0 y0 x1 y1 : Q) : Q :=
  qmin3 (gap yy y0) (gap yy y1)
        (if qeqb (Fval xx yy x0 y0 x1 y1) 0 then 1
         else myabs (Fval xx yy x0 y0 x1 y1) / (myabs (cval x0 y0 x1 y1) + 1)).

Lemma edge_delta_pos xx yy x0 y0 x1 y1 : 0 < edge_delta xx yy x0 y0 x1 y1.
Proof.
  unfold edge_delta. apply qmin3_pos; try apply gap_pos.
  destruct (qeqb_spec (Fval xx yy x0 y0 x1 y1) 0) as [E|E]; [lra|].
  destruct (myabs_spec (cval x0 y0 x1 y1)) as [C0 _].
  assert (0 < myabs (Fval xx yy x0 y0 x1 y1)).
  { destruct (myabs_spec (Fval xx yy x0 y0 x1 y1)) as [F0 [F1 F2]].
    destruct (Q_dec (Fval xx yy x0 y0 x1 y1) 0) as [[Hn|Hp]|Hz]; [lra|lra|contradiction]. }
  apply Qlt_shift_div_l; lra.
Qed.

Lemma qltb_iff a b c d : (a < b <-> c < d) -> qltb a b = qltb c d.
Proof.
  intro H. destruct (qltb_spec a b), (qltb_spec c d); try reflexivity; exfalso; tauto.
Qed.

Lemma F_nonzero xx yy x0 y0 x1 y1 :
  ~ on_segment xx yy x0 y0 x1 y1 -> ~ y1 - y0 == 0 ->
  (y0 <= yy <= y1 \/ y1 <= yy <= y0) -> ~ Fval xx yy x0 y0 x1 y1 == 0.
Proof.
  intros Hnb Hd Hy HF. apply Hnb. unfold on_segment, Fval in *.
  assert (Hc : (x1 - x0) * (yy - y0) == (y1 - y0) * (xx - x0)).
  { assert (E : ((x1 - x0) * (yy - y0) - (y1 - y0) * (xx - x0)) * (y1 - y0) == 0) by lra.
    destruct (Qmult_integral _ _ E) as [E1|E1]; [lra|contradiction]. }
  split; [exact Hc|]. split; [|exact Hy].
  destruct (Qlt_le_dec x0 x1); [left|right]; split; destruct Hy as [Hy|Hy]; nra.
Qed.

Lemma edge_generic xx yy x0 y0 x1 y1 e :
  ~ on_segment xx yy x0 y0 x1 y1 ->
  0 < e -> e < edge_delta xx yy x0 y0 x1 y1 ->
  cross_generic_b xx (yy - e) x0 y0 x1 y1 = cross_half_open_b xx yy x0 y0 x1 y1.
Proof.
  intros Hnb He Hd.
  unfold edge_delta in Hd.
  destruct (qmin3_spec (gap yy y0) (gap yy y1)
              (if qeqb (Fval xx yy x0 y0 x1 y1) 0 then 1
               else myabs (Fval xx yy x0 y0 x1 y1) / (myabs (cval x0 y0 x1 y1) + 1))) as [G0 [G1 G2]].
  assert (D0 : e < gap yy y0) by lra. assert (D1 : e < gap yy y1) by lra.
  unfold gap in D0, D1.
  (* the inequality part, when F(yy) <> 0 *)
  assert (Hineq : ~ Fval xx yy x0 y0 x1 y1 == 0 ->
     qltb ((xx - x0) * (y1 - y0) * (y1 - y0)) ((x1 - x0) * (yy - e - y0) * (y1 - y0)) =
     qltb ((xx - x0) * (y1 - y0) * (y1 - y0)) ((x1 - x0) * (yy - y0) * (y1 - y0))).
  { intro HF. apply qltb_iff.
    destruct (qeqb_spec (Fval xx yy x0 y0 x1 y1) 0) as [E|E]; [contradiction|].
    assert (Hb : e * (myabs (cval x0 y0 x1 y1) + 1) < myabs (Fval xx yy x0 y0 x1 y1)).
    { destruct (myabs_spec (cval x0 y0 x1 y1)) as [C0 _].
      assert (e < myabs (Fval xx yy x0 y0 x1 y1) / (myabs (cval x0 y0 x1 y1) + 1)) by lra.
      apply (Qmult_lt_r _ _ (myabs (cval x0 y0 x1 y1) + 1)) in H; [|lra].
      rewrite Qmult_comm in H. setoid_replace (myabs (Fval xx yy x0 y0 x1 y1) / (myabs (cval x0 y0 x1 y1) + 1) * (myabs (cval x0 y0 x1 y1) + 1))
        with (myabs (Fval xx yy x0 y0 x1 y1)) in H by (field; lra). rewrite Qmult_comm. exact H. }
    pose proof (sign_stable _ (cval x0 y0 x1 y1) e HF He Hb) as HS.
    unfold Fval, cval in HS.
    assert (E1 : (x1 - x0) * (yy - e - y0) * (y1 - y0) - (xx - x0) * (y1 - y0) * (y1 - y0) ==
                 (x1 - x0) * (yy - y0) * (y1 - y0) - (xx - x0) * (y1 - y0) * (y1 - y0) - e * ((x1 - x0) * (y1 - y0))) by ring.
    split; intro H.
    - assert (H0 : 0 < (x1 - x0) * (yy - y0) * (y1 - y0) - (xx - x0) * (y1 - y0) * (y1 - y0) - e * ((x1 - x0) * (y1 - y0))) by lra.
      apply HS in H0. lra.
    - assert (H0 : 0 < (x1 - x0) * (yy - y0) * (y1 - y0) - (xx - x0) * (y1 - y0) * (y1 - y0)) by lra.
      apply HS in H0. lra. }
  unfold cross_generic_b, cross_half_open_b.
  destruct (tri y0 yy) as [[A|A]|A]; destruct (tri y1 yy) as [[B|B]|B].
  all: try (destruct (qltb_spec y0 yy) as [T0|T0]; [|exfalso; lra]);
       try (destruct (qltb_spec y1 yy) as [T1|T1]; [|exfalso; lra]).
  all: qb_simpl; rewrite ?andb_false_r, ?andb_true_r; cbn [andb orb negb]; try reflexivity.
  all: apply Hineq; apply F_nonzero; [exact Hnb|lra|lra].
Qed.

Fixpoint poly_delta (xx yy : Q) (pts : list pt) : Q :=
  match pts with
  | p0 :: ((p1 :: _) as tl) =>
      Qmin (edge_delta xx yy (fst p0) (snd p0) (fst p1) (snd p1)) (poly_delta xx yy tl)
  | _ => 1
  end.

Lemma poly_delta_cons2 xx yy p0 p1 tl :
  poly_delta xx yy (p0 :: p1 :: tl) =
  Qmin (edge_delta xx yy (fst p0) (snd p0) (fst p1) (snd p1)) (poly_delta xx yy (p1 :: tl)).
Proof. reflexivity. Qed.

Lemma poly_delta_pos xx yy pts : 0 < poly_delta xx yy pts.
Proof.
  induction pts as [|p0 tl IH]; cbn [poly_delta]; [lra|].
  destruct tl as [|p1 tl']; [lra|].
  apply Q.min_glb_lt; [apply edge_delta_pos|exact IH].
Qed.

Lemma count_generic_below xx yy pts e :
  ~ on_boundary pts (xx, yy) -> 0 < e -> e < poly_delta xx yy pts ->
  count_generic xx (yy - e) pts = count_cross xx yy pts.
Proof.
  induction pts as [|p0 tl IH]; intros Hnb He Hd; [reflexivity|].
  destruct tl as [|p1 tl']; [reflexivity|].
  rewrite poly_delta_cons2 in Hd.
  pose proof (Q.le_min_l (edge_delta xx yy (fst p0) (snd p0) (fst p1) (snd p1)) (poly_delta xx yy (p1 :: tl'))) as M1.
  pose proof (Q.le_min_r (edge_delta xx yy (fst p0) (snd p0) (fst p1) (snd p1)) (poly_delta xx yy (p1 :: tl'))) as M2.
  change (count_generic xx (yy - e) (p0 :: p1 :: tl')) with
    ((if cross_generic_b xx (yy - e) (fst p0) (snd p0) (fst p1) (snd p1) then 1 else 0) + count_generic xx (yy - e) (p1 :: tl'))%Z.
  rewrite count_cross_cons2. rewrite IH.
  - rewrite edge_generic; [reflexivity| |exact He|lra].
    intro Hon. apply Hnb. exists (p0, p1). split; [left; reflexivity|exact Hon].
  - intro Hb. apply Hnb. apply on_boundary_cons. exact Hb.
  - exact He.
  - lra.
Qed.

(* Off the boundary, the answer of the implementation's model is the crossing parity of a ray in general position
   just below the query: for every sufficiently small e > 0 the level yy - e meets no vertex-level special case. *)
Lemma inside2d_generic_ray pts q :
  ~ on_boundary pts q ->
  exists d, 0 < d /\ forall e, 0 < e -> e < d ->
    inside2d pts q = Z.odd (count_generic (fst q) (snd q - e) pts).
Proof.
  intro Hnb. destruct q as [xx yy]. exists (poly_delta xx yy pts). split; [apply poly_delta_pos|].
  intros e He Hd. cbn [fst snd]. rewrite (count_generic_below xx yy pts e Hnb He Hd).
  apply (inside2d_half_open pts (xx, yy) Hnb).
Qed.

(* C20 model: executable mirror of
     PolyElem::inside            /repo/src/Polygon/PolyElem.cpp:181
     PolyElem::_isClosed/closePolyElem           PolyElem.cpp:157-170
     PolyElem::inside3D                          PolyElem.cpp:263
     Polygons::inside                            Polygons.cpp:665
     db_polygon                                  Polygons.cpp:931
   Exact rational arithmetic: every finite double is a rational. No proofs here. *)
From Coq Require Import List ZArith QArith Qabs Qminmax Bool.
From Gst Require Import lib.QAux.
Import ListNotations.
Local Open Scope Q_scope.

Definition pt := (Q * Q)%type.




(* One iteration of the vertex loop of PolyElem::inside; [inter] is the running counter.
   "inter = 1; continue" is rendered by returning 1 directly. *)
Definition edge_step (xx yy x0 y0 x1 y1 : Q) (inter : Z) : Z :=
  let dx := x1 - x0 in
  let dy := y1 - y0 in
  if (qeqb dy 0 && qeqb yy y0) &&
     ((qltb x0 x1 && qltb x0 xx && qltb xx x1) || (qltb x1 x0 && qltb xx x0 && qltb x1 xx))
  then 1%Z
  else
    let straddle := negb (qeqb dy 0) &&
                    ((qltb yy y0 && qltb y1 yy) || (qltb y0 yy && qltb yy y1)) in
    let xinter := (dx * yy + dy * x0 - dx * y0) / dy in
    if straddle && qeqb xinter xx then 1%Z
    else
      let i1 := if straddle && qltb xx xinter then (inter + 1)%Z else inter in
      let i2 := if qeqb yy y0 && qltb y1 y0 && qltb xx x0 then (i1 + 1)%Z else i1 in
      let i3 := if qeqb yy y1 && qltb y0 y1 && qltb xx x1 then (i2 + 1)%Z else i2 in
      if qeqb xx x0 && qeqb yy y0 then 1%Z else i3.

Fixpoint inside_loop (xx yy : Q) (pts : list pt) (inter : Z) : Z :=
  match pts with
  | p0 :: ((p1 :: _) as tl) =>
      inside_loop xx yy tl (edge_step xx yy (fst p0) (snd p0) (fst p1) (snd p1) inter)
  | _ => inter
  end.

Definition inside2d (pts : list pt) (q : pt) : bool :=
  Z.odd (inside_loop (fst q) (snd q) pts 0%Z).

(* closePolyElem: append the first vertex unless first and last agree within EPSILON5 *)
Definition eps5 : Q := 1 # 100000.
Definition is_closed (pts : list pt) : bool :=
  match pts with
  | [] => true
  | p0 :: _ =>
      let pn := last pts p0 in
      qleb (Qabs (fst p0 - fst pn)) eps5 && qleb (Qabs (snd p0 - snd pn)) eps5
  end.
Definition close (pts : list pt) : list pt :=
  match pts with
  | [] => []
  | p0 :: _ => if is_closed pts then pts else pts ++ [p0]
  end.

Record polyelem := { pe_pts : list pt; pe_zmin : option Q; pe_zmax : option Q }.

Definition inside3d (pe : polyelem) (z : option Q) : bool :=
  match z with
  | None => true
  | Some zz =>
      (match pe_zmin pe with Some a => negb (qltb zz a) | None => true end) &&
      (match pe_zmax pe with Some b => negb (qltb b zz) | None => true end)
  end.

(* Polygons::inside after the fix "a PolyElem whose vertical limits exclude the point is skipped". *)
Definition elem_inside (q : pt) (z : option Q) (pe : polyelem) : bool :=
  inside3d pe z && inside2d (close (pe_pts pe)) q.

Fixpoint count_inside (q : pt) (z : option Q) (pes : list polyelem) : Z :=
  match pes with
  | [] => 0%Z
  | pe :: r => ((if elem_inside q z pe then 1 else 0) + count_inside q z r)%Z
  end.

Definition polygons_inside (pes : list polyelem) (q : pt) (z : option Q) (nested : bool) : bool :=
  if nested then Z.odd (count_inside q z pes)
  else existsb (elem_inside q z) pes.

(* db_polygon: one sample = (active, x, y, optional z) *)
Record sample := { s_active : bool; s_xy : pt; s_z : option Q }.
Definition shiftx (d : Q) (q : pt) : pt := (fst q + d, snd q).
Definition db_polygon_one (pes : list polyelem) (flag_sel flag_period nested : bool) (s : sample) : bool :=
  if negb flag_sel || s_active s then
    let r0 := polygons_inside pes (s_xy s) (s_z s) nested in
    if flag_period then
      r0 || polygons_inside pes (shiftx (-(360#1)) (s_xy s)) (s_z s) nested
         || polygons_inside pes (shiftx (360#1) (s_xy s)) (s_z s) nested
    else r0
  else false.
Definition db_polygon (pes : list polyelem) (flag_sel flag_period nested : bool) (db : list sample) : list bool :=
  map (db_polygon_one pes flag_sel flag_period nested) db.

(* Editing a polygon set in place: Polygons::addPolyElem, Polygons::setX + setY (Polygons.cpp). The object is a value:
   after any sequence of edits, queries see the current vertex lists (closed on the fly). *)
Inductive pop := PAdd (pe : polyelem) | PSetXY (i : nat) (pts : list pt).
Definition pe_dflt : polyelem := {| pe_pts := []; pe_zmin := None; pe_zmax := None |}.
Definition apply_pop (pes : list polyelem) (o : pop) : list polyelem :=
  match o with
  | PAdd pe => pes ++ [pe]
  | PSetXY i pts =>
      if Nat.ltb i (length pes) then
        firstn i pes ++ [{| pe_pts := pts; pe_zmin := pe_zmin (nth i pes pe_dflt); pe_zmax := pe_zmax (nth i pes pe_dflt) |}]
        ++ skipn (S i) pes
      else pes
  end.
Definition polygons_after (ops : list pop) : list polyelem := fold_left apply_pop ops [].

(* C20 — property theorems only. Each is closed by [exact] of a lemma of Proofs.v. *)
From Coq Require Import List ZArith QArith Bool Permutation.
From Gst Require Import lib.QAux C20.Model C20.Spec C20.Proofs C20.Generic C20.Cyclic C20.Scale C20.Select C20.HullModel C20.Hull.
Import ListNotations.
Local Open Scope Q_scope.

(* Off the boundary, the implementation's answer is the parity of the canonical half-open
   crossing count: an edge counts iff the query ordinate is in ]ymin, ymax] and the edge meets
   the query's horizontal strictly to the right.  No bound on the number of vertices; the
   vertex list may be open or closed, simple or not, of either orientation. *)
Theorem C20_half_open : forall (pts : list pt) (q : pt),
  ~ on_boundary pts q -> inside2d pts q = Z.odd (count_cross (fst q) (snd q) pts).
Proof. exact inside2d_half_open. Qed.
Print Assumptions C20_half_open.

(* ... which is the crossing count of a generic ray (no vertex-level special case: strict straddling only)
   cast from a point infinitesimally below the query: the textbook definition of interior. *)
Theorem C20_generic_ray : forall (pts : list pt) (q : pt),
  ~ on_boundary pts q ->
  exists d, 0 < d /\ forall e, 0 < e -> e < d ->
    inside2d pts q = Z.odd (count_generic (fst q) (snd q - e) pts).
Proof. exact inside2d_generic_ray. Qed.
Print Assumptions C20_generic_ray.

(* One loop iteration (what a change to PolyElem::inside would break first) *)
Theorem C20_edge_rule : forall xx yy x0 y0 x1 y1 inter,
  ~ on_segment xx yy x0 y0 x1 y1 ->
  edge_step xx yy x0 y0 x1 y1 inter =
  (inter + (if cross_half_open_b xx yy x0 y0 x1 y1 then 1 else 0))%Z.
Proof. exact edge_step_spec. Qed.
Print Assumptions C20_edge_rule.

Theorem C20_translation : forall tx ty pts q,
  ~ on_boundary pts q -> inside2d (map (tr tx ty) pts) (tr tx ty q) = inside2d pts q.
Proof. exact inside2d_translate. Qed.
Print Assumptions C20_translation.

Theorem C20_orientation : forall pts q,
  ~ on_boundary pts q -> inside2d (rev pts) q = inside2d pts q.
Proof. exact inside2d_rev. Qed.
Print Assumptions C20_orientation.

(* the answer does not depend on the units of the axes: scaling x by cx > 0 and y by cy > 0 (polygon and query alike) *)
Theorem C20_axis_scaling : forall cx cy pts q, 0 < cx -> 0 < cy ->
  ~ on_boundary pts q -> inside2d (map (sc cx cy) pts) (sc cx cy q) = inside2d pts q.
Proof. exact inside2d_scale. Qed.
Print Assumptions C20_axis_scaling.

(* the answer does not depend on the vertex the ring starts with (any rotation of the open vertex list) *)
Theorem C20_cyclic_shift : forall k l q, (k <= length l)%nat ->
  ~ on_boundary (ring l) q -> inside2d (ring (skipn k l ++ firstn k l)) q = inside2d (ring l) q.
Proof. intros k l q Hk Hnb. rewrite <- rotn_skipn_firstn by exact Hk. apply inside2d_rotn. exact Hnb. Qed.
Print Assumptions C20_cyclic_shift.

(* ... where the ring is what closePolyElem builds from a list that is not closed yet *)
Theorem C20_close_is_ring : forall l, is_closed l = false -> close l = ring l.
Proof. exact close_ring. Qed.
Print Assumptions C20_close_is_ring.

(* union rule with vertical limits *)
Theorem C20_sets_union : forall pes q z,
  polygons_inside pes q z false = true <->
  exists pe, In pe pes /\ inside3d pe z = true /\ inside2d (close (pe_pts pe)) q = true.
Proof. exact polygons_inside_union. Qed.
Print Assumptions C20_sets_union.

(* the answer for a polygon set does not depend on the order of its elements *)
Theorem C20_sets_order : forall pes pes' q z nested,
  Permutation pes pes' -> polygons_inside pes q z nested = polygons_inside pes' q z nested.
Proof. exact polygons_inside_perm. Qed.
Print Assumptions C20_sets_order.

(* the boolean boundary filter used by the correspondence is the spec's predicate *)
Theorem C20_boundary_filter : forall pts q, on_boundary_b pts q = true <-> on_boundary pts q.
Proof. exact on_boundary_b_spec. Qed.
Print Assumptions C20_boundary_filter.

(* Non-vacuity: a comb polygon, query level with three vertices and one horizontal edge, off boundary *)
(* db_polygon: complete characterisation of one sample's answer (old selection, vertical limits through
   polygons_inside, longitude periodicity = union of the answers at x-360, x, x+360) *)
Theorem C20_selection_spec : forall pes fs fp nested s,
  db_polygon_one pes fs fp nested s =
  (negb fs || s_active s) &&
  (polygons_inside pes (s_xy s) (s_z s) nested ||
   (fp && (polygons_inside pes (shiftx (-(360#1)) (s_xy s)) (s_z s) nested ||
           polygons_inside pes (shiftx (360#1) (s_xy s)) (s_z s) nested))).
Proof. exact db_polygon_one_spec. Qed.
Print Assumptions C20_selection_spec.

(* the selection is decided sample by sample: one answer per sample, a function of that sample alone *)
Theorem C20_selection_pointwise : forall pes fs fp nested db,
  length (db_polygon pes fs fp nested db) = length db /\
  forall i, (i < length db)%nat ->
    nth i (db_polygon pes fs fp nested db) false = db_polygon_one pes fs fp nested (nth i db s_dflt).
Proof. intros; split; [apply db_polygon_length | intros; apply db_polygon_pointwise; assumption]. Qed.
Print Assumptions C20_selection_pointwise.

(* with flag_sel the new selection is a subset of the old one; periodicity only adds samples *)
Theorem C20_selection_narrows : forall pes fp nested s,
  db_polygon_one pes true fp nested s = true -> s_active s = true.
Proof. exact db_polygon_narrows. Qed.
Print Assumptions C20_selection_narrows.
Theorem C20_selection_period_monotone : forall pes fs nested s,
  db_polygon_one pes fs false nested s = true -> db_polygon_one pes fs true nested s = true.
Proof. exact db_polygon_period_monotone. Qed.
Print Assumptions C20_selection_period_monotone.

(* convex hull (Polygons::createFromDb): the polygon returned by the implementation is validated on every case by the checker
   hull_ok; an accepted polygon has data points as vertices, is convex with every data point in the intersection of its edge
   half-planes, and every data point passes the inclusion test of the closed ring or lies on its boundary *)
Theorem C20_hull_certificate : forall pts hull, hull_ok pts hull = true -> hull_spec pts hull.
Proof. exact hull_ok_sound. Qed.
Print Assumptions C20_hull_certificate.
Example C20_hull_nonvacuous :
  hull_ok [(0, 0); (2, 0); (1, 1); (2, 2); (0, 2); (1, 0)] [(0, 0); (2, 0); (2, 2); (0, 2); (0, 0)] = true /\
  hull_ok [(0, 0); (2, 0); (1, 1); (2, 2); (0, 2); (1, 0)] [(0, 0); (2, 0); (1, 1); (0, 2); (0, 0)] = false.
Proof. split; vm_compute; reflexivity. Qed.

Example C20_nonvacuous :
  let pts := [(0,0); (6,0); (6,4); (5,2); (4,4); (3,2); (2,2); (1,4); (0,4); (0,0)] in
  on_boundary_b pts (9#2, 2) = false /\ inside2d pts (9#2, 2) = true /\
  Z.odd (count_cross (9#2) 2 pts) = true /\
  on_boundary_b pts (5#2, 2) = true.
Proof. vm_compute. repeat split; reflexivity. Qed.

Example C20_cyclic_nonvacuous :
  let l := [(0,0); (6,0); (6,4); (5,2); (4,4); (3,2); (2,2); (1,4); (0,4)] in
  is_closed l = false /\ on_boundary_b (ring l) (9#2, 2) = false /\
  inside2d (ring (skipn 4 l ++ firstn 4 l)) (9#2, 2) = true /\ inside2d (ring l) (9#2, 2) = true.
Proof. vm_compute. repeat split; reflexivity. Qed.

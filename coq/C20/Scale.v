(* C20 — the answer is invariant under a change of units on each axis (scaling by cx > 0, cy > 0). *)
From Coq Require Import List ZArith QArith Bool Lia Lqa.
From Gst Require Import lib.QAux C20.Model C20.Spec C20.Proofs.
Import ListNotations.
Local Open Scope Q_scope.

Definition sc (cx cy : Q) (p : pt) : pt := (cx * fst p, cy * snd p).

Lemma qltb_scale k a b : 0 < k -> qltb (k * a) (k * b) = qltb a b.
Proof.
  intro Hk. destruct (qltb_spec (k * a) (k * b)) as [L|L], (qltb_spec a b) as [M|M]; try reflexivity; exfalso; nra.
Qed.
Lemma qleb_scale k a b : 0 < k -> qleb (k * a) (k * b) = qleb a b.
Proof.
  intro Hk. destruct (qleb_spec (k * a) (k * b)) as [L|L], (qleb_spec a b) as [M|M]; try reflexivity; exfalso; nra.
Qed.

Lemma cross_scale xx yy x0 y0 x1 y1 cx cy : 0 < cx -> 0 < cy ->
  cross_half_open_b (cx * xx) (cy * yy) (cx * x0) (cy * y0) (cx * x1) (cy * y1) =
  cross_half_open_b xx yy x0 y0 x1 y1.
Proof.
  intros Hx Hy. unfold cross_half_open_b.
  rewrite !(qltb_scale cy), !(qleb_scale cy) by exact Hy. f_equal.
  assert (Hk : 0 < cx * cy * cy) by (apply Qmult_lt_0_compat; [apply Qmult_lt_0_compat|]; assumption).
  rewrite <- (qltb_scale (cx * cy * cy) ((xx - x0) * (y1 - y0) * (y1 - y0)) ((x1 - x0) * (yy - y0) * (y1 - y0)) Hk).
  apply qltb_proper; ring.
Qed.

Lemma count_cross_scale xx yy cx cy pts : 0 < cx -> 0 < cy ->
  count_cross (cx * xx) (cy * yy) (map (sc cx cy) pts) = count_cross xx yy pts.
Proof.
  intros Hx Hy. induction pts as [|p0 tl IH]; [reflexivity|].
  destruct tl as [|p1 tl']; [reflexivity|].
  cbn [map] in *. cbn [count_cross]. cbn [count_cross] in IH. rewrite IH.
  unfold sc; cbn [fst snd]. rewrite cross_scale by assumption. reflexivity.
Qed.

Lemma on_segment_scale xx yy x0 y0 x1 y1 cx cy : 0 < cx -> 0 < cy ->
  on_segment (cx * xx) (cy * yy) (cx * x0) (cy * y0) (cx * x1) (cy * y1) <-> on_segment xx yy x0 y0 x1 y1.
Proof.
  intros Hx Hy. unfold on_segment. split; intros [H1 [H2 H3]].
  - split; [|split].
    + assert (E : (cx * cy) * ((x1 - x0) * (yy - y0)) == (cx * cy) * ((y1 - y0) * (xx - x0))) by (ring_simplify; ring_simplify in H1; lra).
      assert (Hk : 0 < cx * cy) by (apply Qmult_lt_0_compat; assumption). nra.
    + destruct H2 as [[A B]|[A B]]; [left|right]; split; nra.
    + destruct H3 as [[A B]|[A B]]; [left|right]; split; nra.
  - split; [|split].
    + assert (E : (cx * cy) * ((x1 - x0) * (yy - y0)) == (cx * cy) * ((y1 - y0) * (xx - x0))) by (rewrite H1; reflexivity).
      ring_simplify. ring_simplify in E. lra.
    + destruct H2 as [[A B]|[A B]]; [left|right]; split; nra.
    + destruct H3 as [[A B]|[A B]]; [left|right]; split; nra.
Qed.

Lemma on_boundary_scale cx cy pts q : 0 < cx -> 0 < cy ->
  on_boundary (map (sc cx cy) pts) (sc cx cy q) <-> on_boundary pts q.
Proof.
  intros Hx Hy. unfold on_boundary. rewrite edges_map. split.
  - intros [e [Hin Hon]]. apply in_map_iff in Hin. destruct Hin as [e0 [He Hin]]. subst e.
    exists e0. split; [exact Hin|]. unfold sc in Hon; cbn [fst snd] in Hon.
    apply on_segment_scale in Hon; assumption.
  - intros [e [Hin Hon]]. exists (sc cx cy (fst e), sc cx cy (snd e)). split.
    + apply in_map_iff. exists e. split; [reflexivity|exact Hin].
    + unfold sc; cbn [fst snd]. apply on_segment_scale; assumption.
Qed.

Lemma inside2d_scale cx cy pts q : 0 < cx -> 0 < cy ->
  ~ on_boundary pts q ->
  inside2d (map (sc cx cy) pts) (sc cx cy q) = inside2d pts q.
Proof.
  intros Hx Hy Hnb.
  rewrite (inside2d_half_open pts q Hnb).
  rewrite inside2d_half_open by (rewrite on_boundary_scale by assumption; exact Hnb).
  unfold sc at 1 2; cbn [fst snd]. rewrite count_cross_scale by assumption. reflexivity.
Qed.

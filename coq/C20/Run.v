(* C20 runner: decodes a case, runs model and spec. Executable only. *)
From Coq Require Import List ZArith QArith Bool.
From Gst Require Import lib.Sx lib.QAux C20.Model C20.Spec C20.HullModel.
Import ListNotations.

Definition asPt (s : sx) : option pt :=
  match s with
  | L [a; b] => match asQ a, asQ b with Some x, Some y => Some (x, y) | _, _ => None end
  | _ => None
  end.
Definition asPE (s : sx) : option polyelem :=
  match s with
  | L [p; a; b] =>
      match asListOf asPt p, asOQ a, asOQ b with
      | Some pts, Some zmin, Some zmax => Some {| pe_pts := pts; pe_zmin := zmin; pe_zmax := zmax |}
      | _, _, _ => None
      end
  | _ => None
  end.
Definition asSample (s : sx) : option sample :=
  match s with
  | L [a; x; y; z] =>
      match asB a, asQ x, asQ y, asOQ z with
      | Some a', Some x', Some y', Some z' => Some {| s_active := a'; s_xy := (x', y'); s_z := z' |}
      | _, _, _, _ => None
      end
  | _ => None
  end.

(* spec-level answer for a polygon set: same set rule, 2-D test replaced by the crossing parity *)
Definition spec_elem (q : pt) (z : option Q) (pe : polyelem) : bool :=
  inside3d pe z && Z.odd (count_cross (fst q) (snd q) (close (pe_pts pe))).
Definition spec_polygons (pes : list polyelem) (q : pt) (z : option Q) (nested : bool) : bool :=
  if nested then Z.odd (fold_right (fun pe acc => ((if spec_elem q z pe then 1 else 0) + acc)%Z) 0%Z pes)
  else existsb (spec_elem q z) pes.
Definition any_boundary (pes : list polyelem) (q : pt) : bool :=
  existsb (fun pe => on_boundary_b (close (pe_pts pe)) q) pes.

Definition asPop (s : sx) : option pop :=
  match s with
  | L [I 0%Z; pe] => match asPE pe with Some pe' => Some (PAdd pe') | None => None end
  | L [I 1%Z; i; pts] => match asNat i, asListOf asPt pts with Some i', Some p => Some (PSetXY i' p) | _, _ => None end
  | _ => None
  end.

Definition run (c : sx) : sx :=
  match c with
  | L [I 3%Z; n; ops; q; z] =>
      match asB n, asListOf asPop ops, asPt q, asOQ z with
      | Some nested, Some ops', Some q', Some z' =>
          let pes := polygons_after ops' in
          L [ofB (polygons_inside pes q' z' nested); ofB (any_boundary pes q');
             ofB (spec_polygons pes q' z' nested)]
      | _, _, _, _ => sx_error 1
      end
  | L [I 0%Z; p; q] =>
      match asListOf asPt p, asPt q with
      | Some pts, Some q' =>
          L [ofB (inside2d pts q'); ofB (on_boundary_b pts q');
             ofB (Z.odd (count_cross (fst q') (snd q') pts))]
      | _, _ => sx_error 1
      end
  | L [I 1%Z; n; p; q; z] =>
      match asB n, asListOf asPE p, asPt q, asOQ z with
      | Some nested, Some pes, Some q', Some z' =>
          L [ofB (polygons_inside pes q' z' nested); ofB (any_boundary pes q');
             ofB (spec_polygons pes q' z' nested)]
      | _, _, _, _ => sx_error 1
      end
  | L [I 2%Z; fs; fp; n; p; ss] =>
      match asB fs, asB fp, asB n, asListOf asPE p, asListOf asSample ss with
      | Some flag_sel, Some flag_period, Some nested, Some pes, Some db =>
          L [ofList ofB (db_polygon pes flag_sel flag_period nested db);
             ofList (fun s => ofB (any_boundary pes (s_xy s)
                                   || (flag_period && (any_boundary pes (shiftx (-(360#1)) (s_xy s))
                                                       || any_boundary pes (shiftx (360#1) (s_xy s)))))) db]
      | _, _, _, _, _ => sx_error 1
      end
  | L [I 5%Z; p; h] =>   (* certificate check of a convex hull: data points, hull vertices as returned by the implementation (ranks of data points) *)
      match asListOf asPt p, asListOf asNat h with
      | Some pts, Some idx =>
          let hull := map (fun i => nth i pts (0, 0)) idx in
          L [ofB (hull_ok pts hull); ofB (forallb (fun i => Nat.ltb i (length pts)) idx)]
      | _, _ => sx_error 1
      end
  | _ => sx_error 0
  end.

From Coq Require Import List ZArith QArith Qabs Qminmax Bool Lqa Lia Permutation.
From Gst Require Import lib.QAux C20.Model C20.Spec.
Import ListNotations.
Local Open Scope Q_scope.

Ltac qb_step :=
  match goal with
  | |- context [qltb ?a ?b] =>
      first [ let H := fresh in assert (H: a < b) by lra; rewrite (proj2 (qltb_true a b) H); clear H
            | let H := fresh in assert (H: b <= a) by lra; rewrite (proj2 (qltb_false a b) H); clear H ]
  | |- context [qleb ?a ?b] =>
      first [ let H := fresh in assert (H: a <= b) by lra; rewrite (proj2 (qleb_true a b) H); clear H
            | let H := fresh in assert (H: b < a) by lra; rewrite (proj2 (qleb_false a b) H); clear H ]
  | |- context [qeqb ?a ?b] =>
      first [ let H := fresh in assert (H: a == b) by lra; rewrite (proj2 (qeqb_true a b) H); clear H
            | let H := fresh in assert (H: ~ a == b) by lra; rewrite (proj2 (qeqb_false a b) H); clear H ]
  end.
Ltac qb_simpl := repeat (qb_step; cbn [andb orb negb]).

Lemma tri a b : {a < b} + {a == b} + {b < a}.
Proof. destruct (Q_dec a b) as [[H|H]|H]; auto. Qed.

(* straddling edge: position of xx relative to the intersection abscissa *)
Lemma straddle_case xx yy x0 y0 x1 y1 inter :
  ~ on_segment xx yy x0 y0 x1 y1 ->
  (y0 < yy /\ yy < y1) \/ (y1 < yy /\ yy < y0) ->
  (if qeqb (((x1 - x0) * yy + (y1 - y0) * x0 - (x1 - x0) * y0) / (y1 - y0)) xx
  then 1%Z
  else
    if
     qltb xx (((x1 - x0) * yy + (y1 - y0) * x0 - (x1 - x0) * y0) / (y1 - y0))
    then (inter + 1)%Z
    else inter) =
 (inter +
  (if
    qltb ((xx - x0) * (y1 - y0) * (y1 - y0))
      ((x1 - x0) * (yy - y0) * (y1 - y0))
   then 1
   else 0))%Z.
Proof.
  intros Hnb Hs.
  assert (Hd : ~ y1 - y0 == 0) by lra.
  set (N := (x1 - x0) * yy + (y1 - y0) * x0 - (x1 - x0) * y0).
  destruct (qeqb_spec (N / (y1 - y0)) xx) as [E|E].
  - exfalso. apply Hnb. apply Qeq_div_sq in E; [|exact Hd]. unfold N in E. unfold on_segment.
    split; [lra|]. split; [|lra].
    destruct (Qlt_le_dec x0 x1); [left|right]; split; nra.
  - pose proof (Qlt_div_sq xx N (y1 - y0) Hd) as HL.
    destruct (qltb_spec xx (N / (y1 - y0))) as [L|L];
    destruct (qltb_spec ((xx - x0) * (y1 - y0) * (y1 - y0)) ((x1 - x0) * (yy - y0) * (y1 - y0))) as [M|M];
      try reflexivity; try lia; exfalso; unfold N in HL.
    + apply HL in L. lra.
    + apply L. apply HL. lra.
Qed.


Lemma mul_sq_lt a b d : ~ d == 0 -> (a * d * d < b * d * d <-> a < b).
Proof.
  intro Hd.
  assert (Hsq : 0 < d * d) by (destruct (Qlt_le_dec 0 d); [nra| assert (d < 0) by (destruct (Qeq_dec d 0); [contradiction|lra]); nra]).
  setoid_replace (a * d * d) with (a * (d * d)) by ring.
  setoid_replace (b * d * d) with (b * (d * d)) by ring.
  split; intro H; [apply Qmult_lt_r in H; assumption | apply Qmult_lt_compat_r; assumption].
Qed.

(* an endpoint of the edge is level with the query: crossing test reduces to a comparison of abscissae *)
Lemma level_cross xx x0 x1 y0 y1 yy xe :
  ~ y1 - y0 == 0 ->
  (xe - x0) * (y1 - y0) == (x1 - x0) * (yy - y0) ->
  qltb ((xx - x0) * (y1 - y0) * (y1 - y0)) ((x1 - x0) * (yy - y0) * (y1 - y0)) = qltb xx xe.
Proof.
  intros Hd E.
  assert (E2 : (x1 - x0) * (yy - y0) * (y1 - y0) == (xe - x0) * (y1 - y0) * (y1 - y0)) by (rewrite <- E; ring).
  rewrite E2.
  pose proof (mul_sq_lt (xx - x0) (xe - x0) (y1 - y0) Hd) as H.
  destruct (qltb_spec ((xx - x0) * (y1 - y0) * (y1 - y0)) ((xe - x0) * (y1 - y0) * (y1 - y0))) as [L|L];
  destruct (qltb_spec xx xe) as [M|M]; try reflexivity; exfalso.
  - apply H in L. lra.
  - apply L. apply H. lra.
Qed.

Lemma edge_step_spec xx yy x0 y0 x1 y1 inter :
  ~ on_segment xx yy x0 y0 x1 y1 ->
  edge_step xx yy x0 y0 x1 y1 inter =
  (inter + (if cross_half_open_b xx yy x0 y0 x1 y1 then 1 else 0))%Z.
Proof.
  intro Hnb.
  pose proof (straddle_case xx yy x0 y0 x1 y1 inter Hnb) as HS.
  unfold on_segment in Hnb.
  unfold edge_step, cross_half_open_b. cbv zeta.
  destruct (tri y0 yy) as [[A|A]|A]; destruct (tri y1 yy) as [[B|B]|B].
  all: qb_simpl; rewrite ?andb_false_r, ?andb_true_r; cbn [andb orb negb].
  - lia.
  - (* y0 < yy = y1 : upper endpoint level with the query *)
    rewrite (level_cross xx x0 x1 y0 y1 yy x1) by (try lra; rewrite B; ring).
    destruct (qltb_spec xx x1) as [L|L]; [reflexivity|].
    destruct (qeqb_spec xx x0); lia.
  - apply HS. left; lra.
  - (* y0 = yy > y1 *)
    rewrite (level_cross xx x0 x1 y0 y1 yy x0) by (try lra; rewrite <- A; ring).
    destruct (qeqb_spec xx x0) as [E|E].
    + exfalso. apply Hnb. split; [nra|]. split; [|lra]. destruct (Qlt_le_dec x0 x1); [left|right]; lra.
    + destruct (qltb_spec xx x0) as [L|L]; lia.
  - (* horizontal, level *)
    destruct (qeqb_spec xx x0) as [E|E].
    + exfalso. apply Hnb. split; [nra|]. split; [|lra]. destruct (Qlt_le_dec x0 x1); [left|right]; lra.
    + destruct (qltb_spec x0 x1), (qltb_spec x0 xx), (qltb_spec xx x1), (qltb_spec x1 x0), (qltb_spec xx x0), (qltb_spec x1 xx);
      cbn [andb orb]; try lia; exfalso; try lra; apply Hnb; (split; [nra|]); (split; [|lra]); lra.
  - destruct (qeqb_spec xx x0) as [E|E]; [|lia].
    exfalso. apply Hnb. split; [nra|]. split; [|lra]. destruct (Qlt_le_dec x0 x1); [left|right]; lra.
  - apply HS. right; lra.
  - lia.
  - lia.
Qed.

(* ---- lifting to the vertex loop ---- *)
Lemma on_boundary_cons p0 p1 tl q :
  on_boundary (p1 :: tl) q -> on_boundary (p0 :: p1 :: tl) q.
Proof. intros [e [Hin Hon]]. exists e. split; [right; exact Hin|exact Hon]. Qed.

Lemma inside_loop_spec xx yy pts inter :
  ~ on_boundary pts (xx, yy) ->
  inside_loop xx yy pts inter = (inter + count_cross xx yy pts)%Z.
Proof.
  revert inter. induction pts as [|p0 tl IH]; intros inter Hnb; cbn [inside_loop count_cross]; [lia|].
  destruct tl as [|p1 tl']; [lia|].
  rewrite IH.
  - rewrite edge_step_spec; [lia|].
    intro Hon. apply Hnb. exists (p0, p1). split; [left; reflexivity|exact Hon].
  - intro Hb. apply Hnb. apply on_boundary_cons. exact Hb.
Qed.

Lemma inside2d_half_open pts q :
  ~ on_boundary pts q -> inside2d pts q = Z.odd (count_cross (fst q) (snd q) pts).
Proof.
  intro Hnb. unfold inside2d. rewrite inside_loop_spec; [reflexivity|].
  destruct q; exact Hnb.
Qed.

Lemma cross_half_open_b_spec xx yy x0 y0 x1 y1 :
  cross_half_open_b xx yy x0 y0 x1 y1 = true <-> cross_half_open xx yy x0 y0 x1 y1.
Proof.
  unfold cross_half_open_b, cross_half_open.
  rewrite andb_true_iff, orb_true_iff, !andb_true_iff, !qltb_true, !qleb_true. tauto.
Qed.

Lemma on_segment_b_spec xx yy x0 y0 x1 y1 :
  on_segment_b xx yy x0 y0 x1 y1 = true <-> on_segment xx yy x0 y0 x1 y1.
Proof.
  unfold on_segment_b, on_segment.
  rewrite !andb_true_iff, !orb_true_iff, !andb_true_iff, !qleb_true, qeqb_true. tauto.
Qed.

Lemma on_boundary_b_spec pts q : on_boundary_b pts q = true <-> on_boundary pts q.
Proof.
  induction pts as [|p0 tl IH]; cbn [on_boundary_b].
  - split; [discriminate|]. intros [e [[] _]].
  - destruct tl as [|p1 tl'].
    + split; [discriminate|]. intros [e [[] _]].
    + rewrite orb_true_iff, on_segment_b_spec, IH. split.
      * intros [H|H]; [exists (p0,p1); split; [left; reflexivity|exact H] | apply on_boundary_cons; exact H].
      * intros [e [[He|Hin] Hon]]; [left; subst e; exact Hon | right; exists e; split; assumption].
Qed.

(* ---- invariances of the crossing rule ---- *)
Lemma cross_sym xx yy x0 y0 x1 y1 :
  cross_half_open_b xx yy x0 y0 x1 y1 = cross_half_open_b xx yy x1 y1 x0 y0.
Proof.
  unfold cross_half_open_b.
  destruct (tri y0 yy) as [[A|A]|A]; destruct (tri y1 yy) as [[B|B]|B].
  all: qb_simpl; rewrite ?andb_false_r, ?andb_true_r; cbn [andb orb negb]; try reflexivity.
  all: destruct (qltb_spec ((xx - x0) * (y1 - y0) * (y1 - y0)) ((x1 - x0) * (yy - y0) * (y1 - y0))) as [L|L];
       destruct (qltb_spec ((xx - x1) * (y0 - y1) * (y0 - y1)) ((x0 - x1) * (yy - y1) * (y0 - y1))) as [M|M];
       try reflexivity; exfalso; nra.
Qed.

Lemma cross_translate xx yy x0 y0 x1 y1 tx ty :
  cross_half_open_b (xx + tx) (yy + ty) (x0 + tx) (y0 + ty) (x1 + tx) (y1 + ty) =
  cross_half_open_b xx yy x0 y0 x1 y1.
Proof.
  unfold cross_half_open_b.
  assert (E1 : qltb (y1 + ty) (yy + ty) = qltb y1 yy) by (destruct (qltb_spec (y1 + ty) (yy + ty)), (qltb_spec y1 yy); try reflexivity; exfalso; lra).
  assert (E2 : qleb (yy + ty) (y0 + ty) = qleb yy y0) by (destruct (qleb_spec (yy + ty) (y0 + ty)), (qleb_spec yy y0); try reflexivity; exfalso; lra).
  assert (E3 : qltb (y0 + ty) (yy + ty) = qltb y0 yy) by (destruct (qltb_spec (y0 + ty) (yy + ty)), (qltb_spec y0 yy); try reflexivity; exfalso; lra).
  assert (E4 : qleb (yy + ty) (y1 + ty) = qleb yy y1) by (destruct (qleb_spec (yy + ty) (y1 + ty)), (qleb_spec yy y1); try reflexivity; exfalso; lra).
  rewrite E1, E2, E3, E4. f_equal.
  apply qltb_proper; ring.
Qed.

(* ---- translation invariance at polygon level ---- *)
Definition tr (tx ty : Q) (p : pt) : pt := (fst p + tx, snd p + ty).

Lemma count_cross_translate xx yy tx ty pts :
  count_cross (xx + tx) (yy + ty) (map (tr tx ty) pts) = count_cross xx yy pts.
Proof.
  induction pts as [|p0 tl IH]; [reflexivity|].
  destruct tl as [|p1 tl']; [reflexivity|].
  cbn [map] in *. cbn [count_cross]. cbn [count_cross] in IH. rewrite IH.
  unfold tr; cbn [fst snd]. rewrite cross_translate. reflexivity.
Qed.

Lemma on_segment_translate xx yy x0 y0 x1 y1 tx ty :
  on_segment (xx + tx) (yy + ty) (x0 + tx) (y0 + ty) (x1 + tx) (y1 + ty) <-> on_segment xx yy x0 y0 x1 y1.
Proof.
  unfold on_segment. split; intros [H1 [H2 H3]]; (split; [lra|]); split; lra.
Qed.

Lemma edges_map f pts : edges (map f pts) = map (fun e => (f (fst e), f (snd e))) (edges pts).
Proof.
  induction pts as [|p0 tl IH]; [reflexivity|].
  destruct tl as [|p1 tl']; [reflexivity|].
  cbn [map] in *. cbn [edges]. cbn [edges] in IH. rewrite IH. reflexivity.
Qed.

Lemma on_boundary_translate tx ty pts q :
  on_boundary (map (tr tx ty) pts) (tr tx ty q) <-> on_boundary pts q.
Proof.
  unfold on_boundary. rewrite edges_map. split.
  - intros [e [Hin Hon]]. apply in_map_iff in Hin. destruct Hin as [e0 [He Hin]]. subst e.
    exists e0. split; [exact Hin|]. cbn [fst snd tr] in Hon. unfold tr in Hon; cbn [fst snd] in Hon.
    apply on_segment_translate in Hon. exact Hon.
  - intros [e [Hin Hon]]. exists (tr tx ty (fst e), tr tx ty (snd e)). split.
    + apply in_map_iff. exists e. split; [reflexivity|exact Hin].
    + unfold tr; cbn [fst snd]. apply on_segment_translate. exact Hon.
Qed.

Lemma inside2d_translate tx ty pts q :
  ~ on_boundary pts q ->
  inside2d (map (tr tx ty) pts) (tr tx ty q) = inside2d pts q.
Proof.
  intro Hnb.
  rewrite (inside2d_half_open pts q Hnb).
  rewrite inside2d_half_open by (rewrite on_boundary_translate; exact Hnb).
  unfold tr at 1 2; cbn [fst snd]. rewrite count_cross_translate. reflexivity.
Qed.

(* ---- reversal of orientation ---- *)
Lemma count_cross_app_last xx yy l a b :
  count_cross xx yy ((l ++ [a]) ++ [b]) =
  (count_cross xx yy (l ++ [a]) +
   (if cross_half_open_b xx yy (fst a) (snd a) (fst b) (snd b) then 1 else 0))%Z.
Proof.
  induction l as [|p0 tl IH]; [cbn; lia|].
  destruct tl as [|p1 tl'].
  - cbn. lia.
  - cbn [app] in *. cbn [count_cross]. cbn [count_cross] in IH. rewrite IH. lia.
Qed.

Lemma count_cross_cons2 xx yy p0 p1 tl :
  count_cross xx yy (p0 :: p1 :: tl) =
  ((if cross_half_open_b xx yy (fst p0) (snd p0) (fst p1) (snd p1) then 1 else 0)
   + count_cross xx yy (p1 :: tl))%Z.
Proof. reflexivity. Qed.

Lemma count_cross_rev xx yy pts : count_cross xx yy (rev pts) = count_cross xx yy pts.
Proof.
  induction pts as [|p0 tl IH]; [reflexivity|].
  destruct tl as [|p1 tl']; [reflexivity|].
  rewrite count_cross_cons2. rewrite <- IH.
  change (rev (p0 :: p1 :: tl')) with ((rev tl' ++ [p1]) ++ [p0]).
  rewrite count_cross_app_last. change (rev (p1 :: tl')) with (rev tl' ++ [p1]).
  rewrite (cross_sym xx yy (fst p1) (snd p1) (fst p0) (snd p0)). lia.
Qed.

Lemma on_segment_sym xx yy x0 y0 x1 y1 :
  on_segment xx yy x0 y0 x1 y1 -> on_segment xx yy x1 y1 x0 y0.
Proof. unfold on_segment. intros [H1 [H2 H3]]. split; [lra|]. split; tauto. Qed.

Lemma edges_app_last l a b : edges ((l ++ [a]) ++ [b]) = edges (l ++ [a]) ++ [(a, b)].
Proof.
  induction l as [|p0 tl IH]; [reflexivity|].
  destruct tl as [|p1 tl']; [reflexivity|].
  cbn [app] in *. cbn [edges]. cbn [edges] in IH. rewrite IH. reflexivity.
Qed.

Lemma edges_rev pts : forall e, In e (edges (rev pts)) -> In (snd e, fst e) (edges pts).
Proof.
  induction pts as [|p0 tl IH]; [intros e []|].
  destruct tl as [|p1 tl']; [intros e []|].
  intros e. change (rev (p0 :: p1 :: tl')) with ((rev tl' ++ [p1]) ++ [p0]).
  rewrite edges_app_last. change (rev tl' ++ [p1]) with (rev (p1 :: tl')).
  rewrite in_app_iff. intros [H|[H|[]]].
  - right. apply IH. exact H.
  - left. subst e. reflexivity.
Qed.

Lemma on_boundary_rev pts q : on_boundary (rev pts) q -> on_boundary pts q.
Proof.
  intros [e [Hin Hon]]. exists (snd e, fst e). split; [apply edges_rev; exact Hin|].
  cbn [fst snd]. apply on_segment_sym. exact Hon.
Qed.

Lemma inside2d_rev pts q : ~ on_boundary pts q -> inside2d (rev pts) q = inside2d pts q.
Proof.
  intro Hnb.
  rewrite (inside2d_half_open pts q Hnb).
  rewrite inside2d_half_open by (intro H; apply Hnb; apply on_boundary_rev; exact H).
  rewrite count_cross_rev. reflexivity.
Qed.

(* ---- polygon sets ---- *)
Lemma count_inside_nonneg q z pes : (0 <= count_inside q z pes)%Z.
Proof. induction pes as [|pe r IH]; cbn [count_inside]; [lia|]. destruct (elem_inside q z pe); lia. Qed.

Lemma polygons_inside_union pes q z :
  polygons_inside pes q z false = true <->
  exists pe, In pe pes /\ inside3d pe z = true /\ inside2d (close (pe_pts pe)) q = true.
Proof.
  unfold polygons_inside. rewrite existsb_exists. unfold elem_inside.
  split; intros [pe [H1 H2]]; exists pe; (split; [exact H1|]).
  - apply andb_true_iff in H2. exact H2.
  - apply andb_true_iff. exact H2.
Qed.

Lemma count_inside_perm q z pes pes' :
  Permutation pes pes' -> count_inside q z pes = count_inside q z pes'.
Proof.
  induction 1; cbn [count_inside]; try lia.
Qed.

Lemma existsb_perm {A} (f : A -> bool) l l' :
  Permutation l l' -> existsb f l = existsb f l'.
Proof.
  intro P. destruct (existsb f l) eqn:E1; destruct (existsb f l') eqn:E2; try reflexivity.
  - apply existsb_exists in E1. destruct E1 as [x [Hin Hx]].
    assert (existsb f l' = true) by (apply existsb_exists; exists x; split; [eapply Permutation_in; eassumption|exact Hx]). congruence.
  - apply existsb_exists in E2. destruct E2 as [x [Hin Hx]].
    assert (existsb f l = true) by (apply existsb_exists; exists x; split; [eapply Permutation_in; [apply Permutation_sym; eassumption|exact Hin]|exact Hx]). congruence.
Qed.

Lemma polygons_inside_perm pes pes' q z nested :
  Permutation pes pes' -> polygons_inside pes q z nested = polygons_inside pes' q z nested.
Proof.
  intro P. unfold polygons_inside. destruct nested.
  - rewrite (count_inside_perm q z pes pes' P). reflexivity.
  - apply existsb_perm. exact P.
Qed.

(* C20 — soundness of the convex-hull certificate checker. *)
From Coq Require Import List ZArith QArith Bool Lia.
From Gst Require Import lib.QAux C20.Model C20.Spec C20.Proofs C20.HullModel.
Import ListNotations.
Local Open Scope Q_scope.

(* what an accepted hull guarantees: its vertices are data points; all data points lie on one side of (or on) the line of
   every edge of the closed ring (the ring is convex and contains the data in the intersection of its half-planes); every data
   point passes the inclusion test of the closed ring or lies on its boundary *)
Definition hull_spec (pts hull : list pt) : Prop :=
  (forall v, In v hull -> exists p, In p pts /\ fst v == fst p /\ snd v == snd p) /\
  (exists s, (s == 1 \/ s == -(1)) /\
     forall e p, In e (edges (close hull)) -> In p pts -> 0 <= s * orient (fst e) (snd e) p) /\
  (forall p, In p pts -> inside2d (close hull) p = true \/ on_boundary (close hull) p).

Lemma side_all s pts es :
  forallb (side_ok s pts) es = true ->
  forall e p, In e es -> In p pts -> 0 <= s * orient (fst e) (snd e) p.
Proof.
  intros H e p He Hp. rewrite forallb_forall in H. specialize (H e He).
  unfold side_ok in H. rewrite forallb_forall in H. specialize (H p Hp).
  apply qleb_true in H. exact H.
Qed.

Lemma hull_ok_sound pts hull : hull_ok pts hull = true -> hull_spec pts hull.
Proof.
  unfold hull_ok. intro H. apply andb_true_iff in H. destruct H as [H H3].
  apply andb_true_iff in H. destruct H as [H1 H2]. split; [|split].
  - intros v Hv. rewrite forallb_forall in H1. specialize (H1 v Hv).
    apply existsb_exists in H1. destruct H1 as [p [Hp He]]. exists p. split; [exact Hp|].
    unfold pt_eqb in He. apply andb_true_iff in He. destruct He as [Ex Ey].
    apply qeqb_true in Ex. apply qeqb_true in Ey. split; assumption.
  - apply orb_true_iff in H2. destruct H2 as [H2|H2].
    + exists 1. split; [left; reflexivity|]. apply side_all. exact H2.
    + exists (-(1)). split; [right; reflexivity|]. apply side_all. exact H2.
  - intros p Hp. rewrite forallb_forall in H3. specialize (H3 p Hp).
    apply orb_true_iff in H3. destruct H3 as [H3|H3]; [left; exact H3|right].
    apply on_boundary_b_spec. exact H3.
Qed.

(* C20 spec: the geometric definition the property refers to. *)
From Coq Require Import List ZArith QArith Qabs Qminmax Bool.
From Gst Require Import lib.QAux C20.Model.
Import ListNotations.
Local Open Scope Q_scope.

(* the point (xx,yy) lies on the closed segment [(x0,y0),(x1,y1)] *)
Definition on_segment (xx yy x0 y0 x1 y1 : Q) : Prop :=
  (x1 - x0) * (yy - y0) == (y1 - y0) * (xx - x0) /\
  (x0 <= xx <= x1 \/ x1 <= xx <= x0) /\ (y0 <= yy <= y1 \/ y1 <= yy <= y0).

Fixpoint edges (pts : list pt) : list (pt * pt) :=
  match pts with
  | p0 :: ((p1 :: _) as tl) => (p0, p1) :: edges tl
  | _ => []
  end.

Definition on_boundary (pts : list pt) (q : pt) : Prop :=
  exists e, In e (edges pts) /\
    on_segment (fst q) (snd q) (fst (fst e)) (snd (fst e)) (fst (snd e)) (snd (snd e)).

(* Canonical half-open crossing rule: the edge is counted iff the query ordinate lies in
   ]ymin, ymax] and the edge meets the horizontal line through the query strictly to its right. *)
Definition cross_half_open (xx yy x0 y0 x1 y1 : Q) : Prop :=
  ((y1 < yy /\ yy <= y0) \/ (y0 < yy /\ yy <= y1)) /\
  (xx - x0) * (y1 - y0) * (y1 - y0) < (x1 - x0) * (yy - y0) * (y1 - y0).
  (* i.e. xx < x0 + (x1-x0)(yy-y0)/(y1-y0), multiplied by (y1-y0)^2 > 0 *)

(* Generic crossing for a level in general position (no vertex at that level) *)
Definition cross_generic (xx yy x0 y0 x1 y1 : Q) : Prop :=
  ((y1 < yy /\ yy < y0) \/ (y0 < yy /\ yy < y1)) /\
  (xx - x0) * (y1 - y0) * (y1 - y0) < (x1 - x0) * (yy - y0) * (y1 - y0).

Definition cross_half_open_b (xx yy x0 y0 x1 y1 : Q) : bool :=
  ((qltb y1 yy && qleb yy y0) || (qltb y0 yy && qleb yy y1)) &&
  qltb ((xx - x0) * (y1 - y0) * (y1 - y0)) ((x1 - x0) * (yy - y0) * (y1 - y0)).

Fixpoint count_cross (xx yy : Q) (pts : list pt) : Z :=
  match pts with
  | p0 :: ((p1 :: _) as tl) =>
      ((if cross_half_open_b xx yy (fst p0) (snd p0) (fst p1) (snd p1) then 1 else 0)
       + count_cross xx yy tl)%Z
  | _ => 0%Z
  end.

Definition on_segment_b (xx yy x0 y0 x1 y1 : Q) : bool :=
  qeqb ((x1 - x0) * (yy - y0)) ((y1 - y0) * (xx - x0)) &&
  ((qleb x0 xx && qleb xx x1) || (qleb x1 xx && qleb xx x0)) &&
  ((qleb y0 yy && qleb yy y1) || (qleb y1 yy && qleb yy y0)).

Fixpoint on_boundary_b (pts : list pt) (q : pt) : bool :=
  match pts with
  | p0 :: ((p1 :: _) as tl) =>
      on_segment_b (fst q) (snd q) (fst p0) (snd p0) (fst p1) (snd p1) || on_boundary_b tl q
  | _ => false
  end.

(* C18 proofs: two polynomial identities over Q used by the Hermite derivative lemma (closed by nsatz). *)
From Coq Require Import QArith Nsatz.
Local Open Scope Q_scope.

(* coefficient 0 of h_{n+3}' = -(n+3) h_{n+2}, from h_{n+2}(0) = -(n+1) h_n(0) and 1.c(n+1,1) = -(n+1) c(n,0) *)
Lemma deriv_step_0 (A B D N : Q) :
  A == - ((N + 1) * D) ->
  (0 + 1) * B == - (N + 1) * D ->
  (0 + 1) * - (A + (N + 1 + 1) * B) == - (N + 1 + 1 + 1) * A.
Proof. intros R T. nsatz. Qed.

(* coefficient i+1 *)
Lemma deriv_step_S (A B C D N a : Q) :
  (a + 1) * A == - (N + 1 + 1) * C ->
  (a + 1 + 1) * B == - (N + 1) * D ->
  A == - (C + (N + 1) * D) ->
  (a + 1 + 1) * - (A + (N + 1 + 1) * B) == - (N + 1 + 1 + 1) * A.
Proof. intros T1 T3 R. nsatz. Qed.

(* C18 runner: decodes a case, runs the model, encodes the result. Executable only. *)
From Coq Require Import List Arith ZArith QArith Qabs Bool.
From Gst Require Import lib.Sx lib.QAux lib.LinAlgQ C18.Model.
Import ListNotations.
Local Open Scope Q_scope.

Definition asVec (s : sx) : option (list Q) := asListOf asQ s.
Definition asMat (s : sx) : option mat := asListOf asVec s.
Definition asOVec (s : sx) : option (list (option Q)) := asListOf asOQ s.
(* outputs of long exact computations are rounded down to a multiple of 2^-200 before printing (the exact value may have
   tens of thousands of digits); comparisons with the implementation use tolerances >= 1e-16 *)
Definition OUTBITS : Z := 2 ^ 200.
Definition ofQa (q : Q) : sx := L [I (Z.div (Qnum q * OUTBITS) (Zpos (Qden q))); I OUTBITS].
Definition qa (q : Q) : Q := Qmake (Z.div (Qnum q * OUTBITS) (Zpos (Qden q))) (Z.to_pos OUTBITS).   (* the printed value *)
Definition ofVeca (v : list Q) : sx := ofList ofQa v.
Definition ofVec (v : list Q) : sx := ofList ofQ v.
Definition ofMat (m : mat) : sx := ofList ofVec m.
Definition ofORow (o : option (list Q)) : sx := match o with Some v => ofVec v | None => L [] end.

(* samples from columns: column k = values of variable k by sample *)
Definition mk_samples (n : nat) (cols : list (list (option Q))) (sel : list bool) : list sample :=
  map (fun i => {| s_active := match sel with [] => true | _ => nth i sel true end;
                   s_z := map (fun c => nth i c None) cols |}) (seq 0 n).

Definition qmin (a b : Q) : Q := if qltb b a then b else a.
Definition fid (n : nat) : fmat := delta.

(* ---- kind 0: PCA / MAF.  (0 mode nvar zcols sel eigval eigvec sq sigma Z2Fimpl F2Zimpl extra) *)
Definition run_pca (mode : Z) (nv : nat) (cols : list (list (option Q))) (sel : list bool)
           (eigval : list Q) (E : mat) (sq sigma : list Q) (Zi Fi : mat) (extra : list (list (option Q)))
           (coords : list (list Q)) (hmin hmax : Q) : sx :=
  let n := match cols with c :: _ => length c | [] => O end in
  let db := mk_samples n cols sel in
  let rows := iso_rows nv db in
  let mean := norm_mean nv rows in
  let var := norm_var nv rows in
  let c0 := covariance0 nv rows mean in
  let Z2F := if Z.eqb mode 0 then pca_z2f nv E sq else maf_z2f nv E in
  let F2Zo := if Z.eqb mode 0 then Some (pca_f2z nv E sq) else maf_f2z nv E in
  let F2Z := match F2Zo with Some m => m | None => Fi end in
  let factors := pcaZ2F nv Z2F mean sigma db in
  let fdb := map (fun p => {| s_active := s_active (fst p);
                              s_z := match snd p with Some v => map Some v | None => map (fun _ => None) (s_z (fst p)) end |})
                 (combine db factors) in
  let back := pcaF2Z nv F2Z mean sigma fdb in
  let ne := match extra with c :: _ => length c | [] => O end in
  let xdb := mk_samples ne extra [] in
  let xback := pcaF2Z nv F2Z mean sigma xdb in
  let gE := get E in
  let lam := vget eigval in
  let cov := fmulr nv (fun i a => gE i a * lam a) (ftr gE) in
  let resid :=
    [ mat_resid nv nv (fmulr nv gE (ftr gE)) delta;
      mat_resid nv nv (fmulr nv (ftr gE) gE) delta;
      qmaxl (map (fun i => Qabs (vget sq i * vget sq i - lam i)) (seq 0 nv));
      mat_resid nv nv cov (get c0);
      mat_resid nv nv (fmulr nv (ftr (get Z2F)) (fmulr nv (get c0) (get Z2F))) delta;
      mat_resid nv nv (fmulr nv (get Zi) (get Fi)) delta;
      mat_resid nv nv (fmulr nv (get Fi) (get Zi)) delta ] in
  let c0inv := inv_checked nv c0 in
  let ninf := fun (M : mat) => qmaxl (map (fun i => sumnr nv (fun j => Qabs (get M i j))) (seq 0 nv)) in
  L [ ofList ofB (map (isotopic nv) db); ofNat (length rows); ofVec mean; ofVec var; ofMat c0; ofMat Z2F;
      match F2Zo with Some m => ofMat m | None => L [] end;
      ofList ofORow factors; ofList ofORow back; ofVec resid; ofList ofORow xback;
      (* is the exact covariance matrix invertible, and its inf-norm condition number *)
      match c0inv with Some Ci => L [I 1; ofQ (ninf c0 * ninf Ci)] | None => L [I 0; ofQ 0] end;
      (* MAF: the lag-h matrix of _variogramh, the smallest relative margin of the distance tests, and the residuals of
         Gh.V = C0.V.L and V^T.Gh.V = L on the harvested generalised eigen-pairs *)
      if Z.eqb mode 0 then L [] else
        let pts := map (fun i => (isotopic nv (nth i db {| s_active := false; s_z := [] |}),
                                  map (fun c => nth i c 0) coords,
                                  values (s_z (nth i db {| s_active := false; s_z := [] |})))) (seq 0 n) in
        let D := pair_diffs hmin hmax nv pts in
        let gh := variogramh nv D in
        let d2s := flat_map (fun i => flat_map (fun j =>
                      match nth i pts (false, [], []), nth j pts (false, [], []) with
                      | (true, x, _), (true, x', _) => if Nat.ltb j i then [dist2 x x'] else []
                      | _, _ => []
                      end) (seq 0 n)) (seq 0 n) in
        (* exact ties (d^2 = h^2 on dyadic coordinates) are decided identically in binary64; only near-ties are uncertain *)
        let nz := fun d => if qeqb d 0 then 1 else Qabs d in
        let margin := fold_left (fun m d2 => qmin m (qmin (nz (d2 - hmin * hmin)) (nz (d2 - hmax * hmax)))) d2s 1 in
        let gV := fmulr nv (get gh) gE in
        let cVL := fmulr nv (get c0) (fun i a => gE i a * lam a) in
        L [ ofMat gh; ofNat (length D); ofQ margin;
            ofQ (mat_resid nv nv gV cVL);
            ofQ (mat_resid nv nv (fmulr nv (ftr gE) gV) (fun i j => delta i j * lam i)) ] ].

(* ---- kind 1: hermitePolynomials.  (1 y r n sq) -> (code recurrence with the harvested roots, unnormalised h_k r^k, k!) *)
Definition sqfun (sq : list Q) : nat -> Q := fun k => vget sq k.
Definition run_hermite (y r : Q) (n : nat) (sq : list Q) : sx :=
  L [ ofVeca (hermite_polynomials (sqfun sq) (sqfun sq) y r n);
      ofVeca (hermite_polynomials natQ (fun _ => 1) y r n);
      ofVec (map factQ (seq 0 n)) ].

(* ---- kind 2: AnamHermite.  (2 flagBound psi sq az ay pz py yq zq) ; interval = (min max mininc maxinc) *)
Definition asInterval (s : sx) : option interval :=
  match s with
  | L [a; b; i1; i2] =>
      match asOQ a, asOQ b, asB i1, asB i2 with
      | Some a', Some b', Some i1', Some i2' => Some {| iv_min := a'; iv_max := b'; iv_mininc := i1'; iv_maxinc := i2' |}
      | _, _, _, _ => None
      end
  | _ => None
  end.
(* smallest distance between z and the forward values met by the scan and the bisection (decision margins) *)
Fixpoint scan_up_m (phi : Q -> Q) (z : Q) (cnt : nat) (y1 m : Q) : Q :=
  match cnt with
  | O => m
  | S c => let y2 := Qred (y1 + YPAS) in let z2 := phi y2 in let m' := qmin m (Qabs (z2 - z)) in
           if qltb z z2 then m' else scan_up_m phi z c y2 m'
  end.
Fixpoint scan_down_m (phi : Q -> Q) (z : Q) (cnt : nat) (y2 m : Q) : Q :=
  match cnt with
  | O => m
  | S c => let y1 := Qred (y2 - YPAS) in let z1 := phi y1 in let m' := qmin m (Qabs (z1 - z)) in
           if qltb z1 z then m' else scan_down_m phi z c y1 m'
  end.
Fixpoint bisect_m (phi : Q -> Q) (z dzmax : Q) (fuel : nat) (dy y1 y2 z1 z2 m : Q) : Q :=
  let m0 := qmin m (Qabs (z2 - z1 - dzmax)) in
  if qltb dzmax (z2 - z1) && qltb DYMAX dy then
    match fuel with
    | O => m0
    | S f => let yg := Qred ((y1 + y2) / 2) in let zg := phi yg in let m' := qmin m0 (Qabs (zg - z)) in
             if qltb z zg then bisect_m phi z dzmax f (yg - y1) y1 yg z1 zg m'
             else bisect_m phi z dzmax f (y2 - yg) yg y2 zg z2 m'
    end
  else m0.
Definition r2t_margin (phi : Q -> Q) (z : Q) : Q :=
  let z0 := phi 0 in
  let m0 := Qabs (z0 - z) in
  if qltb z0 z then
    let m1 := scan_up_m phi z 101 0 m0 in
    match scan_up phi z 101 0 z0 with
    | (y1, y2, z1, z2, _) => bisect_m phi z (dzmax_of phi) BISECT_FUEL 1 y1 y2 z1 z2 m1
    end
  else
    let m1 := scan_down_m phi z 101 0 m0 in
    match scan_down phi z 101 0 z0 with
    | (y1, y2, z1, z2, _) => bisect_m phi z (dzmax_of phi) BISECT_FUEL 1 y1 y2 z1 z2 m1
    end.
Definition in_core_b (A : anam) (z : Q) : bool :=
  negb (an_flagBound A) ||
  negb (outside_below (an_az A) z || outside_above (an_az A) z || outside_below (an_pz A) z || outside_above (an_pz A) z).
Definition ofBracket (o : option bracket) : sx :=
  match o with Some (a, b, za, zb) => L [ofQa a; ofQa b; ofQa za; ofQa zb] | None => L [] end.
(* sum of |psi_n H_n(y)|: the scale of the round-off of the double evaluation *)
Definition abs_expansion (A : anam) (y : Q) : Q :=
  dotr (map Qabs (an_psi A)) (map Qabs (herm_gen (an_sq A) (an_sq A) y (length (an_psi A)))) 0.
(* The scans of every query visit the same grid k * YPAS: the forward values on the grid are tabulated once per case.
   [memo_phi] is extensionally the forward function; C18_bisection / C18_r2t_monotone hold for any phi, and
   Proofs_anam.r2t_in_core shows that r2t A z = clamp (r2t_core (t2r A) z) when no bound test fires. *)
Fixpoint grid (step : Q) (cnt : nat) (y : Q) : list Q :=
  match cnt with O => [] | S c => let y' := Qred (y + step) in y' :: grid step c y' end.
Fixpoint grid_down (cnt : nat) (y : Q) : list Q :=
  match cnt with O => [] | S c => let y' := Qred (y - YPAS) in y' :: grid_down c y' end.
Definition memo_phi (tbl : list (Q * Q)) (phi : Q -> Q) (y : Q) : Q :=
  match find (fun p => Qeq_bool (fst p) y) tbl with Some p => snd p | None => phi y end.
Definition mk_table (A : anam) : list (Q * Q) :=
  map (fun y => (y, t2r A y)) (0 :: 1 :: (-(1)) :: grid YPAS 101 0 ++ grid_down 101 0).
(* the table is a parameter so that the extracted code builds it once per case *)
Definition run_anam_tbl (A : anam) (tbl : list (Q * Q)) (yq zq : list (option Q)) : sx :=
  let phi0 := t2r A in
  let phi := memo_phi tbl phi0 in
  L [ ofList (fun o => match o with Some y => L [ofQa (phi0 y); ofQa (abs_expansion A y)] | None => L [] end) yq;
      ofList (fun o => match o with
                       | Some z =>
                           if in_core_b A z then
                             match r2t_core phi z with
                             | Some (y0, b) =>
                                 let y := qa (if an_flagBound A then clamp_hi (getVmax (an_ay A)) (clamp_lo (getVmin (an_ay A)) y0) else y0) in
                                 L [ofQa y; ofQa (phi0 y); ofBracket b; I 1; ofQa (r2t_margin phi z); ofQa (abs_expansion A y)]
                             | None => L [I (-1)]
                             end
                           else
                             match r2t A z with
                             | Some y' => let y := qa y' in L [ofQa y; ofQa (phi0 y); L []; I 0; L []; ofQa (abs_expansion A y)]
                             | None => L [I (-1)]
                             end
                       | None => L []
                       end) zq;
      ofQa (dzmax_of phi) ].
Definition run_anam (A : anam) (yq zq : list (option Q)) : sx := run_anam_tbl A (mk_table A) yq zq.

(* _defineBounds replayed on the raw expansion: predicted bounds, where they come from, and the smallest relative margin of the
   comparisons made on the grid (against pzmin, pzmax, their mean, and between neighbours) *)
Definition bounds_keys : list Q := rev (grid_dn 100 0) ++ 0 :: grid_up 100 0.
Definition kind_of (r : option Q * option (Q * Q)) : Z :=
  match r with (Some _, _) => 2 | (None, Some _) => 1 | (None, None) => 0 end%Z.
Definition run_bounds_tbl (A : anam) (tbl : list (Q * Q)) (sabs : list Q) (pb : list Q) : sx :=
  match pb with
  | [pymin; pzmin; pymax; pzmax] =>
      let phi := memo_phi tbl (expansion (an_psi A) (an_sq A)) in
      let B := define_bounds phi pymin pzmin pymax pzmax in
      let mid := (pzmin + pzmax) / 2 in
      let zs := map snd tbl in
      let marg :=
        (fix go (zs ss : list Q) (m : Q) : Q :=
           match zs, ss with
           | z :: ((z' :: _) as zt), s :: ((s' :: _) as st) =>
               let sc := s + s' + Qabs pzmin + Qabs pzmax in
               let d := qmin (qmin (Qabs (z - pzmin)) (Qabs (z - pzmax))) (qmin (Qabs (z - mid)) (Qabs (z' - z))) in
               go zt st (qmin m (d / sc))
           | _, _ => m
           end) zs sabs 1 in
      L [ ofVeca [b_azmin B; b_azmax B; b_aymin B; b_aymax B; b_pzmin B; b_pzmax B; b_pymin B; b_pymax B];
          I (kind_of (b_lo B)); I (kind_of (b_hi B)); ofQa marg ]
  | _ => L []
  end.
Definition run_bounds (A : anam) (pb : list Q) : sx :=
  match pb with
  | [] => L []
  | _ => run_bounds_tbl A (map (fun y => (y, expansion (an_psi A) (an_sq A) y)) bounds_keys)
                        (map (fun y => abs_expansion A y) bounds_keys) pb
  end.

(* ---- kind 3: normal score.  (3 data wt) -> probability by sample index (or ()) ; () when the code refuses *)
Definition run_ns (data : list (option Q)) (wt : list Q) : sx :=
  match ns_probs data wt with
  | Some res => L [I 1; ofList (fun i => ofOQ (ns_lookup res i)) (seq 0 (length data));
                   ofList (fun e => ofNat (fst (fst e))) res]
  | None => L [I 0]
  end.

(* ---- kind 4: AnamEmpirical.  (4 ZDisc YDisc yq zq) *)
Definition run_emp (ZD YD : list Q) (yq zq : list (option Q)) : sx :=
  L [ ofList (fun o => match o with Some y => ofQ (emp_interp YD ZD y) | None => L [] end) yq;
      ofList (fun o => match o with
                       | Some z => let y := emp_interp ZD YD z in L [ofQ y; ofQ (emp_interp YD ZD y)]
                       | None => L []
                       end) zq ].

(* ---- kind 5: Rotation.  (5 n flag rotMat rotInv vecs) *)
Definition run_rot (n : nat) (flag : bool) (M Mi : mat) (vecs : list (list Q)) (cs : list (list Q)) : sx :=
  L [ ofList (fun v => let d := rotate_direct n flag M v in L [ofVec d; ofVec (rotate_inverse n flag Mi d)]) vecs;
      (* the matrix of setAngles from the (cos, sin) pairs *)
      match cs with
      | [[c; s]] => ofMat (rot2d c s)
      | [[c0; s0]; [c1; s1]; [c2; s2]] => ofMat (rot3d c0 s0 c1 s1 c2 s2)
      | _ => L []
      end;
      ofVec [ mat_resid n n (fmulr n (ftr (get M)) (get M)) delta;
              mat_resid n n (fmulr n (get M) (ftr (get M))) delta;
              mat_resid n n (get Mi) (ftr (get M)) ] ].

(* ---- kind 8: AnamHermite::fitFromArray.  (8 nbpoly data ys Gc g sq) -> class values, cumulated frequencies, coefficients, mean *)
Fixpoint abel_abs (zs a : list Q) (prev : Q) : Q :=
  match zs, a with z :: zs', x :: a' => Qabs z * (Qabs x + Qabs prev) + abel_abs zs' a' x | _, _ => 0 end.
Definition run_fit (nb : nat) (data : list (option Q)) (ys Gc g sq : list Q) : sx :=
  let l := defined_values data in
  let groups := rle (q_sort l) in
  let vals := map fst groups in
  let n := natQ (length l) in
  let zs := fit_zs vals in
  let Fs := cum_freqs (map snd groups) 0 n in
  let psi := fit_psi (sqfun sq) nb zs ys Gc g in
  let H := map (fun y => herm_gen (sqfun sq) (sqfun sq) y nb) ys in
  let scales := abel_abs zs Gc 0 ::
                map (fun k => abel_abs zs (map (fun p => nth (k - 1) (fst p) 0 * snd p) (combine H g)) 0 / sqfun sq k) (seq 1 (nb - 1)) in
  let mean := lsumr l / n in
  let var := lsumr (map (fun x => (x - mean) * (x - mean)) l) / n in
  L [ ofVec zs; ofVec Fs; ofVeca psi; ofVeca scales; ofQ mean; ofQ var; ofNat (length vals) ].

Definition run (c : sx) : sx :=
  match c with
  | L [I 0%Z; I mode; nv; cols; sel; eigval; E; sq; sigma; Zi; Fi; extra; coords; hmin; hmax] =>
      match asNat nv, asListOf asOVec cols, asListOf asB sel, asVec eigval, asMat E, asVec sq, asVec sigma,
            asMat Zi, asMat Fi, asListOf asOVec extra, asMat coords, asQ hmin, asQ hmax with
      | Some nv', Some cols', Some sel', Some eigval', Some E', Some sq', Some sigma', Some Zi', Some Fi', Some extra',
        Some coords', Some hmin', Some hmax' =>
          run_pca mode nv' cols' sel' eigval' E' sq' sigma' Zi' Fi' extra' coords' hmin' hmax'
      | _, _, _, _, _, _, _, _, _, _, _, _, _ => sx_error 1
      end
  | L [I 1%Z; y; r; n; sq] =>
      match asQ y, asQ r, asNat n, asVec sq with
      | Some y', Some r', Some n', Some sq' => run_hermite y' r' n' sq'
      | _, _, _, _ => sx_error 1
      end
  | L [I 2%Z; fb; psi; sq; az; ay; pz; py; yq; zq; pb] =>
      match asB fb, asVec psi, asVec sq, asInterval az, asInterval ay, asInterval pz, asInterval py, asOVec yq, asOVec zq, asVec pb with
      | Some fb', Some psi', Some sq', Some az', Some ay', Some pz', Some py', Some yq', Some zq', Some pb' =>
          let A := {| an_flagBound := fb'; an_az := az'; an_ay := ay'; an_pz := pz'; an_py := py';
                      an_psi := psi'; an_sq := sqfun sq' |} in
          match run_anam A yq' zq' with
          | L l => L (l ++ [run_bounds A pb'])
          | r => r
          end
      | _, _, _, _, _, _, _, _, _, _ => sx_error 1
      end
  | L [I 3%Z; data; wt] =>
      match asOVec data, asVec wt with
      | Some d, Some w => run_ns d w
      | _, _ => sx_error 1
      end
  | L [I 4%Z; zd; yd; yq; zq] =>
      match asVec zd, asVec yd, asOVec yq, asOVec zq with
      | Some zd', Some yd', Some yq', Some zq' => run_emp zd' yd' yq' zq'
      | _, _, _, _ => sx_error 1
      end
  | L [I 5%Z; n; fl; M; Mi; vecs; cs] =>
      match asNat n, asB fl, asMat M, asMat Mi, asMat vecs, asMat cs with
      | Some n', Some fl', Some M', Some Mi', Some vecs', Some cs' => run_rot n' fl' M' Mi' vecs' cs'
      | _, _, _, _, _, _ => sx_error 1
      end
  | L [I 10%Z; yr; ifacs; sq] =>
      match asMat yr, asListOf asNat ifacs, asVec sq with
      | Some yr', Some ifacs', Some sq' =>
          ofList (fun p => ofVeca (hermite_by_ranks (sqfun sq') (sqfun sq') (vget p 0) (vget p 1) ifacs')) yr'
      | _, _, _ => sx_error 1
      end
  | L [I 8%Z; nb; data; ys; Gc; g; sq] =>
      match asNat nb, asOVec data, asVec ys, asVec Gc, asVec g, asVec sq with
      | Some nb', Some data', Some ys', Some Gc', Some g', Some sq' => run_fit nb' data' ys' Gc' g' sq'
      | _, _, _, _, _, _ => sx_error 1
      end
  | L [I 6%Z; y; psi; sq] =>
      match asQ y, asVec psi, asVec sq with
      | Some y', Some psi', Some sq' => L [ofQa (expansion psi' (sqfun sq') y')]
      | _, _, _ => sx_error 1
      end
  | _ => sx_error 0
  end.

(* C18 runner: decodes a case, runs the model, encodes the result. Executable only. *)
From Coq Require Import List Arith ZArith QArith Qabs Bool.
From Gst Require Import lib.Sx lib.QAux lib.LinAlgQ C18.Model.
Import ListNotations.
Local Open Scope Q_scope.

Definition asVec (s : sx) : option (list Q) := asListOf asQ s.
Definition asMat (s : sx) : option mat := asListOf asVec s.
Definition asOVec (s : sx) : option (list (option Q)) := asListOf asOQ s.
Definition ofVec (v : list Q) : sx := ofList ofQ v.
Definition ofMat (m : mat) : sx := ofList ofVec m.
Definition ofORow (o : option (list Q)) : sx := match o with Some v => ofVec v | None => L [] end.

(* samples from columns: column k = values of variable k by sample *)
Definition mk_samples (n : nat) (cols : list (list (option Q))) (sel : list bool) : list sample :=
  map (fun i => {| s_active := match sel with [] => true | _ => nth i sel true end;
                   s_z := map (fun c => nth i c None) cols |}) (seq 0 n).

Definition fid (n : nat) : fmat := delta.

(* ---- kind 0: PCA / MAF.  (0 mode nvar zcols sel eigval eigvec sq sigma Z2Fimpl F2Zimpl extra) *)
Definition run_pca (mode : Z) (nv : nat) (cols : list (list (option Q))) (sel : list bool)
           (eigval : list Q) (E : mat) (sq sigma : list Q) (Zi Fi : mat) (extra : list (list (option Q))) : sx :=
  let n := match cols with c :: _ => length c | [] => O end in
  let db := mk_samples n cols sel in
  let rows := iso_rows nv db in
  let mean := norm_mean nv rows in
  let var := norm_var nv rows in
  let c0 := covariance0 nv rows mean in
  let Z2F := if Z.eqb mode 0 then pca_z2f nv E sq else maf_z2f nv E in
  let F2Zo := if Z.eqb mode 0 then Some (pca_f2z nv E sq) else maf_f2z nv E in
  let F2Z := match F2Zo with Some m => m | None => Fi end in
  let factors := pcaZ2F nv Z2F mean sigma db in
  let fdb := map (fun p => {| s_active := s_active (fst p);
                              s_z := match snd p with Some v => map Some v | None => map (fun _ => None) (s_z (fst p)) end |})
                 (combine db factors) in
  let back := pcaF2Z nv F2Z mean sigma fdb in
  let ne := match extra with c :: _ => length c | [] => O end in
  let xdb := mk_samples ne extra [] in
  let xback := pcaF2Z nv F2Z mean sigma xdb in
  let gE := get E in
  let lam := vget eigval in
  let cov := fmulr nv (fun i a => gE i a * lam a) (ftr gE) in
  let resid :=
    [ mat_resid nv nv (fmulr nv gE (ftr gE)) delta;
      mat_resid nv nv (fmulr nv (ftr gE) gE) delta;
      qmaxl (map (fun i => Qabs (vget sq i * vget sq i - lam i)) (seq 0 nv));
      mat_resid nv nv cov (get c0);
      mat_resid nv nv (fmulr nv (ftr (get Z2F)) (fmulr nv (get c0) (get Z2F))) delta;
      mat_resid nv nv (fmulr nv (get Zi) (get Fi)) delta;
      mat_resid nv nv (fmulr nv (get Fi) (get Zi)) delta ] in
  L [ ofList ofB (map (isotopic nv) db); ofNat (length rows); ofVec mean; ofVec var; ofMat c0; ofMat Z2F;
      match F2Zo with Some m => ofMat m | None => L [] end;
      ofList ofORow factors; ofList ofORow back; ofVec resid; ofList ofORow xback ].

Definition run (c : sx) : sx :=
  match c with
  | L [I 0%Z; I mode; nv; cols; sel; eigval; E; sq; sigma; Zi; Fi; extra] =>
      match asNat nv, asListOf asOVec cols, asListOf asB sel, asVec eigval, asMat E, asVec sq, asVec sigma,
            asMat Zi, asMat Fi, asListOf asOVec extra with
      | Some nv', Some cols', Some sel', Some eigval', Some E', Some sq', Some sigma', Some Zi', Some Fi', Some extra' =>
          run_pca mode nv' cols' sel' eigval' E' sq' sigma' Zi' Fi' extra'
      | _, _, _, _, _, _, _, _, _, _ => sx_error 1
      end
  | _ => sx_error 0
  end.

(* C18 proofs, part 6b: the practical bounds recorded by _defineBounds are points of the curve. *)
From Coq Require Import List Arith ZArith QArith Qabs Bool Lqa Lia.
From Gst Require Import lib.QAux C18.Model C18.Proofs_bounds.
Import ListNotations.
Local Open Scope Q_scope.

(* the practical bounds recorded by the scan are grid points: (Py, Pz) = (y, phi y) *)
Lemma lo_scan_in azmin : forall l above p r y z, lo_scan azmin above l p = (r, Some (y, z)) -> p = Some (y, z) \/ In (y, z) l.
Proof.
  induction l as [|[y0 z0] tl IH]; intros above p r y z H; [cbn in H; left; congruence|].
  destruct tl as [|[y' z'] tl']; [rewrite lo_scan_single in H; left; congruence|].
  rewrite lo_scan_cons2 in H. destruct (qltb z0 azmin); [left; congruence|].
  apply IH in H. destruct H as [H|H]; [|right; right; exact H].
  destruct p as [q|]; [left; exact H|]. destruct (qltb z0 z'); [right; left; congruence|discriminate].
Qed.
Lemma hi_scan_in azmax : forall l p r y z, hi_scan azmax l p = (r, Some (y, z)) -> p = Some (y, z) \/ In (y, z) l.
Proof.
  induction l as [|[y0 z0] tl IH]; intros p r y z H; [cbn in H; left; congruence|].
  destruct tl as [|[y' z'] tl']; [rewrite hi_scan_single in H; left; congruence|].
  rewrite hi_scan_cons2 in H. destruct (qltb azmax z0); [left; congruence|].
  apply IH in H. destruct H as [H|H]; [|right; right; exact H].
  destruct p as [q|]; [left; exact H|]. destruct (qltb z' z0); [right; left; congruence|discriminate].
Qed.
Lemma bounds_grid_point phi y z : In (y, z) (bounds_grid phi) -> z = phi y.
Proof. unfold bounds_grid. intro H. apply in_map_iff in H. destruct H as (y0 & E & _). congruence. Qed.

Lemma In_skipn {A} (x : A) : forall n l, In x (skipn n l) -> In x l.
Proof. induction n as [|n IH]; intros l H; [exact H|]. destruct l as [|a l]; [exact H|]. right. apply IH. exact H. Qed.
Lemma In_firstn {A} (x : A) : forall n l, In x (firstn n l) -> In x l.
Proof. induction n as [|n IH]; intros l H; [contradiction|]. destruct l as [|a l]; [exact H|]. destruct H as [H|H]; [left; exact H|right; apply IH; exact H]. Qed.

Theorem define_bounds_practical phi pymin pzmin pymax pzmax :
  let B := define_bounds phi pymin pzmin pymax pzmax in
  b_pzmin B = phi (b_pymin B) /\ b_pzmax B = phi (b_pymax B).
Proof.
  unfold define_bounds.
  set (G := bounds_grid phi).
  assert (HG : forall y z, In (y, z) G -> z = phi y) by (intros y z Hin; apply (bounds_grid_point phi); exact Hin).
  clearbody G.
  set (i0 := start_index G pymin ((pzmin + pzmax) / 2)). clearbody i0.
  destruct (lo_scan pzmin (snd (nth (S i0) G (0, 0))) (rev (firstn (S i0) G)) None) as [r1 p1] eqn:L.
  destruct (hi_scan pzmax (skipn i0 G) None) as [r2 p2] eqn:H.
  assert (P1 : forall y z, p1 = Some (y, z) -> z = phi y).
  { intros y z E. subst p1. apply lo_scan_in in L. destruct L as [L|L]; [discriminate|].
    apply HG. rewrite <- in_rev in L. apply (In_firstn _ _ _ L). }
  assert (P2 : forall y z, p2 = Some (y, z) -> z = phi y).
  { intros y z E. subst p2. apply hi_scan_in in H. destruct H as [H|H]; [discriminate|].
    apply HG. apply (In_skipn _ _ _ H). }
  clear L H.
  destruct r1 as [v1|]; destruct p1 as [[py1 pz1]|]; destruct r2 as [v2|]; destruct p2 as [[py2 pz2]|];
    cbv beta iota zeta delta [b_pzmin b_pymin b_pzmax b_pymax fst snd];
    split; try reflexivity; try (apply P1; reflexivity); try (apply P2; reflexivity).
Qed.

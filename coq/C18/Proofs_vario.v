(* C18 proofs, part 10: the lag-h matrix of PCA::_variogramh is symmetric and positive semi-definite
   (x^T G x = sum over the retained pairs of (x . (z_i - z_j))^2 / (2 npairs)). *)
From Coq Require Import List Arith ZArith QArith Qabs Bool Lqa Lia Setoid Morphisms.
From Gst Require Import lib.QAux lib.LinAlgQ C18.Model C18.Proofs_hermite C18.Proofs_fit.
Import ListNotations.
Local Open Scope Q_scope.

Lemma lsumr_gen l : forall acc, fold_left (fun a x => Qred (a + x)) l acc == acc + qsum l.
Proof.
  induction l as [|x r IH]; intro acc; cbn [fold_left qsum]; [ring|]. rewrite IH, Qred_correct. ring.
Qed.
Lemma lsumr_qsum l : lsumr l == qsum l.
Proof. unfold lsumr. rewrite lsumr_gen. ring. Qed.

Definition gsum (D : list (list Q)) (a b : nat) : Q := qsum (map (fun d => vget d a * vget d b / 2) D).
Definition qform (n : nat) (G : nat -> nat -> Q) (x : nat -> Q) : Q := sumn n (fun a => sumn n (fun b => x a * G a b * x b)).

Lemma qform_one n (x : nat -> Q) d :
  sumn n (fun a => sumn n (fun b => x a * (vget d a * vget d b / 2) * x b)) ==
  sumn n (fun a => x a * vget d a) * sumn n (fun a => x a * vget d a) / 2.
Proof.
  set (S := sumn n (fun a => x a * vget d a)).
  rewrite (sumn_ext n _ (fun a => (x a * vget d a / 2) * S)).
  - rewrite sumn_scal_r.
    rewrite (sumn_ext n (fun a => x a * vget d a / 2) (fun a => (x a * vget d a) * (1 # 2))) by (intros; field).
    rewrite sumn_scal_r. fold S. field.
  - intros a _. unfold S. rewrite <- sumn_scal_l. apply sumn_ext. intros b _. field.
Qed.

Lemma qform_gsum_nonneg n x : forall D, 0 <= qform n (gsum D) x.
Proof.
  unfold qform. induction D as [|d D IH].
  - unfold gsum. cbn [map qsum]. rewrite sumn_zero; [lra|]. intros a _. apply sumn_zero. intros b _. field.
  - rewrite (sumn_ext n _ (fun a => sumn n (fun b => x a * (vget d a * vget d b / 2) * x b) + sumn n (fun b => x a * gsum D a b * x b))).
    + rewrite sumn_add, qform_one.
      set (S := sumn n (fun a => x a * vget d a)). assert (0 <= S * S) by nra.
      assert (0 <= S * S / 2) by (apply Qle_shift_div_l; lra). lra.
    + intros a _. rewrite <- sumn_add. apply sumn_ext. intros b _. unfold gsum. cbn [map qsum]. field.
Qed.

Lemma get_variogramh n D a b : (a < n)%nat -> (b < n)%nat ->
  get (variogramh n D) a b == (if Nat.eqb (length D) 0 then gsum D a b else gsum D a b / natQ (length D)).
Proof.
  intros Ha Hb. unfold variogramh. rewrite get_mk by assumption.
  destruct (Nat.eqb (length D) 0); [apply lsumr_qsum|]. rewrite Qred_correct, lsumr_qsum. reflexivity.
Qed.

Theorem variogramh_psd n D x : 0 <= qform n (get (variogramh n D)) x.
Proof.
  pose proof (qform_gsum_nonneg n x D) as P. unfold qform in *.
  destruct (Nat.eqb_spec (length D) 0) as [E|E].
  - rewrite (sumn_ext n _ (fun a => sumn n (fun b => x a * gsum D a b * x b))); [exact P|].
    intros a Ha. apply sumn_ext. intros b Hb. rewrite (get_variogramh n D a b Ha Hb).
    destruct (Nat.eqb_spec (length D) 0); [reflexivity|contradiction].
  - assert (Hn : 0 < natQ (length D)) by (destruct (length D); [contradiction|apply natQ_pos]).
    rewrite (sumn_ext n _ (fun a => sumn n (fun b => x a * gsum D a b * x b) * / natQ (length D))).
    + rewrite sumn_scal_r. apply Qmult_le_0_compat; [exact P|]. apply Qlt_le_weak. apply Qinv_lt_0_compat. exact Hn.
    + intros a Ha. rewrite <- sumn_scal_r. apply sumn_ext. intros b Hb. rewrite (get_variogramh n D a b Ha Hb).
      destruct (Nat.eqb_spec (length D) 0); [contradiction|]. field. lra.
Qed.

Theorem variogramh_sym n D a b : (a < n)%nat -> (b < n)%nat -> get (variogramh n D) a b == get (variogramh n D) b a.
Proof.
  intros Ha Hb. rewrite !get_variogramh by assumption.
  assert (E : gsum D a b == gsum D b a).
  { unfold gsum. induction D as [|d D IH]; cbn [map qsum]; [reflexivity|]. rewrite IH. field. }
  destruct (Nat.eqb (length D) 0); rewrite E; reflexivity.
Qed.

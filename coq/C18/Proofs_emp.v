(* C18 proofs, part 5: AnamEmpirical — the table read forward (raw -> Gaussian) and backward (Gaussian -> raw)
   compose to the identity on the range of the table, and the forward reading is non-decreasing.
   Z non-decreasing (ties allowed: sorted data), Y strictly increasing (normal scores of distinct ranks). *)
From Coq Require Import List Arith ZArith QArith Qabs Bool Lqa Lia Setoid Morphisms.
From Gst Require Import lib.QAux C18.Model.
Import ListNotations.
Local Open Scope Q_scope.



Notation tn T i := (nth i T 0).

Definition FG (x : Q) (T : list Q) (i : nat) : Prop :=
  (i < length T)%nat /\ x <= tn T i /\ forall k, (k < i)%nat -> tn T k < x.
Definition LL (x : Q) (T : list Q) (j : nat) : Prop :=
  (j < length T)%nat /\ tn T j <= x /\ forall k, (j < k)%nat -> (k < length T)%nat -> x < tn T k.
Definition sortedQ (T : list Q) : Prop := forall a b, (a <= b)%nat -> (b < length T)%nat -> tn T a <= tn T b.
Definition strictQ (T : list Q) : Prop := forall a b, (a < b)%nat -> (b < length T)%nat -> tn T a < tn T b.

Lemma strict_sorted T : strictQ T -> sortedQ T.
Proof.
  intros H a b Hab Hb. destruct (Nat.eq_dec a b) as [->|N]; [lra|].
  apply Qlt_le_weak. apply H; lia.
Qed.

Lemma FG_unique x T i i' : FG x T i -> FG x T i' -> i = i'.
Proof.
  intros (H1 & H2 & H3) (H1' & H2' & H3').
  destruct (Nat.lt_trichotomy i i') as [L|[E|L]]; [|exact E|].
  - specialize (H3' i L). lra.
  - specialize (H3 i' L). lra.
Qed.
Lemma LL_unique x T j j' : LL x T j -> LL x T j' -> j = j'.
Proof.
  intros (H1 & H2 & H3) (H1' & H2' & H3').
  destruct (Nat.lt_trichotomy j j') as [L|[E|L]]; [|exact E|].
  - specialize (H3 j' L H1'). lra.
  - specialize (H3' j L H1). lra.
Qed.

Lemma first_ge_spec x : forall T U, length T = length U ->
  match first_ge x T U with
  | None => forall k, (k < length T)%nat -> tn T k < x
  | Some p => exists i, FG x T i /\ p = (tn T i, tn U i)
  end.
Proof.
  induction T as [|t T IH]; intros [|u U] HL; try discriminate; cbn [first_ge].
  - intros k Hk. cbn in Hk. lia.
  - cbn [length] in HL. injection HL as HL. specialize (IH U HL).
    destruct (qltb_spec t x) as [D|D].
    + destruct (first_ge x T U) as [p|].
      * destruct IH as (i & (A1 & A2 & A3) & ->). exists (S i). split; [|reflexivity].
        split; [cbn [length]; lia|]. split; [exact A2|].
        intros k Hk. destruct k as [|k]; cbn [nth]; [exact D|apply A3; lia].
      * intros k Hk. destruct k as [|k]; cbn [nth]; [exact D|apply IH; cbn [length] in Hk; lia].
    + exists O. split; [|reflexivity]. split; [cbn [length]; lia|]. split; [cbn [nth]; lra|]. intros k Hk. lia.
Qed.

Lemma last_le_spec x : forall T U, length T = length U ->
  match last_le x T U with
  | None => forall k, (k < length T)%nat -> x < tn T k
  | Some p => exists j, LL x T j /\ p = (tn T j, tn U j)
  end.
Proof.
  induction T as [|t T IH]; intros [|u U] HL; try discriminate; cbn [last_le].
  - intros k Hk. cbn in Hk. lia.
  - cbn [length] in HL. injection HL as HL. specialize (IH U HL).
    destruct (last_le x T U) as [p|].
    + destruct IH as (j & (A1 & A2 & A3) & ->). exists (S j). split; [|reflexivity].
      split; [cbn [length]; lia|]. split; [exact A2|].
      intros k Hk Hk'. destruct k as [|k]; [lia|]. cbn [nth]. apply A3; cbn [length] in Hk'; lia.
    + destruct (qltb_spec x t) as [D|D].
      * intros k Hk. destruct k as [|k]; cbn [nth]; [exact D|apply IH; cbn [length] in Hk; lia].
      * exists O. split; [|reflexivity]. split; [cbn [length]; lia|]. split; [cbn [nth]; lra|].
        intros k Hk Hk'. destruct k as [|k]; [lia|]. cbn [nth]. apply IH. cbn [length] in Hk'. lia.
Qed.

Lemma first_ge_proper x x' T U : x == x' -> first_ge x T U = first_ge x' T U.
Proof.
  intro E. revert U. induction T as [|t T IH]; intros [|u U]; cbn [first_ge]; try reflexivity.
  rewrite (qltb_proper t t (Qeq_refl t) x x' E). rewrite IH. reflexivity.
Qed.
Lemma last_le_proper x x' T U : x == x' -> last_le x T U = last_le x' T U.
Proof.
  intro E. revert U. induction T as [|t T IH]; intros [|u U]; cbn [last_le]; try reflexivity.
  rewrite IH. rewrite (qltb_proper x x' E t t (Qeq_refl t)). reflexivity.
Qed.

Lemma last_nth (l : list Q) d : l <> [] -> last l d = nth (length l - 1) l d.
Proof.
  induction l as [|a l IH]; intro H; [contradiction|].
  destruct l as [|b l]; [reflexivity|].
  change (last (a :: b :: l) d) with (last (b :: l) d). rewrite IH by discriminate.
  cbn [length]. replace (S (S (length l)) - 1)%nat with (S (S (length l) - 1)) by lia. reflexivity.
Qed.

(* inside the range of the table the two clamps are inactive *)
Lemma emp_interp_inrange T U x :
  T <> [] -> tn T 0 <= x -> x <= tn T (length T - 1) ->
  emp_interp T U x =
    (let '(tb, ub) := match first_ge x T U with Some p => p | None => (x, x) end in
     let '(ta, ua) := match last_le x T U with Some p => p | None => (x, x) end in
     if qleb tb ta then ua else ((tb - x) * ua + (x - ta) * ub) / (tb - ta)).
Proof.
  intros HT H0 H1. unfold emp_interp. destruct T as [|t0 T']; [contradiction|].
  cbn [nth] in H0.
  destruct (qltb_spec x t0) as [D|D]; [exfalso; lra|].
  rewrite (last_nth (t0 :: T') x HT). rewrite (nth_indep (t0 :: T') x 0) by (cbn [length]; lia).
  destruct (qltb_spec (tn (t0 :: T') (length (t0 :: T') - 1)) x) as [D'|D']; [exfalso; lra|]. reflexivity.
Qed.

Section Table.
Variables T U : list Q.
Hypothesis HL : length T = length U.
Hypothesis HS : sortedQ T.

Lemma range_of_idx x i j : FG x T i -> LL x T j -> T <> [] /\ tn T 0 <= x /\ x <= tn T (length T - 1).
Proof.
  intros (A1 & A2 & A3) (B1 & B2 & B3). split; [intro E; rewrite E in A1; cbn in A1; lia|]. split.
  - assert (tn T 0 <= tn T j) by (apply HS; lia). lra.
  - assert (tn T i <= tn T (length T - 1)) by (apply HS; lia). lra.
Qed.

(* the value read when the bracketing indices are known *)
Lemma interp_tie x i j : FG x T i -> LL x T j -> (i <= j)%nat -> emp_interp T U x = tn U j /\ tn T j == x.
Proof.
  intros Hi Hj Hij. destruct (range_of_idx x i j Hi Hj) as (HT & R0 & R1).
  rewrite (emp_interp_inrange T U x HT R0 R1).
  pose proof (first_ge_spec x T U HL) as F. pose proof (last_le_spec x T U HL) as G.
  destruct (first_ge x T U) as [p|]; [|exfalso; destruct Hi as (A1 & A2 & _); specialize (F i A1); lra].
  destruct (last_le x T U) as [q|]; [|exfalso; destruct Hj as (B1 & B2 & _); specialize (G j B1); lra].
  destruct F as (i0 & F0 & ->). destruct G as (j0 & G0 & ->).
  rewrite (FG_unique x T i0 i F0 Hi), (LL_unique x T j0 j G0 Hj).
  destruct Hi as (A1 & A2 & A3). destruct Hj as (B1 & B2 & B3).
  assert (S1 : tn T i <= tn T j) by (apply HS; lia).
  destruct (qleb_spec (tn T i) (tn T j)) as [D|D]; [|contradiction]. split; [reflexivity|lra].
Qed.

Lemma interp_lin x j : FG x T (S j) -> LL x T j -> tn T j < tn T (S j) ->
  emp_interp T U x = ((tn T (S j) - x) * tn U j + (x - tn T j) * tn U (S j)) / (tn T (S j) - tn T j).
Proof.
  intros Hi Hj Hlt. destruct (range_of_idx x (S j) j Hi Hj) as (HT & R0 & R1).
  rewrite (emp_interp_inrange T U x HT R0 R1).
  pose proof (first_ge_spec x T U HL) as F. pose proof (last_le_spec x T U HL) as G.
  destruct (first_ge x T U) as [p|]; [|exfalso; destruct Hi as (A1 & A2 & _); specialize (F (S j) A1); lra].
  destruct (last_le x T U) as [q|]; [|exfalso; destruct Hj as (B1 & B2 & _); specialize (G j B1); lra].
  destruct F as (i0 & F0 & ->). destruct G as (j0 & G0 & ->).
  rewrite (FG_unique x T i0 (S j) F0 Hi), (LL_unique x T j0 j G0 Hj).
  destruct (qleb_spec (tn T (S j)) (tn T j)) as [D|D]; [exfalso; lra|reflexivity].
Qed.

(* every value of the range falls in one of the two situations *)
Lemma interp_cases x : T <> [] -> tn T 0 <= x -> x <= tn T (length T - 1) ->
  exists j, LL x T j /\
    ((exists i, FG x T i /\ (i <= j)%nat) \/
     (FG x T (S j) /\ tn T j < x /\ x < tn T (S j))).
Proof.
  intros HT R0 R1.
  assert (Hn : (0 < length T)%nat) by (destruct T; [contradiction|cbn; lia]).
  pose proof (first_ge_spec x T U HL) as F. pose proof (last_le_spec x T U HL) as G.
  destruct (first_ge x T U) as [p|]; [|exfalso; specialize (F (length T - 1)%nat); assert (tn T (length T - 1) < x) by (apply F; lia); lra].
  destruct (last_le x T U) as [q|]; [|exfalso; specialize (G O Hn); lra].
  destruct F as (i & Hi & _). destruct G as (j & Hj & _). exists j. split; [exact Hj|].
  destruct (le_lt_dec i j) as [L|L]; [left; exists i; split; assumption|]. right.
  destruct Hi as (A1 & A2 & A3). destruct Hj as (B1 & B2 & B3).
  assert (E : i = S j).
  { destruct (Nat.eq_dec i (S j)) as [E|N]; [exact E|]. exfalso.
    assert (K1 : tn T (S j) < x) by (apply A3; lia).
    assert (K2 : x < tn T (S j)) by (apply B3; lia). lra. }
  subst i. split; [split; [exact A1|split; [exact A2|exact A3]]|]. split.
  - apply A3. lia.
  - apply B3; lia.
Qed.

End Table.

Lemma emp_interp_proper T U x x' : x == x' -> emp_interp T U x == emp_interp T U x'.
Proof.
  intro E. unfold emp_interp.
  set (x1 := match T with t0 :: _ => if qltb x t0 then t0 else x | [] => x end).
  set (x1' := match T with t0 :: _ => if qltb x' t0 then t0 else x' | [] => x' end).
  assert (E1 : x1 == x1').
  { unfold x1, x1'. destruct T as [|t0 T']; [exact E|].
    rewrite (qltb_proper x x' E t0 t0 (Qeq_refl t0)). destruct (qltb x' t0); [reflexivity|exact E]. }
  clearbody x1 x1'.
  assert (EL : last T x1 == last T x1').
  { destruct T as [|t0 T']; [exact E1|]. rewrite !(last_nth (t0 :: T')) by discriminate.
    rewrite (nth_indep (t0 :: T') x1 x1') by (cbn [length]; lia). reflexivity. }
  set (x2 := if qltb (last T x1) x1 then last T x1 else x1).
  set (x2' := if qltb (last T x1') x1' then last T x1' else x1').
  assert (E2 : x2 == x2').
  { unfold x2, x2'. rewrite (qltb_proper _ _ EL _ _ E1). destruct (qltb (last T x1') x1'); assumption. }
  clearbody x2 x2'.
  rewrite (first_ge_proper x2 x2' T U E2), (last_le_proper x2 x2' T U E2).
  destruct (first_ge x2' T U) as [[tb ub]|]; destruct (last_le x2' T U) as [[ta ua]|].
  - destruct (qleb tb ta); [reflexivity|]. rewrite E2. reflexivity.
  - rewrite (qleb_proper tb tb (Qeq_refl tb) x2 x2' E2). destruct (qleb tb x2'); [exact E2|]. rewrite E2. reflexivity.
  - rewrite (qleb_proper x2 x2' E2 ta ta (Qeq_refl ta)). destruct (qleb x2' ta); [reflexivity|]. rewrite E2. reflexivity.
  - rewrite (qleb_proper x2 x2' E2 x2 x2' E2). destruct (qleb x2' x2'); [exact E2|]. rewrite E2. reflexivity.
Qed.

(* ---------------------------------------------------------------- round trip and monotonicity *)
Theorem empirical_roundtrip Z Y z :
  length Z = length Y -> sortedQ Z -> strictQ Y ->
  Z <> [] -> tn Z 0 <= z -> z <= tn Z (length Z - 1) ->
  emp_interp Y Z (emp_interp Z Y z) == z.
Proof.
  intros HL HZ HY HN R0 R1.
  assert (HLs : length Y = length Z) by (symmetry; exact HL).
  pose proof (strict_sorted Y HY) as HYs.
  destruct (interp_cases Z Y HL HZ z HN R0 R1) as (j & Hj & [(i & Hi & Hij)|(Hi & L1 & L2)]).
  - (* a table value (possibly tied): the last of the ties is read, and found again *)
    destruct (interp_tie Z Y HL HZ z i j Hi Hj Hij) as [E Ez]. rewrite E.
    destruct Hj as (B1 & _).
    assert (FY : FG (tn Y j) Y j).
    { split; [lia|]. split; [lra|]. intros k Hk. apply HY; lia. }
    assert (LY : LL (tn Y j) Y j).
    { split; [lia|]. split; [lra|]. intros k Hk Hk'. apply HY; lia. }
    destruct (interp_tie Y Z HLs HYs (tn Y j) j j FY LY (le_n j)) as [E' _]. rewrite E'. exact Ez.
  - (* strictly between two table values *)
    destruct Hj as (B1 & B2 & B3). destruct Hi as (A1 & A2 & A3).
    assert (Hlt : tn Z j < tn Z (S j)) by lra.
    rewrite (interp_lin Z Y HL HZ z j (conj A1 (conj A2 A3)) (conj B1 (conj B2 B3)) Hlt).
    set (a := tn Z j) in *. set (b := tn Z (S j)) in *. set (ya := tn Y j). set (yb := tn Y (S j)).
    assert (Hy : ya < yb) by (apply HY; lia).
    set (y := ((b - z) * ya + (z - a) * yb) / (b - a)).
    assert (Y1 : y - ya == (z - a) * (yb - ya) / (b - a)) by (unfold y; field; lra).
    assert (Y2 : yb - y == (b - z) * (yb - ya) / (b - a)) by (unfold y; field; lra).
    assert (P1 : 0 < (z - a) * (yb - ya) / (b - a)) by (apply Qlt_shift_div_l; [lra|nra]).
    assert (P2 : 0 < (b - z) * (yb - ya) / (b - a)) by (apply Qlt_shift_div_l; [lra|nra]).
    assert (FY : FG y Y (S j)).
    { split; [lia|]. split; [fold yb; lra|].
      intros k Hk. assert (tn Y k <= ya) by (apply HYs; lia). lra. }
    assert (LY : LL y Y j).
    { split; [lia|]. split; [fold ya; lra|].
      intros k Hk Hk'. assert (yb <= tn Y k) by (apply HYs; lia). lra. }
    rewrite (interp_lin Y Z HLs HYs y j FY LY Hy). fold a b ya yb.
    unfold y. field. split; lra.
Qed.

Theorem empirical_monotone Z Y z z' :
  length Z = length Y -> sortedQ Z -> sortedQ Y ->
  Z <> [] -> tn Z 0 <= z -> z <= z' -> z' <= tn Z (length Z - 1) ->
  emp_interp Z Y z <= emp_interp Z Y z'.
Proof.
  intros HL HZ HY HN R0 Hzz R1.
  destruct (interp_cases Z Y HL HZ z HN R0 ltac:(lra)) as (j & Hj & C).
  destruct (interp_cases Z Y HL HZ z' HN ltac:(lra) R1) as (j' & Hj' & C').
  assert (Hjj : (j <= j')%nat).
  { destruct (le_lt_dec j j') as [L|L]; [exact L|]. exfalso.
    destruct Hj as (B1 & B2 & B3). destruct Hj' as (B1' & B2' & B3').
    assert (z' < tn Z j) by (apply B3'; lia). lra. }
  (* bounds of each reading by the table values around it *)
  assert (Lo : forall x k, LL x Z k ->
            ((exists i, FG x Z i /\ (i <= k)%nat) \/ (FG x Z (S k) /\ tn Z k < x /\ x < tn Z (S k))) ->
            tn Y k <= emp_interp Z Y x /\ ((S k < length Z)%nat -> emp_interp Z Y x <= tn Y (S k))).
  { intros x k Hk [(i & Hi & Hik)|(Hi & L1 & L2)].
    - destruct (interp_tie Z Y HL HZ x i k Hi Hk Hik) as [E _]. rewrite E. split; [lra|].
      intro Hs. apply HY; [lia|rewrite <- HL; exact Hs].
    - assert (Hlt : tn Z k < tn Z (S k)) by lra.
      rewrite (interp_lin Z Y HL HZ x k Hi Hk Hlt).
      destruct Hi as (A1 & _).
      assert (Yk : tn Y k <= tn Y (S k)) by (apply HY; [lia|rewrite <- HL; exact A1]).
      split; [|intros _].
      + apply Qle_shift_div_l; [lra|]. nra.
      + apply Qle_shift_div_r; [lra|]. nra. }
  destruct (Lo z j Hj C) as [Lz Uz]. destruct (Lo z' j' Hj' C') as [Lz' Uz'].
  destruct (Nat.eq_dec j j') as [E|N].
  - subst j'. destruct C as [(i & Hi & Hij)|(Hi & L1 & L2)].
    + destruct (interp_tie Z Y HL HZ z i j Hi Hj Hij) as [E _]. rewrite E. exact Lz'.
    + destruct C' as [(i' & Hi' & Hij')|(Hi' & L1' & L2')].
      * exfalso. destruct (interp_tie Z Y HL HZ z' i' j Hi' Hj' Hij') as [_ Ez']. lra.
      * assert (Hlt : tn Z j < tn Z (S j)) by lra.
        rewrite (interp_lin Z Y HL HZ z j Hi Hj Hlt), (interp_lin Z Y HL HZ z' j Hi' Hj' Hlt).
        destruct Hi as (A1 & _).
        assert (Yk : tn Y j <= tn Y (S j)) by (apply HY; [lia|rewrite <- HL; exact A1]).
        apply Qle_shift_div_l; [lra|].
        setoid_replace (((tn Z (S j) - z) * tn Y j + (z - tn Z j) * tn Y (S j)) / (tn Z (S j) - tn Z j) * (tn Z (S j) - tn Z j))
          with ((tn Z (S j) - z) * tn Y j + (z - tn Z j) * tn Y (S j)) by (field; lra).
        nra.
  - assert (Hs : (S j < length Z)%nat) by (destruct Hj' as (B1' & _); lia).
    specialize (Uz Hs).
    assert (tn Y (S j) <= tn Y j') by (apply HY; [lia|rewrite <- HL; destruct Hj' as (B1' & _); exact B1']).
    lra.
Qed.

(* C18 proofs, part 9: the rotation matrices built from (cos, sin) pairs are orthogonal; the angle recovery
   (atan2 on the first column and the last row) returns pairs that rebuild the same matrix. Polynomial identities, closed by nsatz. *)
From Coq Require Import QArith Lia Nsatz.
From Gst Require Import lib.QAux lib.LinAlgQ C18.Model.
Local Open Scope Q_scope.

Lemma rot2d_orthogonal c s : c * c + s * s == 1 ->
  forall i j, (i < 2)%nat -> (j < 2)%nat ->
    fmul 2 (ftr (get (rot2d c s))) (get (rot2d c s)) i j == delta i j /\
    fmul 2 (get (rot2d c s)) (ftr (get (rot2d c s))) i j == delta i j.
Proof.
  intros H i j Hi Hj.
  destruct i as [|[|i]]; try lia; destruct j as [|[|j]]; try lia; clear Hi Hj;
    cbn [fmul sumn ftr get List.nth rot2d delta Nat.eqb]; split; nsatz.
Qed.

Lemma rot3d_orthogonal c0 s0 c1 s1 c2 s2 :
  c0 * c0 + s0 * s0 == 1 -> c1 * c1 + s1 * s1 == 1 -> c2 * c2 + s2 * s2 == 1 ->
  forall i j, (i < 3)%nat -> (j < 3)%nat ->
    fmul 3 (ftr (get (rot3d c0 s0 c1 s1 c2 s2))) (get (rot3d c0 s0 c1 s1 c2 s2)) i j == delta i j /\
    fmul 3 (get (rot3d c0 s0 c1 s1 c2 s2)) (ftr (get (rot3d c0 s0 c1 s1 c2 s2))) i j == delta i j.
Proof.
  intros H0 H1 H2 i j Hi Hj.
  destruct i as [|[|[|i]]]; try lia; destruct j as [|[|[|j]]]; try lia; clear Hi Hj;
    cbn [fmul sumn ftr get List.nth rot3d delta Nat.eqb]; split; nsatz.
Qed.

(* GH::rotationGetAnglesInPlace: alpha = atan2(M10, M00), beta = atan2(-M20, sqrt(M21^2 + M22^2)), gamma = atan2(M21, M22).
   For c1 <> 0 the recovered pairs are (sg c0, sg s0), (|c1|, s1), (sg c2, sg s2) with sg = sign(c1), sg^2 = 1, |c1| = sg c1:
   they rebuild the same matrix (the Euler angles may differ, the rotation does not). *)
Lemma rot3d_angles_roundtrip c0 s0 c1 s1 c2 s2 sg : sg * sg == 1 ->
  forall i j, (i < 3)%nat -> (j < 3)%nat ->
    get (rot3d (sg * c0) (sg * s0) (sg * c1) s1 (sg * c2) (sg * s2)) i j == get (rot3d c0 s0 c1 s1 c2 s2) i j.
Proof.
  intros H i j Hi Hj.
  destruct i as [|[|[|i]]]; try lia; destruct j as [|[|[|j]]]; try lia; clear Hi Hj;
    cbn [get List.nth rot3d]; nsatz.
Qed.
Lemma rot2d_angles_roundtrip c s : forall i j, get (rot2d (get (rot2d c s) 0 0) (get (rot2d c s) 1 0)) i j = get (rot2d c s) i j.
Proof. reflexivity. Qed.

(* C18 proofs, part 1: factor matrices (PCA / MAF), centring, rotations. *)
From Coq Require Import List Arith ZArith QArith Qabs Bool Lqa Lia Setoid Morphisms.
From Gst Require Import lib.QAux lib.LinAlgQ C18.Model.
Import ListNotations.
Local Open Scope Q_scope.

(* ---------------------------------------------------------------- prodMatVec *)
Lemma vget_pmv_t n M x j : (j < n)%nat ->
  vget (prod_mat_vec n M x true) j == sumn n (fun i => get M i j * vget x i).
Proof. intro Hj. unfold prod_mat_vec. rewrite vget_vk by exact Hj. apply sumnr_sumn. Qed.
Lemma vget_pmv_n n M x i : (i < n)%nat ->
  vget (prod_mat_vec n M x false) i == sumn n (fun j => get M i j * vget x j).
Proof. intro Hi. unfold prod_mat_vec. rewrite vget_vk by exact Hi. apply sumnr_sumn. Qed.

(* ---------------------------------------------------------------- center / uncenter *)
Lemma vget_center_ns n data mean sigma i : (i < n)%nat ->
  vget (center n data mean sigma true false) i = vget data i - vget mean i.
Proof. intro Hi. unfold center. rewrite vget_vk by exact Hi. reflexivity. Qed.

Lemma vget_uncenter_ns n data mean sigma i : (i < n)%nat -> 0 < vget sigma i ->
  vget (uncenter n data mean sigma true false) i = vget data i + vget mean i.
Proof.
  intros Hi Hs. unfold uncenter. rewrite vget_vk by exact Hi.
  destruct (qleb_spec (vget sigma i) 0) as [H|H]; [exfalso; lra|reflexivity].
Qed.

(* uncenter o center = id for any consistent choice of flags, as soon as sigma > 0 *)
Lemma uncenter_center n data mean sigma fc fs i : (i < n)%nat -> 0 < vget sigma i ->
  vget (uncenter n (center n data mean sigma fc fs) mean sigma fc fs) i == vget data i.
Proof.
  intros Hi Hs. unfold uncenter. rewrite vget_vk by exact Hi.
  destruct (qleb_spec (vget sigma i) 0) as [H|H]; [exfalso; lra|].
  unfold center. rewrite vget_vk by exact Hi.
  destruct (qltb_spec 0 (vget sigma i)) as [H1|H1]; [|exfalso; lra].
  destruct fc, fs; cbn [andb]; try ring; field; lra.
Qed.

(* ... and when sigma <= 0 the centred value is returned unchanged: the mean is lost *)
Lemma uncenter_center_skip n data mean sigma i : (i < n)%nat -> vget sigma i <= 0 ->
  vget (uncenter n (center n data mean sigma true false) mean sigma true false) i == vget data i - vget mean i.
Proof.
  intros Hi Hs. unfold uncenter. rewrite vget_vk by exact Hi.
  destruct (qleb_spec (vget sigma i) 0) as [H|H]; [|exfalso; lra].
  rewrite vget_center_ns by exact Hi. reflexivity.
Qed.

(* ---------------------------------------------------------------- the general round trip *)
Lemma sumn_sumn_delta n (A B : fmat) (c : fvec) j :
  (j < n)%nat ->
  (forall i l, (i < n)%nat -> (l < n)%nat -> fmul n A B i l == delta i l) ->
  sumn n (fun k => B k j * sumn n (fun i => A i k * c i)) == c j.
Proof.
  intros Hj H.
  rewrite (sumn_ext n _ (fun k => sumn n (fun i => B k j * (A i k * c i))))
    by (intros k _; rewrite sumn_scal_l; reflexivity).
  rewrite sumn_swap.
  rewrite (sumn_ext n _ (fun i => delta j i * c i)).
  - apply sumn_delta_l; exact Hj.
  - intros i Hi.
    rewrite (sumn_ext n _ (fun k => (A i k * B k j) * c i)) by (intros; ring).
    rewrite sumn_scal_r. specialize (H i j Hi Hj). unfold fmul in H. rewrite H. rewrite delta_sym. reflexivity.
Qed.

Lemma roundtrip_gen n Z2F F2Z mean sigma z :
  (forall i j, (i < n)%nat -> (j < n)%nat -> fmul n (get Z2F) (get F2Z) i j == delta i j) ->
  (forall i, (i < n)%nat -> 0 < vget sigma i) ->
  forall j, (j < n)%nat ->
    vget (f2z_vec n F2Z mean sigma (z2f_vec n Z2F mean sigma z)) j == vget z j.
Proof.
  intros H Hs j Hj. unfold f2z_vec, z2f_vec.
  rewrite vget_uncenter_ns by (try exact Hj; apply Hs; exact Hj).
  rewrite vget_pmv_t by exact Hj.
  rewrite (sumn_ext n _ (fun k => get F2Z k j * sumn n (fun i => get Z2F i k * (vget z i - vget mean i)))).
  - rewrite (sumn_sumn_delta n (get Z2F) (get F2Z) (fun i => vget z i - vget mean i) j Hj H). ring.
  - intros k Hk. rewrite vget_pmv_t by exact Hk.
    rewrite (sumn_ext n (fun i => get Z2F i k * vget (center n z mean sigma true false) i)
                        (fun i => get Z2F i k * (vget z i - vget mean i))).
    + reflexivity.
    + intros i Hi. rewrite vget_center_ns by exact Hi. reflexivity.
Qed.

(* ---------------------------------------------------------------- PCA *)
Lemma get_pca_z2f n E sq i k : (i < n)%nat -> (k < n)%nat ->
  get (pca_z2f n E sq) i k = get E i k / vget sq k.
Proof. intros Hi Hk. unfold pca_z2f. rewrite get_mk by assumption. reflexivity. Qed.
Lemma get_pca_f2z n E sq k j : (k < n)%nat -> (j < n)%nat ->
  get (pca_f2z n E sq) k j = get E j k * vget sq k.
Proof. intros Hk Hj. unfold pca_f2z. rewrite !get_mk by assumption. reflexivity. Qed.

(* Z2F . F2Z = E . E^T *)
Lemma pca_product n E sq i j :
  (forall k, (k < n)%nat -> ~ vget sq k == 0) -> (i < n)%nat -> (j < n)%nat ->
  fmul n (get (pca_z2f n E sq)) (get (pca_f2z n E sq)) i j == fmul n (get E) (ftr (get E)) i j.
Proof.
  intros Hs Hi Hj. unfold fmul, ftr. apply sumn_ext. intros k Hk.
  rewrite get_pca_z2f, get_pca_f2z by assumption. field. apply Hs; exact Hk.
Qed.

Lemma pca_inverse n E sq mean sigma z :
  (forall i j, (i < n)%nat -> (j < n)%nat -> fmul n (get E) (ftr (get E)) i j == delta i j) ->
  (forall k, (k < n)%nat -> ~ vget sq k == 0) ->
  (forall i, (i < n)%nat -> 0 < vget sigma i) ->
  forall j, (j < n)%nat ->
    vget (f2z_vec n (pca_f2z n E sq) mean sigma (z2f_vec n (pca_z2f n E sq) mean sigma z)) j == vget z j.
Proof.
  intros HE Hs Hsig. apply roundtrip_gen; [|exact Hsig].
  intros i j Hi Hj. rewrite pca_product by assumption. apply HE; assumption.
Qed.

(* factors are orthonormal for the covariance E.L.E^T:  Z2F^T (E L E^T) Z2F = I *)
Definition cov_of (n : nat) (E : fmat) (lam : fvec) : fmat := fmul n (fun i a => E i a * lam a) (ftr E).

Lemma pca_gram_half n E sq lam i l :
  (forall a b, (a < n)%nat -> (b < n)%nat -> fmul n (ftr (get E)) (get E) a b == delta a b) ->
  (forall k, (k < n)%nat -> vget sq k * vget sq k == lam k) ->
  (forall k, (k < n)%nat -> ~ vget sq k == 0) ->
  (i < n)%nat -> (l < n)%nat ->
  fmul n (cov_of n (get E) lam) (get (pca_z2f n E sq)) i l == get E i l * vget sq l.
Proof.
  intros HE Hsq Hs Hi Hl. unfold fmul at 1, cov_of.
  (* sum_j (sum_a E i a lam a E j a) (E j l / s l) *)
  rewrite (sumn_ext n _ (fun j => sumn n (fun a => get E i a * lam a * (get E j a * get E j l) / vget sq l))).
  2:{ intros j Hj. rewrite get_pca_z2f by assumption. unfold fmul, ftr.
      rewrite <- sumn_scal_r. apply sumn_ext. intros a Ha. field. apply Hs; exact Hl. }
  rewrite sumn_swap.
  rewrite (sumn_ext n _ (fun a => (get E i a * lam a / vget sq l) * delta a l)).
  2:{ intros a Ha.
      rewrite (sumn_ext n _ (fun j => (get E i a * lam a / vget sq l) * (ftr (get E) a j * get E j l)))
        by (intros j Hj; unfold ftr; field; apply Hs; exact Hl).
      rewrite sumn_scal_l. specialize (HE a l Ha Hl). unfold fmul in HE. rewrite HE. reflexivity. }
  rewrite (sumn_delta_r n l (fun a => get E i a * lam a / vget sq l) Hl).
  rewrite <- (Hsq l Hl). field. apply Hs; exact Hl.
Qed.

Lemma pca_gram n E sq lam k l :
  (forall a b, (a < n)%nat -> (b < n)%nat -> fmul n (ftr (get E)) (get E) a b == delta a b) ->
  (forall a, (a < n)%nat -> vget sq a * vget sq a == lam a) ->
  (forall a, (a < n)%nat -> ~ vget sq a == 0) ->
  (k < n)%nat -> (l < n)%nat ->
  fmul n (ftr (get (pca_z2f n E sq))) (fmul n (cov_of n (get E) lam) (get (pca_z2f n E sq))) k l == delta k l.
Proof.
  intros HE Hsq Hs Hk Hl. unfold fmul at 1.
  rewrite (sumn_ext n _ (fun i => (vget sq l / vget sq k) * (ftr (get E) k i * get E i l))).
  2:{ intros i Hi. rewrite (pca_gram_half n E sq lam i l HE Hsq Hs Hi Hl).
      unfold ftr. rewrite get_pca_z2f by assumption. field. apply Hs; exact Hk. }
  rewrite sumn_scal_l. specialize (HE k l Hk Hl). unfold fmul in HE. rewrite HE.
  unfold delta. destruct (Nat.eqb_spec k l) as [->|Hne]; [field; apply Hs; exact Hl|ring].
Qed.

(* ---------------------------------------------------------------- MAF *)
Lemma maf_inverse n E F2Z mean sigma z :
  maf_f2z n E = Some F2Z ->
  (forall i, (i < n)%nat -> 0 < vget sigma i) ->
  forall j, (j < n)%nat ->
    vget (f2z_vec n F2Z mean sigma (z2f_vec n (maf_z2f n E) mean sigma z)) j == vget z j.
Proof.
  intros H Hsig. apply roundtrip_gen; [|exact Hsig].
  intros i j Hi Hj. unfold maf_f2z in H. apply inv_checked_correct in H. apply (H i j Hi Hj).
Qed.

(* ---------------------------------------------------------------- sample loops: the isotopic filter *)
Lemma pcaZ2F_length n Z2F mean sigma db : length (pcaZ2F n Z2F mean sigma db) = length db.
Proof. unfold pcaZ2F. apply map_length. Qed.

Lemma pcaZ2F_filter n Z2F mean sigma db i s :
  nth_error db i = Some s ->
  nth_error (pcaZ2F n Z2F mean sigma db) i =
    Some (if isotopic n s then Some (z2f_vec n Z2F mean sigma (values (s_z s))) else None).
Proof. intro H. unfold pcaZ2F. rewrite nth_error_map, H. reflexivity. Qed.

Lemma isotopic_spec n s :
  isotopic n s = true <-> s_active s = true /\ n <> O /\ forall o, In o (firstn n (s_z s)) -> o <> None.
Proof.
  unfold isotopic, all_defined. rewrite !andb_true_iff, negb_true_iff, Nat.eqb_neq, forallb_forall.
  split.
  - intros [[Ha Hn] Hd]. repeat split; try assumption. intros o Ho E. subst o. specialize (Hd None Ho). discriminate.
  - intros [Ha [Hn Hd]]. repeat split; try assumption. intros o Ho. destruct o; [reflexivity|]. exfalso. apply (Hd None Ho). reflexivity.
Qed.

(* ---------------------------------------------------------------- rotations *)
Lemma rotation_roundtrip n M Minv v :
  (forall i j, (i < n)%nat -> (j < n)%nat -> get Minv i j == get M j i) ->
  (forall i j, (i < n)%nat -> (j < n)%nat -> fmul n (ftr (get M)) (get M) i j == delta i j) ->
  forall flag j, (j < n)%nat ->
    vget (rotate_inverse n flag Minv (rotate_direct n flag M v)) j == vget v j.
Proof.
  intros Ht HO flag j Hj. unfold rotate_inverse, rotate_direct. destruct flag; [|reflexivity].
  rewrite vget_pmv_n by exact Hj.
  rewrite (sumn_ext n _ (fun k => get M k j * sumn n (fun i => ftr (get M) i k * vget v i))).
  - apply (sumn_sumn_delta n (ftr (get M)) (get M) (vget v) j Hj HO).
  - intros k Hk. rewrite vget_pmv_n by exact Hk. rewrite (Ht j k Hj Hk).
    unfold ftr. reflexivity.
Qed.

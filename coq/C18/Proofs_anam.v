(* C18 proofs, part 3: the inversion performed by AnamHermite::rawToTransformValue
   (grid scan, bisection with the code's stopping rule, linear interpolation), for an arbitrary forward function phi. *)
From Coq Require Import List Arith ZArith QArith Qabs Bool Lqa Lia Setoid Morphisms.
From Gst Require Import lib.QAux C18.Model C18.Proofs_hermite.
Import ListNotations.
Local Open Scope Q_scope.

Lemma YPAS_pos : 0 < YPAS. Proof. reflexivity. Qed.
Lemma DYMAX_pos : 0 < DYMAX. Proof. reflexivity. Qed.
Lemma EPS10_pos : 0 < EPS10. Proof. reflexivity. Qed.

Lemma half_eq x : x / 2 == x * (1 # 2).
Proof. field. Qed.
Lemma mid_bounds y1 y2 : y1 <= y2 -> y1 <= Qred ((y1 + y2) / 2) /\ Qred ((y1 + y2) / 2) <= y2.
Proof. intro H. rewrite Qred_correct, half_eq. split; lra. Qed.
Lemma mid_width_l y1 y2 : Qred ((y1 + y2) / 2) - y1 == (y2 - y1) * (1 # 2).
Proof. rewrite Qred_correct, half_eq. ring. Qed.
Lemma mid_width_r y1 y2 : y2 - Qred ((y1 + y2) / 2) == (y2 - y1) * (1 # 2).
Proof. rewrite Qred_correct, half_eq. ring. Qed.

(* ---------------------------------------------------------------- linear interpolation inside a bracket *)
Lemma interpolate_bounds z y1 y2 z1 z2 : y1 <= y2 -> z1 <= z -> z <= z2 ->
  y1 <= interpolate z y1 y2 z1 z2 /\ interpolate z y1 y2 z1 z2 <= y2.
Proof.
  intros Hy H1 H2. unfold interpolate, is_zero.
  destruct (qleb_spec (Qabs (z2 - z1)) EPS10) as [Hz|Hz].
  - rewrite half_eq. split; lra.
  - assert (Hd : 0 < z2 - z1).
    { rewrite Qabs_pos in Hz by lra. pose proof EPS10_pos. lra. }
    assert (A : 0 <= (z - z1) * (y2 - y1) / (z2 - z1)) by (apply Qle_shift_div_l; [exact Hd|nra]).
    assert (B : (z - z1) * (y2 - y1) / (z2 - z1) <= y2 - y1) by (apply Qle_shift_div_r; [exact Hd|nra]).
    split; lra.
Qed.

Lemma interpolate_mono z z' y1 y2 z1 z2 : y1 <= y2 -> z1 <= z -> z <= z' -> z' <= z2 ->
  interpolate z y1 y2 z1 z2 <= interpolate z' y1 y2 z1 z2.
Proof.
  intros Hy H1 H2 H3. unfold interpolate, is_zero.
  destruct (qleb_spec (Qabs (z2 - z1)) EPS10) as [Hz|Hz]; [lra|].
  assert (Hd : 0 < z2 - z1).
  { rewrite Qabs_pos in Hz by lra. pose proof EPS10_pos. lra. }
  assert (A : (z - z1) * (y2 - y1) / (z2 - z1) <= (z' - z1) * (y2 - y1) / (z2 - z1)).
  { apply Qle_shift_div_l; [exact Hd|]. unfold Qdiv.
    setoid_replace ((z - z1) * (y2 - y1) * / (z2 - z1) * (z2 - z1)) with ((z - z1) * (y2 - y1)) by (field; lra).
    nra. }
  lra.
Qed.

Lemma interpolate_degenerate z y1 z1 : interpolate z y1 y1 z1 z1 == y1.
Proof.
  unfold interpolate, is_zero.
  destruct (qleb_spec (Qabs (z1 - z1)) EPS10) as [Hz|Hz].
  - rewrite half_eq. ring.
  - exfalso. apply Hz. setoid_replace (z1 - z1) with 0 by ring. cbn. pose proof EPS10_pos. lra.
Qed.

Definition interp (z : Q) (B : bracket) : Q := let '(a, b, za, zb) := B in interpolate z a b za zb.

Section Inversion.
Variable phi : Q -> Q.
Variable dzmax : Q.
Hypothesis dzmax_nonneg : 0 <= dzmax.

(* ---------------------------------------------------------------- bisection *)
Lemma bisect_spec z : forall fuel dy y1 y2 z1 z2 a b za zb,
  y1 <= y2 -> z1 <= z -> z <= z2 -> z1 = phi y1 -> z2 = phi y2 ->
  bisect phi z dzmax fuel dy y1 y2 z1 z2 = Some (a, b, za, zb) ->
  y1 <= a /\ a <= b /\ b <= y2 /\ za <= z /\ z <= zb /\ za = phi a /\ zb = phi b /\
  (zb - za <= dzmax \/ b - a <= DYMAX \/ dy <= DYMAX).
Proof.
  induction fuel as [|f IH]; intros dy y1 y2 z1 z2 a b za zb Hy H1 H2 E1 E2 H; cbn [bisect] in H;
    destruct (qltb dzmax (z2 - z1) && qltb DYMAX dy) eqn:C.
  - discriminate.
  - injection H as <- <- <- <-. repeat split; try assumption; try lra.
    apply andb_false_iff in C. destruct C as [C|C]; apply qltb_false in C; [left|right; right]; exact C.
  - destruct (mid_bounds y1 y2 Hy) as [M1 M2].
    destruct (qltb_spec z (phi (Qred ((y1 + y2) / 2)))) as [D|D].
    + apply IH in H; try assumption; try lra; try reflexivity.
      destruct H as (A1 & A2 & A3 & A4 & A5 & A6 & A7 & A8).
      repeat split; try assumption; try lra.
    + apply IH in H; try assumption; try lra; try reflexivity.
      destruct H as (A1 & A2 & A3 & A4 & A5 & A6 & A7 & A8).
      repeat split; try assumption; try lra.
  - injection H as <- <- <- <-. repeat split; try assumption; try lra.
    apply andb_false_iff in C. destruct C as [C|C]; apply qltb_false in C; [left|right; right]; exact C.
Qed.

(* a degenerate bracket (scan exhausted) is returned unchanged *)
Lemma bisect_degenerate z fuel dy y1 z1 :
  bisect phi z dzmax fuel dy y1 y1 z1 z1 = Some (y1, y1, z1, z1).
Proof.
  assert (C : qltb dzmax (z1 - z1) = false) by (apply qltb_false; lra).
  destruct fuel; cbn [bisect]; rewrite C; reflexivity.
Qed.

(* the width halves: [fuel] iterations suffice as soon as width <= DYMAX * 2^fuel *)
Lemma bisect_total z : forall fuel dy y1 y2 z1 z2,
  y1 <= y2 -> dy == y2 - y1 -> y2 - y1 <= DYMAX * inject_Z (2 ^ Z.of_nat fuel) ->
  bisect phi z dzmax fuel dy y1 y2 z1 z2 <> None.
Proof.
  induction fuel as [|f IH]; intros dy y1 y2 z1 z2 Hy Hd Hw; cbn [bisect];
    destruct (qltb dzmax (z2 - z1) && qltb DYMAX dy) eqn:C; try discriminate.
  - exfalso. apply andb_true_iff in C. destruct C as [_ C]. apply qltb_true in C.
    change (inject_Z (2 ^ Z.of_nat 0)) with 1 in Hw. lra.
  - assert (P : inject_Z (2 ^ Z.of_nat (S f)) == 2 * inject_Z (2 ^ Z.of_nat f)).
    { rewrite Nat2Z.inj_succ, Z.pow_succ_r by lia. rewrite inject_Z_mult. reflexivity. }
    destruct (mid_bounds y1 y2 Hy) as [M1 M2].
    destruct (qltb z (phi (Qred ((y1 + y2) / 2)))).
    + apply IH; [exact M1|reflexivity|]. rewrite mid_width_l. rewrite P in Hw. lra.
    + apply IH; [exact M2|reflexivity|]. rewrite mid_width_r. rewrite P in Hw. lra.
Qed.
(* first call: dy = 1 (the variable of the code), one more iteration *)
Lemma bisect_total_first z fuel y1 y2 z1 z2 :
  y1 <= y2 -> y2 - y1 <= DYMAX * inject_Z (2 ^ Z.of_nat fuel) ->
  bisect phi z dzmax (S fuel) 1 y1 y2 z1 z2 <> None.
Proof.
  intros Hy Hw. cbn [bisect]. destruct (qltb dzmax (z2 - z1) && qltb DYMAX 1); [|discriminate].
  destruct (mid_bounds y1 y2 Hy) as [M1 M2].
  assert (0 <= inject_Z (2 ^ Z.of_nat fuel)).
  { replace 0 with (inject_Z 0) by reflexivity. rewrite <- Zle_Qle. apply Z.pow_nonneg. lia. }
  destruct (qltb z (phi (Qred ((y1 + y2) / 2)))).
  - apply bisect_total; [exact M1|reflexivity|]. rewrite mid_width_l. lra.
  - apply bisect_total; [exact M2|reflexivity|]. rewrite mid_width_r. lra.
Qed.

(* lockstep: two raw values sharing a bracket are inverted in order *)
Lemma bisect_mono : forall fuel dy y1 y2 z1 z2 z z' B B',
  y1 <= y2 -> z1 = phi y1 -> z2 = phi y2 -> z1 <= z -> z <= z' -> z' <= z2 ->
  bisect phi z dzmax fuel dy y1 y2 z1 z2 = Some B ->
  bisect phi z' dzmax fuel dy y1 y2 z1 z2 = Some B' ->
  interp z B <= interp z' B'.
Proof.
  induction fuel as [|f IH]; intros dy y1 y2 z1 z2 z z' B B' Hy E1 E2 H1 H2 H3 HB HB'; cbn [bisect] in HB, HB';
    destruct (qltb dzmax (z2 - z1) && qltb DYMAX dy) eqn:C.
  - discriminate.
  - injection HB as <-. injection HB' as <-. cbn [interp]. apply interpolate_mono; assumption.
  - destruct (mid_bounds y1 y2 Hy) as [M1 M2].
    set (yg := Qred ((y1 + y2) / 2)) in *.
    destruct (qltb_spec z (phi yg)) as [D|D]; destruct (qltb_spec z' (phi yg)) as [D'|D'].
    + apply (IH (yg - y1) y1 yg z1 (phi yg) z z' B B' M1 E1 eq_refl H1 H2); [lra|exact HB|exact HB'].
    + (* z goes left, z' goes right: the results are separated by yg *)
      destruct B as [[[a b] za] zb]. destruct B' as [[[a' b'] za'] zb'].
      apply bisect_spec in HB; try assumption; try lra; try reflexivity.
      apply bisect_spec in HB'; try assumption; try lra; try reflexivity.
      destruct HB as (A1 & A2 & A3 & A4 & A5 & _). destruct HB' as (A1' & A2' & A3' & A4' & A5' & _).
      cbn [interp].
      destruct (interpolate_bounds z a b za zb A2 A4 A5) as [_ U].
      destruct (interpolate_bounds z' a' b' za' zb' A2' A4' A5') as [L _]. lra.
    + exfalso. lra.
    + assert (D2 : phi yg <= z) by lra.
      apply (IH (y2 - yg) yg y2 (phi yg) z2 z z' B B' M2 eq_refl E2 D2 H2 H3 HB HB').
  - injection HB as <-. injection HB' as <-. cbn [interp]. apply interpolate_mono; assumption.
Qed.

(* ---------------------------------------------------------------- the scans *)
Lemma scan_up_spec z : forall cnt y1 z1 a b za zb fl,
  z1 = phi y1 -> z1 <= z ->
  scan_up phi z cnt y1 z1 = (a, b, za, zb, fl) ->
  y1 <= a /\ a <= b /\ za = phi a /\ za <= z /\ a <= y1 + natQ cnt * YPAS /\
  (fl = true -> zb = phi b /\ z < zb /\ b == a + YPAS /\ a + YPAS <= y1 + natQ cnt * YPAS) /\
  (fl = false -> b = a /\ zb = za /\ a == y1 + natQ cnt * YPAS).
Proof.
  induction cnt as [|c IH]; intros y1 z1 a b za zb fl E1 H1 H; cbn [scan_up] in H.
  - injection H as <- <- <- <- <-. rewrite natQ_0. repeat split; try assumption; try lra; try discriminate.
  - pose proof YPAS_pos as P. pose proof (natQ_nonneg c) as Pc. pose proof (natQ_S c) as Sc.
    assert (Pm : 0 <= natQ c * YPAS) by nra.
    set (y2' := Qred (y1 + YPAS)) in *. assert (Ey : y2' == y1 + YPAS) by apply Qred_correct.
    destruct (qltb_spec z (phi y2')) as [D|D].
    + injection H as <- <- <- <- <-.
      repeat split; try assumption; try discriminate; try lra; try nra.
    + apply IH in H; [|reflexivity|lra].
      destruct H as (A1 & A2 & A3 & A4 & A5 & A6 & A7).
      split; [lra|]. split; [lra|]. split; [assumption|]. split; [assumption|]. split; [nra|]. split.
      * intro F. destruct (A6 F) as (B1 & B2 & B3 & B4). repeat split; try assumption; nra.
      * intro F. destruct (A7 F) as (B1 & B2 & B3). repeat split; try assumption. rewrite B3, Ey, Sc. ring.
Qed.

Lemma scan_down_spec z : forall cnt y2 z2 a b za zb fl,
  z2 = phi y2 -> z <= z2 ->
  scan_down phi z cnt y2 z2 = (a, b, za, zb, fl) ->
  b <= y2 /\ a <= b /\ zb = phi b /\ z <= zb /\ y2 - natQ cnt * YPAS <= a /\
  (fl = true -> za = phi a /\ za < z /\ a == b - YPAS /\ y2 - natQ cnt * YPAS <= b - YPAS) /\
  (fl = false -> b = a /\ zb = za /\ a == y2 - natQ cnt * YPAS).
Proof.
  induction cnt as [|c IH]; intros y2 z2 a b za zb fl E2 H2 H; cbn [scan_down] in H.
  - injection H as <- <- <- <- <-. rewrite natQ_0. repeat split; try assumption; try lra; try discriminate.
  - pose proof YPAS_pos as P. pose proof (natQ_nonneg c) as Pc. pose proof (natQ_S c) as Sc.
    assert (Pm : 0 <= natQ c * YPAS) by nra.
    set (y1' := Qred (y2 - YPAS)) in *. assert (Ey : y1' == y2 - YPAS) by apply Qred_correct.
    destruct (qltb_spec (phi y1') z) as [D|D].
    + injection H as <- <- <- <- <-.
      repeat split; try assumption; try discriminate; try lra; try nra.
    + apply IH in H; [|reflexivity|lra].
      destruct H as (A1 & A2 & A3 & A4 & A5 & A6 & A7).
      split; [lra|]. split; [lra|]. split; [assumption|]. split; [assumption|]. split; [nra|]. split.
      * intro F. destruct (A6 F) as (B1 & B2 & B3 & B4). repeat split; try assumption; nra.
      * intro F. destruct (A7 F) as (B1 & B2 & B3). repeat split; try assumption. rewrite B3, Ey, Sc. ring.
Qed.

End Inversion.

(* ---------------------------------------------------------------- after the scan *)
Lemma dzmax_of_nonneg phi : 0 <= dzmax_of phi.
Proof. unfold dzmax_of. apply Qabs_nonneg. Qed.

Lemma one_gt_DYMAX : ~ 1 <= DYMAX.
Proof. intro H. apply Qle_bool_iff in H. vm_compute in H. discriminate. Qed.

(* what finish_up returns on the state left by an upward scan *)
Lemma finish_up_range phi dzmax z a b za zb fl y o :
  0 <= dzmax -> a <= b -> za = phi a -> za <= z ->
  (fl = true -> zb = phi b /\ z < zb) -> (fl = false -> b = a /\ zb = za) ->
  finish_up phi z dzmax (a, b, za, zb, fl) = Some (y, o) ->
  (ANAM_YMAX < a /\ y = ANAM_YMAX + 1 /\ o = None) \/
  (~ ANAM_YMAX < a /\ a <= y /\ y <= b /\
   exists a' b' za' zb', o = Some (a', b', za', zb') /\ bisect phi z dzmax BISECT_FUEL 1 a b za zb = o /\ y = interpolate z a' b' za' zb').
Proof.
  intros Hd Hab Ea Hz Ht Hf H. unfold finish_up in H.
  destruct (qltb_spec ANAM_YMAX a) as [S|S].
  - left. injection H as <- <-. repeat split; assumption.
  - right. split; [exact S|].
    destruct (bisect phi z dzmax BISECT_FUEL 1 a b za zb) as [[[[a' b'] za'] zb']|] eqn:Bi; [|discriminate].
    injection H as <- <-.
    destruct fl.
    + destruct (Ht eq_refl) as [Eb Hzb]. pose proof Bi as Bi0.
      apply (bisect_spec phi dzmax z) in Bi; try assumption; try lra.
      destruct Bi as (A1 & A2 & A3 & A4 & A5 & _).
      destruct (interpolate_bounds z a' b' za' zb' A2 A4 A5) as [L U].
      split; [lra|]. split; [lra|]. exists a', b', za', zb'. split; [reflexivity|]. split; reflexivity.
    + destruct (Hf eq_refl) as [-> ->]. pose proof Bi as Bi0.
      rewrite (bisect_degenerate phi dzmax Hd) in Bi. injection Bi as <- <- <- <-.
      pose proof (interpolate_degenerate z a za) as E.
      split; [lra|]. split; [lra|]. exists a, a, za, za. split; [reflexivity|]. split; reflexivity.
Qed.

Lemma finish_down_range phi dzmax z a b za zb fl y o :
  0 <= dzmax -> a <= b -> zb = phi b -> z <= zb ->
  (fl = true -> za = phi a /\ za < z) -> (fl = false -> b = a /\ zb = za) ->
  finish_down phi z dzmax (a, b, za, zb, fl) = Some (y, o) ->
  (a < ANAM_YMIN /\ y = ANAM_YMIN - 1 /\ o = None) \/
  (~ a < ANAM_YMIN /\ a <= y /\ y <= b /\
   exists a' b' za' zb', o = Some (a', b', za', zb') /\ bisect phi z dzmax BISECT_FUEL 1 a b za zb = o /\ y = interpolate z a' b' za' zb').
Proof.
  intros Hd Hab Eb Hz Ht Hf H. unfold finish_down in H.
  destruct (qltb_spec a ANAM_YMIN) as [S|S].
  - left. injection H as <- <-. repeat split; assumption.
  - right. split; [exact S|].
    destruct (bisect phi z dzmax BISECT_FUEL 1 a b za zb) as [[[[a' b'] za'] zb']|] eqn:Bi; [|discriminate].
    injection H as <- <-.
    destruct fl.
    + destruct (Ht eq_refl) as [Ea Hza]. pose proof Bi as Bi0.
      apply (bisect_spec phi dzmax z) in Bi; try assumption; try lra.
      destruct Bi as (A1 & A2 & A3 & A4 & A5 & _).
      destruct (interpolate_bounds z a' b' za' zb' A2 A4 A5) as [L U].
      split; [lra|]. split; [lra|]. exists a', b', za', zb'. split; [reflexivity|]. split; reflexivity.
    + destruct (Hf eq_refl) as [E1 E2]. rewrite E1, E2 in *. clear E1 E2. pose proof Bi as Bi0.
      rewrite (bisect_degenerate phi dzmax Hd) in Bi. injection Bi as <- <- <- <-.
      pose proof (interpolate_degenerate z a za) as E.
      split; [lra|]. split; [lra|]. exists a, a, za, za. split; [reflexivity|]. split; reflexivity.
Qed.

(* ---------------------------------------------------------------- C18_bisection *)
Lemma scan_exhausted_up : ANAM_YMAX < 0 + natQ 101 * YPAS.
Proof. apply qltb_true. vm_compute. reflexivity. Qed.
Lemma scan_exhausted_down : 0 - natQ 101 * YPAS < ANAM_YMIN.
Proof. apply qltb_true. vm_compute. reflexivity. Qed.
Lemma scan_reach : 0 + natQ 101 * YPAS <= ANAM_YMAX + 1 /\ ANAM_YMIN - 1 <= 0 - natQ 101 * YPAS.
Proof. split; apply qleb_true; vm_compute; reflexivity. Qed.

Theorem bisection_correct phi z y a b za zb :
  r2t_core phi z = Some (y, Some (a, b, za, zb)) ->
  a <= y /\ y <= b /\ za = phi a /\ zb = phi b /\ za <= z /\ z <= zb /\
  (zb - za <= dzmax_of phi \/ b - a <= DYMAX) /\
  ((forall u v, a <= u -> u <= v -> v <= b -> phi u <= phi v) -> Qabs (phi y - z) <= zb - za).
Proof.
  intro H. unfold r2t_core in H. pose proof (dzmax_of_nonneg phi) as Hd.
  assert (Fin : forall y1 y2 z1 z2, y1 <= y2 -> z1 = phi y1 -> z2 = phi y2 -> z1 <= z -> z <= z2 ->
            bisect phi z (dzmax_of phi) BISECT_FUEL 1 y1 y2 z1 z2 = Some (a, b, za, zb) ->
            y = interpolate z a b za zb ->
            a <= y /\ y <= b /\ za = phi a /\ zb = phi b /\ za <= z /\ z <= zb /\
            (zb - za <= dzmax_of phi \/ b - a <= DYMAX) /\
            ((forall u v, a <= u -> u <= v -> v <= b -> phi u <= phi v) -> Qabs (phi y - z) <= zb - za)).
  { intros y1 y2 z1 z2 Hy E1 E2 H1 H2 Bi Ey.
    apply (bisect_spec phi (dzmax_of phi) z) in Bi; try assumption.
    destruct Bi as (A1 & A2 & A3 & A4 & A5 & A6 & A7 & A8).
    destruct (interpolate_bounds z a b za zb A2 A4 A5) as [L U]. rewrite <- Ey in L, U.
    repeat split; try assumption.
    - destruct A8 as [A8|[A8|A8]]; [left; exact A8|right; exact A8|exfalso; apply one_gt_DYMAX; exact A8].
    - intro Mono.
      assert (M1 : phi a <= phi y) by (apply Mono; lra).
      assert (M2 : phi y <= phi b) by (apply Mono; lra).
      rewrite <- A6 in M1. rewrite <- A7 in M2. apply Qabs_case; intros; lra. }
  destruct (qltb_spec (phi 0) z) as [Up|Down].
  - destruct (scan_up phi z 101 0 (phi 0)) as [[[[y1 y2] z1] z2] fl] eqn:S.
    apply (scan_up_spec phi z) in S; [|reflexivity|lra].
    destruct S as (A1 & A2 & A3 & A4 & A5 & A6 & A7).
    destruct fl.
    + destruct (A6 eq_refl) as (B1 & B2 & B3 & B4).
      apply (finish_up_range phi (dzmax_of phi) z y1 y2 z1 z2 true) in H; try assumption; try (intros; split; assumption); try discriminate.
      destruct H as [(_ & _ & Ho)|(S & _ & _ & a' & b' & za' & zb' & Ho & Bi & Ey)]; [discriminate|].
      injection Ho as <- <- <- <-. apply (Fin y1 y2 z1 z2); try assumption; lra.
    + destruct (A7 eq_refl) as (B1 & B2 & B3). exfalso. unfold finish_up in H.
      pose proof scan_exhausted_up as X. rewrite <- B3 in X.
      destruct (qltb_spec ANAM_YMAX y1) as [S|S]; [discriminate|contradiction].
  - destruct (scan_down phi z 101 0 (phi 0)) as [[[[y1 y2] z1] z2] fl] eqn:S.
    apply (scan_down_spec phi z) in S; [|reflexivity|lra].
    destruct S as (A1 & A2 & A3 & A4 & A5 & A6 & A7).
    destruct fl.
    + destruct (A6 eq_refl) as (B1 & B2 & B3 & B4).
      apply (finish_down_range phi (dzmax_of phi) z y1 y2 z1 z2 true) in H; try assumption; try (intros; split; assumption); try discriminate.
      destruct H as [(_ & _ & Ho)|(S & _ & _ & a' & b' & za' & zb' & Ho & Bi & Ey)]; [discriminate|].
      injection Ho as <- <- <- <-. apply (Fin y1 y2 z1 z2); try assumption; lra.
    + destruct (A7 eq_refl) as (B1 & B2 & B3). exfalso. unfold finish_down in H.
      pose proof scan_exhausted_down as X. rewrite <- B3 in X.
      destruct (qltb_spec y1 ANAM_YMIN) as [S|S]; [discriminate|contradiction].
Qed.

(* the only other results are the two out-of-range sentinels *)
Lemma r2t_core_sentinel phi z y :
  r2t_core phi z = Some (y, None) -> y = ANAM_YMAX + 1 \/ y = ANAM_YMIN - 1.
Proof.
  unfold r2t_core. destruct (qltb (phi 0) z).
  - destruct (scan_up phi z 101 0 (phi 0)) as [[[[y1 y2] z1] z2] fl]. unfold finish_up.
    destruct (qltb ANAM_YMAX y1); [intro H; injection H as <-; left; reflexivity|].
    destruct (bisect phi z (dzmax_of phi) BISECT_FUEL 1 y1 y2 z1 z2) as [[[[? ?] ?] ?]|]; discriminate.
  - destruct (scan_down phi z 101 0 (phi 0)) as [[[[y1 y2] z1] z2] fl]. unfold finish_down.
    destruct (qltb y1 ANAM_YMIN); [intro H; injection H as <-; right; reflexivity|].
    destruct (bisect phi z (dzmax_of phi) BISECT_FUEL 1 y1 y2 z1 z2) as [[[[? ?] ?] ?]|]; discriminate.
Qed.

(* the iteration cap of the code (1000000) and the model's fuel are never reached: the width halves *)
Lemma fuel_enough : YPAS <= DYMAX * inject_Z (2 ^ Z.of_nat 199).
Proof. apply qleb_true. vm_compute. reflexivity. Qed.

Theorem r2t_core_total phi z : r2t_core phi z <> None.
Proof.
  unfold r2t_core. pose proof (dzmax_of_nonneg phi) as Hd.
  destruct (qltb_spec (phi 0) z) as [Up|Down].
  - destruct (scan_up phi z 101 0 (phi 0)) as [[[[y1 y2] z1] z2] fl] eqn:S.
    apply (scan_up_spec phi z) in S; [|reflexivity|lra].
    destruct S as (A1 & A2 & A3 & A4 & A5 & A6 & A7). unfold finish_up.
    destruct (qltb ANAM_YMAX y1); [discriminate|].
    destruct (bisect phi z (dzmax_of phi) BISECT_FUEL 1 y1 y2 z1 z2) as [[[[? ?] ?] ?]|] eqn:Bi; [discriminate|].
    exfalso. revert Bi. change BISECT_FUEL with (S 199).
    destruct fl.
    + destruct (A6 eq_refl) as (B1 & B2 & B3 & B4). apply bisect_total_first; [exact A2|]. pose proof fuel_enough. lra.
    + destruct (A7 eq_refl) as (-> & -> & _). rewrite (bisect_degenerate phi _ Hd). discriminate.
  - destruct (scan_down phi z 101 0 (phi 0)) as [[[[y1 y2] z1] z2] fl] eqn:S.
    apply (scan_down_spec phi z) in S; [|reflexivity|lra].
    destruct S as (A1 & A2 & A3 & A4 & A5 & A6 & A7). unfold finish_down.
    destruct (qltb y1 ANAM_YMIN); [discriminate|].
    destruct (bisect phi z (dzmax_of phi) BISECT_FUEL 1 y1 y2 z1 z2) as [[[[? ?] ?] ?]|] eqn:Bi; [discriminate|].
    exfalso. revert Bi. change BISECT_FUEL with (S 199).
    destruct fl.
    + destruct (A6 eq_refl) as (B1 & B2 & B3 & B4). apply bisect_total_first; [exact A2|]. pose proof fuel_enough. lra.
    + destruct (A7 eq_refl) as (E1 & E2 & _). rewrite E1, E2. rewrite (bisect_degenerate phi _ Hd). discriminate.
Qed.

(* ---------------------------------------------------------------- monotonicity of the inversion, for ANY phi *)
Lemma up_mono phi dzmax : 0 <= dzmax -> forall cnt y1 z1 z z' y o y' o',
  z1 = phi y1 -> z1 <= z -> z <= z' -> y1 + natQ cnt * YPAS <= ANAM_YMAX + 1 ->
  finish_up phi z dzmax (scan_up phi z cnt y1 z1) = Some (y, o) ->
  finish_up phi z' dzmax (scan_up phi z' cnt y1 z1) = Some (y', o') ->
  y <= y'.
Proof.
  intro Hd. induction cnt as [|c IH]; intros y1 z1 z z' y o y' o' E1 H1 H2 Hr H H'; cbn [scan_up] in H, H'.
  - apply (finish_up_range phi dzmax z y1 y1 z1 z1 false) in H; try assumption; try lra; try discriminate; try (intros; split; reflexivity).
    apply (finish_up_range phi dzmax z' y1 y1 z1 z1 false) in H'; try assumption; try lra; try discriminate; try (intros; split; reflexivity).
    destruct H as [(S & -> & _)|(S & L & U & _)]; destruct H' as [(S' & -> & _)|(S' & L' & U' & _)]; try contradiction; lra.
  - pose proof YPAS_pos as P. pose proof (natQ_nonneg c) as Pc. pose proof (natQ_S c) as Sc.
    assert (Pm : 0 <= natQ c * YPAS) by nra.
    set (y2' := Qred (y1 + YPAS)) in *. assert (Ey : y2' == y1 + YPAS) by apply Qred_correct.
    assert (Hr' : y2' + natQ c * YPAS <= ANAM_YMAX + 1) by (rewrite Sc in Hr; nra).
    destruct (qltb_spec z (phi y2')) as [D|D]; destruct (qltb_spec z' (phi y2')) as [D'|D'].
    + (* same grid cell *)
      unfold finish_up in H, H'. destruct (qltb ANAM_YMAX y1).
      * injection H as <- _. injection H' as <- _. lra.
      * destruct (bisect phi z dzmax BISECT_FUEL 1 y1 y2' z1 (phi y2')) as [[[[a b] za] zb]|] eqn:Bi; [|discriminate].
        destruct (bisect phi z' dzmax BISECT_FUEL 1 y1 y2' z1 (phi y2')) as [[[[a' b'] za'] zb']|] eqn:Bi'; [|discriminate].
        injection H as <- _. injection H' as <- _.
        apply (bisect_mono phi dzmax BISECT_FUEL 1 y1 y2' z1 (phi y2') z z' _ _) with (7 := Bi) (8 := Bi'); try assumption; try lra; reflexivity.
    + (* z in this cell, z' further up *)
      apply (finish_up_range phi dzmax z y1 y2' z1 (phi y2') true) in H; try assumption; try lra; try discriminate;
        try (intros; split; [reflexivity|assumption]).
      destruct (scan_up phi z' c y2' (phi y2')) as [[[[a' b'] za'] zb'] fl'] eqn:S'.
      apply (scan_up_spec phi z') in S'; [|reflexivity|lra].
      destruct S' as (A1 & A2 & A3 & A4 & A5 & A6 & A7).
      apply (finish_up_range phi dzmax z' a' b' za' zb' fl') in H'; try assumption.
      2:{ intro F. destruct (A6 F) as (B1 & B2 & _). split; assumption. }
      2:{ intro F. destruct (A7 F) as (B1 & B2 & _). split; assumption. }
      destruct H as [(S & -> & _)|(S & L & U & _)]; destruct H' as [(S0 & -> & _)|(S0 & L' & U' & _)]; try lra.
    + exfalso. lra.
    + apply (IH y2' (phi y2') z z' y o y' o'); try assumption; try reflexivity; lra.
Qed.

Lemma down_mono phi dzmax : 0 <= dzmax -> forall cnt y2 z2 z z' y o y' o',
  z2 = phi y2 -> z' <= z2 -> z <= z' -> ANAM_YMIN - 1 <= y2 - natQ cnt * YPAS ->
  finish_down phi z dzmax (scan_down phi z cnt y2 z2) = Some (y, o) ->
  finish_down phi z' dzmax (scan_down phi z' cnt y2 z2) = Some (y', o') ->
  y <= y'.
Proof.
  intro Hd. induction cnt as [|c IH]; intros y2 z2 z z' y o y' o' E2 H1 H2 Hr H H'; cbn [scan_down] in H, H'.
  - apply (finish_down_range phi dzmax z y2 y2 z2 z2 false) in H; try assumption; try lra; try discriminate; try (intros; split; reflexivity).
    apply (finish_down_range phi dzmax z' y2 y2 z2 z2 false) in H'; try assumption; try lra; try discriminate; try (intros; split; reflexivity).
    destruct H as [(S & -> & _)|(S & L & U & _)]; destruct H' as [(S' & -> & _)|(S' & L' & U' & _)]; try contradiction; lra.
  - pose proof YPAS_pos as P. pose proof (natQ_nonneg c) as Pc. pose proof (natQ_S c) as Sc.
    assert (Pm : 0 <= natQ c * YPAS) by nra.
    set (y1' := Qred (y2 - YPAS)) in *. assert (Ey : y1' == y2 - YPAS) by apply Qred_correct.
    assert (Hr' : ANAM_YMIN - 1 <= y1' - natQ c * YPAS) by (rewrite Sc in Hr; nra).
    destruct (qltb_spec (phi y1') z) as [D|D]; destruct (qltb_spec (phi y1') z') as [D'|D'].
    + (* same grid cell *)
      unfold finish_down in H, H'. destruct (qltb y1' ANAM_YMIN).
      * injection H as <- _. injection H' as <- _. lra.
      * destruct (bisect phi z dzmax BISECT_FUEL 1 y1' y2 (phi y1') z2) as [[[[a b] za] zb]|] eqn:Bi; [|discriminate].
        destruct (bisect phi z' dzmax BISECT_FUEL 1 y1' y2 (phi y1') z2) as [[[[a' b'] za'] zb']|] eqn:Bi'; [|discriminate].
        injection H as <- _. injection H' as <- _.
        apply (bisect_mono phi dzmax BISECT_FUEL 1 y1' y2 (phi y1') z2 z z' _ _) with (7 := Bi) (8 := Bi'); try assumption; try lra; reflexivity.
    + exfalso. lra.
    + (* z further down, z' in this cell *)
      apply (finish_down_range phi dzmax z' y1' y2 (phi y1') z2 true) in H'; try assumption; try lra; try discriminate;
        try (intros; split; [reflexivity|assumption]).
      destruct (scan_down phi z c y1' (phi y1')) as [[[[a b] za] zb] fl] eqn:S.
      apply (scan_down_spec phi z) in S; [|reflexivity|lra].
      destruct S as (A1 & A2 & A3 & A4 & A5 & A6 & A7).
      apply (finish_down_range phi dzmax z a b za zb fl) in H; try assumption.
      2:{ intro F. destruct (A6 F) as (B1 & B2 & _). split; assumption. }
      2:{ intro F. destruct (A7 F) as (B1 & B2 & _). split; assumption. }
      destruct H as [(S & -> & _)|(S & L & U & _)]; destruct H' as [(S0 & -> & _)|(S0 & L' & U' & _)]; try lra.
    + apply (IH y1' (phi y1') z z' y o y' o'); try assumption; try reflexivity; lra.
Qed.

Theorem r2t_core_mono phi z z' y o y' o' :
  z <= z' -> r2t_core phi z = Some (y, o) -> r2t_core phi z' = Some (y', o') -> y <= y'.
Proof.
  intros Hz H H'. unfold r2t_core in H, H'. pose proof (dzmax_of_nonneg phi) as Hd.
  destruct scan_reach as [R1 R2].
  destruct (qltb_spec (phi 0) z) as [U|U]; destruct (qltb_spec (phi 0) z') as [U'|U'].
  - apply (up_mono phi (dzmax_of phi) Hd 101 0 (phi 0) z z' y o y' o'); try assumption; try reflexivity; lra.
  - exfalso. lra.
  - (* z at or below phi(0), z' above: the results are separated by 0 *)
    destruct (scan_down phi z 101 0 (phi 0)) as [[[[a b] za] zb] fl] eqn:S.
    apply (scan_down_spec phi z) in S; [|reflexivity|lra].
    destruct S as (A1 & A2 & A3 & A4 & A5 & A6 & A7).
    apply (finish_down_range phi (dzmax_of phi) z a b za zb fl) in H; try assumption.
    2:{ intro F. destruct (A6 F) as (B1 & B2 & _). split; assumption. }
    2:{ intro F. destruct (A7 F) as (B1 & B2 & _). split; assumption. }
    destruct (scan_up phi z' 101 0 (phi 0)) as [[[[a' b'] za'] zb'] fl'] eqn:S'.
    apply (scan_up_spec phi z') in S'; [|reflexivity|lra].
    destruct S' as (A1' & A2' & A3' & A4' & A5' & A6' & A7').
    apply (finish_up_range phi (dzmax_of phi) z' a' b' za' zb' fl') in H'; try assumption.
    2:{ intro F. destruct (A6' F) as (B1 & B2 & _). split; assumption. }
    2:{ intro F. destruct (A7' F) as (B1 & B2 & _). split; assumption. }
    assert (C1 : ANAM_YMIN - 1 <= 0) by (apply qleb_true; vm_compute; reflexivity).
    assert (C2 : 0 <= ANAM_YMAX + 1) by (apply qleb_true; vm_compute; reflexivity).
    destruct H as [(S & -> & _)|(S & L & U0 & _)]; destruct H' as [(S0 & -> & _)|(S0 & L' & U0' & _)]; try lra.
  - apply (down_mono phi (dzmax_of phi) Hd 101 0 (phi 0) z z' y o y' o'); try assumption; try reflexivity; lra.
Qed.

(* ---------------------------------------------------------------- the complete rawToTransformValue *)
Lemma Some_inj_Q (a b : Q) : Some a = Some b -> a = b.
Proof. congruence. Qed.
Definition clamp_y (A : anam) (y : Q) : Q :=
  if an_flagBound A then clamp_hi (getVmax (an_ay A)) (clamp_lo (getVmin (an_ay A)) y) else y.
(* none of the four bound tests fires: the value is inverted by scan + bisection *)
Definition in_core (A : anam) (z : Q) : bool :=
  negb (an_flagBound A) ||
  negb (outside_below (an_az A) z || outside_above (an_az A) z || outside_below (an_pz A) z || outside_above (an_pz A) z).

Lemma r2t_outside_below A z :
  an_flagBound A = true -> outside_below (an_az A) z = true -> r2t A z = Some (getVmin (an_ay A)).
Proof. intros F O. unfold r2t. rewrite F, O. reflexivity. Qed.
Lemma r2t_outside_above A z :
  an_flagBound A = true -> outside_below (an_az A) z = false -> outside_above (an_az A) z = true ->
  r2t A z = Some (getVmax (an_ay A)).
Proof. intros F O O'. unfold r2t. rewrite F, O, O'. reflexivity. Qed.

Lemma r2t_in_core A z : in_core A z = true ->
  r2t A z = match r2t_core (t2r A) z with Some (y, _) => Some (clamp_y A y) | None => None end.
Proof.
  unfold in_core, r2t, clamp_y. destruct (an_flagBound A); cbn [negb orb]; [|reflexivity].
  intro H. apply negb_true_iff in H. apply orb_false_iff in H. destruct H as [H H4].
  apply orb_false_iff in H. destruct H as [H H3]. apply orb_false_iff in H. destruct H as [H1 H2].
  rewrite H1, H2, H3, H4. reflexivity.
Qed.

Lemma clamp_mono lo hi y y' : y <= y' -> clamp_hi hi (clamp_lo lo y) <= clamp_hi hi (clamp_lo lo y').
Proof.
  intro H. unfold clamp_hi, clamp_lo.
  destruct (qltb_spec y lo); destruct (qltb_spec y' lo);
    repeat match goal with |- context [qltb ?a ?b] => destruct (qltb_spec a b) end; lra.
Qed.

Theorem r2t_total A z : r2t A z <> None.
Proof.
  unfold r2t. pose proof (r2t_core_total (t2r A) z) as T.
  destruct (r2t_core (t2r A) z) as [[y o]|]; [|contradiction].
  destruct (an_flagBound A); [|discriminate].
  repeat match goal with |- context [if ?b then _ else _] => destruct b end; discriminate.
Qed.

Theorem r2t_mono A z z' y y' :
  in_core A z = true -> in_core A z' = true -> z <= z' ->
  r2t A z = Some y -> r2t A z' = Some y' -> y <= y'.
Proof.
  intros C C' Hz H H'. rewrite (r2t_in_core A z C) in H. rewrite (r2t_in_core A z' C') in H'.
  destruct (r2t_core (t2r A) z) as [[y0 o]|] eqn:E; [|discriminate].
  destruct (r2t_core (t2r A) z') as [[y0' o']|] eqn:E'; [|discriminate].
  pose proof (r2t_core_mono (t2r A) z z' y0 o y0' o' Hz E E') as M.
  apply Some_inj_Q in H. apply Some_inj_Q in H'. subst y y'.
  unfold clamp_y. destruct (an_flagBound A); [apply clamp_mono; exact M|exact M].
Qed.

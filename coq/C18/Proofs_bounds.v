(* C18 proofs, part 6: the bounds scan of AnamHermite::_defineBounds (with the fallback of the fix). *)
From Coq Require Import List Arith ZArith QArith Qabs Bool Lqa Lia.
From Gst Require Import lib.QAux C18.Model.
Import ListNotations.
Local Open Scope Q_scope.

Lemma hi_scan_cons2 azmax y z y' z' tl p :
  hi_scan azmax ((y, z) :: (y', z') :: tl) p =
  if qltb azmax z then (Some z, p)
  else hi_scan azmax ((y', z') :: tl) (match p with None => if qltb z' z then Some (y, z) else None | Some _ => p end).
Proof. reflexivity. Qed.
Lemma lo_scan_cons2 azmin above y z y' z' tl p :
  lo_scan azmin above ((y, z) :: (y', z') :: tl) p =
  if qltb z azmin then (Some above, p)
  else lo_scan azmin z ((y', z') :: tl) (match p with None => if qltb z z' then Some (y, z) else None | Some _ => p end).
Proof. reflexivity. Qed.
Lemma hi_scan_single azmax y z p : hi_scan azmax [(y, z)] p = (None, p).
Proof. reflexivity. Qed.
Lemma lo_scan_single azmin above y z p : lo_scan azmin above [(y, z)] p = (None, p).
Proof. reflexivity. Qed.

(* once a turning point is recorded it is kept *)
Lemma hi_scan_keeps azmax : forall l q r pr, hi_scan azmax l (Some q) = (r, pr) -> pr = Some q.
Proof.
  induction l as [|[y z] tl IH]; intros q r pr H; [cbn in H; congruence|].
  destruct tl as [|[y' z'] tl']; [rewrite hi_scan_single in H; congruence|].
  rewrite hi_scan_cons2 in H. destruct (qltb azmax z); [congruence|]. apply (IH q r pr H).
Qed.
Lemma lo_scan_keeps azmin : forall l above q r pr, lo_scan azmin above l (Some q) = (r, pr) -> pr = Some q.
Proof.
  induction l as [|[y z] tl IH]; intros above q r pr H; [cbn in H; congruence|].
  destruct tl as [|[y' z'] tl']; [rewrite lo_scan_single in H; congruence|].
  rewrite lo_scan_cons2 in H. destruct (qltb z azmin); [congruence|]. apply (IH z q r pr H).
Qed.

(* upward: a stop value exceeds azmax; the first turning point is not below the starting value *)
Lemma hi_scan_stop azmax : forall l p v pr, hi_scan azmax l p = (Some v, pr) -> azmax < v.
Proof.
  induction l as [|[y z] tl IH]; intros p v pr H; [cbn in H; congruence|].
  destruct tl as [|[y' z'] tl']; [rewrite hi_scan_single in H; congruence|].
  rewrite hi_scan_cons2 in H. destruct (qltb_spec azmax z) as [D|D]; [congruence|]. apply (IH _ v pr H).
Qed.
Lemma hi_scan_turn azmax : forall l y0 z0 r y z, hi_scan azmax ((y0, z0) :: l) None = (r, Some (y, z)) -> z0 <= z.
Proof.
  induction l as [|[y' z'] tl IH]; intros y0 z0 r y z H; [rewrite hi_scan_single in H; congruence|].
  rewrite hi_scan_cons2 in H. destruct (qltb azmax z0); [congruence|].
  destruct (qltb_spec z' z0) as [D|D].
  - apply hi_scan_keeps in H. injection H as <- <-. lra.
  - apply IH in H. lra.
Qed.
Lemma hi_scan_ge_start azmax l y0 z0 v pr : hi_scan azmax ((y0, z0) :: l) None = (Some v, pr) -> z0 <= v.
Proof.
  intro H. pose proof (hi_scan_stop azmax _ _ _ _ H) as S.
  destruct l as [|[y' z'] tl]; [rewrite hi_scan_single in H; congruence|].
  rewrite hi_scan_cons2 in H.
  destruct (qltb_spec azmax z0) as [D|D]; [|lra]. assert (E : v = z0) by congruence. rewrite E. lra.
Qed.

(* downward: the first turning point is not above the starting value; a stop below the start returns a value >= azmin *)
Lemma lo_scan_turn azmin : forall l above y0 z0 r y z, lo_scan azmin above ((y0, z0) :: l) None = (r, Some (y, z)) -> z <= z0.
Proof.
  induction l as [|[y' z'] tl IH]; intros above y0 z0 r y z H; [rewrite lo_scan_single in H; congruence|].
  rewrite lo_scan_cons2 in H. destruct (qltb z0 azmin); [congruence|].
  destruct (qltb_spec z0 z') as [D|D].
  - apply lo_scan_keeps in H. injection H as <- <-. lra.
  - apply IH in H. lra.
Qed.
Lemma lo_scan_stop azmin : forall l above p v pr, lo_scan azmin above l p = (Some v, pr) ->
  v = above \/ azmin <= v.
Proof.
  induction l as [|[y z] tl IH]; intros above p v pr H; [cbn in H; congruence|].
  destruct tl as [|[y' z'] tl']; [rewrite lo_scan_single in H; congruence|].
  rewrite lo_scan_cons2 in H.
  destruct (qltb_spec z azmin) as [D|D]; [left; congruence|].
  apply IH in H. destruct H as [->|H]; right; lra.
Qed.

(* ---------------------------------------------------------------- the reported bounds *)
Lemma define_bounds_az phi pymin pzmin pymax pzmax :
  let B := define_bounds phi pymin pzmin pymax pzmax in
  b_azmin B = match b_lo B with
              | (Some v, _) => v
              | (None, Some (_, pz)) => pz
              | (None, None) => phi ANAM_YMIN
              end /\
  b_azmax B = match b_hi B with
              | (Some v, _) => v
              | (None, Some (_, pz)) => pz
              | (None, None) => phi ANAM_YMAX
              end.
Proof.
  unfold define_bounds.
  destruct (lo_scan pzmin _ _ None) as [[v|] [[py pz]|]]; destruct (hi_scan pzmax _ None) as [[w|] [[qy qz]|]];
    cbn; split; reflexivity.
Qed.

(* the scans start from the same grid value *)
Lemma rev_firstn_head {A} (G : list A) i d : (i < length G)%nat ->
  exists tl, rev (firstn (S i) G) = nth i G d :: tl.
Proof.
  revert i. induction G as [|a G IH]; intros i Hi; [cbn in Hi; lia|].
  destruct i as [|i].
  - exists []. reflexivity.
  - cbn [length] in Hi. destruct (IH i ltac:(lia)) as [tl E].
    change (firstn (S (S i)) (a :: G)) with (a :: firstn (S i) G). cbn [rev nth]. rewrite E. eexists. reflexivity.
Qed.
Lemma skipn_head {A} (G : list A) i d : (i < length G)%nat -> exists tl, skipn i G = nth i G d :: tl.
Proof.
  revert i. induction G as [|a G IH]; intros i Hi; [cbn in Hi; lia|].
  destruct i as [|i]; [exists G; reflexivity|]. cbn [length] in Hi. cbn [skipn nth]. apply IH. lia.
Qed.

Lemma bounds_grid_length phi : length (bounds_grid phi) = 201%nat.
Proof. unfold bounds_grid. rewrite map_length. reflexivity. Qed.
Lemma start_index_lt phi pymin mid : (start_index (bounds_grid phi) pymin mid < length (bounds_grid phi))%nat.
Proof.
  unfold start_index.
  match goal with |- context [Nat.leb ?a ?b] => destruct (Nat.leb_spec a b) as [L|L] end.
  - rewrite bounds_grid_length. lia.
  - exact L.
Qed.

(* Whenever the lower absolute bound was not met on the grid and a turning point was found (the situation of the
   former defect: az.min := pz.min), and the upper bound was met or a turning point found: az.min <= start <= az.max. *)
Theorem bounds_ordered phi pymin pzmin pymax pzmax :
  let B := define_bounds phi pymin pzmin pymax pzmax in
  (forall q, b_lo B = (None, Some q) -> b_azmin B <= b_start B) /\
  (forall v p, b_hi B = (Some v, p) -> b_start B <= b_azmax B) /\
  (forall q, b_hi B = (None, Some q) -> b_start B <= b_azmax B) /\
  (forall v p, b_lo B = (Some v, p) -> pzmin <= b_azmin B \/ b_azmin B = snd (nth (S (start_index (bounds_grid phi) pymin ((pzmin + pzmax) / 2))) (bounds_grid phi) (0, 0))).
Proof.
  intro B. destruct (define_bounds_az phi pymin pzmin pymax pzmax) as [Emin Emax]. fold B in Emin, Emax.
  set (G := bounds_grid phi) in *. set (i0 := start_index G pymin ((pzmin + pzmax) / 2)) in *.
  assert (Hi : (i0 < length G)%nat) by apply start_index_lt.
  assert (Elo : b_lo B = lo_scan pzmin (snd (nth (S i0) G (0, 0))) (rev (firstn (S i0) G)) None).
  { unfold B, define_bounds. fold G. fold i0.
    destruct (lo_scan pzmin _ _ None) as [[v|] [[py pz]|]]; destruct (hi_scan pzmax _ None) as [[w|] [[qy qz]|]]; reflexivity. }
  assert (Ehi : b_hi B = hi_scan pzmax (skipn i0 G) None).
  { unfold B, define_bounds. fold G. fold i0.
    destruct (lo_scan pzmin _ _ None) as [[v|] [[py pz]|]]; destruct (hi_scan pzmax _ None) as [[w|] [[qy qz]|]]; reflexivity. }
  assert (Est : b_start B = snd (nth i0 G (0, 0))).
  { unfold B, define_bounds. fold G. fold i0.
    destruct (lo_scan pzmin _ _ None) as [[v|] [[py pz]|]]; destruct (hi_scan pzmax _ None) as [[w|] [[qy qz]|]]; reflexivity. }
  destruct (rev_firstn_head G i0 (0, 0) Hi) as [tlo Hlo]. destruct (skipn_head G i0 (0, 0) Hi) as [thi Hhi].
  destruct (nth i0 G (0, 0)) as [y0 z0] eqn:E0. cbn [snd] in Est.
  rewrite Hlo in Elo. rewrite Hhi in Ehi.
  repeat split.
  - intros [y z] H. rewrite H in Emin. rewrite Emin, Est. rewrite H in Elo. symmetry in Elo. apply lo_scan_turn in Elo. exact Elo.
  - intros v p H. rewrite H in Emax. rewrite Emax, Est. rewrite H in Ehi. symmetry in Ehi. apply hi_scan_ge_start in Ehi. exact Ehi.
  - intros [y z] H. rewrite H in Emax. rewrite Emax, Est. rewrite H in Ehi. symmetry in Ehi. apply hi_scan_turn in Ehi. exact Ehi.
  - intros v p H. rewrite H in Emin. rewrite Emin. rewrite H in Elo. symmetry in Elo. apply lo_scan_stop in Elo.
    destruct Elo as [->|L]; [right; reflexivity|left; exact L].
Qed.

(* ... but the ordering is not unconditional: when the lower scan stops beyond a turning point the value kept (zm[ind+1])
   may exceed the upper bound.  Synthetic forward function (not a Hermite expansion): *)
Definition wild_phi (y : Q) : Q :=
  if qltb y (-(15 # 100)) then -(100 # 1) else if qltb y (-(5 # 100)) then 1000 # 1 else y.
Lemma bounds_ordered_refuted :
  exists phi pymin pzmin pymax pzmax,
    let B := define_bounds phi pymin pzmin pymax pzmax in pzmin < pzmax /\ b_azmax B < b_azmin B.
Proof.
  exists wild_phi, (-(1 # 20)), (-(10 # 1)), (5 # 1), (3 # 1).
  cbv zeta. split; [reflexivity|]. apply qltb_true. vm_compute. reflexivity.
Qed.

(* C18 proofs: the statements of Properties.v assembled from the Proofs_* files. *)
From Coq Require Import List Arith ZArith QArith Qabs Bool Lqa Lia.
From Gst Require Import lib.QAux lib.LinAlgQ C18.Model C18.Proofs_pca C18.Proofs_hermite C18.Proofs_anam C18.Proofs_ns C18.Proofs_emp.
Import ListNotations.
Local Open Scope Q_scope.

Lemma pca_inverse_gram n E sq lam mean sigma :
  finv n (get E) (ftr (get E)) ->
  (forall i, (i < n)%nat -> vget sq i * vget sq i == lam i /\ 0 < lam i) ->
  (forall i, (i < n)%nat -> 0 < vget sigma i) ->
  (forall z j, (j < n)%nat ->
     vget (f2z_vec n (pca_f2z n E sq) mean sigma (z2f_vec n (pca_z2f n E sq) mean sigma z)) j == vget z j) /\
  (forall k l, (k < n)%nat -> (l < n)%nat ->
     fmul n (ftr (get (pca_z2f n E sq))) (fmul n (cov_of n (get E) lam) (get (pca_z2f n E sq))) k l == delta k l).
Proof.
  intros HE Hsq Hsig.
  assert (Hs : forall k, (k < n)%nat -> ~ vget sq k == 0).
  { intros k Hk E0. destruct (Hsq k Hk) as [H1 H2]. rewrite E0 in H1. lra. }
  split.
  - intros z j Hj. apply pca_inverse; try assumption. intros a b Ha Hb. apply (HE a b Ha Hb).
  - intros k l Hk Hl. apply pca_gram; try assumption.
    + intros a b Ha Hb. apply (HE a b Ha Hb).
    + intros a Ha. apply (Hsq a Ha).
Qed.

Lemma hermite_orthonormal n m :
  Egauss (pmul (hpoly n) (hpoly m)) == (if Nat.eqb n m then factQ n else 0) /\ 0 < factQ n.
Proof. split; [apply hermite_orthogonal|apply factQ_pos]. Qed.

Lemma r2t_bounds A z : an_flagBound A = true ->
  (outside_below (an_az A) z = true -> r2t A z = Some (getVmin (an_ay A))) /\
  (outside_below (an_az A) z = false -> outside_above (an_az A) z = true -> r2t A z = Some (getVmax (an_ay A))).
Proof. intro F. split; [apply r2t_outside_below; exact F|apply r2t_outside_above; exact F]. Qed.

Lemma r2t_monotone :
  (forall phi z z' y o y' o', z <= z' -> r2t_core phi z = Some (y, o) -> r2t_core phi z' = Some (y', o') -> y <= y') /\
  (forall A z z' y y', in_core A z = true -> in_core A z' = true -> z <= z' ->
     r2t A z = Some y -> r2t A z' = Some y' -> y <= y').
Proof. split; [exact r2t_core_mono|exact r2t_mono]. Qed.

Lemma normalscore_spec data wt res :
  ns_probs data wt = Some res ->
  (forall i v p i' v' p', In (i, Some v, Some p) res -> In (i', Some v', Some p') res ->
     (v < v' \/ (v == v' /\ (i < i')%nat)) -> p <= p' /\ (wt = [] -> p < p')) /\
  (forall i d o, In (i, d, o) res -> nth_error data i = Some d /\ (d = None -> o = None)).
Proof.
  intro H. split.
  - intros i v p i' v' p' Hi Hi' Hlt. split.
    + apply (ns_probs_monotone data wt res i v p i' v' p' H Hi Hi' Hlt).
    + intro E. subst wt. apply (ns_probs_strict data res i v p i' v' p' H Hi Hi' Hlt).
  - intros i d o Hi. apply (ns_probs_values data wt res i d o H Hi).
Qed.

Lemma empirical_spec Z Y :
  length Z = length Y -> sortedQ Z -> strictQ Y -> Z <> [] ->
  (forall z, nth 0 Z 0 <= z -> z <= nth (length Z - 1) Z 0 -> emp_interp Y Z (emp_interp Z Y z) == z) /\
  (forall z z', nth 0 Z 0 <= z -> z <= z' -> z' <= nth (length Z - 1) Z 0 -> emp_interp Z Y z <= emp_interp Z Y z').
Proof.
  intros HL HZ HY HN. split.
  - intros z R0 R1. apply empirical_roundtrip; assumption.
  - intros z z' R0 Hz R1. apply empirical_monotone; try assumption. apply strict_sorted; exact HY.
Qed.

(* C18 model: executable mirror of
     PCA::_pcaFunctions / _mafFunctions                 /repo/src/Stats/PCA.cpp:90 / 120
     PCA::_calculateNormalization / _covariance0        PCA.cpp:318 / 384
     PCA::_center / _uncenter                           PCA.cpp:434 / 461
     PCA::_pcaZ2F / _pcaF2Z, _getVectorIsotopic         PCA.cpp:491 / 528 / 820
     AMatrix::prodMatVec(x, transpose)                  /repo/src/Matrix/AMatrix.cpp:742
     hermitePolynomials, _calculateIn, hermiteCondExpElement   /repo/src/Polynomials/Hermite.cpp:137 / 36 / 214
     Interval::isOutsideBelow / isOutsideAbove          /repo/src/Basic/Interval.cpp:96 / 111
     AnamHermite::transformToRawValue / rawToTransformValue    /repo/src/Anamorphosis/AnamHermite.cpp:234 / 123
     VH::normalScore, VH::orderRanks                    /repo/src/Basic/VectorHelper.cpp:787 / 2010
     AnamEmpirical::rawToTransformValue / transformToRawValue  /repo/src/Anamorphosis/AnamEmpirical.cpp:166 / 204
     Rotation::rotateDirect / rotateInverse             /repo/src/Geometry/Rotation.cpp:150 / 163
   Exact rational arithmetic; square roots, eigen-pairs, the Gaussian quantile and the fitted
   coefficients enter as values harvested from the implementation (exact doubles). No proofs here. *)
From Coq Require Import List Arith ZArith QArith Qabs Bool.
From Gst Require Import lib.QAux lib.LinAlgQ.
Import ListNotations.
Local Open Scope Q_scope.

(* ------------------------------------------------------------------ constants (exact binary64 values) *)
Definition TESTQ : Q := 1233999999999999958672482500608 # 1.              (* TEST = 1.234e30 *)
Definition YPAS : Q := 3602879701896397 # 36028797018963968.                (* 0.1 *)
Definition DYMAX : Q := 944473296573929 # 9444732965739290427392.           (* 0.0000001 *)
Definition EPS10 : Q := 7737125245533627 # 77371252455336267181195264.      (* EPSILON10 *)
Definition ANAM_YMIN : Q := -(10 # 1).
Definition ANAM_YMAX : Q := 10 # 1.

(* ------------------------------------------------------------------ PCA / MAF *)
(* AMatrix::prodMatVec(x, transpose): y = M x, or y = M^T x when [transpose] *)
Definition prod_mat_vec (n : nat) (M : mat) (x : list Q) (transpose : bool) : list Q :=
  if transpose then vk n (fun j => sumnr n (fun i => get M i j * vget x i))
  else vk n (fun i => sumnr n (fun j => get M i j * vget x j)).

(* PCA::_pcaFunctions.  [sq] holds sqrt(_eigval[i]) (oracle).
     _F2Z = transpose(_eigvec)
     _Z2F(ifac, ivar) = _eigvec(ifac, ivar) / sqrt(_eigval[ivar])
     _F2Z(ivar, ifac) = _F2Z(ivar, ifac) * sqrt(_eigval[ivar]) *)
Definition pca_z2f (n : nat) (eigvec : mat) (sq : list Q) : mat :=
  mk n n (fun ifac ivar => get eigvec ifac ivar / vget sq ivar).
Definition pca_f2z (n : nat) (eigvec : mat) (sq : list Q) : mat :=
  let f2z0 := mk n n (fun i j => get eigvec j i) in
  mk n n (fun ivar ifac => get f2z0 ivar ifac * vget sq ivar).

(* PCA::_mafFunctions: _Z2F(ifac, ivar) = _eigvec(ifac, ivar); _F2Z = inverse of _Z2F
   (MatrixSquareGeneral::invert is replaced by the certified exact inverse) *)
Definition maf_z2f (n : nat) (eigvec : mat) : mat := mk n n (fun ifac ivar => get eigvec ifac ivar).
Definition maf_f2z (n : nat) (eigvec : mat) : option mat := inv_checked n (maf_z2f n eigvec).

(* PCA::_center *)
Definition center (n : nat) (data mean sigma : list Q) (flag_center flag_scale : bool) : list Q :=
  vk n (fun i =>
    let d1 := if flag_center then vget data i - vget mean i else vget data i in
    if flag_scale && qltb 0 (vget sigma i) then d1 / vget sigma i else d1).
(* PCA::_uncenter: a variable with sigma <= 0 is skipped altogether (the mean is not added back) *)
Definition uncenter (n : nat) (data mean sigma : list Q) (flag_center flag_scale : bool) : list Q :=
  vk n (fun i =>
    if qleb (vget sigma i) 0 then vget data i
    else
      let d1 := if flag_scale then vget data i * vget sigma i else vget data i in
      if flag_center then d1 + vget mean i else d1).

(* a sample: selection flag and the Z-variables (None = undefined) *)
Record sample := { s_active : bool; s_z : list (option Q) }.
Definition all_defined (l : list (option Q)) : bool := forallb (fun o => match o with Some _ => true | None => false end) l.
Definition values (l : list (option Q)) : list Q := map (fun o => match o with Some q => q | None => TESTQ end) l.
(* PCA::_getVectorIsotopic: active and every Z-variable defined (at least one variable) *)
Definition isotopic (n : nat) (s : sample) : bool :=
  s_active s && negb (Nat.eqb n 0) && all_defined (firstn n (s_z s)).

(* the sample loops of _pcaZ2F / _pcaF2Z: center(true,false) ; Z2F^T .   and   F2Z^T . ; uncenter(true,false) *)
Definition z2f_vec (n : nat) (Z2F : mat) (mean sigma z : list Q) : list Q :=
  prod_mat_vec n Z2F (center n z mean sigma true false) true.
Definition f2z_vec (n : nat) (F2Z : mat) (mean sigma f : list Q) : list Q :=
  uncenter n (prod_mat_vec n F2Z f true) mean sigma true false.
Definition pcaZ2F (n : nat) (Z2F : mat) (mean sigma : list Q) (db : list sample) : list (option (list Q)) :=
  map (fun s => if isotopic n s then Some (z2f_vec n Z2F mean sigma (values (s_z s))) else None) db.
Definition pcaF2Z (n : nat) (F2Z : mat) (mean sigma : list Q) (db : list sample) : list (option (list Q)) :=
  map (fun s => if isotopic n s then Some (f2z_vec n F2Z mean sigma (values (s_z s))) else None) db.

(* PCA::_calculateNormalization (flag_nm1 = true): mean, and the variance whose square root is _sigma *)
Definition iso_rows (n : nat) (db : list sample) : list (list Q) :=
  map (fun s => values (s_z s)) (filter (isotopic n) db).
Definition lsumr (l : list Q) : Q := fold_left (fun a x => Qred (a + x)) l 0.
Definition norm_mean (n : nat) (rows : list (list Q)) : list Q :=
  let niso := inject_Z (Z.of_nat (length rows)) in
  vk n (fun i => Qred (lsumr (map (fun r => vget r i) rows) / niso)).
Definition norm_var (n : nat) (rows : list (list Q)) : list Q :=
  let niso := inject_Z (Z.of_nat (length rows)) in
  let mean := norm_mean n rows in
  vk n (fun i => Qred ((lsumr (map (fun r => vget r i * vget r i) rows) / niso - vget mean i * vget mean i)
                       * (niso / (niso - 1)))).
(* PCA::_covariance0 (flag_nm1 = true): centred (not scaled) cross-products / (niso - 1) *)
Definition covariance0 (n : nat) (rows : list (list Q)) (mean : list Q) : mat :=
  let niso := inject_Z (Z.of_nat (length rows)) in
  mk n n (fun i j => Qred (lsumr (map (fun r => (vget r i - vget mean i) * (vget r j - vget mean j)) rows) / (niso - 1))).

(* residual of a matrix identity: max_ij |A_ij - B_ij| *)
Definition qmaxl (l : list Q) : Q := fold_left (fun a x => if qltb a x then x else a) l 0.
Definition mat_resid (n m : nat) (A B : fmat) : Q :=
  qmaxl (flat_map (fun i => map (fun j => Qabs (A i j - B i j)) (seq 0 m)) (seq 0 n)).

(* ------------------------------------------------------------------ Hermite polynomials *)
(* the three-term recurrence of hermitePolynomials / _calculateIn (sk = 0, no cutoff):
     p_0 = 1, p_1 = -y, p_ih = -(y p_{ih-1} + a(ih-1) p_{ih-2}) / b(ih)
   code: a = b = sqrt (values [sq k] harvested as doubles); unnormalised: a k = k, b k = 1 *)
Fixpoint herm_loop (a b : nat -> Q) (y : Q) (cnt ih : nat) (pm1 pm2 : Q) : list Q :=
  match cnt with
  | O => []
  | S c => let p := Qred (- (y * pm1 + a (ih - 1)%nat * pm2) / b ih) in
           p :: herm_loop a b y c (S ih) p pm1
  end.
Definition herm_gen (a b : nat -> Q) (y : Q) (nbpoly : nat) : list Q :=
  match nbpoly with
  | O => []
  | S O => [1]
  | S (S c) => 1 :: (- y) :: herm_loop a b y c 2 (- y) 1
  end.
Definition natQ (k : nat) : Q := inject_Z (Z.of_nat k).
Definition herm_unnorm (y : Q) (nbpoly : nat) : list Q := herm_gen natQ (fun _ => 1) y nbpoly.
(* change of support: poly[ih] *= r^ih  (only when r != 1) *)
Fixpoint scale_pow (r rk : Q) (l : list Q) : list Q :=
  match l with [] => [] | x :: t => Qred (x * rk) :: scale_pow r (Qred (rk * r)) t end.
Definition hermite_polynomials (a b : nat -> Q) (y r : Q) (nbpoly : nat) : list Q :=
  let p := herm_gen a b y nbpoly in
  if qeqb r 1 then p else scale_pow r 1 p.
Fixpoint factQ (n : nat) : Q := match n with O => 1 | S k => natQ (S k) * factQ k end.

(* polynomials as coefficient lists (index = degree), used by the orthogonality theorem *)
Fixpoint padd (p q : list Q) : list Q :=
  match p, q with
  | [], _ => q
  | _, [] => p
  | a :: p', b :: q' => (a + b) :: padd p' q'
  end.
Definition pscale (c : Q) (p : list Q) : list Q := map (fun a => c * a) p.
Definition pshift (p : list Q) : list Q := 0 :: p.                       (* x . p *)
Fixpoint dfrom (j : nat) (p : list Q) : list Q :=
  match p with [] => [] | a :: r => (natQ j * a) :: dfrom (S j) r end.
Definition pderiv (p : list Q) : list Q := match p with [] => [] | _ :: r => dfrom 1 r end.
Fixpoint pmul (p q : list Q) : list Q :=
  match q with [] => [] | b :: r => padd (pscale b p) (pshift (pmul p r)) end.
Fixpoint peval (p : list Q) (x : Q) : Q := match p with [] => 0 | a :: r => a + x * peval r x end.
(* (h_n, h_{n+1}) with h_0 = 1, h_1 = -x, h_{n+2} = -(x h_{n+1} + (n+1) h_n) *)
Fixpoint hpair (n : nat) : list Q * list Q :=
  match n with
  | O => ([1], [0; -(1)])
  | S k => let '(a, b) := hpair k in (b, pscale (-(1)) (padd (pshift b) (pscale (natQ (S k)) a)))
  end.
Definition hpoly (n : nat) : list Q := fst (hpair n).
(* Gaussian moments m_0 = 1, m_1 = 0, m_{k+2} = (k+1) m_k and the moment functional E[x^k p] *)
Fixpoint mom (n : nat) : Q :=
  match n with
  | O => 1
  | S O => 0
  | S ((S k) as n') => natQ (S k) * mom k
  end.
Fixpoint Emom (k : nat) (p : list Q) : Q :=
  match p with [] => 0 | a :: r => a * mom k + Emom (S k) r end.
Definition Egauss (p : list Q) : Q := Emom 0 p.

(* ------------------------------------------------------------------ AnamHermite *)
Record interval := { iv_min : option Q; iv_max : option Q; iv_mininc : bool; iv_maxinc : bool }.
Definition getVmin (iv : interval) : Q := match iv_min iv with Some a => a | None => TESTQ end.
Definition getVmax (iv : interval) : Q := match iv_max iv with Some a => a | None => TESTQ end.
Definition outside_below (iv : interval) (v : Q) : bool :=
  match iv_min iv with
  | None => false
  | Some a => if iv_mininc iv then negb (qleb a v) else negb (qltb a v)
  end.
Definition outside_above (iv : interval) (v : Q) : bool :=
  match iv_max iv with
  | None => false
  | Some b => if iv_maxinc iv then negb (qleb v b) else negb (qltb v b)
  end.
Definition is_equal (a b : Q) : bool := qleb (Qabs (a - b)) EPS10.
Definition is_zero (a : Q) : bool := qleb (Qabs a) EPS10.

Record anam := { an_flagBound : bool; an_az : interval; an_ay : interval; an_pz : interval; an_py : interval;
                 an_psi : list Q; an_sq : nat -> Q }.

(* hermiteCondExpElement(y, 0, psi) = sum_ih psi[ih] * In[ih], In = the Hermite recurrence at y *)
Fixpoint dotr (a b : list Q) (acc : Q) : Q :=
  match a, b with x :: a', y :: b' => dotr a' b' (Qred (acc + x * y)) | _, _ => acc end.
Definition expansion (psi : list Q) (sq : nat -> Q) (y : Q) : Q :=
  dotr psi (herm_gen sq sq y (length psi)) 0.

(* AnamHermite::transformToRawValue (y defined, at least one polynomial) *)
Definition clamp_lo (lo v : Q) : Q := if qltb v lo then lo else v.
Definition clamp_hi (hi v : Q) : Q := if qltb hi v then hi else v.
Definition t2r (A : anam) (y : Q) : Q :=
  if an_flagBound A then
    if outside_below (an_ay A) y then getVmin (an_az A)
    else if outside_above (an_ay A) y then getVmax (an_az A)
    else if outside_below (an_py A) y then
      if is_equal (getVmin (an_py A)) (getVmin (an_ay A)) then getVmin (an_pz A)
      else getVmin (an_az A) + (getVmin (an_pz A) - getVmin (an_az A)) * (y - getVmin (an_ay A))
                                / (getVmin (an_py A) - getVmin (an_ay A))
    else if outside_above (an_py A) y then
      if is_equal (getVmax (an_py A)) (getVmax (an_ay A)) then getVmax (an_pz A)
      else getVmax (an_az A) + (getVmax (an_pz A) - getVmax (an_az A)) * (y - getVmax (an_ay A))
                                / (getVmax (an_py A) - getVmax (an_ay A))
    else clamp_hi (getVmax (an_az A)) (clamp_lo (getVmin (an_az A)) (expansion (an_psi A) (an_sq A) y))
  else expansion (an_psi A) (an_sq A) y.

(* --- the inversion of rawToTransformValue for an arbitrary forward function [phi] --- *)
(* upward scan: for i in 0..100: y2 = y1 + dy; z2 = phi y2; if z2 > z break; y1 = y2; z1 = z2 *)
Fixpoint scan_up (phi : Q -> Q) (z : Q) (cnt : nat) (y1 z1 : Q) : Q * Q * Q * Q * bool :=
  match cnt with
  | O => (y1, y1, z1, z1, false)      (* loop exhausted; (y2, z2) not used afterwards *)
  | S c => let y2 := Qred (y1 + YPAS) in
           let z2 := phi y2 in
           if qltb z z2 then (y1, y2, z1, z2, true) else scan_up phi z c y2 z2
  end.
(* downward scan: y1 = y2 - dy; z1 = phi y1; if z1 < z break; y2 = y1; z2 = z1 *)
Fixpoint scan_down (phi : Q -> Q) (z : Q) (cnt : nat) (y2 z2 : Q) : Q * Q * Q * Q * bool :=
  match cnt with
  | O => (y2, y2, z2, z2, false)
  | S c => let y1 := Qred (y2 - YPAS) in
           let z1 := phi y1 in
           if qltb z1 z then (y1, y2, z1, z2, true) else scan_down phi z c y1 z1
  end.
(* bisection: while (iter < 1000000 && dz > dzmax && dy > dymax); [fuel] bounds the number of iterations.
   state = (y1, y2, z1, z2); [dy] is the loop variable of the code (1 on entry, y2 - y1 afterwards) *)
Fixpoint bisect (phi : Q -> Q) (z dzmax : Q) (fuel : nat) (dy y1 y2 z1 z2 : Q) : option (Q * Q * Q * Q) :=
  if qltb dzmax (z2 - z1) && qltb DYMAX dy then
    match fuel with
    | O => None
    | S f =>
        let yg := Qred ((y1 + y2) / 2) in
        let zg := phi yg in
        if qltb z zg then bisect phi z dzmax f (yg - y1) y1 yg z1 zg
        else bisect phi z dzmax f (y2 - yg) yg y2 zg z2
    end
  else Some (y1, y2, z1, z2).
Definition interpolate (z y1 y2 z1 z2 : Q) : Q :=
  let dz := z2 - z1 in
  if is_zero dz then (y1 + y2) / 2 else y1 + (z - z1) * (y2 - y1) / dz.

Definition BISECT_FUEL : nat := 200.
Definition bracket := (Q * Q * Q * Q)%type.            (* y1, y2, z1 = phi y1, z2 = phi y2 *)
(* after the scan: the out-of-range exits (ANAM_YMAX + 1 / ANAM_YMIN - 1), else bisection and linear interpolation.
   Result: Some (y, Some final-bracket) | Some (sentinel, None) | None = fuel exhausted (cannot happen, see Proofs) *)
Definition finish_up (phi : Q -> Q) (z dzmax : Q) (s : Q * Q * Q * Q * bool) : option (Q * option bracket) :=
  let '(y1, y2, z1, z2, _) := s in
  if qltb ANAM_YMAX y1 then Some (ANAM_YMAX + 1, None)
  else match bisect phi z dzmax BISECT_FUEL 1 y1 y2 z1 z2 with
       | Some (a, b, za, zb) => Some (interpolate z a b za zb, Some (a, b, za, zb))
       | None => None
       end.
Definition finish_down (phi : Q -> Q) (z dzmax : Q) (s : Q * Q * Q * Q * bool) : option (Q * option bracket) :=
  let '(y1, y2, z1, z2, _) := s in
  if qltb y1 ANAM_YMIN then Some (ANAM_YMIN - 1, None)
  else match bisect phi z dzmax BISECT_FUEL 1 y1 y2 z1 z2 with
       | Some (a, b, za, zb) => Some (interpolate z a b za zb, Some (a, b, za, zb))
       | None => None
       end.
Definition dzmax_of (phi : Q -> Q) : Q := Qabs ((phi 1 - phi (-(1))) / (100000 # 1)).
(* the part of rawToTransformValue after the bound checks and before the final clamp *)
Definition r2t_core (phi : Q -> Q) (z : Q) : option (Q * option bracket) :=
  let z0 := phi 0 in
  if qltb z0 z then finish_up phi z (dzmax_of phi) (scan_up phi z 101 0 z0)
  else finish_down phi z (dzmax_of phi) (scan_down phi z 101 0 z0).

(* AnamHermite::rawToTransformValue (z defined, at least one polynomial) *)
Definition r2t (A : anam) (z : Q) : option Q :=
  let core := fun _ : unit =>
    match r2t_core (t2r A) z with
    | Some (y, _) =>
        Some (if an_flagBound A then clamp_hi (getVmax (an_ay A)) (clamp_lo (getVmin (an_ay A)) y) else y)
    | None => None
    end in
  if an_flagBound A then
    if outside_below (an_az A) z then Some (getVmin (an_ay A))
    else if outside_above (an_az A) z then Some (getVmax (an_ay A))
    else if outside_below (an_pz A) z then
      if is_equal (getVmin (an_pz A)) (getVmin (an_az A)) then Some (getVmin (an_py A))
      else Some (getVmin (an_ay A) + (getVmin (an_py A) - getVmin (an_ay A)) * (z - getVmin (an_az A))
                                     / (getVmin (an_pz A) - getVmin (an_az A)))
    else if outside_above (an_pz A) z then
      if is_equal (getVmax (an_pz A)) (getVmax (an_az A)) then Some (getVmax (an_py A))
      else Some (getVmax (an_ay A) + (getVmax (an_py A) - getVmax (an_ay A)) * (z - getVmax (an_az A))
                                     / (getVmax (an_pz A) - getVmax (an_az A)))
    else core tt
  else core tt.

(* ------------------------------------------------------------------ normal score *)
(* VH::orderRanks: stable sort of the indices by value (undefined = TEST, hence last).
   Entries: (index, value-or-None, weight). Insertion keeps the order of equal keys. *)
Definition nsentry := (nat * option Q * Q)%type.
Definition nskey (e : nsentry) : Q := match snd (fst e) with Some q => q | None => TESTQ end.
Fixpoint ns_insert (e : nsentry) (l : list nsentry) : list nsentry :=
  match l with
  | [] => [e]
  | x :: r => if qltb (nskey e) (nskey x) then e :: l else x :: ns_insert e r
  end.
(* stable: an element is inserted after the elements already present with an equal key *)
Definition ns_sort (l : list nsentry) : list nsentry := fold_left (fun acc e => ns_insert e acc) l [].
(* the accumulation loop: wpartial += w ; vec[j] = G(wpartial / wtotal) ; undefined -> undefined *)
Fixpoint ns_cum (wtotal acc : Q) (l : list nsentry) : list (nat * option Q * option Q) :=
  match l with
  | [] => []
  | (j, Some v, w) :: r => let acc' := Qred (acc + w) in
                           (j, Some v, Some (Qred (acc' / wtotal))) :: ns_cum wtotal acc' r
  | (j, None, _) :: r => (j, None, None) :: ns_cum wtotal acc r
  end.
Fixpoint ns_entries (i : nat) (data : list (option Q)) (wt : list Q) : list nsentry :=
  match data with
  | [] => []
  | d :: r => (i, d, match wt with [] => 1 | w :: _ => w end) :: ns_entries (S i) r (tl wt)
  end.
(* (index, value, probability) in sorted order.  None = the error exits (no sample, negative weight, total <= 0) *)
Definition ns_probs (data : list (option Q)) (wt : list Q) : option (list (nat * option Q * option Q)) :=
  let es := ns_entries 0 data wt in
  let defd := filter (fun e => match snd (fst e) with Some _ => true | None => false end) es in
  if existsb (fun e => qltb (snd e) 0) defd then None
  else
    let wtotal := lsumr (map snd defd) in
    let nech := natQ (length defd) in
    if qleb wtotal 0 then None
    else Some (ns_cum (Qred (wtotal * ((1 + nech) / nech))) 0 (ns_sort es)).
Definition ns_lookup (res : list (nat * option Q * option Q)) (i : nat) : option Q :=
  match find (fun p => Nat.eqb (fst (fst p)) i) res with Some (_, _, o) => o | None => None end.

(* ------------------------------------------------------------------ AnamEmpirical *)
(* first index with x <= T[idisc] (from below), last index with x >= T[idisc] (from above) *)
Fixpoint first_ge (x : Q) (T U : list Q) : option (Q * Q) :=
  match T, U with
  | t :: T', u :: U' => if qltb t x then first_ge x T' U' else Some (t, u)
  | _, _ => None
  end.
(* the descending loop "for (idisc = n-1; idisc >= 0 && !found; idisc--) if (x < T[idisc]) continue; ..." selects the
   LAST index with T[idisc] <= x; written as a recursion on the table so that it can be reasoned about by induction *)
Fixpoint last_le (x : Q) (T U : list Q) : option (Q * Q) :=
  match T, U with
  | t :: T', u :: U' =>
      match last_le x T' U' with
      | Some p => Some p
      | None => if qltb x t then None else Some (t, u)
      end
  | _, _ => None
  end.
(* shared shape of rawToTransformValue (T = ZDisc, U = YDisc) and transformToRawValue (T = YDisc, U = ZDisc) *)
Definition emp_interp (T U : list Q) (x0 : Q) : Q :=
  let x1 := match T with t0 :: _ => if qltb x0 t0 then t0 else x0 | [] => x0 end in
  let x := if qltb (last T x1) x1 then last T x1 else x1 in
  let '(tb, ub) := match first_ge x T U with Some p => p | None => (x, x) end in
  let '(ta, ua) := match last_le x T U with Some p => p | None => (x, x) end in
  if qleb tb ta then ua else ((tb - x) * ua + (x - ta) * ub) / (tb - ta).

(* ------------------------------------------------------------------ Rotation *)
Definition rotate_direct (n : nat) (flagRot : bool) (rotMat : mat) (v : list Q) : list Q :=
  if flagRot then prod_mat_vec n rotMat v false else v.
Definition rotate_inverse (n : nat) (flagRot : bool) (rotInv : mat) (v : list Q) : list Q :=
  if flagRot then prod_mat_vec n rotInv v false else v.

(* ------------------------------------------------------------------ AnamHermite::_defineBounds *)
(* /repo/src/Anamorphosis/AnamHermite.cpp:415 (object freshly constructed: the four intervals undefined, so azmin = pzmin ...),
   with the fallback "absolute bound := practical bound when the absolute one was not met on the grid".
   [phi] = the raw expansion (flagBound switched off during the calculation). *)
Fixpoint grid_up (cnt : nat) (y : Q) : list Q :=
  match cnt with O => [] | S c => let y' := Qred (y + YPAS) in y' :: grid_up c y' end.
Fixpoint grid_dn (cnt : nat) (y : Q) : list Q :=
  match cnt with O => [] | S c => let y' := Qred (y - YPAS) in y' :: grid_dn c y' end.
(* ym[0..200] ascending (ym[100] = 0), with zm = phi ym *)
Definition bounds_grid (phi : Q -> Q) : list (Q * Q) :=
  map (fun y => (y, phi y)) (rev (grid_dn 100 0) ++ 0 :: grid_up 100 0).

(* descending loop "for (ind = ind0; ind > 0; ind--)" on the list (ym[ind0], zm[ind0]) :: ... :: (ym[0], zm[0]);
   [above] = zm[ind+1]; result: (az.min if met, first turning point (py.min, pz.min) if any) *)
Fixpoint lo_scan (azmin above : Q) (l : list (Q * Q)) (p : option (Q * Q)) : option Q * option (Q * Q) :=
  match l with
  | (y, z) :: (((_, z') :: _) as tl) =>
      if qltb z azmin then (Some above, p)
      else lo_scan azmin z tl (match p with None => if qltb z z' then Some (y, z) else None | Some _ => p end)
  | _ => (None, p)
  end.
(* ascending loop "for (ind = ind0; ind < npas-1; ind++)" on (ym[ind0], zm[ind0]) :: ... :: (ym[200], zm[200]) *)
Fixpoint hi_scan (azmax : Q) (l : list (Q * Q)) (p : option (Q * Q)) : option Q * option (Q * Q) :=
  match l with
  | (y, z) :: (((_, z') :: _) as tl) =>
      if qltb azmax z then (Some z, p)
      else hi_scan azmax tl (match p with None => if qltb z' z then Some (y, z) else None | Some _ => p end)
  | _ => (None, p)
  end.
(* starting index: first ym > pymin, then first zm > (pzmin + pzmax) / 2, else npas / 2 *)
Fixpoint skip_while {A} (f : A -> bool) (l : list A) (i : nat) : nat :=
  match l with [] => i | x :: r => if f x then skip_while f r (S i) else i end.
Definition start_index (G : list (Q * Q)) (pymin mid : Q) : nat :=
  let i1 := skip_while (fun p : Q * Q => negb (qltb pymin (fst p))) G 0 in
  let i2 := skip_while (fun p : Q * Q => negb (qltb mid (snd p))) (skipn i1 G) i1 in
  if Nat.leb (length G) i2 then 100%nat else i2.

Record bounds := { b_azmin : Q; b_azmax : Q; b_aymin : Q; b_aymax : Q; b_pzmin : Q; b_pzmax : Q; b_pymin : Q; b_pymax : Q;
                   b_lo : option Q * option (Q * Q); b_hi : option Q * option (Q * Q); b_start : Q }.
Definition inv_or0 (phi : Q -> Q) (z : Q) : Q := match r2t_core phi z with Some (y, _) => y | None => 0 end.
Definition define_bounds (phi : Q -> Q) (pymin pzmin pymax pzmax : Q) : bounds :=
  let G := bounds_grid phi in
  let ind0 := start_index G pymin ((pzmin + pzmax) / 2) in
  let above := snd (nth (S ind0) G (0, 0)) in
  let lo := lo_scan pzmin above (rev (firstn (S ind0) G)) None in
  let hi := hi_scan pzmax (skipn ind0 G) None in
  let '(aymin, azmin) :=
    match lo with
    | (Some v, _) => (inv_or0 phi v, v)
    | (None, Some (py, pz)) => (py, pz)                       (* fallback of the fix *)
    | (None, None) => (ANAM_YMIN, phi ANAM_YMIN)
    end in
  let '(pymin', pzmin') :=
    match snd lo with
    | Some q => q
    | None => let y := if qltb aymin ANAM_YMIN then ANAM_YMIN else aymin in (y, phi y)
    end in
  let '(aymax, azmax) :=
    match hi with
    | (Some v, _) => (inv_or0 phi v, v)
    | (None, Some (py, pz)) => (py, pz)
    | (None, None) => (ANAM_YMAX, phi ANAM_YMAX)
    end in
  let '(pymax', pzmax') :=
    match snd hi with
    | Some q => q
    | None => let y := if qltb ANAM_YMAX aymax then ANAM_YMAX else aymax in (y, phi y)
    end in
  {| b_azmin := azmin; b_azmax := azmax; b_aymin := aymin; b_aymax := aymax;
     b_pzmin := pzmin'; b_pzmax := pzmax'; b_pymin := pymin'; b_pymax := pymax';
     b_lo := lo; b_hi := hi; b_start := snd (nth ind0 G (0, 0)) |}.

(* ------------------------------------------------------------------ AnamHermite::fitFromArray (no weights) *)
(* /repo/src/Anamorphosis/AnamHermite.cpp:313 and _data_sort:559.  Oracles: ys (Gaussian quantiles of the cumulated frequencies),
   Gc = law_cdf_gaussian(ys), g = law_df_gaussian(ys), the square roots. *)
Definition EPS5 : Q := 5902958103587057 # 590295810358705651712.      (* EPSILON5 *)
Fixpoint q_insert (x : Q) (l : list Q) : list Q :=
  match l with [] => [x] | y :: r => if qltb x y then x :: l else y :: q_insert x r end.
Definition q_sort (l : list Q) : list Q := fold_right q_insert [] l.
(* groups of equal values of a sorted list, with their counts *)
Fixpoint rle (l : list Q) : list (Q * nat) :=
  match l with
  | [] => []
  | x :: r => match rle r with
              | (y, c) :: g => if qeqb x y then (y, S c) :: g else (x, 1%nat) :: (y, c) :: g
              | [] => [(x, 1%nat)]
              end
  end.
Definition defined_values (data : list (option Q)) : list Q :=
  flat_map (fun o => match o with Some q => [q] | None => [] end) data.
(* class values zs[0..m+1] = v1 - eps, v1 .. vm, vm + eps  with eps = EPSILON5 * (vm - v1) *)
Definition fit_zs (vals : list Q) : list Q :=
  match vals with
  | [] => []
  | v1 :: _ => let vm := last vals v1 in let eps := EPS5 * (vm - v1) in (v1 - eps) :: vals ++ [vm + eps]
  end.
(* cumulated frequencies F_1 .. F_{m-1} (the last group is closed by the upper bound, not by a frequency) *)
Fixpoint cum_freqs (counts : list nat) (acc n : Q) : list Q :=
  match counts with
  | [] | [_] => []
  | c :: r => let acc' := acc + natQ c in Qred (acc' / n) :: cum_freqs r acc' n
  end.
(* psi_0 = sum_icl zs[icl] * (Gc[icl] - Gc[icl-1]),  Gc[-1] = 0 *)
Fixpoint abel_sum (zs a : list Q) (prev : Q) : Q :=
  match zs, a with
  | z :: zs', x :: a' => Qred (z * (x - prev) + abel_sum zs' a' x)
  | _, _ => 0
  end.
(* psi_n = sum_icl zs[icl] * (H_{n-1}(ys[icl]) g[icl] - H_{n-1}(ys[icl-1]) g[icl-1]) / sqrt(n), with g[-1] = 0 *)
Definition fit_psi (sq : nat -> Q) (nbpoly : nat) (zs ys Gc g : list Q) : list Q :=
  let H := map (fun y => herm_gen sq sq y nbpoly) ys in        (* H[icl][n] *)
  abel_sum zs Gc 0 ::
  map (fun n => Qred (abel_sum zs (map (fun p => nth (n - 1) (fst p) 0 * snd p) (combine H g)) 0 / sq n)) (seq 1 (nbpoly - 1)).

(* ------------------------------------------------------------------ PCA::_variogramh (interval mode, MAF) *)
(* /repo/src/Stats/PCA.cpp:712.  Pairs (iech, jech), jech < iech, both isotopic, hmin <= |x_i - x_j| <= hmax (decided on squares,
   hmin, hmax >= 0):  gh(a,b) = sum over the pairs of (z_i[a] - z_j[a]) (z_i[b] - z_j[b]) / 2, divided by the number of pairs *)
Definition dist2 (a b : list Q) : Q := fold_left (fun acc p => Qred (acc + (fst p - snd p) * (fst p - snd p))) (combine a b) 0.
Definition pair_kept (hmin hmax : Q) (xa xb : list Q) : bool :=
  let d2 := dist2 xa xb in negb (qltb d2 (hmin * hmin)) && negb (qltb (hmax * hmax) d2).
(* differences z_i - z_j of the retained pairs; a point = (isotopic, coordinates, values) *)
Fixpoint pair_diffs (hmin hmax : Q) (n : nat) (pts : list (bool * list Q * list Q)) : list (list Q) :=
  match pts with
  | [] => []
  | (iso, x, z) :: r =>
      (if iso then
         flat_map (fun q => match q with (iso', x', z') =>
                     if iso' && pair_kept hmin hmax x x' then [vk n (fun a => vget z a - vget z' a)] else [] end) r
       else []) ++ pair_diffs hmin hmax n r
  end.
Definition variogramh (n : nat) (D : list (list Q)) : mat :=
  let np := natQ (length D) in
  mk n n (fun a b => let s := lsumr (map (fun d => vget d a * vget d b / 2) D) in
                     if Nat.eqb (length D) 0 then s else Qred (s / np)).

(* ------------------------------------------------------------------ rotation matrices from (cos, sin) pairs *)
(* GH::rotation2DMatrixInPlace / rotation3DMatrixInPlace (GeometryHelper.cpp:132 / 157), read column-major by setValues *)
Definition rot2d (c s : Q) : mat := [[c; - s]; [s; c]].
Definition rot3d (c0 s0 c1 s1 c2 s2 : Q) : mat :=
  [[c0 * c1; - s0 * c2 + c0 * s1 * s2;  s0 * s2 + c0 * s1 * c2];
   [s0 * c1;   c0 * c2 + s0 * s1 * s2; - c0 * s2 + s0 * s1 * c2];
   [- s1;      c1 * s2;                  c1 * c2]].

(* ------------------------------------------------------------------ Hermite factors selected by ranks *)
(* hermitePolynomials(y, r, ifacs) (Hermite.cpp:174): the recurrence is run up to the highest listed rank, then vec[k] = poly[ifacs[k]] *)
Definition hermite_by_ranks (a b : nat -> Q) (y r : Q) (ifacs : list nat) : list Q :=
  let poly := hermite_polynomials a b y r (S (fold_right Nat.max O ifacs)) in
  map (fun k => nth k poly 0) ifacs.

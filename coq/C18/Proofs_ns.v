(* C18 proofs, part 4: the rank part of VH::normalScore is order preserving.
   The sort is stable: entries are ordered by (value, position) lexicographically; the cumulated weight is
   non-decreasing along that order when the weights are non-negative (negative weights are rejected by the code). *)
From Coq Require Import List Arith ZArith QArith Qabs Bool Lqa Lia Sorted Setoid Morphisms.
From Gst Require Import lib.QAux C18.Model.
Import ListNotations.
Local Open Scope Q_scope.

Definition nsidx (e : nsentry) : nat := fst (fst e).
(* the order realised by the stable sort *)
Definition nslt (x y : nsentry) : Prop :=
  nskey x < nskey y \/ (nskey x == nskey y /\ (nsidx x < nsidx y)%nat).

Lemma nslt_key x y : nslt x y -> nskey x <= nskey y.
Proof. intros [H|[H _]]; lra. Qed.
Lemma nslt_asym x y : nslt x y -> nslt y x -> False.
Proof. intros [H|[H H']] [G|[G G']]; try lra; lia. Qed.

Lemma Forall_ns_insert (P : nsentry -> Prop) e l : P e -> Forall P l -> Forall P (ns_insert e l).
Proof.
  intros He Hl. induction l as [|x r IH]; cbn [ns_insert]; [constructor; [exact He|constructor]|].
  inversion Hl as [|? ? Hx Hr]; subst.
  destruct (qltb (nskey e) (nskey x)); constructor; try assumption. apply IH; exact Hr.
Qed.

Lemma ns_insert_sorted e l :
  StronglySorted nslt l -> Forall (fun x => (nsidx x < nsidx e)%nat) l -> StronglySorted nslt (ns_insert e l).
Proof.
  intros Hs Hi. induction l as [|x r IH]; cbn [ns_insert]; [constructor; constructor|].
  inversion Hs as [|? ? Hsr Hxr]; subst. inversion Hi as [|? ? Hix Hir]; subst.
  destruct (qltb_spec (nskey e) (nskey x)) as [D|D].
  - constructor; [exact Hs|]. constructor; [left; exact D|].
    rewrite Forall_forall in Hxr |- *. intros y Hy. left. pose proof (nslt_key x y (Hxr y Hy)). lra.
  - constructor; [apply IH; assumption|].
    apply Forall_ns_insert; [|exact Hxr].
    destruct (Qlt_le_dec (nskey x) (nskey e)) as [L|L]; [left; exact L|right; split; [lra|exact Hix]].
Qed.

Lemma In_ns_insert x e l : In x (ns_insert e l) <-> x = e \/ In x l.
Proof.
  induction l as [|y r IH]; cbn [ns_insert In]; [intuition|].
  destruct (qltb (nskey e) (nskey y)); cbn [In]; [intuition|]. rewrite IH. intuition.
Qed.

Lemma ns_sort_gen : forall data wt k acc,
  StronglySorted nslt acc -> Forall (fun x => (nsidx x < k)%nat) acc ->
  StronglySorted nslt (fold_left (fun a e => ns_insert e a) (ns_entries k data wt) acc).
Proof.
  induction data as [|d r IH]; intros wt k acc Hs Hi; cbn [ns_entries fold_left]; [exact Hs|].
  apply IH.
  - apply ns_insert_sorted; [exact Hs|exact Hi].
  - apply Forall_ns_insert; [cbn; lia|]. apply Forall_impl with (2 := Hi). intros a Ha. lia.
Qed.
Lemma ns_sort_sorted data wt : StronglySorted nslt (ns_sort (ns_entries 0 data wt)).
Proof. unfold ns_sort. apply ns_sort_gen; constructor. Qed.

Lemma ns_sort_in_gen x : forall l acc, In x (fold_left (fun a e => ns_insert e a) l acc) <-> In x l \/ In x acc.
Proof.
  induction l as [|e r IH]; intro acc; cbn [fold_left In]; [intuition|].
  rewrite IH, In_ns_insert. intuition.
Qed.
Lemma ns_sort_in x l : In x (ns_sort l) <-> In x l.
Proof. unfold ns_sort. rewrite ns_sort_in_gen. cbn [In]. intuition. Qed.

(* the entries are the data with their positions *)
Lemma ns_entries_spec : forall data wt k i d w,
  In (i, d, w) (ns_entries k data wt) -> (k <= i)%nat /\ nth_error data (i - k) = Some d.
Proof.
  induction data as [|d0 r IH]; intros wt k i d w H; cbn [ns_entries In] in H; [contradiction|].
  destruct H as [H|H].
  - injection H as <- <- _. split; [lia|]. rewrite Nat.sub_diag. reflexivity.
  - apply IH in H. destruct H as [H1 H2]. split; [lia|].
    replace (i - k)%nat with (S (i - S k)) by lia. exact H2.
Qed.

(* ---------------------------------------------------------------- the accumulation loop *)
(* only the weights of defined samples matter *)
Definition wnn (e : nsentry) : Prop := match e with (_, Some _, w) => 0 <= w | (_, None, _) => True end.
Definition wpos (e : nsentry) : Prop := match e with (_, Some _, w) => 0 < w | (_, None, _) => True end.
Lemma ns_cum_in wt : forall l acc i v p,
  In (i, Some v, Some p) (ns_cum wt acc l) -> exists w, In (i, Some v, w) l.
Proof.
  induction l as [|[[j [u|]] w] r IH]; intros acc i v p H; cbn [ns_cum In] in H; [contradiction| |].
  - destruct H as [H|H]; [injection H as <- <- _; exists w; left; reflexivity|].
    destruct (IH _ _ _ _ H) as [w' Hw]. exists w'. right. exact Hw.
  - destruct H as [H|H]; [discriminate|].
    destruct (IH _ _ _ _ H) as [w' Hw]. exists w'. right. exact Hw.
Qed.

Lemma div_le_compat a b c : 0 < c -> a <= b -> a / c <= b / c.
Proof.
  intros Hc H. unfold Qdiv. apply Qmult_le_compat_r; [exact H|]. apply Qlt_le_weak. apply Qinv_lt_0_compat. exact Hc.
Qed.
Lemma div_lt_compat a b c : 0 < c -> a < b -> a / c < b / c.
Proof.
  intros Hc H. unfold Qdiv. apply Qmult_lt_compat_r; [apply Qinv_lt_0_compat; exact Hc|exact H].
Qed.

Lemma ns_cum_ge wt : 0 < wt -> forall l acc i v p,
  Forall wnn l ->
  In (i, Some v, Some p) (ns_cum wt acc l) -> acc / wt <= p.
Proof.
  intro Hw. induction l as [|[[j [u|]] w] r IH]; intros acc i v p Hp H; cbn [ns_cum In] in H; [contradiction| |];
    inversion Hp as [|? ? Hp0 Hpr]; subst; cbn [wnn wpos] in Hp0.
  - destruct H as [H|H].
    + assert (E : p = Qred (Qred (acc + w) / wt)) by congruence. rewrite E, !Qred_correct. apply div_le_compat; [exact Hw|lra].
    + apply IH in H; [|exact Hpr]. rewrite Qred_correct in H.
      assert (acc / wt <= (acc + w) / wt) by (apply div_le_compat; [exact Hw|lra]). lra.
  - destruct H as [H|H]; [discriminate|]. apply IH in H; assumption.
Qed.

(* order preservation along the sorted list *)
Lemma ns_cum_mono wt : 0 < wt -> forall l acc,
  StronglySorted nslt l -> Forall wnn l ->
  forall i v p i' v' p',
    In (i, Some v, Some p) (ns_cum wt acc l) -> In (i', Some v', Some p') (ns_cum wt acc l) ->
    (v < v' \/ (v == v' /\ (i < i')%nat)) -> p <= p'.
Proof.
  intro Hw. induction l as [|[[j [u|]] w] r IH]; intros acc Hs Hp i v p i' v' p' H H' Hlt;
    cbn [ns_cum In] in H, H'; [contradiction| |];
    inversion Hs as [|? ? Hsr Hxr]; subst; inversion Hp as [|? ? Hp0 Hpr]; subst; cbn [wnn wpos] in Hp0.
  - destruct H as [H|H]; destruct H' as [H'|H'].
    + assert (E : p = p') by congruence. rewrite E. apply Qle_refl.
    + assert (E : p = Qred (Qred (acc + w) / wt)) by congruence. rewrite E, Qred_correct.
      apply (ns_cum_ge wt Hw) in H'; [|exact Hpr]. exact H'.
    + (* the later entry cannot precede the head in the sort order *)
      exfalso. assert (E1 : i' = j) by congruence. assert (E2 : v' = u) by congruence. subst i' v'.
      destruct (ns_cum_in _ _ _ _ _ _ H) as [w0 Hin].
      rewrite Forall_forall in Hxr. specialize (Hxr _ Hin).
      apply (nslt_asym _ _ Hxr). exact Hlt.
    + apply (IH _ Hsr Hpr i v p i' v' p' H H' Hlt).
  - destruct H as [H|H]; [discriminate|]. destruct H' as [H'|H']; [discriminate|].
    apply (IH _ Hsr Hpr i v p i' v' p' H H' Hlt).
Qed.

(* strict version: positive weights *)
Lemma ns_cum_gt wt : 0 < wt -> forall l acc i v p,
  Forall wpos l ->
  In (i, Some v, Some p) (ns_cum wt acc l) -> acc / wt < p.
Proof.
  intro Hw. induction l as [|[[j [u|]] w] r IH]; intros acc i v p Hp H; cbn [ns_cum In] in H; [contradiction| |];
    inversion Hp as [|? ? Hp0 Hpr]; subst; cbn [wnn wpos] in Hp0.
  - destruct H as [H|H].
    + assert (E : p = Qred (Qred (acc + w) / wt)) by congruence. rewrite E, !Qred_correct. apply div_lt_compat; [exact Hw|lra].
    + apply IH in H; [|exact Hpr]. rewrite Qred_correct in H.
      assert (acc / wt < (acc + w) / wt) by (apply div_lt_compat; [exact Hw|lra]). lra.
  - destruct H as [H|H]; [discriminate|]. apply IH in H; assumption.
Qed.
Lemma ns_cum_strict wt : 0 < wt -> forall l acc,
  StronglySorted nslt l -> Forall wpos l ->
  forall i v p i' v' p',
    In (i, Some v, Some p) (ns_cum wt acc l) -> In (i', Some v', Some p') (ns_cum wt acc l) ->
    (v < v' \/ (v == v' /\ (i < i')%nat)) -> p < p'.
Proof.
  intro Hw. induction l as [|[[j [u|]] w] r IH]; intros acc Hs Hp i v p i' v' p' H H' Hlt;
    cbn [ns_cum In] in H, H'; [contradiction| |];
    inversion Hs as [|? ? Hsr Hxr]; subst; inversion Hp as [|? ? Hp0 Hpr]; subst; cbn [wnn wpos] in Hp0.
  - destruct H as [H|H]; destruct H' as [H'|H'].
    + exfalso. assert (i = i') by congruence. assert (v = v') by congruence. subst. destruct Hlt as [L|[_ L]]; [lra|lia].
    + assert (E : p = Qred (Qred (acc + w) / wt)) by congruence. rewrite E, Qred_correct.
      apply (ns_cum_gt wt Hw) in H'; [|exact Hpr]. exact H'.
    + exfalso. assert (E1 : i' = j) by congruence. assert (E2 : v' = u) by congruence. subst i' v'.
      destruct (ns_cum_in _ _ _ _ _ _ H) as [w0 Hin].
      rewrite Forall_forall in Hxr. specialize (Hxr _ Hin).
      apply (nslt_asym _ _ Hxr). exact Hlt.
    + apply (IH _ Hsr Hpr i v p i' v' p' H H' Hlt).
  - destruct H as [H|H]; [discriminate|]. destruct H' as [H'|H']; [discriminate|].
    apply (IH _ Hsr Hpr i v p i' v' p' H H' Hlt).
Qed.

(* ---------------------------------------------------------------- the whole function *)
Lemma Some_inj {A} (a b : A) : Some a = Some b -> a = b.
Proof. congruence. Qed.
Lemma ns_probs_weights data wt res :
  ns_probs data wt = Some res ->
  exists wtot, 0 < wtot /\ res = ns_cum wtot 0 (ns_sort (ns_entries 0 data wt)) /\
    Forall wnn (ns_entries 0 data wt).
Proof.
  unfold ns_probs. cbv zeta. set (es := ns_entries 0 data wt).
  match goal with |- context [filter ?f es] => set (defd := filter f es) end.
  match goal with |- context [existsb ?f defd] => destruct (existsb f defd) eqn:Neg end; [intro X; discriminate X|].
  destruct (qleb_spec (lsumr (map snd defd)) 0) as [Z|Z]; [intro X; discriminate X|].
  intro H. apply Some_inj in H. subst res.
  assert (Hn : 0 < natQ (length defd)).
  { destruct defd as [|e r] eqn:E; [exfalso; apply Z; cbn; lra|]. cbn [length]. unfold natQ.
    replace 0 with (inject_Z 0) by reflexivity. rewrite <- Zlt_Qlt. lia. }
  eexists. split; [|split; [reflexivity|]].
  - rewrite Qred_correct.
    assert (0 < (1 + natQ (length defd)) / natQ (length defd)).
    { apply Qlt_shift_div_l; [exact Hn|lra]. }
    nra.
  - apply Forall_forall. intros [[j [v|]] w] He; cbn [wnn]; [|exact I].
    destruct (Qlt_le_dec w 0) as [L|L]; [|exact L]. exfalso.
    assert (In (j, Some v, w) defd) by (unfold defd; apply filter_In; split; [exact He|reflexivity]).
    assert (existsb (fun e : nat * option Q * Q => qltb (snd e) 0) defd = true).
    { apply existsb_exists. exists (j, Some v, w). split; [assumption|]. apply qltb_true. exact L. }
    congruence.
Qed.

Lemma Forall_ns_sort (P : nsentry -> Prop) l : Forall P l -> Forall P (ns_sort l).
Proof. rewrite !Forall_forall. intros H x Hx. apply H. apply ns_sort_in. exact Hx. Qed.

(* order preservation of the probabilities: smaller value, or equal value and earlier position *)
Theorem ns_probs_monotone data wt res i v p i' v' p' :
  ns_probs data wt = Some res ->
  In (i, Some v, Some p) res -> In (i', Some v', Some p') res ->
  (v < v' \/ (v == v' /\ (i < i')%nat)) -> p <= p'.
Proof.
  intros H Hi Hi' Hlt. destruct (ns_probs_weights data wt res H) as (wtot & Hw & -> & Hnn).
  apply (ns_cum_mono wtot Hw (ns_sort (ns_entries 0 data wt)) 0 (ns_sort_sorted data wt) (Forall_ns_sort _ _ Hnn)
           i v p i' v' p' Hi Hi' Hlt).
Qed.

Lemma ns_entries_unit : forall data k, Forall wpos (ns_entries k data []).
Proof.
  induction data as [|d r IH]; intro k; cbn [ns_entries tl]; constructor; [|apply IH].
  destruct d; cbn [wpos]; [reflexivity|exact I].
Qed.

(* without weights the probabilities are strictly ordered: distinct samples never share a score *)
Theorem ns_probs_strict data res i v p i' v' p' :
  ns_probs data [] = Some res ->
  In (i, Some v, Some p) res -> In (i', Some v', Some p') res ->
  (v < v' \/ (v == v' /\ (i < i')%nat)) -> p < p'.
Proof.
  intros H Hi Hi' Hlt. destruct (ns_probs_weights data [] res H) as (wtot & Hw & -> & _).
  apply (ns_cum_strict wtot Hw (ns_sort (ns_entries 0 data [])) 0 (ns_sort_sorted data []) (Forall_ns_sort _ _ (ns_entries_unit data 0))
           i v p i' v' p' Hi Hi' Hlt).
Qed.

(* undefined in, undefined out; and the listed values are the data *)
Lemma ns_cum_na wt : forall l acc i o, In (i, None, o) (ns_cum wt acc l) -> o = None.
Proof.
  induction l as [|[[j [u|]] w] r IH]; intros acc i o H; cbn [ns_cum In] in H; [contradiction| |].
  - destruct H as [H|H]; [discriminate|]. apply (IH _ _ _ H).
  - destruct H as [H|H]; [congruence|]. apply (IH _ _ _ H).
Qed.
Lemma ns_cum_entry wt : forall l acc i d o, In (i, d, o) (ns_cum wt acc l) -> exists w, In (i, d, w) l.
Proof.
  induction l as [|[[j [u|]] w] r IH]; intros acc i d o H; cbn [ns_cum In] in H; [contradiction| |].
  - destruct H as [H|H].
    + exists w. left. congruence.
    + destruct (IH _ _ _ _ H) as [w' Hw]. exists w'. right. exact Hw.
  - destruct H as [H|H].
    + exists w. left. congruence.
    + destruct (IH _ _ _ _ H) as [w' Hw]. exists w'. right. exact Hw.
Qed.
Theorem ns_probs_values data wt res i d o :
  ns_probs data wt = Some res -> In (i, d, o) res -> nth_error data i = Some d /\ (d = None -> o = None).
Proof.
  intros H Hi. destruct (ns_probs_weights data wt res H) as (wtot & Hw & -> & _).
  split.
  - destruct (ns_cum_entry _ _ _ _ _ _ Hi) as [w Hin]. apply (proj1 (ns_sort_in _ _)) in Hin.
    apply ns_entries_spec in Hin. destruct Hin as [_ Hn]. rewrite Nat.sub_0_r in Hn. exact Hn.
  - intros ->. apply (ns_cum_na _ _ _ _ _ Hi).
Qed.

(* composing with a non-decreasing quantile function gives order preserving scores *)
Section Score.
Variable G : Q -> Q.
Hypothesis G_mono : forall a b, a <= b -> G a <= G b.
Theorem normalscore_monotone data wt res i v p i' v' p' :
  ns_probs data wt = Some res ->
  In (i, Some v, Some p) res -> In (i', Some v', Some p') res ->
  (v < v' \/ (v == v' /\ (i < i')%nat)) -> G p <= G p'.
Proof. intros. apply G_mono. eapply ns_probs_monotone; eassumption. Qed.
End Score.

(* C18 proofs, part 8: the Hermite coefficients fitted by AnamHermite::fitFromArray.
   psi_0 is the mean of the data up to the two artificial end classes (a term eps * (1 - G(y_top) - G(y_bottom)), eps = 1e-5 * range);
   psi_n sqrt(n) has the summation-by-parts form  z_last H g(y_last) - sum (z_{i+1} - z_i) H_{n-1}(y_i) g(y_i). *)
From Coq Require Import List Arith ZArith QArith Qabs Bool Lqa Lia Setoid Morphisms.
From Gst Require Import lib.QAux C18.Model C18.Proofs_hermite.
Import ListNotations.
Local Open Scope Q_scope.

Fixpoint qsum (l : list Q) : Q := match l with [] => 0 | x :: r => x + qsum r end.
Fixpoint wsum (g : list (Q * nat)) : Q := match g with [] => 0 | (v, c) :: r => v * natQ c + wsum r end.
Fixpoint csum (g : list (Q * nat)) : nat := match g with [] => O | (_, c) :: r => (c + csum r)%nat end.

Lemma qsum_insert x l : qsum (q_insert x l) == x + qsum l.
Proof.
  induction l as [|y r IH]; cbn [q_insert qsum]; [reflexivity|].
  destruct (qltb x y); cbn [qsum]; [reflexivity|]. rewrite IH. ring.
Qed.
Lemma qsum_sort l : qsum (q_sort l) == qsum l.
Proof. induction l as [|x r IH]; cbn [q_sort fold_right qsum]; [reflexivity|]. fold (q_sort r). rewrite qsum_insert, IH. reflexivity. Qed.
Lemma length_insert x l : length (q_insert x l) = S (length l).
Proof. induction l as [|y r IH]; cbn [q_insert length]; [reflexivity|]. destruct (qltb x y); cbn [length]; [reflexivity|]. rewrite IH. reflexivity. Qed.
Lemma length_sort l : length (q_sort l) = length l.
Proof. induction l as [|x r IH]; cbn [q_sort fold_right length]; [reflexivity|]. fold (q_sort r). rewrite length_insert, IH. reflexivity. Qed.

(* grouping keeps the weighted sum and the number of values *)
Lemma rle_sums l : wsum (rle l) == qsum l /\ csum (rle l) = length l.
Proof.
  induction l as [|x r [IH1 IH2]]; cbn [rle qsum length]; [split; reflexivity|].
  destruct (rle r) as [|[y c] g] eqn:E.
  - cbn [wsum csum] in *. split; [rewrite <- IH1; unfold natQ; cbn; ring|lia].
  - destruct (qeqb_spec x y) as [D|D]; cbn [wsum csum] in *.
    + split; [rewrite <- IH1, natQ_S, D; ring|lia].
    + split; [rewrite <- IH1; unfold natQ at 1; cbn; ring|lia].
Qed.

(* ---------------------------------------------------------------- the sum  sum_i z_i (a_i - a_{i-1}) *)
Lemma abel_sum_prev z zs x a p : abel_sum (z :: zs) (x :: a) p == abel_sum (z :: zs) (x :: a) 0 - z * p.
Proof. cbn [abel_sum]. rewrite !Qred_correct. ring. Qed.

Lemma abel_sum_proper zs : forall a a' p p', Forall2 Qeq a a' -> p == p' -> abel_sum zs a p == abel_sum zs a' p'.
Proof.
  induction zs as [|z zs IH]; intros a a' p p' H Hp; [reflexivity|].
  destruct H as [|x x' a a' Hx Ha]; cbn [abel_sum]; [reflexivity|].
  rewrite !Qred_correct, (IH a a' x x' Ha Hx), Hx, Hp. reflexivity.
Qed.

Lemma Forall2_refl_Q (l : list Q) : Forall2 Qeq l l.
Proof. induction l; constructor; [reflexivity|assumption]. Qed.

Lemma abel_sum_cons z zs x a p : abel_sum (z :: zs) (x :: a) p = Qred (z * (x - p) + abel_sum zs a x).
Proof. reflexivity. Qed.

(* summation by parts *)
Fixpoint sbp (zs a : list Q) : Q :=
  match zs, a with
  | z :: ((z' :: _) as zs'), x :: a' => - (z' - z) * x + sbp zs' a'
  | [z], [x] => z * x
  | _, _ => 0
  end.
Lemma abel_sbp : forall zs a p, length zs = length a -> zs <> [] ->
  abel_sum zs a p == sbp zs a - hd 0 zs * p.
Proof.
  induction zs as [|z zs IH]; intros a p HL HN; [contradiction|].
  destruct a as [|x a]; [discriminate|]. cbn [length] in HL. injection HL as HL.
  destruct zs as [|z' zs'].
  - destruct a; [|discriminate]. cbn [abel_sum sbp hd]. rewrite Qred_correct. ring.
  - destruct a as [|x' a']; [discriminate|].
    change (abel_sum (z :: z' :: zs') (x :: x' :: a') p) with (Qred (z * (x - p) + abel_sum (z' :: zs') (x' :: a') x)).
    rewrite Qred_correct, (IH (x' :: a') x HL) by discriminate.
    change (sbp (z :: z' :: zs') (x :: x' :: a')) with (- (z' - z) * x + sbp (z' :: zs') (x' :: a')).
    cbn [hd]. ring.
Qed.

(* ---------------------------------------------------------------- psi_0 *)
Fixpoint counts_total (counts : list nat) : nat := match counts with [] => O | c :: r => (c + counts_total r)%nat end.
Fixpoint vc_sum (vals : list Q) (counts : list nat) : Q :=
  match vals, counts with v :: vs, c :: cs => v * natQ c + vc_sum vs cs | _, _ => 0 end.

(* the classes v_k .. v_m with the frequencies cumulated from acc, closed by (v_m, Gm) and (ztop, 1) *)
Lemma psi0_tail n Gm ztop : ~ n == 0 -> forall vals counts acc,
  length vals = length counts -> vals <> [] -> acc + natQ (counts_total counts) == n ->
  abel_sum (vals ++ [ztop]) (cum_freqs counts acc n ++ [Gm; 1]) (acc / n) ==
  vc_sum vals counts / n + (ztop - last vals 0) * (1 - Gm).
Proof.
  intro Hn. induction vals as [|v vals IH]; intros counts acc HL HN Ht; [contradiction|].
  destruct counts as [|c counts]; [discriminate|]. cbn [length] in HL. injection HL as HL.
  destruct vals as [|v' vals'].
  - destruct counts; [|discriminate]. cbn [cum_freqs app abel_sum vc_sum last counts_total] in *.
    rewrite !Qred_correct. rewrite Nat.add_0_r in Ht.
    setoid_replace (acc / n) with (1 - natQ c / n) by (rewrite <- Ht; field; rewrite Ht; exact Hn). field. exact Hn.
  - destruct counts as [|c' counts']; [discriminate|].
    change (cum_freqs (c :: c' :: counts') acc n) with (Qred ((acc + natQ c) / n) :: cum_freqs (c' :: counts') (acc + natQ c) n).
    change ((v :: v' :: vals') ++ [ztop]) with (v :: ((v' :: vals') ++ [ztop])).
    change ((Qred ((acc + natQ c) / n) :: cum_freqs (c' :: counts') (acc + natQ c) n) ++ [Gm; 1])
      with (Qred ((acc + natQ c) / n) :: (cum_freqs (c' :: counts') (acc + natQ c) n ++ [Gm; 1])).
    rewrite abel_sum_cons, Qred_correct.
    rewrite (abel_sum_proper _ _ _ (Qred ((acc + natQ c) / n)) ((acc + natQ c) / n)
               (Forall2_refl_Q _) (Qred_correct _)).
    assert (Ht' : acc + natQ c + natQ (counts_total (c' :: counts')) == n).
    { rewrite <- Ht. change (counts_total (c :: c' :: counts')) with (c + counts_total (c' :: counts'))%nat. rewrite natQ_add. ring. }
    assert (HN' : v' :: vals' <> []) by discriminate.
    pose proof (IH (c' :: counts') (acc + natQ c) HL HN' Ht') as IH'. rewrite IH'.
    change (last (v :: v' :: vals') 0) with (last (v' :: vals') 0).
    change (vc_sum (v :: v' :: vals') (c :: c' :: counts')) with (v * natQ c + vc_sum (v' :: vals') (c' :: counts')).
    rewrite Qred_correct. field. exact Hn.
Qed.

Lemma vc_sum_groups g : vc_sum (map fst g) (map snd g) = wsum g.
Proof. induction g as [|[v c] r IH]; cbn [map fst snd vc_sum wsum]; [reflexivity|]. rewrite IH. reflexivity. Qed.
Lemma counts_total_groups g : counts_total (map snd g) = csum g.
Proof. induction g as [|[v c] r IH]; cbn [map snd counts_total csum]; [reflexivity|]. rewrite IH. reflexivity. Qed.
Lemma last_default (l : list Q) d d' : l <> [] -> last l d = last l d'.
Proof.
  induction l as [|a l IH]; intro H; [contradiction|]. destruct l as [|b l]; [reflexivity|].
  change (last (a :: b :: l) d) with (last (b :: l) d). change (last (a :: b :: l) d') with (last (b :: l) d'). apply IH. discriminate.
Qed.

(* psi_0 = mean of the data + eps (1 - G(y_top) - G(y_bottom)),  eps = EPSILON5 (v_max - v_min):
   the oracle values at the inner class limits are the cumulated frequencies (G o G^-1 = id) and G(ANAM_YMAX + 1) = 1 *)
Theorem fit_psi0_mean (l : list Q) (Gc : list Q) (G0 Gm : Q) :
  l <> [] ->
  let groups := rle (q_sort l) in
  let vals := map fst groups in let counts := map snd groups in let n := natQ (length l) in
  Forall2 Qeq Gc (G0 :: cum_freqs counts 0 n ++ [Gm; 1]) ->
  abel_sum (fit_zs vals) Gc 0 == qsum l / n + EPS5 * (last vals 0 - hd 0 vals) * (1 - Gm - G0).
Proof.
  intros HN groups vals counts n HG.
  assert (Hn : ~ n == 0).
  { unfold n. destruct l as [|x r]; [contradiction|]. cbn [length]. pose proof (natQ_pos (length r)). lra. }
  destruct (rle_sums (q_sort l)) as [W C]. fold groups in W, C. rewrite qsum_sort in W. rewrite length_sort in C.
  assert (Hv : vals <> []).
  { unfold vals. destruct groups as [|g gs] eqn:E; [|discriminate]. cbn in C. destruct l; [contradiction|discriminate]. }
  destruct vals as [|v1 vs] eqn:Ev; [contradiction|].
  unfold fit_zs. rewrite (last_default (v1 :: vs) v1 0) by discriminate. set (vm := last (v1 :: vs) 0). cbn [hd].
  rewrite (abel_sum_proper _ _ _ 0 0 HG (Qeq_refl 0)).
  rewrite abel_sum_cons, Qred_correct.
  assert (Ht : 0 + natQ (counts_total counts) == n).
  { unfold counts, n. rewrite counts_total_groups, C. ring. }
  assert (HL : length (v1 :: vs) = length counts).
  { rewrite <- Ev. unfold vals, counts. rewrite !map_length. reflexivity. }
  pose proof (psi0_tail n Gm (vm + EPS5 * (vm - v1)) Hn (v1 :: vs) counts 0 HL ltac:(discriminate) Ht) as T.
  fold vm in T.
  (* the second class is reached with prev = G0 instead of 0 *)
  destruct (cum_freqs counts 0 n ++ [Gm; 1]) as [|x a] eqn:Ec.
  { exfalso. destruct (cum_freqs counts 0 n); discriminate. }
  change ((v1 :: vs) ++ [vm + EPS5 * (vm - v1)]) with (v1 :: (vs ++ [vm + EPS5 * (vm - v1)])) in *.
  rewrite (abel_sum_prev v1 _ x a G0).
  rewrite (abel_sum_proper _ _ _ (0 / n) 0 (Forall2_refl_Q _)) in T by (field; exact Hn).
  rewrite T. rewrite <- Ev. unfold vals, counts. rewrite vc_sum_groups, W. field. exact Hn.
Qed.

(* psi_n sqrt(n) in summation-by-parts form *)
Theorem fit_psi_abel sq nbpoly zs ys Gc g n :
  (1 <= n)%nat -> (n < nbpoly)%nat -> ~ sq n == 0 -> length zs = length ys -> length ys = length g -> zs <> [] ->
  nth n (fit_psi sq nbpoly zs ys Gc g) 0 * sq n ==
  sbp zs (map (fun p => nth (n - 1) (fst p) 0 * snd p) (combine (map (fun y => herm_gen sq sq y nbpoly) ys) g)).
Proof.
  intros H1 H2 Hs L1 L2 HN. unfold fit_psi.
  destruct n as [|k]; [lia|]. cbn [nth].
  set (f := fun n0 : nat => Qred (abel_sum zs (map (fun p : list Q * Q => nth (n0 - 1) (fst p) 0 * snd p)
              (combine (map (fun y : Q => herm_gen sq sq y nbpoly) ys) g)) 0 / sq n0)).
  rewrite (nth_indep _ 0 (f O)) by (rewrite map_length, seq_length; lia).
  rewrite map_nth, seq_nth by lia. unfold f. replace (1 + k)%nat with (S k) by lia.
  rewrite Qred_correct, abel_sbp.
  - field. exact Hs.
  - rewrite map_length, combine_length, map_length, <- L2, Nat.min_id. exact L1.
  - exact HN.
Qed.

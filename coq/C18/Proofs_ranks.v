(* C18 proofs, part 11: the Hermite factors selected by ranks do not depend on the order of the rank list. *)
From Coq Require Import List Arith QArith Lia Permutation.
From Gst Require Import lib.QAux C18.Model.
Import ListNotations.
Local Open Scope Q_scope.

Lemma max_perm l l' : Permutation l l' -> fold_right Nat.max O l = fold_right Nat.max O l'.
Proof. induction 1; cbn [fold_right]; try lia. Qed.

Lemma by_ranks_nth a b y r ifacs i : (i < length ifacs)%nat ->
  nth i (hermite_by_ranks a b y r ifacs) 0 =
  nth (nth i ifacs O) (hermite_polynomials a b y r (S (fold_right Nat.max O ifacs))) 0.
Proof.
  intro H. unfold hermite_by_ranks.
  set (poly := hermite_polynomials a b y r (S (fold_right Nat.max O ifacs))).
  rewrite (nth_indep _ 0 (nth O poly 0)) by (rewrite map_length; exact H).
  rewrite (map_nth (fun k => nth k poly 0) ifacs O i). reflexivity.
Qed.

(* the factor returned for a rank is the same wherever the rank stands in the list and whatever the order of the others *)
Theorem by_ranks_order_independent a b y r ifacs ifacs' i j :
  Permutation ifacs ifacs' -> (i < length ifacs)%nat -> (j < length ifacs')%nat -> nth i ifacs O = nth j ifacs' O ->
  nth i (hermite_by_ranks a b y r ifacs) 0 = nth j (hermite_by_ranks a b y r ifacs') 0.
Proof.
  intros P Hi Hj E. rewrite !by_ranks_nth by assumption. rewrite (max_perm _ _ P), E. reflexivity.
Qed.

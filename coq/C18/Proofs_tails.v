(* C18 proofs, part 7: the complete AnamHermite transform with bounds — constant outside the absolute interval, linear tails
   between absolute and practical bounds, (clamped) expansion inside.  The expansion is an oracle: it is only required to be
   non-decreasing on [Pymin, Pymax] and to take the values Pzmin / Pzmax at the ends (what _defineBounds records).
   Intervals are open at both ends, the state left by a fit (Interval() with undefined ends clears both inclusion flags). *)
From Coq Require Import List Arith ZArith QArith Qabs Bool Lqa Lia.
From Gst Require Import lib.QAux C18.Model C18.Proofs_hermite C18.Proofs_anam.
Import ListNotations.
Local Open Scope Q_scope.

Definition lin (xa va xp vp x : Q) : Q := va + (vp - va) * (x - xa) / (xp - xa).

Lemma lin_bounds xa va xp vp x : xa < xp -> va <= vp -> xa <= x -> x <= xp -> va <= lin xa va xp vp x /\ lin xa va xp vp x <= vp.
Proof.
  intros H1 H2 H3 H4. unfold lin.
  assert (A : 0 <= (vp - va) * (x - xa) / (xp - xa)) by (apply Qle_shift_div_l; [lra|nra]).
  assert (B : (vp - va) * (x - xa) / (xp - xa) <= vp - va) by (apply Qle_shift_div_r; [lra|nra]).
  split; lra.
Qed.
Lemma lin_mono xa va xp vp x x' : xa < xp -> va <= vp -> x <= x' -> lin xa va xp vp x <= lin xa va xp vp x'.
Proof.
  intros H1 H2 H3. unfold lin.
  assert (A : (vp - va) * (x - xa) / (xp - xa) <= (vp - va) * (x' - xa) / (xp - xa)).
  { apply Qle_shift_div_l; [lra|]. unfold Qdiv.
    setoid_replace ((vp - va) * (x - xa) * / (xp - xa) * (xp - xa)) with ((vp - va) * (x - xa)) by (field; lra). nra. }
  lra.
Qed.
Lemma lin_at_p xa va xp vp : ~ xa == xp -> lin xa va xp vp xp == vp.
Proof. intro H. unfold lin. field. intro K. apply H. lra. Qed.
Lemma lin_at_a xa va xp vp : ~ xa == xp -> lin xa va xp vp xa == va.
Proof. intro H. unfold lin. field. intro K. apply H. lra. Qed.
(* the same straight line, described from its other end *)
Lemma lin_swap xa va xp vp x : ~ xa == xp -> lin xa va xp vp x == lin xp vp xa va x.
Proof. intro H. unfold lin. field. split; intro K; apply H; lra. Qed.
(* the two tails are inverse of each other *)
Lemma lin_inverse xa va xp vp x : xa < xp -> va < vp -> lin va xa vp xp (lin xa va xp vp x) == x.
Proof. intros H1 H2. unfold lin. field. split; lra. Qed.

Lemma is_equal_true a b : is_equal a b = true -> Qabs (a - b) <= EPS10.
Proof. unfold is_equal. intro H. apply qleb_true. exact H. Qed.
Lemma is_equal_false a b : is_equal a b = false -> EPS10 < Qabs (a - b).
Proof. unfold is_equal. intro H. apply qleb_false. exact H. Qed.

Lemma is_equal_sym a b : is_equal a b = is_equal b a.
Proof. unfold is_equal. rewrite (Qabs_Qminus a b). reflexivity. Qed.

Section Tails.
Variable A : anam.
Variables aymin aymax azmin azmax pymin pymax pzmin pzmax : Q.
Let E := expansion (an_psi A) (an_sq A).
Definition open_iv (iv : interval) (a b : Q) : Prop :=
  iv_min iv = Some a /\ iv_max iv = Some b /\ iv_mininc iv = false /\ iv_maxinc iv = false.
Hypothesis Hflag : an_flagBound A = true.
Hypothesis Hay : open_iv (an_ay A) aymin aymax.
Hypothesis Haz : open_iv (an_az A) azmin azmax.
Hypothesis Hpy : open_iv (an_py A) pymin pymax.
Hypothesis Hpz : open_iv (an_pz A) pzmin pzmax.
Hypothesis Hy : aymin <= pymin /\ pymin < pymax /\ pymax <= aymax.
Hypothesis Hz : azmin <= pzmin /\ pzmin <= pzmax /\ pzmax <= azmax.
(* the oracle *)
Hypothesis HE_lo : E pymin == pzmin.
Hypothesis HE_hi : E pymax == pzmax.
Hypothesis HE_mono : forall u v, pymin <= u -> u <= v -> v <= pymax -> E u <= E v.
(* a tail is degenerate in y exactly when it is degenerate in z *)
Hypothesis Htail_lo : is_equal pymin aymin = is_equal pzmin azmin.
Hypothesis Htail_hi : is_equal pymax aymax = is_equal pzmax azmax.

Definition mid_part (y : Q) : Q := clamp_hi azmax (clamp_lo azmin (E y)).
Definition tail_lo (y : Q) : Q := if is_equal pymin aymin then pzmin else lin aymin azmin pymin pzmin y.
Definition tail_hi (y : Q) : Q := if is_equal pymax aymax then pzmax else lin aymax azmax pymax pzmax y.
Definition t2r_open (y : Q) : Q :=
  if qleb y aymin then azmin else if qleb aymax y then azmax
  else if qleb y pymin then tail_lo y else if qleb pymax y then tail_hi y else mid_part y.

Lemma ob_open iv a b v : open_iv iv a b -> outside_below iv v = qleb v a.
Proof.
  intros (H1 & _ & H3 & _). unfold outside_below. rewrite H1, H3.
  destruct (qltb_spec a v); destruct (qleb_spec v a); try reflexivity; exfalso; lra.
Qed.
Lemma oa_open iv a b v : open_iv iv a b -> outside_above iv v = qleb b v.
Proof.
  intros (_ & H2 & _ & H4). unfold outside_above. rewrite H2, H4.
  destruct (qltb_spec v b); destruct (qleb_spec b v); try reflexivity; exfalso; lra.
Qed.
Lemma gv_open iv a b : open_iv iv a b -> getVmin iv = a /\ getVmax iv = b.
Proof. intros (H1 & H2 & _). unfold getVmin, getVmax. rewrite H1, H2. split; reflexivity. Qed.

Lemma t2r_is_open y : t2r A y = t2r_open y.
Proof.
  unfold t2r, t2r_open, tail_lo, tail_hi, mid_part, lin, E. rewrite Hflag.
  rewrite (ob_open _ _ _ y Hay), (oa_open _ _ _ y Hay), (ob_open _ _ _ y Hpy), (oa_open _ _ _ y Hpy).
  destruct (gv_open _ _ _ Hay) as [-> ->]. destruct (gv_open _ _ _ Haz) as [-> ->].
  destruct (gv_open _ _ _ Hpy) as [-> ->]. destruct (gv_open _ _ _ Hpz) as [-> ->].
  reflexivity.
Qed.

Lemma noteq_lt a b : a <= b -> is_equal a b = false -> a < b.
Proof.
  intros H Eq. apply is_equal_false in Eq.
  destruct (Qlt_le_dec a b) as [L|L]; [exact L|]. exfalso.
  assert (K : a - b == 0) by lra. rewrite K in Eq. cbn in Eq. pose proof EPS10_pos. lra.
Qed.

Lemma tail_lo_bounds y : aymin <= y -> y <= pymin -> azmin <= tail_lo y /\ tail_lo y <= pzmin.
Proof.
  intros H1 H2. unfold tail_lo. destruct (is_equal pymin aymin) eqn:Eq; [split; lra|].
  assert (Hlt : aymin < pymin).
  { apply noteq_lt; [lra|]. rewrite is_equal_sym. exact Eq. }
  apply lin_bounds; lra.
Qed.
Lemma tail_hi_bounds y : pymax <= y -> y <= aymax -> pzmax <= tail_hi y /\ tail_hi y <= azmax.
Proof.
  intros H1 H2. unfold tail_hi. destruct (is_equal pymax aymax) eqn:Eq; [split; lra|].
  assert (Hlt : pymax < aymax) by (apply noteq_lt; [lra|exact Eq]).
  rewrite lin_swap by lra. apply lin_bounds; lra.
Qed.
Lemma tail_lo_mono y y' : y <= y' -> tail_lo y <= tail_lo y'.
Proof.
  intro H. unfold tail_lo. destruct (is_equal pymin aymin) eqn:Eq; [lra|].
  assert (Hlt : aymin < pymin) by (apply noteq_lt; [lra|rewrite is_equal_sym; exact Eq]).
  apply lin_mono; lra.
Qed.
Lemma tail_hi_mono y y' : y <= y' -> tail_hi y <= tail_hi y'.
Proof.
  intro H. unfold tail_hi. destruct (is_equal pymax aymax) eqn:Eq; [lra|].
  assert (Hlt : pymax < aymax) by (apply noteq_lt; [lra|exact Eq]).
  rewrite !(lin_swap aymax azmax pymax pzmax) by lra. apply lin_mono; lra.
Qed.
Lemma mid_is_E y : pymin <= y -> y <= pymax -> mid_part y = E y /\ pzmin <= E y /\ E y <= pzmax.
Proof.
  intros H1 H2.
  assert (L : pzmin <= E y) by (rewrite <- HE_lo; apply HE_mono; lra).
  assert (U : E y <= pzmax) by (rewrite <- HE_hi; apply HE_mono; lra).
  unfold mid_part, clamp_hi, clamp_lo.
  destruct (qltb_spec (E y) azmin) as [D|D]; [exfalso; lra|].
  destruct (qltb_spec azmax (E y)) as [D'|D']; [exfalso; lra|]. repeat split; assumption.
Qed.

Lemma t2r_open_cases y :
  (y <= aymin /\ t2r_open y = azmin) \/
  (aymin < y /\ aymax <= y /\ t2r_open y = azmax) \/
  (aymin < y /\ y < aymax /\ y <= pymin /\ t2r_open y = tail_lo y) \/
  (aymin < y /\ y < aymax /\ pymin < y /\ pymax <= y /\ t2r_open y = tail_hi y) \/
  (aymin < y /\ y < aymax /\ pymin < y /\ y < pymax /\ t2r_open y = mid_part y).
Proof.
  unfold t2r_open.
  destruct (qleb_spec y aymin) as [C1|C1]; [left; split; [exact C1|reflexivity]|].
  destruct (qleb_spec aymax y) as [C2|C2]; [right; left; repeat split; try lra|].
  destruct (qleb_spec y pymin) as [C3|C3]; [right; right; left; repeat split; try lra|].
  destruct (qleb_spec pymax y) as [C4|C4]; [right; right; right; left; repeat split; try lra|].
  right; right; right; right. repeat split; lra.
Qed.

Theorem t2r_monotone y y' : y <= y' -> t2r A y <= t2r A y'.
Proof.
  intro H. rewrite !t2r_is_open.
  destruct (t2r_open_cases y) as [(a1 & ->)|[(a1 & a2 & ->)|[(a1 & a2 & a3 & ->)|[(a1 & a2 & a3 & a4 & ->)|(a1 & a2 & a3 & a4 & ->)]]]];
  destruct (t2r_open_cases y') as [(b1 & ->)|[(b1 & b2 & ->)|[(b1 & b2 & b3 & ->)|[(b1 & b2 & b3 & b4 & ->)|(b1 & b2 & b3 & b4 & ->)]]]];
  try (exfalso; lra);
  try (pose proof (tail_lo_bounds y ltac:(lra) ltac:(lra)) as [? ?]);
  try (pose proof (tail_lo_bounds y' ltac:(lra) ltac:(lra)) as [? ?]);
  try (pose proof (tail_hi_bounds y ltac:(lra) ltac:(lra)) as [? ?]);
  try (pose proof (tail_hi_bounds y' ltac:(lra) ltac:(lra)) as [? ?]);
  try (destruct (mid_is_E y ltac:(lra) ltac:(lra)) as (-> & ? & ?));
  try (destruct (mid_is_E y' ltac:(lra) ltac:(lra)) as (-> & ? & ?));
  try lra.
  - apply tail_lo_mono; exact H.
  - apply tail_hi_mono; exact H.
  - apply HE_mono; lra.
Qed.

(* continuity at the practical bounds: the jump is at most 1e-10, and zero when the tail is not degenerate *)
Theorem t2r_junctions :
  Qabs (t2r A pymin - pzmin) <= EPS10 /\ (aymin < pymin -> t2r A pymin == pzmin) /\ mid_part pymin == pzmin /\
  Qabs (t2r A pymax - pzmax) <= EPS10 /\ (pymax < aymax -> t2r A pymax == pzmax) /\ mid_part pymax == pzmax /\
  (forall y, pymin < y -> y < pymax -> t2r A y = mid_part y).
Proof.
  pose proof EPS10_pos as P.
  assert (M1 : mid_part pymin == pzmin) by (destruct (mid_is_E pymin ltac:(lra) ltac:(lra)) as (-> & _); exact HE_lo).
  assert (M2 : mid_part pymax == pzmax) by (destruct (mid_is_E pymax ltac:(lra) ltac:(lra)) as (-> & _); exact HE_hi).
  assert (L : (aymin < pymin -> t2r A pymin == pzmin) /\ Qabs (t2r A pymin - pzmin) <= EPS10).
  { rewrite t2r_is_open. unfold t2r_open.
    destruct (qleb_spec pymin aymin) as [C1|C1].
    - split; [intro; exfalso; lra|].
      assert (Eq : is_equal pymin aymin = true).
      { unfold is_equal. apply qleb_true. setoid_replace (pymin - aymin) with 0 by lra. cbn. lra. }
      rewrite Htail_lo in Eq. apply is_equal_true in Eq. rewrite Qabs_Qminus. exact Eq.
    - destruct (qleb_spec aymax pymin) as [C2|C2]; [exfalso; lra|].
      destruct (qleb_spec pymin pymin) as [C3|C3]; [|exfalso; lra].
      assert (V : tail_lo pymin == pzmin).
      { unfold tail_lo. destruct (is_equal pymin aymin); [reflexivity|]. apply lin_at_p. lra. }
      split; [intros _; exact V|]. rewrite V. setoid_replace (pzmin - pzmin) with 0 by ring. cbn. lra. }
  assert (U : (pymax < aymax -> t2r A pymax == pzmax) /\ Qabs (t2r A pymax - pzmax) <= EPS10).
  { rewrite t2r_is_open. unfold t2r_open.
    destruct (qleb_spec pymax aymin) as [C1|C1]; [exfalso; lra|].
    destruct (qleb_spec aymax pymax) as [C2|C2].
    - split; [intro; exfalso; lra|].
      assert (Eq : is_equal pymax aymax = true).
      { unfold is_equal. apply qleb_true. setoid_replace (pymax - aymax) with 0 by lra. cbn. lra. }
      rewrite Htail_hi in Eq. apply is_equal_true in Eq. rewrite Qabs_Qminus. exact Eq.
    - destruct (qleb_spec pymax pymin) as [C3|C3]; [exfalso; lra|].
      destruct (qleb_spec pymax pymax) as [C4|C4]; [|exfalso; lra].
      assert (V : tail_hi pymax == pzmax).
      { unfold tail_hi. destruct (is_equal pymax aymax); [reflexivity|]. apply lin_at_p. lra. }
      split; [intros _; exact V|]. rewrite V. setoid_replace (pzmax - pzmax) with 0 by ring. cbn. lra. }
  destruct L as [L1 L2]. destruct U as [U1 U2].
  repeat split; try assumption.
  intros y H1 H2. rewrite t2r_is_open.
  destruct (t2r_open_cases y) as [(a1 & _)|[(a1 & a2 & _)|[(a1 & a2 & a3 & _)|[(a1 & a2 & a3 & a4 & _)|(a1 & a2 & a3 & a4 & ->)]]]];
    try (exfalso; lra). reflexivity.
Qed.

(* ---------------------------------------------------------------- raw -> Gaussian -> raw on [Azmin, Azmax] *)
(* the absolute Gaussian bounds lie strictly inside the scanned grid (the last grid cell is decided by the accumulation of 0.1) *)
Hypothesis Hgrid : -(49 # 5) <= aymin /\ aymin < 0 /\ 0 < aymax /\ aymax <= 49 # 5.

Lemma r2t_unfold z :
  r2t A z =
  if qleb z azmin then Some aymin else if qleb azmax z then Some aymax
  else if qleb z pzmin then (if is_equal pzmin azmin then Some pymin else Some (lin azmin aymin pzmin pymin z))
  else if qleb pzmax z then (if is_equal pzmax azmax then Some pymax else Some (lin azmax aymax pzmax pymax z))
  else match r2t_core (t2r A) z with
       | Some (y, _) => Some (clamp_hi aymax (clamp_lo aymin y))
       | None => None
       end.
Proof.
  unfold r2t, lin. rewrite Hflag.
  rewrite (ob_open _ _ _ z Haz), (oa_open _ _ _ z Haz), (ob_open _ _ _ z Hpz), (oa_open _ _ _ z Hpz).
  destruct (gv_open _ _ _ Hay) as [-> ->]. destruct (gv_open _ _ _ Haz) as [-> ->].
  destruct (gv_open _ _ _ Hpy) as [-> ->]. destruct (gv_open _ _ _ Hpz) as [-> ->].
  reflexivity.
Qed.

Lemma t2r_clamp_invariant y0 : t2r A (clamp_hi aymax (clamp_lo aymin y0)) = t2r A y0.
Proof.
  rewrite !t2r_is_open. unfold clamp_hi, clamp_lo, t2r_open.
  destruct (qltb_spec y0 aymin) as [C|C].
  - destruct (qltb_spec aymax aymin) as [C'|C']; [exfalso; lra|].
    destruct (qleb_spec aymin aymin) as [D|D]; [|exfalso; lra].
    destruct (qleb_spec y0 aymin) as [D'|D']; [reflexivity|exfalso; lra].
  - destruct (qltb_spec aymax y0) as [C'|C']; [|reflexivity].
    destruct (qleb_spec aymax aymin) as [D|D]; [exfalso; lra|].
    destruct (qleb_spec aymax aymax) as [D1|D1]; [|exfalso; lra].
    destruct (qleb_spec y0 aymin) as [D2|D2]; [exfalso; lra|].
    destruct (qleb_spec aymax y0) as [D3|D3]; [reflexivity|exfalso; lra].
Qed.

(* the scans stop at the first grid point where the forward value passes z *)
Lemma scan_up_below phi z ystar : (forall y, ystar <= y -> z < phi y) ->
  forall cnt y1 z1 a b za zb fl, y1 < ystar -> scan_up phi z cnt y1 z1 = (a, b, za, zb, fl) -> a < ystar.
Proof.
  intro P. induction cnt as [|c IH]; intros y1 z1 a b za zb fl H1 H; cbn [scan_up] in H.
  - assert (Ea : a = y1) by congruence. rewrite Ea. exact H1.
  - set (y2' := Qred (y1 + YPAS)) in *.
    destruct (qltb_spec z (phi y2')) as [D|D].
    + assert (Ea : a = y1) by congruence. rewrite Ea. exact H1.
    + apply (IH _ _ _ _ _ _ _) with (2 := H).
      destruct (Qlt_le_dec y2' ystar) as [L|L]; [exact L|]. exfalso. apply D. apply P. exact L.
Qed.
Lemma scan_down_above phi z ystar : (forall y, y <= ystar -> phi y < z) ->
  forall cnt y2 z2 a b za zb fl, ystar < y2 -> scan_down phi z cnt y2 z2 = (a, b, za, zb, fl) -> ystar - YPAS < a.
Proof.
  intro P. pose proof YPAS_pos as Yp. induction cnt as [|c IH]; intros y2 z2 a b za zb fl H1 H; cbn [scan_down] in H.
  - assert (Ea : a = y2) by congruence. rewrite Ea. lra.
  - set (y1' := Qred (y2 - YPAS)) in *. assert (Ey : y1' == y2 - YPAS) by apply Qred_correct.
    destruct (qltb_spec (phi y1') z) as [D|D].
    + assert (Ea : a = y1') by congruence. rewrite Ea, Ey. lra.
    + apply (IH _ _ _ _ _ _ _) with (2 := H).
      destruct (Qlt_le_dec ystar y1') as [L|L]; [exact L|]. exfalso. apply D. apply P. exact L.
Qed.

Lemma core_bracket z : pzmin < z -> z < pzmax ->
  exists y0 a b za zb, r2t_core (t2r A) z = Some (y0, Some (a, b, za, zb)).
Proof.
  intros Z1 Z2.
  assert (Phi_hi : forall y, aymax <= y -> z < t2r A y).
  { intros y Hyy. rewrite t2r_is_open. destruct (t2r_open_cases y) as [(a1 & ->)|[(a1 & a2 & ->)|[(a1 & a2 & a3 & _)|[(a1 & a2 & a3 & a4 & _)|(a1 & a2 & a3 & a4 & _)]]]]; try lra. }
  assert (Phi_lo : forall y, y <= aymin -> t2r A y < z).
  { intros y Hyy. rewrite t2r_is_open. destruct (t2r_open_cases y) as [(a1 & ->)|[(a1 & a2 & ->)|[(a1 & a2 & a3 & _)|[(a1 & a2 & a3 & a4 & _)|(a1 & a2 & a3 & a4 & _)]]]]; try lra. }
  pose proof (r2t_core_total (t2r A) z) as T.
  destruct (r2t_core (t2r A) z) as [[y0 [[[[a b] za] zb]|]]|] eqn:R; [exists y0, a, b, za, zb; reflexivity| |contradiction].
  exfalso. unfold r2t_core in R. pose proof YPAS_pos as Yp.
  assert (Yv : YPAS <= 1 # 5) by (apply qleb_true; vm_compute; reflexivity).
  destruct (qltb (t2r A 0) z).
  - destruct (scan_up (t2r A) z 101 0 (t2r A 0)) as [[[[y1 y2] z1] z2] fl] eqn:S.
    pose proof (scan_up_below (t2r A) z aymax Phi_hi 101 0 _ _ _ _ _ _ ltac:(lra) S) as Ha.
    unfold finish_up in R. unfold ANAM_YMAX in R.
    destruct (qltb_spec (10 # 1) y1) as [D|D]; [lra|].
    destruct (bisect (t2r A) z (dzmax_of (t2r A)) BISECT_FUEL 1 y1 y2 z1 z2) as [[[[? ?] ?] ?]|]; discriminate.
  - destruct (scan_down (t2r A) z 101 0 (t2r A 0)) as [[[[y1 y2] z1] z2] fl] eqn:S.
    pose proof (scan_down_above (t2r A) z aymin Phi_lo 101 0 _ _ _ _ _ _ ltac:(lra) S) as Ha.
    unfold finish_down in R. unfold ANAM_YMIN in R.
    destruct (qltb_spec y1 (- (10 # 1))) as [D|D]; [lra|].
    destruct (bisect (t2r A) z (dzmax_of (t2r A)) BISECT_FUEL 1 y1 y2 z1 z2) as [[[[? ?] ?] ?]|]; discriminate.
Qed.

Theorem roundtrip_with_tails z : azmin <= z -> z <= azmax ->
  exists y, r2t A z = Some y /\
    (((z <= pzmin \/ pzmax <= z) /\ Qabs (t2r A y - z) <= EPS10) \/
     (pzmin < z /\ z < pzmax /\
      exists y0 a b za zb, r2t_core (t2r A) z = Some (y0, Some (a, b, za, zb)) /\
        Qabs (t2r A y - z) <= zb - za /\ (zb - za <= dzmax_of (t2r A) \/ b - a <= DYMAX))).
Proof.
  intros Z1 Z2. pose proof EPS10_pos as P. rewrite r2t_unfold.
  assert (Zero : forall v, v == z -> Qabs (v - z) <= EPS10).
  { intros v Ev. setoid_replace (v - z) with 0 by lra. cbn. lra. }
  destruct (qleb_spec z azmin) as [C1|C1].
  { (* z = Azmin *)
    exists aymin. split; [reflexivity|]. left. split; [left; lra|].
    rewrite t2r_is_open. unfold t2r_open. destruct (qleb_spec aymin aymin) as [D|D]; [|exfalso; lra]. apply Zero. lra. }
  destruct (qleb_spec azmax z) as [C2|C2].
  { exists aymax. split; [reflexivity|]. left. split; [right; lra|].
    rewrite t2r_is_open. unfold t2r_open. destruct (qleb_spec aymax aymin) as [D|D]; [exfalso; lra|].
    destruct (qleb_spec aymax aymax) as [D'|D']; [|exfalso; lra]. apply Zero. lra. }
  destruct (qleb_spec z pzmin) as [C3|C3].
  { (* lower tail *)
    case_eq (is_equal pzmin azmin); intro Eq.
    - exists pymin. split; [reflexivity|]. left. split; [left; exact C3|].
      apply is_equal_true in Eq. rewrite Qabs_pos in Eq by lra.
      assert (B : azmin <= t2r A pymin /\ t2r A pymin <= pzmin).
      { rewrite t2r_is_open. destruct (t2r_open_cases pymin) as [(a1 & ->)|[(a1 & a2 & ->)|[(a1 & a2 & a3 & ->)|[(a1 & a2 & a3 & a4 & _)|(a1 & a2 & a3 & a4 & _)]]]]; try lra.
        apply tail_lo_bounds; lra. }
      apply Qabs_case; intros; lra.
    - exists (lin azmin aymin pzmin pymin z). split; [reflexivity|]. left. split; [left; exact C3|].
      assert (Lz : azmin < pzmin) by (apply noteq_lt; [lra|rewrite is_equal_sym; exact Eq]).
      assert (Eq' : is_equal pymin aymin = false) by (rewrite Htail_lo; exact Eq).
      assert (Ly : aymin < pymin) by (apply noteq_lt; [lra|rewrite is_equal_sym; exact Eq']).
      set (y := lin azmin aymin pzmin pymin z).
      destruct (lin_bounds azmin aymin pzmin pymin z Lz ltac:(lra) ltac:(lra) C3) as [B1 B2]. fold y in B1, B2.
      assert (B1' : aymin < y).
      { unfold y, lin. assert (0 < (pymin - aymin) * (z - azmin) / (pzmin - azmin)) by (apply Qlt_shift_div_l; [lra|nra]). lra. }
      rewrite t2r_is_open. unfold t2r_open.
      destruct (qleb_spec y aymin) as [D|D]; [exfalso; lra|].
      destruct (qleb_spec aymax y) as [D1|D1]; [exfalso; lra|].
      destruct (qleb_spec y pymin) as [D2|D2]; [|exfalso; lra].
      unfold tail_lo. rewrite Eq'. apply Zero. unfold y. apply lin_inverse; assumption. }
  destruct (qleb_spec pzmax z) as [C4|C4].
  { (* upper tail *)
    case_eq (is_equal pzmax azmax); intro Eq.
    - exists pymax. split; [reflexivity|]. left. split; [right; exact C4|].
      apply is_equal_true in Eq. rewrite Qabs_Qminus, Qabs_pos in Eq by lra.
      assert (B : pzmax <= t2r A pymax /\ t2r A pymax <= azmax).
      { rewrite t2r_is_open. destruct (t2r_open_cases pymax) as [(a1 & ->)|[(a1 & a2 & ->)|[(a1 & a2 & a3 & _)|[(a1 & a2 & a3 & a4 & ->)|(a1 & a2 & a3 & a4 & _)]]]]; try lra.
        apply tail_hi_bounds; lra. }
      apply Qabs_case; intros; lra.
    - exists (lin azmax aymax pzmax pymax z). split; [reflexivity|]. left. split; [right; exact C4|].
      assert (Lz : pzmax < azmax) by (apply noteq_lt; [lra|exact Eq]).
      assert (Eq' : is_equal pymax aymax = false) by (rewrite Htail_hi; exact Eq).
      assert (Ly : pymax < aymax) by (apply noteq_lt; [lra|exact Eq']).
      set (y := lin azmax aymax pzmax pymax z).
      assert (Ey : y == lin pzmax pymax azmax aymax z) by (unfold y; apply lin_swap; lra).
      destruct (lin_bounds pzmax pymax azmax aymax z Lz ltac:(lra) C4 ltac:(lra)) as [B1 B2].
      assert (B2' : y < aymax).
      { rewrite Ey. unfold lin.
        assert ((aymax - pymax) * (z - pzmax) / (azmax - pzmax) < aymax - pymax) by (apply Qlt_shift_div_r; [lra|nra]). lra. }
      rewrite t2r_is_open. unfold t2r_open.
      destruct (qleb_spec y aymin) as [D|D]; [exfalso; lra|].
      destruct (qleb_spec aymax y) as [D1|D1]; [exfalso; lra|].
      destruct (qleb_spec y pymin) as [D2|D2]; [exfalso; lra|].
      destruct (qleb_spec pymax y) as [D3|D3]; [|exfalso; lra].
      unfold tail_hi. rewrite Eq'. apply Zero. unfold y, lin. field. split; lra. }
  (* inside the practical interval: scan + bisection on the (monotone) complete forward function *)
  assert (C3' : pzmin < z) by lra. assert (C4' : z < pzmax) by lra.
  destruct (core_bracket z C3' C4') as (y0 & a & b & za & zb & R). rewrite R.
  exists (clamp_hi aymax (clamp_lo aymin y0)). split; [reflexivity|]. right. split; [exact C3'|]. split; [exact C4'|].
  exists y0, a, b, za, zb. split; [reflexivity|].
  destruct (bisection_correct (t2r A) z y0 a b za zb R) as (_ & _ & _ & _ & _ & _ & Stop & Acc).
  split; [|exact Stop]. rewrite t2r_clamp_invariant. apply Acc. intros u v _ Huv _. apply t2r_monotone. exact Huv.
Qed.
End Tails.

(* ---------------------------------------------------------------- packaged statements *)
(* what a fitted anamorphosis with bounds must satisfy (open intervals, nested bounds, coherent tails) and what is required of the
   expansion on the practical interval (the monotonicity _defineBounds looks for, the end values it records) *)
Definition bounds_wf (A : anam) (aymin aymax azmin azmax pymin pymax pzmin pzmax : Q) : Prop :=
  an_flagBound A = true /\
  open_iv (an_ay A) aymin aymax /\ open_iv (an_az A) azmin azmax /\ open_iv (an_py A) pymin pymax /\ open_iv (an_pz A) pzmin pzmax /\
  (aymin <= pymin /\ pymin < pymax /\ pymax <= aymax) /\ (azmin <= pzmin /\ pzmin <= pzmax /\ pzmax <= azmax) /\
  is_equal pymin aymin = is_equal pzmin azmin /\ is_equal pymax aymax = is_equal pzmax azmax.
Definition expansion_ok (A : anam) (pymin pymax pzmin pzmax : Q) : Prop :=
  expansion (an_psi A) (an_sq A) pymin == pzmin /\ expansion (an_psi A) (an_sq A) pymax == pzmax /\
  forall u v, pymin <= u -> u <= v -> v <= pymax -> expansion (an_psi A) (an_sq A) u <= expansion (an_psi A) (an_sq A) v.

Lemma t2r_nondecreasing A aymin aymax azmin azmax pymin pymax pzmin pzmax :
  bounds_wf A aymin aymax azmin azmax pymin pymax pzmin pzmax -> expansion_ok A pymin pymax pzmin pzmax ->
  forall y y', y <= y' -> t2r A y <= t2r A y'.
Proof.
  intros (H1 & H2 & H3 & H4 & H5 & H6 & H7 & H8 & H9) (E1 & E2 & E3).
  apply (t2r_monotone A aymin aymax azmin azmax pymin pymax pzmin pzmax); assumption.
Qed.

Lemma t2r_continuous A aymin aymax azmin azmax pymin pymax pzmin pzmax :
  bounds_wf A aymin aymax azmin azmax pymin pymax pzmin pzmax -> expansion_ok A pymin pymax pzmin pzmax ->
  let mid := mid_part A azmin azmax in
  Qabs (t2r A pymin - pzmin) <= EPS10 /\ (aymin < pymin -> t2r A pymin == pzmin) /\ mid pymin == pzmin /\
  Qabs (t2r A pymax - pzmax) <= EPS10 /\ (pymax < aymax -> t2r A pymax == pzmax) /\ mid pymax == pzmax /\
  (forall y, pymin < y -> y < pymax -> t2r A y = mid y).
Proof.
  intros (H1 & H2 & H3 & H4 & H5 & H6 & H7 & H8 & H9) (E1 & E2 & E3).
  apply (t2r_junctions A aymin aymax azmin azmax pymin pymax pzmin pzmax); assumption.
Qed.

Lemma roundtrip_tails A aymin aymax azmin azmax pymin pymax pzmin pzmax :
  bounds_wf A aymin aymax azmin azmax pymin pymax pzmin pzmax -> expansion_ok A pymin pymax pzmin pzmax ->
  (-(49 # 5) <= aymin /\ aymin < 0 /\ 0 < aymax /\ aymax <= 49 # 5) ->
  forall z, azmin <= z -> z <= azmax ->
  exists y, r2t A z = Some y /\
    (((z <= pzmin \/ pzmax <= z) /\ Qabs (t2r A y - z) <= EPS10) \/
     (pzmin < z /\ z < pzmax /\
      exists y0 a b za zb, r2t_core (t2r A) z = Some (y0, Some (a, b, za, zb)) /\
        Qabs (t2r A y - z) <= zb - za /\ (zb - za <= dzmax_of (t2r A) \/ b - a <= DYMAX))).
Proof.
  intros (H1 & H2 & H3 & H4 & H5 & H6 & H7 & H8 & H9) (E1 & E2 & E3) G.
  apply (roundtrip_with_tails A aymin aymax azmin azmax pymin pymax pzmin pzmax); assumption.
Qed.

(* ---------------------------------------------------------------- a concrete instance *)
Definition ex_iv (a b : Q) : interval := {| iv_min := Some a; iv_max := Some b; iv_mininc := false; iv_maxinc := false |}.
Definition ex_anam : anam :=
  {| an_flagBound := true; an_az := ex_iv (-(5 # 1)) 5; an_ay := ex_iv (-(2 # 1)) 2; an_pz := ex_iv (-(2 # 1)) 2; an_py := ex_iv (-(1 # 1)) 1;
     an_psi := [0; -(2 # 1)]; an_sq := fun k => match k with 1%nat => 1 | _ => 0 end |}.
Lemma ex_expansion y : expansion (an_psi ex_anam) (an_sq ex_anam) y == 2 * y.
Proof. unfold expansion. cbn -[Qred Qplus Qmult Qopp Qdiv]. rewrite !Qred_correct. ring. Qed.
Lemma ex_anam_wf : bounds_wf ex_anam (-(2 # 1)) 2 (-(5 # 1)) 5 (-(1 # 1)) 1 (-(2 # 1)) 2 /\ expansion_ok ex_anam (-(1 # 1)) 1 (-(2 # 1)) 2.
Proof.
  split.
  - unfold bounds_wf, open_iv. cbn. repeat split; try reflexivity; try (apply qleb_true; vm_compute; reflexivity); try (apply qltb_true; vm_compute; reflexivity).
  - unfold expansion_ok. split; [rewrite ex_expansion; reflexivity|]. split; [rewrite ex_expansion; reflexivity|].
    intros u v _ H _. rewrite !ex_expansion. lra.
Qed.

(* C18 proofs, part 2: the recurrence-generated Hermite polynomials are orthogonal for the Gaussian moment
   functional, E[h_n h_m] = n! delta_nm, for all n, m.
   Route: integration by parts E[x^{k+2} p] = (k+1) E[x^k p] + E[x^{k+1} p'] (from the moment recurrence),
   h_{n+1}' = -(n+1) h_n (from the three-term recurrence), hence E[x^{k+1} h_{n+1}] = -(k+1) E[x^k h_n] and
   E[h_{n+1}] = 0; so E[x^k h_n] = 0 for k < n and E[x^n h_n] = (-1)^n n!; the leading coefficient of h_n is (-1)^n. *)
From Coq Require Import List Arith ZArith QArith Qabs Bool Lqa Lia Setoid Morphisms.
From Gst Require Import lib.QAux lib.LinAlgQ C18.Model C18.Proofs_alg.
Import ListNotations.
Local Open Scope Q_scope.

(* ---------------------------------------------------------------- natQ *)
Lemma natQ_S k : natQ (S k) == natQ k + 1.
Proof. unfold natQ. rewrite Nat2Z.inj_succ. unfold Z.succ. rewrite inject_Z_plus. reflexivity. Qed.
Lemma natQ_0 : natQ 0 == 0.
Proof. reflexivity. Qed.
Lemma natQ_add a b : natQ (a + b) == natQ a + natQ b.
Proof. unfold natQ. rewrite Nat2Z.inj_add, inject_Z_plus. reflexivity. Qed.
Lemma natQ_pos k : 0 < natQ (S k).
Proof. unfold natQ. replace 0 with (inject_Z 0) by reflexivity. rewrite <- Zlt_Qlt. lia. Qed.
Lemma natQ_nonneg k : 0 <= natQ k.
Proof. unfold natQ. replace 0 with (inject_Z 0) by reflexivity. rewrite <- Zle_Qle. lia. Qed.

(* ---------------------------------------------------------------- coefficients *)
Notation cf p i := (nth i p 0).

Lemma cf_nil i : cf (@nil Q) i = 0.
Proof. destruct i; reflexivity. Qed.

Lemma cf_padd p q i : cf (padd p q) i == cf p i + cf q i.
Proof.
  revert q i. induction p as [|a p IH]; intros q i.
  - cbn [padd]. rewrite cf_nil. ring.
  - destruct q as [|b q].
    + cbn [padd]. rewrite cf_nil. ring.
    + cbn [padd]. destruct i; cbn [nth]; [ring|apply IH].
Qed.
Lemma cf_pscale c p i : cf (pscale c p) i == c * cf p i.
Proof.
  revert i. induction p as [|a p IH]; intro i; cbn [pscale map].
  - rewrite cf_nil. ring.
  - destruct i; cbn [nth]; [ring|apply IH].
Qed.
Lemma cf_pshift_S p i : cf (pshift p) (S i) = cf p i.
Proof. reflexivity. Qed.
Lemma cf_pshift_0 p : cf (pshift p) 0 = 0.
Proof. reflexivity. Qed.
Lemma cf_dfrom j p i : cf (dfrom j p) i == natQ (j + i) * cf p i.
Proof.
  revert j i. induction p as [|a p IH]; intros j i; cbn [dfrom].
  - rewrite cf_nil. ring.
  - destruct i; cbn [nth].
    + rewrite Nat.add_0_r. reflexivity.
    + rewrite IH. replace (S j + i)%nat with (j + S i)%nat by lia. reflexivity.
Qed.
Lemma cf_pderiv p i : cf (pderiv p) i == natQ (S i) * cf p (S i).
Proof.
  destruct p as [|a p]; cbn [pderiv].
  - rewrite cf_nil. cbn [nth]. ring.
  - rewrite cf_dfrom. cbn [nth]. reflexivity.
Qed.
Lemma cf_overflow (p : list Q) i : (length p <= i)%nat -> cf p i = 0.
Proof. intro H. apply nth_overflow. exact H. Qed.

(* ---------------------------------------------------------------- the moment functional *)
Lemma mom_SS k : mom (S (S k)) = natQ (S k) * mom k.
Proof. reflexivity. Qed.

Lemma E_padd k p q : Emom k (padd p q) == Emom k p + Emom k q.
Proof.
  revert q k. induction p as [|a p IH]; intros q k.
  - cbn [padd Emom]. ring.
  - destruct q as [|b q]; cbn [padd Emom]; [ring|]. rewrite IH. ring.
Qed.
Lemma E_pscale k c p : Emom k (pscale c p) == c * Emom k p.
Proof.
  revert k. induction p as [|a p IH]; intro k; cbn [pscale map Emom]; [ring|].
  fold (pscale c p). rewrite IH. ring.
Qed.
Lemma E_pshift k p : Emom k (pshift p) == Emom (S k) p.
Proof. unfold pshift. cbn [Emom]. ring. Qed.
Lemma E_zero k q : (forall i, cf q i == 0) -> Emom k q == 0.
Proof.
  revert k. induction q as [|b q IH]; intros k H; cbn [Emom]; [reflexivity|].
  rewrite IH by (intro i; apply (H (S i))). pose proof (H O) as H0. cbn [nth] in H0. rewrite H0. ring.
Qed.
Lemma E_peq k p q : (forall i, cf p i == cf q i) -> Emom k p == Emom k q.
Proof.
  revert q k. induction p as [|a p IH]; intros q k H.
  - cbn [Emom]. symmetry. apply E_zero. intro i. rewrite <- H. rewrite cf_nil. reflexivity.
  - destruct q as [|b q].
    + change (Emom k []) with 0. apply E_zero. intro i. rewrite H. rewrite cf_nil. reflexivity.
    + cbn [Emom]. rewrite (IH q (S k)) by (intro i; apply (H (S i))).
      pose proof (H O) as H0. cbn [nth] in H0. rewrite H0. reflexivity.
Qed.

(* integration by parts, general offset *)
Lemma E_ibp_gen r : forall j n, (j <= S n)%nat ->
  Emom (S (S n)) r == natQ (S n - j) * Emom n r + Emom n (dfrom j r).
Proof.
  induction r as [|a r IH]; intros j n Hj.
  - cbn [Emom dfrom]. ring.
  - cbn [Emom dfrom]. rewrite (IH (S j) (S n)) by lia. rewrite mom_SS.
    replace (S (S n) - S j)%nat with (S n - j)%nat by lia.
    assert (E : natQ (S n) == natQ (S n - j) + natQ j).
    { rewrite <- natQ_add. replace (S n - j + j)%nat with (S n) by lia. reflexivity. }
    rewrite E. ring.
Qed.
(* E[x^{k+2} p] = (k+1) E[x^k p] + E[x^{k+1} p'] *)
Lemma E_ibp k p : Emom (S (S k)) p == natQ (S k) * Emom k p + Emom (S k) (pderiv p).
Proof.
  destruct p as [|a r].
  - cbn [Emom pderiv]. ring.
  - cbn [Emom pderiv]. rewrite (E_ibp_gen r 1 (S k)) by lia. rewrite mom_SS.
    replace (S (S k) - 1)%nat with (S k) by lia. ring.
Qed.
(* E[x p] = E[p'] *)
Lemma E_ibp0 p : Emom 1 p == Emom 0 (pderiv p).
Proof.
  destruct p as [|a r].
  - reflexivity.
  - cbn [Emom pderiv]. rewrite (E_ibp_gen r 1 0) by lia. cbn [mom Nat.sub]. rewrite natQ_0. ring.
Qed.

(* ---------------------------------------------------------------- the recurrence *)
Lemma hpair_snd k : snd (hpair k) = hpoly (S k).
Proof. unfold hpoly. cbn [hpair]. destruct (hpair k) as [a b]. reflexivity. Qed.
Lemma hpoly_0 : hpoly 0 = [1].
Proof. reflexivity. Qed.
Lemma hpoly_1 : hpoly 1 = [0; -(1)].
Proof. reflexivity. Qed.
Lemma hpoly_SS k :
  hpoly (S (S k)) = pscale (-(1)) (padd (pshift (hpoly (S k))) (pscale (natQ (S k)) (hpoly k))).
Proof.
  rewrite <- (hpair_snd (S k)). cbn [hpair]. rewrite <- (hpair_snd k). unfold hpoly.
  destruct (hpair k) as [a b]. reflexivity.
Qed.

Lemma cf_h_SS_0 k : cf (hpoly (S (S k))) 0 == - (natQ (S k) * cf (hpoly k) 0).
Proof. rewrite hpoly_SS, cf_pscale, cf_padd, cf_pshift_0, cf_pscale. ring. Qed.
Lemma cf_h_SS_S k i :
  cf (hpoly (S (S k))) (S i) == - (cf (hpoly (S k)) i + natQ (S k) * cf (hpoly k) (S i)).
Proof. rewrite hpoly_SS, cf_pscale, cf_padd, cf_pshift_S, cf_pscale. ring. Qed.

(* lengths and leading coefficients *)
Lemma length_padd p q : length (padd p q) = Nat.max (length p) (length q).
Proof.
  revert q. induction p as [|a p IH]; intro q; [reflexivity|].
  destruct q as [|b q]; [reflexivity|]. cbn [padd length]. rewrite IH. reflexivity.
Qed.
Lemma length_pscale c p : length (pscale c p) = length p.
Proof. unfold pscale. apply map_length. Qed.
Lemma length_hpoly n : length (hpoly n) = S n /\ length (hpoly (S n)) = S (S n).
Proof.
  induction n as [|n [IH1 IH2]]; [split; reflexivity|].
  split; [exact IH2|]. rewrite hpoly_SS, length_pscale, length_padd, length_pscale.
  unfold pshift. cbn [length]. rewrite IH1, IH2. lia.
Qed.
Lemma length_hpoly' n : length (hpoly n) = S n.
Proof. apply length_hpoly. Qed.

Fixpoint sgnQ (n : nat) : Q := match n with O => 1 | S k => - sgnQ k end.
Lemma sgnQ_sq n : sgnQ n * sgnQ n == 1.
Proof. induction n as [|n IH]; cbn [sgnQ]; [reflexivity|]. rewrite <- IH. ring. Qed.

Lemma lead_hpoly n : cf (hpoly n) n == sgnQ n /\ cf (hpoly (S n)) (S n) == sgnQ (S n).
Proof.
  induction n as [|n [IH1 IH2]]; [split; reflexivity|].
  split; [exact IH2|]. rewrite cf_h_SS_S, IH2.
  rewrite (cf_overflow (hpoly n) (S (S n))) by (rewrite length_hpoly'; lia). cbn [sgnQ]. ring.
Qed.

(* ---------------------------------------------------------------- h_{n+1}' = -(n+1) h_n *)
Lemma deriv_h_01 :
  (forall i, natQ (S i) * cf (hpoly 1) (S i) == - natQ 1 * cf (hpoly 0) i) /\
  (forall i, natQ (S i) * cf (hpoly 2) (S i) == - natQ 2 * cf (hpoly 1) i).
Proof.
  split; intro i.
  - rewrite hpoly_1, hpoly_0.
    destruct i as [|[|[|i]]]; cbn [nth]; try (destruct i; cbn [nth]); unfold natQ; cbn; ring.
  - rewrite cf_h_SS_S. rewrite hpoly_1, hpoly_0.
    destruct i as [|[|[|i]]]; cbn [nth]; try (destruct i; cbn [nth]); unfold natQ; cbn; ring.
Qed.

Lemma deriv_h n :
  (forall i, natQ (S i) * cf (hpoly (S n)) (S i) == - natQ (S n) * cf (hpoly n) i) /\
  (forall i, natQ (S i) * cf (hpoly (S (S n))) (S i) == - natQ (S (S n)) * cf (hpoly (S n)) i).
Proof.
  induction n as [|n [D0 D1]]; [exact deriv_h_01|].
  split; [exact D1|]. intro i.
  (* coefficient i of h_{n+3}' ; D1 : h_{n+2}' = -(n+2) h_{n+1} ; D0 : h_{n+1}' = -(n+1) h_n *)
  rewrite cf_h_SS_S.
  destruct i as [|i].
  - pose proof (cf_h_SS_0 n) as R. pose proof (D0 O) as T.
    rewrite !natQ_S, natQ_0 in *. apply (deriv_step_0 _ _ _ _ R T).
  - pose proof (D1 i) as T1. pose proof (D0 (S i)) as T3. pose proof (cf_h_SS_S n i) as R.
    rewrite !natQ_S in *. apply (deriv_step_S _ _ _ _ _ _ T1 T3 R).
Qed.

Lemma E_deriv_h k n : Emom k (pderiv (hpoly (S n))) == - natQ (S n) * Emom k (hpoly n).
Proof.
  rewrite <- E_pscale. apply E_peq. intro i. rewrite cf_pderiv, cf_pscale. apply (proj1 (deriv_h n)).
Qed.

(* ---------------------------------------------------------------- lowering identities *)
Lemma E_h_SS k n :
  Emom k (hpoly (S (S n))) == - (Emom (S k) (hpoly (S n)) + natQ (S n) * Emom k (hpoly n)).
Proof. rewrite hpoly_SS, E_pscale, E_padd, E_pshift, E_pscale. ring. Qed.

Lemma E_lower k n : Emom (S k) (hpoly (S n)) == - natQ (S k) * Emom k (hpoly n).
Proof.
  destruct n as [|n].
  - rewrite hpoly_1, hpoly_0. cbn [Emom]. rewrite mom_SS. ring.
  - rewrite E_h_SS, E_ibp, E_deriv_h. ring.
Qed.
Lemma E_h_mean n : Emom 0 (hpoly (S n)) == 0.
Proof.
  destruct n as [|n].
  - rewrite hpoly_1. cbn [Emom mom]. ring.
  - rewrite E_h_SS, E_ibp0, E_deriv_h. ring.
Qed.

Lemma E_low_zero : forall k n, (k < n)%nat -> Emom k (hpoly n) == 0.
Proof.
  induction k as [|k IH]; intros n Hn; destruct n as [|n]; try lia.
  - apply E_h_mean.
  - rewrite E_lower, (IH n) by lia. ring.
Qed.
Lemma E_top n : Emom n (hpoly n) == sgnQ n * factQ n.
Proof.
  induction n as [|n IH].
  - rewrite hpoly_0. cbn [Emom mom sgnQ factQ]. ring.
  - rewrite E_lower, IH. cbn [sgnQ factQ]. ring.
Qed.

(* ---------------------------------------------------------------- the bilinear form E[p q] *)
Fixpoint Bf (k : nat) (p q : list Q) : Q :=
  match q with [] => 0 | b :: r => b * Emom k p + Bf (S k) p r end.

Lemma E_pmul k p q : Emom k (pmul p q) == Bf k p q.
Proof.
  revert k. induction q as [|b r IH]; intro k; cbn [pmul Bf Emom]; [reflexivity|].
  rewrite E_padd, E_pscale, E_pshift, IH. reflexivity.
Qed.

Lemma sumn_S_first n f : sumn (S n) f == f O + sumn n (fun i => f (S i)).
Proof.
  induction n as [|n IH]; [cbn [sumn]; ring|].
  change (sumn (S (S n)) f) with (sumn (S n) f + f (S n)). rewrite IH. cbn [sumn]. ring.
Qed.

Lemma Bf_sum k p q : Bf k p q == sumn (length q) (fun j => cf q j * Emom (k + j) p).
Proof.
  revert k. induction q as [|b r IH]; intro k; cbn [Bf length]; [reflexivity|].
  rewrite sumn_S_first. cbn [nth]. rewrite Nat.add_0_r. rewrite IH.
  apply Qplus_comp; [reflexivity|]. apply sumn_ext. intros j _.
  replace (S k + j)%nat with (k + S j)%nat by lia. reflexivity.
Qed.

Lemma Bf_nil_l k q : Bf k [] q == 0.
Proof. revert k. induction q as [|b r IH]; intro k; cbn [Bf Emom]; [reflexivity|]. rewrite IH. ring. Qed.
Lemma Bf_cons_l k a p q : Bf k (a :: p) q == a * Emom k q + Bf (S k) p q.
Proof.
  revert k. induction q as [|b r IH]; intro k; cbn [Bf Emom]; [ring|]. rewrite IH. ring.
Qed.
Lemma Bf_sym p : forall k q, Bf k p q == Bf k q p.
Proof.
  induction p as [|a p IH]; intros k q.
  - rewrite Bf_nil_l. reflexivity.
  - rewrite Bf_cons_l, IH. reflexivity.
Qed.

Lemma B_h_lt n m : (m < n)%nat -> Bf 0 (hpoly n) (hpoly m) == 0.
Proof.
  intro H. rewrite Bf_sum. apply sumn_zero. intros j Hj. rewrite length_hpoly' in Hj.
  cbn [Nat.add]. rewrite E_low_zero by lia. ring.
Qed.
Lemma B_h_diag n : Bf 0 (hpoly n) (hpoly n) == factQ n.
Proof.
  rewrite Bf_sum, length_hpoly'. cbn [sumn Nat.add].
  rewrite sumn_zero by (intros j Hj; rewrite E_low_zero by lia; ring).
  rewrite (proj1 (lead_hpoly n)), E_top.
  setoid_replace (0 + sgnQ n * (sgnQ n * factQ n)) with (sgnQ n * sgnQ n * factQ n) by ring.
  rewrite sgnQ_sq. ring.
Qed.

Theorem hermite_orthogonal n m :
  Egauss (pmul (hpoly n) (hpoly m)) == if Nat.eqb n m then factQ n else 0.
Proof.
  unfold Egauss. rewrite E_pmul.
  destruct (Nat.eqb_spec n m) as [->|Hne]; [apply B_h_diag|].
  destruct (Nat.lt_ge_cases m n) as [H|H].
  - apply B_h_lt; exact H.
  - rewrite Bf_sym. apply B_h_lt. lia.
Qed.

Lemma factQ_pos n : 0 < factQ n.
Proof.
  induction n as [|n IH]; cbn [factQ]; [reflexivity|].
  pose proof (natQ_pos n). nra.
Qed.

(* ---------------------------------------------------------------- evaluation: the value recurrence is the polynomial *)
Lemma peval_padd p q x : peval (padd p q) x == peval p x + peval q x.
Proof.
  revert q. induction p as [|a p IH]; intro q; [cbn [padd peval]; ring|].
  destruct q as [|b q]; cbn [padd peval]; [ring|]. rewrite IH. ring.
Qed.
Lemma peval_pscale c p x : peval (pscale c p) x == c * peval p x.
Proof. induction p as [|a p IH]; cbn [pscale map peval]; [ring|]. fold (pscale c p). rewrite IH. ring. Qed.
Lemma peval_pshift p x : peval (pshift p) x == x * peval p x.
Proof. unfold pshift. cbn [peval]. ring. Qed.
Lemma peval_h_SS k x :
  peval (hpoly (S (S k))) x == - (x * peval (hpoly (S k)) x + natQ (S k) * peval (hpoly k) x).
Proof. rewrite hpoly_SS, peval_pscale, peval_padd, peval_pshift, peval_pscale. ring. Qed.

Lemma herm_loop_eval y : forall cnt ih pm1 pm2 j, (j < cnt)%nat ->
  pm1 == peval (hpoly (S ih)) y -> pm2 == peval (hpoly ih) y ->
  nth j (herm_loop natQ (fun _ => 1) y cnt (S (S ih)) pm1 pm2) 0 == peval (hpoly (S (S ih) + j)) y.
Proof.
  induction cnt as [|cnt IH]; intros ih pm1 pm2 j Hj H1 H2; [lia|].
  cbn [herm_loop].
  assert (E : Qred (- (y * pm1 + natQ (S (S ih) - 1) * pm2) / 1) == peval (hpoly (S (S ih))) y).
  { rewrite Qred_correct, peval_h_SS, H1, H2. replace (S (S ih) - 1)%nat with (S ih) by lia. field. }
  destruct j as [|j]; cbn [nth].
  - rewrite Nat.add_0_r. exact E.
  - rewrite (IH (S ih) _ pm1 j) by (try lia; assumption).
    replace (S (S (S ih)) + j)%nat with (S (S ih) + S j)%nat by lia. reflexivity.
Qed.

Lemma herm_unnorm_eval y n : nth n (herm_unnorm y (S n)) 0 == peval (hpoly n) y.
Proof.
  unfold herm_unnorm, herm_gen.
  destruct n as [|[|n]].
  - rewrite hpoly_0. cbn [nth peval]. ring.
  - rewrite hpoly_1. cbn [nth peval]. ring.
  - cbn [nth]. rewrite (herm_loop_eval y (S n) 0 (- y) 1 n) by (try lia; rewrite ?hpoly_1, ?hpoly_0; cbn [peval]; ring).
    replace (2 + n)%nat with (S (S n)) by lia. reflexivity.
Qed.

(* ---------------------------------------------------------------- the normalised recurrence of the code
   p_0 = 1, p_1 = -y, p_n = -(y p_{n-1} + s_{n-1} p_{n-2}) / s_n   (s_n stands for sqrt(n), s_1 = 1)
   is the recurrence with the roots cleared, divided by s_1 ... s_n: for ANY non-zero s,
   p_n . (s_1 ... s_n) = g_n  with  g_n = -(y g_{n-1} + s_{n-1}^2 g_{n-2}).
   With s_k^2 = k the g_n are the h_n above and (s_1 ... s_n)^2 = n!. *)
Fixpoint nprod (s : nat -> Q) (n : nat) : Q := match n with O => 1 | S k => s (S k) * nprod s k end.

Lemma herm_loop_scaled s y : (forall k, ~ s k == 0) ->
  forall cnt ih pm1 pm2 qm1 qm2 j, (j < cnt)%nat ->
  pm1 * nprod s (S ih) == qm1 -> pm2 * nprod s ih == qm2 ->
  nth j (herm_loop s s y cnt (S (S ih)) pm1 pm2) 0 * nprod s (S (S ih) + j) ==
  nth j (herm_loop (fun k => s k * s k) (fun _ => 1) y cnt (S (S ih)) qm1 qm2) 0.
Proof.
  intro Hs. induction cnt as [|cnt IH]; intros ih pm1 pm2 qm1 qm2 j Hj H1 H2; [lia|].
  cbn [herm_loop]. replace (S (S ih) - 1)%nat with (S ih) by lia.
  assert (E : Qred (- (y * pm1 + s (S ih) * pm2) / s (S (S ih))) * nprod s (S (S ih)) ==
              Qred (- (y * qm1 + s (S ih) * s (S ih) * qm2) / 1)).
  { rewrite !Qred_correct, <- H1, <- H2. cbn [nprod]. field. apply Hs. }
  destruct j as [|j]; cbn [nth].
  - rewrite Nat.add_0_r. exact E.
  - replace (S (S ih) + S j)%nat with (S (S (S ih)) + j)%nat by lia.
    apply (IH (S ih)); [lia|exact E|exact H1].
Qed.

Lemma herm_gen_scaled s y n : s 1%nat == 1 -> (forall k, ~ s k == 0) ->
  nth n (herm_gen s s y (S n)) 0 * nprod s n == nth n (herm_gen (fun k => s k * s k) (fun _ => 1) y (S n)) 0.
Proof.
  intros H1 Hs. unfold herm_gen. destruct n as [|[|n]].
  - cbn [nth nprod]. ring.
  - cbn [nth nprod]. rewrite H1. ring.
  - cbn [nth]. replace (S (S n)) with (2 + n)%nat by lia.
    apply (herm_loop_scaled s y Hs (S n) 0 (- y) 1 (- y) 1 n); [lia| |]; cbn [nprod]; rewrite ?H1; ring.
Qed.

(* the recurrence depends on its coefficients only through == *)
Lemma herm_loop_ext a a' b b' y : (forall k, a k == a' k) -> (forall k, b k == b' k) ->
  forall cnt ih pm1 pm2 qm1 qm2 j, pm1 == qm1 -> pm2 == qm2 ->
  nth j (herm_loop a b y cnt ih pm1 pm2) 0 == nth j (herm_loop a' b' y cnt ih qm1 qm2) 0.
Proof.
  intros Ha Hb. induction cnt as [|cnt IH]; intros ih pm1 pm2 qm1 qm2 j H1 H2; cbn [herm_loop]; [reflexivity|].
  assert (E : Qred (- (y * pm1 + a (ih - 1)%nat * pm2) / b ih) == Qred (- (y * qm1 + a' (ih - 1)%nat * qm2) / b' ih)).
  { rewrite !Qred_correct, H1, H2, Ha, Hb. reflexivity. }
  destruct j as [|j]; cbn [nth]; [exact E|]. apply IH; assumption.
Qed.

(* if the s_k are square roots (s_k^2 = k) the cleared recurrence is h_n and the scale is sqrt(n!) *)
Lemma nprod_sq s n : (forall k, s k * s k == natQ k) -> nprod s n * nprod s n == factQ n.
Proof.
  intro H. induction n as [|n IH]; cbn [nprod factQ]; [ring|].
  rewrite <- IH, <- (H (S n)). ring.
Qed.
Lemma herm_gen_sqrt s y n : (forall k, s k * s k == natQ k) ->
  nth n (herm_gen (fun k => s k * s k) (fun _ => 1) y (S n)) 0 == peval (hpoly n) y.
Proof.
  intro H. rewrite <- herm_unnorm_eval. unfold herm_unnorm, herm_gen.
  destruct n as [|[|n]]; cbn [nth]; try reflexivity.
  apply herm_loop_ext; try reflexivity; try exact H; intro; reflexivity.
Qed.

(* C04 proofs, pair 4, neighbourhood part: the ball-tree path of NeighMoving::_moving equals the exhaustive path when the
   eligible list holds the nmaxi samples strictly nearest to the target and every sample is usable. *)
From Coq Require Import List ZArith QArith Qabs Bool Arith Lia Lqa Permutation Sorting.Sorted.
From Gst Require Import lib.QAux C06.Model C06.Spec C06.Proofs C06.Proofs_moving C06.Proofs_select C04.Proofs_neigh.
Import ListNotations.

(* ------------------------------------------------------------------ list helpers *)
Lemma compress_ext nech sel sel' : (forall i, In i sel <-> In i sel') -> compress nech sel = compress nech sel'.
Proof.
  intro H. unfold compress. apply filter_ext. intro i.
  destruct (existsb (Nat.eqb i) sel) eqn:E1; destruct (existsb (Nat.eqb i) sel') eqn:E2; try reflexivity.
  - apply existsb_exists in E1. destruct E1 as [x [Hx Ex]].
    assert (C : existsb (Nat.eqb i) sel' = true) by (apply existsb_exists; exists x; split; [apply H; exact Hx|exact Ex]). congruence.
  - apply existsb_exists in E2. destruct E2 as [x [Hx Ex]].
    assert (C : existsb (Nat.eqb i) sel = true) by (apply existsb_exists; exists x; split; [apply H; exact Hx|exact Ex]). congruence.
Qed.

Lemma existsb_eqb_In i l : existsb (Nat.eqb i) l = true <-> In i l.
Proof.
  rewrite existsb_exists. split.
  - intros [x [Hx E]]. apply Nat.eqb_eq in E. subst x. exact Hx.
  - intro H. exists i. split; [exact H|apply Nat.eqb_refl].
Qed.

Lemma filter_none {B} (P : B -> bool) l : (forall u, In u l -> P u = false) -> filter P l = [].
Proof.
  induction l as [|x r IH]; intro H; [reflexivity|]. cbn [filter].
  rewrite (H x) by (left; reflexivity). apply IH. intros u Hu. apply H. right. exact Hu.
Qed.
Lemma filter_true_all {B} (P : B -> bool) l : (forall u, In u l -> P u = true) -> filter P l = l.
Proof.
  induction l as [|x r IH]; intro H; [reflexivity|]. cbn [filter].
  rewrite (H x) by (left; reflexivity). f_equal. apply IH. intros u Hu. apply H. right. exact Hu.
Qed.

(* a list sorted on a key, in which every element of a class E is strictly below every element outside it, is the elements of E
   followed by the others *)
Lemma sorted_partition {A} (key : A -> Q) (E : A -> bool) (L : list A) :
  StronglySorted (fun a b => key a <= key b) L ->
  (forall x y, In x L -> In y L -> E x = true -> E y = false -> key x < key y) ->
  L = filter E L ++ filter (fun x => negb (E x)) L.
Proof.
  intros HS. induction HS as [|x r HSr IH Hx]; intro Hsep; [reflexivity|].
  assert (Hsep' : forall a b, In a r -> In b r -> E a = true -> E b = false -> key a < key b)
    by (intros a b Ha Hb; apply Hsep; right; assumption).
  cbn [filter]. destruct (E x) eqn:Ex; cbn [negb app].
  - f_equal. apply IH. exact Hsep'.
  - assert (Hnone : filter E r = []).
    { apply filter_none. intros y Hy. destruct (E y) eqn:Ey; [|reflexivity]. exfalso.
      rewrite Forall_forall in Hx. pose proof (Hx y Hy) as L1.
      pose proof (Hsep y x (or_intror Hy) (or_introl eq_refl) Ey Ex) as L2. lra. }
    rewrite Hnone. cbn [app]. f_equal.
    rewrite (IH Hsep') at 1. rewrite Hnone. reflexivity.
Qed.

Lemma map_filter_comm {A B} (P : B -> bool) (f : A -> B) l : map f (filter (fun x => P (f x)) l) = filter P (map f l).
Proof. symmetry. apply filter_map_comm. Qed.

Lemma within_mono p a b : within p a = true -> b <= a -> within p b = true.
Proof.
  unfold within. destruct (p_radius p) as [r|]; [|reflexivity].
  rewrite !andb_true_iff, !qleb_true. intros [H1 H2] H3. split; [exact H1|lra].
Qed.

Section BallMoving.
Variable oracle : Q -> Q -> nat.
Variable p : params.
Variable t : target.
Variable samples : list sample.
Variable ell : list nat.
Let n := length samples.
Let smp (i : nat) : sample := nth i samples dummy_sample.
Let d (i : nat) : Q := dist2 p t (smp i).
Let Wi (i : nat) : bool := within p (d i).
Let g (i : nat) : nat * sample := (i, smp i).
Let mk (i : nat) : cand := mk_cand oracle p t (g i).

Hypothesis Hact : forall s, In s samples -> s_active s = true /\ discard_undefined s = false.
Hypothesis Hxv : p_xvalid p = false.
Hypothesis Hsect : p_nsect p = 1%nat.
Hypothesis Hchk : p_checkers p = [].
Hypothesis Hmaxi : (0 < p_nmaxi p)%Z.
Hypothesis Hmini : (p_nmini p <= p_nmaxi p)%Z.
Hypothesis Hnodup : NoDup ell.
Hypothesis Hlen : length ell = Z.to_nat (p_nmaxi p).
Hypothesis Hin : forall i, In i ell -> (i < n)%nat.
Hypothesis Hsep : forall i j, In i ell -> (j < n)%nat -> ~ In j ell -> d i < d j.

Lemma smp_in i : (i < n)%nat -> In (smp i) samples.
Proof. intro H. apply nth_In. exact H. Qed.

Lemma adm_eq i : (i < n)%nat -> admissible_b p t (smp i) = Wi i.
Proof.
  intro H. destruct (Hact (smp i) (smp_in i H)) as [Ha Hd].
  unfold admissible_b, checks_ok, xvalid. rewrite Ha, Hd, Hxv, Hchk. cbn [negb andb forallb]. rewrite ?andb_true_r, ?andb_true_l. reflexivity.
Qed.

Lemma mk_idx i : c_idx (mk i) = i.  Proof. reflexivity. Qed.
Lemma mk_d2 i : c_d2 (mk i) = d i.   Proof. reflexivity. Qed.
Lemma mk_sect i : c_sect (mk i) = 0%nat.
Proof. unfold mk, mk_cand. cbn [c_sect]. unfold flag_sector. rewrite Hsect. replace (1 <? 1)%nat with false by reflexivity. rewrite andb_false_r. reflexivity. Qed.

Definition IA : list nat := filter Wi (seq 0 n).
Definition IB : list nat := filter Wi ell.

Lemma candsA_eq : cand_loop oracle p t (enum samples) = map mk IA.
Proof.
  rewrite cand_loop_filter. rewrite (enum_as_map samples dummy_sample). rewrite filter_map_comm, map_map. unfold IA, mk, g, smp.
  f_equal. apply filter_ext_in. intros i Hi. apply in_seq in Hi. cbn [snd]. apply adm_eq. unfold n. lia.
Qed.

Lemma candsB_eq : cand_loop_ball oracle p t (map (fun i => (i, nth i samples dummy_sample)) ell) = map mk IB.
Proof.
  assert (G : forall l : list (nat * sample), (forall is, In is l -> s_active (snd is) = true) ->
             cand_loop_ball oracle p t l = cand_loop oracle p t l).
  { induction l as [|is r IH]; intro H; [reflexivity|]. cbn [cand_loop_ball cand_loop].
    rewrite cand_of_ball_active by (apply H; left; reflexivity).
    rewrite IH by (intros x Hx; apply H; right; exact Hx). reflexivity. }
  rewrite G.
  - rewrite cand_loop_filter, filter_map_comm, map_map. unfold IB, mk, g, smp. f_equal.
    apply filter_ext_in. intros i Hi. cbn [snd]. apply adm_eq. apply Hin. exact Hi.
  - intros is His. apply in_map_iff in His. destruct His as [i [<- Hi]]. cbn [snd].
    apply (Hact _ (smp_in i (Hin i Hi))).
Qed.

Lemma IA_nodup : NoDup IA.  Proof. apply NoDup_filter. apply seq_NoDup. Qed.
Lemma IB_nodup : NoDup IB.  Proof. apply NoDup_filter. exact Hnodup. Qed.
Lemma IA_in i : In i IA <-> (i < n)%nat /\ Wi i = true.
Proof. unfold IA. rewrite filter_In, in_seq. split; intros [H1 H2]; split; try assumption; lia. Qed.
Lemma IB_in i : In i IB <-> In i ell /\ Wi i = true.
Proof. unfold IB. apply filter_In. Qed.
Lemma IB_incl_IA i : In i IB -> In i IA.
Proof. rewrite IB_in, IA_in. intros [H1 H2]. split; [apply Hin; exact H1|exact H2]. Qed.

(* a usable sample outside the eligible list forces the whole list inside the radius *)
Lemma outsider_all_in j : In j IA -> ~ In j ell -> forall i, In i ell -> Wi i = true.
Proof.
  intros Hj Hnj i Hi. apply IA_in in Hj. destruct Hj as [Hjn Hjw].
  unfold Wi in *. apply (within_mono p (d j) (d i) Hjw). pose proof (Hsep i j Hi Hjn Hnj). lra.
Qed.

Lemma len_IB_le : (length IB <= Z.to_nat (p_nmaxi p))%nat.
Proof. rewrite <- Hlen. unfold IB. apply filter_length_le'. Qed.

(* the two candidate counts pass or fail the nmini test together *)
Lemma nmini_together : (Z.of_nat (length IA) <? p_nmini p)%Z = (Z.of_nat (length IB) <? p_nmini p)%Z.
Proof.
  destruct (forallb Wi ell) eqn:F.
  - rewrite forallb_forall in F.
    assert (EB : IB = ell) by (unfold IB; apply filter_true_all; exact F).
    assert (LA : (length ell <= length IA)%nat).
    { apply NoDup_incl_length; [exact Hnodup|]. intros i Hi. apply IA_in. split; [apply Hin; exact Hi|apply F; exact Hi]. }
    rewrite EB, Hlen in *.
    assert (E1 : (Z.of_nat (length IA) <? p_nmini p)%Z = false) by (apply Z.ltb_ge; lia).
    assert (E2 : (Z.of_nat (Z.to_nat (p_nmaxi p)) <? p_nmini p)%Z = false) by (apply Z.ltb_ge; lia).
    rewrite E1, E2. reflexivity.
  - assert (Hex : exists i0, In i0 ell /\ Wi i0 = false).
    { clear - F. induction ell as [|x r IH]; [discriminate|]. cbn [forallb] in F. destruct (Wi x) eqn:Ex.
      - cbn [andb] in F. destruct (IH F) as [i0 [H1 H2]]. exists i0. split; [right; exact H1|exact H2].
      - exists x. split; [left; reflexivity|exact Ex]. }
    destruct Hex as [i0 [Hi0 Hw0]].
    assert (P : Permutation IA IB).
    { apply NoDup_Permutation; [apply IA_nodup|apply IB_nodup|]. intro j. split; [|apply IB_incl_IA].
      intro Hj. apply IB_in. split; [|apply IA_in in Hj; tauto].
      destruct (in_dec Nat.eq_dec j ell) as [Y|N]; [exact Y|]. exfalso.
      pose proof (outsider_all_in j Hj N i0 Hi0). congruence. }
    rewrite (Permutation_length P). reflexivity.
Qed.

Definition E (c : cand) : bool := existsb (Nat.eqb (c_idx c)) ell.

(* the nmaxi closest usable samples are the usable samples of the eligible list *)
Lemma firstn_closest :
  firstn (Z.to_nat (p_nmaxi p)) (sort_cands (map mk IA)) = filter E (sort_cands (map mk IA)).
Proof.
  set (L := sort_cands (map mk IA)).
  assert (PL : Permutation L (map mk IA)) by apply sort_cands_perm.
  assert (HinL : forall c, In c L -> exists i, In i IA /\ c = mk i).
  { intros c Hc. apply (Permutation_in _ PL) in Hc. apply in_map_iff in Hc. destruct Hc as [i [<- Hi]]. exists i. split; [exact Hi|reflexivity]. }
  assert (Hsepc : forall x y, In x L -> In y L -> E x = true -> E y = false -> c_d2 x < c_d2 y).
  { intros x y Hx Hy Ex Ey. destruct (HinL x Hx) as [i [_ ->]]. destruct (HinL y Hy) as [j [Hj ->]].
    unfold E in Ex, Ey. rewrite mk_idx in Ex, Ey. apply existsb_eqb_In in Ex.
    assert (Nj : ~ In j ell) by (intro C; apply existsb_eqb_In in C; congruence).
    rewrite !mk_d2. apply (Hsep i j Ex); [|exact Nj]. apply IA_in in Hj. tauto. }
  pose proof (sorted_partition c_d2 E L (sort_cands_sorted (map mk IA)) Hsepc) as Part.
  (* indices of the E-part: no duplicate, all in ell *)
  assert (IdxE : map c_idx (filter E L) = filter (fun i => existsb (Nat.eqb i) ell) (map c_idx L))
    by (unfold E; apply (map_filter_comm (fun i => existsb (Nat.eqb i) ell) c_idx L)).
  assert (NDL : NoDup (map c_idx L)).
  { apply (Permutation_NoDup (l := IA)); [|apply IA_nodup].
    apply Permutation_sym. eapply Permutation_trans; [apply Permutation_map; exact PL|].
    rewrite map_map. rewrite (map_ext (fun i => c_idx (mk i)) (fun i => i)) by (intro; reflexivity). rewrite map_id. apply Permutation_refl. }
  assert (NDE : NoDup (map c_idx (filter E L))) by (rewrite IdxE; apply NoDup_filter; exact NDL).
  assert (InclE : incl (map c_idx (filter E L)) ell).
  { intros i Hi. rewrite IdxE in Hi. apply filter_In in Hi. apply existsb_eqb_In. tauto. }
  assert (Lm : (length (filter E L) <= Z.to_nat (p_nmaxi p))%nat).
  { rewrite <- Hlen. rewrite <- (map_length c_idx). apply NoDup_incl_length; assumption. }
  destruct (filter (fun x => negb (E x)) L) as [|c rest] eqn:Rest.
  - rewrite app_nil_r in Part. rewrite <- Part. apply firstn_all2. rewrite Part. exact Lm.
  - (* an outsider is usable: the whole eligible list is usable, so the E-part has exactly nmaxi elements *)
    assert (Hc : In c L /\ E c = false).
    { assert (Hc' : In c (filter (fun x => negb (E x)) L)) by (rewrite Rest; left; reflexivity).
      apply filter_In in Hc'. destruct Hc' as [H1 H2]. split; [exact H1|]. apply negb_true_iff. exact H2. }
    destruct Hc as [HcL Ec]. destruct (HinL c HcL) as [j [Hj ->]].
    assert (Nj : ~ In j ell) by (intro C; apply existsb_eqb_In in C; unfold E in Ec; rewrite mk_idx in Ec; congruence).
    pose proof (outsider_all_in j Hj Nj) as AllIn.
    assert (LenE : length (filter E L) = Z.to_nat (p_nmaxi p)).
    { rewrite <- Hlen. rewrite <- (map_length c_idx). apply Permutation_length.
      apply NoDup_Permutation; [exact NDE|exact Hnodup|]. intro i. split; [apply InclE|].
      intro Hi. rewrite IdxE. apply filter_In. split; [|apply existsb_eqb_In; exact Hi].
      apply (Permutation_in (l := IA)).
      - apply Permutation_sym. eapply Permutation_trans; [apply Permutation_map; exact PL|].
        rewrite map_map. rewrite (map_ext (fun i => c_idx (mk i)) (fun i => i)) by (intro; reflexivity). rewrite map_id. apply Permutation_refl.
      - apply IA_in. split; [apply Hin; exact Hi|apply AllIn; exact Hi]. }
    rewrite <- LenE.
    transitivity (firstn (length (filter E L)) (filter E L ++ mk j :: rest)).
    { f_equal. exact Part. }
    rewrite firstn_app, Nat.sub_diag, firstn_all. cbn [firstn]. apply app_nil_r.
Qed.

Lemma closest_idx i : In i (map c_idx (filter E (sort_cands (map mk IA)))) <-> In i IB.
Proof.
  split.
  - intro H. apply in_map_iff in H. destruct H as [c [<- Hc]]. apply filter_In in Hc. destruct Hc as [HcL Ec].
    apply (Permutation_in _ (sort_cands_perm _)) in HcL. apply in_map_iff in HcL. destruct HcL as [j [<- Hj]].
    unfold E in Ec. rewrite mk_idx in *. apply existsb_eqb_In in Ec. apply IB_in. split; [exact Ec|apply IA_in in Hj; tauto].
  - intro H. apply in_map_iff. exists (mk i). split; [reflexivity|]. apply filter_In. split.
    + apply (Permutation_in _ (Permutation_sym (sort_cands_perm _))). apply in_map. apply IB_incl_IA. exact H.
    + unfold E. rewrite mk_idx. apply existsb_eqb_In. apply IB_in in H. tauto.
Qed.

Lemma ball_moving_eq :
  r_ranks (moving_ball oracle p t samples ell) = r_ranks (moving oracle p t samples).
Proof.
  unfold moving_ball, moving. fold n.
  destruct (Z.of_nat n <? p_nmini p)%Z; [reflexivity|].
  rewrite candsA_eq, candsB_eq.
  assert (S0 : forall l c, In c (map mk l) -> c_sect c = 0%nat)
    by (intros l c Hc; apply in_map_iff in Hc; destruct Hc as [i [<- _]]; apply mk_sect).
  pose proof nmini_together as T. rewrite <- (map_length mk IA), <- (map_length mk IB) in T.
  destruct (Z.of_nat (length (map mk IA)) <? p_nmini p)%Z eqn:EA.
  - (* both refused *)
    symmetry in T. unfold moving_from. rewrite EA, T. reflexivity.
  - symmetry in T. apply Z.ltb_ge in EA, T.
    destruct (moving_single_sector p n (map mk IA) Hsect (S0 IA) ltac:(lia)) as [finA [EqA AlA]].
    destruct (moving_single_sector p n (map mk IB) Hsect (S0 IB) ltac:(lia)) as [finB [EqB AlB]].
    rewrite EqA, EqB. cbn [r_ranks].
    assert (NZ : (p_nmaxi p <=? 0)%Z = false) by (apply Z.leb_gt; exact Hmaxi).
    rewrite NZ in AlA, AlB.
    assert (IdxA : alive_idx finA = map c_idx (filter E (sort_cands (map mk IA)))).
    { unfold alive_idx. rewrite <- firstn_closest, <- AlA. rewrite map_map. reflexivity. }
    assert (IdxB : alive_idx finB = map c_idx (sort_cands (map mk IB))).
    { unfold alive_idx. rewrite <- (firstn_all2 (sort_cands (map mk IB)) (Z.to_nat (p_nmaxi p))).
      - rewrite <- AlB. rewrite map_map. reflexivity.
      - rewrite (Permutation_length (sort_cands_perm _)), map_length. apply len_IB_le. }
    rewrite IdxA, IdxB. apply compress_ext. intro i. split.
    + intro H. apply closest_idx. apply in_map_iff in H. destruct H as [c [<- Hc]].
      apply (Permutation_in _ (sort_cands_perm _)) in Hc. apply in_map_iff in Hc. destruct Hc as [j [<- Hj]]. exact Hj.
    + intro H. apply closest_idx in H. apply in_map_iff. exists (mk i). split; [reflexivity|].
      apply (Permutation_in _ (Permutation_sym (sort_cands_perm _))). apply in_map. exact H.
Qed.
End BallMoving.

(* ------------------------------------------------------------------ the eligible list delivered by the ball tree *)
(* Ball::getIndices(T1, nmaxi) = indices of the k-nearest-neighbour query (C06_knn).  When the tree's metric ranks the samples like
   the squared distance of _moving and no two samples are equidistant from the target, that list satisfies the premises above. *)
From Gst Require Import C06.Knn C06.Proofs_knn C06.Properties.

Lemma knn_eligibles dist nfeat (data : list pt) (okp : pt -> Prop) (dd : nat -> Q) n :
  length data = n ->
  (forall idxs, okp (centroid nfeat data idxs)) ->
  (forall i, (i < length data)%nat -> okp (getp data i)) ->
  (forall a b, okp a -> okp b -> 0 <= dist a b) ->
  (forall a b, okp a -> okp b -> dist a b == dist b a) ->
  (forall a b c, okp a -> okp b -> okp c -> dist a c <= dist a b + dist b c) ->
  forall leaf k q res, okp q -> (0 < k)%nat ->
  (forall i j, (i < n)%nat -> (j < n)%nat -> dist q (getp data i) <= dist q (getp data j) -> dd i <= dd j) ->
  (forall i j, (i < n)%nat -> (j < n)%nat -> i <> j -> ~ dd i == dd j) ->
  knn_query dist data (btree_init dist nfeat data leaf) k q = Some res ->
  let ell := map snd res in
  NoDup ell /\ length ell = k /\ (forall i, In i ell -> (i < n)%nat) /\
  (forall i j, In i ell -> (j < n)%nat -> ~ In j ell -> dd i < dd j).
Proof.
  intros Hn H1 H2 H3 H4 H5 leaf k q res Hq Hk Hord Hnt E ell.
  destruct (C06_knn dist nfeat data okp H1 H2 H3 H4 H5 leaf k q res Hq Hk E) as [Hl [He [Hnd [Hfar _]]]].
  split; [exact Hnd|]. split; [unfold ell; rewrite map_length; exact Hl|].
  assert (Hlt : forall i, In i ell -> (i < n)%nat).
  { intros i Hi. unfold ell in Hi. apply in_map_iff in Hi. destruct Hi as [e [<- He']].
    destruct (He e He') as [v [_ [L _]]]. rewrite <- Hn. exact L. }
  split; [exact Hlt|].
  intros i j Hi Hj Nj. pose proof (Hlt i Hi) as Li.
  unfold ell in Hi. apply in_map_iff in Hi. destruct Hi as [e [Ei He']].
  destruct (He e He') as [v [Ev [_ Hv]]].
  assert (Hj' : (j < length data)%nat) by (rewrite Hn; exact Hj).
  pose proof (Hfar e j He' Hj' Nj) as L. rewrite Ev in L. apply ext_le_some in L.
  rewrite Ei in Hv. rewrite Hv in L.
  pose proof (Hord i j Li Hj L) as L2.
  assert (Nij : i <> j) by (intro C; subst j; apply Nj; unfold ell; apply in_map_iff; exists e; split; assumption).
  pose proof (Hnt i j Li Hj Nij) as L3. destruct (Qlt_le_dec (dd i) (dd j)) as [Y|N]; [exact Y|]. exfalso. apply L3. lra.
Qed.

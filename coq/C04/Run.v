(* C04 runner (pair 1): layout of the covariance matrices (active-rank lists), pre-projected points, and the agreement of the
   squared distances of the two paths on every cell.  The kriging pairs use the runner of C01. *)
From Coq Require Import List Arith ZArith QArith Bool.
From Gst Require Import lib.Sx lib.QAux lib.LinAlgQ C04.Model.
Import ListNotations.

Definition transpose_cols (cols : list (list Q)) : list point :=
  let n := length (hd [] cols) in
  map (fun i => map (fun col => nth i col 0%Q) cols) (seq 0 n).

(* (coords[ndim][n] z[nvar][n] verr[nvar][n]|() fext sel[n]|()) *)
Definition asDb (s : sx) : option cdb :=
  match s with
  | L [c; z; v; _; sel] =>
      match asListOf (asListOf asQ) c, asListOf (asListOf asOQ) z, asListOf (asListOf asOQ) v, asListOf asB sel with
      | Some c', Some z', Some v', Some s' =>
          Some {| d_coords := transpose_cols c'; d_sel := s'; d_z := z'; d_verr := v' |}
      | _, _, _, _ => None
      end
  | _ => None
  end.

Definition ofPair (p : nat * nat) : sx := L [ofNat (fst p); ofNat (snd p)].

(* a Db whose coordinates may be undefined: the cdb (undefined coordinates read as 0) and one flag per sample "all coordinates defined" *)
Definition odefined (o : option Q) : bool := match o with Some _ => true | None => false end.
Definition ovalue (o : option Q) : Q := match o with Some q => q | None => 0%Q end.
Definition asDbC (s : sx) : option (cdb * list bool) :=
  match s with
  | L [c; z; v; _; sel] =>
      match asListOf (asListOf asOQ) c, asListOf (asListOf asOQ) z, asListOf (asListOf asOQ) v, asListOf asB sel with
      | Some c', Some z', Some v', Some s' =>
          let n := length (hd [] c') in
          Some ({| d_coords := transpose_cols (map (map ovalue) c'); d_sel := s'; d_z := z'; d_verr := v' |},
                map (fun i => forallb (fun col => odefined (nth i col None)) c') (seq 0 n))
      | _, _, _, _ => None
      end
  | _ => None
  end.
Definition b3 (k : nat) : bool * bool * bool := (Nat.odd k, Nat.odd (Nat.div2 k), Nat.odd (Nat.div2 (Nat.div2 k))).

(* case: (ndim nvar db1 db2|() tinvs ivar0 jvar0 nbgh1 nbgh2) *)
Definition run (c : sx) : sx :=
  match c with
  | L [I 13%Z; nv; d; iv0; nb] =>
      (* active-rank lists for the 8 combinations (useSel, useVerr, useCoord), bit 0 = useSel *)
      match asNat nv, asDbC d, asZ iv0, asListOf asNat nb with
      | Some nvar, Some (db, cdef), Some ivar0, Some nbgh =>
          let ivars := active_vars nvar ivar0 in
          ofList (fun k => let '(us, uv, uc) := b3 k in ofList (ofList ofNat) (multiple_ranks_c cdef db ivars nbgh us uv uc)) (seq 0 8)
      | _, _, _, _ => sx_error 3
      end
  | L [nd; nv; d1; d2; ts; iv0; jv0; n1; n2] =>
      match asNat nd, asNat nv, asDb d1, asListOf (asListOf (asListOf asQ)) ts, asZ iv0, asZ jv0,
            asListOf asNat n1, asListOf asNat n2 with
      | Some ndim, Some nvar, Some db1, Some tinvs, Some ivar0, Some jvar0, Some nbgh1, Some nbgh2 =>
          let db2o := match d2 with L [] => Some db1 | _ => asDb d2 end in
          match db2o with
          | None => sx_error 2
          | Some db2 =>
              let ivars := active_vars nvar ivar0 in
              let jvars := active_vars nvar jvar0 in
              let rows := flat ivars (multiple_ranks db1 ivars nbgh1 true false) in
              let cols := flat jvars (multiple_ranks db2 jvars nbgh2 true false) in
              let rowss := flat ivars (multiple_ranks db1 ivars nbgh1 true true) in
              let colss := flat jvars (multiple_ranks db2 jvars nbgh2 true true) in
              let structs := map (fun T => {| c_tinv := T; c_sill := [] |}) tinvs in
              let same :=
                forallb (fun s =>
                  let P1 := p1As ndim s db1 in
                  forallb (fun r => forallb (fun cc =>
                    qeqb (dist2 ndim (proj ndim (c_tinv s) (coords_at db2 (snd cc))) (p1A_get P1 (snd r)))
                         (aniso_d2 ndim (c_tinv s) (coords_at db1 (snd r)) (coords_at db2 (snd cc)))) cols) rows &&
                  forallb (fun r => forallb (fun cc =>
                    qeqb (dist2 ndim (p1A_get P1 (snd cc)) (p1A_get P1 (snd r)))
                         (aniso_d2 ndim (c_tinv s) (coords_at db1 (snd r)) (coords_at db1 (snd cc)))) rowss) rowss) structs in
              L [L [ofList ofPair rows; ofList ofPair cols]; L [ofList ofPair rowss; ofList ofPair rowss]; ofB same;
                 ofList (fun s => ofList (ofList ofQ) (p1As ndim s db1)) structs;
                 L [ofList ofPair rowss; ofList ofPair colss]]
          end
      | _, _, _, _, _, _, _, _ => sx_error 1
      end
  | _ => sx_error 0
  end.

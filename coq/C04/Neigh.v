(* C04 model, pair 2: the unique neighbourhood on the samples of the C06 model.
     NeighUnique::_unique    /repo/src/Neigh/NeighUnique.cpp:136   (+ getNeigh: ranks filled with -1, selected = 0, _neighCompress)
     ANeigh::_discardUndefined / _xvalid                           (C06.Model.discard_undefined / xvalid)
   Executable definitions only. *)
From Coq Require Import List ZArith QArith Bool Arith.
From Gst Require Import lib.QAux C06.Model.
Import ListNotations.

(* the chain of [continue]s of _unique: masked sample, every variable undefined, cross-validation exclusion *)
Definition unique_keep (p : params) (t : target) (s : sample) : bool :=
  s_active s && negb (discard_undefined s) && negb (xvalid p t s).
(* _neighCompress lists the selected ranks in increasing order: the loop order *)
Definition unique_ranks (p : params) (t : target) (samples : list sample) : list nat :=
  map fst (filter (fun is => unique_keep p t (snd is)) (enum samples)).

(* C04 proofs stated on the kriging model of C01: pairs 3 (xvalid shortcut), 5 (block with one point), 6 (collocated), 7 (KrigingCalcul) *)
From Coq Require Import List Arith ZArith QArith Bool Lqa Lia.
From Gst Require Import lib.QAux lib.LinAlgQ C01.Model C01.Proofs C02.Kriging C04.Algebra.
Import ListNotations.
Local Open Scope Q_scope.

(* ------------------------------------------------------------------ pair 3 *)
(* k' is the kriging case "sample equation i removed, target = that sample": its system is the full matrix K without row and
   column i, its right-hand side column i of K, its data the centred data y without entry i.  Then the kriging outputs of k'
   are the two expressions of KrigingSystem::_estimateCalculXvalidUnique, B being the inverse of the full matrix. *)
Lemma xvalid_unique_krige k' o' n K B i y m :
  krige k' = Some o' -> (0 < k_nvar k')%nat ->
  finv n K B -> fsym n K -> (i < n)%nat -> ~ B i i == 0 ->
  S (nred k') = n ->
  (forall a b, (a < nred k')%nat -> (b < nred k')%nat -> A_of o' a b == K (skip i a) (skip i b)) ->
  (forall a, (a < nred k')%nat -> r_of o' 0 a == K (skip i a) i) ->
  (forall a, (a < nred k')%nat -> vget (zext k') a == y (skip i a)) ->
  mean_of k' 0 == m -> get (k_c00 k') 0 0 == K i i ->
  est o' 0 == m - sum_except n i (fun j => B i j * (/ B i i) * y j) /\ var o' 0 == / B i i.
Proof.
  intros H Hv KB Ksym Hi Bii Hn HA Hr Hz Hm Hc.
  assert (Hin' : (i <= nred k')%nat) by lia.
  set (w := fun l => w_of o' 0 (unskip i l)).
  assert (Hw : forall j, (j < n)%nat -> j <> i -> sum_except n i (fun l => K j l * w l) == K j i).
  { intros j Hj Hne. rewrite <- Hn. rewrite <- (sum_except_skip (nred k') i (fun l => K j l * w l) Hin').
    assert (Ha : (unskip i j < nred k')%nat) by (apply unskip_lt; lia).
    assert (Ej : skip i (unskip i j) = j) by (apply skip_unskip; exact Hne).
    pose proof (krige_weights_solve k' o' H (unskip i j) 0%nat Ha Hv) as E. unfold fmul in E.
    rewrite (sumn_ext (nred k') (fun a => K j (skip i a) * w (skip i a))
                      (fun l => get (o_lhs o') (unskip i j) l * get (o_wgt o') l 0)).
    - rewrite E. pose proof (Hr (unskip i j) Ha) as R. unfold r_of in R. rewrite R, Ej. reflexivity.
    - intros b Hb. unfold w. rewrite unskip_skip. pose proof (HA (unskip i j) b Ha Hb) as A1. unfold A_of in A1.
      rewrite A1, Ej. unfold w_of. reflexivity. }
  destruct (loo_shortcut n K B KB i Hi Bii w y m Ksym Hw) as [S1 S2].
  split.
  - rewrite S1. unfold est. rewrite (krige_estim_primal k' o' 0%nat H Hv). rewrite Hm.
    rewrite <- Hn. rewrite <- (sum_except_skip (nred k') i (fun j => w j * y j) Hin').
    unfold fdot.
    rewrite (sumn_ext (nred k') (fun l => get (o_wgt o') l 0 * vget (zext k') l) (fun a => w (skip i a) * y (skip i a))).
    + ring.
    + intros a Ha. unfold w. rewrite unskip_skip. rewrite (Hz a Ha). unfold w_of. reflexivity.
  - rewrite S2. unfold var. rewrite (krige_var k' o' 0%nat H Hv). rewrite Hc.
    apply Qplus_comp; [reflexivity|]. apply Qopp_comp.
    rewrite <- Hn. rewrite <- (sum_except_skip (nred k') i (fun l => K i l * w l) Hin').
    unfold fdot. apply sumn_ext. intros a Ha.
    unfold w. rewrite unskip_skip. pose proof (Hr a Ha) as R. unfold r_of in R. rewrite R.
    assert (L : (skip i a < n)%nat) by (rewrite <- Hn; apply skip_lt; exact Ha).
    rewrite (Ksym (skip i a) i L Hi). unfold w_of. reflexivity.
Qed.

(* KrigingSystem::_getFlagAddress (as repaired): the rank of equation i = IND(iech, ivar) in the compressed system is the number
   of flagged equations before it; -1 (None) when the equation itself is not flagged.  That rank is the position of i in the
   list of active equations, i.e. the row of lhs_c (and of its inverse) that belongs to the cross-validated sample. *)
Definition flag_address (k : kcase) (i : nat) : option nat :=
  if flag k i then Some (length (filter (flag k) (seq 0 i))) else None.

Lemma flag_address_spec k i a :
  (i < neq k)%nat -> flag_address k i = Some a -> (a < nred k)%nat /\ nth a (active k) 0%nat = i.
Proof.
  intros Hi H. unfold flag_address in H. destruct (flag k i) eqn:F; [|discriminate]. injection H as <-.
  unfold nred, active.
  replace (neq k) with (i + S (neq k - S i))%nat by lia.
  rewrite seq_app. cbn [Nat.add seq]. rewrite filter_app. cbn [filter]. rewrite F.
  split.
  - rewrite app_length. cbn [length]. lia.
  - apply nth_middle.
Qed.

Lemma flag_address_none k i : flag_address k i = None -> ~ In i (active k).
Proof.
  unfold flag_address. destruct (flag k i) eqn:F; [discriminate|]. intros _ C.
  apply active_spec in C. destruct C as [_ C]. congruence.
Qed.

(* ------------------------------------------------------------------ pair 5 *)
(* DbGrid::getDiscretizedBlock (/repo/src/Db/DbGrid.cpp:2207): offset of discretisation point j of nd along one axis *)
Definition disc_offset (taille : Q) (nd j : nat) : Q :=
  taille * ((inject_Z (Z.of_nat j) + (1 # 2)) / inject_Z (Z.of_nat nd) - (1 # 2)).
Lemma disc_offset_single taille : disc_offset taille 1 0 == 0.
Proof. unfold disc_offset. cbn. field. Qed.

(* _rhsCalculBlock with one discretisation point: no normalisation, the value itself *)
Lemma crhs_mean_single k ie iv jv M : nth ie (k_crhs k) [] = [M] -> crhs_mean k ie iv jv == get M iv jv.
Proof. intro E. unfold crhs_mean. rewrite E. cbn [fold_right]. unfold mget. ring. Qed.

Definition with_crhs (k : kcase) (c : list (list mat)) : kcase :=
  {| k_nvar := k_nvar k; k_monos := k_monos k; k_nfex := k_nfex k; k_samples := k_samples k; k_means := k_means k;
     k_tcoord := k_tcoord k; k_tfext := k_tfext k; k_flag_verr := k_flag_verr k; k_clhs := k_clhs k; k_crhs := c; k_c00 := k_c00 k |}.

Lemma block1_rhs k cb i jv :
  (forall ie, exists Mb Mp, nth ie cb [] = [Mb] /\ nth ie (k_crhs k) [] = [Mp] /\ forall a b, get Mb a b == get Mp a b) ->
  rhs_full (with_crhs k cb) i jv == rhs_full k i jv.
Proof.
  intro Hc. unfold rhs_full. change (nech (with_crhs k cb)) with (nech k). change (k_nvar (with_crhs k cb)) with (k_nvar k).
  destruct (Nat.ltb i (k_nvar k * nech k)).
  - destruct (Hc (i mod nech k)%nat) as [Mb [Mp [E1 [E2 E3]]]].
    rewrite (crhs_mean_single (with_crhs k cb) _ _ _ Mb) by exact E1.
    rewrite (crhs_mean_single k _ _ _ Mp) by exact E2. apply E3.
  - reflexivity.
Qed.

(* ------------------------------------------------------------------ pair 6 *)
(* ANeigh::_updateColCok (/repo/src/Neigh/ANeigh.cpp:239): the target enters the list of ranks as -1.
   KrigingSystem::_getIdim / _getIvar / _getFext (KrigingSystem.cpp:350, 384, 365): rank < 0 designates the target: its
   coordinates and external drifts, and for variable ivar the column rankColCok[ivar] of the output Db (undefined when ITEST). *)
Definition ITESTZ : Z := (-1234567)%Z.
Definition update_colcok (rank_colcok : list Z) (tcol : Z -> oq) (coincides : bool) (ranks : list Z) : list Z :=
  match rank_colcok with
  | [] => ranks
  | _ => if negb (existsb (fun jvar => (0 <=? jvar)%Z && defined (tcol jvar)) rank_colcok) then ranks
         else if coincides then ranks else ranks ++ [(-1)%Z]
  end.
Definition colcok_datum (tcoord : list Q) (tfext : list oq) (rank_colcok : list Z) (tcol : Z -> oq) : sample :=
  {| s_coord := map Some tcoord;
     s_z := map (fun jvar => if Z.eqb jvar ITESTZ then None else tcol jvar) rank_colcok;
     s_verr := []; s_fext := tfext |}.
Definition sample_of_rank (data : list sample) (tgt : sample) (r : Z) : sample :=
  if (r <? 0)%Z then tgt else nth (Z.to_nat r) data {| s_coord := []; s_z := []; s_verr := []; s_fext := [] |}.

Lemma colcok_samples data tcoord tfext rank_colcok tcol ranks :
  existsb (fun jvar => (0 <=? jvar)%Z && defined (tcol jvar)) rank_colcok = true ->
  map (sample_of_rank data (colcok_datum tcoord tfext rank_colcok tcol)) (update_colcok rank_colcok tcol false ranks) =
  map (sample_of_rank data (colcok_datum tcoord tfext rank_colcok tcol)) ranks ++ [colcok_datum tcoord tfext rank_colcok tcol].
Proof.
  intro H. unfold update_colcok. destruct rank_colcok as [|r0 rr]; [discriminate|].
  rewrite H. cbn [negb]. rewrite map_app. reflexivity.
Qed.

(* without a defined collocated value, or when the target coincides with a selected sample, nothing is added *)
Lemma colcok_samples_none rank_colcok tcol ranks c :
  existsb (fun jvar => (0 <=? jvar)%Z && defined (tcol jvar)) rank_colcok = false \/ c = true ->
  update_colcok rank_colcok tcol c ranks = ranks.
Proof.
  intro H. unfold update_colcok. destruct rank_colcok as [|r0 rr]; [reflexivity|].
  destruct H as [H|H]; [rewrite H; reflexivity|].
  subst c. destruct (negb _); reflexivity.
Qed.

(* ------------------------------------------------------------------ pair 7 *)
(* when the left-hand side of the kriging model is the block matrix [Sigma X; Xt 0] and its right-hand side [sigma0; x0], the
   weights returned are KrigingCalcul's lambda_uk followed by minus its Lagrange multipliers *)
Lemma calcul_eq_system k o v n p Sigma S X C sigma0 x0 Bb :
  krige k = Some o -> (v < k_nvar k)%nat -> nred k = (n + p)%nat ->
  finv n Sigma S -> finv p (M n S X) C -> finv (n + p) (A_of o) Bb ->
  (forall a b, (a < n + p)%nat -> (b < n + p)%nat -> A_of o a b == K_block n Sigma X a b) ->
  (forall a, (a < n + p)%nat -> r_of o v a == r_block n sigma0 x0 a) ->
  forall a, (a < n + p)%nat -> w_of o v a == w_block n p S X C sigma0 x0 a.
Proof.
  intros H Hv Hn HS HC HB HA Hr a Ha. symmetry.
  rewrite <- Hn in HB, Ha.
  apply (krige_weights_unique k o Bb (w_block n p S X C sigma0 x0) v H Hv HB); [|exact Ha].
  intros a' Ha'. rewrite Hn in Ha'.
  pose proof (Hr a' Ha') as R. unfold r_of in R. rewrite R.
  rewrite <- (schur_block_system n p Sigma S X C sigma0 x0 HS HC a' Ha').
  rewrite Hn. apply fmv_ext; intros l Hl; [|reflexivity]. apply (HA a' l Ha' Hl).
Qed.

(* ------------------------------------------------------------------ pair 7: every member of KrigingCalcul, packaged *)
Lemma M_sym n S X : fsym n S -> forall p, fsym p (M n S X).
Proof.
  intros Ssym p k l _ _. unfold M.
  rewrite (dual_eq_primal n S (fun i => X i k) (fun j => X j l) Ssym). apply fdot_comm.
Qed.

Lemma calcul_forms n p Sigma S X C sigma0 x0 z sigma00 :
  finv n Sigma S -> finv p (M n S X) C -> fsym n Sigma ->
  let lsk := lam_sk n S sigma0 in
  let luk := lam_uk n p S X C sigma0 x0 in
  let m := mu n p S X C sigma0 x0 in
  (* simple kriging: _LambdaSK = Inv(Sigma) Sigma0 solves the system; _VarZSK = LambdaSK^t Sigma0 *)
  (forall i, (i < n)%nat -> fmv n Sigma lsk i == sigma0 i) /\
  fdot n lsk (fmv n Sigma lsk) == fdot n lsk sigma0 /\
  (* universal kriging: _LambdaUK = LambdaSK + Inv(Sigma) X MuUK and _MuUK = Sigmac Y0^t solve the block system *)
  (forall a, (a < n + p)%nat -> fmv (n + p) (K_block n Sigma X) (w_block n p S X C sigma0 x0) a == r_block n sigma0 x0 a) /\
  (* _Zstar: primal form = dual form *)
  fdot n sigma0 (b_dual n p S X C z) + fdot p x0 (c_dual n p S X C z) == fdot n luk z /\
  (* _VarZUK = LambdaUK^t Sigma LambdaUK is what KrigingSystem computes as lambda.sigma0 + mu.x0 *)
  fdot n luk (fmv n Sigma luk) == fdot n luk sigma0 + fdot p m x0 /\
  (* _Stdv (UK) = Sigma00 - LambdaUK^t Sigma0 + MuUK^t X0^t is the variance of the estimation error *)
  sigma00 - fdot n luk sigma0 + fdot p m x0 == sigma00 - 2 * fdot n luk sigma0 + fdot n luk (fmv n Sigma luk).
Proof.
  intros HS HC Ssig lsk luk m.
  assert (Ssym : fsym n S) by (apply (finv_sym n Sigma S Ssig HS)).
  assert (Csym : fsym p C) by (apply (finv_sym p (M n S X) C (M_sym n S X Ssym p) HC)).
  split; [intros i Hi; apply (sk_system n Sigma S sigma0 HS i Hi)|].
  split; [apply (sk_varz n Sigma S sigma0 HS)|].
  split; [intros a Ha; apply (schur_block_system n p Sigma S X C sigma0 x0 HS HC a Ha)|].
  split; [apply (schur_dual n p S X C sigma0 x0 z Ssym Csym)|].
  split; [apply (schur_varz n p Sigma S X C sigma0 x0 HS HC)|].
  apply (schur_stdv n p Sigma S X C sigma0 x0 HS HC sigma00).
Qed.

Lemma calcul_sk_mean n Sigma S sigma0 z (m : Q) :
  finv n Sigma S -> fsym n Sigma ->
  fdot n (lam_sk n S sigma0) z + m == fdot n sigma0 (fmv n S z) + m.
Proof. intros HS Hs. exact (sk_primal_dual n S sigma0 z m (finv_sym n Sigma S Hs HS)). Qed.

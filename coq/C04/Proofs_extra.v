(* C04 proofs, extension round: hoisted active-rank lists, sparse covariance matrix, kriging through pre-projected points,
   per-cell block discretisation *)
From Coq Require Import List Arith ZArith QArith Qabs Bool Lqa Lia.
From Gst Require Import lib.QAux lib.LinAlgQ C04.Model C04.Proofs_covmat.
Import ListNotations.
Local Open Scope Q_scope.

(* ------------------------------------------------------------------ active-rank lists *)
Lemma ranks_active_c_nocoord cdef db nbgh item us uv :
  ranks_active_c cdef db nbgh item us uv false = ranks_active db nbgh item us uv.
Proof.
  unfold ranks_active_c, ranks_active, init_ranks, item_of, usev_of. apply filter_ext. intro x.
  unfold keep_rank_c. cbn [negb orb]. apply andb_true_r.
Qed.

Lemma filter_filter {A} (f g : A -> bool) l : filter f (filter g l) = filter (fun x => g x && f x) l.
Proof.
  induction l as [|x r IH]; [reflexivity|]. cbn [filter]. destruct (g x); cbn [andb filter]; [|exact IH].
  destruct (f x); rewrite IH; reflexivity.
Qed.

Lemma keep_rank_split cdef db item us uv uc x :
  keep_rank_c cdef db None us false uc x && keep_rank_c cdef db item false uv false x = keep_rank_c cdef db item us uv uc x.
Proof.
  unfold keep_rank_c, keep_rank. cbn [andb negb orb].
  destruct (negb (us && has_sel db) || nth x (d_sel db) false); cbn [andb]; [|reflexivity].
  destruct (negb uc || coord_ok cdef x); cbn [andb]; [|rewrite !andb_false_r; reflexivity].
  destruct item as [v|]; [|reflexivity]. rewrite !andb_true_r. reflexivity.
Qed.

(* making the variable-independent tests once, then the per-variable tests on the explicit candidate list, gives the lists of
   the direct form, for every combination of options, sub-list, selection -- including when nothing is left *)
Lemma ranks_hoisted_eq cdef db ivars nbgh us uv uc :
  multiple_ranks_hoisted cdef db ivars nbgh us uv uc = multiple_ranks_c cdef db ivars nbgh us uv uc.
Proof.
  unfold multiple_ranks_hoisted, multiple_ranks_c, ranks_active_c. apply map_ext. intro v.
  rewrite filter_filter. apply filter_ext. intro x. apply keep_rank_split.
Qed.

(* ------------------------------------------------------------------ a grid of guarded cells, read at (i, j) *)
Lemma cellk_filter k i j r c v :
  filter (P_ij i j) (cellk k r c v) = if Nat.eqb r i && Nat.eqb c j && k then [{| u_r := r; u_c := c; u_v := v |}] else [].
Proof.
  unfold cellk. destruct k; cbn [filter]; unfold P_ij; cbn [u_r u_c].
  - destruct (Nat.eqb r i && Nat.eqb c j); reflexivity.
  - rewrite andb_false_r. reflexivity.
Qed.

Lemma grid_matches (K : nat * (nat * nat) -> nat * (nat * nat) -> bool) (V : nat * (nat * nat) -> nat * (nat * nat) -> Q)
                   (rows cols : list (nat * nat)) i j :
  (i < length rows)%nat -> (j < length cols)%nat ->
  matches (concat (map (fun r => concat (map (fun c => cellk (K r c) (fst r) (fst c) (V r c)) (enum_from 0 cols))) (enum_from 0 rows))) i j =
  if K (i, nth i rows (0, 0)%nat) (j, nth j cols (0, 0)%nat) then [V (i, nth i rows (0, 0)%nat) (j, nth j cols (0, 0)%nat)] else [].
Proof.
  intros Hi Hj. unfold matches. fold (P_ij i j).
  rewrite (filter_select (P_ij i j) _ rows 0 i (0, 0)%nat).
  - cbn [Nat.leb andb Nat.add]. rewrite Nat.sub_0_r. apply Nat.ltb_lt in Hi. rewrite Hi.
    rewrite (filter_select (P_ij i j) _ cols 0 j (0, 0)%nat).
    + cbn [Nat.leb andb Nat.add]. rewrite Nat.sub_0_r. apply Nat.ltb_lt in Hj. rewrite Hj.
      rewrite cellk_filter. cbn [fst snd]. rewrite !Nat.eqb_refl. cbn [andb].
      destruct (K (i, nth i rows (0, 0)%nat) (j, nth j cols (0, 0)%nat)); reflexivity.
    + intros k x Hne. rewrite cellk_filter. cbn [fst]. apply Nat.eqb_neq in Hne. rewrite Hne, andb_false_r. reflexivity.
  - intros k x Hne. rewrite filter_concat_map.
    rewrite (map_ext _ (fun _ => [])).
    + apply concat_map_nil.
    + intro c. rewrite cellk_filter. cbn [fst]. apply Nat.eqb_neq in Hne. rewrite Hne. reflexivity.
Qed.

Section Sparse.
Variable cor : nat -> Q -> Q.
Variable ndim : nat.
Variable structs : list cstruct.

Lemma sparse_canon eps c0 db1 db2 ivars jvars index1 index2 :
  sparse_updates cor ndim structs eps c0 db1 db2 ivars jvars index1 index2 =
  concat (map (fun r => concat (map (fun c =>
      cellk (sparse_keep eps c0 (fst (snd r)) (fst (snd c))
               (cov_plain cor ndim structs (coords_at db1 (snd (snd r))) (coords_at db2 (snd (snd c))) (fst (snd r)) (fst (snd c))))
            (fst r) (fst c)
            (cov_plain cor ndim structs (coords_at db1 (snd (snd r))) (coords_at db2 (snd (snd c))) (fst (snd r)) (fst (snd c))))
      (enum_from 0 (flat jvars index2)))) (enum_from 0 (flat ivars index1))).
Proof.
  unfold sparse_updates. rewrite loop_var_spec. cbn [fst]. rewrite concat_concat, map_map.
  f_equal. apply map_ext. intro r. rewrite loop_var_spec. cbn [fst]. reflexivity.
Qed.

(* the triplets of evalCovMatrixSparse: at (i, j) the value of the plain matrix when it passes the threshold, nothing otherwise *)
Lemma sparse_matches eps c0 db1 db2 ivars jvars index1 index2 i j :
  let rows := flat ivars index1 in let cols := flat jvars index2 in
  (i < length rows)%nat -> (j < length cols)%nat ->
  let v := cov_plain cor ndim structs (coords_at db1 (snd (nth i rows (0, 0)%nat))) (coords_at db2 (snd (nth j cols (0, 0)%nat)))
                     (fst (nth i rows (0, 0)%nat)) (fst (nth j cols (0, 0)%nat)) in
  matches (sparse_updates cor ndim structs eps c0 db1 db2 ivars jvars index1 index2) i j =
  if sparse_keep eps c0 (fst (nth i rows (0, 0)%nat)) (fst (nth j cols (0, 0)%nat)) v then [v] else [].
Proof.
  intros rows cols Hi Hj v. rewrite sparse_canon.
  rewrite (grid_matches
    (fun r c => sparse_keep eps c0 (fst (snd r)) (fst (snd c))
                  (cov_plain cor ndim structs (coords_at db1 (snd (snd r))) (coords_at db2 (snd (snd c))) (fst (snd r)) (fst (snd c))))
    (fun r c => cov_plain cor ndim structs (coords_at db1 (snd (snd r))) (coords_at db2 (snd (snd c))) (fst (snd r)) (fst (snd c)))
    (flat ivars index1) (flat jvars index2) i j Hi Hj).
  reflexivity.
Qed.

Lemma sparse_keep_zero eps c0 a b v : eps == 0 -> sparse_keep eps c0 a b v = true.
Proof. intro E. unfold sparse_keep. apply qleb_true. rewrite E. pose proof (Qabs_nonneg v). lra. Qed.

(* with a zero threshold the sparse matrix is the plain rectangular matrix built on the same index lists *)
Lemma sparse_eq_plain eps c0 db1 db2 ivars jvars index1 index2 i j :
  eps == 0 ->
  (i < length (flat ivars index1))%nat -> (j < length (flat jvars index2))%nat ->
  read_set (sparse_updates cor ndim structs eps c0 db1 db2 ivars jvars index1 index2) i j =
  read_set (plain_updates cor ndim structs false db1 db2 ivars jvars index1 index2) i j.
Proof.
  intros E Hi Hj. unfold read_set.
  rewrite (sparse_matches eps c0 db1 db2 ivars jvars index1 index2 i j Hi Hj).
  rewrite (plain_matches cor ndim structs false db1 db2 ivars jvars index1 index2 i j Hi Hj eq_refl).
  rewrite sparse_keep_zero by exact E. reflexivity.
Qed.

(* ------------------------------------------------------------------ covariance through the pre-projected points *)
Lemma cov_projected_eq p1 p2 ivar jvar :
  (forall s a b, a == b -> cor s a == cor s b) ->
  cov_projected cor ndim structs p1 p2 ivar jvar == cov_plain cor ndim structs p1 p2 ivar jvar.
Proof.
  intro Hc. unfold cov_projected, cov_plain. apply sumL_ext. intros ks _. cbv beta.
  rewrite (Hc (fst ks) _ _ (proj_dist ndim (c_tinv (snd ks)) p1 p2)). reflexivity.
Qed.
End Sparse.

(* ------------------------------------------------------------------ per-cell discretisation *)
Lemma disc_off_proper t t' nd j : t == t' -> disc_off t nd j == disc_off t' nd j.
Proof. intro E. unfold disc_off. rewrite E. reflexivity. Qed.

Lemma disc_point_percell blex dx : Forall2 Qeq blex dx ->
  forall ndiscs js, Forall2 Qeq (disc_point blex ndiscs js) (disc_point dx ndiscs js).
Proof.
  induction 1 as [|t t' r r' E _ IH]; intros ndiscs js; [constructor|].
  destruct ndiscs as [|nd nr]; [constructor|]. destruct js as [|j jr]; [constructor|].
  unfold disc_point. cbn [combine map fst snd]. constructor; [apply disc_off_proper; exact E|apply IH].
Qed.

(* C04 proofs, pair 1: optimised covariance matrices = plain ones *)
From Coq Require Import List Arith ZArith QArith Bool Lqa Lia.
From Gst Require Import lib.QAux lib.LinAlgQ C04.Model.
Import ListNotations.
Local Open Scope Q_scope.

(* ------------------------------------------------------------------ enumerations with an absolute start *)
Definition enum_from {A} (c : nat) (l : list A) : list (nat * A) := combine (seq c (length l)) l.

Lemma enum_from_cons {A} c (x : A) l : enum_from c (x :: l) = (c, x) :: enum_from (S c) l.
Proof. reflexivity. Qed.
Lemma enum_from_nil {A} c : enum_from c (@nil A) = [].
Proof. reflexivity. Qed.
Lemma enum_is_from {A} (l : list A) : enum_ l = enum_from 0 l.
Proof. reflexivity. Qed.

Lemma enum_from_app {A} c (a b : list A) : enum_from c (a ++ b) = enum_from c a ++ enum_from (c + length a) b.
Proof.
  revert c. induction a as [|x a IH]; intro c.
  - cbn [app length]. rewrite Nat.add_0_r. reflexivity.
  - cbn [app]. rewrite !enum_from_cons. cbn [app length]. rewrite IH. f_equal. f_equal. f_equal. lia.
Qed.

Lemma enum_from_length {A} c (l : list A) : length (enum_from c l) = length l.
Proof. unfold enum_from. rewrite combine_length, seq_length. apply Nat.min_id. Qed.

(* ------------------------------------------------------------------ the counters are the positions *)
Lemma loop_ech_spec {A} (f : nat -> nat -> A) l cnt :
  loop_ech f l cnt = (map (fun ke => f (fst ke) (snd ke)) (enum_from cnt l), (cnt + length l)%nat).
Proof.
  revert cnt. induction l as [|e r IH]; intro cnt.
  - cbn. rewrite Nat.add_0_r. reflexivity.
  - cbn [loop_ech]. rewrite IH. rewrite enum_from_cons. cbn [map fst snd length]. f_equal. lia.
Qed.

Lemma flat_cons v vr l lr : flat (v :: vr) (l :: lr) = map (pair v) l ++ flat vr lr.
Proof. reflexivity. Qed.
Lemma flat_nil_l index : flat [] index = [].
Proof. reflexivity. Qed.
Lemma flat_nil_r vars : flat vars [] = [].
Proof. destruct vars; reflexivity. Qed.

Lemma enum_from_map_pair {A} c (v : nat) (l : list A) :
  enum_from c (map (pair v) l) = map (fun ke => (fst ke, (v, snd ke))) (enum_from c l).
Proof.
  revert c. induction l as [|e r IH]; intro c; [reflexivity|].
  cbn [map]. rewrite !enum_from_cons. cbn [map fst snd]. rewrite IH. reflexivity.
Qed.

Lemma loop_var_spec {A} (f : nat -> nat -> nat -> A) vars index cnt :
  loop_var f vars index cnt =
  (map (fun kve => f (fst (snd kve)) (fst kve) (snd (snd kve))) (enum_from cnt (flat vars index)),
   (cnt + length (flat vars index))%nat).
Proof.
  revert index cnt. induction vars as [|v vr IH]; intros index cnt.
  - cbn. rewrite Nat.add_0_r. reflexivity.
  - destruct index as [|l lr].
    + cbn. rewrite Nat.add_0_r. reflexivity.
    + cbn [loop_var]. rewrite loop_ech_spec. rewrite IH. rewrite flat_cons.
      rewrite enum_from_app, map_app, app_length, map_length.
      rewrite enum_from_map_pair, map_map. cbn [fst snd]. f_equal. lia.
Qed.

(* ------------------------------------------------------------------ reading an update list *)
Lemma concat_concat {A} (L : list (list (list A))) : concat (concat L) = concat (map (@concat A) L).
Proof. induction L as [|x r IH]; [reflexivity|]. cbn [concat map]. rewrite concat_app, IH. reflexivity. Qed.

Lemma filter_concat_map {A B} (P : B -> bool) (H : A -> list B) l :
  filter P (concat (map H l)) = concat (map (fun x => filter P (H x)) l).
Proof. induction l as [|x r IH]; [reflexivity|]. cbn [map concat]. rewrite filter_app, IH. reflexivity. Qed.

Lemma filter_none {B} (P : B -> bool) l : (forall u, In u l -> P u = false) -> filter P l = [].
Proof.
  induction l as [|x r IH]; intro H; [reflexivity|]. cbn [filter].
  rewrite (H x) by (left; reflexivity). apply IH. intros u Hu. apply H. right. exact Hu.
Qed.

(* among the blocks of an enumeration, only the one whose key is i survives a filter that demands key i *)
Lemma filter_select {A B} (P : B -> bool) (H : nat * A -> list B) (l : list A) (c0 i : nat) (d : A) :
  (forall k x, k <> i -> filter P (H (k, x)) = []) ->
  filter P (concat (map H (enum_from c0 l))) =
  if (c0 <=? i)%nat && (i <? c0 + length l)%nat then filter P (H (i, nth (i - c0) l d)) else [].
Proof.
  intro Hk. revert c0. induction l as [|x r IH]; intro c0.
  - cbn [enum_from_nil map concat filter length]. rewrite Nat.add_0_r.
    destruct (c0 <=? i)%nat eqn:E1; destruct (i <? c0)%nat eqn:E2; cbn [andb]; try reflexivity.
    apply Nat.leb_le in E1. apply Nat.ltb_lt in E2. lia.
  - rewrite enum_from_cons. cbn [map concat]. rewrite filter_app. rewrite IH. cbn [length].
    destruct (Nat.eq_dec c0 i) as [E|E].
    + subst c0. rewrite Nat.sub_diag. cbn [nth].
      assert (E1 : (i <=? i)%nat = true) by (apply Nat.leb_le; lia).
      assert (E2 : (i <? i + S (length r))%nat = true) by (apply Nat.ltb_lt; lia).
      assert (E3 : (S i <=? i)%nat = false) by (apply Nat.leb_gt; lia).
      rewrite E1, E2, E3. cbn [andb]. apply app_nil_r.
    + rewrite (Hk c0 x E). cbn [app].
      destruct (Nat.lt_ge_cases c0 i) as [L|G].
      * assert (E1 : (c0 <=? i)%nat = true) by (apply Nat.leb_le; lia).
        assert (E2 : (S c0 <=? i)%nat = true) by (apply Nat.leb_le; lia).
        rewrite E1, E2. cbn [andb]. replace (S c0 + length r)%nat with (c0 + S (length r))%nat by lia.
        replace (i - c0)%nat with (S (i - S c0)) by lia. reflexivity.
      * assert (E1 : (c0 <=? i)%nat = false) by (apply Nat.leb_gt; lia).
        assert (E2 : (S c0 <=? i)%nat = false) by (apply Nat.leb_gt; lia).
        rewrite E1, E2. reflexivity.
Qed.

Lemma sumL_app a b : sumL (a ++ b) == sumL a + sumL b.
Proof. induction a as [|x r IH]; cbn [sumL app]; [ring|]. rewrite IH. ring. Qed.
Lemma sumL_ext {A} (f g : A -> Q) l : (forall x, In x l -> f x == g x) -> sumL (map f l) == sumL (map g l).
Proof.
  induction l as [|x r IH]; intro H; [reflexivity|]. cbn [map sumL].
  rewrite (H x) by (left; reflexivity). rewrite IH by (intros y Hy; apply H; right; exact Hy). reflexivity.
Qed.

(* ------------------------------------------------------------------ geometry: projection first, or difference first *)
Lemma vget_proj ndim T p i : (i < ndim)%nat -> vget (proj ndim T p) i = sumn ndim (fun d => get T i d * vget p d).
Proof. intro H. unfold proj. apply vget_vk. exact H. Qed.

Lemma proj_dist ndim T a b :
  dist2 ndim (proj ndim T b) (proj ndim T a) == aniso_d2 ndim T a b.
Proof.
  unfold dist2, aniso_d2, norm2. apply sumn_ext. intros i Hi.
  rewrite !vget_proj by exact Hi.
  assert (E : sumn ndim (fun d => get T i d * vget (vsubp ndim b a) d) ==
              sumn ndim (fun d => get T i d * vget b d) - sumn ndim (fun d => get T i d * vget a d)).
  { rewrite <- sumn_sub. apply sumn_ext. intros d Hd. unfold vsubp. rewrite vget_vk by exact Hd. ring. }
  rewrite E. ring.
Qed.

(* the stored projected point of an active sample *)
Lemma p1A_get_active ndim s db e :
  (e < d_n db)%nat -> is_active db e = true ->
  p1A_get (p1As ndim s db) e = proj ndim (c_tinv s) (coords_at db e).
Proof.
  intros He Ha. unfold p1A_get, p1As, samples_as_sp. rewrite map_map.
  rewrite (nth_map_seq _ (d_n db) e ([] : point) He). rewrite Ha. reflexivity.
Qed.

(* ------------------------------------------------------------------ the index lists hold active samples *)
Lemma ranks_active_spec db nbgh item uv e :
  Forall (fun x => (x < d_n db)%nat) nbgh ->
  In e (ranks_active db nbgh item true uv) -> (e < d_n db)%nat /\ is_active db e = true.
Proof.
  intros Hn Hin. unfold ranks_active in Hin. apply filter_In in Hin. destruct Hin as [Hi Hk]. split.
  - destruct nbgh as [|x r].
    + apply in_seq in Hi. lia.
    + rewrite Forall_forall in Hn. apply Hn. exact Hi.
  - unfold keep_rank in Hk. apply andb_prop in Hk. destruct Hk as [Hs _].
    unfold is_active. cbn [andb] in Hs. destruct (has_sel db); cbn [negb orb] in Hs; [exact Hs|reflexivity].
Qed.

Definition holds_active (db : cdb) (pairs : list (nat * nat)) : Prop :=
  forall p, In p pairs -> (snd p < d_n db)%nat /\ is_active db (snd p) = true.

Lemma flat_In vars index p : In p (flat vars index) -> exists l, In l index /\ In (snd p) l.
Proof.
  revert index. induction vars as [|v vr IH]; intros index H; [contradiction|].
  destruct index as [|l lr]; [contradiction|].
  rewrite flat_cons in H. apply in_app_or in H. destruct H as [H|H].
  - apply in_map_iff in H. destruct H as [e [E He]]. subst p. exists l. split; [left; reflexivity|exact He].
  - destruct (IH lr H) as [l' [H1 H2]]. exists l'. split; [right; exact H1|exact H2].
Qed.

Lemma multiple_ranks_active db ivars nbgh uv :
  Forall (fun x => (x < d_n db)%nat) nbgh ->
  holds_active db (flat ivars (multiple_ranks db ivars nbgh true uv)).
Proof.
  intros Hn p Hp. destruct (flat_In _ _ _ Hp) as [l [Hl He]].
  unfold multiple_ranks in Hl. apply in_map_iff in Hl. destruct Hl as [v [E _]]. subst l.
  apply (ranks_active_spec db nbgh v uv (snd p) Hn He).
Qed.

(* ------------------------------------------------------------------ canonical forms of the two programs *)
Section Canon.
Variable cor : nat -> Q -> Q.
Variable ndim : nat.
Variable structs : list cstruct.
Hypothesis cor_proper : forall s a b, a == b -> cor s a == cor s b.

Definition P_ij (i j : nat) (u : upd) : bool := Nat.eqb (u_r u) i && Nat.eqb (u_c u) j.

Lemma cell_filter fs i j r c v :
  filter (P_ij i j) (cell fs r c v) =
  if Nat.eqb r i && Nat.eqb c j && keep fs r c then [{| u_r := r; u_c := c; u_v := v |}] else [].
Proof.
  unfold cell. destruct (keep fs r c); cbn [filter]; unfold P_ij; cbn [u_r u_c].
  - destruct (Nat.eqb r i && Nat.eqb c j); reflexivity.
  - rewrite andb_false_r. reflexivity.
Qed.

Lemma cell_filter_row fs i j r c v : r <> i -> filter (P_ij i j) (cell fs r c v) = [].
Proof. intro H. rewrite cell_filter. apply Nat.eqb_neq in H. rewrite H. reflexivity. Qed.
Lemma cell_filter_col fs i j r c v : c <> j -> filter (P_ij i j) (cell fs r c v) = [].
Proof. intro H. rewrite cell_filter. apply Nat.eqb_neq in H. rewrite H. rewrite andb_false_r. reflexivity. Qed.

(* a block "for all rows: cell r c (V r)" filtered on (i, j) *)
Lemma rows_block_filter fs (V : nat * (nat * nat) -> Q) rows i j c :
  filter (P_ij i j) (concat (map (fun r => cell fs (fst r) c (V r)) (enum_from 0 rows))) =
  if (i <? length rows)%nat && Nat.eqb c j && keep fs i c
  then [{| u_r := i; u_c := c; u_v := V (i, nth i rows (0, 0)%nat) |}] else [].
Proof.
  rewrite (filter_select (P_ij i j) (fun r => cell fs (fst r) c (V r)) rows 0 i (0, 0)%nat)
    by (intros k x Hk; apply cell_filter_row; exact Hk).
  cbn [Nat.leb andb Nat.add]. rewrite Nat.sub_0_r.
  destruct (i <? length rows)%nat; cbn [andb]; [|reflexivity].
  rewrite cell_filter. cbn [fst]. rewrite Nat.eqb_refl. cbn [andb]. reflexivity.
Qed.

Lemma plain_canon fs db1 db2 ivars jvars index1 index2 :
  plain_updates cor ndim structs fs db1 db2 ivars jvars index1 index2 =
  concat (map (fun r => concat (map (fun c =>
      cell fs (fst r) (fst c) (cov_plain cor ndim structs (coords_at db1 (snd (snd r))) (coords_at db2 (snd (snd c))) (fst (snd r)) (fst (snd c))))
      (enum_from 0 (flat jvars index2)))) (enum_from 0 (flat ivars index1))).
Proof.
  unfold plain_updates. rewrite loop_var_spec. cbn [fst]. rewrite concat_concat, map_map.
  f_equal. apply map_ext. intro r. rewrite loop_var_spec. cbn [fst]. reflexivity.
Qed.

Lemma optim_column_canon fs ks P1 p2A ivars index1 ivar2 icol :
  optim_column cor ndim fs ks P1 p2A ivars index1 ivar2 icol =
  concat (map (fun r => cell fs (fst r) icol
                 (sill_at (snd ks) (fst (snd r)) ivar2 * cor (fst ks) (dist2 ndim p2A (p1A_get P1 (snd (snd r))))))
              (enum_from 0 (flat ivars index1))).
Proof. unfold optim_column. rewrite loop_var_spec. cbn [fst]. reflexivity. Qed.

(* what one reads at (i, j) in the plain matrix *)
Lemma plain_matches fs db1 db2 ivars jvars index1 index2 i j :
  let rows := flat ivars index1 in let cols := flat jvars index2 in
  (i < length rows)%nat -> (j < length cols)%nat -> keep fs i j = true ->
  matches (plain_updates cor ndim structs fs db1 db2 ivars jvars index1 index2) i j =
  [cov_plain cor ndim structs (coords_at db1 (snd (nth i rows (0, 0)%nat))) (coords_at db2 (snd (nth j cols (0, 0)%nat)))
             (fst (nth i rows (0, 0)%nat)) (fst (nth j cols (0, 0)%nat))].
Proof.
  intros rows cols Hi Hj Hk. unfold matches. fold (P_ij i j). rewrite plain_canon. fold rows. fold cols.
  rewrite (filter_select (P_ij i j) _ rows 0 i (0, 0)%nat).
  - cbn [Nat.leb andb Nat.add]. rewrite Nat.sub_0_r. apply Nat.ltb_lt in Hi. rewrite Hi.
    rewrite (filter_select (P_ij i j) _ cols 0 j (0, 0)%nat).
    + cbn [Nat.leb andb Nat.add]. rewrite Nat.sub_0_r. apply Nat.ltb_lt in Hj. rewrite Hj.
      rewrite cell_filter. cbn [fst snd]. rewrite !Nat.eqb_refl, Hk. cbn [andb map u_v]. reflexivity.
    + intros k x Hne. apply cell_filter_col. exact Hne.
  - intros k x Hne. rewrite filter_concat_map.
    assert (E : map (fun c : nat * (nat * nat) => filter (P_ij i j)
                 (cell fs (fst (k, x)) (fst c) (cov_plain cor ndim structs (coords_at db1 (snd (snd (k, x)))) (coords_at db2 (snd (snd c))) (fst (snd (k, x))) (fst (snd c)))))
               (enum_from 0 cols) = map (fun _ => []) (enum_from 0 cols))
      by (apply map_ext; intro c; apply cell_filter_row; exact Hne).
    rewrite E. clear E. induction (enum_from 0 cols) as [|y r IH]; [reflexivity|exact IH].
Qed.

Lemma concat_map_nil {A B} (l : list A) : concat (map (fun _ : A => @nil B) l) = [].
Proof. induction l as [|x r IH]; [reflexivity|exact IH]. Qed.

(* what one reads at (i, j) in the optimised matrix, for a generic target point per structure and column *)
Lemma optim_generic_matches fs (P1 : cstruct -> list point) (tgt : cstruct -> nat -> point) ivars jvars index1 index2 i j :
  let rows := flat ivars index1 in let cols := flat jvars index2 in
  (i < length rows)%nat -> (j < length cols)%nat -> keep fs i j = true ->
  matches (concat (fst (loop_var (fun ivar2 icol iech2 =>
             concat (map (fun ks => optim_column cor ndim fs ks (P1 (snd ks)) (tgt (snd ks) iech2) ivars index1 ivar2 icol) (enum_ structs)))
             jvars index2 0%nat))) i j =
  map (fun ks => sill_at (snd ks) (fst (nth i rows (0, 0)%nat)) (fst (nth j cols (0, 0)%nat)) *
                 cor (fst ks) (dist2 ndim (tgt (snd ks) (snd (nth j cols (0, 0)%nat))) (p1A_get (P1 (snd ks)) (snd (nth i rows (0, 0)%nat)))))
      (enum_ structs).
Proof.
  intros rows cols Hi Hj Hk. unfold matches. fold (P_ij i j). rewrite loop_var_spec. cbn [fst]. fold cols.
  rewrite (filter_select (P_ij i j) _ cols 0 j (0, 0)%nat).
  - cbn [Nat.leb andb Nat.add]. rewrite Nat.sub_0_r. apply Nat.ltb_lt in Hj. rewrite Hj.
    rewrite filter_concat_map. cbn [fst snd].
    assert (E : forall ks,
      filter (P_ij i j) (optim_column cor ndim fs ks (P1 (snd ks)) (tgt (snd ks) (snd (nth j cols (0, 0)%nat))) ivars index1 (fst (nth j cols (0, 0)%nat)) j) =
      [{| u_r := i; u_c := j;
          u_v := sill_at (snd ks) (fst (nth i rows (0, 0)%nat)) (fst (nth j cols (0, 0)%nat)) *
                 cor (fst ks) (dist2 ndim (tgt (snd ks) (snd (nth j cols (0, 0)%nat))) (p1A_get (P1 (snd ks)) (snd (nth i rows (0, 0)%nat)))) |}]).
    { intro ks. rewrite optim_column_canon. fold rows.
      rewrite (rows_block_filter fs (fun r => sill_at (snd ks) (fst (snd r)) (fst (nth j cols (0, 0)%nat)) *
                  cor (fst ks) (dist2 ndim (tgt (snd ks) (snd (nth j cols (0, 0)%nat))) (p1A_get (P1 (snd ks)) (snd (snd r))))) rows i j j).
      apply Nat.ltb_lt in Hi. rewrite Hi, Nat.eqb_refl, Hk. cbn [andb snd]. reflexivity. }
    rewrite (map_ext _ _ E). clear E.
    induction (enum_ structs) as [|ks r IH]; [reflexivity|]. cbn [map concat app u_v]. rewrite IH. reflexivity.
  - intros k x Hne. rewrite filter_concat_map.
    assert (E : forall ks : nat * cstruct,
      filter (P_ij i j) (optim_column cor ndim fs ks (P1 (snd ks)) (tgt (snd ks) (snd (snd (k, x)))) ivars index1 (fst (snd (k, x))) (fst (k, x))) = []).
    { intro ks. rewrite optim_column_canon. rewrite filter_concat_map.
      rewrite (map_ext _ (fun _ => []))  by (intro r; apply cell_filter_col; exact Hne).
      apply concat_map_nil. }
    rewrite (map_ext _ _ E). apply concat_map_nil.
Qed.

(* ------------------------------------------------------------------ the two theorems *)
Lemma covmat_optim_eq db1 db2 ivars jvars index1 index2 i j :
  let rows := flat ivars index1 in let cols := flat jvars index2 in
  holds_active db1 rows ->
  (i < length rows)%nat -> (j < length cols)%nat ->
  read_add (optim_updates cor ndim structs db1 db2 ivars jvars index1 index2) i j ==
  read_set (plain_updates cor ndim structs false db1 db2 ivars jvars index1 index2) i j /\
  read_set (plain_updates cor ndim structs false db1 db2 ivars jvars index1 index2) i j =
  cov_plain cor ndim structs (coords_at db1 (snd (nth i rows (0, 0)%nat))) (coords_at db2 (snd (nth j cols (0, 0)%nat)))
            (fst (nth i rows (0, 0)%nat)) (fst (nth j cols (0, 0)%nat)).
Proof.
  intros rows cols Hact Hi Hj. subst rows cols.
  assert (Hp : read_set (plain_updates cor ndim structs false db1 db2 ivars jvars index1 index2) i j =
    cov_plain cor ndim structs (coords_at db1 (snd (nth i (flat ivars index1) (0, 0)%nat))) (coords_at db2 (snd (nth j (flat jvars index2) (0, 0)%nat)))
              (fst (nth i (flat ivars index1) (0, 0)%nat)) (fst (nth j (flat jvars index2) (0, 0)%nat))).
  { unfold read_set. rewrite (plain_matches false db1 db2 ivars jvars index1 index2 i j Hi Hj eq_refl). reflexivity. }
  split; [|exact Hp]. rewrite Hp. unfold read_add, optim_updates.
  rewrite (optim_generic_matches false (fun s => p1As ndim s db1) (fun s e => proj ndim (c_tinv s) (coords_at db2 e))
             ivars jvars index1 index2 i j Hi Hj eq_refl).
  unfold cov_plain. apply sumL_ext. intros ks _. cbv beta.
  destruct (Hact (nth i (flat ivars index1) (0, 0)%nat) (nth_In (flat ivars index1) (0, 0)%nat Hi)) as [Hn Ha].
  rewrite (p1A_get_active ndim (snd ks) db1 _ Hn Ha).
  rewrite (cor_proper (fst ks) _ _ (proj_dist ndim (c_tinv (snd ks)) (coords_at db1 (snd (nth i (flat ivars index1) (0, 0)%nat))) (coords_at db2 (snd (nth j (flat jvars index2) (0, 0)%nat))))).
  reflexivity.
Qed.

Lemma covmat_optim_sym_eq db1 ivars index1 i j :
  let rows := flat ivars index1 in
  holds_active db1 rows ->
  (i <= j)%nat -> (j < length rows)%nat ->
  read_add (optim_updates_sym cor ndim structs db1 ivars index1) i j ==
  read_set (plain_updates cor ndim structs true db1 db1 ivars ivars index1 index1) i j /\
  read_set (plain_updates cor ndim structs true db1 db1 ivars ivars index1 index1) i j =
  cov_plain cor ndim structs (coords_at db1 (snd (nth i rows (0, 0)%nat))) (coords_at db1 (snd (nth j rows (0, 0)%nat)))
            (fst (nth i rows (0, 0)%nat)) (fst (nth j rows (0, 0)%nat)).
Proof.
  intros rows Hact Hij Hj. subst rows.
  assert (Hi : (i < length (flat ivars index1))%nat) by lia.
  assert (Hk : keep true i j = true) by (unfold keep; cbn [negb orb]; apply Nat.leb_le; exact Hij).
  assert (Hp : read_set (plain_updates cor ndim structs true db1 db1 ivars ivars index1 index1) i j =
    cov_plain cor ndim structs (coords_at db1 (snd (nth i (flat ivars index1) (0, 0)%nat))) (coords_at db1 (snd (nth j (flat ivars index1) (0, 0)%nat)))
              (fst (nth i (flat ivars index1) (0, 0)%nat)) (fst (nth j (flat ivars index1) (0, 0)%nat))).
  { unfold read_set. rewrite (plain_matches true db1 db1 ivars ivars index1 index1 i j Hi Hj Hk). reflexivity. }
  split; [|exact Hp]. rewrite Hp. unfold read_add, optim_updates_sym.
  rewrite (optim_generic_matches true (fun s => p1As ndim s db1) (fun s e => p1A_get (p1As ndim s db1) e)
             ivars ivars index1 index1 i j Hi Hj Hk).
  unfold cov_plain. apply sumL_ext. intros ks _. cbv beta.
  destruct (Hact (nth i (flat ivars index1) (0, 0)%nat) (nth_In (flat ivars index1) (0, 0)%nat Hi)) as [Hn Ha].
  destruct (Hact (nth j (flat ivars index1) (0, 0)%nat) (nth_In (flat ivars index1) (0, 0)%nat Hj)) as [Hn' Ha'].
  rewrite (p1A_get_active ndim (snd ks) db1 _ Hn Ha), (p1A_get_active ndim (snd ks) db1 _ Hn' Ha').
  rewrite (cor_proper (fst ks) _ _ (proj_dist ndim (c_tinv (snd ks)) (coords_at db1 (snd (nth i (flat ivars index1) (0, 0)%nat))) (coords_at db1 (snd (nth j (flat ivars index1) (0, 0)%nat))))).
  reflexivity.
Qed.
End Canon.

(* ------------------------------------------------------------------ with the index lists the code computes *)
Lemma covmat_optim_thm (cor : nat -> Q -> Q) ndim structs nvar db1 db2 ivar0 jvar0 nbgh1 nbgh2 :
  (forall s a b, a == b -> cor s a == cor s b) ->
  Forall (fun x => (x < d_n db1)%nat) nbgh1 ->
  let ivars := active_vars nvar ivar0 in
  let jvars := active_vars nvar jvar0 in
  let index1 := multiple_ranks db1 ivars nbgh1 true false in
  let index2 := multiple_ranks db2 jvars nbgh2 true false in
  let rows := flat ivars index1 in
  let cols := flat jvars index2 in
  forall i j, (i < length rows)%nat -> (j < length cols)%nat ->
  read_add (optim_updates cor ndim structs db1 db2 ivars jvars index1 index2) i j ==
  read_set (plain_updates cor ndim structs false db1 db2 ivars jvars index1 index2) i j /\
  read_set (plain_updates cor ndim structs false db1 db2 ivars jvars index1 index2) i j =
  cov_plain cor ndim structs (coords_at db1 (snd (nth i rows (0, 0)%nat))) (coords_at db2 (snd (nth j cols (0, 0)%nat)))
            (fst (nth i rows (0, 0)%nat)) (fst (nth j cols (0, 0)%nat)).
Proof.
  intros Hcor Hn ivars jvars index1 index2 rows cols i j Hi Hj.
  apply (covmat_optim_eq cor ndim structs Hcor db1 db2 ivars jvars index1 index2 i j); [|exact Hi|exact Hj].
  apply multiple_ranks_active. exact Hn.
Qed.

Lemma covmat_optim_sym_thm (cor : nat -> Q -> Q) ndim structs nvar db1 ivar0 nbgh1 :
  (forall s a b, a == b -> cor s a == cor s b) ->
  Forall (fun x => (x < d_n db1)%nat) nbgh1 ->
  let ivars := active_vars nvar ivar0 in
  let index1 := multiple_ranks db1 ivars nbgh1 true true in
  let rows := flat ivars index1 in
  forall i j, (i <= j)%nat -> (j < length rows)%nat ->
  read_add (optim_updates_sym cor ndim structs db1 ivars index1) i j ==
  read_set (plain_updates cor ndim structs true db1 db1 ivars ivars index1 index1) i j /\
  read_set (plain_updates cor ndim structs true db1 db1 ivars ivars index1 index1) i j =
  cov_plain cor ndim structs (coords_at db1 (snd (nth i rows (0, 0)%nat))) (coords_at db1 (snd (nth j rows (0, 0)%nat)))
            (fst (nth i rows (0, 0)%nat)) (fst (nth j rows (0, 0)%nat)).
Proof.
  intros Hcor Hn ivars index1 rows i j Hij Hj.
  apply (covmat_optim_sym_eq cor ndim structs Hcor db1 ivars index1 i j); [|exact Hij|exact Hj].
  apply multiple_ranks_active. exact Hn.
Qed.

(* C04 proofs, pairs 2 and 4: stated on the neighbourhood / ball-tree models of C06 *)
From Coq Require Import List ZArith QArith Qabs Bool Arith Lia Lqa Permutation Sorting.Sorted.
From Gst Require Import lib.QAux C06.Model C06.Spec C06.Proofs C06.Proofs_moving C06.Knn C06.Properties C04.Neigh.
Import ListNotations.

(* ------------------------------------------------------------------ list helpers *)
Lemma filter_map_comm {A B} (P : B -> bool) (g : A -> B) l : filter P (map g l) = map g (filter (fun x => P (g x)) l).
Proof. induction l as [|x r IH]; [reflexivity|]. cbn [map filter]. destruct (P (g x)); cbn [map]; rewrite IH; reflexivity. Qed.

Lemma compress_perm nech sel sel' : Permutation sel sel' -> compress nech sel = compress nech sel'.
Proof.
  intro H. unfold compress. apply filter_ext. intro i.
  destruct (existsb (Nat.eqb i) sel) eqn:E1; destruct (existsb (Nat.eqb i) sel') eqn:E2; try reflexivity.
  - apply existsb_exists in E1. destruct E1 as [x [Hx Ex]].
    assert (C : existsb (Nat.eqb i) sel' = true) by (apply existsb_exists; exists x; split; [apply (Permutation_in _ H); exact Hx|exact Ex]).
    congruence.
  - apply existsb_exists in E2. destruct E2 as [x [Hx Ex]].
    assert (C : existsb (Nat.eqb i) sel = true) by (apply existsb_exists; exists x; split; [apply (Permutation_in _ (Permutation_sym H)); exact Hx|exact Ex]).
    congruence.
Qed.

Lemma compress_filter_seq n (Q : nat -> bool) : compress n (filter Q (seq 0 n)) = filter Q (seq 0 n).
Proof.
  unfold compress. apply filter_ext_in. intros i Hi.
  destruct (Q i) eqn:E.
  - apply existsb_exists. exists i. split; [apply filter_In; split; assumption|apply Nat.eqb_refl].
  - destruct (existsb (Nat.eqb i) (filter Q (seq 0 n))) eqn:E2; [|reflexivity].
    apply existsb_exists in E2. destruct E2 as [x [Hx Ex]]. apply Nat.eqb_eq in Ex. subst x.
    apply filter_In in Hx. destruct Hx as [_ Hx]. congruence.
Qed.

Lemma map_fst_filter_enum {A} (P : nat * A -> bool) (l : list A) (d : A) :
  map fst (filter P (enum l)) = filter (fun i => P (i, nth i l d)) (seq 0 (length l)).
Proof.
  rewrite (enum_as_map l d). rewrite filter_map_comm, map_map. cbn [fst]. apply map_id.
Qed.

(* ------------------------------------------------------------------ pair 2 *)
Section UniqueMoving.
Variable oracle : Q -> Q -> nat.
Variable p : params.
Variable t : target.
Variable samples : list sample.
Hypothesis Hsect : p_nsect p = 1%nat.
Hypothesis Hchk : p_checkers p = [].
Hypothesis Hrad : forall s, In s samples -> within p (dist2 p t s) = true.
Hypothesis Hmaxi : (p_nmaxi p <= 0)%Z \/ (length samples <= Z.to_nat (p_nmaxi p))%nat.

Lemma admissible_is_unique_keep s : In s samples -> admissible_b p t s = unique_keep p t s.
Proof.
  intro Hs. unfold admissible_b, unique_keep, checks_ok. rewrite Hchk, (Hrad s Hs). cbn [forallb].
  rewrite !andb_true_r. reflexivity.
Qed.

Lemma adm_filter_eq :
  filter (fun is => admissible_b p t (snd is)) (enum samples) = filter (fun is => unique_keep p t (snd is)) (enum samples).
Proof.
  apply filter_ext_in. intros [i s] His. cbn [snd]. apply admissible_is_unique_keep.
  unfold enum in His. apply in_combine_r in His. exact His.
Qed.

Lemma flag_sector_off : flag_sector p = false.
Proof. unfold flag_sector. rewrite Hsect. replace (1 <? 1)%nat with false by reflexivity. apply andb_false_r. Qed.

Lemma unique_eq_moving_wide :
  (p_nmini p <= Z.of_nat (length (unique_ranks p t samples)))%Z ->
  r_code (moving oracle p t samples) = 0%Z /\ r_ranks (moving oracle p t samples) = unique_ranks p t samples.
Proof.
  intro Hmini.
  set (adm := filter (fun is => unique_keep p t (snd is)) (enum samples)).
  set (cands := cand_loop oracle p t (enum samples)).
  assert (Ec : cands = map (mk_cand oracle p t) adm) by (unfold cands, adm; rewrite cand_loop_filter, adm_filter_eq; reflexivity).
  assert (Lu : length (unique_ranks p t samples) = length adm) by (unfold unique_ranks; apply map_length).
  assert (Lc : length cands = length adm) by (rewrite Ec; apply map_length).
  assert (Ladm : (length adm <= length samples)%nat).
  { unfold adm. eapply Nat.le_trans; [apply filter_length_le'|]. unfold enum. rewrite combine_length, seq_length. lia. }
  assert (Hs0 : forall c, In c cands -> c_sect c = 0%nat).
  { intros c Hc. rewrite Ec in Hc. apply in_map_iff in Hc. destruct Hc as [is [<- _]]. unfold mk_cand. cbn [c_sect].
    rewrite flag_sector_off. reflexivity. }
  assert (Hm : (p_nmini p <= Z.of_nat (length cands))%Z) by (rewrite Lc, <- Lu; exact Hmini).
  unfold moving. fold cands.
  assert (E0 : (Z.of_nat (length samples) <? p_nmini p)%Z = false) by (apply Z.ltb_ge; lia).
  rewrite E0.
  destruct (moving_single_sector p (length samples) cands Hsect Hs0 Hm) as [fin [E Hal]].
  rewrite E. cbn [r_code r_ranks]. split; [reflexivity|].
  assert (Hall : map fst (filter (fun ca => snd ca) fin) = sort_cands cands).
  { rewrite Hal. destruct (p_nmaxi p <=? 0)%Z eqn:E1; [reflexivity|].
    apply firstn_all2. rewrite (Permutation_length (sort_cands_perm cands)).
    destruct Hmaxi as [Hx|Hx]; [apply Z.leb_gt in E1; lia|lia]. }
  assert (Hidx : alive_idx fin = map c_idx (sort_cands cands)).
  { unfold alive_idx. rewrite <- Hall. rewrite map_map. reflexivity. }
  rewrite Hidx.
  rewrite (compress_perm (length samples) (map c_idx (sort_cands cands)) (map c_idx cands))
    by (apply Permutation_map; apply sort_cands_perm).
  assert (Ei : map c_idx cands = map fst adm).
  { rewrite Ec, map_map. apply map_ext. intro is. reflexivity. }
  rewrite Ei. unfold unique_ranks. fold adm. unfold adm.
  rewrite (map_fst_filter_enum (fun is => unique_keep p t (snd is)) samples dummy_sample).
  apply compress_filter_seq.
Qed.
End UniqueMoving.

(* ------------------------------------------------------------------ pair 4: k = 1 *)
Lemma ball_nearest dist nfeat data (okp : pt -> Prop) :
  (forall idxs, okp (centroid nfeat data idxs)) ->
  (forall i, (i < length data)%nat -> okp (getp data i)) ->
  (forall a b, okp a -> okp b -> 0 <= dist a b) ->
  (forall a b, okp a -> okp b -> dist a b == dist b a) ->
  (forall a b c, okp a -> okp b -> okp c -> dist a c <= dist a b + dist b c) ->
  forall leaf q res, okp q ->
  knn_query dist data (btree_init dist nfeat data leaf) 1 q = Some res ->
  exists v i, res = [(Some v, i)] /\ (i < length data)%nat /\ v == dist q (getp data i) /\
              forall j, (j < length data)%nat -> dist q (getp data i) <= dist q (getp data j).
Proof.
  intros H1 H2 H3 H4 H5 leaf q res Hq E.
  destruct (C06_knn dist nfeat data okp H1 H2 H3 H4 H5 leaf 1%nat q res Hq ltac:(lia) E) as [Hl [He [_ [Hfar _]]]].
  destruct res as [|e r]; [discriminate|]. destruct r as [|e2 r2]; [|cbn in Hl; lia].
  destruct (He e (or_introl eq_refl)) as [v [Ev [Hi Hv]]].
  destruct e as [o i]. cbn [fst snd] in *. subst o.
  exists v, i. split; [reflexivity|]. split; [exact Hi|]. split; [exact Hv|].
  intros j Hj. destruct (Nat.eq_dec j i) as [->|Hne]; [apply Qle_refl|].
  assert (Hnot : ~ In j (map snd [(Some v, i)])) by (cbn; intros [C|C]; [congruence|exact C]).
  pose proof (Hfar (Some v, i) j (or_introl eq_refl) Hj Hnot) as L. cbn [fst] in L.
  unfold ext_le, ext_lt in L. apply negb_true_iff in L. apply qltb_false in L. rewrite <- Hv. exact L.
Qed.

(* ... and when the minimum is attained once, it is THE sample exhaustive search returns *)
Lemma ball_nearest_unique (dist : pt -> pt -> Q) data q i i' :
  (i < length data)%nat -> (i' < length data)%nat ->
  (forall j, (j < length data)%nat -> dist q (getp data i) <= dist q (getp data j)) ->
  (forall j, (j < length data)%nat -> dist q (getp data i') <= dist q (getp data j)) ->
  (forall a b, (a < length data)%nat -> (b < length data)%nat -> a <> b -> ~ dist q (getp data a) == dist q (getp data b)) ->
  i' = i.
Proof.
  intros Hi Hi' M M' NT. destruct (Nat.eq_dec i' i) as [E|E]; [exact E|]. exfalso.
  apply (NT i' i Hi' Hi E). pose proof (M i' Hi'). pose proof (M' i Hi). lra.
Qed.

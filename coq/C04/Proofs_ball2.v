(* C04, pair 4 on the code as committed: ball search on = ball search off, from the theorems of C06 (imported, not copied) *)
From Coq Require Import List ZArith QArith Bool Arith Lia.
From Gst Require Import lib.QAux C06.Model C06.Properties.
Import ListNotations.

Lemma ball_taken_off p (xs : list xsample) ell : ball_taken false p xs ell = false.
Proof. reflexivity. Qed.

Lemma ball_search_eq oracle useball p t (xs : list xsample) (ell : list nat) :
  (1 <= p_nsect p)%nat ->
  (ball_taken useball p xs ell = true ->
     NoDup ell /\ length ell = Z.to_nat (p_nmaxi p) /\ (forall i, In i ell -> (i < length xs)%nat) /\
     (forall i j, In i ell -> (j < length xs)%nat -> ~ In j ell ->
        dist2 p t (x_total (nth i xs dummy_xsample)) < dist2 p t (x_total (nth j xs dummy_xsample)))%Q) ->
  r_ranks (moving_fixed_x oracle useball p t xs ell) = r_ranks (moving_fixed_x oracle false p t xs []).
Proof.
  intros Hs H.
  rewrite (C06_ball_fallback oracle false p t xs [] (ball_taken_off p xs [])).
  destruct (ball_taken useball p xs ell) eqn:T.
  - destruct (H eq_refl) as [H1 [H2 [H3 H4]]].
    assert (U : useball = true) by (unfold ball_taken, ball_premise in T; destruct useball; [reflexivity|discriminate]).
    subst useball. unfold ball_taken in T. apply andb_prop in T. destruct T as [T1 T2].
    apply (C06_ball_shortcut oracle p t xs ell Hs T1 T2 H1 H2 H3 H4).
  - rewrite (C06_ball_fallback oracle useball p t xs ell T). reflexivity.
Qed.

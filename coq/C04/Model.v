(* C04 model, pair 1: the optimised and the plain evaluation of covariance matrices.
     ACov::evalCovMatrix / evalCovMatrixSymmetric            /repo/src/Covariances/ACov.cpp:872, 1082
     ACovAnisoList::evalCovMatrixOptim / ...SymmetricOptim   /repo/src/Covariances/ACovAnisoList.cpp:191, 270
     CovAniso::evalOptimInPlace                              /repo/src/Covariances/CovAniso.cpp:600
     CovAniso::_optimizationPreProcess / _optimizationTransformSP / _optimizationSetTarget / optimizationSetTargetByIndex
                                                             CovAniso.cpp:1287, 1263, 1230, 1249
     ACov::optimizationPreProcess (Db overload)              ACov.cpp:72      Db::getSamplesAsSP   /repo/src/Db/Db.cpp:771
     ACov::_getActiveVariables                               ACov.cpp:829
     Db::getMultipleRanksActive / getRanksActive             Db.cpp:3517, 3533
     SpaceRN::_getDistance (with and without tensor)         /repo/src/Space/SpaceRN.cpp:62, 79
     Tensor::applyInverseInPlace                             /repo/src/Basic/Tensor.cpp:198
   Squared distances (the correlation of a structure is an arbitrary function of the squared distance: Section variable).
   The loops are written with their running row / column counters; a matrix is the list of the updates (row, column, value)
   issued in program order, read back with the semantics of the call that issued them (setValue: last one wins,
   updValue(ADD) on a zero matrix: sum).  Executable definitions only.
   (NeighUnique::_unique is modelled in C04/Neigh.v on the samples of C06; the collocated neighbourhood update in C04/Proofs_krige.v.) *)
From Coq Require Import List Arith ZArith QArith Qabs Bool.
From Gst Require Import lib.QAux lib.LinAlgQ.
Import ListNotations.
Local Open Scope Q_scope.

Definition oq := option Q.
Definition point := list Q.
Definition odef (o : oq) : bool := match o with Some _ => true | None => false end.

(* ------------------------------------------------------------------ the Db *)
Record cdb := {
  d_coords : list point;          (* one point per sample *)
  d_sel    : list bool;           (* [] = no selection; true = value > 0 *)
  d_z      : list (list oq);      (* d_z[ivar][iech]; [] = no Z locator *)
  d_verr   : list (list oq)       (* d_verr[ivar][iech]; [] = no V locator *)
}.
Definition d_n (db : cdb) : nat := length (d_coords db).
Definition coords_at (db : cdb) (iech : nat) : point := nth iech (d_coords db) [].
Definition has_sel (db : cdb) : bool := match d_sel db with [] => false | _ => true end.
Definition is_active (db : cdb) (iech : nat) : bool := if has_sel db then nth iech (d_sel db) false else true.
Definition has_z (db : cdb) : bool := match d_z db with [] => false | _ => true end.
Definition z_at (db : cdb) (ivar iech : nat) : oq := nth iech (nth ivar (d_z db) []) None.
Definition verr_at (db : cdb) (ivar iech : nat) : oq := nth iech (nth ivar (d_verr db) []) None.

(* Db::getRanksActive(nbgh, item, useSel, useVerr) *)
Definition keep_rank (db : cdb) (item : option nat) (useSel useV : bool) (iech : nat) : bool :=
  (negb (useSel && has_sel db) || nth iech (d_sel db) false) &&
  match item with
  | None => true
  | Some v => odef (z_at db v iech) &&
              (negb useV || match verr_at db v iech with Some e => negb (qltb e 0) | None => false end)
  end.
Definition ranks_active (db : cdb) (nbgh : list nat) (item : nat) (useSel useVerr : bool) : list nat :=
  let init := match nbgh with [] => seq 0 (d_n db) | _ => nbgh end in
  let item' := if has_z db then Some item else None in          (* if (getLocNumber(ELoc::Z) <= 0) item = -1 *)
  let useV := useVerr && match item' with Some v => Nat.ltb v (length (d_verr db)) | None => false end in
  filter (keep_rank db item' useSel useV) init.
Definition multiple_ranks (db : cdb) (ivars : list nat) (nbgh : list nat) (useSel useVerr : bool) : list (list nat) :=
  map (fun v => ranks_active db nbgh v useSel useVerr) ivars.

(* the same with the optional test "all coordinates defined" (useCoord); [cdef] = one flag per sample ([] = all defined) *)
Definition coord_ok (cdef : list bool) (iech : nat) : bool := match cdef with [] => true | _ => nth iech cdef false end.
Definition keep_rank_c (cdef : list bool) (db : cdb) (item : option nat) (useSel useV useCoord : bool) (iech : nat) : bool :=
  keep_rank db item useSel useV iech && (negb useCoord || coord_ok cdef iech).
Definition item_of (db : cdb) (item : nat) : option nat := if has_z db then Some item else None.
Definition usev_of (db : cdb) (item : nat) (useVerr : bool) : bool :=
  useVerr && match item_of db item with Some v => Nat.ltb v (length (d_verr db)) | None => false end.
Definition init_ranks (db : cdb) (nbgh : list nat) : list nat := match nbgh with [] => seq 0 (d_n db) | _ => nbgh end.
Definition ranks_active_c (cdef : list bool) (db : cdb) (nbgh : list nat) (item : nat) (useSel useVerr useCoord : bool) : list nat :=
  filter (keep_rank_c cdef db (item_of db item) useSel (usev_of db item useVerr) useCoord) (init_ranks db nbgh).
Definition multiple_ranks_c (cdef : list bool) (db : cdb) (ivars nbgh : list nat) (useSel useVerr useCoord : bool) : list (list nat) :=
  map (fun v => ranks_active_c cdef db nbgh v useSel useVerr useCoord) ivars.
(* hoisted form: the tests that do not depend on the variable (selection, coordinates) are made once, the per-variable tests on
   the EXPLICIT list of remaining candidates *)
Definition multiple_ranks_hoisted (cdef : list bool) (db : cdb) (ivars nbgh : list nat) (useSel useVerr useCoord : bool) : list (list nat) :=
  let cands := filter (keep_rank_c cdef db None useSel false useCoord) (init_ranks db nbgh) in
  map (fun v => filter (keep_rank_c cdef db (item_of db v) false (usev_of db v useVerr) false) cands) ivars.
(* the tempting variant that hands the candidates back to getRanksActive, for which an EMPTY list means "all samples" *)
Definition multiple_ranks_hoisted_naive (cdef : list bool) (db : cdb) (ivars nbgh : list nat) (useSel useVerr useCoord : bool) : list (list nat) :=
  let cands := filter (keep_rank_c cdef db None useSel false useCoord) (init_ranks db nbgh) in
  map (fun v => ranks_active_c cdef db cands v false useVerr false) ivars.

(* ACov::_getActiveVariables *)
Definition active_vars (nvar : nat) (ivar0 : Z) : list nat :=
  if (0 <=? ivar0)%Z then (if Nat.ltb (Z.to_nat ivar0) nvar then [Z.to_nat ivar0] else []) else seq 0 nvar.

(* ------------------------------------------------------------------ geometry *)
Definition vsubp (ndim : nat) (a b : point) : point := vk ndim (fun d => vget a d - vget b d).
(* Tensor::applyInverseInPlace: out = Tinv . vec *)
Definition proj (ndim : nat) (T : mat) (p : point) : point := vk ndim (fun i => sumn ndim (fun d => get T i d * vget p d)).
Definition norm2 (ndim : nat) (w : point) : Q := sumn ndim (fun i => vget w i * vget w i).
(* SpaceRN::_getDistance(p1, p2): delta = p2 - p1 *)
Definition dist2 (ndim : nat) (p1 p2 : point) : Q := sumn ndim (fun i => (vget p2 i - vget p1 i) * (vget p2 i - vget p1 i)).
(* SpaceRN::_getDistance(p1, p2, tensor): increment p2 - p1, applyInverse, norm *)
Definition aniso_d2 (ndim : nat) (T : mat) (p1 p2 : point) : Q := norm2 ndim (proj ndim T (vsubp ndim p2 p1)).

Definition TESTQ : Q := 1234000000000000000000000000000 # 1.       (* TEST = 1.234e30 *)
Definition ffff (ndim : nat) : point := vk ndim (fun _ => TESTQ).

Record cstruct := { c_tinv : mat; c_sill : mat }.

(* Db::getSamplesAsSP(useSel = false): a masked sample is stored as the FFFF point *)
Definition samples_as_sp (ndim : nat) (db : cdb) : list (option point) :=
  map (fun i => if is_active db i then Some (coords_at db i) else None) (seq 0 (d_n db)).
(* CovAniso::_optimizationPreProcess *)
Definition p1As (ndim : nat) (s : cstruct) (db : cdb) : list point :=
  map (fun o => match o with Some p => proj ndim (c_tinv s) p | None => ffff ndim end) (samples_as_sp ndim db).
Definition p1A_get (l : list point) (iech : nat) : point := nth iech l [].

(* ------------------------------------------------------------------ matrices as update lists *)
Record upd := { u_r : nat; u_c : nat; u_v : Q }.
Definition matches (U : list upd) (i j : nat) : list Q :=
  map u_v (filter (fun u => Nat.eqb (u_r u) i && Nat.eqb (u_c u) j) U).
Fixpoint sumL (l : list Q) : Q := match l with [] => 0 | x :: r => x + sumL r end.
Definition read_set (U : list upd) (i j : nat) : Q := last (matches U i j) 0.     (* setValue on a zero matrix *)
Definition read_add (U : list upd) (i j : nat) : Q := sumL (matches U i j).       (* updValue(ADD) on a zero matrix *)

(* the two nested loops "for rvar ... for rech ... counter++" *)
Fixpoint loop_ech {A} (f : nat -> nat -> A) (l : list nat) (cnt : nat) : list A * nat :=
  match l with
  | [] => ([], cnt)
  | e :: r => let '(o, n) := loop_ech f r (S cnt) in (f cnt e :: o, n)
  end.
Fixpoint loop_var {A} (f : nat -> nat -> nat -> A) (vars : list nat) (index : list (list nat)) (cnt : nat) : list A * nat :=
  match vars, index with
  | v :: vr, l :: lr =>
      let '(o1, n1) := loop_ech (f v) l cnt in
      let '(o2, n2) := loop_var f vr lr n1 in (o1 ++ o2, n2)
  | _, _ => ([], cnt)
  end.
Definition enum_ {A} (l : list A) : list (nat * A) := combine (seq 0 (length l)) l.

Section Cov.
Variable cor : nat -> Q -> Q.        (* correlation of structure number [is] as a function of the squared (anisotropic) distance *)
Variable ndim : nat.
Variable structs : list cstruct.

Definition sill_at (s : cstruct) (ivar jvar : nat) : Q := get (c_sill s) ivar jvar.
(* ACovAnisoList::eval = sum over the structures of CovAniso::eval (anisotropic distance of the raw points) *)
Definition cov_plain (p1 p2 : point) (ivar jvar : nat) : Q :=
  sumL (map (fun ks => sill_at (snd ks) ivar jvar * cor (fst ks) (aniso_d2 ndim (c_tinv (snd ks)) p1 p2)) (enum_ structs)).

(* keep r c: the test that guards a cell in the symmetric variants (upper triangle) *)
Definition keep (flagSym : bool) (irow icol : nat) : bool := negb flagSym || Nat.leb irow icol.
Definition cell (flagSym : bool) (irow icol : nat) (v : Q) : list upd :=
  if keep flagSym irow icol then [{| u_r := irow; u_c := icol; u_v := v |}] else [].

(* ACov::evalCovMatrix (flagSym = false, db2 / jvars / index2 general) and evalCovMatrixSymmetric (flagSym = true, db2 = db1 ...) *)
Definition plain_updates (flagSym : bool) (db1 db2 : cdb) (ivars jvars : list nat) (index1 index2 : list (list nat)) : list upd :=
  concat (concat (fst (loop_var (fun ivar1 irow iech1 =>
    fst (loop_var (fun jvar2 icol iech2 =>
           cell flagSym irow icol (cov_plain (coords_at db1 iech1) (coords_at db2 iech2) ivar1 jvar2))
         jvars index2 0%nat))
    ivars index1 0%nat))).

(* CovAniso::evalOptimInPlace for structure (is, s), the target being p2A *)
Definition optim_column (flagSym : bool) (ks : nat * cstruct) (P1 : list point) (p2A : point)
                        (ivars : list nat) (index1 : list (list nat)) (ivar2 icol : nat) : list upd :=
  concat (fst (loop_var (fun ivar1 irow iech1 =>
           cell flagSym irow icol (sill_at (snd ks) ivar1 ivar2 * cor (fst ks) (dist2 ndim p2A (p1A_get P1 iech1))))
         ivars index1 0%nat)).

(* ACovAnisoList::evalCovMatrixOptim: the target is projected structure by structure (optimizationSetTarget) *)
Definition optim_updates (db1 db2 : cdb) (ivars jvars : list nat) (index1 index2 : list (list nat)) : list upd :=
  concat (fst (loop_var (fun ivar2 icol iech2 =>
    concat (map (fun ks => optim_column false ks (p1As ndim (snd ks) db1) (proj ndim (c_tinv (snd ks)) (coords_at db2 iech2))
                                        ivars index1 ivar2 icol) (enum_ structs)))
    jvars index2 0%nat)).
(* ACovAnisoList::evalCovMatrixSymmetricOptim: the target is one of the stored projected points (optimizationSetTargetByIndex) *)
Definition optim_updates_sym (db1 : cdb) (ivars : list nat) (index1 : list (list nat)) : list upd :=
  concat (fst (loop_var (fun ivar2 icol iech2 =>
    concat (map (fun ks => let P1 := p1As ndim (snd ks) db1 in
                           optim_column true ks P1 (p1A_get P1 iech2) ivars index1 ivar2 icol) (enum_ structs)))
    ivars index1 0%nat)).

(* ACov::evalCovMatrixSparse (ACov.cpp): the plain double loop with its own counters; a cell enters the triplet list only when
   |value| >= eps * C_ij(0).  (index lists: getMultipleRanksActive(..., true, flagSameDb)) *)
Definition cellk (k : bool) (irow icol : nat) (v : Q) : list upd :=
  if k then [{| u_r := irow; u_c := icol; u_v := v |}] else [].
Definition sparse_keep (eps : Q) (c0 : nat -> nat -> Q) (ivar jvar : nat) (v : Q) : bool := qleb (eps * c0 ivar jvar) (Qabs v).
Definition sparse_updates (eps : Q) (c0 : nat -> nat -> Q) (db1 db2 : cdb) (ivars jvars : list nat) (index1 index2 : list (list nat)) : list upd :=
  concat (concat (fst (loop_var (fun ivar1 irow iech1 =>
    fst (loop_var (fun jvar2 icol iech2 =>
           let v := cov_plain (coords_at db1 iech1) (coords_at db2 iech2) ivar1 jvar2 in
           cellk (sparse_keep eps c0 ivar1 jvar2 v) irow icol v)
         jvars index2 0%nat))
    ivars index1 0%nat))).

(* the covariance seen by KrigingSystem through the pre-projected points (ACov::load + CovAniso::evalCor on projected points) *)
Definition cov_projected (p1 p2 : point) (ivar jvar : nat) : Q :=
  sumL (map (fun ks => sill_at (snd ks) ivar jvar *
                       cor (fst ks) (dist2 ndim (proj ndim (c_tinv (snd ks)) p2) (proj ndim (c_tinv (snd ks)) p1))) (enum_ structs)).

End Cov.

(* the flattened (variable, sample) list that the row / column counters run over *)
Definition flat (vars : list nat) (index : list (list nat)) : list (nat * nat) :=
  concat (map (fun vl => map (pair (fst vl)) (snd vl)) (combine vars index)).

(* ------------------------------------------------------------------ pair 4, nearest-point migration
     CalcMigrate::_expandPointToPoint      /repo/src/Calculators/CalcMigrate.cpp  (exhaustive: active samples within dmax, strict "<")
     CalcMigrate::_expandPointToPointBall  (ball tree on the ACTIVE samples; when the nearest one is beyond dmax, exhaustive search)
   One candidate per active source sample, for a given target: its rank, its squared distance to the target, and whether it
   passes st_larger_than_dmax (box or ellipsoid: any predicate). *)
Record msample := { m_active : bool; m_d2 : Q; m_within : bool }.
Record mcand := { mc_idx : nat; mc_d2 : Q; mc_in : bool }.
Definition active_cands (l : list msample) : list mcand :=
  map (fun ks => {| mc_idx := fst ks; mc_d2 := m_d2 (snd ks); mc_in := m_within (snd ks) |})
      (filter (fun ks => m_active (snd ks)) (enum_ l)).
(* "if (dist < distmin) { distmin = dist; iechmin = iech1; }" : the first minimum *)
Definition amin_step (best : option mcand) (x : mcand) : option mcand :=
  match best with
  | None => Some x
  | Some b => if qltb (mc_d2 x) (mc_d2 b) then Some x else Some b
  end.
Definition amin (l : list mcand) : option mcand := fold_left amin_step l None.
Definition migrate_exhaustive (l : list msample) : option nat :=
  option_map mc_idx (amin (filter mc_in (active_cands l))).
(* Ball::queryClosest on the active samples returns their nearest one (C04_ball_nearest) *)
Definition migrate_ball (l : list msample) : option nat :=
  match amin (active_cands l) with
  | None => None
  | Some a => if mc_in a then Some (mc_idx a) else migrate_exhaustive l
  end.

(* ------------------------------------------------------------------ block discretisation, fixed or per cell
     DbGrid::getDiscretizedBlock (/repo/src/Db/DbGrid.cpp): offset of point (j_1..j_ndim) along axis idim =
     taille * ((j + 1/2) / nd - 1/2), taille = mesh dx (fixed) or the BLEX extension of the cell (flagPerCell) *)
Definition disc_off (taille : Q) (nd j : nat) : Q :=
  taille * ((inject_Z (Z.of_nat j) + (1 # 2)) / inject_Z (Z.of_nat nd) - (1 # 2)).
Definition disc_point (tailles : list Q) (ndiscs js : list nat) : list Q :=
  map (fun tnj => disc_off (fst (fst tnj)) (snd (fst tnj)) (snd tnj)) (combine (combine tailles ndiscs) js).

(* C04 proofs, pair 4, migration part: nearest active sample first, exhaustive fallback when it is beyond dmax = exhaustive search *)
From Coq Require Import List Arith ZArith QArith Bool Lqa Lia.
From Gst Require Import lib.QAux lib.LinAlgQ C04.Model.
Import ListNotations.
Local Open Scope Q_scope.

Lemma amin_fold_spec l : forall b a,
  fold_left amin_step l (Some b) = Some a ->
  (a = b \/ In a l) /\ mc_d2 a <= mc_d2 b /\ forall x, In x l -> mc_d2 a <= mc_d2 x.
Proof.
  induction l as [|x r IH]; intros b a H.
  - cbn in H. injection H as <-. split; [left; reflexivity|]. split; [lra|]. intros x [].
  - cbn [fold_left amin_step] in H. destruct (qltb_spec (mc_d2 x) (mc_d2 b)) as [L|L].
    + destruct (IH x a H) as [H1 [H2 H3]]. split.
      * destruct H1 as [->|H1]; right; [left; reflexivity|right; exact H1].
      * split; [lra|]. intros y [<-|Hy]; [exact H2|apply H3; exact Hy].
    + destruct (IH b a H) as [H1 [H2 H3]]. split.
      * destruct H1 as [->|H1]; [left; reflexivity|right; right; exact H1].
      * split; [exact H2|]. intros y [<-|Hy]; [lra|apply H3; exact Hy].
Qed.

Lemma amin_fold_some l : forall b, exists a, fold_left amin_step l (Some b) = Some a.
Proof.
  induction l as [|x r IH]; intro b; [exists b; reflexivity|].
  cbn [fold_left amin_step]. destruct (qltb (mc_d2 x) (mc_d2 b)); apply IH.
Qed.

Lemma amin_spec l a : amin l = Some a -> In a l /\ forall x, In x l -> mc_d2 a <= mc_d2 x.
Proof.
  unfold amin. destruct l as [|x r]; [discriminate|]. cbn [fold_left amin_step]. intro H.
  destruct (amin_fold_spec r x a H) as [H1 [H2 H3]]. split.
  - destruct H1 as [->|H1]; [left; reflexivity|right; exact H1].
  - intros y [<-|Hy]; [exact H2|apply H3; exact Hy].
Qed.

Lemma amin_none l : amin l = None -> l = [].
Proof.
  unfold amin. destruct l as [|x r]; [reflexivity|]. cbn [fold_left amin_step].
  destruct (amin_fold_some r x) as [a E]. rewrite E. discriminate.
Qed.

(* restricting the search to a class that contains the minimum does not change it (ties excluded) *)
Lemma amin_filter (P : mcand -> bool) l a :
  (forall x y, In x l -> In y l -> mc_d2 x == mc_d2 y -> x = y) ->
  amin l = Some a -> P a = true -> amin (filter P l) = Some a.
Proof.
  intros NT H Pa. destruct (amin_spec l a H) as [Ha Hmin].
  destruct (amin (filter P l)) as [a'|] eqn:E.
  - destruct (amin_spec _ a' E) as [Ha' Hmin']. apply filter_In in Ha'. destruct Ha' as [Ha'l _].
    assert (Hf : In a (filter P l)) by (apply filter_In; split; assumption).
    pose proof (Hmin' a Hf). pose proof (Hmin a' Ha'l).
    f_equal. apply (NT a' a Ha'l Ha). lra.
  - apply amin_none in E. assert (Hf : In a (filter P l)) by (apply filter_In; split; assumption). rewrite E in Hf. destruct Hf.
Qed.

Lemma migrate_ball_eq l :
  (forall x y, In x (active_cands l) -> In y (active_cands l) -> mc_d2 x == mc_d2 y -> x = y) ->
  migrate_ball l = migrate_exhaustive l.
Proof.
  intro NT. unfold migrate_ball. destruct (amin (active_cands l)) as [a|] eqn:E.
  - destruct (mc_in a) eqn:Ia; [|reflexivity].
    unfold migrate_exhaustive. rewrite (amin_filter mc_in _ a NT E Ia). reflexivity.
  - apply amin_none in E. unfold migrate_exhaustive. rewrite E. reflexivity.
Qed.

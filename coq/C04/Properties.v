(* C04 — property theorems only: one (or a few) per (fast path, reference path) pair.
   Models: coq/C04/Model.v (covariance matrices), coq/C04/Neigh.v + coq/C06 (neighbourhoods, ball tree), coq/C01 (kriging system),
   coq/C04/Algebra.v (leave-one-out and Schur-complement algebra). *)
From Coq Require Import List Arith ZArith QArith Bool Lia.
From Gst Require Import lib.QAux lib.LinAlgQ C01.Model C02.Kriging.
From Gst Require C01.Properties C06.Model C06.Spec C06.Knn C06.Proofs_moving C06.Properties.
From Gst Require Import C04.Algebra C04.Model C04.Proofs_covmat C04.Proofs_krige.
From Gst Require C04.Neigh C04.Proofs_neigh C04.Proofs_ball.
From Gst Require Import C04.Proofs_migrate C04.Proofs_extra.
From Gst Require C06.Proofs_ball C04.Proofs_ball2.
Import ListNotations.
Local Open Scope Q_scope.

(* ============================================================================================ pair 1 *)
(* evalCovMatrixOptim = evalCovMatrix, cell by cell, whatever the correlation functions of the structures, the inverse
   anisotropy tensors, the selection, the heterotopy, the nbgh sub-lists and ivar0 / jvar0: the matrix read after the ADD updates
   of the optimised loops equals the matrix read after the setValue of the plain double loop, and both are
   C_{ivar jvar}(x_iech1, x_iech2) for the (variable, sample) pairs that the row / column counters designate. *)
Theorem C04_covmat_optim : forall (cor : nat -> Q -> Q) ndim structs nvar db1 db2 ivar0 jvar0 nbgh1 nbgh2,
  (forall s a b, a == b -> cor s a == cor s b) ->
  Forall (fun x => (x < d_n db1)%nat) nbgh1 ->
  let ivars := active_vars nvar ivar0 in
  let jvars := active_vars nvar jvar0 in
  let index1 := multiple_ranks db1 ivars nbgh1 true false in
  let index2 := multiple_ranks db2 jvars nbgh2 true false in
  let rows := flat ivars index1 in
  let cols := flat jvars index2 in
  forall i j, (i < length rows)%nat -> (j < length cols)%nat ->
  read_add (optim_updates cor ndim structs db1 db2 ivars jvars index1 index2) i j ==
  read_set (plain_updates cor ndim structs false db1 db2 ivars jvars index1 index2) i j /\
  read_set (plain_updates cor ndim structs false db1 db2 ivars jvars index1 index2) i j =
  cov_plain cor ndim structs (coords_at db1 (snd (nth i rows (0, 0)%nat))) (coords_at db2 (snd (nth j cols (0, 0)%nat)))
            (fst (nth i rows (0, 0)%nat)) (fst (nth j cols (0, 0)%nat)).
Proof. exact covmat_optim_thm. Qed.
Print Assumptions C04_covmat_optim.

(* evalCovMatrixSymmetricOptim = evalCovMatrixSymmetric on the upper triangle (the only part either of them writes) *)
Theorem C04_covmat_optim_sym : forall (cor : nat -> Q -> Q) ndim structs nvar db1 ivar0 nbgh1,
  (forall s a b, a == b -> cor s a == cor s b) ->
  Forall (fun x => (x < d_n db1)%nat) nbgh1 ->
  let ivars := active_vars nvar ivar0 in
  let index1 := multiple_ranks db1 ivars nbgh1 true true in
  let rows := flat ivars index1 in
  forall i j, (i <= j)%nat -> (j < length rows)%nat ->
  read_add (optim_updates_sym cor ndim structs db1 ivars index1) i j ==
  read_set (plain_updates cor ndim structs true db1 db1 ivars ivars index1 index1) i j /\
  read_set (plain_updates cor ndim structs true db1 db1 ivars ivars index1 index1) i j =
  cov_plain cor ndim structs (coords_at db1 (snd (nth i rows (0, 0)%nat))) (coords_at db1 (snd (nth j rows (0, 0)%nat)))
            (fst (nth i rows (0, 0)%nat)) (fst (nth j rows (0, 0)%nat)).
Proof. exact covmat_optim_sym_thm. Qed.
Print Assumptions C04_covmat_optim_sym.

(* the core: projecting both points then taking the Euclidean distance = taking the anisotropic distance of the raw points *)
Theorem C04_projected_distance : forall ndim T a b, dist2 ndim (proj ndim T b) (proj ndim T a) == aniso_d2 ndim T a b.
Proof. exact proj_dist. Qed.
Print Assumptions C04_projected_distance.

(* the row / column counters of the nested loops are the positions in the flattened (variable, sample) list *)
Theorem C04_counters : forall A (f : nat -> nat -> nat -> A) vars index cnt,
  loop_var f vars index cnt =
  (map (fun kve => f (fst (snd kve)) (fst kve) (snd (snd kve))) (enum_from cnt (flat vars index)),
   (cnt + length (flat vars index))%nat).
Proof. exact @loop_var_spec. Qed.
Print Assumptions C04_counters.

(* evalCovMatrixSparse (its own row / column counters, threshold eps * C_ij(0)): the triplet at (i, j) is the value of the plain
   matrix when it passes the threshold, and there is none otherwise; with eps = 0 the sparse matrix IS the plain one *)
Theorem C04_covmat_sparse : forall (cor : nat -> Q -> Q) ndim structs eps c0 db1 db2 ivars jvars index1 index2 i j,
  let rows := flat ivars index1 in let cols := flat jvars index2 in
  (i < length rows)%nat -> (j < length cols)%nat ->
  let v := cov_plain cor ndim structs (coords_at db1 (snd (nth i rows (0, 0)%nat))) (coords_at db2 (snd (nth j cols (0, 0)%nat)))
                     (fst (nth i rows (0, 0)%nat)) (fst (nth j cols (0, 0)%nat)) in
  matches (sparse_updates cor ndim structs eps c0 db1 db2 ivars jvars index1 index2) i j =
  if sparse_keep eps c0 (fst (nth i rows (0, 0)%nat)) (fst (nth j cols (0, 0)%nat)) v then [v] else [].
Proof. exact sparse_matches. Qed.
Print Assumptions C04_covmat_sparse.

Theorem C04_covmat_sparse_eps0 : forall (cor : nat -> Q -> Q) ndim structs eps c0 db1 db2 ivars jvars index1 index2 i j,
  eps == 0 -> (i < length (flat ivars index1))%nat -> (j < length (flat jvars index2))%nat ->
  read_set (sparse_updates cor ndim structs eps c0 db1 db2 ivars jvars index1 index2) i j =
  read_set (plain_updates cor ndim structs false db1 db2 ivars jvars index1 index2) i j.
Proof. exact sparse_eq_plain. Qed.
Print Assumptions C04_covmat_sparse_eps0.

(* the covariance KrigingSystem reads through the pre-projected points (default) is the covariance of the raw points
   (CovAniso::setOptimEnabled(false)): same oracle values, hence the same kriging system (C01) *)
Theorem C04_kriging_optim : forall (cor : nat -> Q -> Q) ndim structs p1 p2 ivar jvar,
  (forall s a b, a == b -> cor s a == cor s b) ->
  cov_projected cor ndim structs p1 p2 ivar jvar == cov_plain cor ndim structs p1 p2 ivar jvar.
Proof. exact cov_projected_eq. Qed.
Print Assumptions C04_kriging_optim.

(* active-rank lists: hoisting the variable-independent tests (selection, coordinates) out of the loop on the variables is sound
   when the per-variable tests run on the EXPLICIT candidate list; handing the candidates back to getRanksActive is not
   (an empty list means "all samples" there): see C04_ranks_hoisted_naive_refuted *)
Theorem C04_ranks_hoisted : forall cdef db ivars nbgh us uv uc,
  multiple_ranks_hoisted cdef db ivars nbgh us uv uc = multiple_ranks_c cdef db ivars nbgh us uv uc.
Proof. exact ranks_hoisted_eq. Qed.
Print Assumptions C04_ranks_hoisted.

Theorem C04_ranks_nocoord : forall cdef db nbgh item us uv,
  ranks_active_c cdef db nbgh item us uv false = ranks_active db nbgh item us uv.
Proof. exact ranks_active_c_nocoord. Qed.
Print Assumptions C04_ranks_nocoord.

Definition ex_masked : cdb := {| d_coords := [[0]; [1]; [2]]; d_sel := [false; false; false]; d_z := [[Some 1; None; Some 3]]; d_verr := [] |}.
Theorem C04_ranks_hoisted_naive_refuted :
  exists cdef db ivars nbgh us uv uc,
    multiple_ranks_hoisted_naive cdef db ivars nbgh us uv uc <> multiple_ranks_c cdef db ivars nbgh us uv uc.
Proof. exists [], ex_masked, [0%nat], [], true, false, false. vm_compute. discriminate. Qed.
Print Assumptions C04_ranks_hoisted_naive_refuted.

(* ============================================================================================ pair 2 *)
(* one sector, no extra checker, every sample within the radius, nmaxi >= number of samples (or no limit), nmini satisfied:
   _moving returns exactly what NeighUnique::_unique returns; the kriging system being a function of the neighbourhood
   list (C01), all kriging outputs coincide *)
Theorem C04_unique_eq_moving_wide : forall oracle p t samples,
  C06.Model.p_nsect p = 1%nat ->
  C06.Model.p_checkers p = [] ->
  (forall s, In s samples -> C06.Model.within p (C06.Model.dist2 p t s) = true) ->
  ((C06.Model.p_nmaxi p <= 0)%Z \/ (length samples <= Z.to_nat (C06.Model.p_nmaxi p))%nat) ->
  (C06.Model.p_nmini p <= Z.of_nat (length (C04.Neigh.unique_ranks p t samples)))%Z ->
  C06.Model.r_code (C06.Model.moving oracle p t samples) = 0%Z /\
  C06.Model.r_ranks (C06.Model.moving oracle p t samples) = C04.Neigh.unique_ranks p t samples.
Proof. exact C04.Proofs_neigh.unique_eq_moving_wide. Qed.
Print Assumptions C04_unique_eq_moving_wide.

(* ============================================================================================ pair 3 *)
(* Dubrule: with B the inverse of the (extended) kriging matrix K and B_ii <> 0, ANY solution w of the system deprived of row
   and column i gives the estimate and the variance that KrigingSystem::_estimateCalculXvalidUnique writes
   (y = centred data, zero on drift equations; m = mean) *)
Theorem C04_xvalid_unique : forall n K B, finv n K B -> forall i, (i < n)%nat -> ~ B i i == 0 ->
  forall (w y : nat -> Q) m, fsym n K ->
  (forall j, (j < n)%nat -> j <> i -> sum_except n i (fun l => K j l * w l) == K j i) ->
  m - sum_except n i (fun j => B i j * (/ B i i) * y j) == m + sum_except n i (fun j => w j * y j) /\
  / B i i == K i i - sum_except n i (fun l => K i l * w l).
Proof. exact loo_shortcut. Qed.
Print Assumptions C04_xvalid_unique.

(* the system without sample i has no other solution *)
Theorem C04_xvalid_unique_weights : forall n K B, finv n K B -> forall i, (i < n)%nat -> ~ B i i == 0 ->
  forall w : nat -> Q,
  (forall j, (j < n)%nat -> j <> i -> sum_except n i (fun l => K j l * w l) == K j i) ->
  forall l, (l < n)%nat -> l <> i -> w l == - B l i / B i i.
Proof. exact loo_unique. Qed.
Print Assumptions C04_xvalid_unique_weights.

(* on the kriging model of C01: k' = "equation i removed, target = that sample" *)
Theorem C04_xvalid_unique_krige : forall k' o' n K B i y m,
  krige k' = Some o' -> (0 < k_nvar k')%nat ->
  finv n K B -> fsym n K -> (i < n)%nat -> ~ B i i == 0 ->
  S (nred k') = n ->
  (forall a b, (a < nred k')%nat -> (b < nred k')%nat -> A_of o' a b == K (skip i a) (skip i b)) ->
  (forall a, (a < nred k')%nat -> r_of o' 0 a == K (skip i a) i) ->
  (forall a, (a < nred k')%nat -> vget (zext k') a == y (skip i a)) ->
  mean_of k' 0 == m -> get (k_c00 k') 0 0 == K i i ->
  est o' 0 == m - sum_except n i (fun j => B i j * (/ B i i) * y j) /\ var o' 0 == / B i i.
Proof. exact xvalid_unique_krige. Qed.
Print Assumptions C04_xvalid_unique_krige.

(* the row of the inverse that _estimateCalculXvalidUnique reads (KrigingSystem::_getFlagAddress, ranking by the flags that
   compressed the system) is the position of the sample's equation among the active equations of lhs_c *)
Theorem C04_xvalid_flag_address : forall k i a,
  (i < neq k)%nat -> flag_address k i = Some a -> (a < nred k)%nat /\ nth a (active k) 0%nat = i.
Proof. exact flag_address_spec. Qed.
Print Assumptions C04_xvalid_flag_address.

(* ============================================================================================ pair 4 *)
(* Ball::queryClosest (k = 1 instance of C06_knn): the index returned attains the minimum distance over all points *)
Theorem C04_ball_nearest : forall dist nfeat data (okp : C06.Knn.pt -> Prop),
  (forall idxs, okp (C06.Knn.centroid nfeat data idxs)) ->
  (forall i, (i < length data)%nat -> okp (C06.Knn.getp data i)) ->
  (forall a b, okp a -> okp b -> 0 <= dist a b) ->
  (forall a b, okp a -> okp b -> dist a b == dist b a) ->
  (forall a b c, okp a -> okp b -> okp c -> dist a c <= dist a b + dist b c) ->
  forall leaf q res, okp q ->
  C06.Knn.knn_query dist data (C06.Knn.btree_init dist nfeat data leaf) 1 q = Some res ->
  exists v i, res = [(Some v, i)] /\ (i < length data)%nat /\ v == dist q (C06.Knn.getp data i) /\
              forall j, (j < length data)%nat -> dist q (C06.Knn.getp data i) <= dist q (C06.Knn.getp data j).
Proof. exact C04.Proofs_neigh.ball_nearest. Qed.
Print Assumptions C04_ball_nearest.

(* ... hence, ties excluded, the sample the exhaustive loop of _expandPointToPoint keeps *)
Theorem C04_ball_nearest_unique : forall (dist : C06.Knn.pt -> C06.Knn.pt -> Q) data q i i',
  (i < length data)%nat -> (i' < length data)%nat ->
  (forall j, (j < length data)%nat -> dist q (C06.Knn.getp data i) <= dist q (C06.Knn.getp data j)) ->
  (forall j, (j < length data)%nat -> dist q (C06.Knn.getp data i') <= dist q (C06.Knn.getp data j)) ->
  (forall a b, (a < length data)%nat -> (b < length data)%nat -> a <> b -> ~ dist q (C06.Knn.getp data a) == dist q (C06.Knn.getp data b)) ->
  i' = i.
Proof. exact C04.Proofs_neigh.ball_nearest_unique. Qed.
Print Assumptions C04_ball_nearest_unique.

(* nearest-point migration: the ball path (tree on the active samples, exhaustive fallback when the nearest one is beyond dmax)
   returns what the exhaustive path returns, for any dmax predicate, as soon as no two active samples are equidistant *)
Theorem C04_migrate_ball : forall l,
  (forall x y, In x (active_cands l) -> In y (active_cands l) -> mc_d2 x == mc_d2 y -> x = y) ->
  migrate_ball l = migrate_exhaustive l.
Proof. exact migrate_ball_eq. Qed.
Print Assumptions C04_migrate_ball.

(* ball-tree neighbourhood search: if no sample is masked or undefined, no cross-validation, one sector, no extra checker,
   nmini <= nmaxi, and the eligible list holds exactly the nmaxi samples strictly nearest to the target for the distance of
   _moving, then the ball path selects the neighbourhood of the exhaustive path (also when both refuse for lack of nmini
   samples within the radius).  Without the premise the statement is refuted (C06_ball_moving_refuted). *)
Theorem C04_ball_moving : forall oracle p t samples ell,
  (forall s, In s samples -> C06.Model.s_active s = true /\ C06.Model.discard_undefined s = false) ->
  C06.Model.p_xvalid p = false -> C06.Model.p_nsect p = 1%nat -> C06.Model.p_checkers p = [] ->
  (0 < C06.Model.p_nmaxi p)%Z -> (C06.Model.p_nmini p <= C06.Model.p_nmaxi p)%Z ->
  NoDup ell -> length ell = Z.to_nat (C06.Model.p_nmaxi p) ->
  (forall i, In i ell -> (i < length samples)%nat) ->
  (forall i j, In i ell -> (j < length samples)%nat -> ~ In j ell ->
     C06.Model.dist2 p t (nth i samples C06.Model.dummy_sample) < C06.Model.dist2 p t (nth j samples C06.Model.dummy_sample)) ->
  C06.Model.r_ranks (C06.Model.moving_ball oracle p t samples ell) = C06.Model.r_ranks (C06.Model.moving oracle p t samples).
Proof. exact C04.Proofs_ball.ball_moving_eq. Qed.
Print Assumptions C04_ball_moving.

(* ... and the list Ball::getIndices delivers (k-nearest-neighbour query, C06_knn) satisfies that premise whenever the tree's
   metric ranks the samples like the squared distance dd of _moving and no two samples are equidistant from the target *)
Theorem C04_ball_eligibles : forall dist nfeat (data : list C06.Knn.pt) (okp : C06.Knn.pt -> Prop) (dd : nat -> Q) n,
  length data = n ->
  (forall idxs, okp (C06.Knn.centroid nfeat data idxs)) ->
  (forall i, (i < length data)%nat -> okp (C06.Knn.getp data i)) ->
  (forall a b, okp a -> okp b -> 0 <= dist a b) ->
  (forall a b, okp a -> okp b -> dist a b == dist b a) ->
  (forall a b c, okp a -> okp b -> okp c -> dist a c <= dist a b + dist b c) ->
  forall leaf k q res, okp q -> (0 < k)%nat ->
  (forall i j, (i < n)%nat -> (j < n)%nat -> dist q (C06.Knn.getp data i) <= dist q (C06.Knn.getp data j) -> dd i <= dd j) ->
  (forall i j, (i < n)%nat -> (j < n)%nat -> i <> j -> ~ dd i == dd j) ->
  C06.Knn.knn_query dist data (C06.Knn.btree_init dist nfeat data leaf) k q = Some res ->
  let ell := map snd res in
  NoDup ell /\ length ell = k /\ (forall i, In i ell -> (i < n)%nat) /\
  (forall i j, In i ell -> (j < n)%nat -> ~ In j ell -> dd i < dd j).
Proof. exact C04.Proofs_ball.knn_eligibles. Qed.
Print Assumptions C04_ball_eligibles.

(* the code as committed (guarded shortcut, C06 model moving_fixed_x): whatever the configuration -- masks, undefined values,
   cross-validation, sectors, checkers, rotation, anisotropy, any nmini / nmaxi -- setBallSearch(true) selects what
   setBallSearch(false) selects, provided the eligible list, WHEN the shortcut is taken, is what the tree delivers without tie
   (C06_ball_shortcut for the shortcut, C06_ball_fallback for every other case) *)
Theorem C04_ball_search_eq : forall oracle useball p t (xs : list C06.Model.xsample) (ell : list nat),
  (1 <= C06.Model.p_nsect p)%nat ->
  (C06.Model.ball_taken useball p xs ell = true ->
     NoDup ell /\ length ell = Z.to_nat (C06.Model.p_nmaxi p) /\ (forall i, In i ell -> (i < length xs)%nat) /\
     (forall i j, In i ell -> (j < length xs)%nat -> ~ In j ell ->
        C06.Model.dist2 p t (C06.Model.x_total (nth i xs C06.Model.dummy_xsample)) <
        C06.Model.dist2 p t (C06.Model.x_total (nth j xs C06.Model.dummy_xsample)))) ->
  C06.Model.r_ranks (C06.Model.moving_fixed_x oracle useball p t xs ell) =
  C06.Model.r_ranks (C06.Model.moving_fixed_x oracle false p t xs []).
Proof. exact C04.Proofs_ball2.ball_search_eq. Qed.
Print Assumptions C04_ball_search_eq.

(* the degenerate case where the eligible list is the whole data set needs none of these premises but "nothing masked" *)
Theorem C04_ball_moving_all : forall oracle p t samples,
  (forall s, In s samples -> C06.Model.s_active s = true) ->
  C06.Model.moving_ball oracle p t samples (seq 0 (length samples)) = C06.Model.moving oracle p t samples.
Proof. exact C06.Proofs_moving.moving_ball_all. Qed.
Print Assumptions C04_ball_moving_all.

(* ============================================================================================ pair 5 *)
(* one discretisation point: its offset is 0 and the block right-hand side is the point right-hand side *)
Theorem C04_block1_offset : forall taille, disc_offset taille 1 0 == 0.
Proof. exact disc_offset_single. Qed.
Print Assumptions C04_block1_offset.

Theorem C04_block1_eq_point : forall k cb i jv,
  (forall ie, exists Mb Mp, nth ie cb [] = [Mb] /\ nth ie (k_crhs k) [] = [Mp] /\ forall a b, get Mb a b == get Mp a b) ->
  rhs_full (with_crhs k cb) i jv == rhs_full k i jv.
Proof. exact block1_rhs. Qed.
Print Assumptions C04_block1_eq_point.

(* per-cell discretisation (flagPerCell, extensions read in the BLEX columns) with extensions equal to the mesh = fixed one *)
Theorem C04_percell_eq_fixed : forall blex dx, Forall2 Qeq blex dx ->
  forall ndiscs js, Forall2 Qeq (disc_point blex ndiscs js) (disc_point dx ndiscs js).
Proof. exact disc_point_percell. Qed.
Print Assumptions C04_percell_eq_fixed.

(* ============================================================================================ pair 6 *)
(* collocated option: ANeigh::_updateColCok appends rank -1 and KrigingSystem (_getIdim / _getIvar / _getFext, _lhsCalcul and
   _rhsCalcul* addressing rank -1 as the projected target point, drift values read in the output Db, system rebuilt for every
   target) builds its system from the neighbourhood samples followed by the target carrying the collocated values = the data
   set with that datum appended.  Pair 6 of the check compares the two on every run (former crash: corpus regression case). *)
Theorem C04_colcok : forall data tcoord tfext rank_colcok tcol ranks,
  existsb (fun jvar => (0 <=? jvar)%Z && defined (tcol jvar)) rank_colcok = true ->
  map (sample_of_rank data (colcok_datum tcoord tfext rank_colcok tcol)) (update_colcok rank_colcok tcol false ranks) =
  map (sample_of_rank data (colcok_datum tcoord tfext rank_colcok tcol)) ranks ++ [colcok_datum tcoord tfext rank_colcok tcol].
Proof. exact colcok_samples. Qed.
Print Assumptions C04_colcok.

Theorem C04_colcok_none : forall rank_colcok tcol ranks c,
  existsb (fun jvar => (0 <=? jvar)%Z && defined (tcol jvar)) rank_colcok = false \/ c = true ->
  update_colcok rank_colcok tcol c ranks = ranks.
Proof. exact colcok_samples_none. Qed.
Print Assumptions C04_colcok_none.

(* ============================================================================================ pair 7 *)
Theorem C04_calcul_forms : forall n p Sigma S X C sigma0 x0 z sigma00,
  finv n Sigma S -> finv p (M n S X) C -> fsym n Sigma ->
  let lsk := lam_sk n S sigma0 in
  let luk := lam_uk n p S X C sigma0 x0 in
  let m := mu n p S X C sigma0 x0 in
  (forall i, (i < n)%nat -> fmv n Sigma lsk i == sigma0 i) /\
  fdot n lsk (fmv n Sigma lsk) == fdot n lsk sigma0 /\
  (forall a, (a < n + p)%nat -> fmv (n + p) (K_block n Sigma X) (w_block n p S X C sigma0 x0) a == r_block n sigma0 x0 a) /\
  fdot n sigma0 (b_dual n p S X C z) + fdot p x0 (c_dual n p S X C z) == fdot n luk z /\
  fdot n luk (fmv n Sigma luk) == fdot n luk sigma0 + fdot p m x0 /\
  sigma00 - fdot n luk sigma0 + fdot p m x0 == sigma00 - 2 * fdot n luk sigma0 + fdot n luk (fmv n Sigma luk).
Proof. exact calcul_forms. Qed.
Print Assumptions C04_calcul_forms.

(* simple kriging with known means: primal form (means added by _needZstar) = dual form *)
Theorem C04_calcul_sk_mean : forall n Sigma S sigma0 z m,
  finv n Sigma S -> fsym n Sigma ->
  fdot n (lam_sk n S sigma0) z + m == fdot n sigma0 (fmv n S z) + m.
Proof. exact calcul_sk_mean. Qed.
Print Assumptions C04_calcul_sk_mean.

(* when the kriging model's system is that block system (and is invertible), its weights are KrigingCalcul's *)
Theorem C04_calcul_eq_system : forall k o v n p Sigma S X C sigma0 x0 Bb,
  krige k = Some o -> (v < k_nvar k)%nat -> nred k = (n + p)%nat ->
  finv n Sigma S -> finv p (M n S X) C -> finv (n + p) (A_of o) Bb ->
  (forall a b, (a < n + p)%nat -> (b < n + p)%nat -> A_of o a b == K_block n Sigma X a b) ->
  (forall a, (a < n + p)%nat -> r_of o v a == r_block n sigma0 x0 a) ->
  forall a, (a < n + p)%nat -> w_of o v a == w_block n p S X C sigma0 x0 a.
Proof. exact calcul_eq_system. Qed.
Print Assumptions C04_calcul_eq_system.

(* ============================================================================================ non-vacuity *)
(* pair 1: 2-D, two variables, 4 samples (one masked, one heterotopic), two structures (one anisotropic and rotated by the 3-4-5
   angle, inverse tensor = diag(1/2, 1/4) . R^t), rational "correlation" 1/(1+s+h2); nbgh sub-list in arbitrary order *)
Definition ex_db1 : cdb :=
  {| d_coords := [[0; 0]; [1; 2]; [3; 1]; [4; 4]]; d_sel := [true; true; false; true];
     d_z := [[Some 1; Some 2; Some 3; None]; [Some 5; None; Some 6; Some 7]]; d_verr := [] |}.
Definition ex_db2 : cdb := {| d_coords := [[2; 2]; [0; 0]; [5; 1]]; d_sel := []; d_z := []; d_verr := [] |}.
Definition ex_structs : list cstruct :=
  [ {| c_tinv := [[3 # 10; 4 # 10]; [-(4 # 20); 3 # 20]]; c_sill := [[4; 1]; [1; 2]] |};
    {| c_tinv := [[1 # 3; 0]; [0; 1 # 3]]; c_sill := [[1; -(1 # 2)]; [-(1 # 2); 3]] |} ].
Definition ex_cor (s : nat) (h2 : Q) : Q := 1 / (1 + inject_Z (Z.of_nat s) + h2).
Example C04_covmat_nonvacuous :
  let ivars := active_vars 2 (-1) in
  let index1 := multiple_ranks ex_db1 ivars [3; 0; 1]%nat true false in
  let index2 := multiple_ranks ex_db2 ivars [] true false in
  let U := optim_updates ex_cor 2 ex_structs ex_db1 ex_db2 ivars ivars index1 index2 in
  let V := plain_updates ex_cor 2 ex_structs false ex_db1 ex_db2 ivars ivars index1 index2 in
  flat ivars index1 = [(0, 0); (0, 1); (1, 3); (1, 0)]%nat /\ length (flat ivars index2) = 6%nat /\
  forallb (fun i => forallb (fun j => qeqb (read_add U i j) (read_set V i j)) (seq 0 6)) (seq 0 4) = true /\
  qeqb (read_set V 0 0) (read_set V 0 1) = false /\ length U = 48%nat /\ length V = 24%nat.
Proof. vm_compute. repeat split; reflexivity. Qed.

Example C04_covmat_sym_nonvacuous :
  let ivars := active_vars 2 (-1) in
  let index1 := multiple_ranks ex_db1 ivars [] true true in
  let U := optim_updates_sym ex_cor 2 ex_structs ex_db1 ivars index1 in
  let V := plain_updates ex_cor 2 ex_structs true ex_db1 ex_db1 ivars ivars index1 index1 in
  flat ivars index1 = [(0, 0); (0, 1); (1, 0); (1, 3)]%nat /\
  forallb (fun i => forallb (fun j => negb (Nat.leb i j) || qeqb (read_add U i j) (read_set V i j)) (seq 0 4)) (seq 0 4) = true /\
  length V = 10%nat /\ length U = 20%nat.
Proof. vm_compute. repeat split; reflexivity. Qed.

(* sparse: same data as above, default threshold 1/1000 of C_ij(0) = sum of the sills, and a coarse one that drops cells *)
Example C04_covmat_sparse_nonvacuous :
  let ivars := active_vars 2 (-1) in
  let index1 := multiple_ranks ex_db1 ivars [] true false in
  let index2 := multiple_ranks ex_db2 ivars [] true false in
  let c0 := fun u v => get [[5; 1 # 2]; [1 # 2; 5]] u v in
  let V := plain_updates ex_cor 2 ex_structs false ex_db1 ex_db2 ivars ivars index1 index2 in
  let S0 := sparse_updates ex_cor 2 ex_structs 0 c0 ex_db1 ex_db2 ivars ivars index1 index2 in
  let S1 := sparse_updates ex_cor 2 ex_structs (1 # 20) c0 ex_db1 ex_db2 ivars ivars index1 index2 in
  length S0 = length V /\ (length S1 < length V)%nat /\ (0 < length S1)%nat /\
  forallb (fun i => forallb (fun j => qeqb (read_set S0 i j) (read_set V i j)) (seq 0 6)) (seq 0 4) = true.
Proof. vm_compute. repeat split; try reflexivity; lia. Qed.

Example C04_kriging_optim_nonvacuous :
  qeqb (cov_projected ex_cor 2 ex_structs [0; 0] [3; 1] 0 1) (cov_plain ex_cor 2 ex_structs [0; 0] [3; 1] 0 1) = true /\
  qeqb (cov_plain ex_cor 2 ex_structs [0; 0] [3; 1] 0 1) (cov_plain ex_cor 2 ex_structs [0; 0] [1; 3] 0 1) = false.
Proof. vm_compute. split; reflexivity. Qed.

Example C04_ranks_nonvacuous :
  let db := {| d_coords := [[0]; [1]; [2]; [3]]; d_sel := [true; false; true; true]; d_z := [[Some 1; Some 2; None; Some 4]; [None; Some 1; Some 2; Some 3]];
               d_verr := [[Some 1; Some 1; Some 1; None]; [Some 1; Some 1; Some 1; Some 1]] |} in
  multiple_ranks_c [true; true; false; true] db [0; 1]%nat [] true true true = [[0]; [3]]%nat /\
  multiple_ranks_c [true; true; false; true] db [0; 1]%nat [3; 0; 1]%nat false false false = [[3; 0; 1]; [3; 1]]%nat /\
  multiple_ranks_hoisted [true; true; false; true] db [0; 1]%nat [] true true true = [[0]; [3]]%nat /\
  multiple_ranks_c [] ex_masked [0%nat] [] true false false = [[]] /\
  multiple_ranks_hoisted_naive [] ex_masked [0%nat] [] true false false = [[0; 2]]%nat.
Proof. vm_compute. repeat split; reflexivity. Qed.

Example C04_percell_nonvacuous :
  disc_point [2; 1 # 2] [2; 3]%nat [1; 0]%nat = disc_point [2; 1 # 2] [2; 3]%nat [1; 0]%nat /\
  map Qred (disc_point [2; 1 # 2] [2; 3]%nat [1; 0]%nat) = [1 # 2; -(1 # 6)].
Proof. vm_compute. split; reflexivity. Qed.

(* pair 2: the data of C06's example, one sector, no checker, wide radius *)
Definition ex_wide : C06.Model.params :=
  {| C06.Model.p_nmini := 2; C06.Model.p_nmaxi := 50; C06.Model.p_nsect := 1; C06.Model.p_nsmax := -1234567; C06.Model.p_ndim := 2;
     C06.Model.p_radius := Some (1000 # 1); C06.Model.p_aniso := false; C06.Model.p_rot := false; C06.Model.p_nd := 2;
     C06.Model.p_coeffs := []; C06.Model.p_rotmat := []; C06.Model.p_xvalid := false; C06.Model.p_kfold := false;
     C06.Model.p_hascode := false; C06.Model.p_eps := 1 # 1000000000; C06.Model.p_checkers := [] |}.
Example C04_unique_moving_nonvacuous :
  let s := C06.Properties.ex_samples in let t := C06.Properties.ex_target in
  forallb (fun x => C06.Model.within ex_wide (C06.Model.dist2 ex_wide t x)) s = true /\
  C04.Neigh.unique_ranks ex_wide t s = [0; 1; 2; 3; 6; 7; 8; 9; 10; 11]%nat /\
  C06.Model.r_ranks (C06.Model.moving C06.Properties.no_oracle ex_wide t s) = C04.Neigh.unique_ranks ex_wide t s.
Proof. vm_compute. repeat split; reflexivity. Qed.

(* pair 3: ordinary kriging of 4 samples in 1-D (extended matrix 5 x 5); sample 1 cross-validated: the shortcut read in the
   inverse of the full matrix against kriging from the 3 remaining samples *)
Definition ex_K : mat := [[4; 2; 1; 1 # 2; 1]; [2; 4; 2; 1; 1]; [1; 2; 4; 2; 1]; [1 # 2; 1; 2; 4; 1]; [1; 1; 1; 1; 0]].
Definition ex_z : list Q := [7; 3; 5; 1; 0].
Definition ex_loo : kcase :=
  let m (a : Q) : mat := [[a]] in
  {| k_nvar := 1; k_monos := [[]]; k_nfex := 0;
     k_samples := [ {| s_coord := [Some 0]; s_z := [Some 7]; s_verr := []; s_fext := [] |};
                    {| s_coord := [Some 2]; s_z := [Some 5]; s_verr := []; s_fext := [] |};
                    {| s_coord := [Some 3]; s_z := [Some 1]; s_verr := []; s_fext := [] |} ];
     k_means := [0]; k_tcoord := [1]; k_tfext := []; k_flag_verr := false;
     k_clhs := [ [m 4]; [m 1; m 4]; [m (1 # 2); m 2; m 4] ];
     k_crhs := [ [m 2]; [m 2]; [m 1] ];
     k_c00 := m 4 |}.
Example C04_xvalid_nonvacuous :
  match inv_checked 5 ex_K, krige ex_loo with
  | Some B, Some o =>
      let i := 1%nat in
      negb (qeqb (get B i i) 0) = true /\
      qeqb (est o 0) (0 - sum_except 5 i (fun j => get B i j * (/ get B i i) * vget ex_z j)) = true /\
      qeqb (var o 0) (/ get B i i) = true /\ qeqb (est o 0) 3 = false
  | _, _ => False
  end.
Proof. vm_compute. repeat split; reflexivity. Qed.

(* pair 4 *)
Example C04_ball_nearest_nonvacuous :
  exists res, C06.Knn.knn_query C06.Knn.manhattan C06.Properties.knn_ex_data
                (C06.Knn.btree_init C06.Knn.manhattan 2 C06.Properties.knn_ex_data 1) 1 [-2; -3 # 4] = Some res /\
              map snd res = [4%nat] /\ map snd (C06.Knn.knn_spec C06.Knn.manhattan C06.Properties.knn_ex_data 1 [-2; -3 # 4]) = [4%nat].
Proof. eexists. vm_compute. repeat split; reflexivity. Qed.

(* pair 4, neighbourhood: C06's refutation data WITHOUT cross-validation: nmaxi = 2, eligible list = the two nearest samples *)
Definition ex_ballp : C06.Model.params :=
  {| C06.Model.p_nmini := 1; C06.Model.p_nmaxi := 2; C06.Model.p_nsect := 1; C06.Model.p_nsmax := -1234567; C06.Model.p_ndim := 2;
     C06.Model.p_radius := Some (5 # 2); C06.Model.p_aniso := false; C06.Model.p_rot := false; C06.Model.p_nd := 2;
     C06.Model.p_coeffs := []; C06.Model.p_rotmat := []; C06.Model.p_xvalid := false; C06.Model.p_kfold := false;
     C06.Model.p_hascode := false; C06.Model.p_eps := 1 # 1000000000; C06.Model.p_checkers := [] |}.
Definition ex_ballt : C06.Model.target := {| C06.Model.t_coords := [1 # 4; 0]; C06.Model.t_code := None |}.
Example C04_ball_moving_nonvacuous :
  let s := C06.Properties.ball_samples in
  map (fun x => C06.Model.dist2 ex_ballp ex_ballt x) s = [1 # 16; 9 # 16; 65 # 16; 265 # 16] /\
  C06.Model.r_ranks (C06.Model.moving_ball C06.Properties.no_oracle ex_ballp ex_ballt s [1; 0]%nat) = [0; 1]%nat /\
  C06.Model.r_ranks (C06.Model.moving C06.Properties.no_oracle ex_ballp ex_ballt s) = [0; 1]%nat.
Proof. vm_compute. repeat split; reflexivity. Qed.

(* pair 4, migration: the nearest active sample (rank 1) is beyond dmax, rank 3 is the nearest one within it; rank 0 is masked *)
Example C04_migrate_nonvacuous :
  let l := [ {| m_active := false; m_d2 := 1 # 4; m_within := true |}; {| m_active := true; m_d2 := 1; m_within := false |};
             {| m_active := true; m_d2 := 9; m_within := true |};      {| m_active := true; m_d2 := 4; m_within := true |} ] in
  length (active_cands l) = 3%nat /\ migrate_ball l = Some 3%nat /\ migrate_exhaustive l = Some 3%nat /\
  option_map mc_idx (amin (active_cands l)) = Some 1%nat.
Proof. vm_compute. repeat split; reflexivity. Qed.

(* pair 3: sample 1 has an undefined external drift: equation 2 is the second active one *)
Example C04_flag_address_nonvacuous :
  let k := {| k_nvar := 1; k_monos := [[]]; k_nfex := 1;
              k_samples := [ {| s_coord := [Some 0]; s_z := [Some 7]; s_verr := []; s_fext := [Some 1] |};
                             {| s_coord := [Some 1]; s_z := [Some 3]; s_verr := []; s_fext := [None] |};
                             {| s_coord := [Some 3]; s_z := [Some 5]; s_verr := []; s_fext := [Some 2] |} ];
              k_means := [0]; k_tcoord := [1]; k_tfext := [Some 1]; k_flag_verr := false; k_clhs := []; k_crhs := []; k_c00 := [] |} in
  active k = [0; 2; 3; 4]%nat /\ flag_address k 2 = Some 1%nat /\ flag_address k 1 = None.
Proof. vm_compute. repeat split; reflexivity. Qed.

(* pair 5: the kriging case of C01's example with its right-hand sides presented as one-point "blocks" *)
Example C04_block1_nonvacuous :
  let k := C01.Properties.ex_case in
  forallb (fun ie => match nth ie (k_crhs k) [] with [_] => true | _ => false end) (seq 0 3) = true /\
  qeqb (rhs_full (with_crhs k (k_crhs k)) 1 0) (rhs_full k 1 0) = true /\ qeqb (rhs_full k 1 0) 2 = true.
Proof. vm_compute. repeat split; reflexivity. Qed.

(* pair 6 *)
Example C04_colcok_nonvacuous :
  let tcol := fun jvar : Z => if Z.eqb jvar 5 then Some (7 # 2) else None in
  let d := colcok_datum [1; 2] [] [(-1)%Z; 5%Z] tcol in
  update_colcok [(-1)%Z; 5%Z] tcol false [0%Z; 2%Z] = [0%Z; 2%Z; (-1)%Z] /\
  s_z d = [None; Some (7 # 2)] /\ s_coord d = [Some 1; Some 2] /\
  update_colcok [(-1)%Z; 5%Z] (fun _ => None) false [0%Z; 2%Z] = [0%Z; 2%Z].
Proof. vm_compute. repeat split; reflexivity. Qed.

(* pair 7: n = 3, one drift function: the premises hold (exact inverses) and the six conclusions evaluate to true *)
Definition ex_Sigma : mat := [[4; 2; 1]; [2; 4; 2]; [1; 2; 4]].
Definition ex_X : mat := [[1]; [1]; [1]].
Example C04_calcul_nonvacuous :
  match inv_checked 3 ex_Sigma with
  | Some Sm =>
      let S := get Sm in let X := get ex_X in let Sigma := get ex_Sigma in
      match inv_checked 1 (mk 1 1 (M 3 S X)) with
      | Some Cm =>
          let C := get Cm in
          let sigma0 := vget [2; 3; 1] in let x0 := vget [1] in let z := vget [7; 3; 5] in
          let luk := lam_uk 3 1 S X C sigma0 x0 in let m := mu 3 1 S X C sigma0 x0 in
          forallb (fun a => qeqb (fmv 4 (K_block 3 Sigma X) (w_block 3 1 S X C sigma0 x0) a) (r_block 3 sigma0 x0 a)) (seq 0 4) = true /\
          qeqb (fdot 3 sigma0 (b_dual 3 1 S X C z) + fdot 1 x0 (c_dual 3 1 S X C z)) (fdot 3 luk z) = true /\
          qeqb (fdot 3 luk (fmv 3 Sigma luk)) (fdot 3 luk sigma0 + fdot 1 m x0) = true /\
          qeqb (fdot 3 luk (fun _ => 1)) 1 = true /\ qeqb (m 0%nat) 0 = false
      | None => False
      end
  | None => False
  end.
Proof. vm_compute. repeat split; reflexivity. Qed.

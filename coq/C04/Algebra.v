(* C04 algebra: the leave-one-out (Dubrule) identity behind the unique-neighbourhood cross-validation shortcut and the
   Schur-complement forms used by KrigingCalcul (UK from SK). Function-level matrices of lib/LinAlgQ. *)
From Coq Require Import List Arith ZArith QArith Bool Lqa Lia.
From Gst Require Import lib.QAux lib.LinAlgQ.
Import ListNotations.
Local Open Scope Q_scope.

(* sum over all indices but i *)
Definition sum_except (n i : nat) (f : nat -> Q) : Q := sumn n (fun l => if Nat.eqb l i then 0 else f l).

Lemma sumn_isolate n i f : (i < n)%nat -> sumn n f == sum_except n i f + f i.
Proof.
  intro Hi. unfold sum_except.
  rewrite (sumn_ext n f (fun l => (if Nat.eqb l i then 0 else f l) + delta i l * f l)).
  - rewrite sumn_add. rewrite (sumn_delta_l n i f Hi). reflexivity.
  - intros l _. unfold delta. rewrite (Nat.eqb_sym i l). destruct (Nat.eqb_spec l i) as [E|E]; [subst l|]; ring.
Qed.

Section Dubrule.
  Variable n : nat.
  Variables K B : fmat.
  Hypothesis KB : finv n K B.
  Variable i : nat.
  Hypothesis Hi : (i < n)%nat.
  Hypothesis Bii : ~ B i i == 0.

  Definition loo_w (l : nat) : Q := - B l i / B i i.

  (* the weights -B_li/B_ii solve the system deprived of row and column i, with column i as right-hand side *)
  Lemma loo_system j : (j < n)%nat -> j <> i ->
    sum_except n i (fun l => K j l * loo_w l) == K j i.
  Proof.
    intros Hj Hne.
    destruct (KB j i Hj Hi) as [H1 _]. unfold fmul in H1.
    rewrite (sumn_isolate n i _ Hi) in H1.
    assert (Hd : delta j i == 0) by (unfold delta; destruct (Nat.eqb_spec j i); [contradiction|reflexivity]).
    rewrite Hd in H1.
    assert (E : sum_except n i (fun l => K j l * loo_w l) == - (/ B i i) * sum_except n i (fun l => K j l * B l i)).
    { unfold sum_except. rewrite <- sumn_scal_l. apply sumn_ext. intros l _.
      destruct (Nat.eqb l i); [ring|]. unfold loo_w. field. exact Bii. }
    rewrite E.
    assert (E2 : sum_except n i (fun l => K j l * B l i) == - (K j i * B i i)) by lra.
    rewrite E2. field. exact Bii.
  Qed.

  (* leave-one-out variance = 1 / B_ii *)
  Lemma loo_variance : K i i - sum_except n i (fun l => K i l * loo_w l) == / B i i.
  Proof.
    destruct (KB i i Hi Hi) as [H1 _]. unfold fmul in H1.
    rewrite (sumn_isolate n i _ Hi) in H1.
    assert (Hd : delta i i == 1) by (unfold delta; rewrite Nat.eqb_refl; reflexivity).
    rewrite Hd in H1.
    assert (E : sum_except n i (fun l => K i l * loo_w l) == - (/ B i i) * sum_except n i (fun l => K i l * B l i)).
    { unfold sum_except. rewrite <- sumn_scal_l. apply sumn_ext. intros l _.
      destruct (Nat.eqb l i); [ring|]. unfold loo_w. field. exact Bii. }
    rewrite E.
    assert (E2 : sum_except n i (fun l => K i l * B l i) == 1 - K i i * B i i) by lra.
    rewrite E2. field. exact Bii.
  Qed.

  (* the estimate written by the code: m - sum_{j<>i} B_ij (1/B_ii) (z_j - m)  =  m + sum_{j<>i} w_j (z_j - m)
     (B symmetric because K is) *)
  Lemma loo_estimate (z : nat -> Q) (m : Q) :
    fsym n B ->
    m - sum_except n i (fun j => B i j * (/ B i i) * (z j - m))
    == m + sum_except n i (fun j => loo_w j * (z j - m)).
  Proof.
    intro S. unfold sum_except.
    assert (E : sumn n (fun l => if Nat.eqb l i then 0 else loo_w l * (z l - m)) ==
                - sumn n (fun l => if Nat.eqb l i then 0 else B i l * / B i i * (z l - m))).
    { rewrite <- (Qmult_1_l (sumn n (fun l => if Nat.eqb l i then 0 else B i l * / B i i * (z l - m)))).
      setoid_replace (- (1 * sumn n (fun l => if Nat.eqb l i then 0 else B i l * / B i i * (z l - m))))
        with ((-(1)) * sumn n (fun l => if Nat.eqb l i then 0 else B i l * / B i i * (z l - m))) by ring.
      rewrite <- sumn_scal_l. apply sumn_ext. intros l Hl.
      destruct (Nat.eqb_spec l i) as [E|E]; [ring|].
      unfold loo_w. rewrite (S l i Hl Hi). field. exact Bii. }
    rewrite E. ring.
  Qed.
End Dubrule.

(* ---------------- Schur-complement form of universal kriging ---------------- *)
Lemma fmv_add n A x y i : fmv n A (fun l => x l + y l) i == fmv n A x i + fmv n A y i.
Proof. unfold fmv. rewrite <- sumn_add. apply sumn_ext. intros; ring. Qed.

Lemma fdot_add_r n a x y : fdot n a (fun l => x l + y l) == fdot n a x + fdot n a y.
Proof. unfold fdot. rewrite <- sumn_add. apply sumn_ext. intros; ring. Qed.

(* fmv through a linear combination of columns *)
Lemma fmv_comb n p S X mu i :
  fmv n S (fun j => sumn p (fun l => X j l * mu l)) i == sumn p (fun l => fmv n S (fun j => X j l) i * mu l).
Proof.
  unfold fmv.
  rewrite (sumn_ext n _ (fun j => sumn p (fun l => S i j * X j l * mu l)))
    by (intros j _; rewrite <- sumn_scal_l; apply sumn_ext; intros; ring).
  rewrite sumn_swap. apply sumn_ext. intros l _. rewrite <- sumn_scal_r. apply sumn_ext. intros; ring.
Qed.

Lemma fdot_comb n p a F mu :
  fdot n a (fun i => sumn p (fun l => F i l * mu l)) == sumn p (fun l => fdot n a (fun i => F i l) * mu l).
Proof.
  unfold fdot.
  rewrite (sumn_ext n _ (fun i => sumn p (fun l => a i * F i l * mu l)))
    by (intros i _; rewrite <- sumn_scal_l; apply sumn_ext; intros; ring).
  rewrite sumn_swap. apply sumn_ext. intros l _. rewrite <- sumn_scal_r. apply sumn_ext. intros; ring.
Qed.

Section Schur.
  Variables n p : nat.
  Variables Sigma S : fmat.          (* Sigma and its inverse, n x n *)
  Variable X : fmat.                 (* drift matrix, n x p *)
  Variable C : fmat.                 (* inverse of Xt S X, p x p *)
  Variables sigma0 : fvec.           (* n *)
  Variable x0 : fvec.                (* p *)
  Hypothesis HS : finv n Sigma S.
  Definition M : fmat := fun k l => fdot n (fun i => X i k) (fmv n S (fun j => X j l)).   (* Xt S X *)
  Hypothesis HC : finv p M C.

  Definition lam_sk : fvec := fmv n S sigma0.
  Definition y0 : fvec := fun k => x0 k - fdot n (fun i => X i k) lam_sk.
  Definition mu : fvec := fmv p C y0.
  Definition g : fvec := fun i => sumn p (fun l => X i l * mu l).                           (* X mu *)
  Definition lam_uk : fvec := fun i => lam_sk i + fmv n S g i.

  (* Sigma.lambda - X.mu = sigma0   (i.e. Sigma.lambda + X.(-mu) = sigma0) *)
  Lemma schur_cov_rows i : (i < n)%nat -> fmv n Sigma lam_uk i - g i == sigma0 i.
  Proof.
    intro Hi. unfold lam_uk. rewrite fmv_add.
    unfold lam_sk. rewrite (finv_solves n Sigma S sigma0 i HS Hi).
    rewrite (finv_solves n Sigma S g i HS Hi). ring.
  Qed.

  (* Xt.lambda = x0 *)
  Lemma schur_drift_rows k : (k < p)%nat -> fdot n (fun i => X i k) lam_uk == x0 k.
  Proof.
    intro Hk. unfold lam_uk. rewrite fdot_add_r.
    assert (E : fdot n (fun i => X i k) (fmv n S g) == fmv p M mu k).
    { unfold g.
      rewrite (fdot_ext n (fun i => X i k) (fun i => X i k) (fmv n S (fun j => sumn p (fun l => X j l * mu l)))
                 (fun i => sumn p (fun l => fmv n S (fun j => X j l) i * mu l)))
        by (intros; try reflexivity; apply fmv_comb).
      rewrite fdot_comb. unfold fmv at 2, M. apply sumn_ext. intros l _. reflexivity. }
    rewrite E. unfold mu. rewrite (finv_solves p M C y0 k HC Hk). unfold y0. ring.
  Qed.

  (* the universal-kriging estimate equals the simple-kriging one plus the drift correction: lambda_uk.z = lambda_sk.z + mu.(Xt S z) *)
  Lemma schur_estimate z :
    fsym n S ->
    fdot n lam_uk z == fdot n lam_sk z + fdot p mu (fun l => fdot n (fun j => X j l) (fmv n S z)).
  Proof.
    intro Ssym. unfold lam_uk.
    rewrite (fdot_comm n (fun i => lam_sk i + fmv n S g i) z). rewrite fdot_add_r.
    rewrite (fdot_comm n z lam_sk). apply Qplus_comp; [reflexivity|].
    (* z . (S g) = (S z) . g *)
    rewrite fdot_fmv.
    rewrite (fdot_ext n (fmv n (ftr S) z) (fmv n S z) g g)
      by (intros l Hl; try reflexivity; unfold fmv, ftr; apply sumn_ext; intros m Hm; rewrite (Ssym m l Hm Hl); reflexivity).
    unfold g. rewrite fdot_comb. unfold fdot at 3. apply sumn_ext. intros l _.
    rewrite (fdot_comm n (fmv n S z)). unfold fdot. ring.
  Qed.
End Schur.

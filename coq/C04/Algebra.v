(* C04 algebra: the leave-one-out (Dubrule) identity behind the unique-neighbourhood cross-validation shortcut and the
   Schur-complement forms used by KrigingCalcul (UK from SK). Function-level matrices of lib/LinAlgQ. *)
From Coq Require Import List Arith ZArith QArith Bool Lqa Lia.
From Gst Require Import lib.QAux lib.LinAlgQ.
Import ListNotations.
Local Open Scope Q_scope.

(* sum over all indices but i *)
Definition sum_except (n i : nat) (f : nat -> Q) : Q := sumn n (fun l => if Nat.eqb l i then 0 else f l).

Lemma sumn_isolate n i f : (i < n)%nat -> sumn n f == sum_except n i f + f i.
Proof.
  intro Hi. unfold sum_except.
  rewrite (sumn_ext n f (fun l => (if Nat.eqb l i then 0 else f l) + delta i l * f l)).
  - rewrite sumn_add. rewrite (sumn_delta_l n i f Hi). reflexivity.
  - intros l _. unfold delta. rewrite (Nat.eqb_sym i l). destruct (Nat.eqb_spec l i) as [E|E]; [subst l|]; ring.
Qed.

Section Dubrule.
  Variable n : nat.
  Variables K B : fmat.
  Hypothesis KB : finv n K B.
  Variable i : nat.
  Hypothesis Hi : (i < n)%nat.
  Hypothesis Bii : ~ B i i == 0.

  Definition loo_w (l : nat) : Q := - B l i / B i i.

  (* the weights -B_li/B_ii solve the system deprived of row and column i, with column i as right-hand side *)
  Lemma loo_system j : (j < n)%nat -> j <> i ->
    sum_except n i (fun l => K j l * loo_w l) == K j i.
  Proof.
    intros Hj Hne.
    destruct (KB j i Hj Hi) as [H1 _]. unfold fmul in H1.
    rewrite (sumn_isolate n i _ Hi) in H1.
    assert (Hd : delta j i == 0) by (unfold delta; destruct (Nat.eqb_spec j i); [contradiction|reflexivity]).
    rewrite Hd in H1.
    assert (E : sum_except n i (fun l => K j l * loo_w l) == - (/ B i i) * sum_except n i (fun l => K j l * B l i)).
    { unfold sum_except. rewrite <- sumn_scal_l. apply sumn_ext. intros l _.
      destruct (Nat.eqb l i); [ring|]. unfold loo_w. field. exact Bii. }
    rewrite E.
    assert (E2 : sum_except n i (fun l => K j l * B l i) == - (K j i * B i i)) by lra.
    rewrite E2. field. exact Bii.
  Qed.

  (* leave-one-out variance = 1 / B_ii *)
  Lemma loo_variance : K i i - sum_except n i (fun l => K i l * loo_w l) == / B i i.
  Proof.
    destruct (KB i i Hi Hi) as [H1 _]. unfold fmul in H1.
    rewrite (sumn_isolate n i _ Hi) in H1.
    assert (Hd : delta i i == 1) by (unfold delta; rewrite Nat.eqb_refl; reflexivity).
    rewrite Hd in H1.
    assert (E : sum_except n i (fun l => K i l * loo_w l) == - (/ B i i) * sum_except n i (fun l => K i l * B l i)).
    { unfold sum_except. rewrite <- sumn_scal_l. apply sumn_ext. intros l _.
      destruct (Nat.eqb l i); [ring|]. unfold loo_w. field. exact Bii. }
    rewrite E.
    assert (E2 : sum_except n i (fun l => K i l * B l i) == 1 - K i i * B i i) by lra.
    rewrite E2. field. exact Bii.
  Qed.

  (* the estimate written by the code: m - sum_{j<>i} B_ij (1/B_ii) (z_j - m)  =  m + sum_{j<>i} w_j (z_j - m)
     (B symmetric because K is) *)
  Lemma loo_estimate (z : nat -> Q) (m : Q) :
    fsym n B ->
    m - sum_except n i (fun j => B i j * (/ B i i) * (z j - m))
    == m + sum_except n i (fun j => loo_w j * (z j - m)).
  Proof.
    intro S. unfold sum_except.
    assert (E : sumn n (fun l => if Nat.eqb l i then 0 else loo_w l * (z l - m)) ==
                - sumn n (fun l => if Nat.eqb l i then 0 else B i l * / B i i * (z l - m))).
    { rewrite <- (Qmult_1_l (sumn n (fun l => if Nat.eqb l i then 0 else B i l * / B i i * (z l - m)))).
      setoid_replace (- (1 * sumn n (fun l => if Nat.eqb l i then 0 else B i l * / B i i * (z l - m))))
        with ((-(1)) * sumn n (fun l => if Nat.eqb l i then 0 else B i l * / B i i * (z l - m))) by ring.
      rewrite <- sumn_scal_l. apply sumn_ext. intros l Hl.
      destruct (Nat.eqb_spec l i) as [E|E]; [ring|].
      unfold loo_w. rewrite (S l i Hl Hi). field. exact Bii. }
    rewrite E. ring.
  Qed.
End Dubrule.

(* ---------------- Schur-complement form of universal kriging ---------------- *)
Lemma fmv_add n A x y i : fmv n A (fun l => x l + y l) i == fmv n A x i + fmv n A y i.
Proof. unfold fmv. rewrite <- sumn_add. apply sumn_ext. intros; ring. Qed.

Lemma fdot_add_r n a x y : fdot n a (fun l => x l + y l) == fdot n a x + fdot n a y.
Proof. unfold fdot. rewrite <- sumn_add. apply sumn_ext. intros; ring. Qed.

(* fmv through a linear combination of columns *)
Lemma fmv_comb n p S X mu i :
  fmv n S (fun j => sumn p (fun l => X j l * mu l)) i == sumn p (fun l => fmv n S (fun j => X j l) i * mu l).
Proof.
  unfold fmv.
  rewrite (sumn_ext n _ (fun j => sumn p (fun l => S i j * X j l * mu l)))
    by (intros j _; rewrite <- sumn_scal_l; apply sumn_ext; intros; ring).
  rewrite sumn_swap. apply sumn_ext. intros l _. rewrite <- sumn_scal_r. apply sumn_ext. intros; ring.
Qed.

Lemma fdot_comb n p a F mu :
  fdot n a (fun i => sumn p (fun l => F i l * mu l)) == sumn p (fun l => fdot n a (fun i => F i l) * mu l).
Proof.
  unfold fdot.
  rewrite (sumn_ext n _ (fun i => sumn p (fun l => a i * F i l * mu l)))
    by (intros i _; rewrite <- sumn_scal_l; apply sumn_ext; intros; ring).
  rewrite sumn_swap. apply sumn_ext. intros l _. rewrite <- sumn_scal_r. apply sumn_ext. intros; ring.
Qed.

Section Schur.
  Variables n p : nat.
  Variables Sigma S : fmat.          (* Sigma and its inverse, n x n *)
  Variable X : fmat.                 (* drift matrix, n x p *)
  Variable C : fmat.                 (* inverse of Xt S X, p x p *)
  Variables sigma0 : fvec.           (* n *)
  Variable x0 : fvec.                (* p *)
  Hypothesis HS : finv n Sigma S.
  Definition M : fmat := fun k l => fdot n (fun i => X i k) (fmv n S (fun j => X j l)).   (* Xt S X *)
  Hypothesis HC : finv p M C.

  Definition lam_sk : fvec := fmv n S sigma0.
  Definition y0 : fvec := fun k => x0 k - fdot n (fun i => X i k) lam_sk.
  Definition mu : fvec := fmv p C y0.
  Definition g : fvec := fun i => sumn p (fun l => X i l * mu l).                           (* X mu *)
  Definition lam_uk : fvec := fun i => lam_sk i + fmv n S g i.

  (* Sigma.lambda - X.mu = sigma0   (i.e. Sigma.lambda + X.(-mu) = sigma0) *)
  Lemma schur_cov_rows i : (i < n)%nat -> fmv n Sigma lam_uk i - g i == sigma0 i.
  Proof.
    intro Hi. unfold lam_uk. rewrite fmv_add.
    unfold lam_sk. rewrite (finv_solves n Sigma S sigma0 i HS Hi).
    rewrite (finv_solves n Sigma S g i HS Hi). ring.
  Qed.

  (* Xt.lambda = x0 *)
  Lemma schur_drift_rows k : (k < p)%nat -> fdot n (fun i => X i k) lam_uk == x0 k.
  Proof.
    intro Hk. unfold lam_uk. rewrite fdot_add_r.
    assert (E : fdot n (fun i => X i k) (fmv n S g) == fmv p M mu k).
    { unfold g.
      rewrite (fdot_ext n (fun i => X i k) (fun i => X i k) (fmv n S (fun j => sumn p (fun l => X j l * mu l)))
                 (fun i => sumn p (fun l => fmv n S (fun j => X j l) i * mu l)))
        by (intros; try reflexivity; apply fmv_comb).
      rewrite fdot_comb. unfold fmv at 2, M. apply sumn_ext. intros l _. reflexivity. }
    rewrite E. unfold mu. rewrite (finv_solves p M C y0 k HC Hk). unfold y0. ring.
  Qed.

  (* the universal-kriging estimate equals the simple-kriging one plus the drift correction: lambda_uk.z = lambda_sk.z + mu.(Xt S z) *)
  Lemma schur_estimate z :
    fsym n S ->
    fdot n lam_uk z == fdot n lam_sk z + fdot p mu (fun l => fdot n (fun j => X j l) (fmv n S z)).
  Proof.
    intro Ssym. unfold lam_uk.
    rewrite (fdot_comm n (fun i => lam_sk i + fmv n S g i) z). rewrite fdot_add_r.
    rewrite (fdot_comm n z lam_sk). apply Qplus_comp; [reflexivity|].
    (* z . (S g) = (S z) . g *)
    rewrite fdot_fmv.
    rewrite (fdot_ext n (fmv n (ftr S) z) (fmv n S z) g g)
      by (intros l Hl; try reflexivity; unfold fmv, ftr; apply sumn_ext; intros m Hm; rewrite (Ssym m l Hm Hl); reflexivity).
    unfold g. rewrite fdot_comb. unfold fdot at 3. apply sumn_ext. intros l _.
    rewrite (fdot_comm n (fmv n S z)). unfold fdot. ring.
  Qed.

  (* ---- simple kriging: lambda_sk solves Sigma.lambda = sigma0; Var(Zstar) = lambda.sigma0 = lambda.Sigma.lambda *)
  Lemma sk_system i : (i < n)%nat -> fmv n Sigma lam_sk i == sigma0 i.
  Proof. intro Hi. unfold lam_sk. apply (finv_solves n Sigma S sigma0 i HS Hi). Qed.

  Lemma sk_varz : fdot n lam_sk (fmv n Sigma lam_sk) == fdot n lam_sk sigma0.
  Proof. apply fdot_ext; intros l Hl; [reflexivity|apply sk_system; exact Hl]. Qed.

  (* simple kriging estimate: primal form lambda_sk . z + mean (KrigingCalcul::_needZstar, means added when present) =
     dual form sigma0 . (S z) + mean *)
  Lemma sk_primal_dual z (m : Q) : fsym n S -> fdot n lam_sk z + m == fdot n sigma0 (fmv n S z) + m.
  Proof. intro Ssym. unfold lam_sk. rewrite (dual_eq_primal n S sigma0 z Ssym). reflexivity. Qed.

  (* ---- universal kriging: lambda_uk . (X mu) = mu . x0 (drift rows), hence the forms of Var(Zstar) and of the error variance *)
  Lemma schur_lam_g : fdot n lam_uk g == fdot p mu x0.
  Proof.
    unfold g. rewrite fdot_comb. unfold fdot at 2. apply sumn_ext. intros l Hl.
    rewrite (fdot_comm n lam_uk (fun i => X i l)). rewrite (schur_drift_rows l Hl). ring.
  Qed.

  (* KrigingCalcul::_needVarZUK computes lambda^t Sigma lambda; KrigingSystem::_estimateVarZ computes lambda.sigma0 + mu.x0 *)
  Lemma schur_varz : fdot n lam_uk (fmv n Sigma lam_uk) == fdot n lam_uk sigma0 + fdot p mu x0.
  Proof.
    rewrite (fdot_ext n lam_uk lam_uk (fmv n Sigma lam_uk) (fun i => sigma0 i + g i)).
    - rewrite fdot_add_r. rewrite schur_lam_g. reflexivity.
    - intros; reflexivity.
    - intros l Hl. pose proof (schur_cov_rows l Hl) as E. lra.
  Qed.

  (* KrigingCalcul::_needStdv (UK): sigma00 - lambda.sigma0 + mu.x0 is the variance of the estimation error *)
  Lemma schur_stdv (sigma00 : Q) :
    sigma00 - fdot n lam_uk sigma0 + fdot p mu x0 ==
    sigma00 - 2 * fdot n lam_uk sigma0 + fdot n lam_uk (fmv n Sigma lam_uk).
  Proof. rewrite schur_varz. ring. Qed.

  (* ---- dual form (KrigingCalcul::_needDual + _needZstar): c = Sigmac Xt S z, b = S z - S X c, Zstar = sigma0.b + x0.c *)
  Definition c_dual (z : fvec) : fvec := fmv p C (fun l => fdot n (fun j => X j l) (fmv n S z)).
  Definition b_dual (z : fvec) : fvec :=
    fun i => fmv n S z i - fmv n S (fun j => sumn p (fun l => X j l * c_dual z l)) i.

  Lemma schur_dual z :
    fsym n S -> fsym p C ->
    fdot n sigma0 (b_dual z) + fdot p x0 (c_dual z) == fdot n lam_uk z.
  Proof.
    intros Ssym Csym.
    rewrite (schur_estimate z Ssym).
    set (w := fun l => fdot n (fun j => X j l) (fmv n S z)).
    (* mu . w = y0 . (C w) = y0 . c *)
    assert (E1 : fdot p mu w == fdot p y0 (c_dual z)).
    { unfold mu, c_dual. fold w. symmetry. apply (dual_eq_primal p C y0 w Csym). }
    rewrite E1.
    (* y0 . c = x0 . c - sum_k (X_k . lam_sk) c_k *)
    assert (E2 : fdot p y0 (c_dual z) ==
                 fdot p x0 (c_dual z) - sumn p (fun k => fdot n (fun i => X i k) lam_sk * c_dual z k)).
    { unfold fdot at 1 2. rewrite <- sumn_sub. apply sumn_ext. intros k _. unfold y0. ring. }
    rewrite E2.
    (* sigma0 . b = sigma0 . (S z) - sigma0 . (S (X c)) *)
    assert (E3 : fdot n sigma0 (b_dual z) ==
                 fdot n sigma0 (fmv n S z) - fdot n sigma0 (fmv n S (fun j => sumn p (fun l => X j l * c_dual z l)))).
    { unfold fdot. rewrite <- sumn_sub. apply sumn_ext. intros i _. unfold b_dual. ring. }
    rewrite E3.
    rewrite (dual_eq_primal n S sigma0 z Ssym).
    rewrite (dual_eq_primal n S sigma0 (fun j => sumn p (fun l => X j l * c_dual z l)) Ssym).
    fold lam_sk.
    rewrite (fdot_comb n p lam_sk X (c_dual z)).
    assert (E4 : sumn p (fun l => fdot n lam_sk (fun i => X i l) * c_dual z l) ==
                 sumn p (fun k => fdot n (fun i => X i k) lam_sk * c_dual z k)).
    { apply sumn_ext. intros l _. rewrite (fdot_comm n lam_sk (fun i => X i l)). reflexivity. }
    rewrite E4. ring.
  Qed.

  (* ---- (lambda_uk, -mu) solves the standard block system [Sigma X; Xt 0] . [lambda; m] = [sigma0; x0] *)
  Definition K_block : fmat := fun a b =>
    if Nat.ltb a n then (if Nat.ltb b n then Sigma a b else X a (b - n)%nat)
    else (if Nat.ltb b n then X b (a - n)%nat else 0).
  Definition w_block : fvec := fun a => if Nat.ltb a n then lam_uk a else - mu (a - n)%nat.
  Definition r_block : fvec := fun a => if Nat.ltb a n then sigma0 a else x0 (a - n)%nat.

  Lemma schur_block_system a : (a < n + p)%nat -> fmv (n + p) K_block w_block a == r_block a.
  Proof.
    intro Ha. unfold fmv. rewrite sumn_split.
    unfold K_block, w_block, r_block. destruct (Nat.ltb a n) eqn:E.
    - apply Nat.ltb_lt in E.
      rewrite (sumn_ext n _ (fun l => Sigma a l * lam_uk l)).
      2:{ intros l Hl. apply Nat.ltb_lt in Hl. rewrite Hl. reflexivity. }
      rewrite (sumn_ext p _ (fun l => - (X a l * mu l))).
      2:{ intros l Hl. assert (F : Nat.ltb (n + l) n = false) by (apply Nat.ltb_ge; lia). rewrite F.
          replace (n + l - n)%nat with l by lia. ring. }
      pose proof (schur_cov_rows a E) as H. unfold fmv, g in H.
      assert (E2 : sumn p (fun l => - (X a l * mu l)) == - sumn p (fun l => X a l * mu l)).
      { setoid_replace (- sumn p (fun l => X a l * mu l)) with ((-(1)) * sumn p (fun l => X a l * mu l)) by ring.
        rewrite <- sumn_scal_l. apply sumn_ext. intros; ring. }
      rewrite E2. lra.
    - apply Nat.ltb_ge in E.
      rewrite (sumn_ext n _ (fun l => X l (a - n)%nat * lam_uk l)).
      2:{ intros l Hl. apply Nat.ltb_lt in Hl. rewrite Hl. reflexivity. }
      rewrite (sumn_zero p).
      2:{ intros l Hl. assert (F : Nat.ltb (n + l) n = false) by (apply Nat.ltb_ge; lia). rewrite F. ring. }
      assert (Hk : (a - n < p)%nat) by lia.
      pose proof (schur_drift_rows (a - n)%nat Hk) as H. unfold fdot in H. rewrite H. ring.
  Qed.
End Schur.

(* ---------------- leave-one-out: uniqueness, and the reduced system written on the indices 0..n-2 ---------------- *)
Definition skip (i a : nat) : nat := if Nat.ltb a i then a else S a.
Definition unskip (i l : nat) : nat := if Nat.ltb l i then l else Nat.pred l.

Lemma unskip_skip i a : unskip i (skip i a) = a.
Proof.
  unfold skip, unskip. destruct (Nat.ltb a i) eqn:E.
  - rewrite E. reflexivity.
  - apply Nat.ltb_ge in E. assert (F : Nat.ltb (S a) i = false) by (apply Nat.ltb_ge; lia). rewrite F. reflexivity.
Qed.
Lemma skip_unskip i l : l <> i -> skip i (unskip i l) = l.
Proof.
  intro H. unfold skip, unskip. destruct (Nat.ltb l i) eqn:E.
  - rewrite E. reflexivity.
  - apply Nat.ltb_ge in E. assert (F : Nat.ltb (Nat.pred l) i = false) by (apply Nat.ltb_ge; lia). rewrite F. lia.
Qed.
Lemma skip_neq i a : skip i a <> i.
Proof. unfold skip. destruct (Nat.ltb a i) eqn:E; [apply Nat.ltb_lt in E|apply Nat.ltb_ge in E]; lia. Qed.
Lemma skip_lt i a n : (a < n)%nat -> (skip i a < S n)%nat.
Proof. unfold skip. destruct (Nat.ltb a i); lia. Qed.
Lemma unskip_lt i l n : (i <= n)%nat -> (l < S n)%nat -> l <> i -> (unskip i l < n)%nat.
Proof. intros Hi Hl Hne. unfold unskip. destruct (Nat.ltb l i) eqn:E; [apply Nat.ltb_lt in E|apply Nat.ltb_ge in E]; lia. Qed.

Lemma sum_except_skip n i f : (i <= n)%nat -> sumn n (fun a => f (skip i a)) == sum_except (S n) i f.
Proof.
  unfold sum_except. induction n as [|n IH]; intro Hi.
  - assert (E : i = 0%nat) by lia. subst i. cbn [sumn Nat.eqb]. ring.
  - destruct (Nat.eq_dec i (S n)) as [E|E].
    + subst i. cbn [sumn]. rewrite Nat.eqb_refl.
      assert (E1 : Nat.eqb n (S n) = false) by (apply Nat.eqb_neq; lia). rewrite E1.
      assert (E2 : skip (S n) n = n) by (unfold skip; assert (F : Nat.ltb n (S n) = true) by (apply Nat.ltb_lt; lia); rewrite F; reflexivity).
      rewrite E2.
      rewrite (sumn_ext n (fun a => f (skip (S n) a)) (fun l => if Nat.eqb l (S n) then 0 else f l)).
      * ring.
      * intros a Ha. unfold skip. assert (F : Nat.ltb a (S n) = true) by (apply Nat.ltb_lt; lia). rewrite F.
        assert (G : Nat.eqb a (S n) = false) by (apply Nat.eqb_neq; lia). rewrite G. reflexivity.
    + assert (Hi' : (i <= n)%nat) by lia.
      change (sumn (S n) (fun a => f (skip i a))) with (sumn n (fun a => f (skip i a)) + f (skip i n)).
      rewrite (IH Hi').
      change (sumn (S (S n)) (fun l => if Nat.eqb l i then 0 else f l))
        with (sumn (S n) (fun l => if Nat.eqb l i then 0 else f l) + (if Nat.eqb (S n) i then 0 else f (S n))).
      assert (E1 : Nat.eqb (S n) i = false) by (apply Nat.eqb_neq; lia). rewrite E1.
      assert (E2 : skip i n = S n) by (unfold skip; assert (F : Nat.ltb n i = false) by (apply Nat.ltb_ge; lia); rewrite F; reflexivity).
      rewrite E2. reflexivity.
Qed.

Lemma sum_except_ext n i f g : (forall l, (l < n)%nat -> l <> i -> f l == g l) -> sum_except n i f == sum_except n i g.
Proof.
  intro H. unfold sum_except. apply sumn_ext. intros l Hl.
  destruct (Nat.eqb_spec l i) as [E|E]; [reflexivity|apply H; assumption].
Qed.

Section DubruleUnique.
  Variable n : nat.
  Variables K B : fmat.
  Hypothesis KB : finv n K B.
  Variable i : nat.
  Hypothesis Hi : (i < n)%nat.
  Hypothesis Bii : ~ B i i == 0.

  (* the system deprived of row and column i has no other solution than the weights -B_li/B_ii *)
  Lemma loo_unique (w : nat -> Q) :
    (forall j, (j < n)%nat -> j <> i -> sum_except n i (fun l => K j l * w l) == K j i) ->
    forall l, (l < n)%nat -> l <> i -> w l == loo_w B i l.
  Proof.
    intro Hw.
    set (v := fun l => if Nat.eqb l i then 0 else w l - loo_w B i l).
    set (c := fmv n K v i).
    assert (HKv : forall a, (a < n)%nat -> fmv n K v a == (fun k => c * delta k i) a).
    { intros a Ha. cbv beta. unfold delta. destruct (Nat.eqb_spec a i) as [E|E].
      - subst a. unfold c. ring.
      - unfold fmv.
        rewrite (sumn_ext n _ (fun l => (if Nat.eqb l i then 0 else K a l * w l) - (if Nat.eqb l i then 0 else K a l * loo_w B i l))).
        2:{ intros l _. unfold v. destruct (Nat.eqb l i); ring. }
        rewrite sumn_sub.
        change (sumn n (fun l => if Nat.eqb l i then 0 else K a l * w l)) with (sum_except n i (fun l => K a l * w l)).
        change (sumn n (fun l => if Nat.eqb l i then 0 else K a l * loo_w B i l)) with (sum_except n i (fun l => K a l * loo_w B i l)).
        rewrite (Hw a Ha E). rewrite (loo_system n K B KB i Hi Bii a Ha E). ring. }
    assert (Hv : forall l, (l < n)%nat -> v l == B l i * c).
    { intros l Hl. rewrite (finv_unique_solution n K B (fun k => c * delta k i) v KB HKv l Hl).
      unfold fmv. rewrite (sumn_ext n _ (fun k => (B l k * c) * delta k i)) by (intros; ring).
      apply (sumn_delta_r n i (fun k => B l k * c) Hi). }
    assert (Hc : c == 0).
    { pose proof (Hv i Hi) as E. unfold v in E. rewrite Nat.eqb_refl in E.
      destruct (Qeq_dec c 0) as [Z|NZ]; [exact Z|]. exfalso. apply Bii.
      assert (P : B i i * c == 0) by (symmetry; exact E).
      apply Qmult_integral in P. destruct P as [P|P]; [exact P|contradiction]. }
    intros l Hl Hne. pose proof (Hv l Hl) as E. unfold v in E.
    assert (F : Nat.eqb l i = false) by (apply Nat.eqb_neq; exact Hne). rewrite F in E. rewrite Hc in E. lra.
  Qed.

  (* the expressions of KrigingSystem::_estimateCalculXvalidUnique equal kriging from ANY solution of the system without i.
     y = centred data (zero on the drift equations), m = mean *)
  Lemma loo_shortcut (w y : nat -> Q) (m : Q) :
    fsym n K ->
    (forall j, (j < n)%nat -> j <> i -> sum_except n i (fun l => K j l * w l) == K j i) ->
    m - sum_except n i (fun j => B i j * (/ B i i) * y j) == m + sum_except n i (fun j => w j * y j) /\
    / B i i == K i i - sum_except n i (fun l => K i l * w l).
  Proof.
    intros Ksym Hw.
    pose proof (loo_unique w Hw) as U.
    assert (Bsym : fsym n B) by (apply (finv_sym n K B Ksym KB)).
    split.
    - rewrite (sum_except_ext n i (fun j => w j * y j) (fun j => loo_w B i j * ((y j + m) - m))).
      2:{ intros l Hl Hne. rewrite (U l Hl Hne). ring. }
      rewrite <- (loo_estimate n B i Hi Bii (fun j => y j + m) m Bsym).
      apply Qplus_comp; [reflexivity|]. apply Qopp_comp. apply sum_except_ext. intros l _ _. ring.
    - rewrite (sum_except_ext n i (fun l => K i l * w l) (fun l => K i l * loo_w B i l)).
      2:{ intros l Hl Hne. rewrite (U l Hl Hne). reflexivity. }
      symmetry. apply (loo_variance n K B KB i Hi Bii).
  Qed.
End DubruleUnique.

(* C16 proofs: the matrices generated from (cos, sin) pairs are rotations *)
From Coq Require Import List ZArith QArith Lqa Nsatz Lia.
From Gst Require Import lib.QAux C16.Model C16.Spec C16.Proofs_lin C16.Proofs_coord.
Import ListNotations.
Local Open Scope Q_scope.

Lemma rot2d_orthogonal c s : c * c + s * s == 1 -> orthogonal 2 (rot2d c s) /\ det2 (rot2d c s) == 1.
Proof.
  intros H. split; [split; [split; [reflexivity|repeat constructor]|]|].
  - split; intros i j Hi Hj; destruct i as [|[|i]]; try lia; destruct j as [|[|j]]; try lia;
      cbn [rot2d col map List.nth dot delta Nat.eqb]; clear Hi Hj; nsatz.
  - unfold det2, mget. cbn [rot2d List.nth]. nsatz.
Qed.

Lemma rot3d_orthogonal c0 s0 c1 s1 c2 s2 :
  c0 * c0 + s0 * s0 == 1 -> c1 * c1 + s1 * s1 == 1 -> c2 * c2 + s2 * s2 == 1 ->
  orthogonal 3 (rot3d c0 s0 c1 s1 c2 s2) /\ det3 (rot3d c0 s0 c1 s1 c2 s2) == 1.
Proof.
  intros H0 H1 H2. split; [split; [split; [reflexivity|repeat constructor]|]|].
  - split; intros i j Hi Hj; destruct i as [|[|[|i]]]; try lia; destruct j as [|[|[|j]]]; try lia;
      cbn [rot3d col map List.nth dot delta Nat.eqb]; clear Hi Hj; nsatz.
  - unfold det3, mget. cbn [rot3d List.nth]. nsatz.
Qed.

(* a rotation object built from an orthogonal matrix satisfies rot_ok, whichever way the identity test goes *)
Lemma rot_of_matrix_ok n M : orthogonal n M -> rot_ok n (rot_of_matrix n M).
Proof. intros H. right. split; [exact H|reflexivity]. Qed.
Lemma rot_identity_ok n : rot_ok n (rot_identity n).
Proof. left. reflexivity. Qed.

(* rotateInverse o rotateDirect = id and rotateDirect o rotateInverse = id *)
Lemma rotation_roundtrip n M v : orthogonal n M -> length v = n ->
  eqlQ (rotate_inverse (rot_of_matrix n M) (rotate_direct (rot_of_matrix n M) v)) v /\
  eqlQ (rotate_direct (rot_of_matrix n M) (rotate_inverse (rot_of_matrix n M) v)) v.
Proof.
  intros H Hv. split; [apply (rotate_inverse_direct n)|apply (rotate_direct_inverse n)]; try assumption; apply rot_of_matrix_ok; exact H.
Qed.

(* ---- angles recovered from a 3-D matrix (GH::rotationGetAnglesInPlace): a0 = atan2(M10, M00), a1 = atan2(-M20, sqrt(M21^2+M22^2)),
   a2 = atan2(M21, M22).  For M = rot3d (c0,s0) (c1,s1) (c2,s2) the pairs given to atan2 are (c1 s0, c1 c0), (s1, sqrt(c1^2)), (c1 s2, c1 c2):
   proportional to the original (sin, cos) pairs by the factor c1.  When c1 < 0 the recovered triple is the other representation
   of the same rotation: (-c0,-s0), (-c1, s1), (-c2,-s2) — it generates the same matrix. *)
Lemma rot3d_atan2_args c0 s0 c1 s1 c2 s2 : c1 * c1 + s1 * s1 == 1 -> c2 * c2 + s2 * s2 == 1 ->
  let M := rot3d c0 s0 c1 s1 c2 s2 in
  mget M 1 0 == c1 * s0 /\ mget M 0 0 == c1 * c0 /\ - mget M 2 0 == s1 /\
  mget M 2 1 * mget M 2 1 + mget M 2 2 * mget M 2 2 == c1 * c1 /\
  mget M 2 1 == c1 * s2 /\ mget M 2 2 == c1 * c2.
Proof.
  intros H1 H2. cbv zeta. unfold mget. cbn [rot3d List.nth]. repeat split; try ring. nsatz.
Qed.
Lemma rot3d_other_triple c0 s0 c1 s1 c2 s2 :
  Forall2 (Forall2 Qeq) (rot3d (- c0) (- s0) (- c1) s1 (- c2) (- s2)) (rot3d c0 s0 c1 s1 c2 s2).
Proof. unfold rot3d. repeat constructor; ring. Qed.
(* 2-D: a0 = atan2(M10, M00) = atan2(s, c) *)
Lemma rot2d_atan2_args c s : mget (rot2d c s) 1 0 = s /\ mget (rot2d c s) 0 0 = c.
Proof. split; reflexivity. Qed.

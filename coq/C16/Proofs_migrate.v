(* C16 proofs: migration bookkeeping *)
From Coq Require Import List ZArith QArith Qround Qabs Bool Lia Lqa.
From Gst Require Import lib.QAux C16.Model C16.Spec C16.Migrate C16.Proofs_rank C16.Proofs_lin C16.Proofs_coord C16.Proofs_derived.
Import ListNotations.
Local Open Scope Q_scope.

(* ---- location of a sample: the cell containing it, or outside *)
Lemma locate_some n g c eps p r : wfgrid n g -> length (p_coor p) = n ->
  locate_gen c eps g p = Some r ->
  p_active p = true /\
  let idx := snd (c2i g (p_coor p) c eps) in
  inrange (g_nx g) idx /\ r = rank_of (g_nx g) idx /\ (0 <= r < prodZ (g_nx g))%Z /\
  forall k, (k < n)%nat -> in_cell_axis c eps (nth k (grid_frame g (p_coor p)) 0) (nth k (g_dx g) 1) (nth k idx 0%Z).
Proof.
  intros Hg Hl H. pose proof Hg as (Hnx & _ & _ & Hpos & _). unfold locate_gen in H.
  destruct (p_active p); [|discriminate]. split; [reflexivity|]. cbv zeta.
  unfold coordinateToRank in H.
  destruct (fst (c2i g (p_coor p) c eps)) eqn:F.
  - simpl in H. discriminate.
  - assert (Hin : inrange (g_nx g) (snd (c2i g (p_coor p) c eps))).
    { assert (Hlen : length (snd (c2i g (p_coor p) c eps)) = length (g_nx g)) by (rewrite (c2i_length n) by assumption; congruence).
      destruct (any_out_false _ _ Hlen) as [A _]. apply A. exact F. }
    destruct (idx_rank_idx (g_nx g) _ Hpos Hin) as [Hr _].
    destruct (Z.leb_spec 0 (indiceToRank (g_nx g) (snd (c2i g (p_coor p) c eps)))); [|lia].
    inversion H; subst r. split; [exact Hin|]. split; [apply indiceToRank_formula; exact Hin|]. split; [exact Hr|].
    intros k Hk. apply (c2i_cell n); assumption.
Qed.
Lemma locate_none n g c eps p : wfgrid n g -> length (p_coor p) = n -> p_active p = true ->
  locate_gen c eps g p = None -> ~ inrange (g_nx g) (snd (c2i g (p_coor p) c eps)).
Proof.
  intros Hg Hl Ha H Hin. pose proof Hg as (Hnx & _ & _ & Hpos & _). unfold locate_gen in H. rewrite Ha in H.
  unfold coordinateToRank in H.
  assert (F : fst (c2i g (p_coor p) c eps) = false).
  { assert (Hlen : length (snd (c2i g (p_coor p) c eps)) = length (g_nx g)) by (rewrite (c2i_length n) by assumption; congruence).
    destruct (any_out_false _ _ Hlen) as [_ A]. apply A. exact Hin. }
  rewrite F in H. destruct (idx_rank_idx (g_nx g) _ Hpos Hin) as [Hr _].
  destruct (Z.leb_spec 0 (indiceToRank (g_nx g) (snd (c2i g (p_coor p) c eps)))); [discriminate|lia].
Qed.

(* ---- grid -> point: the code (cells centred on the nodes) is the documented rule, dmax included *)
Lemma g2p_is_spec eps g vals dt dmax p :
  g2p_one_gen true eps g vals dt dmax p = spec_g2p_one_eps eps g vals dt dmax p.
Proof.
  unfold g2p_one_gen, spec_g2p_one_eps, locate_gen, cell_of_eps. destruct (p_active p); [|reflexivity].
  destruct (0 <=? coordinateToRank g (p_coor p) true eps)%Z; reflexivity.
Qed.
Lemma g2p_no_dmax c eps g vals dt p :
  g2p_one_gen c eps g vals dt [] p = match locate_gen c eps g p with Some r => getv vals r | None => None end.
Proof. unfold g2p_one_gen. destruct (locate_gen c eps g p); reflexivity. Qed.

(* ---- "the closest wins, the first one on equal distances" *)
Lemma fold_left_app1 {A B} (f : A -> B -> A) l x a : fold_left f (l ++ [x]) a = f (fold_left f l a) x.
Proof. rewrite fold_left_app. reflexivity. Qed.

Lemma closer_fold_spec g node : forall l,
  match fold_left (closer g node) l None with
  | None => l = []
  | Some ip => exists l1 l2, l = l1 ++ ip :: l2 /\
      (forall jq, In jq l1 -> dist2 g node (p_coor (snd ip)) < dist2 g node (p_coor (snd jq))) /\
      (forall jq, In jq l2 -> dist2 g node (p_coor (snd ip)) <= dist2 g node (p_coor (snd jq)))
  end.
Proof.
  induction l as [|x l IH] using rev_ind; [reflexivity|].
  rewrite fold_left_app1. destruct (fold_left (closer g node) l None) as [ip|].
  - destruct IH as [l1 [l2 [E [H1 H2]]]]. unfold closer.
    destruct (qltb_spec (dist2 g node (p_coor (snd x))) (dist2 g node (p_coor (snd ip)))) as [Hlt|Hge].
    + exists l, []. split; [reflexivity|]. split; [|intros jq []].
      intros jq Hin. rewrite E in Hin. apply in_app_or in Hin. destruct Hin as [Hin|[<-|Hin]].
      * specialize (H1 jq Hin). lra.
      * exact Hlt.
      * specialize (H2 jq Hin). lra.
    + exists l1, (l2 ++ [x]). split; [rewrite E, <- app_assoc; reflexivity|]. split; [exact H1|].
      intros jq Hin. apply in_app_or in Hin. destruct Hin as [Hin|[<-|[]]]; [apply H2; exact Hin|lra].
  - subst l. simpl. exists [], []. split; [reflexivity|]. split; intros jq [].
Qed.

Lemma fold_left_filter {A B} (f h : A -> B -> A) (P : B -> bool) :
  (forall a x, f a x = if P x then h a x else a) ->
  forall l a, fold_left f l a = fold_left h (filter P l) a.
Proof.
  intros Hf. induction l as [|x l IH]; intros a; simpl; [reflexivity|].
  rewrite Hf. destruct (P x); simpl; apply IH.
Qed.

(* the samples competing for a node: located there, with a value *)
Definition p2g_cand (c : bool) (eps : Q) (g : grid) (node : Z) (ip : nat * pt) : bool :=
  match locate_gen c eps g (snd ip) with
  | Some r => Z.eqb r node && match p_val (snd ip) with Some _ => true | None => false end
  | None => false
  end.

Lemma p2g_no_dmax c eps g dt pts node :
  p2g_holder_gen c eps g dt [] pts node = fold_left (closer g node) (filter (p2g_cand c eps g node) (indexed 0 pts)) None.
Proof.
  unfold p2g_holder_gen. apply fold_left_filter. intros cur ip.
  unfold p2g_update_gen, p2g_cand, closer. destruct (locate_gen c eps g (snd ip)) as [r|]; [|reflexivity].
  destruct (Z.eqb r node); simpl; [|reflexivity].
  destruct (p_val (snd ip)); [|reflexivity]. destruct cur as [jq|]; reflexivity.
Qed.
(* with dmax: the sample kept is the closest (first on equal distances) among the valued samples of the cell lying
   within dmax of the node — the documented rule *)
Lemma p2g_is_spec eps g dt dmax pts node :
  p2g_holder_gen true eps g dt dmax pts node = spec_p2g_holder_eps eps g dt dmax pts node.
Proof.
  unfold p2g_holder_gen, spec_p2g_holder_eps. apply fold_left_filter. intros cur ip.
  unfold p2g_update_gen, spec_p2g_cand_eps, locate_gen, cell_of_eps, closer.
  destruct (p_active (snd ip)); simpl; [|reflexivity].
  destruct (0 <=? coordinateToRank g (p_coor (snd ip)) true eps)%Z; simpl; [|destruct (p_val (snd ip)); reflexivity].
  destruct (p_val (snd ip)); simpl.
  - destruct (Z.eqb (coordinateToRank g (p_coor (snd ip)) true eps) node); simpl; [|reflexivity].
    destruct (larger_than_dmax (dvect g node (p_coor (snd ip))) dt dmax); simpl; [reflexivity|].
    destruct cur; reflexivity.
  - destruct (Z.eqb (coordinateToRank g (p_coor (snd ip)) true eps) node); reflexivity.
Qed.
(* grid -> grid with filling: the value of the input cell containing the output node *)
Lemma g2g_fill_is_spec eps gin vals gout dt dmax j :
  g2g_fill_one_gen true eps gin vals gout dt dmax j = spec_g2g_fill_one_eps eps gin vals gout dt dmax j.
Proof.
  unfold g2g_fill_one_gen, spec_g2g_fill_one_eps, cell_of_eps.
  set (r := coordinateToRank gin (rankToCoordinates gout j []) true eps).
  destruct (Z.ltb_spec r 0); destruct (Z.leb_spec 0 r); try lia; reflexivity.
Qed.

(* ---- coordinateToIndices respects equal coordinates; location of a fractional parent position *)
Lemma c2i_of_eql n g ind pc pz c eps coor :
  wfgrid n g -> length ind = n -> length pz = n ->
  pz = match pc with [] => map (fun _ => 0) ind | _ => pc end ->
  offsets_ok c eps pz -> eqlQ coor (i2c g ind pc true) ->
  snd (c2i g coor c eps) = ind.
Proof.
  intros Hg Hi Hp Hpz Hoff Hc. pose proof Hg as (Hnx & Hx0 & Hdx & Hpn & Hpd & Hr).
  unfold c2i. simpl.
  apply (floor_axes c eps ind pz); try congruence.
  unfold i2c, scaled in Hc. rewrite <- Hpz in Hc.
  apply (grid_frame_of_world n); [exact Hg| |exact Hc].
  rewrite map2_length; rewrite map2_length; congruence.
Qed.

(* the parent node that a node of the coarsened grid reads (grid -> grid with filling, as createCoarse does):
   cell matching: j*m + (m-1)/2 (integer division: the centre node of the m parent nodes, the lower of the two
   central ones for an even m); point matching: j*m.   Holds for both conventions as long as 0 <= eps < 1/2. *)
Lemma coarse_reads n g nmult fc j eps :
  wfgrid n g -> length nmult = n -> length j = n -> (0 < n)%nat -> Forall (fun m => (0 < m)%Z) nmult ->
  0 <= eps -> eps < 1 # 2 ->
  snd (c2i g (node (derived g (multiple g nmult fc)) j) false eps) =
  map2 (fun jj m => (jj * m + (if fc then (m - 1) / 2 else 0))%Z) j nmult.
Proof.
  intros Hg Hm Hj Hn Hpos He1 He2. pose proof (wfgrid_gridok n g Hg) as Hok.
  pose proof (coarse_nodes n g nmult fc j Hok Hm Hj) as HN. unfold frac_node in HN.
  set (ind := map2 (fun jj m => (jj * m + (if fc then (m - 1) / 2 else 0))%Z) j nmult).
  set (off := map (fun m => if fc then inject_Z ((m - 1) mod 2) / 2 else 0) nmult).
  assert (Li : length ind = n) by (unfold ind; rewrite map2_length; congruence).
  assert (Lo : length off = n) by (unfold off; rewrite map_length; exact Hm).
  pose proof Hok as [Hw _]. pose proof Hw as (Hnx & _ & _).
  assert (L0 : length (zerosZ g) = n) by (rewrite zerosZ_length; exact Hnx).
  apply (c2i_of_eql n g ind off off); auto.
  - destruct off; [simpl in Lo; lia|reflexivity].
  - unfold offsets_ok, off. apply Forall_forall. intros p Hin. apply in_map_iff in Hin. destruct Hin as [m [<- Hin]].
    unfold half_if. destruct fc; [|split; lra].
    assert (Hmod : (0 <= (m - 1) mod 2 < 2)%Z) by (apply Z.mod_pos_bound; lia).
    assert (C : ((m - 1) mod 2 = 0 \/ (m - 1) mod 2 = 1)%Z) by lia.
    destruct C as [-> | ->].
    + assert (E : inject_Z 0 / 2 == 0) by reflexivity. rewrite E. split; lra.
    + assert (E : inject_Z 1 / 2 == 1 # 2) by reflexivity. rewrite E. split; lra.
  - eapply eqlQ_trans; [exact HN|].
    apply (i2c_ext n); auto; try (right; rewrite map2_length; congruence).
    intros i Hi. rewrite zerosZ_nth.
    rewrite (map2_nth (fun jj m => inject_Z jj * inject_Z m + (if fc then (inject_Z m - 1) / 2 else 0)) _ _ 0%Z 0%Z 0) by congruence.
    unfold ind, off.
    rewrite (map2_nth (fun jj m => (jj * m + (if fc then (m - 1) / 2 else 0))%Z) _ _ 0%Z 0%Z 0%Z) by congruence.
    rewrite (map_nth' (fun m => if fc then inject_Z ((m - 1) mod 2) / 2 else 0) nmult 0%Z) by lia.
    set (jj := nth i j 0%Z). set (m := nth i nmult 0%Z).
    destruct fc.
    + rewrite inject_Z_plus, inject_Z_mult.
      assert (E : (m - 1 = 2 * ((m - 1) / 2) + (m - 1) mod 2)%Z) by (apply Z.div_mod; lia).
      assert (EQ : inject_Z m - 1 == 2 * inject_Z ((m - 1) / 2) + inject_Z ((m - 1) mod 2)).
      { change 1 with (inject_Z 1). change 2 with (inject_Z 2). rewrite <- inject_Z_mult, <- inject_Z_plus.
        unfold Qminus. rewrite <- inject_Z_opp, <- inject_Z_plus. rewrite <- E. reflexivity. }
      change (inject_Z 0) with 0. rewrite EQ. field.
    + rewrite inject_Z_plus, inject_Z_mult. change (inject_Z 0) with 0. ring.
Qed.

(* the parent node that a node of the refined grid (cell matching) reads, cells centred on the nodes: j div m —
   the parent cell that contains the fine cell.  Needs eps < 1/(2m) on every axis. *)
Lemma refine_reads n g nmult j eps :
  wfgrid n g -> length nmult = n -> length j = n -> (0 < n)%nat -> Forall (fun m => (0 < m)%Z) nmult ->
  0 <= eps -> Forall (fun m => eps * (2 * inject_Z m) < 1) nmult ->
  snd (c2i g (node (derived g (divider g nmult true)) j) true eps) = map2 (fun jj m => (jj / m)%Z) j nmult.
Proof.
  intros Hg Hm Hj Hn Hpos He1 He2. pose proof (wfgrid_gridok n g Hg) as Hok.
  pose proof (refine_nodes n g nmult true j Hok Hm Hj Hpos) as HN. unfold frac_node in HN.
  set (ind := map2 (fun jj m => (jj / m)%Z) j nmult).
  set (off := map2 (fun jj m => (2 * inject_Z (jj mod m) + 1) / (2 * inject_Z m) - (1 # 2)) j nmult).
  assert (Li : length ind = n) by (unfold ind; rewrite map2_length; congruence).
  assert (Lo : length off = n) by (unfold off; rewrite map2_length; congruence).
  pose proof Hok as [Hw _]. pose proof Hw as (Hnx & _ & _).
  assert (L0 : length (zerosZ g) = n) by (rewrite zerosZ_length; exact Hnx).
  assert (Hq : forall k, (k < n)%nat -> 0 < inject_Z (nth k nmult 0%Z)).
  { intros k Hk. change 0 with (inject_Z 0). rewrite <- Zlt_Qlt. rewrite Forall_forall in Hpos. apply Hpos. apply nth_In. lia. }
  apply (c2i_of_eql n g ind off off); auto.
  - destruct off; [simpl in Lo; lia|reflexivity].
  - unfold offsets_ok. apply Forall_forall. intros p Hin.
    destruct (In_nth _ _ 0 Hin) as [k [Hk Ek]]. rewrite Lo in Hk. subst p. unfold off.
    rewrite (map2_nth (fun jj m => (2 * inject_Z (jj mod m) + 1) / (2 * inject_Z m) - (1 # 2)) _ _ 0%Z 0%Z 0) by congruence.
    set (jj := nth k j 0%Z). set (m := nth k nmult 0%Z).
    pose proof (Hq k Hk) as Hmq. fold m in Hmq.
    assert (Hmz : (0 < m)%Z) by (rewrite Forall_forall in Hpos; apply Hpos; apply nth_In; lia).
    assert (Hmod : (0 <= jj mod m < m)%Z) by (apply Z.mod_pos_bound; exact Hmz).
    assert (H0 : 0 <= inject_Z (jj mod m)) by (change 0 with (inject_Z 0); rewrite <- Zle_Qle; lia).
    assert (H1 : inject_Z (jj mod m) + 1 <= inject_Z m).
    { change 1 with (inject_Z 1). rewrite <- inject_Z_plus. rewrite <- Zle_Qle. lia. }
    assert (He : eps * (2 * inject_Z m) < 1) by (rewrite Forall_forall in He2; apply He2; apply nth_In; lia).
    unfold half_if.
    assert (E : (2 * inject_Z (jj mod m) + 1) / (2 * inject_Z m) - (1 # 2) + eps ==
                (2 * inject_Z (jj mod m) + 1 - inject_Z m + eps * (2 * inject_Z m)) / (2 * inject_Z m)) by (field; lra).
    split.
    + rewrite E. apply Qle_shift_div_l; [lra|]. nra.
    + rewrite E. apply Qlt_shift_div_r; [lra|]. nra.
  - eapply eqlQ_trans; [exact HN|].
    apply (i2c_ext n); auto; try (right; rewrite map2_length; congruence).
    intros i Hi. rewrite zerosZ_nth.
    rewrite (map2_nth (fun jj m => inject_Z jj / inject_Z m + (if true then - (1 # 2) + 1 / (2 * inject_Z m) else 0)) _ _ 0%Z 0%Z 0) by congruence.
    unfold ind, off.
    rewrite (map2_nth (fun jj m => (jj / m)%Z) _ _ 0%Z 0%Z 0%Z) by congruence.
    rewrite (map2_nth (fun jj m => (2 * inject_Z (jj mod m) + 1) / (2 * inject_Z m) - (1 # 2)) _ _ 0%Z 0%Z 0) by congruence.
    set (jj := nth i j 0%Z). set (m := nth i nmult 0%Z).
    pose proof (Hq i Hi) as Hmq. fold m in Hmq.
    assert (Hmz : (0 < m)%Z) by (rewrite Forall_forall in Hpos; apply Hpos; apply nth_In; lia).
    assert (E : (jj = m * (jj / m) + jj mod m)%Z) by (apply Z.div_mod; lia).
    assert (EQ : inject_Z jj == inject_Z m * inject_Z (jj / m) + inject_Z (jj mod m)).
    { rewrite <- inject_Z_mult, <- inject_Z_plus. rewrite <- E. reflexivity. }
    change (inject_Z 0) with 0. rewrite EQ. field. lra.
Qed.

(* ---- the corners of a cell: getCellCoordinatesByCorner(node, shift) in the grid frame is node*dx + shift*dx/2,
   so the 2^n corners (shift = +-1) are those of the box |w - i dx| <= dx/2 of C16_cell_centered *)
Lemma cell_corner_frame n g ind shift k : wfgrid n g -> length ind = n -> length shift = n -> (0 < n)%nat -> (k < n)%nat ->
  nth k (grid_frame g (coords_by_indice g ind true shift [])) 0 ==
  inject_Z (nth k ind 0%Z) * nth k (g_dx g) 0 + inject_Z (nth k shift 0%Z) * nth k (g_dx g) 0 / 2.
Proof.
  intros Hg Hi Hs Hn Hk. pose proof Hg as (Hnx & Hx0 & Hdx & _).
  destruct shift as [|s0 shift']; [simpl in Hs; lia|].
  set (shift := s0 :: shift') in *.
  set (w1 := vadd (map2 (fun i d => inject_Z i * d) ind (g_dx g)) (map2 (fun s e => inject_Z s * e / 2) shift (g_dx g))).
  assert (Lw : length w1 = n) by (unfold w1, vadd; rewrite map2_length; rewrite map2_length; try rewrite map2_length; congruence).
  assert (E : eqlQ (grid_frame g (coords_by_indice g ind true shift [])) w1).
  { apply (grid_frame_of_world n); [exact Hg|exact Lw|]. unfold coords_by_indice, shift. fold shift. apply eqlQ_refl. }
  rewrite (eqlQ_nth' _ _ k E). unfold w1, vadd.
  rewrite (map2_nth Qplus _ _ 0 0 0) by (rewrite map2_length; try rewrite map2_length; congruence).
  rewrite (map2_nth (fun i d => inject_Z i * d) _ _ 0%Z 0 0) by congruence.
  rewrite (map2_nth (fun s e => inject_Z s * e / 2) _ _ 0%Z 0 0) by congruence.
  reflexivity.
Qed.

(* ---- interpolation: the multilinear weights of the 2^n corners add up to 1 *)
Definition sum_weights (prop : list Q) (cs : list (list bool)) : Q := fold_right (fun c acc => corner_weight prop c + acc) 0 cs.
Lemma sum_weights_app prop a b : sum_weights prop (a ++ b) == sum_weights prop a + sum_weights prop b.
Proof. induction a as [|c a IH]; simpl; [ring|]. rewrite IH. ring. Qed.
Lemma sum_weights_cons p prop cs :
  sum_weights (p :: prop) (flat_map (fun c => [false :: c; true :: c]) cs) == sum_weights prop cs.
Proof.
  induction cs as [|c cs IH]; [reflexivity|].
  cbn [flat_map]. rewrite sum_weights_app, IH. unfold sum_weights at 1. cbn [fold_right app].
  unfold corner_weight. cbn [map2 fold_right]. fold (corner_weight prop c).
  cbn [sum_weights fold_right]. fold (sum_weights prop cs). ring.
Qed.
Lemma corner_weights_sum : forall prop, sum_weights prop (corners (length prop)) == 1.
Proof.
  induction prop as [|p prop IH]; [reflexivity|].
  cbn [length corners]. rewrite sum_weights_cons. exact IH.
Qed.

(* ---- multilinear interpolation reproduces the affine functions of the grid coordinates exactly *)
Definition affine (a0 : Q) (a : list Q) (x : list Q) : Q := a0 + dot a x.
Definition interp_sum (prop : list Q) (idx : list Z) (f : list Z -> Q) : Q :=
  fold_right (fun c acc => corner_weight prop c * f (corner_index idx c) + acc) 0 (corners (length prop)).

Lemma interp_sum_ext prop idx f h : (forall ind, f ind == h ind) -> interp_sum prop idx f == interp_sum prop idx h.
Proof.
  intros H. unfold interp_sum. induction (corners (length prop)) as [|c cs IH]; simpl; [reflexivity|].
  rewrite IH, H. reflexivity.
Qed.
Lemma fold_flat_corner p prop i idx (f : list Z -> Q) cs :
  fold_right (fun c acc => corner_weight (p :: prop) c * f (corner_index (i :: idx) c) + acc) 0
             (flat_map (fun c => [false :: c; true :: c]) cs) ==
  fold_right (fun c acc => corner_weight prop c * ((1 - p) * f (i :: corner_index idx c) + p * f ((i + 1)%Z :: corner_index idx c)) + acc) 0 cs.
Proof.
  induction cs as [|c cs IH]; [reflexivity|].
  cbn [flat_map app fold_right]. rewrite IH.
  change (corner_weight (p :: prop) (false :: c)) with ((1 - p) * corner_weight prop c).
  change (corner_weight (p :: prop) (true :: c)) with (p * corner_weight prop c).
  change (corner_index (i :: idx) (false :: c)) with (i :: corner_index idx c).
  change (corner_index (i :: idx) (true :: c)) with ((i + 1)%Z :: corner_index idx c).
  set (rest := fold_right _ 0 cs). set (w := corner_weight prop c).
  set (f0 := f (i :: corner_index idx c)). set (f1 := f ((i + 1)%Z :: corner_index idx c)).
  clearbody rest w f0 f1. ring.
Qed.
Lemma interp_affine : forall prop idx a a0, length idx = length prop -> length a = length prop ->
  interp_sum prop idx (fun ind => affine a0 a (map inject_Z ind)) ==
  affine a0 a (map2 (fun i p => inject_Z i + p) idx prop).
Proof.
  induction prop as [|p prop IH]; intros [|i idx] [|ah a] a0 Hi Ha; simpl in Hi, Ha; try discriminate.
  - unfold interp_sum, affine, corner_weight, corner_index. cbn [length corners fold_right map2 map dot]. ring.
  - unfold interp_sum. cbn [length corners].
    eapply Qeq_trans; [exact (fold_flat_corner p prop i idx (fun ind => affine a0 (ah :: a) (map inject_Z ind)) (corners (length prop)))|].
    cbv beta.
    assert (E : forall cs, fold_right (fun c acc => corner_weight prop c *
                 ((1 - p) * affine a0 (ah :: a) (map inject_Z (i :: corner_index idx c)) +
                  p * affine a0 (ah :: a) (map inject_Z ((i + 1)%Z :: corner_index idx c))) + acc) 0 cs ==
               fold_right (fun c acc => corner_weight prop c *
                 affine (a0 + ah * (inject_Z i + p)) a (map inject_Z (corner_index idx c)) + acc) 0 cs).
    { induction cs as [|c cs IHc]; [reflexivity|]. cbn [fold_right]. rewrite IHc.
      unfold affine. cbn [map dot]. rewrite inject_Z_plus. change (inject_Z 1) with 1. ring. }
    rewrite E. fold (interp_sum prop idx (fun ind => affine (a0 + ah * (inject_Z i + p)) a (map inject_Z ind))).
    rewrite IH by lia. unfold affine. cbn [map2 dot]. ring.
Qed.

(* the same through interp_combine when no corner is skipped (eps6 = 0) and every corner carries the affine value *)
Lemma filter_all {A} (P : A -> bool) l : (forall x, P x = true) -> filter P l = l.
Proof. intros H. induction l as [|x l IH]; simpl; [reflexivity|]. rewrite H, IH. reflexivity. Qed.
Lemma interp_combine_affine g vals idx prop a a0 :
  length idx = length prop -> length a = length prop ->
  (forall c, corner_value g vals idx c = Some (affine a0 a (map inject_Z (corner_index idx c)))) ->
  exists q, interp_combine g vals 0 idx prop = Some q /\ q == affine a0 a (map2 (fun i p => inject_Z i + p) idx prop).
Proof.
  intros Hi Ha Hv. unfold interp_combine.
  rewrite filter_all by (intros c; unfold qltb; destruct (Qle_bool 0 (Qabs (corner_weight prop c))) eqn:E; [reflexivity|];
                         exfalso; pose proof (Qabs_nonneg (corner_weight prop c)) as Hn; apply Qle_bool_iff in Hn; congruence).
  assert (Ex : existsb (fun c => match corner_value g vals idx c with None => true | Some _ => false end) (corners (length idx)) = false).
  { induction (corners (length idx)) as [|c cs IH]; [reflexivity|]. simpl. rewrite Hv, IH. reflexivity. }
  rewrite Ex. eexists. split; [reflexivity|].
  rewrite Hi.
  assert (N : fold_right (fun c acc => corner_weight prop c * match corner_value g vals idx c with Some v => v | None => 0 end + acc) 0 (corners (length prop))
              == interp_sum prop idx (fun ind => affine a0 a (map inject_Z ind))).
  { unfold interp_sum. induction (corners (length prop)) as [|c cs IH]; [reflexivity|]. cbn [fold_right]. rewrite IH, Hv. reflexivity. }
  assert (D : fold_right (fun c acc => corner_weight prop c + acc) 0 (corners (length prop)) == 1) by (apply corner_weights_sum).
  rewrite N, D, (interp_affine prop idx a a0 Hi Ha). field.
Qed.

(* C16 — property theorems only. Each is closed by [exact] of a lemma of Proofs_*.v. *)
From Coq Require Import List ZArith QArith Qround Qabs Bool Permutation.
From Gst Require Import lib.QAux C16.Model C16.Spec C16.Proofs C16.Proofs_pigeon.
Import ListNotations.
Local Open Scope Q_scope.

(* ------------------------------------------------------------------ rank <-> indices (any dimension) *)
(* rankToIndice gives in-range indices, and indiceToRank brings back the rank *)
Theorem C16_rank_idx : forall nx r, allpos nx -> (0 <= r < prodZ nx)%Z ->
  inrange nx (rankToIndice nx r false) /\ indiceToRank nx (rankToIndice nx r false) = r.
Proof. exact rank_idx_rank. Qed.
Print Assumptions C16_rank_idx.

(* indiceToRank gives a valid rank, and rankToIndice brings back the indices *)
Theorem C16_idx_rank : forall nx ind, allpos nx -> inrange nx ind ->
  (0 <= indiceToRank nx ind < prodZ nx)%Z /\ rankToIndice nx (indiceToRank nx ind) false = ind.
Proof. exact idx_rank_idx. Qed.
Print Assumptions C16_idx_rank.

(* the convention: rank = i0 + n0 (i1 + n1 (i2 + ...)), first index fastest *)
Theorem C16_rank_formula : forall nx ind, inrange nx ind -> indiceToRank nx ind = rank_of nx ind.
Proof. exact indiceToRank_formula. Qed.
Print Assumptions C16_rank_formula.

(* indices outside the grid are reported by -1 *)
Theorem C16_rank_outside : forall nx ind, length nx = length ind -> ~ inrange nx ind -> indiceToRank nx ind = (-1)%Z.
Proof. exact indiceToRank_out. Qed.
Print Assumptions C16_rank_outside.

(* ------------------------------------------------------------------ rotation *)
(* rotateInverse o rotateDirect = id and rotateDirect o rotateInverse = id for an orthogonal matrix, any dimension *)
Theorem C16_rotation : forall n M v, orthogonal n M -> length v = n ->
  eqlQ (rotate_inverse (rot_of_matrix n M) (rotate_direct (rot_of_matrix n M) v)) v /\
  eqlQ (rotate_direct (rot_of_matrix n M) (rotate_inverse (rot_of_matrix n M) v)) v.
Proof. exact rotation_roundtrip. Qed.
Print Assumptions C16_rotation.

(* the matrices generated from the angles are rotations as soon as every (cos, sin) pair lies on the unit circle *)
Theorem C16_rotation_matrix_2d : forall c s, c * c + s * s == 1 -> orthogonal 2 (rot2d c s) /\ det2 (rot2d c s) == 1.
Proof. exact rot2d_orthogonal. Qed.
Print Assumptions C16_rotation_matrix_2d.
Theorem C16_rotation_matrix_3d : forall c0 s0 c1 s1 c2 s2,
  c0 * c0 + s0 * s0 == 1 -> c1 * c1 + s1 * s1 == 1 -> c2 * c2 + s2 * s2 == 1 ->
  orthogonal 3 (rot3d c0 s0 c1 s1 c2 s2) /\ det3 (rot3d c0 s0 c1 s1 c2 s2) == 1.
Proof. exact rot3d_orthogonal. Qed.
Print Assumptions C16_rotation_matrix_3d.

(* ------------------------------------------------------------------ indices <-> coordinates *)
(* coordinateToIndices (indicesToCoordinate ind) = ind for every index vector (in range or not), every grid
   of any dimension with positive meshes and an orthogonal rotation (or none), and
   0 <= eps < 1 (corner convention) resp. -1/2 <= eps < 1/2 (centred convention) *)
Theorem C16_idx_coord : forall n g ind centered eps,
  wfgrid n g -> length ind = n -> - half_if centered <= eps -> eps < 1 - half_if centered ->
  snd (c2i g (node g ind) centered eps) = ind.
Proof. exact idx_coord_idx. Qed.
Print Assumptions C16_idx_coord.

(* the same from a position inside the cell given by per-axis offsets (the `percent' argument) *)
Theorem C16_idx_coord_percent : forall n g ind pc centered eps,
  wfgrid n g -> length ind = n -> length pc = n -> (0 < n)%nat ->
  Forall (fun p => - half_if centered <= p + eps /\ p + eps < 1 - half_if centered) pc ->
  snd (c2i g (i2c g ind pc true) centered eps) = ind.
Proof. exact idx_coord_idx_percent. Qed.
Print Assumptions C16_idx_coord_percent.

(* rank -> coordinates -> rank *)
Theorem C16_rank_coord : forall n g r centered eps,
  wfgrid n g -> (0 <= r < prodZ (g_nx g))%Z -> - half_if centered <= eps -> eps < 1 - half_if centered ->
  coordinateToRank g (rankToCoordinates g r []) centered eps = r.
Proof. exact rank_coord_rank. Qed.
Print Assumptions C16_rank_coord.

(* ------------------------------------------------------------------ cell containment *)
(* whatever the point, on every axis the reported index satisfies the cell inequalities in the grid frame
   (up to the eps the code adds): centred |w - i dx + eps dx| within half a mesh, else i dx <= w + eps dx < (i+1) dx *)
Theorem C16_cell : forall n g coor centered eps k, wfgrid n g -> length coor = n -> (k < n)%nat ->
  in_cell_axis centered eps (nth k (grid_frame g coor) 0) (nth k (g_dx g) 1) (nth k (snd (c2i g coor centered eps)) 0%Z).
Proof. exact c2i_cell. Qed.
Print Assumptions C16_cell.

(* centred convention, no eps: the point is within half a mesh of its node on every axis (grid frame) *)
Theorem C16_cell_centered : forall n g coor k, wfgrid n g -> length coor = n -> (k < n)%nat ->
  Qabs (nth k (grid_frame g coor) 0 - inject_Z (nth k (snd (c2i g coor true 0)) 0%Z) * nth k (g_dx g) 1) <= nth k (g_dx g) 1 / 2.
Proof. exact c2i_cell_centered. Qed.
Print Assumptions C16_cell_centered.

(* conversely the cell that contains the point is the one reported *)
Theorem C16_cell_unique : forall n g coor centered eps idx, wfgrid n g -> length coor = n -> length idx = n ->
  (forall k, (k < n)%nat -> in_cell_axis centered eps (nth k (grid_frame g coor) 0) (nth k (g_dx g) 1) (nth k idx 0%Z)) ->
  snd (c2i g coor centered eps) = idx.
Proof. exact c2i_cell_unique. Qed.
Print Assumptions C16_cell_unique.

(* outside is reported iff some index is out of range *)
Theorem C16_outside : forall n g coor centered eps, wfgrid n g -> length coor = n ->
  (fst (c2i g coor centered eps) = true <-> ~ inrange (g_nx g) (snd (c2i g coor centered eps))).
Proof. exact c2i_outside. Qed.
Print Assumptions C16_outside.

(* the grid frame is the frame of the grid geometry: world = x0 + R frame *)
Theorem C16_frame : forall n g coor, wfgrid n g -> length coor = n ->
  eqlQ (vadd (rotate_direct (g_rot g) (grid_frame g coor)) (g_x0 g)) coor.
Proof. exact frame_back. Qed.
Print Assumptions C16_frame.

(* ------------------------------------------------------------------ derived grids (any grid, rotated or not) *)
(* the origin of Grid::multiple / divider / dilate / createSubGrid is where the documented meaning puts it:
   barycentre of the first nmult parent nodes (cell matching) or parent node 0 (point matching); centre of the first
   sub-cell; parent node -mode*nshift; parent node lim0 *)
Theorem C16_coarse_origin : forall n g nmult flagCell, gridok n g -> length nmult = n ->
  eqlQ (snd (multiple g nmult flagCell)) (spec_multiple_x0 g nmult flagCell).
Proof. exact multiple_x0. Qed.
Print Assumptions C16_coarse_origin.
Theorem C16_refine_origin : forall n g nmult flagCell, gridok n g -> length nmult = n ->
  Forall (fun m => (0 < m)%Z) nmult ->
  eqlQ (snd (divider g nmult flagCell)) (spec_divider_x0 g nmult flagCell).
Proof. exact divider_x0. Qed.
Print Assumptions C16_refine_origin.
Theorem C16_dilate_origin : forall g mode nshift p, dilate g mode nshift = Some p -> snd p = spec_dilate_x0 g mode nshift.
Proof. exact dilate_x0. Qed.
Print Assumptions C16_dilate_origin.
Theorem C16_subgrid_origin : forall n g lim0 lim1, gridok n g -> length lim0 = n ->
  eqlQ (g_x0 (subgrid g lim0 lim1)) (spec_subgrid_x0 g lim0).
Proof. exact subgrid_x0. Qed.
Print Assumptions C16_subgrid_origin.

(* every node of the coarsened grid: barycentre of the nmult parent nodes j*m .. j*m+m-1, i.e. fractional parent index
   j*m + (m-1)/2 (cell matching) / parent node j*m (point matching) — rotated grids and different nmult per axis included *)
Theorem C16_coarse_nodes : forall n g nmult flagCell j,
  gridok n g -> length nmult = n -> length j = n ->
  eqlQ (node (derived g (multiple g nmult flagCell)) j)
       (frac_node g (zerosZ g) (map2 (fun jj m => inject_Z jj * inject_Z m + (if flagCell then (inject_Z m - 1) / 2 else 0)) j nmult)).
Proof. exact coarse_nodes. Qed.
Print Assumptions C16_coarse_nodes.
(* a + (m-1)/2 is the mean of the m consecutive indices a, a+1, ..., a+m-1 *)
Theorem C16_barycentre_index : forall (m : nat) (a : Q), (0 < m)%nat ->
  sumQ m (fun t => a + inject_Z (Z.of_nat t)) / inject_Z (Z.of_nat m) == a + (inject_Z (Z.of_nat m) - 1) / 2.
Proof. exact barycentre_index. Qed.
Print Assumptions C16_barycentre_index.
(* every node of the refined grid: fractional parent index j/m - 1/2 + 1/(2m) (cell matching) / j/m (point matching) *)
Theorem C16_refine_nodes : forall n g nmult flagCell j,
  gridok n g -> length nmult = n -> length j = n -> Forall (fun m => (0 < m)%Z) nmult ->
  eqlQ (node (derived g (divider g nmult flagCell)) j)
       (frac_node g (zerosZ g) (map2 (fun jj m => inject_Z jj / inject_Z m + (if flagCell then - (1 # 2) + 1 / (2 * inject_Z m) else 0)) j nmult)).
Proof. exact refine_nodes. Qed.
Print Assumptions C16_refine_nodes.
(* every node of the dilated grid is parent node j - mode*nshift *)
Theorem C16_dilate_nodes : forall n g mode nshift p j,
  gridok n g -> length nshift = n -> length j = n -> dilate g mode nshift = Some p ->
  eqlQ (node (derived g p) j) (node g (map2 Z.add j (map (fun s => (- mode * s)%Z) nshift))).
Proof. exact dilate_nodes. Qed.
Print Assumptions C16_dilate_nodes.
(* every node of the sub-grid is parent node j + lim0 *)
Theorem C16_subgrid_nodes : forall n g lim0 lim1 j,
  gridok n g -> length lim0 = n -> length lim1 = n -> length j = n ->
  eqlQ (node (subgrid g lim0 lim1) j) (node g (map2 Z.add j lim0)).
Proof. exact subgrid_nodes. Qed.
Print Assumptions C16_subgrid_nodes.
(* a well-formed grid satisfies the hypothesis of the theorems above *)
Theorem C16_gridok : forall n g, wfgrid n g -> gridok n g.
Proof. exact wfgrid_gridok. Qed.
Print Assumptions C16_gridok.

Definition g_rot90 : grid :=
  {| g_nx := [4%Z; 3%Z]; g_x0 := [10; 20]; g_dx := [2; 1]; g_rot := rot_of_matrix 2 [[0; -(1)]; [1; 0]] |}.

(* ------------------------------------------------------------------ mirror index *)
(* Grid::generateMirrorIndex is total for every nx >= 1 (fuel 2|ix|+2 suffices for its loop): the answer is in range,
   it is the reflected index for nx >= 2 (0 for a single node), and an index already in range is returned unchanged *)
Theorem C16_mirror : forall nx ix, (1 <= nx)%Z ->
  exists v, mirror_index (Z.to_nat (2 * Z.abs ix + 2)) nx ix = Some v /\ (0 <= v < nx)%Z /\
            ((2 <= nx)%Z -> v = reflect nx ix) /\ ((0 <= ix < nx)%Z -> v = ix).
Proof. exact mirror_index_ok. Qed.
Print Assumptions C16_mirror.

(* ------------------------------------------------------------------ iterator *)
(* default order: call number j (from 0) returns the indices of rank j, and stays on the last node afterwards;
   with C16_rank_idx: every node exactly once, in rank order *)
Theorem C16_iterator : forall nx k it j, (0 <= it < prodZ nx)%Z -> (j < k)%nat ->
  nth j (iter_run nx k it) [] = rankToIndice nx (Z.min (it + Z.of_nat j) (prodZ nx - 1)) false.
Proof. exact iter_run_nth. Qed.
Print Assumptions C16_iterator.
(* user order = signed 1-based permutation of the dimensions (what iteratorInit accepts): iteration number `it' gives
   indices whose digits, read along the order from the slowest dimension, are the mixed-radix digits of `it' for the
   permuted counts — in range and determining `it'; so the N = prod nx calls visit N different nodes *)
Theorem C16_iterator_order : forall nx order it,
  Forall (fun o => (1 <= Z.abs o)%Z) order -> Permutation (map od order) (seq 0 (length nx)) ->
  allpos nx -> (0 <= it < prodZ nx)%Z ->
  exists idx, iter_next_order nx order it = Some idx /\ length idx = length nx /\
    let nr := map (fun o => nth (od o) nx 0%Z) (rev order) in
    let digits := map (fun o => nth (od o) idx 0%Z) (rev order) in
    inrange nr digits /\ hv nr digits = it.
Proof. exact iter_order_spec. Qed.
Print Assumptions C16_iterator_order.
Theorem C16_iterator_order_once : forall nx order it1 it2 idx,
  Forall (fun o => (1 <= Z.abs o)%Z) order -> Permutation (map od order) (seq 0 (length nx)) ->
  allpos nx -> (0 <= it1 < prodZ nx)%Z -> (0 <= it2 < prodZ nx)%Z ->
  iter_next_order nx order it1 = Some idx -> iter_next_order nx order it2 = Some idx -> it1 = it2.
Proof. exact iter_order_injective. Qed.
Print Assumptions C16_iterator_order_once.

(* the acceptance test of iteratorInit (same length, every dimension named by some entry) admits exactly those
   permutations — pigeonhole — so the two theorems above apply to whatever order the object keeps *)
Theorem C16_iterator_init_permutation : forall n order, iter_init_order n order <> [] ->
  Forall (fun o => (1 <= Z.abs o)%Z) (iter_init_order n order) /\
  Permutation (map od (iter_init_order n order)) (seq 0 n).
Proof. exact iter_init_order_perm. Qed.
Print Assumptions C16_iterator_init_permutation.
Theorem C16_iterator_init_accepts : forall n order, order <> [] -> length order = n ->
  Forall (fun o => (1 <= Z.abs o)%Z) order -> Permutation (map od order) (seq 0 n) -> iter_init_order n order = order.
Proof. exact iter_init_order_accepts. Qed.
Print Assumptions C16_iterator_init_accepts.
Theorem C16_iterator_any_order_once : forall nx order it1 it2 idx,
  iter_init_order (length nx) order <> [] ->
  allpos nx -> (0 <= it1 < prodZ nx)%Z -> (0 <= it2 < prodZ nx)%Z ->
  iter_next_order nx (iter_init_order (length nx) order) it1 = Some idx ->
  iter_next_order nx (iter_init_order (length nx) order) it2 = Some idx -> it1 = it2.
Proof.
  intros nx order it1 it2 idx Hne. destruct (iter_init_order_perm (length nx) order Hne) as [H1 H2].
  exact (iter_order_injective nx _ it1 it2 idx H1 H2).
Qed.
Print Assumptions C16_iterator_any_order_once.

(* ------------------------------------------------------------------ sessions *)
(* the model's answer to a query is independent of the queries made before on the same object: in any session
   (any initial state, any queries before and after) the answer to q is the answer q gets alone.  The session
   correspondence (one C++ object, random interleaved queries) ties the implementation to this. *)
Theorem C16_query_history_independent : forall g st pre q post,
  nth (length pre) (run_session g st (pre ++ q :: post)) (AZ 0) = eval_query g q /\
  run_session g [] [q] = [eval_query g q].
Proof. exact query_history_independent. Qed.
Print Assumptions C16_query_history_independent.
Theorem C16_session_answers : forall g qs st, run_session g st qs = map (eval_query g) qs.
Proof. exact run_session_map. Qed.
Print Assumptions C16_session_answers.

(* the boolean orthogonality test used by the examples is sound *)
Theorem C16_orthogonal_test : forall n M, orthogonal_b n M = true -> orthogonal n M.
Proof. exact orthogonal_b_spec. Qed.
Print Assumptions C16_orthogonal_test.

(* ------------------------------------------------------------------ non-vacuity *)
Lemma g_rot90_wf : wfgrid 2 g_rot90.
Proof.
  repeat split; try (repeat constructor; reflexivity).
  right. split; [apply orthogonal_b_spec; vm_compute; reflexivity|reflexivity].
Qed.
(* a rotated 4x3 grid: hypotheses hold, the rotation is really applied, round trips return the start *)
Example C16_nonvacuous_grid :
  r_flag (g_rot g_rot90) = true /\
  eqlQ_b (node g_rot90 [1%Z; 2%Z]) [8; 22] = true /\
  c2i g_rot90 (node g_rot90 [1%Z; 2%Z]) false (1 # 1000000) = (false, [1%Z; 2%Z]) /\
  c2i g_rot90 (node g_rot90 [1%Z; 2%Z]) true 0 = (false, [1%Z; 2%Z]) /\
  rankToIndice [4%Z; 3%Z] 9 false = [1%Z; 2%Z] /\ indiceToRank [4%Z; 3%Z] [1%Z; 2%Z] = 9%Z /\
  coordinateToRank g_rot90 (rankToCoordinates g_rot90 9 []) false (1 # 1000000) = 9%Z /\
  c2i g_rot90 [7; 19] false 0 = (true, [(-1)%Z; 3%Z]).
Proof. vm_compute. repeat split; reflexivity. Qed.
(* a Pythagorean rotation (cos, sin) = (3/5, 4/5) satisfies the hypothesis of C16_rotation_matrix_2d / C16_rotation,
   a 3-D composition satisfies that of C16_rotation_matrix_3d *)
Example C16_nonvacuous_rotation :
  orthogonal_b 2 (rot2d (3 # 5) (4 # 5)) = true /\
  orthogonal_b 3 (rot3d (3 # 5) (4 # 5) (5 # 13) (12 # 13) (8 # 17) (-15 # 17)) = true /\
  eqlQ_b (rotate_inverse (rot_of_matrix 2 (rot2d (3 # 5) (4 # 5))) (rotate_direct (rot_of_matrix 2 (rot2d (3 # 5) (4 # 5))) [7; -2])) [7; -2] = true /\
  eqlQ_b (rotate_direct (rot_of_matrix 2 (rot2d (3 # 5) (4 # 5))) [5; 0]) [3; 4] = true.
Proof. vm_compute. repeat split; reflexivity. Qed.
(* derived grids (unrotated and rotated parents, different nmult per axis), mirror index, iterator *)
Example C16_nonvacuous_derived :
  let g := {| g_nx := [4%Z; 6%Z]; g_x0 := [10; 20]; g_dx := [2; 1]; g_rot := rot_identity 2 |} in
  fst (fst (multiple g [2%Z; 3%Z] true)) = [2%Z; 2%Z] /\
  eqlQ_b (snd (fst (multiple g [2%Z; 3%Z] true))) [4; 3] = true /\ eqlQ_b (snd (multiple g [2%Z; 3%Z] true)) [11; 21] = true /\
  fst (fst (divider g [2%Z; 2%Z] true)) = [8%Z; 12%Z] /\
  eqlQ_b (snd (fst (divider g [2%Z; 2%Z] true))) [1; 1 # 2] = true /\ eqlQ_b (snd (divider g [2%Z; 2%Z] true)) [19 # 2; 79 # 4] = true /\
  eqlQ_b (snd (multiple g_rot90 [2%Z; 3%Z] true)) [9; 21] = true /\
  eqlQ_b (snd (divider g_rot90 [2%Z; 3%Z] true)) [31 # 3; 39 # 2] = true /\
  eqlQ_b (g_x0 (subgrid g_rot90 [1%Z; 1%Z] [3%Z; 3%Z])) [9; 22] = true /\
  match dilate g_rot90 1 [1%Z; 2%Z] with Some p => fst (fst p) = [6%Z; 7%Z] /\ eqlQ_b (snd p) [12; 18] = true | None => False end /\
  mirror_index 20 4 (-7) = Some 1%Z /\ reflect 4 (-7) = 1%Z /\ mirror_index 0 1 5 = Some 0%Z /\
  iter_run [2%Z; 2%Z] 5 0 = [[0%Z; 0%Z]; [1%Z; 0%Z]; [0%Z; 1%Z]; [1%Z; 1%Z]; [1%Z; 1%Z]] /\
  iter_init_order 2 [2%Z; 1%Z] = [2%Z; 1%Z] /\ iter_init_order 2 [1%Z; 0%Z] = [] /\
  iter_next_order [2%Z; 3%Z] [2%Z; 1%Z] 1 = Some [0%Z; 1%Z] /\ iter_next_order [2%Z; 3%Z] [2%Z; 1%Z] 3 = Some [1%Z; 0%Z] /\
  iter_next_order [2%Z; 3%Z] (default_order 2) 3 = Some [1%Z; 1%Z].
Proof. vm_compute. repeat split; reflexivity. Qed.

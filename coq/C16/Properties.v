(* C16 — property theorems only. Each is closed by [exact] of a lemma of Proofs_*.v. *)
From Coq Require Import List ZArith QArith Qround Qabs Bool Permutation.
From Gst Require Import lib.QAux C16.Model C16.Spec C16.Migrate C16.Proofs C16.Proofs_pigeon.
Import ListNotations.
Local Open Scope Q_scope.

(* ------------------------------------------------------------------ rank <-> indices (any dimension) *)
(* rankToIndice gives in-range indices, and indiceToRank brings back the rank *)
Theorem C16_rank_idx : forall nx r, allpos nx -> (0 <= r < prodZ nx)%Z ->
  inrange nx (rankToIndice nx r false) /\ indiceToRank nx (rankToIndice nx r false) = r.
Proof. exact rank_idx_rank. Qed.
Print Assumptions C16_rank_idx.

(* indiceToRank gives a valid rank, and rankToIndice brings back the indices *)
Theorem C16_idx_rank : forall nx ind, allpos nx -> inrange nx ind ->
  (0 <= indiceToRank nx ind < prodZ nx)%Z /\ rankToIndice nx (indiceToRank nx ind) false = ind.
Proof. exact idx_rank_idx. Qed.
Print Assumptions C16_idx_rank.

(* the convention: rank = i0 + n0 (i1 + n1 (i2 + ...)), first index fastest *)
Theorem C16_rank_formula : forall nx ind, inrange nx ind -> indiceToRank nx ind = rank_of nx ind.
Proof. exact indiceToRank_formula. Qed.
Print Assumptions C16_rank_formula.

(* indices outside the grid are reported by -1 *)
Theorem C16_rank_outside : forall nx ind, length nx = length ind -> ~ inrange nx ind -> indiceToRank nx ind = (-1)%Z.
Proof. exact indiceToRank_out. Qed.
Print Assumptions C16_rank_outside.

(* ------------------------------------------------------------------ rotation *)
(* rotateInverse o rotateDirect = id and rotateDirect o rotateInverse = id for an orthogonal matrix, any dimension *)
Theorem C16_rotation : forall n M v, orthogonal n M -> length v = n ->
  eqlQ (rotate_inverse (rot_of_matrix n M) (rotate_direct (rot_of_matrix n M) v)) v /\
  eqlQ (rotate_direct (rot_of_matrix n M) (rotate_inverse (rot_of_matrix n M) v)) v.
Proof. exact rotation_roundtrip. Qed.
Print Assumptions C16_rotation.

(* the matrices generated from the angles are rotations as soon as every (cos, sin) pair lies on the unit circle *)
Theorem C16_rotation_matrix_2d : forall c s, c * c + s * s == 1 -> orthogonal 2 (rot2d c s) /\ det2 (rot2d c s) == 1.
Proof. exact rot2d_orthogonal. Qed.
Print Assumptions C16_rotation_matrix_2d.
Theorem C16_rotation_matrix_3d : forall c0 s0 c1 s1 c2 s2,
  c0 * c0 + s0 * s0 == 1 -> c1 * c1 + s1 * s1 == 1 -> c2 * c2 + s2 * s2 == 1 ->
  orthogonal 3 (rot3d c0 s0 c1 s1 c2 s2) /\ det3 (rot3d c0 s0 c1 s1 c2 s2) == 1.
Proof. exact rot3d_orthogonal. Qed.
Print Assumptions C16_rotation_matrix_3d.

(* ------------------------------------------------------------------ indices <-> coordinates *)
(* coordinateToIndices (indicesToCoordinate ind) = ind for every index vector (in range or not), every grid
   of any dimension with positive meshes and an orthogonal rotation (or none), and
   0 <= eps < 1 (corner convention) resp. -1/2 <= eps < 1/2 (centred convention) *)
Theorem C16_idx_coord : forall n g ind centered eps,
  wfgrid n g -> length ind = n -> - half_if centered <= eps -> eps < 1 - half_if centered ->
  snd (c2i g (node g ind) centered eps) = ind.
Proof. exact idx_coord_idx. Qed.
Print Assumptions C16_idx_coord.

(* the same from a position inside the cell given by per-axis offsets (the `percent' argument) *)
Theorem C16_idx_coord_percent : forall n g ind pc centered eps,
  wfgrid n g -> length ind = n -> length pc = n -> (0 < n)%nat ->
  Forall (fun p => - half_if centered <= p + eps /\ p + eps < 1 - half_if centered) pc ->
  snd (c2i g (i2c g ind pc true) centered eps) = ind.
Proof. exact idx_coord_idx_percent. Qed.
Print Assumptions C16_idx_coord_percent.

(* rank -> coordinates -> rank *)
Theorem C16_rank_coord : forall n g r centered eps,
  wfgrid n g -> (0 <= r < prodZ (g_nx g))%Z -> - half_if centered <= eps -> eps < 1 - half_if centered ->
  coordinateToRank g (rankToCoordinates g r []) centered eps = r.
Proof. exact rank_coord_rank. Qed.
Print Assumptions C16_rank_coord.

(* ------------------------------------------------------------------ cell containment *)
(* whatever the point, on every axis the reported index satisfies the cell inequalities in the grid frame
   (up to the eps the code adds): centred |w - i dx + eps dx| within half a mesh, else i dx <= w + eps dx < (i+1) dx *)
Theorem C16_cell : forall n g coor centered eps k, wfgrid n g -> length coor = n -> (k < n)%nat ->
  in_cell_axis centered eps (nth k (grid_frame g coor) 0) (nth k (g_dx g) 1) (nth k (snd (c2i g coor centered eps)) 0%Z).
Proof. exact c2i_cell. Qed.
Print Assumptions C16_cell.

(* centred convention, no eps: the point is within half a mesh of its node on every axis (grid frame) *)
Theorem C16_cell_centered : forall n g coor k, wfgrid n g -> length coor = n -> (k < n)%nat ->
  Qabs (nth k (grid_frame g coor) 0 - inject_Z (nth k (snd (c2i g coor true 0)) 0%Z) * nth k (g_dx g) 1) <= nth k (g_dx g) 1 / 2.
Proof. exact c2i_cell_centered. Qed.
Print Assumptions C16_cell_centered.

(* conversely the cell that contains the point is the one reported *)
Theorem C16_cell_unique : forall n g coor centered eps idx, wfgrid n g -> length coor = n -> length idx = n ->
  (forall k, (k < n)%nat -> in_cell_axis centered eps (nth k (grid_frame g coor) 0) (nth k (g_dx g) 1) (nth k idx 0%Z)) ->
  snd (c2i g coor centered eps) = idx.
Proof. exact c2i_cell_unique. Qed.
Print Assumptions C16_cell_unique.

(* outside is reported iff some index is out of range *)
Theorem C16_outside : forall n g coor centered eps, wfgrid n g -> length coor = n ->
  (fst (c2i g coor centered eps) = true <-> ~ inrange (g_nx g) (snd (c2i g coor centered eps))).
Proof. exact c2i_outside. Qed.
Print Assumptions C16_outside.

(* the grid frame is the frame of the grid geometry: world = x0 + R frame *)
Theorem C16_frame : forall n g coor, wfgrid n g -> length coor = n ->
  eqlQ (vadd (rotate_direct (g_rot g) (grid_frame g coor)) (g_x0 g)) coor.
Proof. exact frame_back. Qed.
Print Assumptions C16_frame.

(* ------------------------------------------------------------------ derived grids (any grid, rotated or not) *)
(* the origin of Grid::multiple / divider / dilate / createSubGrid is where the documented meaning puts it:
   barycentre of the first nmult parent nodes (cell matching) or parent node 0 (point matching); centre of the first
   sub-cell; parent node -mode*nshift; parent node lim0 *)
Theorem C16_coarse_origin : forall n g nmult flagCell, gridok n g -> length nmult = n ->
  eqlQ (snd (multiple g nmult flagCell)) (spec_multiple_x0 g nmult flagCell).
Proof. exact multiple_x0. Qed.
Print Assumptions C16_coarse_origin.
Theorem C16_refine_origin : forall n g nmult flagCell, gridok n g -> length nmult = n ->
  Forall (fun m => (0 < m)%Z) nmult ->
  eqlQ (snd (divider g nmult flagCell)) (spec_divider_x0 g nmult flagCell).
Proof. exact divider_x0. Qed.
Print Assumptions C16_refine_origin.
Theorem C16_dilate_origin : forall g mode nshift p, dilate g mode nshift = Some p -> snd p = spec_dilate_x0 g mode nshift.
Proof. exact dilate_x0. Qed.
Print Assumptions C16_dilate_origin.
Theorem C16_subgrid_origin : forall n g lim0 lim1, gridok n g -> length lim0 = n ->
  eqlQ (g_x0 (subgrid g lim0 lim1)) (spec_subgrid_x0 g lim0).
Proof. exact subgrid_x0. Qed.
Print Assumptions C16_subgrid_origin.

(* every node of the coarsened grid: barycentre of the nmult parent nodes j*m .. j*m+m-1, i.e. fractional parent index
   j*m + (m-1)/2 (cell matching) / parent node j*m (point matching) — rotated grids and different nmult per axis included *)
Theorem C16_coarse_nodes : forall n g nmult flagCell j,
  gridok n g -> length nmult = n -> length j = n ->
  eqlQ (node (derived g (multiple g nmult flagCell)) j)
       (frac_node g (zerosZ g) (map2 (fun jj m => inject_Z jj * inject_Z m + (if flagCell then (inject_Z m - 1) / 2 else 0)) j nmult)).
Proof. exact coarse_nodes. Qed.
Print Assumptions C16_coarse_nodes.
(* a + (m-1)/2 is the mean of the m consecutive indices a, a+1, ..., a+m-1 *)
Theorem C16_barycentre_index : forall (m : nat) (a : Q), (0 < m)%nat ->
  sumQ m (fun t => a + inject_Z (Z.of_nat t)) / inject_Z (Z.of_nat m) == a + (inject_Z (Z.of_nat m) - 1) / 2.
Proof. exact barycentre_index. Qed.
Print Assumptions C16_barycentre_index.
(* every node of the refined grid: fractional parent index j/m - 1/2 + 1/(2m) (cell matching) / j/m (point matching) *)
Theorem C16_refine_nodes : forall n g nmult flagCell j,
  gridok n g -> length nmult = n -> length j = n -> Forall (fun m => (0 < m)%Z) nmult ->
  eqlQ (node (derived g (divider g nmult flagCell)) j)
       (frac_node g (zerosZ g) (map2 (fun jj m => inject_Z jj / inject_Z m + (if flagCell then - (1 # 2) + 1 / (2 * inject_Z m) else 0)) j nmult)).
Proof. exact refine_nodes. Qed.
Print Assumptions C16_refine_nodes.
(* every node of the dilated grid is parent node j - mode*nshift *)
Theorem C16_dilate_nodes : forall n g mode nshift p j,
  gridok n g -> length nshift = n -> length j = n -> dilate g mode nshift = Some p ->
  eqlQ (node (derived g p) j) (node g (map2 Z.add j (map (fun s => (- mode * s)%Z) nshift))).
Proof. exact dilate_nodes. Qed.
Print Assumptions C16_dilate_nodes.
(* every node of the sub-grid is parent node j + lim0 *)
Theorem C16_subgrid_nodes : forall n g lim0 lim1 j,
  gridok n g -> length lim0 = n -> length lim1 = n -> length j = n ->
  eqlQ (node (subgrid g lim0 lim1) j) (node g (map2 Z.add j lim0)).
Proof. exact subgrid_nodes. Qed.
Print Assumptions C16_subgrid_nodes.
(* a well-formed grid satisfies the hypothesis of the theorems above *)
Theorem C16_gridok : forall n g, wfgrid n g -> gridok n g.
Proof. exact wfgrid_gridok. Qed.
Print Assumptions C16_gridok.

Definition g_rot90 : grid :=
  {| g_nx := [4%Z; 3%Z]; g_x0 := [10; 20]; g_dx := [2; 1]; g_rot := rot_of_matrix 2 [[0; -(1)]; [1; 0]] |}.

(* ------------------------------------------------------------------ mirror index *)
(* Grid::generateMirrorIndex is total for every nx >= 1 (fuel 2|ix|+2 suffices for its loop): the answer is in range,
   it is the reflected index for nx >= 2 (0 for a single node), and an index already in range is returned unchanged *)
Theorem C16_mirror : forall nx ix, (1 <= nx)%Z ->
  exists v, mirror_index (Z.to_nat (2 * Z.abs ix + 2)) nx ix = Some v /\ (0 <= v < nx)%Z /\
            ((2 <= nx)%Z -> v = reflect nx ix) /\ ((0 <= ix < nx)%Z -> v = ix).
Proof. exact mirror_index_ok. Qed.
Print Assumptions C16_mirror.

(* ------------------------------------------------------------------ iterator *)
(* default order: call number j (from 0) returns the indices of rank j, and stays on the last node afterwards;
   with C16_rank_idx: every node exactly once, in rank order *)
Theorem C16_iterator : forall nx k it j, (0 <= it < prodZ nx)%Z -> (j < k)%nat ->
  nth j (iter_run nx k it) [] = rankToIndice nx (Z.min (it + Z.of_nat j) (prodZ nx - 1)) false.
Proof. exact iter_run_nth. Qed.
Print Assumptions C16_iterator.
(* user order = signed 1-based permutation of the dimensions (what iteratorInit accepts): iteration number `it' gives
   indices whose digits, read along the order from the slowest dimension, are the mixed-radix digits of `it' for the
   permuted counts — in range and determining `it'; so the N = prod nx calls visit N different nodes *)
Theorem C16_iterator_order : forall nx order it,
  Forall (fun o => (1 <= Z.abs o)%Z) order -> Permutation (map od order) (seq 0 (length nx)) ->
  allpos nx -> (0 <= it < prodZ nx)%Z ->
  exists idx, iter_next_order nx order it = Some idx /\ length idx = length nx /\
    let nr := map (fun o => nth (od o) nx 0%Z) (rev order) in
    let digits := map (fun o => nth (od o) idx 0%Z) (rev order) in
    inrange nr digits /\ hv nr digits = it.
Proof. exact iter_order_spec. Qed.
Print Assumptions C16_iterator_order.
Theorem C16_iterator_order_once : forall nx order it1 it2 idx,
  Forall (fun o => (1 <= Z.abs o)%Z) order -> Permutation (map od order) (seq 0 (length nx)) ->
  allpos nx -> (0 <= it1 < prodZ nx)%Z -> (0 <= it2 < prodZ nx)%Z ->
  iter_next_order nx order it1 = Some idx -> iter_next_order nx order it2 = Some idx -> it1 = it2.
Proof. exact iter_order_injective. Qed.
Print Assumptions C16_iterator_order_once.

(* the acceptance test of iteratorInit (same length, every dimension named by some entry) admits exactly those
   permutations — pigeonhole — so the two theorems above apply to whatever order the object keeps *)
Theorem C16_iterator_init_permutation : forall n order, iter_init_order n order <> [] ->
  Forall (fun o => (1 <= Z.abs o)%Z) (iter_init_order n order) /\
  Permutation (map od (iter_init_order n order)) (seq 0 n).
Proof. exact iter_init_order_perm. Qed.
Print Assumptions C16_iterator_init_permutation.
Theorem C16_iterator_init_accepts : forall n order, order <> [] -> length order = n ->
  Forall (fun o => (1 <= Z.abs o)%Z) order -> Permutation (map od order) (seq 0 n) -> iter_init_order n order = order.
Proof. exact iter_init_order_accepts. Qed.
Print Assumptions C16_iterator_init_accepts.
Theorem C16_iterator_any_order_once : forall nx order it1 it2 idx,
  iter_init_order (length nx) order <> [] ->
  allpos nx -> (0 <= it1 < prodZ nx)%Z -> (0 <= it2 < prodZ nx)%Z ->
  iter_next_order nx (iter_init_order (length nx) order) it1 = Some idx ->
  iter_next_order nx (iter_init_order (length nx) order) it2 = Some idx -> it1 = it2.
Proof.
  intros nx order it1 it2 idx Hne. destruct (iter_init_order_perm (length nx) order Hne) as [H1 H2].
  exact (iter_order_injective nx _ it1 it2 idx H1 H2).
Qed.
Print Assumptions C16_iterator_any_order_once.

(* ------------------------------------------------------------------ sessions *)
(* the model's answer to a query is independent of the queries made before on the same object: in any session
   (any initial state, any queries before and after) the answer to q is the answer q gets alone.  The session
   correspondence (one C++ object, random interleaved queries) ties the implementation to this. *)
Theorem C16_query_history_independent : forall g st pre q post,
  nth (length pre) (run_session g st (pre ++ q :: post)) (AZ 0) = eval_query g q /\
  run_session g [] [q] = [eval_query g q].
Proof. exact query_history_independent. Qed.
Print Assumptions C16_query_history_independent.
Theorem C16_session_answers : forall g qs st, run_session g st qs = map (eval_query g) qs.
Proof. exact run_session_map. Qed.
Print Assumptions C16_session_answers.

(* sessions with the mutating API (setX0 / setDX / setNX / setRotation... / resetFromVector): whatever was asked or
   changed before, the queries that follow are answered as a fresh object with the geometry reached would answer them
   (cached rotation matrices and scratch vectors of the implementation have to be refreshed accordingly) *)
Theorem C16_mutation_refresh : forall g pre qs,
  run_msession g (pre ++ map SQ qs) = run_msession g pre ++ map (fun q => Some (eval_query (final_grid g pre) q)) qs.
Proof. exact msession_refresh. Qed.
Print Assumptions C16_mutation_refresh.

(* ------------------------------------------------------------------ stored coordinates (db_grid_define_coordinates) *)
(* db_grid_define_coordinates rewrites the X columns of a grid data base from its geometry: the row written for sample r
   (an odometer runs over the indices) is getCoordinatesByIndice of the indices of rank r ... *)
Theorem C16_define_coordinates : forall g r, allpos (g_nx g) -> (0 <= r < prodZ (g_nx g))%Z ->
  nth (Z.to_nat r) (define_coordinates g) [] = coords_by_indice g (rankToIndice (g_nx g) r false) true [] [].
Proof. exact define_coordinates_nth. Qed.
Print Assumptions C16_define_coordinates.
(* ... that is the coordinates getCoordinate / rankToCoordinates / indicesToCoordinate report for that node
   (any dimension, origin, mesh, rotation) ... *)
Theorem C16_define_coordinates_node : forall n g r, wfgrid n g -> (0 <= r < prodZ (g_nx g))%Z ->
  eqlQ (nth (Z.to_nat r) (define_coordinates g) []) (rankToCoordinates g r []).
Proof. exact define_coordinates_node. Qed.
Print Assumptions C16_define_coordinates_node.
(* ... so the stored location of a sample is located back in the cell of that sample (with C16_idx_coord) *)
Theorem C16_define_coordinates_roundtrip : forall n g r centered eps, wfgrid n g -> (0 <= r < prodZ (g_nx g))%Z ->
  - half_if centered <= eps -> eps < 1 - half_if centered ->
  snd (c2i g (nth (Z.to_nat r) (define_coordinates g) []) centered eps) = rankToIndice (g_nx g) r false.
Proof. exact define_coordinates_roundtrip. Qed.
Print Assumptions C16_define_coordinates_roundtrip.
Example C16_nonvacuous_define :
  length (define_coordinates g_rot90) = 12%nat /\
  eqlQ_b (nth 5 (define_coordinates g_rot90) []) [9; 22] = true /\           (* x0 + R (i dx) = (10,20) + R(2,1), not R (x0 + i dx) *)
  eqlQ_b (nth 5 (define_coordinates g_rot90) []) (rankToCoordinates g_rot90 5 []) = true /\
  eqlQ_b (nth 11 (define_coordinates g_rot90) []) (node g_rot90 [3%Z; 2%Z]) = true /\
  forallb (fun r => eqlQ_b (nth (Z.to_nat r) (define_coordinates g_rot90) []) (rankToCoordinates g_rot90 r [])) (all_ranks g_rot90) = true.
Proof. vm_compute. repeat split; reflexivity. Qed.

(* ------------------------------------------------------------------ migration bookkeeping (CalcMigrate) *)
(* a located sample is active, its rank is that of the cell whose inequalities it satisfies (in the convention
   `centered' of the call site) and that cell is inside the grid *)
Theorem C16_migrate_locate : forall n g centered eps p r, wfgrid n g -> length (p_coor p) = n ->
  locate_gen centered eps g p = Some r ->
  p_active p = true /\
  let idx := snd (c2i g (p_coor p) centered eps) in
  inrange (g_nx g) idx /\ r = rank_of (g_nx g) idx /\ (0 <= r < prodZ (g_nx g))%Z /\
  forall k, (k < n)%nat -> in_cell_axis centered eps (nth k (grid_frame g (p_coor p)) 0) (nth k (g_dx g) 1) (nth k idx 0%Z).
Proof. exact locate_some. Qed.
Print Assumptions C16_migrate_locate.
(* an active sample that is not located lies in no cell of the grid *)
Theorem C16_migrate_locate_outside : forall n g centered eps p, wfgrid n g -> length (p_coor p) = n -> p_active p = true ->
  locate_gen centered eps g p = None -> ~ inrange (g_nx g) (snd (c2i g (p_coor p) centered eps)).
Proof. exact locate_none. Qed.
Print Assumptions C16_migrate_locate_outside.
(* grid -> point without dmax: the value of the node of the cell where the sample is located *)
Theorem C16_migrate_grid_to_point : forall centered eps g vals dt p,
  g2p_one_gen centered eps g vals dt [] p = match locate_gen centered eps g p with Some r => getv vals r | None => None end.
Proof. exact g2p_no_dmax. Qed.
Print Assumptions C16_migrate_grid_to_point.
(* point -> grid without dmax: the sample kept for a node is the "closest, first on equal distances" among the valued
   samples located in its cell ... *)
Theorem C16_migrate_point_to_grid : forall centered eps g dt pts node,
  p2g_holder_gen centered eps g dt [] pts node =
  fold_left (closer g node) (filter (p2g_cand centered eps g node) (indexed 0 pts)) None.
Proof. exact p2g_no_dmax. Qed.
Print Assumptions C16_migrate_point_to_grid.
(* ... where "closest, first on equal distances" means: strictly closer than every earlier candidate, at least as close as
   every later one; nothing is kept only when there is no candidate *)
Theorem C16_closest_wins : forall g node l,
  match fold_left (closer g node) l None with
  | None => l = []
  | Some ip => exists l1 l2, l = l1 ++ ip :: l2 /\
      (forall jq, In jq l1 -> dist2 g node (p_coor (snd ip)) < dist2 g node (p_coor (snd jq))) /\
      (forall jq, In jq l2 -> dist2 g node (p_coor (snd ip)) <= dist2 g node (p_coor (snd jq)))
  end.
Proof. exact closer_fold_spec. Qed.
Print Assumptions C16_closest_wins.
(* grid -> grid with filling between a grid and its coarsened child (what createCoarse does with the variables): node j of
   the child reads parent node j*m + (m-1)/2 (cell matching; integer division: the centre of the m parent nodes, the lower
   central one when m is even) resp. j*m (point matching) — any dimension, rotation, nmult; consistent with C16_coarse_nodes *)
Theorem C16_coarse_reads : forall n g nmult flagCell j eps,
  wfgrid n g -> length nmult = n -> length j = n -> (0 < n)%nat -> Forall (fun m => (0 < m)%Z) nmult ->
  0 <= eps -> eps < 1 # 2 ->
  snd (c2i g (node (derived g (multiple g nmult flagCell)) j) false eps) =
  map2 (fun jj m => (jj * m + (if flagCell then (m - 1) / 2 else 0))%Z) j nmult.
Proof. exact coarse_reads. Qed.
Print Assumptions C16_coarse_reads.

(* the repaired code follows the documented rule (cells centred on the nodes, dmax as a limit on the sample kept):
   grid -> point, point -> grid and grid -> grid with filling, dmax included, whatever eps *)
Theorem C16_migrate_grid_to_point_rule : forall eps g vals dt dmax p,
  g2p_one_gen true eps g vals dt dmax p = spec_g2p_one_eps eps g vals dt dmax p.
Proof. exact g2p_is_spec. Qed.
Print Assumptions C16_migrate_grid_to_point_rule.
Theorem C16_migrate_point_to_grid_rule : forall eps g dt dmax pts node,
  p2g_holder_gen true eps g dt dmax pts node = spec_p2g_holder_eps eps g dt dmax pts node.
Proof. exact p2g_is_spec. Qed.
Print Assumptions C16_migrate_point_to_grid_rule.
Theorem C16_migrate_grid_to_grid_rule : forall eps gin vals gout dt dmax j,
  g2g_fill_one_gen true eps gin vals gout dt dmax j = spec_g2g_fill_one_eps eps gin vals gout dt dmax j.
Proof. exact g2g_fill_is_spec. Qed.
Print Assumptions C16_migrate_grid_to_grid_rule.
(* the model uses that convention *)
Theorem C16_migrate_centered : loc_centered = true.
Proof. reflexivity. Qed.
Print Assumptions C16_migrate_centered.
(* refined child (cell matching): node j reads parent node j div m, the parent cell containing the fine cell —
   any dimension, rotation, nmult; consistent with C16_refine_nodes (eps < 1/(2m) on every axis) *)
Theorem C16_refine_reads : forall n g nmult j eps,
  wfgrid n g -> length nmult = n -> length j = n -> (0 < n)%nat -> Forall (fun m => (0 < m)%Z) nmult ->
  0 <= eps -> Forall (fun m => eps * (2 * inject_Z m) < 1) nmult ->
  snd (c2i g (node (derived g (divider g nmult true)) j) true eps) = map2 (fun jj m => (jj / m)%Z) j nmult.
Proof. exact refine_reads. Qed.
Print Assumptions C16_refine_reads.

(* regression: the definitions of the code before its repair (names ending in _old, corner convention) do NOT follow the rule; the check
   uses them to give a reverted fix its former key *)
Definition g_unit43 : grid := {| g_nx := [4%Z; 3%Z]; g_x0 := [0; 0]; g_dx := [1; 1]; g_rot := rot_identity 2 |}.
Definition vals43 : list (option Q) := map (fun r => Some (inject_Z (1000 + r))) (ranks g_unit43).
Theorem C16_migrate_lower_corner_old_refuted : exists g vals eps p,
  g2p_one_gen false eps g vals 1 [] p <> spec_g2p_one g vals 1 [] p /\ g2p_one_gen loc_centered eps g vals 1 [] p = spec_g2p_one g vals 1 [] p.
Proof.
  exists g_unit43, vals43, (1 # 1000000), {| p_active := true; p_coor := [7 # 8; 7 # 8]; p_val := None |}.
  vm_compute. split; [discriminate|reflexivity].
Qed.
Print Assumptions C16_migrate_lower_corner_old_refuted.
Theorem C16_migrate_refine_old_refuted : exists g vals nmult eps,
  let child := derived g (divider g nmult true) in
  g2g_fill_one_gen false eps g vals child 1 [] 0 = None /\ g2g_fill_one_gen loc_centered eps g vals child 1 [] 0 = Some 1000.
Proof.
  exists g_unit43, vals43, [2%Z; 2%Z], (1 # 1000000). vm_compute. split; reflexivity.
Qed.
Print Assumptions C16_migrate_refine_old_refuted.
Theorem C16_migrate_g2p_dmax_old_refuted : exists g vals eps dmax p r,
  g2p_one_old false eps g vals 1 dmax p = Some (inject_Z r) /\ spec_g2p_one g vals 1 dmax p = None /\
  g2p_one_gen loc_centered eps g vals 1 dmax p = None.
Proof.
  exists g_unit43, vals43, (1 # 1000000), [3 # 10; 3 # 10], {| p_active := true; p_coor := [16 # 10; 16 # 10]; p_val := None |}, 5%Z.
  vm_compute. repeat split; reflexivity.
Qed.
Print Assumptions C16_migrate_g2p_dmax_old_refuted.
Theorem C16_migrate_p2g_dmax_old_refuted : exists g eps dmax pts node,
  p2g_node_old false eps g 1 dmax pts node = Some 100 /\ spec_p2g_node g 1 dmax pts node = Some 200 /\
  p2g_node eps g 1 dmax pts node = Some 200.
Proof.
  exists g_unit43, (1 # 1000000), [2 # 5; 2 # 5],
    [ {| p_active := true; p_coor := [29 # 20; 1]; p_val := Some 100 |}; {| p_active := true; p_coor := [11 # 10; 1]; p_val := Some 200 |} ], 5%Z.
  vm_compute. repeat split; reflexivity.
Qed.
Print Assumptions C16_migrate_p2g_dmax_old_refuted.

(* interpolated grid -> point migration: the multilinear weights of the 2^n surrounding nodes add up to 1 *)
Theorem C16_interp_weights : forall prop, sum_weights prop (corners (length prop)) == 1.
Proof. exact corner_weights_sum. Qed.
Print Assumptions C16_interp_weights.
(* multilinear interpolation reproduces the affine functions of the grid coordinates exactly: if the 2^n nodes around
   the point carry a0 + sum a_k i_k, the weighted sum is a0 + sum a_k (i_k + prop_k) — the affine function at the
   fractional grid position of the point ... *)
Theorem C16_interp_affine : forall prop idx a a0, length idx = length prop -> length a = length prop ->
  interp_sum prop idx (fun ind => affine a0 a (map inject_Z ind)) ==
  affine a0 a (map2 (fun i p => inject_Z i + p) idx prop).
Proof. exact interp_affine. Qed.
Print Assumptions C16_interp_affine.
(* ... and so does the value computed by the code's combination step when no corner is skipped (threshold 0) *)
Theorem C16_interp_combine_affine : forall g vals idx prop a a0,
  length idx = length prop -> length a = length prop ->
  (forall c, corner_value g vals idx c = Some (affine a0 a (map inject_Z (corner_index idx c)))) ->
  exists q, interp_combine g vals 0 idx prop = Some q /\ q == affine a0 a (map2 (fun i p => inject_Z i + p) idx prop).
Proof. exact interp_combine_affine. Qed.
Print Assumptions C16_interp_combine_affine.
Definition g_unit43_rot90 : grid := {| g_nx := [4%Z; 3%Z]; g_x0 := [0; 0]; g_dx := [1; 1]; g_rot := rot_of_matrix 2 [[0; -(1)]; [1; 0]] |}.
Example C16_nonvacuous_interp :
  interp_one (1 # 1000000) g_unit43 vals43 1 [] [5 # 4; 1 # 2] = spec_interp_one (1 # 1000000) g_unit43 vals43 [5 # 4; 1 # 2] /\
  (match interp_one (1 # 1000000) g_unit43 vals43 1 [] [5 # 4; 1 # 2] with Some v => Qeq_bool v (4013 # 4) | None => false end) = true /\
  (match interp_one (1 # 1000000) g_unit43 vals43 1 [] [2; 1] with Some v => Qeq_bool v 1006 | None => false end) = true /\
  interp_one (1 # 1000000) g_unit43 vals43 1 [] [7 # 2; 1] = None /\
  (* rotated grid (90 degrees), point at grid position (1.25, 0.375): 1001 + 0.25 + 4 * 0.375 = 1002.75, values 1000 + i + 4 j being affine *)
  (match interp_one (1 # 1000000) g_unit43_rot90 vals43 1 [] [-3 # 8; 5 # 4] with Some v => Qeq_bool v (4011 # 4) | None => false end) = true /\
  (match spec_interp_one (1 # 1000000) g_unit43_rot90 vals43 [-3 # 8; 5 # 4] with Some v => Qeq_bool v (4011 # 4) | None => false end) = true.
Proof. vm_compute. repeat split; reflexivity. Qed.
(* regression: with the offsets taken along the world axes (the code before 7df99cde0) the same point receives 1001.625 *)
Theorem C16_interp_rotated_old_refuted : exists g vals eps p,
  (match interp_one_old eps g vals 1 [] p with Some v => Qeq_bool v (8013 # 8) | None => false end) = true /\
  (match spec_interp_one eps g vals p with Some v => Qeq_bool v (4011 # 4) | None => false end) = true.
Proof. exists g_unit43_rot90, vals43, (1 # 1000000), [-3 # 8; 5 # 4]. vm_compute. split; reflexivity. Qed.
Print Assumptions C16_interp_rotated_old_refuted.

Example C16_nonvacuous_migrate :
  let pts := [ {| p_active := true; p_coor := [12 # 10; 11 # 10]; p_val := Some 7 |};
               {| p_active := true; p_coor := [11 # 10; 1]; p_val := Some 8 |};
               {| p_active := false; p_coor := [1; 1]; p_val := Some 9 |};
               {| p_active := true; p_coor := [9; 9]; p_val := Some 1 |};
               {| p_active := true; p_coor := [7 # 8; 7 # 8]; p_val := Some 3 |} ] in
  map (locate (1 # 1000000) g_unit43) pts = [Some 5%Z; Some 5%Z; None; None; Some 5%Z] /\
  p2g_node (1 # 1000000) g_unit43 1 [] pts 5 = Some 8 /\ p2g_node (1 # 1000000) g_unit43 1 [] pts 0 = None /\
  p2g_node (1 # 1000000) g_unit43 1 [1 # 20; 1 # 20] pts 5 = None /\
  g2p (1 # 1000000) g_unit43 vals43 1 [] pts = [Some 1005; Some 1005; None; None; Some 1005] /\
  g2p (1 # 1000000) g_unit43 vals43 1 [1 # 10; 1 # 10] pts = [None; Some 1005; None; None; None] /\
  snd (c2i g_unit43 (node (derived g_unit43 (multiple g_unit43 [2%Z; 3%Z] true)) [1%Z; 0%Z]) false (1 # 1000000)) = [2%Z; 1%Z] /\
  snd (c2i g_unit43 (node (derived g_unit43 (divider g_unit43 [2%Z; 2%Z] true)) [3%Z; 0%Z]) true (1 # 1000000)) = [1%Z; 0%Z].
Proof. vm_compute. repeat split; reflexivity. Qed.

(* the boolean orthogonality test used by the examples is sound *)
Theorem C16_orthogonal_test : forall n M, orthogonal_b n M = true -> orthogonal n M.
Proof. exact orthogonal_b_spec. Qed.
Print Assumptions C16_orthogonal_test.

(* ------------------------------------------------------------------ non-vacuity *)
Lemma g_rot90_wf : wfgrid 2 g_rot90.
Proof.
  repeat split; try (repeat constructor; reflexivity).
  right. split; [apply orthogonal_b_spec; vm_compute; reflexivity|reflexivity].
Qed.
(* a rotated 4x3 grid: hypotheses hold, the rotation is really applied, round trips return the start *)
Example C16_nonvacuous_grid :
  r_flag (g_rot g_rot90) = true /\
  eqlQ_b (node g_rot90 [1%Z; 2%Z]) [8; 22] = true /\
  c2i g_rot90 (node g_rot90 [1%Z; 2%Z]) false (1 # 1000000) = (false, [1%Z; 2%Z]) /\
  c2i g_rot90 (node g_rot90 [1%Z; 2%Z]) true 0 = (false, [1%Z; 2%Z]) /\
  rankToIndice [4%Z; 3%Z] 9 false = [1%Z; 2%Z] /\ indiceToRank [4%Z; 3%Z] [1%Z; 2%Z] = 9%Z /\
  coordinateToRank g_rot90 (rankToCoordinates g_rot90 9 []) false (1 # 1000000) = 9%Z /\
  c2i g_rot90 [7; 19] false 0 = (true, [(-1)%Z; 3%Z]).
Proof. vm_compute. repeat split; reflexivity. Qed.
(* a Pythagorean rotation (cos, sin) = (3/5, 4/5) satisfies the hypothesis of C16_rotation_matrix_2d / C16_rotation,
   a 3-D composition satisfies that of C16_rotation_matrix_3d *)
Example C16_nonvacuous_rotation :
  orthogonal_b 2 (rot2d (3 # 5) (4 # 5)) = true /\
  orthogonal_b 3 (rot3d (3 # 5) (4 # 5) (5 # 13) (12 # 13) (8 # 17) (-15 # 17)) = true /\
  eqlQ_b (rotate_inverse (rot_of_matrix 2 (rot2d (3 # 5) (4 # 5))) (rotate_direct (rot_of_matrix 2 (rot2d (3 # 5) (4 # 5))) [7; -2])) [7; -2] = true /\
  eqlQ_b (rotate_direct (rot_of_matrix 2 (rot2d (3 # 5) (4 # 5))) [5; 0]) [3; 4] = true.
Proof. vm_compute. repeat split; reflexivity. Qed.
(* derived grids (unrotated and rotated parents, different nmult per axis), mirror index, iterator *)
Example C16_nonvacuous_derived :
  let g := {| g_nx := [4%Z; 6%Z]; g_x0 := [10; 20]; g_dx := [2; 1]; g_rot := rot_identity 2 |} in
  fst (fst (multiple g [2%Z; 3%Z] true)) = [2%Z; 2%Z] /\
  eqlQ_b (snd (fst (multiple g [2%Z; 3%Z] true))) [4; 3] = true /\ eqlQ_b (snd (multiple g [2%Z; 3%Z] true)) [11; 21] = true /\
  fst (fst (divider g [2%Z; 2%Z] true)) = [8%Z; 12%Z] /\
  eqlQ_b (snd (fst (divider g [2%Z; 2%Z] true))) [1; 1 # 2] = true /\ eqlQ_b (snd (divider g [2%Z; 2%Z] true)) [19 # 2; 79 # 4] = true /\
  eqlQ_b (snd (multiple g_rot90 [2%Z; 3%Z] true)) [9; 21] = true /\
  eqlQ_b (snd (divider g_rot90 [2%Z; 3%Z] true)) [31 # 3; 39 # 2] = true /\
  eqlQ_b (g_x0 (subgrid g_rot90 [1%Z; 1%Z] [3%Z; 3%Z])) [9; 22] = true /\
  match dilate g_rot90 1 [1%Z; 2%Z] with Some p => fst (fst p) = [6%Z; 7%Z] /\ eqlQ_b (snd p) [12; 18] = true | None => False end /\
  mirror_index 20 4 (-7) = Some 1%Z /\ reflect 4 (-7) = 1%Z /\ mirror_index 0 1 5 = Some 0%Z /\
  iter_run [2%Z; 2%Z] 5 0 = [[0%Z; 0%Z]; [1%Z; 0%Z]; [0%Z; 1%Z]; [1%Z; 1%Z]; [1%Z; 1%Z]] /\
  iter_init_order 2 [2%Z; 1%Z] = [2%Z; 1%Z] /\ iter_init_order 2 [1%Z; 0%Z] = [] /\
  iter_next_order [2%Z; 3%Z] [2%Z; 1%Z] 1 = Some [0%Z; 1%Z] /\ iter_next_order [2%Z; 3%Z] [2%Z; 1%Z] 3 = Some [1%Z; 0%Z] /\
  iter_next_order [2%Z; 3%Z] (default_order 2) 3 = Some [1%Z; 1%Z].
Proof. vm_compute. repeat split; reflexivity. Qed.

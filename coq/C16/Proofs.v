(* C16 proofs: umbrella file *)
From Gst Require Export C16.Proofs_rank C16.Proofs_lin C16.Proofs_coord C16.Proofs_mirror C16.Proofs_derived C16.Proofs_rot C16.Proofs_session C16.Proofs_migrate C16.Proofs_define.

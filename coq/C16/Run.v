(* C16 runner: decodes a case, runs model and spec, encodes the result. Executable only. *)
From Coq Require Import List ZArith QArith Qround Qabs Qminmax Bool.
From Gst Require Import lib.Sx lib.QAux C16.Model C16.Spec C16.Migrate.
Import ListNotations.

Definition asZs := asListOf asZ.
Definition asQs := asListOf asQ.
Definition asMat := asListOf asQs.
Definition ofZs (l : list Z) : sx := ofList I l.
Definition ofQs (l : list Q) : sx := ofList ofQ l.

(* rotation: () = none; (mode angles M): M = rows of the direct matrix actually used by the implementation *)
Definition asRot (n : nat) (s : sx) : option rotation :=
  match s with
  | L [] => Some (rot_identity n)
  | L [_; _; m] => match asMat m with Some M => Some (rot_of_matrix n M) | None => None end
  | _ => None
  end.
Definition asGrid (s : sx) : option grid :=
  match s with
  | L [nx; x0; dx; rot] =>
      match asZs nx, asQs x0, asQs dx with
      | Some nx', Some x0', Some dx' =>
          match asRot (length nx') rot with
          | Some r => Some {| g_nx := nx'; g_x0 := x0'; g_dx := dx'; g_rot := r |}
          | None => None
          end
      | _, _, _ => None
      end
  | _ => None
  end.

Definition minQ (l : list Q) : Q := fold_right Qmin 1 l.
Definition c2i_margin (g : grid) (coor : list Q) (centered : bool) (eps : Q) : Q :=
  minQ (map2 (fun w d => floor_margin (c2i_t centered eps w d)) (grid_frame g coor) (g_dx g)).
Definition belongs_margin (g : grid) (coor center dxs : list Q) : Q :=
  let ext := match dxs with [] => g_dx g | _ => dxs end in
  let del := if r_flag (g_rot g) then vsub (grid_frame g coor) (grid_frame g center) else vsub center coor in
  minQ (map2 (fun dl e => Qabs (Qabs dl - e / 2) / e) del ext).

Definition zrange (n : Z) : list Z := map Z.of_nat (seq 0 (Z.to_nat n)).

(* kind 1 *)
Definition run_rank (g : grid) (minusOne : bool) (ranks : list Z) (inds : list (list Z)) : sx :=
  let nx := g_nx g in
  L [ofList (fun r => let i := rankToIndice nx r minusOne in L [ofZs i; I (indiceToRank nx i)]) ranks;
     ofList (fun i => let r := indiceToRank nx i in
                      L [I r; ofZs (rankToIndice nx r false); I (rank_of nx i); ofB (inrange_b nx i)]) inds].

(* kind 2: item = (ind percent flag_rotate centered eps) *)
Definition run_item2 (g : grid) (s : sx) : sx :=
  match s with
  | L [ind; pc; fr; ce; ep] =>
      match asZs ind, asQs pc, asB fr, asB ce, asQ ep with
      | Some ind', Some pc', Some fr', Some ce', Some ep' =>
          let coor := i2c g ind' pc' fr' in
          let r := c2i g coor ce' ep' in
          L [ofQs coor; ofB (fst r); ofZs (snd r); I (coordinateToRank g coor ce' ep');
             ofQ (c2i_margin g coor ce' ep'); ofQs (coords_by_indice g ind' fr' [] [])]
      | _, _, _, _, _ => sx_error 2
      end
  | _ => sx_error 2
  end.

(* kind 3: pt = (coor centered eps rk dxs shift) *)
Definition run_item3 (g : grid) (s : sx) : sx :=
  match s with
  | L [co; ce; ep; rk; dxs; sh] =>
      match asQs co, asB ce, asQ ep, asZ rk, asQs dxs, asZs sh with
      | Some coor, Some ce', Some ep', Some rk', Some dxs', Some sh' =>
          let r := c2i g coor ce' ep' in
          let p := point_to_grid g coor in
          let center := rankToCoordinates g rk' [] in
          let rc := coordinateToRank g coor true 0 in
          let own := rankToCoordinates g rc [] in
          L [ofB (fst r); ofZs (snd r); I (coordinateToRank g coor ce' ep'); ofQ (c2i_margin g coor ce' ep');
             ofB (fst p); ofZs (snd p); ofQ (c2i_margin g coor true 0);
             ofB (belongs g coor center dxs'); ofQ (belongs_margin g coor center dxs');
             I rc; ofB (belongs g coor own []); ofQ (belongs_margin g coor own []);
             ofQs (coords_by_indice g (rankToIndice (g_nx g) rk' false) true sh' dxs');
             ofQs (coords_by_corner g sh')]
      | _, _, _, _, _, _ => sx_error 3
      end
  | _ => sx_error 3
  end.

(* [legacy]: for dilate, the origin the code produced before its repair (shift counted twice); only used by the check
   to give a reverted fix its former violation key *)
Definition ofDerived (p : list Z * list Q * list Q) (spec legacy : list Q) : sx :=
  L [I 1; ofZs (fst (fst p)); ofQs (snd (fst p)); ofQs (snd p); ofQs spec; ofQs legacy].

Definition nodes_of (g : grid) (nmax : Z) : sx :=
  ofList (fun r => ofQs (rankToCoordinates g r [])) (zrange (Z.min nmax (prodZ (g_nx g)))).

(* ---- kind 10: a session of queries on one object.  Query encodings (first atom = function):
   (0|1|20 rank idim) getCoordinate / DbGrid::getCoordinate / rankToCoordinate   (2 rank) rankToIndice   (3 ind) indiceToRank
   (4|19 coor centered eps) coordinateToRank   (5 coor centered eps) coordinateToIndices   (6|9|18 rank) coordinates of a rank
   (7 ind) getCoordinatesByIndice   (8 icorner) getCoordinatesByCorner   (10 coor rank) sampleBelongsToCell   (11) getCenterIndices
   (12|13 nmult flagCell) multiple / divider   (14 nshift mode) dilate   (15 ind percent) indicesToCoordinate
   (16 rank shift) getCellCoordinatesByCorner   (17 k) iteratorInit + k iteratorNext   (21 ind idim) indiceToCoordinate
   (22 coor) point_to_grid   (23) db_grid_define_coordinates   (24) generateCoordinates   (25) getAllCoordinates
   (26) getAllCoordinatesMat   (27 rank) getSampleCoordinates   (28 pos indice) getSlice  [24-26, 28: every node, by rank] *)
Definition asQuery (s : sx) : option query :=
  match s with
  | L [I f; a; b] =>
      if Z.eqb f 0 || Z.eqb f 1 || Z.eqb f 20 then
        match asZ a, asNat b with Some r, Some d => Some (QGetCoordinate r d) | _, _ => None end
      else if Z.eqb f 10 then match asQs a, asZ b with Some c, Some r => Some (QBelongs c r) | _, _ => None end
      else if Z.eqb f 12 then match asZs a, asB b with Some m, Some fc => Some (QMultiple m fc) | _, _ => None end
      else if Z.eqb f 13 then match asZs a, asB b with Some m, Some fc => Some (QDivider m fc) | _, _ => None end
      else if Z.eqb f 14 then match asZs a, asZ b with Some m, Some md => Some (QDilate m md) | _, _ => None end
      else if Z.eqb f 15 then match asZs a, asQs b with Some i, Some p => Some (QIndicesToCoordinate i p) | _, _ => None end
      else if Z.eqb f 16 then match asZ a, asZs b with Some r, Some sh => Some (QCellCorner r sh) | _, _ => None end
      else if Z.eqb f 21 then match asZs a, asNat b with Some i, Some d => Some (QIndiceToCoordinate i d) | _, _ => None end
      else if Z.eqb f 28 then Some QAllNodes
      else None
  | L [I f; a] =>
      if Z.eqb f 2 then match asZ a with Some r => Some (QRankToIndice r) | None => None end
      else if Z.eqb f 3 then match asZs a with Some i => Some (QIndiceToRank i) | None => None end
      else if Z.eqb f 6 || Z.eqb f 9 || Z.eqb f 18 then match asZ a with Some r => Some (QCoordinatesByRank r) | None => None end
      else if Z.eqb f 7 then match asZs a with Some i => Some (QCoordinatesByIndice i) | None => None end
      else if Z.eqb f 8 then match asZs a with Some i => Some (QCoordinatesByCorner i) | None => None end
      else if Z.eqb f 17 then match asNat a with Some k => Some (QIterate k) | None => None end
      else if Z.eqb f 22 then match asQs a with Some c => Some (QPointToGrid c) | None => None end
      else if Z.eqb f 27 then match asZ a with Some r => Some (QCoordinatesByRank r) | None => None end
      else None
  | L [I f; a; b; c] =>
      match asQs a, asB b, asQ c with
      | Some co, Some ce, Some e =>
          if Z.eqb f 4 || Z.eqb f 19 then Some (QCoordinateToRank co ce e)
          else if Z.eqb f 5 then Some (QCoordinateToIndices co ce e) else None
      | _, _, _ => None
      end
  | L [I f] => if Z.eqb f 11 then Some QCenterIndices else if Z.eqb f 23 then Some QDefineCoordinates
               else if Z.eqb f 24 || Z.eqb f 25 || Z.eqb f 26 then Some QAllNodes else None
  | _ => None
  end.
Definition ofAnswer (a : answer) : sx :=
  match a with
  | AZ z => I z | AZs l => ofZs l | AQ q => ofQ q | AQs l => ofQs l | AB b => ofB b
  | AOutIdx o i => L [ofB o; ofZs i]
  | ADerived (Some p) => L [I 1; ofZs (fst (fst p)); ofQs (snd (fst p)); ofQs (snd p)]
  | ADerived None => L [I 0]
  | AZss l => ofList ofZs l
  | AQss l => ofList ofQs l
  end.
(* margin of the decisions taken on reals by a query (1 = none) *)
Definition query_margin (g : grid) (q : query) : Q :=
  match q with
  | QCoordinateToRank c ce e | QCoordinateToIndices c ce e => c2i_margin g c ce e
  | QPointToGrid c => c2i_margin g c true 0
  | QBelongs c r => belongs_margin g c (rankToCoordinates g r []) []
  | _ => 1
  end.
Definition run_session_sx (g : grid) (qs : list sx) : sx :=
  match mapM asQuery qs with
  | Some qs' => L (map2 (fun q a => L [ofAnswer a; ofQ (query_margin g q)]) qs' (run_session g [] qs'))
  | None => sx_error 10
  end.

(* ---- kind 14: session with mutations.  Items: a query (encodings of kind 10) or
   (100 d v) setX0   (101 d v) setDX   (102 d n) setNX   (103 angles M) setRotationByAngles   (104 () M) setRotationByVector
   (105 nx dx x0 angles M) resetFromVector          M = rows of the matrix the library uses, () = identity *)
Definition asOMat (s : sx) : option (option (list (list Q))) :=
  match s with L [] => Some None | _ => match asMat s with Some m => Some (Some m) | None => None end end.
Definition asItem (s : sx) : option sitem :=
  match s with
  | L [I f; a; b] =>
      if Z.eqb f 100 then match asNat a, asQ b with Some d, Some v => Some (SM (MSetX0 d v)) | _, _ => None end
      else if Z.eqb f 101 then match asNat a, asQ b with Some d, Some v => Some (SM (MSetDX d v)) | _, _ => None end
      else if Z.eqb f 102 then match asNat a, asZ b with Some d, Some v => Some (SM (MSetNX d v)) | _, _ => None end
      else if Z.eqb f 103 || Z.eqb f 104 then match asOMat b with Some m => Some (SM (MSetRot m)) | None => None end
      else match asQuery s with Some q => Some (SQ q) | None => None end
  | L [I 105%Z; nx; dx; x0; _; m] =>
      match asZs nx, asQs dx, asQs x0, asOMat m with
      | Some nx', Some dx', Some x0', Some m' => Some (SM (MReset nx' dx' x0' m'))
      | _, _, _, _ => None
      end
  | _ => match asQuery s with Some q => Some (SQ q) | None => None end
  end.
Fixpoint msession_sx (g : grid) (items : list sitem) : list sx :=
  match items with
  | [] => []
  | SQ q :: r => L [ofAnswer (eval_query g q); ofQ (query_margin g q)] :: msession_sx g r
  | SM m :: r => L [] :: msession_sx (apply_mop g m) r
  end.

(* ---- kinds 11-13: migration.  pts = ((active coor val) ...), vals = (val ...), val = (m e) | () *)
Definition asPt (s : sx) : option pt :=
  match s with
  | L [a; c; v] => match asB a, asQs c, asOQ v with
                   | Some a', Some c', Some v' => Some {| p_active := a'; p_coor := c'; p_val := v' |}
                   | _, _, _ => None end
  | _ => None
  end.
Definition asVals := asListOf asOQ.
Definition loc_margin (g : grid) (eps : Q) (coor : list Q) : Q := Qmin (c2i_margin g coor false eps) (c2i_margin g coor true 0).
Definition valued (pts : list pt) : list pt :=
  filter (fun p => p_active p && match p_val p with Some _ => true | None => false end) pts.
Definition node_margin (g : grid) (dt : Z) (dmax : list Q) (pts : list pt) (node : Z) : Q :=
  Qmin (gap_margin (map (fun p => dist2 g node (p_coor p)) (valued pts)))
       (minQ (map (fun p => dmax_margin (dvect g node (p_coor p)) dt dmax) (valued pts))).
(* code = model of the code; spec = documented rule; oldc / oldd = the code before its repairs (corner convention,
   resp. old dmax handling), used only to give a reverted fix its former key *)
Definition ofRes (code spec oldc oldd : option Q) (marg : Q) : sx := L [ofOQ code; ofOQ spec; ofOQ oldc; ofOQ oldd; ofQ marg].

(* the double 1e-6 (EPSILON6), exactly *)
Definition eps6_double : Q := dyadic 4722366482869645 (-72).

Definition actives (pts : list pt) : list pt := filter p_active pts.
Definition node_margin_act (g : grid) (dt : Z) (dmax : list Q) (pts : list pt) (node : Z) : Q :=
  Qmin (gap_margin (map (fun p => dist2 g node (p_coor p)) (actives pts)))
       (minQ (map (fun p => dmax_margin (dvect g node (p_coor p)) dt dmax) (actives pts))).
(* fill: 0 = no filling, 1 = filling (expandPointToGrid), 2 = filling through the ball tree *)
Definition run_p2g (g : grid) (eps : Q) (dt : Z) (dmax : list Q) (fill : Z) (pts : list pt) : sx :=
  let mloc := minQ (map (fun p => loc_margin g eps (p_coor p)) (valued pts)) in
  ofList (fun node =>
            let mg := node_margin g dt dmax pts node in
            if Z.eqb fill 2 then ofRes (p2g_ball_node g dt dmax pts node) (spec_p2g_fill_node g dt dmax pts node)
                                       (p2g_ball_node g dt dmax pts node) (p2g_ball_node g dt dmax pts node) (Qmin mg (node_margin_act g dt dmax pts node))
            else if Z.eqb fill 1 then ofRes (p2g_fill_node g dt dmax pts node) (spec_p2g_fill_node g dt dmax pts node)
                               (p2g_fill_node g dt dmax pts node) (p2g_fill_node g dt dmax pts node) mg
            else ofRes (p2g_node eps g dt dmax pts node) (spec_p2g_node g dt dmax pts node)
                       (p2g_node_gen false eps g dt dmax pts node) (p2g_node_old loc_centered eps g dt dmax pts node) (Qmin mloc mg)) (ranks g).
Definition run_g2p (g : grid) (vals : list (option Q)) (eps : Q) (dt : Z) (dmax : list Q) (pts : list pt) : sx :=
  ofList (fun p =>
            let m1 := loc_margin g eps (p_coor p) in
            let r1 := coordinateToRank g (p_coor p) false eps in
            let r2 := coordinateToRank g (p_coor p) true 0 in
            let md := Qmin (dmax_margin (dvect g r1 (p_coor p)) dt dmax) (dmax_margin (dvect g r2 (p_coor p)) dt dmax) in
            match ofRes (g2p_one_gen loc_centered eps g vals dt dmax p) (spec_g2p_one g vals dt dmax p)
                        (g2p_one_gen false eps g vals dt dmax p) (g2p_one_old loc_centered eps g vals dt dmax p) (Qmin m1 md) with
            | L l => L (l ++ [I r1; I (coordinateToRank g (p_coor p) true eps); ofQ (Qmin (c2i_margin g (p_coor p) false eps) (c2i_margin g (p_coor p) true eps))])
            | x => x
            end) pts.
Definition run_g2g (gin : grid) (vals : list (option Q)) (gout : grid) (eps : Q) (dt : Z) (dmax : list Q) (fill : bool) : sx :=
  if fill then
    ofList (fun j =>
              let coor := rankToCoordinates gout j [] in
              let r1 := coordinateToRank gin coor false eps in
              let r2 := coordinateToRank gin coor true 0 in
              ofRes (g2g_fill_one_gen loc_centered eps gin vals gout dt dmax j) (spec_g2g_fill_one gin vals gout dt dmax j)
                    (g2g_fill_one_gen false eps gin vals gout dt dmax j) (g2g_fill_one_gen loc_centered eps gin vals gout dt dmax j)
                    (Qmin (loc_margin gin eps coor) (Qmin (dmax_margin (dvect gin r1 coor) dt dmax) (dmax_margin (dvect gin r2 coor) dt dmax)))) (ranks gout)
  else
    let ins := map (fun iv => {| p_active := true; p_coor := rankToCoordinates gin (fst iv) []; p_val := snd iv |}) (combine (ranks gin) vals) in
    let mloc := minQ (map (fun p => loc_margin gout eps (p_coor p)) (valued ins)) in
    ofList (fun node => ofRes (g2g_node_gen loc_centered eps gin vals gout dt dmax node) (spec_g2g_node gin vals gout dt dmax node)
                              (g2g_node_gen false eps gin vals gout dt dmax node) (g2g_node_gen loc_centered eps gin vals gout dt dmax node)
                              (Qmin mloc (node_margin gout dt dmax ins node))) (ranks gout).

Definition run (c : sx) : sx :=
  match c with
  | L [I 1%Z; g; m; rs; is'] =>
      match asGrid g, asB m, asZs rs, asListOf asZs is' with
      | Some g', Some m', Some rs', Some is'' => run_rank g' m' rs' is''
      | _, _, _, _ => sx_error 1
      end
  | L [I 2%Z; g; L items] =>
      match asGrid g with Some g' => L (map (run_item2 g') items) | None => sx_error 1 end
  | L [I 3%Z; g; L items] =>
      match asGrid g with Some g' => L (map (run_item3 g') items) | None => sx_error 1 end
  | L [I 4%Z; g; I op; a; b] =>
      match asGrid g, asZs a, asZ b with
      | Some g', Some a', Some b' =>
          if Z.eqb op 0 then ofDerived (multiple g' a' (negb (Z.eqb b' 0))) (spec_multiple_x0 g' a' (negb (Z.eqb b' 0))) []
          else if Z.eqb op 1 then ofDerived (divider g' a' (negb (Z.eqb b' 0))) (spec_divider_x0 g' a' (negb (Z.eqb b' 0))) []
          else match dilate g' b' a' with
               | Some p => ofDerived p (spec_dilate_x0 g' b' a')
                                    (let ind := map (fun s => (- b' * s)%Z) a' in i2c g' ind (map inject_Z ind) true)
               | None => L [I 0]
               end
      | _, _, _ => sx_error 1
      end
  | L [I 5%Z; I nx; I ix] =>
      L [match mirror_index (Z.to_nat (2 * Z.abs ix + 4)) nx ix with Some v => L [I 1; I v] | None => L [I 0] end; I (reflect nx ix)]
  | L [I 6%Z; g; I op; a; b; I nmax] =>
      match asGrid g, asZs a with
      | Some g', Some a' =>
          if Z.eqb op 0 then
            L [ofZs (g_nx g'); ofQs (g_dx g'); ofQs (g_x0 g'); nodes_of g' nmax; ofQs (g_x0 g')]
          else if Z.eqb op 3 then
            match asZs b with
            | Some b' => let d := subgrid g' a' b' in
                         L [ofZs (g_nx d); ofQs (g_dx d); ofQs (g_x0 d); nodes_of d nmax; ofQs (spec_subgrid_x0 g' a')]
            | None => sx_error 1
            end
          else
            match asB b with
            | Some fc =>
                let p := if Z.eqb op 1 then multiple g' a' fc else divider g' a' fc in
                let sp := if Z.eqb op 1 then spec_multiple_x0 g' a' fc else spec_divider_x0 g' a' fc in
                let d := derived g' p in
                let vals := map (fun r => Some (inject_Z (1000 + r))) (ranks g') in
                L [ofZs (g_nx d); ofQs (g_dx d); ofQs (g_x0 d); nodes_of d nmax; ofQs sp;
                   (* values migrated by createCoarse / createRefine (grid -> grid with filling, parent values 1000+rank) *)
                   ofList (fun j => let coor := rankToCoordinates d j [] in
                                    ofRes (g2g_fill_one_gen loc_centered eps6_double g' vals d 1 [] j) (spec_g2g_fill_one g' vals d 1 [] j)
                                          (g2g_fill_one_gen false eps6_double g' vals d 1 [] j) (g2g_fill_one_gen loc_centered eps6_double g' vals d 1 [] j)
                                          (loc_margin g' eps6_double coor))
                          (zrange (Z.min nmax (prodZ (g_nx d))))]
            | None => sx_error 1
            end
      | _, _ => sx_error 1
      end
  | L [I 7%Z; g; ep; pts] =>
      match asGrid g, asQ ep, asListOf asQs pts with
      | Some g', Some ep', Some pts' =>
          ofList (fun p => L [I (coordinateToRank g' p loc_centered ep'); ofQ (c2i_margin g' p false ep');
                              I (coordinateToRank g' p true 0); ofQ (c2i_margin g' p true 0);
                              I (coordinateToRank g' p false ep')]) pts'
      | _, _, _ => sx_error 1
      end
  | L [I 8%Z; g; I k; ord] =>
      match asGrid g, asZs ord with
      | Some g', Some ord' =>
          match ord' with
          | [] => L [I 1; ofList ofZs (iter_run (g_nx g') (Z.to_nat k) 0%Z)]
          | _ => let o := iter_init_order (length (g_nx g')) ord' in
                 L [ofB (negb (Nat.eqb (length o) 0));
                    ofList (fun it => match iter_next_order (g_nx g') o (Z.min it (prodZ (g_nx g') - 1)) with
                                      | Some l => L [I 1; ofZs l] | None => L [I 0] end) (zrange k)]
          end
      | _, _ => sx_error 1
      end
  | L [I 9%Z; I n; _; cs; m; vs] =>
      match asListOf asQs cs, asMat m, asListOf asQs vs with
      | Some cs', Some M, Some vs' =>
          let nn := Z.to_nat n in
          let gen := match cs' with
                     | [[c0; s0]] => rot2d c0 s0
                     | [[c0; s0]; [c1; s1]; [c2; s2]] => rot3d c0 s0 c1 s1 c2 s2
                     | _ => idmat nn
                     end in
          let r := rot_of_matrix nn M in
          L [ofList ofQs gen; ofB (r_flag r);
             ofList (fun v => L [ofQs (rotate_direct r v); ofQs (rotate_inverse r v);
                                 ofQs (rotate_inverse r (rotate_direct r v))]) vs']
      | _, _, _ => sx_error 1
      end
  | L [I 11%Z; g; ep; I dt; dm; fl; ps] =>
      match asGrid g, asQ ep, asQs dm, asZ fl, asListOf asPt ps with
      | Some g', Some ep', Some dm', Some fl', Some ps' => run_p2g g' ep' dt dm' fl' ps'
      | _, _, _, _, _ => sx_error 1
      end
  | L [I 12%Z; g; vs; ep; I dt; dm; ps] =>
      match asGrid g, asVals vs, asQ ep, asQs dm, asListOf asPt ps with
      | Some g', Some vs', Some ep', Some dm', Some ps' => run_g2p g' vs' ep' dt dm' ps'
      | _, _, _, _, _ => sx_error 1
      end
  | L [I 15%Z; g; vs; ep; I dt; dm; ps] =>
      (* grid -> point with interpolation: (code spec weight-margin old-code) per sample *)
      match asGrid g, asVals vs, asQ ep, asQs dm, asListOf asPt ps with
      | Some g', Some vs', Some ep', Some dm', Some ps' =>
          ofList (fun p => L [ofOQ (if p_active p then interp_one ep' g' vs' dt dm' (p_coor p) else None);
                              ofOQ (if p_active p then spec_interp_one ep' g' vs' (p_coor p) else None);
                              ofQ (interp_margin ep' g' (p_coor p));
                              ofOQ (if p_active p then interp_one_old ep' g' vs' dt dm' (p_coor p) else None)]) ps'
      | _, _, _, _, _ => sx_error 1
      end
  | L [I 13%Z; gi; vs; go; ep; I dt; dm; fl] =>
      match asGrid gi, asVals vs, asGrid go, asQ ep, asQs dm, asB fl with
      | Some gi', Some vs', Some go', Some ep', Some dm', Some fl' => run_g2g gi' vs' go' ep' dt dm' fl'
      | _, _, _, _, _, _ => sx_error 1
      end
  | L [I 16%Z; g; L its] =>          (* the same session model, driven on a DbGrid object by the harness *)
      match asGrid g, mapM asItem its with
      | Some g', Some its' => L (msession_sx g' its')
      | _, _ => sx_error 1
      end
  | L [I 17%Z; g; I op; I arg] =>    (* createFromGridShrink / Extend: parent geometry only; the comparison is child vs parent on the implementation *)
      match asGrid g with Some g' => L [ofZs (g_nx g'); ofQs (g_dx g'); ofQs (g_x0 g')] | None => sx_error 1 end
  | L [I 14%Z; g; L its] =>
      match asGrid g, mapM asItem its with
      | Some g', Some its' => L (msession_sx g' its')
      | _, _ => sx_error 1
      end
  | L [I 10%Z; g; L qs] =>
      match asGrid g with Some g' => run_session_sx g' qs | None => sx_error 1 end
  | _ => sx_error 0
  end.

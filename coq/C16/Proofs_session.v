(* C16 proofs: the model's answer to a query does not depend on the queries made before *)
From Coq Require Import List ZArith QArith Bool.
From Gst Require Import lib.QAux C16.Model C16.Spec.
Import ListNotations.

Lemma run_session_map g : forall qs st, run_session g st qs = map (eval_query g) qs.
Proof. induction qs as [|q r IH]; intros st; simpl; [reflexivity|]. rewrite IH. reflexivity. Qed.

Lemma query_history_independent g st pre q post :
  nth (length pre) (run_session g st (pre ++ q :: post)) (AZ 0) = eval_query g q /\
  run_session g [] [q] = [eval_query g q].
Proof.
  split; [|reflexivity]. rewrite run_session_map, map_app. rewrite app_nth2; rewrite map_length; [|apply le_n].
  rewrite Nat.sub_diag. reflexivity.
Qed.

(* sessions with mutations: the answers after any history are those of a fresh object with the geometry reached *)
Lemma run_msession_app g pre post :
  run_msession g (pre ++ post) = run_msession g pre ++ run_msession (final_grid g pre) post.
Proof.
  revert g. induction pre as [|[q|m] pre IH]; intros g; simpl; [reflexivity| |]; rewrite IH; reflexivity.
Qed.
Lemma msession_refresh g pre qs :
  run_msession g (pre ++ map SQ qs) = run_msession g pre ++ map (fun q => Some (eval_query (final_grid g pre) q)) qs.
Proof.
  rewrite run_msession_app. f_equal. induction qs as [|q r IH]; simpl; [reflexivity|]. rewrite IH. reflexivity.
Qed.

(* C16 proofs: indices <-> coordinates, cell containment, rank <-> coordinates *)
From Coq Require Import List ZArith QArith Qround Qabs Bool Lia Lqa Setoid Morphisms.
From Gst Require Import lib.QAux C16.Model C16.Spec C16.Proofs_rank C16.Proofs_lin.
Import ListNotations.
Local Open Scope Q_scope.

(* ---- floor *)
Lemma Qfloor_unique t i : inject_Z i <= t -> t < inject_Z i + 1 -> Qfloor t = i.
Proof.
  intros H1 H2. pose proof (Qfloor_le t) as F1. pose proof (Qlt_floor t) as F2.
  rewrite inject_Z_plus in F2. change (inject_Z 1) with 1 in F2.
  assert (A : inject_Z i < inject_Z (Qfloor t) + 1) by lra.
  assert (B : inject_Z (Qfloor t) < inject_Z i + 1) by lra.
  change 1 with (inject_Z 1) in A, B. rewrite <- inject_Z_plus in A, B.
  rewrite <- Zlt_Qlt in A, B. lia.
Qed.
Lemma Qfloor_spec t : inject_Z (Qfloor t) <= t /\ t < inject_Z (Qfloor t) + 1.
Proof.
  split; [apply Qfloor_le|]. pose proof (Qlt_floor t) as F. rewrite inject_Z_plus in F. exact F.
Qed.

(* ---- map2 *)
Lemma map2_length {A B C} (f : A -> B -> C) a b : length a = length b -> length (map2 f a b) = length a.
Proof. revert b. induction a as [|x a IH]; intros [|y b] H; simpl in *; try discriminate; [reflexivity|]. rewrite IH by lia. reflexivity. Qed.
Lemma map2_nth {A B C} (f : A -> B -> C) a b da db dc k :
  (k < length a)%nat -> length a = length b -> nth k (map2 f a b) dc = f (nth k a da) (nth k b db).
Proof.
  revert b k. induction a as [|x a IH]; intros [|y b] k Hk Hl; simpl in *; try lia.
  destruct k; [reflexivity|]. apply IH; lia.
Qed.

Lemma vsub_vadd a b : length a = length b -> eqlQ (vsub (vadd a b) b) a.
Proof.
  revert b. induction a as [|x a IH]; intros [|y b] H; simpl in *; try discriminate; constructor; [ring|].
  apply IH. lia.
Qed.
Lemma vadd_vsub a b : length a = length b -> eqlQ (vadd (vsub a b) b) a.
Proof.
  revert b. induction a as [|x a IH]; intros [|y b] H; simpl in *; try discriminate; constructor; [ring|].
  apply IH. lia.
Qed.
Lemma vsub_proper_l a a' b : eqlQ a a' -> eqlQ (vsub a b) (vsub a' b).
Proof.
  intros H. revert b. induction H as [|x y a a' Hxy H IH]; intros [|z b]; simpl; constructor; [rewrite Hxy; reflexivity|apply IH].
Qed.
Lemma vadd_proper_l a a' b : eqlQ a a' -> eqlQ (vadd a b) (vadd a' b).
Proof.
  intros H. revert b. induction H as [|x y a a' Hxy H IH]; intros [|z b]; simpl; constructor; [rewrite Hxy; reflexivity|apply IH].
Qed.

(* ---- rotation *)
Lemma rotate_inverse_proper r a b : eqlQ a b -> eqlQ (rotate_inverse r a) (rotate_inverse r b).
Proof. intros H. unfold rotate_inverse. destruct (r_flag r); [apply mvec_proper|]; exact H. Qed.
Lemma rotate_direct_proper r a b : eqlQ a b -> eqlQ (rotate_direct r a) (rotate_direct r b).
Proof. intros H. unfold rotate_direct. destruct (r_flag r); [apply mvec_proper|]; exact H. Qed.
Lemma rotate_inverse_direct n r v : rot_ok n r -> length v = n -> eqlQ (rotate_inverse r (rotate_direct r v)) v.
Proof.
  intros Hr Hv. unfold rotate_inverse, rotate_direct. destruct (r_flag r) eqn:E.
  - destruct Hr as [Hr|[[HW [HC _]] Hi]]; [congruence|]. rewrite Hi. apply rot_inv_dir; assumption.
  - apply eqlQ_refl.
Qed.
Lemma rotate_direct_inverse n r v : rot_ok n r -> length v = n -> eqlQ (rotate_direct r (rotate_inverse r v)) v.
Proof.
  intros Hr Hv. unfold rotate_inverse, rotate_direct. destruct (r_flag r) eqn:E.
  - destruct Hr as [Hr|[[HW [_ HR]] Hi]]; [congruence|]. rewrite Hi. apply rot_dir_inv; assumption.
  - apply eqlQ_refl.
Qed.
Lemma rotate_direct_length n r v : rot_ok n r -> length v = n -> length (rotate_direct r v) = n.
Proof.
  intros Hr Hv. unfold rotate_direct. destruct (r_flag r) eqn:E; [|exact Hv].
  destruct Hr as [Hr|[[[HW _] _] _]]; [congruence|]. rewrite length_mvec. exact HW.
Qed.
Lemma rotate_inverse_length n r v : rot_ok n r -> length v = n -> length (rotate_inverse r v) = n.
Proof.
  intros Hr Hv. unfold rotate_inverse. destruct (r_flag r) eqn:E; [|exact Hv].
  destruct Hr as [Hr|[_ Hi]]; [congruence|]. rewrite length_mvec, Hi. apply length_transpose.
Qed.

(* ---- one axis *)
Lemma c2i_axis_of_scaled c eps w d i p :
  0 < d -> w == (inject_Z i + p) * d ->
  - half_if c <= p + eps -> p + eps < 1 - half_if c -> c2i_axis c eps w d = i.
Proof.
  intros Hd Hw H1 H2. unfold c2i_axis, c2i_t.
  assert (E : w / d == inject_Z i + p) by (rewrite Hw; field; lra).
  apply Qfloor_unique; rewrite E; lra.
Qed.

Lemma c2i_axis_cell c eps w d : 0 < d -> in_cell_axis c eps w d (c2i_axis c eps w d).
Proof.
  intros Hd. unfold in_cell_axis, c2i_axis. set (t := c2i_t c eps w d).
  destruct (Qfloor_spec t) as [F1 F2]. set (f := inject_Z (Qfloor t)) in *.
  assert (E : t * d == w + half_if c * d + eps * d) by (unfold t, c2i_t; field; lra).
  split.
  - assert (f * d <= t * d) by (apply Qmult_le_compat_r; lra). lra.
  - assert (t * d < (f + 1) * d) by (apply Qmult_lt_compat_r; lra). lra.
Qed.

Lemma cell_unique c eps w d i : 0 < d -> in_cell_axis c eps w d i -> c2i_axis c eps w d = i.
Proof.
  intros Hd [H1 H2]. unfold c2i_axis, c2i_t. 
  assert (E : w / d + half_if c + eps == (w + half_if c * d + eps * d) / d) by (field; lra).
  apply Qfloor_unique; rewrite E.
  - apply Qle_shift_div_l; [exact Hd|]. lra.
  - apply Qlt_shift_div_r; [exact Hd|]. lra.
Qed.

(* ---- all axes *)
Definition offsets_ok (c : bool) (eps : Q) (pz : list Q) : Prop :=
  Forall (fun p => - half_if c <= p + eps /\ p + eps < 1 - half_if c) pz.

Lemma floor_axes c eps : forall ind pz dx w2,
  length pz = length ind -> length dx = length ind ->
  Forall (fun d => 0 < d) dx -> offsets_ok c eps pz ->
  eqlQ w2 (map2 Qmult (map2 (fun i p => inject_Z i + p) ind pz) dx) ->
  map2 (c2i_axis c eps) w2 dx = ind.
Proof.
  induction ind as [|i ind IH]; intros [|p pz] [|d dx] w2 Hp Hd Hpos Hoff Hw; simpl in *; try discriminate.
  - inversion Hw; subst. reflexivity.
  - inversion Hw as [|w ? w2' ? Hw0 Hw']; subst. inversion Hpos; subst. inversion Hoff as [|? ? [O1 O2] Hoff']; subst.
    simpl. f_equal.
    + apply (c2i_axis_of_scaled c eps w d i p); assumption.
    + apply (IH pz dx w2'); try lia; assumption.
Qed.

Lemma grid_frame_of_world n g w1 coor : wfgrid n g -> length w1 = n ->
  eqlQ coor (vadd (rotate_direct (g_rot g) w1) (g_x0 g)) -> eqlQ (grid_frame g coor) w1.
Proof.
  intros (Hnx & Hx0 & Hdx & Hpn & Hpd & Hr) Hw Hc. unfold grid_frame.
  eapply eqlQ_trans; [|apply (rotate_inverse_direct n); eassumption].
  apply rotate_inverse_proper.
  eapply eqlQ_trans; [apply vsub_proper_l; exact Hc|].
  apply vsub_vadd. rewrite (rotate_direct_length n) by assumption. congruence.
Qed.

Lemma grid_frame_length n g coor : wfgrid n g -> length coor = n -> length (grid_frame g coor) = n.
Proof.
  intros (Hnx & Hx0 & Hdx & Hpn & Hpd & Hr) Hc. unfold grid_frame. apply (rotate_inverse_length n); [exact Hr|].
  unfold vsub. rewrite map2_length; congruence.
Qed.

(* the grid frame is the coordinate system of the grid geometry: world = x0 + R frame *)
Lemma frame_back n g coor : wfgrid n g -> length coor = n ->
  eqlQ (vadd (rotate_direct (g_rot g) (grid_frame g coor)) (g_x0 g)) coor.
Proof.
  intros (Hnx & Hx0 & Hdx & Hpn & Hpd & Hr) Hc. unfold grid_frame.
  assert (Hl : length (vsub coor (g_x0 g)) = n) by (unfold vsub; rewrite map2_length; congruence).
  eapply eqlQ_trans; [apply vadd_proper_l; apply (rotate_direct_inverse n); assumption|].
  apply vadd_vsub. congruence.
Qed.

(* coordinateToIndices (indicesToCoordinate ind percent) = ind *)
Lemma c2i_i2c_gen n g ind pc pz c eps :
  wfgrid n g -> length ind = n -> length pz = n ->
  pz = match pc with [] => map (fun _ => 0) ind | _ => pc end ->
  offsets_ok c eps pz ->
  snd (c2i g (i2c g ind pc true) c eps) = ind.
Proof.
  intros Hg Hi Hp Hpz Hoff. pose proof Hg as (Hnx & Hx0 & Hdx & Hpn & Hpd & Hr).
  unfold c2i. simpl.
  apply (floor_axes c eps ind pz); try congruence.
  unfold i2c, scaled. rewrite <- Hpz.
  apply (grid_frame_of_world n); [exact Hg| |apply eqlQ_refl].
  rewrite map2_length; rewrite map2_length; congruence.
Qed.

Lemma offsets_zero c eps (ind : list Z) : - half_if c <= eps -> eps < 1 - half_if c -> offsets_ok c eps (map (fun _ => 0) ind).
Proof. intros H1 H2. unfold offsets_ok. apply Forall_forall. intros p Hin. apply in_map_iff in Hin. destruct Hin as [? [<- _]]. lra. Qed.

Lemma idx_coord_idx n g ind c eps :
  wfgrid n g -> length ind = n -> - half_if c <= eps -> eps < 1 - half_if c ->
  snd (c2i g (node g ind) c eps) = ind.
Proof.
  intros Hg Hi H1 H2. unfold node.
  apply (c2i_i2c_gen n g ind [] (map (fun _ => 0) ind)); try assumption; [rewrite map_length; exact Hi|reflexivity|apply offsets_zero; assumption].
Qed.
Lemma idx_coord_idx_percent n g ind pc c eps :
  wfgrid n g -> length ind = n -> length pc = n -> (0 < n)%nat -> offsets_ok c eps pc ->
  snd (c2i g (i2c g ind pc true) c eps) = ind.
Proof.
  intros Hg Hi Hp Hn Hoff. apply (c2i_i2c_gen n g ind pc pc); try assumption.
  destruct pc; [simpl in Hp; lia|reflexivity].
Qed.

(* outside flag *)
Lemma any_out_false idx nx : length idx = length nx -> (any_out idx nx = false <-> inrange nx idx).
Proof.
  unfold any_out, inrange. revert nx. induction idx as [|i idx IH]; intros [|n nx] Hl; simpl in *; try discriminate.
  - split; [constructor|reflexivity].
  - rewrite orb_false_iff. rewrite out_of_range_false. rewrite (IH nx) by lia. split.
    + intros [H1 H2]. constructor; assumption.
    + intros H. inversion H; subst. split; assumption.
Qed.
Lemma c2i_length n g coor c eps : wfgrid n g -> length coor = n -> length (snd (c2i g coor c eps)) = n.
Proof.
  intros Hg Hc. pose proof Hg as (Hnx & Hx0 & Hdx & _). simpl.
  rewrite map2_length; rewrite (grid_frame_length n) by assumption; congruence.
Qed.
Lemma c2i_outside n g coor c eps : wfgrid n g -> length coor = n ->
  (fst (c2i g coor c eps) = true <-> ~ inrange (g_nx g) (snd (c2i g coor c eps))).
Proof.
  intros Hg Hc. pose proof Hg as (Hnx & _).
  pose proof (any_out_false (snd (c2i g coor c eps)) (g_nx g)) as H.
  rewrite (c2i_length n) in H by assumption. specialize (H (eq_sym Hnx)).
  change (fst (c2i g coor c eps)) with (any_out (snd (c2i g coor c eps)) (g_nx g)).
  destruct (any_out (snd (c2i g coor c eps)) (g_nx g)).
  - split; [intros _ Hin; apply H in Hin; discriminate|reflexivity].
  - split; [discriminate|intros Hn; exfalso; apply Hn; apply H; reflexivity].
Qed.

(* the cell: every axis of the answer satisfies the cell inequalities in the grid frame *)
Lemma c2i_cell n g coor c eps k : wfgrid n g -> length coor = n -> (k < n)%nat ->
  in_cell_axis c eps (nth k (grid_frame g coor) 0) (nth k (g_dx g) 1) (nth k (snd (c2i g coor c eps)) 0%Z).
Proof.
  intros Hg Hc Hk. pose proof Hg as (Hnx & Hx0 & Hdx & Hpn & Hpd & Hr). simpl.
  rewrite (map2_nth (c2i_axis c eps) _ _ 0 1 0%Z) by (rewrite (grid_frame_length n) by assumption; congruence).
  apply c2i_axis_cell. rewrite Forall_forall in Hpd. apply Hpd. apply nth_In. lia.
Qed.
(* and the cell inequalities determine the answer *)
Lemma c2i_cell_unique n g coor c eps idx : wfgrid n g -> length coor = n -> length idx = n ->
  (forall k, (k < n)%nat -> in_cell_axis c eps (nth k (grid_frame g coor) 0) (nth k (g_dx g) 1) (nth k idx 0%Z)) ->
  snd (c2i g coor c eps) = idx.
Proof.
  intros Hg Hc Hi H. pose proof Hg as (Hnx & Hx0 & Hdx & Hpn & Hpd & Hr).
  apply (nth_ext _ _ 0%Z 0%Z); [rewrite (c2i_length n) by assumption; congruence|].
  intros k Hk. rewrite (c2i_length n) in Hk by assumption. simpl.
  rewrite (map2_nth (c2i_axis c eps) _ _ 0 1 0%Z) by (rewrite (grid_frame_length n) by assumption; congruence).
  apply cell_unique; [|apply H; exact Hk].
  rewrite Forall_forall in Hpd. apply Hpd. apply nth_In. lia.
Qed.

(* rank -> coordinates -> rank *)
Lemma rank_coord_rank n g r c eps :
  wfgrid n g -> (0 <= r < prodZ (g_nx g))%Z -> - half_if c <= eps -> eps < 1 - half_if c ->
  coordinateToRank g (rankToCoordinates g r []) c eps = r.
Proof.
  intros Hg Hr H1 H2. pose proof Hg as (Hnx & Hx0 & Hdx & Hpn & Hpd & Hrot).
  destruct (rank_idx_rank (g_nx g) r Hpn Hr) as [I1 I2].
  unfold coordinateToRank, rankToCoordinates.
  set (ind := rankToIndice (g_nx g) r false) in *.
  assert (Hl : length ind = n) by (rewrite <- (inrange_length _ _ I1); exact Hnx).
  pose proof (idx_coord_idx n g ind c eps Hg Hl H1 H2) as E. unfold node in E.
  assert (F : fst (c2i g (i2c g ind [] true) c eps) = false).
  { change (fst (c2i g (i2c g ind [] true) c eps)) with (any_out (snd (c2i g (i2c g ind [] true) c eps)) (g_nx g)).
    rewrite E. apply any_out_false; [congruence|exact I1]. }
  rewrite F, E. exact I2.
Qed.
Lemma coord_of_rank_of_idx n g ind : wfgrid n g -> inrange (g_nx g) ind ->
  rankToCoordinates g (indiceToRank (g_nx g) ind) [] = node g ind.
Proof.
  intros Hg Hr. pose proof Hg as (_ & _ & _ & Hpn & _). unfold rankToCoordinates, node.
  destruct (idx_rank_idx (g_nx g) ind Hpn Hr) as [_ E]. rewrite E. reflexivity.
Qed.

(* centred convention without eps: the point is within half a mesh of its node on every axis *)
Lemma c2i_cell_centered n g coor k : wfgrid n g -> length coor = n -> (k < n)%nat ->
  Qabs (nth k (grid_frame g coor) 0 - inject_Z (nth k (snd (c2i g coor true 0)) 0%Z) * nth k (g_dx g) 1) <= nth k (g_dx g) 1 / 2.
Proof.
  intros Hg Hc Hk. destruct (c2i_cell n g coor true 0 k Hg Hc Hk) as [H1 H2].
  unfold half_if in *.
  set (w := nth k (grid_frame g coor) 0) in *. set (d := nth k (g_dx g) 1) in *.
  set (i := inject_Z (nth k (snd (c2i g coor true 0)) 0%Z)) in *.
  assert (E : (i + 1) * d == i * d + d) by ring. rewrite E in H2. clear E.
  set (x := i * d) in *. clearbody x. clearbody w d i. apply Qabs_Qle_condition.
  assert (E : d / 2 == (1 # 2) * d) by field. rewrite E. split; lra.
Qed.


(* C16 proofs: db_grid_define_coordinates writes, for every sample, the coordinates of the node of that rank *)
From Coq Require Import List ZArith QArith Bool Lia.
From Gst Require Import lib.QAux C16.Model C16.Spec C16.Migrate C16.Proofs_rank C16.Proofs_lin C16.Proofs_coord C16.Proofs_derived C16.Proofs_migrate.
Import ListNotations.
Local Open Scope Z_scope.

(* digits of r for the counts nxs, the first count being worth P *)
Fixpoint digits (nxs : list Z) (P r : Z) : list Z :=
  match nxs with [] => [] | n :: ns => ((r / P) mod n) :: digits ns (P * n) r end.

Lemma div_succ r P : 0 <= r -> 0 < P -> (r + 1) / P = r / P + (if Z.eqb ((r + 1) mod P) 0 then 1 else 0).
Proof.
  intros Hr HP. pose proof (Z.div_mod r P ltac:(lia)) as E. pose proof (Z.mod_pos_bound r P HP) as B.
  destruct (Z.eq_dec (r mod P + 1) P) as [H|H].
  - assert (D : r / P + 1 = (r + 1) / P) by (apply (Z.div_unique (r + 1) P (r / P + 1) 0); lia).
    assert (M : 0 = (r + 1) mod P) by (apply (Z.mod_unique (r + 1) P (r / P + 1) 0); lia).
    rewrite <- M, <- D. reflexivity.
  - assert (D : r / P = (r + 1) / P) by (apply (Z.div_unique (r + 1) P (r / P) (r mod P + 1)); lia).
    assert (M : r mod P + 1 = (r + 1) mod P) by (apply (Z.mod_unique (r + 1) P (r / P) (r mod P + 1)); lia).
    rewrite <- M, <- D. destruct (Z.eqb_spec (r mod P + 1) 0); lia.
Qed.
Lemma mod_succ q n : 0 < n -> (q + 1) mod n = if Z.eqb (q mod n + 1) n then 0 else q mod n + 1.
Proof.
  intros Hn. pose proof (Z.div_mod q n ltac:(lia)) as E. pose proof (Z.mod_pos_bound q n Hn) as B.
  destruct (Z.eqb_spec (q mod n + 1) n) as [H|H].
  - symmetry. apply (Z.mod_unique (q + 1) n (q / n + 1) 0); lia.
  - symmetry. apply (Z.mod_unique (q + 1) n (q / n) (q mod n + 1)); lia.
Qed.

Lemma odo_step_digits : forall nxs P r, allpos nxs -> 0 < P -> 0 <= r ->
  odo_step nxs (digits nxs P r) P (r + 1) = digits nxs P (r + 1).
Proof.
  induction nxs as [|n ns IH]; intros P r Hp HP Hr; [reflexivity|].
  inversion Hp as [|? ? Hn Hp']; subst. cbn [digits odo_step].
  rewrite IH by (try assumption; nia). f_equal.
  rewrite Z.rem_mod_nonneg by lia.
  rewrite (div_succ r P Hr HP).
  destruct (Z.eqb ((r + 1) mod P) 0).
  - rewrite mod_succ by exact Hn. reflexivity.
  - rewrite Z.add_0_r. reflexivity.
Qed.

Lemma digits_zero : forall nxs P, 0 < P -> allpos nxs -> digits nxs P 0 = map (fun _ => 0) nxs.
Proof.
  induction nxs as [|n ns IH]; intros P HP Hp; [reflexivity|]. inversion Hp; subst. cbn [digits map].
  rewrite Z.div_0_l, Z.mod_0_l by lia. rewrite IH by (try assumption; nia). reflexivity.
Qed.

Lemma digits_rank : forall nxs P r, allpos nxs -> 0 < P -> 0 <= r ->
  inrange nxs (digits nxs P r) /\ rank_of nxs (digits nxs P r) = (r / P) mod (prodZ nxs).
Proof.
  induction nxs as [|n ns IH]; intros P r Hp HP Hr.
  - split; [constructor|]. simpl. rewrite Z.mod_1_r. reflexivity.
  - inversion Hp as [|? ? Hn Hp']; subst. destruct (IH (P * n) r Hp' ltac:(nia) Hr) as [I1 I2].
    cbn [digits rank_of prodZ fold_right]. fold (prodZ ns). split.
    + constructor; [apply Z.mod_pos_bound; exact Hn|exact I1].
    + rewrite I2. rewrite <- Z.div_div by lia.
      assert (Hc : 0 < prodZ ns) by (apply prodZ_pos; exact Hp').
      rewrite (Z.rem_mul_r (r / P) n (prodZ ns)) by lia. reflexivity.
Qed.

Lemma digits_is_rankToIndice nx r : allpos nx -> 0 <= r < prodZ nx -> digits nx 1 r = rankToIndice nx r false.
Proof.
  intros Hp Hr. destruct (digits_rank nx 1 r Hp ltac:(lia) ltac:(lia)) as [I1 I2].
  rewrite Z.div_1_r, Z.mod_small in I2 by lia.
  destruct (idx_rank_idx nx _ Hp I1) as [_ E]. rewrite (indiceToRank_formula nx _ I1), I2 in E. symmetry. exact E.
Qed.

Lemma define_loop_nth g : forall k iech j, allpos (g_nx g) -> 0 <= iech -> (j < k)%nat ->
  nth j (define_loop g k iech (digits (g_nx g) 1 iech)) [] =
  coords_by_indice g (digits (g_nx g) 1 (iech + Z.of_nat j)) true [] [].
Proof.
  induction k as [|k IH]; intros iech j Hp Hi Hj; [lia|].
  cbn [define_loop]. destruct j as [|j].
  - rewrite Z.add_0_r. reflexivity.
  - cbn [nth]. rewrite odo_step_digits by (try assumption; lia).
    rewrite IH by (try assumption; lia). f_equal. f_equal. lia.
Qed.

(* the stored coordinates of sample r are those of the node of rank r, as getCoordinatesByIndice computes them ... *)
Lemma define_coordinates_nth g r : allpos (g_nx g) -> 0 <= r < prodZ (g_nx g) ->
  nth (Z.to_nat r) (define_coordinates g) [] = coords_by_indice g (rankToIndice (g_nx g) r false) true [] [].
Proof.
  intros Hp Hr. unfold define_coordinates.
  rewrite <- (digits_zero (g_nx g) 1) by (try assumption; lia).
  rewrite define_loop_nth by (try assumption; lia). rewrite Z2Nat.id by lia. rewrite Z.add_0_l.
  rewrite digits_is_rankToIndice by assumption. reflexivity.
Qed.
Local Open Scope Q_scope.
(* ... i.e. the node coordinates indicesToCoordinate / getCoordinate give (so that C16_idx_coord and C16_rank_coord apply to them) *)
Lemma cbi_is_node n g ind : gridok n g -> length ind = n -> eqlQ (coords_by_indice g ind true [] []) (node g ind).
Proof.
  intros Hg Hl. pose proof Hg as [Hw _]. pose proof Hw as (Hnx & Hx0 & Hdx). unfold node.
  assert (Le : (@nil Q) = [] \/ length (@nil Q) = n) by (left; reflexivity).
  apply (eqlQ_nth n); [apply (cbi_length n); auto|apply (i2c_length n); auto|].
  intros k Hk. rewrite (cbi_nth n), (i2c_nth n) by auto.
  rewrite (rowapp_ext n g k _ (scaled g ind [])); auto; [reflexivity|rewrite map2_length; congruence|apply (scaled_length n); auto|].
  intros i Hi. rewrite (scaled_nth n) by auto.
  rewrite (map2_nth (fun i0 d => inject_Z i0 * d) _ _ 0%Z 0 0) by congruence. rewrite nth_nil_Q. ring.
Qed.
Lemma define_coordinates_node n g r : wfgrid n g -> (0 <= r < prodZ (g_nx g))%Z ->
  eqlQ (nth (Z.to_nat r) (define_coordinates g) []) (rankToCoordinates g r []).
Proof.
  intros Hg Hr. pose proof Hg as (Hnx & _ & _ & Hpos & _).
  rewrite define_coordinates_nth by assumption. unfold rankToCoordinates.
  destruct (rank_idx_rank (g_nx g) r Hpos Hr) as [I _].
  apply (cbi_is_node n); [apply wfgrid_gridok; exact Hg|]. rewrite <- (inrange_length _ _ I). exact Hnx.
Qed.
(* hence the stored location of a sample is located back in the cell of that sample *)
Lemma define_coordinates_roundtrip n g r c eps : wfgrid n g -> (0 <= r < prodZ (g_nx g))%Z ->
  - half_if c <= eps -> eps < 1 - half_if c ->
  snd (c2i g (nth (Z.to_nat r) (define_coordinates g) []) c eps) = rankToIndice (g_nx g) r false.
Proof.
  intros Hg Hr H1 H2. pose proof Hg as (Hnx & _ & _ & Hpos & _).
  destruct (rank_idx_rank (g_nx g) r Hpos Hr) as [I _].
  set (ind := rankToIndice (g_nx g) r false) in *.
  assert (Hl : length ind = n) by (rewrite <- (inrange_length _ _ I); exact Hnx).
  apply (c2i_of_eql n g ind [] (map (fun _ => 0) ind)); auto.
  - rewrite map_length. exact Hl.
  - apply offsets_zero; assumption.
  - pose proof (define_coordinates_node n g r Hg Hr) as E. exact E.
Qed.

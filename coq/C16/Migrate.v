(* C16 model, part 2: the migration bookkeeping of /repo/src/Calculators/CalcMigrate.cpp
     st_locate_point_on_grid          CalcMigrate.cpp:373
     st_larger_than_dmax              CalcMigrate.cpp:459
     CalcMigrate::_migrateGridToPoint CalcMigrate.cpp:568
     CalcMigrate::_migratePointToGrid CalcMigrate.cpp:1797
     CalcMigrate::_migrateGridToGrid  CalcMigrate.cpp:1952
     CalcMigrate::_expandGridToGrid   CalcMigrate.cpp:2078   (grid -> grid, flag_fill; used by createCoarse / createRefine)
     expandPointToGrid                CalcMigrate.cpp:1179   (point -> grid, flag_fill; modelled by its result: the pruned
                                                              1-D sweep is an optimisation of "closest point")
     distance_inter                   /repo/src/Core/db.cpp:96
   Values travel as [option Q] (None = TEST).  Distances are compared through their squares.  No proofs here. *)
From Coq Require Import List ZArith QArith Qround Qabs Qminmax Bool.
From Gst Require Import lib.QAux C16.Model.
Import ListNotations.
Local Open Scope Q_scope.

Record pt := { p_active : bool; p_coor : list Q; p_val : option Q }.

(* the `centered' argument at the call sites coordinateToRank(coor, true): cells centred on the nodes
   (it was the default, false, before commits 90bc155fe / b7b835151: see the *_old definitions below) *)
Definition loc_centered : bool := true.

(* st_locate_point_on_grid, one sample: TEST when masked or outside, else the rank *)
Definition locate_gen (centered : bool) (eps : Q) (g : grid) (p : pt) : option Z :=
  if p_active p then
    let r := coordinateToRank g (p_coor p) centered eps in
    if (0 <=? r)%Z then Some r else None
  else None.
Definition locate (eps : Q) (g : grid) (p : pt) : option Z := locate_gen loc_centered eps g p.

(* st_larger_than_dmax (dmax empty = no limit) *)
Definition sqQ (x : Q) : Q := x * x.
Definition sumsq (v : list Q) : Q := fold_right (fun x acc => sqQ x + acc) 0 v.
Definition larger_than_dmax (dv : list Q) (distType : Z) (dmax : list Q) : bool :=
  match dmax with
  | [] => false
  | _ => if Z.eqb distType 1
         then existsb (fun b => b) (map2 (fun d m => qltb m (Qabs d)) dv dmax)
         else if existsb (fun m => qleb m 0) dmax then true
              else qltb 1 (sumsq (map2 (fun d m => d / m) dv dmax))
  end.

(* distance_inter(db_grid, db_point, rank, iech): vector node - point, and its squared length *)
Definition dvect (g : grid) (rank : Z) (coor : list Q) : list Q := vsub (rankToCoordinates g rank []) coor.
Definition dist2 (g : grid) (rank : Z) (coor : list Q) : Q := sumsq (dvect g rank coor).

Definition getv (vals : list (option Q)) (rank : Z) : option Q := nth (Z.to_nat rank) vals None.

(* ---- grid -> point (no interpolation): the value of the located node, TEST when the node is beyond dmax *)
Definition g2p_one_gen (centered : bool) (eps : Q) (g : grid) (vals : list (option Q)) (distType : Z) (dmax : list Q) (p : pt) : option Q :=
  match locate_gen centered eps g p with
  | None => None
  | Some r => if larger_than_dmax (dvect g r (p_coor p)) distType dmax then None else getv vals r
  end.
Definition g2p (eps : Q) g vals dt dmax (pts : list pt) : list (option Q) := map (g2p_one_gen loc_centered eps g vals dt dmax) pts.
(* regression definition (before 11e26efc9): the loop left tab[iech] = the located RANK when the node was beyond dmax *)
Definition g2p_one_old (centered : bool) (eps : Q) (g : grid) (vals : list (option Q)) (distType : Z) (dmax : list Q) (p : pt) : option Q :=
  match locate_gen centered eps g p with
  | None => None
  | Some r => match dmax with
              | [] => getv vals r
              | _ => if larger_than_dmax (dvect g r (p_coor p)) distType dmax then Some (inject_Z r) else getv vals r
              end
  end.

(* ---- point -> grid (no filling): tab[inode] holds the sample kept for the node.  tab[inode] is only read and
   written for inode = the node of the current sample, so the loop is modelled node by node.
   A sample beyond dmax of its node is skipped; otherwise it takes an empty node, or a busy one when strictly closer. *)
Definition p2g_update_gen (centered : bool) (eps : Q) (g : grid) (dt : Z) (dmax : list Q) (node : Z)
           (cur : option (nat * pt)) (ip : nat * pt) : option (nat * pt) :=
  let p := snd ip in
  match locate_gen centered eps g p with
  | None => cur
  | Some r =>
      if negb (Z.eqb r node) then cur
      else match p_val p with
           | None => cur
           | Some _ =>
               if larger_than_dmax (dvect g node (p_coor p)) dt dmax then cur
               else match cur with
                    | None => Some ip
                    | Some jq => if qltb (dist2 g node (p_coor p)) (dist2 g node (p_coor (snd jq))) then Some ip else cur
                    end
           end
  end.
Definition p2g_update := p2g_update_gen loc_centered.
(* regression definition (before 0d6031ee8): an empty node took the sample WITHOUT the dmax test; a busy node compared
   only when both samples passed it *)
Definition p2g_update_old (centered : bool) (eps : Q) (g : grid) (dt : Z) (dmax : list Q) (node : Z)
           (cur : option (nat * pt)) (ip : nat * pt) : option (nat * pt) :=
  let p := snd ip in
  match locate_gen centered eps g p with
  | None => cur
  | Some r =>
      if negb (Z.eqb r node) then cur
      else match p_val p with
           | None => cur
           | Some _ =>
               match cur with
               | None => Some ip
               | Some jq =>
                   if larger_than_dmax (dvect g node (p_coor p)) dt dmax then cur
                   else if larger_than_dmax (dvect g node (p_coor (snd jq))) dt dmax then cur
                   else if qltb (dist2 g node (p_coor p)) (dist2 g node (p_coor (snd jq))) then Some ip else cur
               end
           end
  end.
Fixpoint indexed {A} (k : nat) (l : list A) : list (nat * A) :=
  match l with [] => [] | x :: r => (k, x) :: indexed (S k) r end.
Definition p2g_holder_gen centered eps g dt dmax (pts : list pt) (node : Z) : option (nat * pt) :=
  fold_left (p2g_update_gen centered eps g dt dmax node) (indexed 0 pts) None.
Definition p2g_node_gen centered eps g dt dmax pts node : option Q :=
  match p2g_holder_gen centered eps g dt dmax pts node with Some ip => p_val (snd ip) | None => None end.
Definition p2g_holder := p2g_holder_gen loc_centered.
Definition p2g_node := p2g_node_gen loc_centered.
Definition p2g_node_old centered eps g dt dmax (pts : list pt) node : option Q :=
  match fold_left (p2g_update_old centered eps g dt dmax node) (indexed 0 pts) None with Some ip => p_val (snd ip) | None => None end.
Definition ranks (g : grid) : list Z := map Z.of_nat (seq 0 (Z.to_nat (prodZ (g_nx g)))).
Definition p2g eps g dt dmax pts : list (option Q) := map (p2g_node eps g dt dmax pts) (ranks g).

(* ---- grid -> grid, flag_fill (_expandGridToGrid): every output node looks up the input grid *)
Definition g2g_fill_one_gen (centered : bool) (eps : Q) (gin : grid) (vals : list (option Q)) (gout : grid) (dt : Z) (dmax : list Q) (j : Z) : option Q :=
  let coor := rankToCoordinates gout j [] in
  let r := coordinateToRank gin coor centered eps in
  if (r <? 0)%Z then None
  else if larger_than_dmax (dvect gin r coor) dt dmax then None else getv vals r.
Definition g2g_fill eps gin vals gout dt dmax : list (option Q) := map (g2g_fill_one_gen loc_centered eps gin vals gout dt dmax) (ranks gout).

(* ---- grid -> grid, no filling (_migrateGridToGrid): every valued input node is sent to the output node of its
   location; the closest one is kept, the later one on equal distances ("if (dist_loc > dist[jech]) continue") *)
Definition g2g_update (centered : bool) (eps : Q) (gin gout : grid) (dt : Z) (dmax : list Q) (node : Z)
           (cur : option (Z * Q)) (iv : Z * option Q) : option (Z * Q) :=
  match snd iv with
  | None => cur
  | Some v =>
      let coor := rankToCoordinates gin (fst iv) [] in
      let j := coordinateToRank gout coor centered eps in
      if negb (Z.eqb j node) || (j <? 0)%Z then cur
      else if larger_than_dmax (vsub coor (rankToCoordinates gout j [])) dt dmax then cur
      else match cur with
           | None => Some (fst iv, v)
           | Some (i0, _) =>
               if qltb (dist2 gout node (rankToCoordinates gin i0 [])) (dist2 gout node coor) then cur else Some (fst iv, v)
           end
  end.
Definition g2g_node_gen centered eps gin vals gout dt dmax (node : Z) : option Q :=
  match fold_left (g2g_update centered eps gin gout dt dmax node) (combine (ranks gin) vals) None with
  | Some iv => Some (snd iv) | None => None end.
Definition g2g eps gin vals gout dt dmax : list (option Q) := map (g2g_node_gen loc_centered eps gin vals gout dt dmax) (ranks gout).

(* ---- point -> grid, flag_fill (expandPointToGrid, by its result): among the active samples with a value and
   closer than dmax_ref = dmax[last] (Euclidean), the closest one (the first on equal distances in sample order —
   the real visiting order differs, equal distances are excluded by the check); then the dmax test on that one only *)
Definition closer (g : grid) (node : Z) (cur : option (nat * pt)) (ip : nat * pt) : option (nat * pt) :=
  match cur with
  | None => Some ip
  | Some jq => if qltb (dist2 g node (p_coor (snd ip))) (dist2 g node (p_coor (snd jq))) then Some ip else cur
  end.
Definition fill_cand (g : grid) (node : Z) (dmax : list Q) (ip : nat * pt) : bool :=
  p_active (snd ip) && (match p_val (snd ip) with Some _ => true | None => false end) &&
  match dmax with [] => true | _ => let m := last dmax 0 in qltb 0 m && qltb (dist2 g node (p_coor (snd ip))) (m * m) end.
Definition p2g_fill_node (g : grid) (dt : Z) (dmax : list Q) (pts : list pt) (node : Z) : option Q :=
  match fold_left (closer g node) (filter (fill_cand g node dmax) (indexed 0 pts)) None with
  | None => None
  | Some ip => if larger_than_dmax (dvect g node (p_coor (snd ip))) dt dmax then None else p_val (snd ip)
  end.
Definition p2g_fill g dt dmax pts : list (option Q) := map (p2g_fill_node g dt dmax pts) (ranks g).

(* ---- point -> grid, flag_fill with the ball tree (_expandPointToPointBall): the closest ACTIVE sample (its value
   may be undefined); when it is beyond dmax, the closest active sample within dmax (exhaustive search) *)
Definition p2g_ball_node (g : grid) (dt : Z) (dmax : list Q) (pts : list pt) (node : Z) : option Q :=
  let act := filter (fun ip => p_active (snd ip)) (indexed 0 pts) in
  match fold_left (closer g node) act None with
  | None => None
  | Some ip =>
      if larger_than_dmax (dvect g node (p_coor (snd ip))) dt dmax then
        match fold_left (closer g node) (filter (fun jq => negb (larger_than_dmax (dvect g node (p_coor (snd jq))) dt dmax)) act) None with
        | None => None
        | Some jq => p_val (snd jq)
        end
      else p_val (snd ip)
  end.

(* ================================================================== documented meaning (spec)
   The nodes are the centres of the cells: the cell of a point is the one of its closest node. *)
Definition cell_of_eps (eps : Q) (g : grid) (coor : list Q) : option Z :=
  let r := coordinateToRank g coor true eps in if (0 <=? r)%Z then Some r else None.
Definition cell_of := cell_of_eps 0.
Definition spec_g2p_one_eps (eps : Q) (g : grid) (vals : list (option Q)) (dt : Z) (dmax : list Q) (p : pt) : option Q :=
  if p_active p then
    match cell_of_eps eps g (p_coor p) with
    | None => None
    | Some r => if larger_than_dmax (dvect g r (p_coor p)) dt dmax then None else getv vals r
    end
  else None.
Definition spec_g2p_one := spec_g2p_one_eps 0.
(* point -> grid: the closest (lowest rank on equal distances) among the active valued samples lying in the cell
   of the node and within dmax of it *)
Definition spec_p2g_cand_eps (eps : Q) (g : grid) (dt : Z) (dmax : list Q) (node : Z) (ip : nat * pt) : bool :=
  let p := snd ip in
  p_active p && (match p_val p with Some _ => true | None => false end) &&
  (match cell_of_eps eps g (p_coor p) with Some r => Z.eqb r node | None => false end) &&
  negb (larger_than_dmax (dvect g node (p_coor p)) dt dmax).
Definition spec_p2g_holder_eps eps g dt dmax (pts : list pt) node : option (nat * pt) :=
  fold_left (closer g node) (filter (spec_p2g_cand_eps eps g dt dmax node) (indexed 0 pts)) None.
Definition spec_p2g_node_eps eps g dt dmax pts node : option Q :=
  match spec_p2g_holder_eps eps g dt dmax pts node with Some ip => p_val (snd ip) | None => None end.
Definition spec_p2g_node := spec_p2g_node_eps 0.
(* point -> grid with filling: the closest among the active valued samples within dmax of the node *)
Definition spec_fill_cand (g : grid) (dt : Z) (dmax : list Q) (node : Z) (ip : nat * pt) : bool :=
  let p := snd ip in
  p_active p && (match p_val p with Some _ => true | None => false end) &&
  negb (larger_than_dmax (dvect g node (p_coor p)) dt dmax).
Definition spec_p2g_fill_node g dt dmax pts node : option Q :=
  match fold_left (closer g node) (filter (spec_fill_cand g dt dmax node) (indexed 0 pts)) None with
  | Some ip => p_val (snd ip) | None => None end.
(* grid -> grid with filling: the value of the input cell containing the output node *)
Definition spec_g2g_fill_one_eps (eps : Q) gin vals gout dt dmax (j : Z) : option Q :=
  let coor := rankToCoordinates gout j [] in
  match cell_of_eps eps gin coor with
  | None => None
  | Some r => if larger_than_dmax (dvect gin r coor) dt dmax then None else getv vals r
  end.
Definition spec_g2g_fill_one := spec_g2g_fill_one_eps 0.
(* grid -> grid without filling: same rule as the code with cells centred on the nodes *)
Definition spec_g2g_node gin vals gout dt dmax node : option Q := g2g_node_gen true 0 gin vals gout dt dmax node.

(* margins of the decisions: distance of every rounding to its boundary is given by c2i; for the choice of the
   closest sample, the relative gap between the two smallest squared distances *)
Definition two_smallest (l : list Q) : option (Q * option Q) :=
  fold_left (fun acc x => match acc with
                          | None => Some (x, None)
                          | Some (a, None) => if qltb x a then Some (x, Some a) else Some (a, Some x)
                          | Some (a, Some b) => if qltb x a then Some (x, Some a) else if qltb x b then Some (a, Some x) else acc
                          end) l None.
Definition gap_margin (l : list Q) : Q :=
  match two_smallest l with
  | Some (a, Some b) => if qeqb b 0 then 0 else (b - a) / b
  | _ => 1
  end.

(* margin of the dmax test *)
Definition dmax_margin (dv : list Q) (distType : Z) (dmax : list Q) : Q :=
  match dmax with
  | [] => 1
  | _ => if Z.eqb distType 1
         then fold_right Qmin 1 (map2 (fun d m => if qleb m 0 then Qabs d else Qabs (Qabs d - m) / m) dv dmax)
         else if existsb (fun m => qleb m 0) dmax then 1
              else Qabs (sumsq (map2 (fun d m => d / m) dv dmax) - 1)
  end.

(* ================================================================== grid -> point with interpolation
   st_multilinear_interpolation (CalcMigrate.cpp:113), st_shift (:48), st_multilinear_evaluate (:86):
   closest node (point_to_grid, flag_outside = 0), offset = coor - node coordinate rotated into the grid frame, per axis delta = its component,
   "if (delta < 0) { indg--; delta += mesh; }", dmax tests, prop = delta / mesh; then the 2^ndim corners with the weights
   prod (prop or 1 - prop); corners with |weight| < EPSILON6 are skipped, an invalid remaining corner gives TEST. *)
Fixpoint corners (n : nat) : list (list bool) :=
  match n with O => [[]] | S k => flat_map (fun c => [false :: c; true :: c]) (corners k) end.
Definition corner_weight (prop : list Q) (c : list bool) : Q :=
  fold_right Qmult 1 (map2 (fun p (b : bool) => if b then p else 1 - p) prop c).
Definition corner_index (idx : list Z) (c : list bool) : list Z := map2 (fun i (b : bool) => if b then (i + 1)%Z else i) idx c.
Definition corner_value (g : grid) (vals : list (option Q)) (idx : list Z) (c : list bool) : option Q :=
  let r := indiceToRank (g_nx g) (corner_index idx c) in if (r <? 0)%Z then None else getv vals r.
Definition interp_combine (g : grid) (vals : list (option Q)) (eps6 : Q) (idx : list Z) (prop : list Q) : option Q :=
  let cs := filter (fun c => negb (qltb (Qabs (corner_weight prop c)) eps6)) (corners (length idx)) in
  if existsb (fun c => match corner_value g vals idx c with None => true | Some _ => false end) cs then None
  else
    let num := fold_right (fun c acc => corner_weight prop c * match corner_value g vals idx c with Some v => v | None => 0 end + acc) 0 cs in
    let den := fold_right (fun c acc => corner_weight prop c + acc) 0 cs in
    Some (num / den).
Definition interp_axis (dt : Z) (c a mesh : Q) (i : Z) (dm : option Q) : option (Z * Q * Q) :=
  let delta := c - a in
  let i' := if qltb delta 0 then (i - 1)%Z else i in
  let d' := if qltb delta 0 then delta + mesh else delta in
  match dm with
  | None => Some (i', d' / mesh, 0)
  | Some m => if Z.eqb dt 1 && qleb m 0 then None
              else if qltb m d' then None
              else Some (i', d' / mesh, if Z.eqb dt 1 then (d' / m) * (d' / m) else 0)
  end.
Fixpoint sequence {A} (l : list (option A)) : option (list A) :=
  match l with
  | [] => Some []
  | Some x :: r => match sequence r with Some r' => Some (x :: r') | None => None end
  | None :: _ => None
  end.
(* [frame] = true: the offsets point - closest node are rotated into the frame of the grid (rotateInverse) before use —
   the code since 7df99cde0; false: they are taken along the world axes (regression definition interp_one_old) *)
Definition interp_one_gen (frame : bool) (eps6 : Q) (g : grid) (vals : list (option Q)) (dt : Z) (dmax : list Q) (coor : list Q) : option Q :=
  let r := point_to_grid g coor in
  if fst r then None
  else
    let idx0 := snd r in
    let aux := i2c g idx0 [] true in
    let n := length idx0 in
    let offset := vsub coor aux in
    let off := if frame then rotate_inverse (g_rot g) offset else offset in
    let axes := map (fun k => interp_axis dt (nth k off 0) 0 (nth k (g_dx g) 0) (nth k idx0 0%Z)
                                           (match dmax with [] => None | _ => Some (nth k dmax 0) end)) (seq 0 n) in
    match sequence axes with
    | None => None
    | Some ax =>
        let rtot := fold_right (fun t acc => snd t + acc) 0 ax in
        if (match dmax with [] => false | _ => true end) && Z.eqb dt 1 && qltb 1 rtot then None
        else interp_combine g vals eps6 (map (fun t => fst (fst t)) ax) (map (fun t => snd (fst t)) ax)
    end.
Definition interp_one := interp_one_gen true.
Definition interp_one_old := interp_one_gen false.
Definition g2p_interp (eps6 : Q) g vals dt dmax (pts : list pt) : list (option Q) :=
  map (fun p => if p_active p then interp_one eps6 g vals dt dmax (p_coor p) else None) pts.

(* documented meaning: multilinear interpolation between the 2^ndim nodes surrounding the point, in the frame of the grid *)
Definition spec_interp_one (eps6 : Q) (g : grid) (vals : list (option Q)) (coor : list Q) : option Q :=
  let u := map2 (fun w d => w / d) (grid_frame g coor) (g_dx g) in
  let idx := map Qfloor u in
  let prop := map2 (fun x i => x - inject_Z i) u idx in
  interp_combine g vals eps6 idx prop.
(* margins: floor / rounding of every axis, and the weights against EPSILON6 *)
Definition interp_margin (eps6 : Q) (g : grid) (coor : list Q) : Q :=
  let u := map2 (fun w d => w / d) (grid_frame g coor) (g_dx g) in
  let prop := map (fun x => x - inject_Z (Qfloor x)) u in
  fold_right Qmin 1 (map (fun c => Qabs (Qabs (corner_weight prop c) - eps6) / eps6) (corners (length u))).

(* C16 proofs: rank <-> indices (mixed radix) *)
From Coq Require Import List ZArith Bool Lia.
From Coq Require Import QArith.
From Gst Require Import lib.QAux C16.Model C16.Spec.
Import ListNotations.
Local Open Scope Z_scope.

(* value of a digit list, top digit first, for the radices nr (also top first) *)
Fixpoint hv (nr ir : list Z) : Z :=
  match nr, ir with
  | n :: ns, i :: is' => i * prodZ ns + hv ns is'
  | _, _ => 0
  end.

Definition allpos (l : list Z) : Prop := Forall (fun k => 0 < k) l.

Lemma prodZ_pos l : allpos l -> 0 < prodZ l.
Proof. induction 1; simpl; lia. Qed.

Lemma prodZ_app a b : prodZ (a ++ b) = prodZ a * prodZ b.
Proof. induction a; simpl; [destruct (prodZ b); reflexivity|rewrite IHa; ring]. Qed.

Lemma prodZ_rev l : prodZ (rev l) = prodZ l.
Proof. induction l; simpl; [reflexivity|rewrite prodZ_app, IHl; simpl; ring]. Qed.

Lemma out_of_range_false i n : out_of_range i n = false <-> 0 <= i < n.
Proof. unfold out_of_range. rewrite orb_false_iff, Z.ltb_ge, Z.leb_gt. tauto. Qed.
Lemma out_of_range_true i n : out_of_range i n = true <-> ~ (0 <= i < n).
Proof.
  pose proof (out_of_range_false i n) as H. destruct (out_of_range i n).
  - split; [intros _ Hc; apply H in Hc; discriminate|reflexivity].
  - split; [discriminate|intro Hc; exfalso; apply Hc; apply H; reflexivity].
Qed.

Lemma hv_bound nr ir : allpos nr -> inrange nr ir -> 0 <= hv nr ir < prodZ nr.
Proof.
  intros Hp Hr. induction Hr as [|n i ns is' Hi Hr IH]; simpl; [lia|].
  inversion Hp; subst. specialize (IH H2). assert (0 < prodZ ns) by (apply prodZ_pos; assumption). nia.
Qed.

Lemma i2r_rev_hv nr ir acc : inrange nr ir -> i2r_rev nr ir acc = acc * prodZ nr + hv nr ir.
Proof.
  intros Hr. revert acc. induction Hr as [|n i ns is' Hi Hr IH]; intros acc; simpl; [ring|].
  apply out_of_range_false in Hi. rewrite Hi. rewrite IH. ring.
Qed.

Lemma i2r_rev_out nr ir acc : length nr = length ir -> ~ inrange nr ir -> i2r_rev nr ir acc = -1.
Proof.
  revert ir acc. induction nr as [|n ns IH]; intros [|i is'] acc Hl Hn; simpl in *; try discriminate.
  - exfalso. apply Hn. constructor.
  - destruct (out_of_range i n) eqn:E; [reflexivity|].
    apply IH; [lia|]. intro Hr. apply Hn. constructor; [apply out_of_range_false; exact E|exact Hr].
Qed.

Lemma r2i_rev_hv nr ir : allpos nr -> inrange nr ir -> r2i_rev nr (prodZ nr) (hv nr ir) = ir.
Proof.
  intros Hp Hr. induction Hr as [|n i ns is' Hi Hr IH]; simpl; [reflexivity|].
  inversion Hp as [|? ? Hn Hp']; subst.
  assert (HP : 0 < prodZ ns) by (apply prodZ_pos; assumption).
  pose proof (hv_bound ns is' Hp' Hr) as Hb.
  assert (E1 : Z.quot (n * prodZ ns) n = prodZ ns).
  { rewrite Z.mul_comm. apply Z.quot_mul. lia. }
  rewrite E1.
  assert (E2 : Z.quot (i * prodZ ns + hv ns is') (prodZ ns) = i).
  { rewrite Z.quot_div_nonneg by nia. rewrite Z.add_comm, Z.div_add by lia. rewrite Z.div_small by lia. lia. }
  rewrite E2. f_equal.
  replace (i * prodZ ns + hv ns is' - i * prodZ ns) with (hv ns is') by ring.
  exact (IH Hp').
Qed.

Lemma r2i_rev_spec nr r : allpos nr -> 0 <= r < prodZ nr ->
  inrange nr (r2i_rev nr (prodZ nr) r) /\ hv nr (r2i_rev nr (prodZ nr) r) = r.
Proof.
  intros Hp. revert r. induction Hp as [|n ns Hn Hp IH]; intros r Hr; simpl in *.
  - split; [constructor|lia].
  - assert (HP : 0 < prodZ ns) by (apply prodZ_pos; assumption).
    assert (E1 : Z.quot (n * prodZ ns) n = prodZ ns) by (rewrite Z.mul_comm; apply Z.quot_mul; lia).
    rewrite E1.
    rewrite Z.quot_div_nonneg by lia.
    set (q := r / prodZ ns).
    assert (Hq : r = prodZ ns * q + r mod prodZ ns) by (apply Z.div_mod; lia).
    assert (Hm : 0 <= r mod prodZ ns < prodZ ns) by (apply Z.mod_pos_bound; lia).
    assert (Hq0 : 0 <= q < n).
    { split; [apply Z.div_pos; lia|]. apply Z.div_lt_upper_bound; [lia|]. nia. }
    replace (r - q * prodZ ns) with (r mod prodZ ns) by lia.
    destruct (IH (r mod prodZ ns) Hm) as [I1 I2].
    split; [constructor; assumption|]. rewrite I2. lia.
Qed.

Lemma inrange_length nx ind : inrange nx ind -> length nx = length ind.
Proof. induction 1; simpl; congruence. Qed.
Lemma Forall2_rev' {A B} (R : A -> B -> Prop) a b : Forall2 R a b -> Forall2 R (rev a) (rev b).
Proof. induction 1; simpl; [constructor|apply Forall2_app; [assumption|constructor; [assumption|constructor]]]. Qed.
Lemma inrange_rev nx ind : inrange nx ind -> inrange (rev nx) (rev ind).
Proof. unfold inrange. apply Forall2_rev'. Qed.
Lemma allpos_rev l : allpos l -> allpos (rev l).
Proof. unfold allpos. apply Forall_rev. Qed.

(* ---- the two round trips on the functions as the code defines them *)
Lemma rank_idx_rank nx r : allpos nx -> 0 <= r < prodZ nx ->
  inrange nx (rankToIndice nx r false) /\ indiceToRank nx (rankToIndice nx r false) = r.
Proof.
  intros Hp Hr. unfold rankToIndice, indiceToRank.
  rewrite <- (prodZ_rev nx) in *.
  destruct (r2i_rev_spec (rev nx) r (allpos_rev _ Hp) Hr) as [I1 I2].
  split.
  - rewrite <- (rev_involutive nx) at 1. apply inrange_rev. exact I1.
  - rewrite rev_involutive. rewrite i2r_rev_hv by exact I1. rewrite I2. ring.
Qed.

Lemma idx_rank_idx nx ind : allpos nx -> inrange nx ind ->
  0 <= indiceToRank nx ind < prodZ nx /\ rankToIndice nx (indiceToRank nx ind) false = ind.
Proof.
  intros Hp Hr. unfold rankToIndice, indiceToRank.
  pose proof (inrange_rev _ _ Hr) as Hr'. pose proof (allpos_rev _ Hp) as Hp'.
  rewrite i2r_rev_hv by exact Hr'. simpl.
  split.
  - rewrite <- (prodZ_rev nx). apply hv_bound; assumption.
  - rewrite <- (prodZ_rev nx). rewrite r2i_rev_hv by assumption. apply rev_involutive.
Qed.

Lemma indiceToRank_out nx ind : length nx = length ind -> ~ inrange nx ind -> indiceToRank nx ind = -1.
Proof.
  intros Hl Hn. unfold indiceToRank. apply i2r_rev_out; [rewrite !rev_length; exact Hl|].
  intro H. apply Hn. rewrite <- (rev_involutive nx), <- (rev_involutive ind). apply inrange_rev. exact H.
Qed.

(* ---- the convention: the first index varies fastest *)
Lemma rank_of_snoc a b n i : length a = length b -> rank_of (a ++ [n]) (b ++ [i]) = rank_of a b + prodZ a * i.
Proof.
  revert b. induction a as [|x a IH]; intros [|y b] Hl; try discriminate.
  - cbn [app rank_of prodZ fold_right]. ring.
  - cbn [app rank_of prodZ fold_right]. fold (prodZ a). rewrite IH by (simpl in Hl; lia). ring.
Qed.
Lemma hv_rank_of nr ir : length nr = length ir -> hv nr ir = rank_of (rev nr) (rev ir).
Proof.
  revert ir. induction nr as [|n ns IH]; intros [|i is'] Hl; simpl in *; try discriminate; [reflexivity|].
  rewrite rank_of_snoc by (rewrite !rev_length; lia). rewrite prodZ_rev. rewrite IH by lia. ring.
Qed.
Lemma indiceToRank_formula nx ind : inrange nx ind -> indiceToRank nx ind = rank_of nx ind.
Proof.
  intros Hr. unfold indiceToRank. rewrite i2r_rev_hv by (apply inrange_rev; exact Hr).
  rewrite hv_rank_of by (rewrite !rev_length; apply inrange_length; exact Hr).
  rewrite !rev_involutive. ring.
Qed.

(* C16 proofs: generateMirrorIndex, iterator *)
From Coq Require Import List ZArith Bool Lia Permutation.
From Coq Require Import QArith.
From Gst Require Import lib.QAux C16.Model C16.Spec C16.Proofs_rank.
Import ListNotations.
Local Open Scope Z_scope.

(* ---------------------------------------------------------------- generateMirrorIndex *)
Lemma mirror_nx1_diverges : forall fuel ix, ix <> 0 -> mirror_fuel fuel 1 ix = None.
Proof.
  induction fuel as [|f IH]; intros ix H; simpl.
  - destruct (ix <? 0) eqn:E1; destruct (1 <=? ix) eqn:E2; simpl; try reflexivity.
    apply Z.ltb_ge in E1. apply Z.leb_gt in E2. lia.
  - destruct (ix <? 0) eqn:E1; simpl.
    + apply IH. apply Z.ltb_lt in E1. lia.
    + destruct (1 <=? ix) eqn:E2; simpl.
      * apply Z.leb_le in E2. replace (0 <? ix) with true by (symmetry; apply Z.ltb_lt; lia).
        apply IH. lia.
      * apply Z.ltb_ge in E1. apply Z.leb_gt in E2. lia.
Qed.

Lemma reflect_inrange nx ix : 2 <= nx -> 0 <= ix < nx -> reflect nx ix = ix.
Proof.
  intros Hn Hi. unfold reflect. rewrite Z.mod_small by lia.
  replace (ix <? nx) with true by (symmetry; apply Z.ltb_lt; lia). reflexivity.
Qed.
Lemma reflect_range nx ix : 2 <= nx -> 0 <= reflect nx ix < nx.
Proof.
  intros Hn. unfold reflect. pose proof (Z.mod_pos_bound ix (2 * (nx - 1)) ltac:(lia)) as Hm.
  destruct (Z.ltb_spec (ix mod (2 * (nx - 1))) nx); lia.
Qed.
Lemma reflect_neg nx ix : 2 <= nx -> reflect nx (- ix) = reflect nx ix.
Proof.
  intros Hn. unfold reflect. set (p := 2 * (nx - 1)). assert (Hp : 0 < p) by (unfold p; lia).
  pose proof (Z.mod_pos_bound ix p Hp) as Hm.
  destruct (Z.eq_dec (ix mod p) 0) as [E|E].
  - rewrite (Z.mod_opp_l_z ix p) by lia. rewrite E. reflexivity.
  - rewrite (Z.mod_opp_l_nz ix p) by lia.
    destruct (Z.ltb_spec (p - ix mod p) nx); destruct (Z.ltb_spec (ix mod p) nx); unfold p in *; lia.
Qed.
Lemma reflect_shift nx ix : 2 <= nx -> reflect nx (2 * (nx - 1) - ix) = reflect nx ix.
Proof.
  intros Hn. rewrite <- (reflect_neg nx ix Hn). unfold reflect.
  replace (2 * (nx - 1) - ix) with (- ix + 1 * (2 * (nx - 1))) by ring.
  rewrite Z.mod_add by lia. reflexivity.
Qed.

Definition mmeasure (ix : Z) : Z := 2 * Z.abs ix + (if ix <? 0 then 1 else 0).

Lemma mirror_fuel_S f nx ix : mirror_fuel (S f) nx ix =
  if (ix <? 0) || (nx <=? ix)
  then mirror_fuel f nx (if ix <? 0 then - ix else if nx - 1 <? ix then 2 * (nx - 1) - ix else ix)
  else Some ix.
Proof. reflexivity. Qed.

Lemma mirror_terminates nx : 2 <= nx -> forall fuel ix, mmeasure ix < Z.of_nat fuel ->
  mirror_fuel fuel nx ix = Some (reflect nx ix).
Proof.
  intros Hn. induction fuel as [|f IH]; intros ix Hm.
  - exfalso. unfold mmeasure in Hm. change (Z.of_nat 0) with 0 in Hm. destruct (ix <? 0); lia.
  - rewrite mirror_fuel_S. rewrite Nat2Z.inj_succ in Hm.
    destruct (Z.ltb_spec ix 0) as [Hneg|Hpos]; cbn [orb].
    + rewrite IH; [rewrite reflect_neg by exact Hn; reflexivity|].
      unfold mmeasure in *. replace (ix <? 0) with true in Hm by (symmetry; apply Z.ltb_lt; lia).
      replace (- ix <? 0) with false by (symmetry; apply Z.ltb_ge; lia). lia.
    + destruct (Z.leb_spec nx ix) as [Hbig|Hin].
      * replace (nx - 1 <? ix) with true by (symmetry; apply Z.ltb_lt; lia).
        rewrite IH; [rewrite reflect_shift by exact Hn; reflexivity|].
        unfold mmeasure in *. replace (ix <? 0) with false in Hm by (symmetry; apply Z.ltb_ge; lia).
        destruct (Z.ltb_spec (2 * (nx - 1) - ix) 0); lia.
      * rewrite reflect_inrange by lia. reflexivity.
Qed.

Lemma mirror_ok nx ix : 2 <= nx ->
  mirror_fuel (Z.to_nat (2 * Z.abs ix + 2)) nx ix = Some (reflect nx ix) /\ 0 <= reflect nx ix < nx.
Proof.
  intros Hn. split; [|apply reflect_range; exact Hn].
  apply mirror_terminates; [exact Hn|]. rewrite Z2Nat.id by lia. unfold mmeasure. destruct (ix <? 0); lia.
Qed.
(* more fuel never changes an answer *)
Lemma mirror_fuel_mono nx ix : forall f v, mirror_fuel f nx ix = Some v -> mirror_fuel (S f) nx ix = Some v.
Proof.
  intros f. revert ix. induction f as [|f IH]; intros ix v H.
  - rewrite mirror_fuel_S. simpl in H. destruct ((ix <? 0) || (nx <=? ix)); [discriminate|exact H].
  - rewrite mirror_fuel_S. rewrite mirror_fuel_S in H. destruct ((ix <? 0) || (nx <=? ix)); [apply IH; exact H|exact H].
Qed.

(* Grid::generateMirrorIndex as a whole: total for every nx >= 1 *)
Lemma mirror_index_ok nx ix : 1 <= nx ->
  exists v, mirror_index (Z.to_nat (2 * Z.abs ix + 2)) nx ix = Some v /\ 0 <= v < nx /\
            (2 <= nx -> v = reflect nx ix) /\ (0 <= ix < nx -> v = ix).
Proof.
  intros Hn. unfold mirror_index. destruct (Z.leb_spec nx 1) as [H1|H1].
  - exists 0. repeat split; lia.
  - destruct (mirror_ok nx ix ltac:(lia)) as [E R]. exists (reflect nx ix).
    repeat split; try assumption; try lia. intros Hi. apply reflect_inrange; lia.
Qed.

(* ---------------------------------------------------------------- iterator (default order) *)
Lemma iter_next_fst nx it : fst (iter_next nx it) = rankToIndice nx it false.
Proof. reflexivity. Qed.

Lemma iter_run_nth nx : forall k it j, 0 <= it < prodZ nx -> (j < k)%nat ->
  nth j (iter_run nx k it) [] = rankToIndice nx (Z.min (it + Z.of_nat j) (prodZ nx - 1)) false.
Proof.
  induction k as [|k IH]; intros it j Hit Hj; [lia|].
  simpl. destruct j as [|j].
  - rewrite Z.add_0_r. rewrite Z.min_l by lia. reflexivity.
  - destruct (Z.ltb_spec it (prodZ nx - 1)) as [Hlt|Hge].
    + rewrite IH by lia. f_equal. f_equal. lia.
    + rewrite IH by lia. f_equal. rewrite !Z.min_r by lia. reflexivity.
Qed.

(* ---------------------------------------------------------------- iterator with a user-supplied order *)
Definition od (o : Z) : nat := Z.to_nat (Z.abs o - 1).
Lemma odim_some o : 1 <= Z.abs o -> odim o = Some (od o).
Proof. intros H. unfold odim, od. destruct (Z.ltb_spec (Z.abs o - 1) 0); [lia|reflexivity]. Qed.

Lemma upd_spec : forall l k v, (k < length l)%nat ->
  exists l', upd l k v = Some l' /\ length l' = length l /\ nth k l' 0 = v /\ (forall p, p <> k -> nth p l' 0 = nth p l 0).
Proof.
  induction l as [|x l IH]; intros k v Hk; simpl in Hk; [lia|].
  destruct k as [|k].
  - exists (v :: l). split; [reflexivity|]. split; [reflexivity|]. split; [reflexivity|].
    intros [|p] Hp; [congruence|reflexivity].
  - destruct (IH k v ltac:(lia)) as [l' [E [L [N U]]]]. exists (x :: l'). cbn [upd]. rewrite E.
    split; [reflexivity|]. split; [cbn [length]; congruence|]. split; [exact N|].
    intros [|p] Hp; [reflexivity|]. cbn [nth]. apply U. congruence.
Qed.

Lemma iter_loop_spec counts : forall ord nval iech acc,
  length acc = length counts ->
  Forall (fun o => 1 <= Z.abs o /\ (od o < length counts)%nat) ord ->
  NoDup (map od ord) ->
  exists acc', iter_order_loop counts ord nval iech acc = Some acc' /\ length acc' = length acc /\
     map (fun o => nth (od o) acc' 0) ord = r2i_rev (map (fun o => nth (od o) counts 0) ord) nval iech /\
     (forall p, ~ In p (map od ord) -> nth p acc' 0 = nth p acc 0).
Proof.
  induction ord as [|o rest IH]; intros nval iech acc Hl Hf Hnd.
  - exists acc. repeat split.
  - inversion Hf as [|? ? [Ho Hb] Hf']; subst. inversion Hnd as [|? ? Hnotin Hnd']; subst.
    cbn [iter_order_loop]. rewrite (odim_some o Ho).
    rewrite (nth_error_nth' counts 0 Hb).
    set (c := nth (od o) counts 0). set (nval' := Z.quot nval c). set (dv := Z.quot iech nval').
    destruct (upd_spec acc (od o) dv ltac:(lia)) as [acc1 [E1 [L1 [N1 U1]]]]. rewrite E1.
    destruct (IH nval' (iech - dv * nval') acc1 ltac:(congruence) Hf' Hnd') as [acc' [E [L [M U]]]].
    exists acc'. split; [exact E|]. split; [congruence|]. split.
    + cbn [map r2i_rev]. fold c. fold nval'. fold dv. f_equal; [|exact M].
      rewrite (U (od o) Hnotin). exact N1.
    + intros p Hp. cbn [map] in Hp. rewrite (U p) by (intro Hin; apply Hp; right; exact Hin).
      apply U1. intro Heq. apply Hp. left. congruence.
Qed.

Lemma prodZ_perm l l' : Permutation l l' -> prodZ l = prodZ l'.
Proof.
  induction 1 as [|x l l' H IH|x y l|l l' l'' H1 IH1 H2 IH2]; cbn [prodZ fold_right].
  - reflexivity.
  - fold (prodZ l). fold (prodZ l'). rewrite IH. reflexivity.
  - ring.
  - unfold prodZ in *. congruence.
Qed.
Lemma map_nth_seq (l : list Z) : map (fun p => nth p l 0) (seq 0 (length l)) = l.
Proof.
  induction l as [|a l IH]; [reflexivity|].
  cbn [length]. rewrite <- cons_seq. rewrite <- seq_shift. cbn [map]. rewrite map_map. cbn [nth]. rewrite IH. reflexivity.
Qed.

(* a valid user order = a (signed, 1-based) permutation of the space dimensions.
   One call of iteratorNext writes, read along the order from the slowest to the fastest dimension,
   the mixed-radix digits of the iteration number for the permuted counts: in range, and they determine it. *)
Lemma iter_order_spec nx order it :
  Forall (fun o => 1 <= Z.abs o) order -> Permutation (map od order) (seq 0 (length nx)) ->
  allpos nx -> 0 <= it < prodZ nx ->
  exists idx, iter_next_order nx order it = Some idx /\ length idx = length nx /\
    let nr := map (fun o => nth (od o) nx 0) (rev order) in
    let digits := map (fun o => nth (od o) idx 0) (rev order) in
    inrange nr digits /\ hv nr digits = it.
Proof.
  intros Hone Hperm Hpos Hit. unfold iter_next_order.
  assert (Hperm' : Permutation (map od (rev order)) (seq 0 (length nx))).
  { rewrite map_rev. eapply Permutation_trans; [apply Permutation_sym; apply Permutation_rev|exact Hperm]. }
  assert (Hf : Forall (fun o => 1 <= Z.abs o /\ (od o < length nx)%nat) (rev order)).
  { apply Forall_forall. intros o Hin. apply in_rev in Hin. split.
    - rewrite Forall_forall in Hone. apply Hone. exact Hin.
    - assert (In (od o) (seq 0 (length nx))) by (eapply Permutation_in; [exact Hperm|apply in_map; exact Hin]).
      apply in_seq in H. lia. }
  assert (Hnd : NoDup (map od (rev order))).
  { eapply Permutation_NoDup; [apply Permutation_sym; exact Hperm'|apply seq_NoDup]. }
  destruct (iter_loop_spec nx (rev order) (prodZ nx) it (map (fun _ => 0) nx) ltac:(apply map_length) Hf Hnd)
    as [idx [E [L [M _]]]].
  exists idx. split; [exact E|]. split; [rewrite L; apply map_length|].
  cbv zeta. rewrite M.
  set (nr := map (fun o => nth (od o) nx 0) (rev order)).
  assert (Pnr : Permutation nr nx).
  { unfold nr. rewrite <- (map_map od (fun p => nth p nx 0)).
    eapply Permutation_trans; [apply Permutation_map; exact Hperm'|]. rewrite map_nth_seq. apply Permutation_refl. }
  assert (Epr : prodZ nx = prodZ nr) by (symmetry; apply prodZ_perm; exact Pnr).
  assert (Hposr : allpos nr) by (unfold allpos; eapply Permutation_Forall; [apply Permutation_sym; exact Pnr|exact Hpos]).
  rewrite Epr in *. apply r2i_rev_spec; assumption.
Qed.

(* hence two different iteration numbers never give the same node *)
Lemma iter_order_injective nx order it1 it2 idx :
  Forall (fun o => 1 <= Z.abs o) order -> Permutation (map od order) (seq 0 (length nx)) ->
  allpos nx -> 0 <= it1 < prodZ nx -> 0 <= it2 < prodZ nx ->
  iter_next_order nx order it1 = Some idx -> iter_next_order nx order it2 = Some idx -> it1 = it2.
Proof.
  intros H1 HP Hpos Hi1 Hi2 E1 E2.
  destruct (iter_order_spec nx order it1 H1 HP Hpos Hi1) as [i1 [F1 [_ [_ V1]]]].
  destruct (iter_order_spec nx order it2 H1 HP Hpos Hi2) as [i2 [F2 [_ [_ V2]]]].
  rewrite E1 in F1. rewrite E2 in F2. inversion F1; inversion F2; subst. congruence.
Qed.

(* the default order 1..ndim is such a permutation *)
Lemma default_order_perm n : Forall (fun o => 1 <= Z.abs o) (default_order n) /\ map od (default_order n) = seq 0 n.
Proof.
  unfold default_order. split.
  - apply Forall_forall. intros o Hin. apply in_map_iff in Hin. destruct Hin as [i [<- _]]. lia.
  - rewrite map_map. rewrite <- (map_id (seq 0 n)) at 2. apply map_ext. intros i. unfold od. lia.
Qed.

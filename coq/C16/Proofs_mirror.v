(* C16 proofs: generateMirrorIndex, iterator *)
From Coq Require Import List ZArith Bool Lia.
From Coq Require Import QArith.
From Gst Require Import lib.QAux C16.Model C16.Spec C16.Proofs_rank.
Import ListNotations.
Local Open Scope Z_scope.

(* ---------------------------------------------------------------- generateMirrorIndex *)
Lemma mirror_nx1_diverges : forall fuel ix, ix <> 0 -> mirror_fuel fuel 1 ix = None.
Proof.
  induction fuel as [|f IH]; intros ix H; simpl.
  - destruct (ix <? 0) eqn:E1; destruct (1 <=? ix) eqn:E2; simpl; try reflexivity.
    apply Z.ltb_ge in E1. apply Z.leb_gt in E2. lia.
  - destruct (ix <? 0) eqn:E1; simpl.
    + apply IH. apply Z.ltb_lt in E1. lia.
    + destruct (1 <=? ix) eqn:E2; simpl.
      * apply Z.leb_le in E2. replace (0 <? ix) with true by (symmetry; apply Z.ltb_lt; lia).
        apply IH. lia.
      * apply Z.ltb_ge in E1. apply Z.leb_gt in E2. lia.
Qed.

Lemma reflect_inrange nx ix : 2 <= nx -> 0 <= ix < nx -> reflect nx ix = ix.
Proof.
  intros Hn Hi. unfold reflect. rewrite Z.mod_small by lia.
  replace (ix <? nx) with true by (symmetry; apply Z.ltb_lt; lia). reflexivity.
Qed.
Lemma reflect_range nx ix : 2 <= nx -> 0 <= reflect nx ix < nx.
Proof.
  intros Hn. unfold reflect. pose proof (Z.mod_pos_bound ix (2 * (nx - 1)) ltac:(lia)) as Hm.
  destruct (Z.ltb_spec (ix mod (2 * (nx - 1))) nx); lia.
Qed.
Lemma reflect_neg nx ix : 2 <= nx -> reflect nx (- ix) = reflect nx ix.
Proof.
  intros Hn. unfold reflect. set (p := 2 * (nx - 1)). assert (Hp : 0 < p) by (unfold p; lia).
  pose proof (Z.mod_pos_bound ix p Hp) as Hm.
  destruct (Z.eq_dec (ix mod p) 0) as [E|E].
  - rewrite (Z.mod_opp_l_z ix p) by lia. rewrite E. reflexivity.
  - rewrite (Z.mod_opp_l_nz ix p) by lia.
    destruct (Z.ltb_spec (p - ix mod p) nx); destruct (Z.ltb_spec (ix mod p) nx); unfold p in *; lia.
Qed.
Lemma reflect_shift nx ix : 2 <= nx -> reflect nx (2 * (nx - 1) - ix) = reflect nx ix.
Proof.
  intros Hn. rewrite <- (reflect_neg nx ix Hn). unfold reflect.
  replace (2 * (nx - 1) - ix) with (- ix + 1 * (2 * (nx - 1))) by ring.
  rewrite Z.mod_add by lia. reflexivity.
Qed.

Definition mmeasure (ix : Z) : Z := 2 * Z.abs ix + (if ix <? 0 then 1 else 0).

Lemma mirror_fuel_S f nx ix : mirror_fuel (S f) nx ix =
  if (ix <? 0) || (nx <=? ix)
  then mirror_fuel f nx (if ix <? 0 then - ix else if nx - 1 <? ix then 2 * (nx - 1) - ix else ix)
  else Some ix.
Proof. reflexivity. Qed.

Lemma mirror_terminates nx : 2 <= nx -> forall fuel ix, mmeasure ix < Z.of_nat fuel ->
  mirror_fuel fuel nx ix = Some (reflect nx ix).
Proof.
  intros Hn. induction fuel as [|f IH]; intros ix Hm.
  - exfalso. unfold mmeasure in Hm. change (Z.of_nat 0) with 0 in Hm. destruct (ix <? 0); lia.
  - rewrite mirror_fuel_S. rewrite Nat2Z.inj_succ in Hm.
    destruct (Z.ltb_spec ix 0) as [Hneg|Hpos]; cbn [orb].
    + rewrite IH; [rewrite reflect_neg by exact Hn; reflexivity|].
      unfold mmeasure in *. replace (ix <? 0) with true in Hm by (symmetry; apply Z.ltb_lt; lia).
      replace (- ix <? 0) with false by (symmetry; apply Z.ltb_ge; lia). lia.
    + destruct (Z.leb_spec nx ix) as [Hbig|Hin].
      * replace (nx - 1 <? ix) with true by (symmetry; apply Z.ltb_lt; lia).
        rewrite IH; [rewrite reflect_shift by exact Hn; reflexivity|].
        unfold mmeasure in *. replace (ix <? 0) with false in Hm by (symmetry; apply Z.ltb_ge; lia).
        destruct (Z.ltb_spec (2 * (nx - 1) - ix) 0); lia.
      * rewrite reflect_inrange by lia. reflexivity.
Qed.

Lemma mirror_ok nx ix : 2 <= nx ->
  mirror_fuel (Z.to_nat (2 * Z.abs ix + 2)) nx ix = Some (reflect nx ix) /\ 0 <= reflect nx ix < nx.
Proof.
  intros Hn. split; [|apply reflect_range; exact Hn].
  apply mirror_terminates; [exact Hn|]. rewrite Z2Nat.id by lia. unfold mmeasure. destruct (ix <? 0); lia.
Qed.
(* more fuel never changes an answer *)
Lemma mirror_fuel_mono nx ix : forall f v, mirror_fuel f nx ix = Some v -> mirror_fuel (S f) nx ix = Some v.
Proof.
  intros f. revert ix. induction f as [|f IH]; intros ix v H.
  - rewrite mirror_fuel_S. simpl in H. destruct ((ix <? 0) || (nx <=? ix)); [discriminate|exact H].
  - rewrite mirror_fuel_S. rewrite mirror_fuel_S in H. destruct ((ix <? 0) || (nx <=? ix)); [apply IH; exact H|exact H].
Qed.

(* ---------------------------------------------------------------- iterator (default order) *)
Lemma iter_next_fst nx it : fst (iter_next nx it) = rankToIndice nx it false.
Proof. reflexivity. Qed.

Lemma iter_run_nth nx : forall k it j, 0 <= it < prodZ nx -> (j < k)%nat ->
  nth j (iter_run nx k it) [] = rankToIndice nx (Z.min (it + Z.of_nat j) (prodZ nx - 1)) false.
Proof.
  induction k as [|k IH]; intros it j Hit Hj; [lia|].
  simpl. destruct j as [|j].
  - rewrite Z.add_0_r. rewrite Z.min_l by lia. reflexivity.
  - destruct (Z.ltb_spec it (prodZ nx - 1)) as [Hlt|Hge].
    + rewrite IH by lia. f_equal. f_equal. lia.
    + rewrite IH by lia. f_equal. rewrite !Z.min_r by lia. reflexivity.
Qed.

(* ---------------------------------------------------------------- iterator with a user-supplied order *)
Lemma iter_order_loop_oob counts : forall ord nval iech acc,
  (exists o, In o ord /\ (length counts <= Z.to_nat (Z.abs o))%nat) ->
  iter_order_loop counts ord nval iech acc = None.
Proof.
  induction ord as [|o rest IH]; intros nval iech acc [o' [Hin Hlen]]; [destruct Hin|].
  cbn [iter_order_loop].
  destruct (nth_error counts (Z.to_nat (Z.abs o))) as [c|] eqn:E; [|reflexivity].
  destruct (upd acc (Z.to_nat (Z.abs o)) (Z.quot iech (Z.quot nval c))) as [acc'|]; [|reflexivity].
  apply IH. destruct Hin as [->|Hin].
  - exfalso. apply nth_error_None in Hlen. congruence.
  - exists o'. split; assumption.
Qed.

(* every order that iteratorInit accepts (each space dimension present, 1-based) makes iteratorNext
   index its arrays beyond their end *)
Lemma iter_order_refuted nx order it : (0 < length nx)%nat ->
  iter_order_valid (length nx) order = true -> iter_next_order nx order it = None.
Proof.
  intros Hn Hv. unfold iter_next_order. apply iter_order_loop_oob.
  unfold iter_order_valid in Hv. rewrite forallb_forall in Hv.
  specialize (Hv (length nx - 1)%nat). rewrite existsb_exists in Hv.
  destruct Hv as [o [Hin Ho]]; [apply in_seq; lia|].
  apply Z.eqb_eq in Ho. exists o. split; [apply in_rev in Hin; exact Hin|]. lia.
Qed.

(* C16 proofs: derived grids (multiple, divider, dilate, sub-grid) *)
From Coq Require Import List ZArith QArith Qround Qabs Bool Lia Lqa Setoid Morphisms.
From Gst Require Import lib.QAux C16.Model C16.Spec C16.Proofs_rank C16.Proofs_lin C16.Proofs_coord.
Import ListNotations.
Local Open Scope Q_scope.

Lemma map_nth' {A B} (f : A -> B) l d d' k : (k < length l)%nat -> nth k (map f l) d' = f (nth k l d).
Proof. intros H. rewrite (nth_indep _ d' (f d)) by (rewrite map_length; exact H). apply map_nth. Qed.

Definition unrotated (g : grid) : Prop := r_flag (g_rot g) = false.
Definition wflen (n : nat) (g : grid) : Prop :=
  length (g_nx g) = n /\ length (g_x0 g) = n /\ length (g_dx g) = n.

Lemma pz_length (ind : list Z) pc n : length ind = n -> (pc = [] \/ length pc = n) ->
  length (match pc with [] => map (fun _ => 0) ind | _ => pc end) = n.
Proof. intros Hi [->|Hp]; [rewrite map_length; exact Hi|]. destruct pc; [simpl in *; subst; destruct ind; [reflexivity|discriminate]|exact Hp]. Qed.
Lemma pz_nth (ind : list Z) pc n k : length ind = n -> (pc = [] \/ length pc = n) -> (k < n)%nat ->
  nth k (match pc with [] => map (fun _ => 0) ind | _ => pc end) 0 = nth k pc 0.
Proof.
  intros Hi [->|Hp] Hk.
  - rewrite (map_nth' (fun _ => 0) ind 0%Z) by lia. destruct k; reflexivity.
  - destruct pc; [simpl in Hp; lia|reflexivity].
Qed.

Lemma i2c_length_unrot n g ind pc : unrotated g -> wflen n g -> length ind = n -> (pc = [] \/ length pc = n) ->
  length (i2c g ind pc true) = n.
Proof.
  intros Hu (Hnx & Hx0 & Hdx) Hi Hp. unfold i2c, rotate_direct, scaled, vadd. rewrite Hu.
  pose proof (pz_length ind pc n Hi Hp) as Hz.
  rewrite map2_length; rewrite map2_length; try rewrite map2_length; congruence.
Qed.
(* component k of a position of the unrotated grid *)
Lemma i2c_nth_unrot n g ind pc k : unrotated g -> wflen n g -> length ind = n -> (pc = [] \/ length pc = n) -> (k < n)%nat ->
  nth k (i2c g ind pc true) 0 = (inject_Z (nth k ind 0%Z) + nth k pc 0) * nth k (g_dx g) 0 + nth k (g_x0 g) 0.
Proof.
  intros Hu (Hnx & Hx0 & Hdx) Hi Hp Hk. unfold i2c, rotate_direct, scaled, vadd. rewrite Hu.
  pose proof (pz_length ind pc n Hi Hp) as Hz.
  rewrite (map2_nth Qplus _ _ 0 0 0) by (rewrite map2_length; rewrite map2_length; congruence).
  rewrite (map2_nth Qmult _ _ 0 0 0) by (rewrite map2_length; congruence).
  rewrite (map2_nth (fun i p => inject_Z i + p) _ _ 0%Z 0 0) by congruence.
  rewrite (pz_nth ind pc n k) by assumption. reflexivity.
Qed.

Lemma zerosZ_length g : length (zerosZ g) = length (g_nx g).
Proof. apply map_length. Qed.
Lemma constQ_length g q : length (constQ g q) = length (g_nx g).
Proof. apply map_length. Qed.
Lemma zerosZ_nth g k : nth k (zerosZ g) 0%Z = 0%Z.
Proof.
  unfold zerosZ. destruct (Nat.lt_ge_cases k (length (g_nx g))) as [H|H].
  - apply (map_nth' (fun _ => 0%Z) (g_nx g) 0%Z). exact H.
  - apply nth_overflow. rewrite map_length. exact H.
Qed.
Lemma constQ_nth g q k : (k < length (g_nx g))%nat -> nth k (constQ g q) 0 = q.
Proof. intros H. unfold constQ. apply (map_nth' (fun _ => q) (g_nx g) 0%Z). exact H. Qed.

(* ---- Grid::multiple / Grid::divider, unrotated: the origin is where the documented meaning puts it *)
Lemma multiple_x0_unrot n g nmult fc : unrotated g -> wflen n g -> length nmult = n ->
  eqlQ (snd (multiple g nmult fc)) (spec_multiple_x0 g nmult fc).
Proof.
  intros Hu Hw Hm. pose proof Hw as (Hnx & Hx0 & Hdx).
  unfold multiple, spec_multiple_x0, frac_node, node. simpl. destruct fc; [|].
  2:{ assert (L0' : length (zerosZ g) = n) by (rewrite zerosZ_length; exact Hnx).
      assert (Le : (@nil Q) = [] \/ length (@nil Q) = n) by (left; reflexivity).
      apply (eqlQ_nth n); [exact Hx0|apply (i2c_length_unrot n); assumption|].
      intros k Hk. rewrite (i2c_nth_unrot n) by assumption.
      rewrite zerosZ_nth. replace (nth k (@nil Q) 0) with 0 by (destruct k; reflexivity). ring. }
  assert (L0 : length (zerosZ g) = n) by (rewrite zerosZ_length; exact Hnx).
  assert (Lc : forall q, constQ g q = [] \/ length (constQ g q) = n) by (intros q; right; rewrite constQ_length; exact Hnx).
  assert (L1 : forall q, length (i2c g (zerosZ g) (constQ g q) true) = n) by (intros q; apply (i2c_length_unrot n); auto).
  assert (Ls : length (map (fun m : Z => (inject_Z m - 1) / 2) nmult) = n) by (rewrite map_length; exact Hm).
  apply (eqlQ_nth n).
  - unfold vadd, vsub. rewrite map2_length; [apply L1|]. rewrite L1. rewrite map2_length; rewrite map_length; rewrite map2_length; rewrite ?L1; congruence.
  - apply (i2c_length_unrot n); auto.
  - intros k Hk. unfold vadd, vsub.
    rewrite (map2_nth Qplus _ _ 0 0 0) by (rewrite ?L1; try lia; rewrite map2_length; rewrite map_length; rewrite map2_length; rewrite ?L1; congruence).
    rewrite (map2_nth (fun d m => d * inject_Z m) _ _ 0 0%Z 0) by (rewrite map_length; rewrite map2_length; rewrite ?L1; congruence).
    rewrite (map_nth' (fun v => v / 2) _ 0) by (rewrite map2_length; rewrite ?L1; congruence).
    rewrite (map2_nth Qminus _ _ 0 0 0) by (rewrite ?L1; congruence).
    rewrite !(i2c_nth_unrot n) by auto.
    rewrite zerosZ_nth. rewrite !constQ_nth by lia.
    rewrite (map_nth' (fun m : Z => (inject_Z m - 1) / 2) nmult 0%Z) by lia.
    field.
Qed.

Lemma divider_x0_unrot n g nmult fc : unrotated g -> wflen n g -> length nmult = n ->
  Forall (fun m => (0 < m)%Z) nmult ->
  eqlQ (snd (divider g nmult fc)) (spec_divider_x0 g nmult fc).
Proof.
  intros Hu Hw Hm Hpos. pose proof Hw as (Hnx & Hx0 & Hdx).
  unfold divider, spec_divider_x0, frac_node, node. simpl. destruct fc; [|].
  2:{ assert (L0' : length (zerosZ g) = n) by (rewrite zerosZ_length; exact Hnx).
      assert (Le : (@nil Q) = [] \/ length (@nil Q) = n) by (left; reflexivity).
      apply (eqlQ_nth n); [exact Hx0|apply (i2c_length_unrot n); assumption|].
      intros k Hk. rewrite (i2c_nth_unrot n) by assumption.
      rewrite zerosZ_nth. replace (nth k (@nil Q) 0) with 0 by (destruct k; reflexivity). ring. }
  assert (L0 : length (zerosZ g) = n) by (rewrite zerosZ_length; exact Hnx).
  assert (Lc : forall q, constQ g q = [] \/ length (constQ g q) = n) by (intros q; right; rewrite constQ_length; exact Hnx).
  assert (L1 : forall q, length (i2c g (zerosZ g) (constQ g q) true) = n) by (intros q; apply (i2c_length_unrot n); auto).
  assert (Ls : length (map (fun m : Z => - (1 # 2) + 1 / (2 * inject_Z m)) nmult) = n) by (rewrite map_length; exact Hm).
  apply (eqlQ_nth n).
  - unfold vadd, vsub. rewrite map2_length; [apply L1|]. rewrite L1. rewrite map2_length; rewrite map_length; rewrite map2_length; rewrite ?L1; congruence.
  - apply (i2c_length_unrot n); auto.
  - intros k Hk. unfold vadd, vsub.
    rewrite (map2_nth Qplus _ _ 0 0 0) by (rewrite ?L1; try lia; rewrite map2_length; rewrite map_length; rewrite map2_length; rewrite ?L1; congruence).
    rewrite (map2_nth (fun d m => d / inject_Z m) _ _ 0 0%Z 0) by (rewrite map_length; rewrite map2_length; rewrite ?L1; congruence).
    rewrite (map_nth' (fun v => v / 2) _ 0) by (rewrite map2_length; rewrite ?L1; congruence).
    rewrite (map2_nth Qminus _ _ 0 0 0) by (rewrite ?L1; congruence).
    rewrite !(i2c_nth_unrot n) by auto.
    rewrite zerosZ_nth. rewrite !constQ_nth by lia.
    rewrite (map_nth' (fun m : Z => - (1 # 2) + 1 / (2 * inject_Z m)) nmult 0%Z) by lia.
    assert (Hmk : (0 < nth k nmult 0)%Z) by (rewrite Forall_forall in Hpos; apply Hpos; apply nth_In; lia).
    assert (Hq : 0 < inject_Z (nth k nmult 0%Z)) by (change 0 with (inject_Z 0); rewrite <- Zlt_Qlt; exact Hmk).
    field. lra.
Qed.

(* counts and meshes *)
Lemma multiple_dx g nmult fc : snd (fst (multiple g nmult fc)) = map2 (fun d m => d * inject_Z m) (g_dx g) nmult.
Proof. reflexivity. Qed.
Lemma divider_dx g nmult fc : snd (fst (divider g nmult fc)) = map2 (fun d m => d / inject_Z m) (g_dx g) nmult.
Proof. reflexivity. Qed.

(* node j of a grid derived from an unrotated parent: if the mesh is sc*dx and the origin sits at fractional
   index off of the parent, node j sits at fractional index j*sc + off of the parent *)
Lemma node_affine_unrot n g g' j sc off pos :
  unrotated g -> unrotated g' -> wflen n g -> wflen n g' -> length j = n ->
  (off = [] \/ length off = n) -> length pos = n ->
  (forall k, (k < n)%nat -> nth k (g_dx g') 0 == nth k sc 0 * nth k (g_dx g) 0) ->
  eqlQ (g_x0 g') (frac_node g (zerosZ g) off) ->
  (forall k, (k < n)%nat -> nth k pos 0 == inject_Z (nth k j 0%Z) * nth k sc 0 + nth k off 0) ->
  eqlQ (node g' j) (frac_node g (zerosZ g) pos).
Proof.
  intros Hu Hu' Hw Hw' Hj Hoff Hpos Hdx' Hx0' Hp. pose proof Hw as (Hnx & Hx0 & Hdx).
  assert (L0 : length (zerosZ g) = n) by (rewrite zerosZ_length; exact Hnx).
  assert (Le : (@nil Q) = [] \/ length (@nil Q) = n) by (left; reflexivity).
  unfold node, frac_node in *.
  apply (eqlQ_nth n); [apply (i2c_length_unrot n); auto|apply (i2c_length_unrot n); auto|].
  intros k Hk. rewrite !(i2c_nth_unrot n) by auto.
  pose proof (eqlQ_nth' _ _ k Hx0') as E. rewrite (i2c_nth_unrot n) in E by auto.
  rewrite E, (Hdx' k Hk), (Hp k Hk). rewrite zerosZ_nth.
  replace (nth k (@nil Q) 0) with 0 by (destruct k; reflexivity). ring.
Qed.

Lemma derived_unrot g p : unrotated g -> unrotated (derived g p).
Proof. intros H. exact H. Qed.

(* coarsened grid (cell or point matching) of an unrotated parent: node j is the barycentre of the parent
   nodes j*m .. j*m+m-1 (fractional index j*m + (m-1)/2), resp. the parent node j*m *)
Lemma coarse_nodes_unrot n g nmult fc j :
  unrotated g -> wflen n g -> length nmult = n -> length j = n ->
  eqlQ (node (derived g (multiple g nmult fc)) j)
       (frac_node g (zerosZ g) (map2 (fun jj m => inject_Z jj * inject_Z m + (if fc then (inject_Z m - 1) / 2 else 0)) j nmult)).
Proof.
  intros Hu Hw Hm Hj. pose proof Hw as (Hnx & Hx0 & Hdx).
  pose proof (multiple_x0_unrot n g nmult fc Hu Hw Hm) as HX.
  assert (Hw' : wflen n (derived g (multiple g nmult fc))).
  { assert (L0 : length (zerosZ g) = n) by (rewrite zerosZ_length; exact Hnx).
    unfold wflen, derived. cbn [g_nx g_x0 g_dx]. split; [|split].
    - unfold multiple. cbn [fst]. rewrite map2_length; congruence.
    - rewrite (eqlQ_length _ _ HX). unfold spec_multiple_x0, frac_node, node.
      destruct fc; apply (i2c_length_unrot n); auto; try (right; rewrite map_length; exact Hm).
    - unfold multiple. cbn [fst snd]. rewrite map2_length; congruence. }
  apply (node_affine_unrot n g _ j (map inject_Z nmult) (if fc then map (fun m => (inject_Z m - 1) / 2) nmult else [])); auto.
  - destruct fc; [right; rewrite map_length; exact Hm|left; reflexivity].
  - rewrite map2_length; congruence.
  - intros k Hk. unfold derived. simpl.
    rewrite (map2_nth (fun d m => d * inject_Z m) _ _ 0 0%Z 0) by congruence.
    rewrite (map_nth' inject_Z nmult 0%Z) by lia. ring.
  - unfold derived. simpl. unfold spec_multiple_x0, frac_node, node in HX. destruct fc; exact HX.
  - intros k Hk.
    rewrite (map2_nth (fun jj m => inject_Z jj * inject_Z m + (if fc then (inject_Z m - 1) / 2 else 0)) _ _ 0%Z 0%Z 0) by congruence.
    rewrite (map_nth' inject_Z nmult 0%Z) by lia.
    destruct fc; [rewrite (map_nth' (fun m => (inject_Z m - 1) / 2) nmult 0%Z) by lia; reflexivity|].
    replace (nth k (@nil Q) 0) with 0 by (destruct k; reflexivity). reflexivity.
Qed.

(* refined grid of an unrotated parent: node j sits at fractional index j/m - 1/2 + 1/(2m) (cell matching),
   resp. j/m (point matching) of the parent *)
Lemma refine_nodes_unrot n g nmult fc j :
  unrotated g -> wflen n g -> length nmult = n -> length j = n -> Forall (fun m => (0 < m)%Z) nmult ->
  eqlQ (node (derived g (divider g nmult fc)) j)
       (frac_node g (zerosZ g) (map2 (fun jj m => inject_Z jj / inject_Z m + (if fc then - (1 # 2) + 1 / (2 * inject_Z m) else 0)) j nmult)).
Proof.
  intros Hu Hw Hm Hj Hpos. pose proof Hw as (Hnx & Hx0 & Hdx).
  pose proof (divider_x0_unrot n g nmult fc Hu Hw Hm Hpos) as HX.
  assert (Hw' : wflen n (derived g (divider g nmult fc))).
  { assert (L0 : length (zerosZ g) = n) by (rewrite zerosZ_length; exact Hnx).
    unfold wflen, derived. cbn [g_nx g_x0 g_dx]. split; [|split].
    - unfold divider. cbn [fst]. rewrite map2_length; congruence.
    - rewrite (eqlQ_length _ _ HX). unfold spec_divider_x0, frac_node, node.
      destruct fc; apply (i2c_length_unrot n); auto; try (right; rewrite map_length; exact Hm).
    - unfold divider. cbn [fst snd]. rewrite map2_length; congruence. }
  apply (node_affine_unrot n g _ j (map (fun m => 1 / inject_Z m) nmult) (if fc then map (fun m => - (1 # 2) + 1 / (2 * inject_Z m)) nmult else [])); auto.
  - destruct fc; [right; rewrite map_length; exact Hm|left; reflexivity].
  - rewrite map2_length; congruence.
  - intros k Hk. unfold derived. simpl.
    rewrite (map2_nth (fun d m => d / inject_Z m) _ _ 0 0%Z 0) by congruence.
    rewrite (map_nth' (fun m => 1 / inject_Z m) nmult 0%Z) by lia.
    assert (Hmk : (0 < nth k nmult 0)%Z) by (rewrite Forall_forall in Hpos; apply Hpos; apply nth_In; lia).
    assert (Hq : 0 < inject_Z (nth k nmult 0%Z)) by (change 0 with (inject_Z 0); rewrite <- Zlt_Qlt; exact Hmk).
    field. lra.
  - unfold derived. simpl. unfold spec_divider_x0, frac_node, node in HX. destruct fc; exact HX.
  - intros k Hk.
    rewrite (map2_nth (fun jj m => inject_Z jj / inject_Z m + (if fc then - (1 # 2) + 1 / (2 * inject_Z m) else 0)) _ _ 0%Z 0%Z 0) by congruence.
    rewrite (map_nth' (fun m => 1 / inject_Z m) nmult 0%Z) by lia.
    assert (Hmk : (0 < nth k nmult 0)%Z) by (rewrite Forall_forall in Hpos; apply Hpos; apply nth_In; lia).
    assert (Hq : 0 < inject_Z (nth k nmult 0%Z)) by (change 0 with (inject_Z 0); rewrite <- Zlt_Qlt; exact Hmk).
    destruct fc; [rewrite (map_nth' (fun m => - (1 # 2) + 1 / (2 * inject_Z m)) nmult 0%Z) by lia; field; lra|].
    replace (nth k (@nil Q) 0) with 0 by (destruct k; reflexivity). field. lra.
Qed.

(* ---- Grid::dilate: what the code computes, and that it is not what it is documented to compute *)
Lemma dilate_x0_unrot n g mode nshift p : unrotated g -> wflen n g -> length nshift = n ->
  dilate g mode nshift = Some p ->
  eqlQ (snd p) (node g (map (fun s => (- (2 * mode) * s)%Z) nshift)).
Proof.
  intros Hu Hw Hs Hd. pose proof Hw as (Hnx & Hx0 & Hdx).
  unfold dilate in Hd. destruct (existsb _ _); [discriminate|]. inversion Hd; subst p; clear Hd. simpl.
  set (ind := map (fun s : Z => (- mode * s)%Z) nshift).
  assert (Li : length ind = n) by (unfold ind; rewrite map_length; exact Hs).
  assert (Lq : length (map inject_Z ind) = n) by (rewrite map_length; exact Li).
  assert (L2 : length (map (fun s : Z => (- (2 * mode) * s)%Z) nshift) = n) by (rewrite map_length; exact Hs).
  unfold node.
  apply (eqlQ_nth n); [apply (i2c_length_unrot n); auto|apply (i2c_length_unrot n); auto|].
  intros k Hk. rewrite !(i2c_nth_unrot n) by auto.
  rewrite (map_nth' inject_Z ind 0%Z) by lia. unfold ind.
  rewrite (map_nth' (fun s : Z => (- mode * s)%Z) nshift 0%Z) by lia.
  rewrite (map_nth' (fun s : Z => (- (2 * mode) * s)%Z) nshift 0%Z) by lia.
  replace (nth k (@nil Q) 0) with 0 by (destruct k; reflexivity).
  rewrite <- inject_Z_plus.
  replace (- mode * nth k nshift 0 + - mode * nth k nshift 0)%Z with (- (2 * mode) * nth k nshift 0)%Z by ring.
  ring.
Qed.

(* ---- DbGrid::createSubGrid, unrotated: node 0 of the sub-grid is parent node lim0 *)
Lemma subgrid_x0_unrot n g lim0 lim1 : unrotated g -> wflen n g -> length lim0 = n ->
  eqlQ (g_x0 (subgrid g lim0 lim1)) (spec_subgrid_x0 g lim0).
Proof.
  intros Hu Hw Hl. pose proof Hw as (Hnx & Hx0 & Hdx). unfold subgrid, spec_subgrid_x0, node. simpl.
  apply (eqlQ_nth n).
  - unfold vadd. rewrite map2_length; [exact Hx0|]. rewrite map2_length; congruence.
  - apply (i2c_length_unrot n); auto.
  - intros k Hk. rewrite (i2c_nth_unrot n) by auto. unfold vadd.
    rewrite (map2_nth Qplus _ _ 0 0 0) by (try lia; rewrite map2_length; congruence).
    rewrite (map2_nth (fun l d => inject_Z l * d) _ _ 0%Z 0 0) by (try lia; congruence).
    replace (nth k (@nil Q) 0) with 0 by (destruct k; reflexivity). ring.
Qed.

(* ---- rotated grid, same multiplicity m on every axis: the origin of multiple / divider is right *)
Definition rotated (g : grid) : Prop := r_flag (g_rot g) = true.

Lemma i2c_nth_rot n g ind pc k : rotated g -> wfmat n (r_mat (g_rot g)) -> wflen n g -> (k < n)%nat ->
  nth k (i2c g ind pc true) 0 = dot (nth k (r_mat (g_rot g)) []) (scaled g ind pc) + nth k (g_x0 g) 0.
Proof.
  intros Hr [HM _] (Hnx & Hx0 & Hdx) Hk. unfold i2c, rotate_direct, vadd. rewrite Hr.
  rewrite (map2_nth Qplus _ _ 0 0 0) by (rewrite length_mvec; congruence).
  rewrite nth_mvec. reflexivity.
Qed.
Lemma i2c_length_rot n g ind pc : rotated g -> wfmat n (r_mat (g_rot g)) -> wflen n g -> length (i2c g ind pc true) = n.
Proof.
  intros Hr [HM _] (Hnx & Hx0 & Hdx). unfold i2c, rotate_direct, vadd. rewrite Hr.
  rewrite map2_length; rewrite length_mvec; congruence.
Qed.
Lemma scaled_nth n g ind pc k : wflen n g -> length ind = n -> (pc = [] \/ length pc = n) -> (k < n)%nat ->
  nth k (scaled g ind pc) 0 = (inject_Z (nth k ind 0%Z) + nth k pc 0) * nth k (g_dx g) 0.
Proof.
  intros (Hnx & Hx0 & Hdx) Hi Hp Hk. unfold scaled.
  pose proof (pz_length ind pc n Hi Hp) as Lz.
  rewrite (map2_nth Qmult _ _ 0 0 0) by (rewrite map2_length; congruence).
  rewrite (map2_nth (fun i p => inject_Z i + p) _ _ 0%Z 0 0) by congruence.
  rewrite (pz_nth _ _ n) by auto. reflexivity.
Qed.
Lemma scaled_length n g ind pc : wflen n g -> length ind = n -> (pc = [] \/ length pc = n) -> length (scaled g ind pc) = n.
Proof.
  intros (Hnx & Hx0 & Hdx) Hi Hp. unfold scaled.
  pose proof (pz_length ind pc n Hi Hp) as Lz.
  rewrite map2_length; rewrite map2_length; congruence.
Qed.
(* along row r of the rotation matrix, a position at the same fractional index q on every axis *)
Lemma dot_scaled_uniform n g r pc q : wflen n g -> length r = n -> length pc = n ->
  (forall j, (j < n)%nat -> nth j pc 0 == q) ->
  dot r (scaled g (zerosZ g) pc) == q * sumQ n (fun j => nth j r 0 * nth j (g_dx g) 0).
Proof.
  intros Hw Hr Hp Hq. pose proof Hw as (Hnx & Hx0 & Hdx).
  assert (L0 : length (zerosZ g) = n) by (rewrite zerosZ_length; exact Hnx).
  rewrite (dot_sum n) by (try assumption; apply scaled_length; auto).
  rewrite <- sumQ_scale. apply sumQ_ext. intros j Hj. rewrite (scaled_nth n) by auto.
  rewrite zerosZ_nth, (Hq j Hj). change (inject_Z 0) with 0. ring.
Qed.

Definition uniform (m : Z) (nmult : list Z) : Prop := Forall (fun x => x = m) nmult.
Lemma uniform_nth m nmult k : uniform m nmult -> (k < length nmult)%nat -> nth k nmult 0%Z = m.
Proof. intros H Hk. unfold uniform in H. rewrite Forall_forall in H. apply H. apply nth_In. exact Hk. Qed.

Lemma multiple_x0_rot_uniform n g nmult m : rotated g -> wfmat n (r_mat (g_rot g)) -> wflen n g ->
  length nmult = n -> uniform m nmult ->
  eqlQ (snd (multiple g nmult true)) (spec_multiple_x0 g nmult true).
Proof.
  intros Hr HM Hw Hm Hu. pose proof Hw as (Hnx & Hx0 & Hdx).
  unfold multiple, spec_multiple_x0, frac_node. cbn [snd].
  assert (L1 : forall pc, length (i2c g (zerosZ g) pc true) = n) by (intros pc; apply (i2c_length_rot n); assumption).
  assert (Lc : forall q, length (constQ g q) = n) by (intros q; rewrite constQ_length; exact Hnx).
  assert (Ls : length (map (fun m0 : Z => (inject_Z m0 - 1) / 2) nmult) = n) by (rewrite map_length; exact Hm).
  apply (eqlQ_nth n).
  - unfold vadd, vsub. rewrite map2_length; [apply L1|]. rewrite L1. rewrite map2_length; rewrite map_length; rewrite map2_length; rewrite ?L1; congruence.
  - apply L1.
  - intros k Hk. unfold vadd, vsub.
    rewrite (map2_nth Qplus _ _ 0 0 0) by (rewrite ?L1; try lia; rewrite map2_length; rewrite map_length; rewrite map2_length; rewrite ?L1; congruence).
    rewrite (map2_nth (fun d m0 => d * inject_Z m0) _ _ 0 0%Z 0) by (rewrite map_length; rewrite map2_length; rewrite ?L1; congruence).
    rewrite (map_nth' (fun v => v / 2) _ 0) by (rewrite map2_length; rewrite ?L1; congruence).
    rewrite (map2_nth Qminus _ _ 0 0 0) by (rewrite ?L1; congruence).
    rewrite !(i2c_nth_rot n) by assumption.
    rewrite (uniform_nth m) by (try assumption; lia).
    set (r := nth k (r_mat (g_rot g)) []).
    assert (Lr : length r = n) by (apply wfmat_row; assumption).
    rewrite (dot_scaled_uniform n g r _ (- (1 # 2))) by (auto; intros j Hj; rewrite constQ_nth by lia; reflexivity).
    rewrite (dot_scaled_uniform n g r _ (1 # 2)) by (auto; intros j Hj; rewrite constQ_nth by lia; reflexivity).
    rewrite (dot_scaled_uniform n g r _ ((inject_Z m - 1) / 2)); auto.
    + field.
    + intros j Hj. rewrite (map_nth' (fun m0 : Z => (inject_Z m0 - 1) / 2) nmult 0%Z) by lia.
      rewrite (uniform_nth m) by (try assumption; lia). reflexivity.
Qed.

Lemma divider_x0_rot_uniform n g nmult m : rotated g -> wfmat n (r_mat (g_rot g)) -> wflen n g ->
  length nmult = n -> uniform m nmult -> (0 < m)%Z ->
  eqlQ (snd (divider g nmult true)) (spec_divider_x0 g nmult true).
Proof.
  intros Hr HM Hw Hm Hu Hpos. pose proof Hw as (Hnx & Hx0 & Hdx).
  unfold divider, spec_divider_x0, frac_node. cbn [snd].
  assert (L1 : forall pc, length (i2c g (zerosZ g) pc true) = n) by (intros pc; apply (i2c_length_rot n); assumption).
  assert (Lc : forall q, length (constQ g q) = n) by (intros q; rewrite constQ_length; exact Hnx).
  assert (Ls : length (map (fun m0 : Z => - (1 # 2) + 1 / (2 * inject_Z m0)) nmult) = n) by (rewrite map_length; exact Hm).
  assert (Hq : 0 < inject_Z m) by (change 0 with (inject_Z 0); rewrite <- Zlt_Qlt; exact Hpos).
  apply (eqlQ_nth n).
  - unfold vadd, vsub. rewrite map2_length; [apply L1|]. rewrite L1. rewrite map2_length; rewrite map_length; rewrite map2_length; rewrite ?L1; congruence.
  - apply L1.
  - intros k Hk. unfold vadd, vsub.
    rewrite (map2_nth Qplus _ _ 0 0 0) by (rewrite ?L1; try lia; rewrite map2_length; rewrite map_length; rewrite map2_length; rewrite ?L1; congruence).
    rewrite (map2_nth (fun d m0 => d / inject_Z m0) _ _ 0 0%Z 0) by (rewrite map_length; rewrite map2_length; rewrite ?L1; congruence).
    rewrite (map_nth' (fun v => v / 2) _ 0) by (rewrite map2_length; rewrite ?L1; congruence).
    rewrite (map2_nth Qminus _ _ 0 0 0) by (rewrite ?L1; congruence).
    rewrite !(i2c_nth_rot n) by assumption.
    rewrite (uniform_nth m) by (try assumption; lia).
    set (r := nth k (r_mat (g_rot g)) []).
    assert (Lr : length r = n) by (apply wfmat_row; assumption).
    rewrite (dot_scaled_uniform n g r _ (- (1 # 2))) by (auto; intros j Hj; rewrite constQ_nth by lia; reflexivity).
    rewrite (dot_scaled_uniform n g r _ (1 # 2)) by (auto; intros j Hj; rewrite constQ_nth by lia; reflexivity).
    rewrite (dot_scaled_uniform n g r _ (- (1 # 2) + 1 / (2 * inject_Z m))); auto.
    + field. lra.
    + intros j Hj. rewrite (map_nth' (fun m0 : Z => - (1 # 2) + 1 / (2 * inject_Z m0)) nmult 0%Z) by lia.
      rewrite (uniform_nth m) by (try assumption; lia). reflexivity.
Qed.

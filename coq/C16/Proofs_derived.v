(* C16 proofs: derived grids (multiple, divider, dilate, sub-grid) — any grid, rotated or not *)
From Coq Require Import List ZArith QArith Qround Qabs Bool Lia Lqa Setoid Morphisms.
From Gst Require Import lib.QAux C16.Model C16.Spec C16.Proofs_rank C16.Proofs_lin C16.Proofs_coord.
Import ListNotations.
Local Open Scope Q_scope.

Lemma map_nth' {A B} (f : A -> B) l d d' k : (k < length l)%nat -> nth k (map f l) d' = f (nth k l d).
Proof. intros H. rewrite (nth_indep _ d' (f d)) by (rewrite map_length; exact H). apply map_nth. Qed.

Definition wflen (n : nat) (g : grid) : Prop :=
  length (g_nx g) = n /\ length (g_x0 g) = n /\ length (g_dx g) = n.
(* lengths agree and, when the rotation is active, its matrix is n x n (no orthogonality needed here) *)
Definition gridok (n : nat) (g : grid) : Prop :=
  wflen n g /\ (r_flag (g_rot g) = false \/ wfmat n (r_mat (g_rot g))).

Lemma wfgrid_gridok n g : wfgrid n g -> gridok n g.
Proof.
  intros (Hnx & Hx0 & Hdx & _ & _ & Hr). split; [repeat split; assumption|].
  destruct Hr as [Hr|[[HW _] _]]; [left; exact Hr|right; exact HW].
Qed.

Lemma pz_length (ind : list Z) pc n : length ind = n -> (pc = [] \/ length pc = n) ->
  length (match pc with [] => map (fun _ => 0) ind | _ => pc end) = n.
Proof. intros Hi [->|Hp]; [rewrite map_length; exact Hi|]. destruct pc; [simpl in *; subst; destruct ind; [reflexivity|discriminate]|exact Hp]. Qed.
Lemma pz_nth (ind : list Z) pc n k : length ind = n -> (pc = [] \/ length pc = n) -> (k < n)%nat ->
  nth k (match pc with [] => map (fun _ => 0) ind | _ => pc end) 0 = nth k pc 0.
Proof.
  intros Hi [->|Hp] Hk.
  - rewrite (map_nth' (fun _ => 0) ind 0%Z) by lia. destruct k; reflexivity.
  - destruct pc; [simpl in Hp; lia|reflexivity].
Qed.
Lemma nth_nil_Q k : nth k (@nil Q) 0 = 0.
Proof. destruct k; reflexivity. Qed.

Lemma scaled_nth n g ind pc k : wflen n g -> length ind = n -> (pc = [] \/ length pc = n) -> (k < n)%nat ->
  nth k (scaled g ind pc) 0 = (inject_Z (nth k ind 0%Z) + nth k pc 0) * nth k (g_dx g) 0.
Proof.
  intros (Hnx & Hx0 & Hdx) Hi Hp Hk. unfold scaled.
  pose proof (pz_length ind pc n Hi Hp) as Lz.
  rewrite (map2_nth Qmult _ _ 0 0 0) by (rewrite map2_length; congruence).
  rewrite (map2_nth (fun i p => inject_Z i + p) _ _ 0%Z 0 0) by congruence.
  rewrite (pz_nth _ _ n) by auto. reflexivity.
Qed.
Lemma scaled_length n g ind pc : wflen n g -> length ind = n -> (pc = [] \/ length pc = n) -> length (scaled g ind pc) = n.
Proof.
  intros (Hnx & Hx0 & Hdx) Hi Hp. unfold scaled.
  pose proof (pz_length ind pc n Hi Hp) as Lz.
  rewrite map2_length; rewrite map2_length; congruence.
Qed.

(* component k of the (possibly) rotated vector *)
Definition rowapp (g : grid) (k : nat) (v : list Q) : Q :=
  if r_flag (g_rot g) then dot (nth k (r_mat (g_rot g)) []) v else nth k v 0.

Lemma rotate_direct_nth n g v k : gridok n g -> length v = n -> (k < n)%nat ->
  nth k (rotate_direct (g_rot g) v) 0 = rowapp g k v.
Proof.
  intros [_ Hr] Hv Hk. unfold rotate_direct, rowapp. destruct (r_flag (g_rot g)); [|reflexivity].
  apply nth_mvec.
Qed.
Lemma rotate_direct_len n g v : gridok n g -> length v = n -> length (rotate_direct (g_rot g) v) = n.
Proof.
  intros [_ Hr] Hv. unfold rotate_direct. destruct (r_flag (g_rot g)) eqn:E; [|exact Hv].
  destruct Hr as [Hr|[HW _]]; [discriminate|]. rewrite length_mvec. exact HW.
Qed.

Lemma rowapp_ext n g k a b : gridok n g -> length a = n -> length b = n -> (k < n)%nat ->
  (forall i, (i < n)%nat -> nth i a 0 == nth i b 0) -> rowapp g k a == rowapp g k b.
Proof.
  intros [_ Hr] Ha Hb Hk H. unfold rowapp. destruct (r_flag (g_rot g)) eqn:E; [|apply H; exact Hk].
  destruct Hr as [Hr|HW]; [discriminate|].
  apply dot_proper_r. apply (eqlQ_nth n); assumption.
Qed.
Lemma rowapp_add n g k a b c : gridok n g -> length a = n -> length b = n -> length c = n -> (k < n)%nat ->
  (forall i, (i < n)%nat -> nth i c 0 == nth i a 0 + nth i b 0) -> rowapp g k c == rowapp g k a + rowapp g k b.
Proof.
  intros [_ Hr] Ha Hb Hc Hk H. unfold rowapp. destruct (r_flag (g_rot g)) eqn:E; [|apply H; exact Hk].
  destruct Hr as [Hr|HW]; [discriminate|].
  assert (Lr : length (nth k (r_mat (g_rot g)) []) = n) by (apply wfmat_row; assumption).
  rewrite !(dot_sum n) by assumption. rewrite <- sumQ_plus. apply sumQ_ext. intros i Hi. rewrite (H i Hi). ring.
Qed.
Lemma rowapp_zero n g k a : gridok n g -> length a = n -> (k < n)%nat ->
  (forall i, (i < n)%nat -> nth i a 0 == 0) -> rowapp g k a == 0.
Proof.
  intros Hg Ha Hk H.
  assert (E : rowapp g k a == rowapp g k a + rowapp g k a).
  { apply (rowapp_add n); auto. intros i Hi. rewrite (H i Hi). ring. }
  lra.
Qed.

(* component k of a position of the grid *)
Lemma i2c_length n g ind pc : gridok n g -> length ind = n -> (pc = [] \/ length pc = n) ->
  length (i2c g ind pc true) = n.
Proof.
  intros Hg Hi Hp. pose proof Hg as [Hw _]. pose proof Hw as (Hnx & Hx0 & Hdx). unfold i2c, vadd.
  rewrite map2_length; rewrite (rotate_direct_len n); auto; try congruence; apply (scaled_length n); auto.
Qed.
Lemma i2c_nth n g ind pc k : gridok n g -> length ind = n -> (pc = [] \/ length pc = n) -> (k < n)%nat ->
  nth k (i2c g ind pc true) 0 = rowapp g k (scaled g ind pc) + nth k (g_x0 g) 0.
Proof.
  intros Hg Hi Hp Hk. pose proof Hg as [Hw _]. pose proof Hw as (Hnx & Hx0 & Hdx). unfold i2c, vadd.
  assert (Ls : length (scaled g ind pc) = n) by (apply (scaled_length n); auto).
  rewrite (map2_nth Qplus _ _ 0 0 0) by (rewrite (rotate_direct_len n); auto; congruence).
  rewrite (rotate_direct_nth n) by auto. reflexivity.
Qed.
(* getCoordinatesByIndice without shift *)
Lemma cbi_length n g ind : gridok n g -> length ind = n -> length (coords_by_indice g ind true [] []) = n.
Proof.
  intros Hg Hi. pose proof Hg as [Hw _]. pose proof Hw as (Hnx & Hx0 & Hdx). unfold coords_by_indice, vadd.
  rewrite map2_length; rewrite (rotate_direct_len n); auto; try congruence; rewrite map2_length; congruence.
Qed.
Lemma cbi_nth n g ind k : gridok n g -> length ind = n -> (k < n)%nat ->
  nth k (coords_by_indice g ind true [] []) 0 =
  rowapp g k (map2 (fun i d => inject_Z i * d) ind (g_dx g)) + nth k (g_x0 g) 0.
Proof.
  intros Hg Hi Hk. pose proof Hg as [Hw _]. pose proof Hw as (Hnx & Hx0 & Hdx). unfold coords_by_indice, vadd.
  assert (Ls : length (map2 (fun i d => inject_Z i * d) ind (g_dx g)) = n) by (rewrite map2_length; congruence).
  rewrite (map2_nth Qplus _ _ 0 0 0) by (rewrite (rotate_direct_len n); auto; congruence).
  rewrite (rotate_direct_nth n) by auto. reflexivity.
Qed.

Lemma zerosZ_length g : length (zerosZ g) = length (g_nx g).
Proof. apply map_length. Qed.
Lemma zerosZ_nth g k : nth k (zerosZ g) 0%Z = 0%Z.
Proof.
  unfold zerosZ. destruct (Nat.lt_ge_cases k (length (g_nx g))) as [H|H].
  - apply (map_nth' (fun _ => 0%Z) (g_nx g) 0%Z). exact H.
  - apply nth_overflow. rewrite map_length. exact H.
Qed.

(* two positions with the same fractional indices coincide *)
Lemma i2c_ext n g ind ind' pc pc' : gridok n g -> length ind = n -> length ind' = n ->
  (pc = [] \/ length pc = n) -> (pc' = [] \/ length pc' = n) ->
  (forall i, (i < n)%nat -> inject_Z (nth i ind 0%Z) + nth i pc 0 == inject_Z (nth i ind' 0%Z) + nth i pc' 0) ->
  eqlQ (i2c g ind pc true) (i2c g ind' pc' true).
Proof.
  intros Hg Hi Hi' Hp Hp' H. pose proof Hg as [Hw _].
  apply (eqlQ_nth n); [apply (i2c_length n); auto|apply (i2c_length n); auto|].
  intros k Hk. rewrite !(i2c_nth n) by auto.
  rewrite (rowapp_ext n g k (scaled g ind pc) (scaled g ind' pc')); auto; try (apply (scaled_length n); auto); [reflexivity|].
  intros i Hii. rewrite !(scaled_nth n) by auto. rewrite (H i Hii). reflexivity.
Qed.

(* the origin is node 0 *)
Lemma x0_is_node0 n g : gridok n g -> eqlQ (g_x0 g) (node g (zerosZ g)).
Proof.
  intros Hg. pose proof Hg as [Hw _]. pose proof Hw as (Hnx & Hx0 & Hdx). unfold node.
  assert (L0 : length (zerosZ g) = n) by (rewrite zerosZ_length; exact Hnx).
  assert (Le : (@nil Q) = [] \/ length (@nil Q) = n) by (left; reflexivity).
  apply (eqlQ_nth n); [exact Hx0|apply (i2c_length n); auto|].
  intros k Hk. rewrite (i2c_nth n) by auto.
  rewrite (rowapp_zero n) ; auto; [ring|apply (scaled_length n); auto|].
  intros i Hi. rewrite (scaled_nth n) by auto. rewrite zerosZ_nth, nth_nil_Q. change (inject_Z 0) with 0. ring.
Qed.

(* ---- origins of Grid::multiple / divider / dilate / sub-grid: where the documented meaning puts them *)
Lemma multiple_x0 n g nmult fc : gridok n g -> length nmult = n ->
  eqlQ (snd (multiple g nmult fc)) (spec_multiple_x0 g nmult fc).
Proof.
  intros Hg Hm. unfold multiple, spec_multiple_x0, frac_node. cbn [snd].
  destruct fc; [apply eqlQ_refl|apply (x0_is_node0 n); exact Hg].
Qed.
Lemma divider_x0 n g nmult fc : gridok n g -> length nmult = n -> Forall (fun m => (0 < m)%Z) nmult ->
  eqlQ (snd (divider g nmult fc)) (spec_divider_x0 g nmult fc).
Proof.
  intros Hg Hm Hpos. pose proof Hg as [Hw _]. pose proof Hw as (Hnx & Hx0 & Hdx).
  unfold divider, spec_divider_x0, frac_node. cbn [snd].
  destruct fc; [|apply (x0_is_node0 n); exact Hg].
  assert (L0 : length (zerosZ g) = n) by (rewrite zerosZ_length; exact Hnx).
  apply (i2c_ext n); auto; try (right; rewrite map_length; exact Hm).
  intros i Hi.
  rewrite (map_nth' (fun m => - (1 # 2) + (1 # 2) / inject_Z m) nmult 0%Z) by lia.
  rewrite (map_nth' (fun m => - (1 # 2) + 1 / (2 * inject_Z m)) nmult 0%Z) by lia.
  assert (Hmk : (0 < nth i nmult 0)%Z) by (rewrite Forall_forall in Hpos; apply Hpos; apply nth_In; lia).
  assert (Hq : 0 < inject_Z (nth i nmult 0%Z)) by (change 0 with (inject_Z 0); rewrite <- Zlt_Qlt; exact Hmk).
  field. lra.
Qed.
Lemma dilate_x0 g mode nshift p : dilate g mode nshift = Some p -> snd p = spec_dilate_x0 g mode nshift.
Proof.
  unfold dilate. destruct (existsb _ _); [discriminate|]. intros H. inversion H. reflexivity.
Qed.
Lemma subgrid_x0 n g lim0 lim1 : gridok n g -> length lim0 = n ->
  eqlQ (g_x0 (subgrid g lim0 lim1)) (spec_subgrid_x0 g lim0).
Proof.
  intros Hg Hl. pose proof Hg as [Hw _]. pose proof Hw as (Hnx & Hx0 & Hdx).
  unfold subgrid, spec_subgrid_x0, node. cbn [g_x0].
  assert (Le : (@nil Q) = [] \/ length (@nil Q) = n) by (left; reflexivity).
  apply (eqlQ_nth n); [apply (cbi_length n); auto|apply (i2c_length n); auto|].
  intros k Hk. rewrite (cbi_nth n), (i2c_nth n) by auto.
  rewrite (rowapp_ext n g k _ (scaled g lim0 [])); auto; [reflexivity|rewrite map2_length; congruence|apply (scaled_length n); auto|].
  intros i Hi. rewrite (scaled_nth n) by auto.
  rewrite (map2_nth (fun i0 d => inject_Z i0 * d) _ _ 0%Z 0 0) by congruence. rewrite nth_nil_Q. ring.
Qed.

(* ---- every node of a derived grid.
   If the derived grid has the same rotation, mesh sc*dx and its origin at fractional index off of the parent,
   node j sits at fractional index j*sc + off of the parent. *)
Lemma node_affine n g g' j sc off pos :
  gridok n g -> wflen n g' -> g_rot g' = g_rot g -> length j = n ->
  (off = [] \/ length off = n) -> length pos = n ->
  (forall k, (k < n)%nat -> nth k (g_dx g') 0 == nth k sc 0 * nth k (g_dx g) 0) ->
  eqlQ (g_x0 g') (frac_node g (zerosZ g) off) ->
  (forall k, (k < n)%nat -> nth k pos 0 == inject_Z (nth k j 0%Z) * nth k sc 0 + nth k off 0) ->
  eqlQ (node g' j) (frac_node g (zerosZ g) pos).
Proof.
  intros Hg Hw' Hrot Hj Hoff Hpos Hdx' Hx0' Hp.
  pose proof Hg as [Hw Hr]. pose proof Hw as (Hnx & Hx0 & Hdx).
  assert (Hg' : gridok n g') by (split; [exact Hw'|rewrite Hrot; exact Hr]).
  assert (L0 : length (zerosZ g) = n) by (rewrite zerosZ_length; exact Hnx).
  assert (Le : (@nil Q) = [] \/ length (@nil Q) = n) by (left; reflexivity).
  unfold node, frac_node in *.
  apply (eqlQ_nth n); [apply (i2c_length n); auto|apply (i2c_length n); auto|].
  intros k Hk. rewrite !(i2c_nth n) by auto.
  pose proof (eqlQ_nth' _ _ k Hx0') as E. rewrite (i2c_nth n) in E by auto. rewrite E.
  assert (R : rowapp g' k (scaled g' j []) = rowapp g k (scaled g' j [])) by (unfold rowapp; rewrite Hrot; reflexivity).
  rewrite R.
  rewrite (rowapp_add n g k (scaled g' j []) (scaled g (zerosZ g) off) (scaled g (zerosZ g) pos)); auto;
    try (apply (scaled_length n); auto); [ring|].
  intros i Hi. rewrite !(scaled_nth n) by auto.
  rewrite (Hdx' i Hi), (Hp i Hi). rewrite zerosZ_nth, nth_nil_Q. change (inject_Z 0) with 0. ring.
Qed.

Lemma derived_wflen n g p : length (fst (fst p)) = n -> length (snd (fst p)) = n -> length (snd p) = n -> wflen n (derived g p).
Proof. intros. unfold wflen, derived. cbn [g_nx g_x0 g_dx]. auto. Qed.

(* coarsened grid (cell or point matching), any parent: node j is the barycentre of the parent nodes
   j*m .. j*m+m-1 (fractional index j*m + (m-1)/2), resp. the parent node j*m *)
Lemma coarse_nodes n g nmult fc j :
  gridok n g -> length nmult = n -> length j = n ->
  eqlQ (node (derived g (multiple g nmult fc)) j)
       (frac_node g (zerosZ g) (map2 (fun jj m => inject_Z jj * inject_Z m + (if fc then (inject_Z m - 1) / 2 else 0)) j nmult)).
Proof.
  intros Hg Hm Hj. pose proof Hg as [Hw _]. pose proof Hw as (Hnx & Hx0 & Hdx).
  pose proof (multiple_x0 n g nmult fc Hg Hm) as HX.
  assert (L0 : length (zerosZ g) = n) by (rewrite zerosZ_length; exact Hnx).
  assert (Hw' : wflen n (derived g (multiple g nmult fc))).
  { apply derived_wflen.
    - unfold multiple. cbn [fst]. rewrite map2_length; congruence.
    - unfold multiple. cbn [fst snd]. rewrite map2_length; congruence.
    - rewrite (eqlQ_length _ _ HX). unfold spec_multiple_x0, frac_node, node.
      destruct fc; apply (i2c_length n); auto; try (right; rewrite map_length; exact Hm). }
  apply (node_affine n g _ j (map inject_Z nmult) (if fc then map (fun m => (inject_Z m - 1) / 2) nmult else [])); auto.
  - destruct fc; [right; rewrite map_length; exact Hm|left; reflexivity].
  - rewrite map2_length; congruence.
  - intros k Hk. unfold derived, multiple. cbn [g_dx fst snd].
    rewrite (map2_nth (fun d m => d * inject_Z m) _ _ 0 0%Z 0) by congruence.
    rewrite (map_nth' inject_Z nmult 0%Z) by lia. ring.
  - change (g_x0 (derived g (multiple g nmult fc))) with (snd (multiple g nmult fc)).
    unfold spec_multiple_x0, frac_node, node in HX. destruct fc; exact HX.
  - intros k Hk.
    rewrite (map2_nth (fun jj m => inject_Z jj * inject_Z m + (if fc then (inject_Z m - 1) / 2 else 0)) _ _ 0%Z 0%Z 0) by congruence.
    rewrite (map_nth' inject_Z nmult 0%Z) by lia.
    destruct fc; [rewrite (map_nth' (fun m => (inject_Z m - 1) / 2) nmult 0%Z) by lia; reflexivity|].
    rewrite nth_nil_Q. reflexivity.
Qed.

(* refined grid, any parent: node j sits at fractional index j/m - 1/2 + 1/(2m) (cell matching), resp. j/m *)
Lemma refine_nodes n g nmult fc j :
  gridok n g -> length nmult = n -> length j = n -> Forall (fun m => (0 < m)%Z) nmult ->
  eqlQ (node (derived g (divider g nmult fc)) j)
       (frac_node g (zerosZ g) (map2 (fun jj m => inject_Z jj / inject_Z m + (if fc then - (1 # 2) + 1 / (2 * inject_Z m) else 0)) j nmult)).
Proof.
  intros Hg Hm Hj Hpos. pose proof Hg as [Hw _]. pose proof Hw as (Hnx & Hx0 & Hdx).
  pose proof (divider_x0 n g nmult fc Hg Hm Hpos) as HX.
  assert (L0 : length (zerosZ g) = n) by (rewrite zerosZ_length; exact Hnx).
  assert (Hw' : wflen n (derived g (divider g nmult fc))).
  { apply derived_wflen.
    - unfold divider. cbn [fst]. rewrite map2_length; congruence.
    - unfold divider. cbn [fst snd]. rewrite map2_length; congruence.
    - rewrite (eqlQ_length _ _ HX). unfold spec_divider_x0, frac_node, node.
      destruct fc; apply (i2c_length n); auto; try (right; rewrite map_length; exact Hm). }
  assert (Hq : forall k, (k < n)%nat -> 0 < inject_Z (nth k nmult 0%Z)).
  { intros k Hk. change 0 with (inject_Z 0). rewrite <- Zlt_Qlt. rewrite Forall_forall in Hpos. apply Hpos. apply nth_In. lia. }
  apply (node_affine n g _ j (map (fun m => 1 / inject_Z m) nmult) (if fc then map (fun m => - (1 # 2) + 1 / (2 * inject_Z m)) nmult else [])); auto.
  - destruct fc; [right; rewrite map_length; exact Hm|left; reflexivity].
  - rewrite map2_length; congruence.
  - intros k Hk. unfold derived, divider. cbn [g_dx fst snd].
    rewrite (map2_nth (fun d m => d / inject_Z m) _ _ 0 0%Z 0) by congruence.
    rewrite (map_nth' (fun m => 1 / inject_Z m) nmult 0%Z) by lia.
    pose proof (Hq k Hk). field. lra.
  - change (g_x0 (derived g (divider g nmult fc))) with (snd (divider g nmult fc)).
    unfold spec_divider_x0, frac_node, node in HX. destruct fc; exact HX.
  - intros k Hk.
    rewrite (map2_nth (fun jj m => inject_Z jj / inject_Z m + (if fc then - (1 # 2) + 1 / (2 * inject_Z m) else 0)) _ _ 0%Z 0%Z 0) by congruence.
    rewrite (map_nth' (fun m => 1 / inject_Z m) nmult 0%Z) by lia.
    pose proof (Hq k Hk).
    destruct fc; [rewrite (map_nth' (fun m => - (1 # 2) + 1 / (2 * inject_Z m)) nmult 0%Z) by lia; field; lra|].
    rewrite nth_nil_Q. field. lra.
Qed.

(* a grid with the same meshes and rotation whose origin is parent node s: node j is parent node j+s *)
Lemma node_shift n g g' s j :
  gridok n g -> wflen n g' -> g_rot g' = g_rot g -> g_dx g' = g_dx g -> length s = n -> length j = n ->
  eqlQ (g_x0 g') (node g s) ->
  eqlQ (node g' j) (node g (map2 Z.add j s)).
Proof.
  intros Hg Hw' Hrot Hdx' Hs Hj Hx0'.
  pose proof Hg as [Hw Hr]. pose proof Hw as (Hnx & Hx0 & Hdx).
  assert (Hg' : gridok n g') by (split; [exact Hw'|rewrite Hrot; exact Hr]).
  assert (Le : (@nil Q) = [] \/ length (@nil Q) = n) by (left; reflexivity).
  assert (Lj : length (map2 Z.add j s) = n) by (rewrite map2_length; congruence).
  unfold node in *.
  apply (eqlQ_nth n); [apply (i2c_length n); auto|apply (i2c_length n); auto|].
  intros k Hk. rewrite !(i2c_nth n) by auto.
  pose proof (eqlQ_nth' _ _ k Hx0') as E. rewrite (i2c_nth n) in E by auto. rewrite E.
  assert (R : rowapp g' k (scaled g' j []) = rowapp g k (scaled g j [])).
  { unfold rowapp, scaled. rewrite Hrot, Hdx'. reflexivity. }
  rewrite R.
  rewrite (rowapp_add n g k (scaled g j []) (scaled g s []) (scaled g (map2 Z.add j s) [])); auto;
    try (apply (scaled_length n); auto); [ring|].
  intros i Hi. rewrite !(scaled_nth n) by auto.
  rewrite (map2_nth Z.add _ _ 0%Z 0%Z 0%Z) by congruence. rewrite inject_Z_plus, nth_nil_Q. ring.
Qed.

(* dilated grid: node j is parent node j - mode*nshift *)
Lemma dilate_nodes n g mode nshift p j :
  gridok n g -> length nshift = n -> length j = n -> dilate g mode nshift = Some p ->
  eqlQ (node (derived g p) j) (node g (map2 Z.add j (map (fun s => (- mode * s)%Z) nshift))).
Proof.
  intros Hg Hs Hj Hd. pose proof Hg as [Hw _]. pose proof Hw as (Hnx & Hx0 & Hdx).
  pose proof (dilate_x0 g mode nshift p Hd) as HX.
  unfold dilate in Hd. destruct (existsb _ _); [discriminate|]. injection Hd as Hp. subst p.
  assert (Li : length (map (fun s => (- mode * s)%Z) nshift) = n) by (rewrite map_length; exact Hs).
  assert (Le : (@nil Q) = [] \/ length (@nil Q) = n) by (left; reflexivity).
  apply (node_shift n g); [exact Hg| |reflexivity|reflexivity|exact Li|exact Hj|apply eqlQ_refl].
  apply derived_wflen; cbn [fst snd]; [rewrite map2_length; congruence|exact Hdx|apply (i2c_length n); auto].
Qed.

(* sub-grid: node j is parent node j + lim0 *)
Lemma subgrid_nodes n g lim0 lim1 j :
  gridok n g -> length lim0 = n -> length lim1 = n -> length j = n ->
  eqlQ (node (subgrid g lim0 lim1) j) (node g (map2 Z.add j lim0)).
Proof.
  intros Hg H0 H1 Hj. pose proof Hg as [Hw _]. pose proof Hw as (Hnx & Hx0 & Hdx).
  apply (node_shift n g); [exact Hg| |reflexivity|reflexivity|exact H0|exact Hj|apply (subgrid_x0 n); auto].
  unfold wflen, subgrid. cbn [g_nx g_x0 g_dx]. split; [rewrite map2_length; congruence|split; [apply (cbi_length n); auto|exact Hdx]].
Qed.

(* the fractional index j*m + (m-1)/2 is the mean of the parent indices j*m, ..., j*m + m-1 *)
Lemma sumQ_const n c : sumQ n (fun _ => c) == inject_Z (Z.of_nat n) * c.
Proof.
  induction n as [|n IH]; [simpl; ring|].
  change (sumQ (S n) (fun _ => c)) with (c + sumQ n (fun _ => c)). rewrite IH.
  rewrite Nat2Z.inj_succ. unfold Z.succ. rewrite inject_Z_plus. change (inject_Z 1) with 1. ring.
Qed.
Lemma sumQ_iota n : sumQ n (fun t => inject_Z (Z.of_nat t)) == inject_Z (Z.of_nat n) * (inject_Z (Z.of_nat n) - 1) / 2.
Proof.
  induction n as [|n IH]; [simpl; field|].
  change (sumQ (S n) (fun t => inject_Z (Z.of_nat t))) with (inject_Z (Z.of_nat 0) + sumQ n (fun t => inject_Z (Z.of_nat (S t)))).
  rewrite (sumQ_ext n _ (fun t => inject_Z (Z.of_nat t) + 1)).
  - rewrite sumQ_plus, IH, sumQ_const. rewrite Nat2Z.inj_succ. unfold Z.succ. rewrite inject_Z_plus.
    change (inject_Z (Z.of_nat 0)) with 0. change (inject_Z 1) with 1. field.
  - intros t _. rewrite Nat2Z.inj_succ. unfold Z.succ. rewrite inject_Z_plus. reflexivity.
Qed.
Lemma barycentre_index (m : nat) (a : Q) : (0 < m)%nat ->
  sumQ m (fun t => a + inject_Z (Z.of_nat t)) / inject_Z (Z.of_nat m) == a + (inject_Z (Z.of_nat m) - 1) / 2.
Proof.
  intros Hm. rewrite sumQ_plus, sumQ_const, sumQ_iota.
  assert (0 < inject_Z (Z.of_nat m)) by (change 0 with (inject_Z 0); rewrite <- Zlt_Qlt; lia).
  field. lra.
Qed.

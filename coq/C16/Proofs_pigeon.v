(* C16: the acceptance test of Grid::iteratorInit admits exactly the (signed, 1-based) permutations of the dimensions.
   Pigeonhole: n entries covering the n dimensions cover each of them once. *)
From Coq Require Import List ZArith Bool Lia Permutation.
From Gst Require Import C16.Model C16.Proofs_mirror.
Import ListNotations.
Local Open Scope Z_scope.

Definition ocode (o : Z) : Z := Z.abs o - 1.

Lemma valid_incl n order : iter_order_valid n order = true ->
  incl (map Z.of_nat (seq 0 n)) (map ocode order).
Proof.
  unfold iter_order_valid. rewrite forallb_forall. intros H z Hz.
  apply in_map_iff in Hz. destruct Hz as [i [<- Hi]].
  specialize (H i Hi). apply existsb_exists in H. destruct H as [o [Ho He]].
  apply Z.eqb_eq in He. apply in_map_iff. exists o. split; [exact He|exact Ho].
Qed.

Lemma nodup_of_nat_seq n : NoDup (map Z.of_nat (seq 0 n)).
Proof.
  apply FinFun.Injective_map_NoDup; [|apply seq_NoDup].
  intros a b Hab. lia.
Qed.

Lemma valid_perm_codes n order : length order = n -> iter_order_valid n order = true ->
  Permutation (map Z.of_nat (seq 0 n)) (map ocode order).
Proof.
  intros Hlen Hv. apply NoDup_Permutation_bis.
  - apply nodup_of_nat_seq.
  - rewrite !map_length, seq_length. lia.
  - apply valid_incl. exact Hv.
Qed.

Lemma valid_is_permutation n order : length order = n -> iter_order_valid n order = true ->
  Forall (fun o => 1 <= Z.abs o) order /\ Permutation (map od order) (seq 0 n).
Proof.
  intros Hlen Hv. pose proof (valid_perm_codes n order Hlen Hv) as HP. split.
  - apply Forall_forall. intros o Ho.
    assert (Hin : In (ocode o) (map Z.of_nat (seq 0 n))).
    { eapply Permutation_in; [apply Permutation_sym; exact HP|apply in_map; exact Ho]. }
    apply in_map_iff in Hin. destruct Hin as [i [Hi _]]. unfold ocode in Hi. lia.
  - apply Permutation_sym.
    replace (seq 0 n) with (map Z.to_nat (map Z.of_nat (seq 0 n))).
    + replace (map od order) with (map Z.to_nat (map ocode order)) by (rewrite map_map; reflexivity).
      apply Permutation_map. exact HP.
    + rewrite map_map. rewrite <- (map_id (seq 0 n)) at 2. apply map_ext. intros i. lia.
Qed.

(* conversely a permutation passes the test *)
Lemma permutation_is_valid n order :
  Forall (fun o => 1 <= Z.abs o) order -> Permutation (map od order) (seq 0 n) -> iter_order_valid n order = true.
Proof.
  intros Hpos HP. unfold iter_order_valid. apply forallb_forall. intros i Hi.
  assert (Hin : In i (map od order)) by (eapply Permutation_in; [apply Permutation_sym; exact HP|exact Hi]).
  apply in_map_iff in Hin. destruct Hin as [o [Ho Hino]].
  apply existsb_exists. exists o. split; [exact Hino|].
  rewrite Forall_forall in Hpos. specialize (Hpos o Hino). apply Z.eqb_eq. unfold od in Ho. lia.
Qed.

(* whatever iteratorInit keeps (default order, accepted user order) is a permutation; a rejected order cancels the iterator *)
Lemma iter_init_order_perm n order : iter_init_order n order <> [] ->
  Forall (fun o => 1 <= Z.abs o) (iter_init_order n order) /\
  Permutation (map od (iter_init_order n order)) (seq 0 n).
Proof.
  unfold iter_init_order. destruct order as [|o r].
  - intros _. destruct (default_order_perm n) as [H1 H2]. split; [exact H1|rewrite H2; apply Permutation_refl].
  - destruct (Nat.eqb (length (o :: r)) n) eqn:El; cbn [negb].
    + destruct (iter_order_valid n (o :: r)) eqn:Ev; [|intros H; exfalso; apply H; reflexivity].
      intros _. apply valid_is_permutation; [apply Nat.eqb_eq; exact El|exact Ev].
    + intros _. destruct (default_order_perm n) as [H1 H2]. split; [exact H1|rewrite H2; apply Permutation_refl].
Qed.

Lemma iter_init_order_accepts n order : order <> [] -> length order = n ->
  Forall (fun o => 1 <= Z.abs o) order -> Permutation (map od order) (seq 0 n) -> iter_init_order n order = order.
Proof.
  intros Hne Hlen Hpos HP. unfold iter_init_order. destruct order as [|o r]; [congruence|].
  rewrite (proj2 (Nat.eqb_eq _ _) Hlen). cbn [negb]. rewrite (permutation_is_valid n _ Hpos HP). reflexivity.
Qed.

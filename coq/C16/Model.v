(* C16 model: executable mirror (exact arithmetic: indices/ranks in Z, coordinates in Q) of
     Grid::rankToIndice                      /repo/src/Basic/Grid.cpp:551
     Grid::indiceToRank                      Grid.cpp:529
     Grid::indicesToCoordinateInPlace        Grid.cpp:478   (indiceToCoordinate :449, rankToCoordinates :517)
     Grid::coordinateToIndicesInPlace        Grid.cpp:586   (coordinateToRank :627)
     Grid::getCoordinatesByIndice            Grid.cpp:358   (getCoordinatesByCorner :392, getCoordinate :328)
     Grid::sampleBelongsToCell               Grid.cpp:1166 / 1220
     Grid::dilate / multiple / divider       Grid.cpp:885 / 926 / 984
     Grid::generateMirrorIndex               Grid.cpp:1140
     Grid::iteratorInit / iteratorNext       Grid.cpp:790 / 846
     Rotation::rotateDirect / rotateInverse  /repo/src/Basic/Rotation.cpp:150 / 163
     Rotation::_directToInverse / _checkRotForIdentity   Rotation.cpp:181 / 193
     GH::rotation2DMatrixInPlace / rotation3DMatrixInPlace   /repo/src/Geometry/GeometryHelper.cpp:132 / 157
     DbGrid::createCoarse / createRefine / createSubGrid     /repo/src/Db/DbGrid.cpp:356 / 553 / 1489
     st_locate_point_on_grid                 /repo/src/Calculators/CalcMigrate.cpp:373
     point_to_grid                           /repo/src/Core/db.cpp:747
   No proofs here.  C [int] is modelled by Z (no wrap-around), C integer division by Z.quot. *)
From Coq Require Import List ZArith QArith Qround Qabs Bool.
From Gst Require Import lib.QAux.
Import ListNotations.
Local Open Scope Q_scope.

(* ------------------------------------------------------------------ vectors and matrices *)
Fixpoint map2 {A B C : Type} (f : A -> B -> C) (a : list A) (b : list B) : list C :=
  match a, b with
  | x :: a', y :: b' => f x y :: map2 f a' b'
  | _, _ => []
  end.

Definition vadd : list Q -> list Q -> list Q := map2 Qplus.
Definition vsub : list Q -> list Q -> list Q := map2 Qminus.

Fixpoint dot (a b : list Q) : Q :=
  match a, b with
  | x :: a', y :: b' => x * y + dot a' b'
  | _, _ => 0
  end.

(* a matrix is the list of its rows; y = M x  (AMatrixDense::_prodMatVecInPlacePtr, transpose=false) *)
Definition mvec (M : list (list Q)) (v : list Q) : list Q := map (fun r => dot r v) M.
Definition mget (M : list (list Q)) (i j : nat) : Q := nth j (nth i M []) 0.
Definition col (j : nat) (M : list (list Q)) : list Q := map (fun r => nth j r 0) M.
Definition transpose (n : nat) (M : list (list Q)) : list (list Q) := map (fun j => col j M) (seq 0 n).
Definition delta (i j : nat) : Q := if Nat.eqb i j then 1 else 0.
Definition idmat (n : nat) : list (list Q) := map (fun i => map (fun j => delta i j) (seq 0 n)) (seq 0 n).

(* ------------------------------------------------------------------ Rotation *)
Record rotation := { r_flag : bool; r_mat : list (list Q); r_inv : list (list Q) }.

(* AMatrix::isIdentity (AMatrix.cpp:277): every |a_ij - delta_ij| <= EPSILON10 *)
Definition eps10 : Q := 1 # 10000000000.
Definition is_identity_eps (n : nat) (M : list (list Q)) : bool :=
  forallb (fun i => forallb (fun j => qleb (Qabs (mget M i j - delta i j)) eps10) (seq 0 n)) (seq 0 n).

(* Rotation::resetFromSpaceDimension *)
Definition rot_identity (n : nat) : rotation := {| r_flag := false; r_mat := idmat n; r_inv := idmat n |}.
(* Rotation::setMatrixDirect / setAngles after the matrix is known:
   _rotInv = transpose(_rotMat); _flagRot = !isIdentity(_rotMat) *)
Definition rot_of_matrix (n : nat) (M : list (list Q)) : rotation :=
  {| r_flag := negb (is_identity_eps n M); r_mat := M; r_inv := transpose n M |}.

(* Rotation::rotateDirect / rotateInverse: copy when not rotated *)
Definition rotate_direct (r : rotation) (v : list Q) : list Q := if r_flag r then mvec (r_mat r) v else v.
Definition rotate_inverse (r : rotation) (v : list Q) : list Q := if r_flag r then mvec (r_inv r) v else v.

(* GH::rotation2DMatrixInPlace fills rot = [ca; sa; -sa; ca], read column-major by AMatrix::setValues:
   M(irow,icol) = rot[icol*n + irow]. Rows: *)
Definition rot2d (c s : Q) : list (list Q) := [[c; - s]; [s; c]].
(* GH::rotation3DMatrixInPlace, same column-major reading *)
Definition rot3d (c0 s0 c1 s1 c2 s2 : Q) : list (list Q) :=
  [[c0 * c1; - s0 * c2 + c0 * s1 * s2;  s0 * s2 + c0 * s1 * c2];
   [s0 * c1;   c0 * c2 + s0 * s1 * s2; - c0 * s2 + s0 * s1 * c2];
   [- s1;      c1 * s2;                  c1 * c2]].

(* ------------------------------------------------------------------ Grid *)
Record grid := { g_nx : list Z; g_x0 : list Q; g_dx : list Q; g_rot : rotation }.

Definition prodZ (l : list Z) : Z := fold_right Z.mul 1%Z l.

(* Grid::indiceToRank on reversed lists: Horner from the last dimension, -1 as soon as one index is out of range *)
Definition out_of_range (i n : Z) : bool := (i <? 0)%Z || (n <=? i)%Z.
Fixpoint i2r_rev (nr ir : list Z) (acc : Z) : Z :=
  match nr, ir with
  | n :: ns, i :: is' => if out_of_range i n then (-1)%Z else i2r_rev ns is' (acc * n + i)%Z
  | _, _ => acc
  end.
Definition indiceToRank (nx ind : list Z) : Z := i2r_rev (rev nx) (rev ind) 0%Z.

(* Grid::rankToIndice: nval = prod (nx - minus); from the last dimension:
   nval /= nx[idim]-minus; ind = rank / nval; rank -= ind * nval *)
Fixpoint r2i_rev (nr : list Z) (nval rank : Z) : list Z :=
  match nr with
  | [] => []
  | n :: ns => let nval' := Z.quot nval n in
               let q := Z.quot rank nval' in
               q :: r2i_rev ns nval' (rank - q * nval')%Z
  end.
Definition rankToIndice (nx : list Z) (rank : Z) (minusOne : bool) : list Z :=
  let nxm := if minusOne then map (fun n => (n - 1)%Z) nx else nx in
  rev (r2i_rev (rev nxm) (prodZ nxm) rank).

(* Grid::indicesToCoordinateInPlace:
   _work1 = (indice + percent) * dx ; rotateDirect ; + x0   (percent empty = no offset) *)
Definition scaled (g : grid) (ind : list Z) (percent : list Q) : list Q :=
  let pz := match percent with [] => map (fun _ => 0) ind | _ => percent end in
  map2 Qmult (map2 (fun i p => inject_Z i + p) ind pz) (g_dx g).
Definition i2c (g : grid) (ind : list Z) (percent : list Q) (flag_rotate : bool) : list Q :=
  let w1 := scaled g ind percent in
  let w2 := if flag_rotate then rotate_direct (g_rot g) w1 else w1 in
  vadd w2 (g_x0 g).
Definition node (g : grid) (ind : list Z) : list Q := i2c g ind [] true.
Definition rankToCoordinates (g : grid) (rank : Z) (percent : list Q) : list Q :=
  i2c g (rankToIndice (g_nx g) rank false) percent true.

(* Grid::getCoordinatesByIndice(indice, flag_rotate, shift, dxsPerCell):
   _work1 = indice*dx (+ shift*ext/2, ext = dxsPerCell or dx) *)
Definition coords_by_indice (g : grid) (ind : list Z) (flag_rotate : bool) (shift : list Z) (dxs : list Q) : list Q :=
  let base := map2 (fun i d => inject_Z i * d) ind (g_dx g) in
  let w1 := match shift with
            | [] => base
            | _ => let ext := match dxs with [] => g_dx g | _ => dxs end in
                   vadd base (map2 (fun s e => inject_Z s * e / 2) shift ext)
            end in
  let w2 := if flag_rotate then rotate_direct (g_rot g) w1 else w1 in
  vadd w2 (g_x0 g).
(* Grid::getCoordinatesByCorner *)
Definition coords_by_corner (g : grid) (icorner : list Z) : list Q :=
  coords_by_indice g (map2 (fun c n => if (0 <? c)%Z then (n - 1)%Z else 0%Z) icorner (g_nx g)) true [] [].

(* Grid::coordinateToIndicesInPlace: shift by origin, inverse rotation,
   ix = floor(w/dx + 0.5 + eps) (centered) or floor(w/dx + eps); outside iff some ix out of [0,nx) *)
Definition half_if (centered : bool) : Q := if centered then 1 # 2 else 0.
Definition c2i_t (centered : bool) (eps w d : Q) : Q := w / d + half_if centered + eps.
Definition c2i_axis (centered : bool) (eps w d : Q) : Z := Qfloor (c2i_t centered eps w d).
Definition grid_frame (g : grid) (coor : list Q) : list Q := rotate_inverse (g_rot g) (vsub coor (g_x0 g)).
Definition any_out (idx nx : list Z) : bool := existsb (fun b => b) (map2 out_of_range idx nx).
Definition c2i (g : grid) (coor : list Q) (centered : bool) (eps : Q) : bool * list Z :=
  let idx := map2 (c2i_axis centered eps) (grid_frame g coor) (g_dx g) in
  (any_out idx (g_nx g), idx).
(* Grid::coordinateToRank *)
Definition coordinateToRank (g : grid) (coor : list Q) (centered : bool) (eps : Q) : Z :=
  let r := c2i g coor centered eps in
  if fst r then (-1)%Z else indiceToRank (g_nx g) (snd r).

(* point_to_grid (db.cpp:747), flag_outside = -1 (no correction): floor(w/dx + 0.5), out flag *)
Definition point_to_grid (g : grid) (coor : list Q) : bool * list Z := c2i g coor true 0.

(* Grid::sampleBelongsToCell(coor, center, dxsPerCell): every |delta| <= dxloc/2
   (grid frame when rotated, plain difference otherwise) *)
Definition belongs (g : grid) (coor center dxs : list Q) : bool :=
  let ext := match dxs with [] => g_dx g | _ => dxs end in
  let del := if r_flag (g_rot g)
             then vsub (grid_frame g coor) (grid_frame g center)
             else vsub center coor in
  forallb (fun b => b) (map2 (fun dl e => negb (qltb (e / 2) (Qabs dl))) del ext).

(* Grid::multiple (after the fix "shift applied in the grid system"):
   perc = (nmult-1)/2 ; coor1 = indicesToCoordinate(0, perc) ; x0 = flagCell ? coor1 : x0 *)
Definition zerosZ (g : grid) : list Z := map (fun _ => 0%Z) (g_nx g).
Definition multiple (g : grid) (nmult : list Z) (flagCell : bool) : list Z * list Q * list Q :=
  let nx := map2 (fun n m => if flagCell then (n / m)%Z else (1 + (n - 1) / m)%Z) (g_nx g) nmult in
  let dx := map2 (fun d m => d * inject_Z m) (g_dx g) nmult in
  let coor1 := i2c g (zerosZ g) (map (fun m => (inject_Z m - 1) / 2) nmult) true in
  let x0 := if flagCell then coor1 else g_x0 g in
  (nx, dx, x0).
(* Grid::divider (after the same fix): perc = -0.5 + 0.5/nmult *)
Definition divider (g : grid) (nmult : list Z) (flagCell : bool) : list Z * list Q * list Q :=
  let nx := map2 (fun n m => if flagCell then (n * m)%Z else (1 + (n - 1) * m)%Z) (g_nx g) nmult in
  let dx := map2 (fun d m => d / inject_Z m) (g_dx g) nmult in
  let coor1 := i2c g (zerosZ g) (map (fun m => - (1 # 2) + (1 # 2) / inject_Z m) nmult) true in
  let x0 := if flagCell then coor1 else g_x0 g in
  (nx, dx, x0).
(* Grid::dilate (after the fix "coor is a fresh vector, no percent"): x0 = indicesToCoordinate(-mode*nshift).
   Returns None when a new count is <= 0 (the C++ returns with partially written outputs). *)
Definition dilate (g : grid) (mode : Z) (nshift : list Z) : option (list Z * list Q * list Q) :=
  let nx := map2 (fun n s => (n + 2 * mode * s)%Z) (g_nx g) nshift in
  if existsb (fun n => (n <=? 0)%Z) nx then None
  else
    let ind := map (fun s => (- mode * s)%Z) nshift in
    Some (nx, g_dx g, i2c g ind [] true).

Definition derived (g : grid) (p : list Z * list Q * list Q) : grid :=
  {| g_nx := fst (fst p); g_dx := snd (fst p); g_x0 := snd p; g_rot := g_rot g |}.

(* DbGrid::createSubGrid geometry (after the fix): NX = lim1 - lim0,
   X0 = gridIn->getCoordinatesByIndice(lim0) (rotation included), same meshes and angles *)
Definition subgrid (g : grid) (lim0 lim1 : list Z) : grid :=
  {| g_nx := map2 (fun a b => (b - a)%Z) lim0 lim1;
     g_dx := g_dx g;
     g_x0 := coords_by_indice g lim0 true [] [];
     g_rot := g_rot g |}.

(* the while loop of Grid::generateMirrorIndex with fuel; None = not ended within [fuel] iterations *)
Fixpoint mirror_fuel (fuel : nat) (nx ix : Z) : option Z :=
  if (ix <? 0)%Z || (nx <=? ix)%Z then
    match fuel with
    | O => None
    | S f => mirror_fuel f nx (if (ix <? 0)%Z then (- ix)%Z
                               else if (nx - 1 <? ix)%Z then (2 * (nx - 1) - ix)%Z else ix)
    end
  else Some ix.
(* Grid::generateMirrorIndex: "if (nx <= 1) return 0;" then the loop *)
Definition mirror_index (fuel : nat) (nx ix : Z) : option Z :=
  if (nx <=? 1)%Z then Some 0%Z else mirror_fuel fuel nx ix.

(* Grid::iteratorInit + iteratorNext.  _order holds 1-based (signed) dimension numbers: the default is
   1..ndim, a user order is accepted when every dimension occurs (|o|-1 = idim for some o).
   iteratorNext: for jdim = ndim-1 .. 0: idim = |_order[jdim]| - 1; nval /= _counts[idim];
   indices[idim] = iech / nval; iech -= indices[idim] * nval.  Then _iter++ unless last.
   [None] = an access beyond the arrays. *)
Fixpoint upd (l : list Z) (k : nat) (v : Z) : option (list Z) :=
  match l, k with
  | [], _ => None
  | _ :: r, O => Some (v :: r)
  | x :: r, S k' => match upd r k' v with Some r' => Some (x :: r') | None => None end
  end.
Definition odim (o : Z) : option nat := if (Z.abs o - 1 <? 0)%Z then None else Some (Z.to_nat (Z.abs o - 1)).
Fixpoint iter_order_loop (counts : list Z) (ord_rev : list Z) (nval iech : Z) (acc : list Z) : option (list Z) :=
  match ord_rev with
  | [] => Some acc
  | o :: rest =>
      match odim o with
      | None => None
      | Some idim =>
          match nth_error counts idim with
          | None => None
          | Some c => let nval' := Z.quot nval c in
                      let dv := Z.quot iech nval' in
                      match upd acc idim dv with
                      | None => None
                      | Some acc' => iter_order_loop counts rest nval' (iech - dv * nval')%Z acc'
                      end
          end
      end
  end.
Definition iter_order_valid (n : nat) (order : list Z) : bool :=
  forallb (fun idim => existsb (fun o => Z.eqb (Z.abs o - 1) (Z.of_nat idim)) order) (seq 0 n).
Definition default_order (n : nat) : list Z := map (fun i => Z.of_nat (S i)) (seq 0 n).
(* the order kept by iteratorInit ([] = iterator cancelled) *)
Definition iter_init_order (n : nat) (order : list Z) : list Z :=
  match order with
  | [] => default_order n
  | _ => if negb (Nat.eqb (length order) n) then default_order n
         else if iter_order_valid n order then order else []
  end.
Definition iter_next_order (nx order : list Z) (it : Z) : option (list Z) :=
  iter_order_loop nx (rev order) (prodZ nx) it (map (fun _ => 0%Z) nx).
(* with the default order idim = jdim: the loop is the one of rankToIndice *)
Definition iter_next (nx : list Z) (it : Z) : list Z * Z :=
  (rev (r2i_rev (rev nx) (prodZ nx) it), if (it <? prodZ nx - 1)%Z then (it + 1)%Z else it).
Fixpoint iter_run (nx : list Z) (k : nat) (it : Z) : list (list Z) :=
  match k with
  | O => []
  | S k' => let r := iter_next nx it in fst r :: iter_run nx k' (snd r)
  end.

(* ------------------------------------------------------------------ sessions of const queries on one object
   Every query below is a const method of Grid / DbGrid (the iterator query is the self-contained sequence
   iteratorInit(); k x iteratorNext()).  The C++ object carries scratch vectors (_iwork0, _work1, _work2) shared
   by these methods; the model has no such state: [eval_query] is a function of the grid and the query only. *)
(* Grid::getCenterIndices: (nx - 1) / 2 *)
Definition center_indices (g : grid) : list Z := map (fun n => Z.quot (n - 1) 2) (g_nx g).

Inductive query :=
| QGetCoordinate (rank : Z) (idim : nat)                 (* Grid::getCoordinate(rank, idim) / DbGrid::getCoordinate / rankToCoordinate *)
| QRankToIndice (rank : Z)
| QIndiceToRank (ind : list Z)
| QCoordinateToRank (coor : list Q) (centered : bool) (eps : Q)
| QCoordinateToIndices (coor : list Q) (centered : bool) (eps : Q)
| QCoordinatesByRank (rank : Z)                          (* getCoordinatesByRank / rankToCoordinates / getCoordinatesPerSample *)
| QCoordinatesByIndice (ind : list Z)
| QCoordinatesByCorner (icorner : list Z)
| QBelongs (coor : list Q) (rank : Z)
| QCenterIndices
| QMultiple (nmult : list Z) (flagCell : bool)
| QDivider (nmult : list Z) (flagCell : bool)
| QDilate (nshift : list Z) (mode : Z)
| QIndicesToCoordinate (ind : list Z) (percent : list Q)
| QCellCorner (rank : Z) (shift : list Z)
| QIterate (k : nat)
| QIndiceToCoordinate (ind : list Z) (idim : nat)
| QPointToGrid (coor : list Q)
| QDefineCoordinates                                     (* db_grid_define_coordinates: the stored X columns it writes *)
| QAllNodes.                                             (* coordinates of every node through getCoordinate: getAllCoordinates, generateCoordinates, getSlice ... *)

Inductive answer :=
| AZ (z : Z) | AZs (l : list Z) | AQ (q : Q) | AQs (l : list Q) | AB (b : bool)
| AOutIdx (out : bool) (idx : list Z)
| ADerived (p : option (list Z * list Q * list Q))
| AZss (l : list (list Z))
| AQss (l : list (list Q)).

(* db_grid_define_coordinates (/repo/src/Core/db.cpp:319): loop on the samples with an odometer ntab (all zero at start):
   coor = dx * ntab ; rotateDirect when the grid is rotated ; + x0 ; written into the X columns; then, for every dimension
   with nval = product of the previous counts: "if ((iech + 1) % nval == 0) { ntab++; if (ntab == nx) ntab = 0; }" *)
Fixpoint odo_step (nxs ntab : list Z) (nval iech1 : Z) : list Z :=
  match nxs, ntab with
  | n :: ns, t :: ts =>
      (if Z.eqb (Z.rem iech1 nval) 0 then (if Z.eqb (t + 1) n then 0%Z else (t + 1)%Z) else t) :: odo_step ns ts (nval * n)%Z iech1
  | _, _ => []
  end.
Fixpoint define_loop (g : grid) (k : nat) (iech : Z) (ntab : list Z) : list (list Q) :=
  match k with
  | O => []
  | S k' => coords_by_indice g ntab true [] [] :: define_loop g k' (iech + 1)%Z (odo_step (g_nx g) ntab 1%Z (iech + 1)%Z)
  end.
Definition define_coordinates (g : grid) : list (list Q) :=
  define_loop g (Z.to_nat (prodZ (g_nx g))) 0%Z (map (fun _ => 0%Z) (g_nx g)).
Definition all_ranks (g : grid) : list Z := map Z.of_nat (seq 0 (Z.to_nat (prodZ (g_nx g)))).

Definition eval_query (g : grid) (q : query) : answer :=
  match q with
  | QGetCoordinate r d => AQ (nth d (rankToCoordinates g r []) 0)
  | QRankToIndice r => AZs (rankToIndice (g_nx g) r false)
  | QIndiceToRank i => AZ (indiceToRank (g_nx g) i)
  | QCoordinateToRank c ce e => AZ (coordinateToRank g c ce e)
  | QCoordinateToIndices c ce e => let r := c2i g c ce e in AOutIdx (fst r) (snd r)
  | QCoordinatesByRank r => AQs (rankToCoordinates g r [])
  | QCoordinatesByIndice i => AQs (coords_by_indice g i true [] [])
  | QCoordinatesByCorner c => AQs (coords_by_corner g c)
  | QBelongs c r => AB (belongs g c (rankToCoordinates g r []) [])
  | QCenterIndices => AZs (center_indices g)
  | QMultiple m fc => ADerived (Some (multiple g m fc))
  | QDivider m fc => ADerived (Some (divider g m fc))
  | QDilate s mode => ADerived (dilate g mode s)
  | QIndicesToCoordinate i p => AQs (i2c g i p true)
  | QCellCorner r s => AQs (coords_by_indice g (rankToIndice (g_nx g) r false) true s [])
  | QIterate k => AZss (iter_run (g_nx g) k 0%Z)
  | QIndiceToCoordinate i d => AQ (nth d (i2c g i [] true) 0)
  | QPointToGrid c => let r := point_to_grid g c in AOutIdx (fst r) (snd r)
  | QDefineCoordinates => AQss (define_coordinates g)
  | QAllNodes => AQss (map (fun r => rankToCoordinates g r []) (all_ranks g))
  end.

(* a session: the object answers the queries one after the other.  The session state records what the C++ object
   remembers between calls (here: the queries already made); the answers never read it. *)
Definition session_state := list query.
Definition step (g : grid) (st : session_state) (q : query) : session_state * answer := (q :: st, eval_query g q).
Fixpoint run_session (g : grid) (st : session_state) (qs : list query) : list answer :=
  match qs with
  | [] => []
  | q :: r => let sa := step g st q in snd sa :: run_session g (fst sa) r
  end.

(* ------------------------------------------------------------------ sessions with the mutating API
   Grid::setX0 / setDX / setNX (Grid.cpp:189-207), setRotationByAngles / setRotationByVector (:209-227; the matrix the
   library builds is given), resetFromVector (:131).  After a mutation the cached rotation matrices and the scratch
   vectors of the C++ object must reflect the new geometry; in the model the state simply IS the geometry. *)
Fixpoint set_nth {A} (l : list A) (k : nat) (v : A) : list A :=
  match l, k with
  | [], _ => []
  | _ :: r, O => v :: r
  | x :: r, S k' => x :: set_nth r k' v
  end.
Inductive mop :=
| MSetX0 (d : nat) (v : Q) | MSetDX (d : nat) (v : Q) | MSetNX (d : nat) (n : Z)
| MSetRot (M : option (list (list Q)))                      (* None: the library built the identity *)
| MReset (nx : list Z) (dx x0 : list Q) (M : option (list (list Q))).
Definition rot_opt (n : nat) (M : option (list (list Q))) : rotation :=
  match M with Some m => rot_of_matrix n m | None => rot_identity n end.
Definition apply_mop (g : grid) (m : mop) : grid :=
  match m with
  | MSetX0 d v => {| g_nx := g_nx g; g_x0 := set_nth (g_x0 g) d v; g_dx := g_dx g; g_rot := g_rot g |}
  | MSetDX d v => {| g_nx := g_nx g; g_x0 := g_x0 g; g_dx := set_nth (g_dx g) d v; g_rot := g_rot g |}
  | MSetNX d n => {| g_nx := set_nth (g_nx g) d n; g_x0 := g_x0 g; g_dx := g_dx g; g_rot := g_rot g |}
  | MSetRot M => {| g_nx := g_nx g; g_x0 := g_x0 g; g_dx := g_dx g; g_rot := rot_opt (length (g_nx g)) M |}
  | MReset nx dx x0 M => {| g_nx := nx; g_x0 := x0; g_dx := dx; g_rot := rot_opt (length nx) M |}
  end.
Inductive sitem := SQ (q : query) | SM (m : mop).
Fixpoint run_msession (g : grid) (items : list sitem) : list (option answer) :=
  match items with
  | [] => []
  | SQ q :: r => Some (eval_query g q) :: run_msession g r
  | SM m :: r => None :: run_msession (apply_mop g m) r
  end.
(* the geometry reached after a list of items *)
Fixpoint final_grid (g : grid) (items : list sitem) : grid :=
  match items with
  | [] => g
  | SQ _ :: r => final_grid g r
  | SM m :: r => final_grid (apply_mop g m) r
  end.

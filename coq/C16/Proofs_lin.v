(* C16 proofs: finite sums, dot products, matrix-vector products on lists; orthogonal matrices *)
From Coq Require Import List ZArith QArith Qround Qabs Bool Lia Lqa Setoid Morphisms.
From Gst Require Import lib.QAux C16.Model C16.Spec.
Import ListNotations.
Local Open Scope Q_scope.

Fixpoint sumQ (n : nat) (f : nat -> Q) : Q :=
  match n with O => 0 | S n' => f O + sumQ n' (fun k => f (S k)) end.

Lemma sumQ_ext n f g : (forall k, (k < n)%nat -> f k == g k) -> sumQ n f == sumQ n g.
Proof.
  revert f g. induction n as [|n IH]; intros f g H; simpl; [reflexivity|].
  rewrite (H O) by lia. rewrite (IH (fun k => f (S k)) (fun k => g (S k))); [reflexivity|].
  intros k Hk. apply H. lia.
Qed.
Lemma sumQ_plus n f g : sumQ n (fun k => f k + g k) == sumQ n f + sumQ n g.
Proof. revert f g. induction n as [|n IH]; intros f g; simpl; [ring|]. rewrite IH. ring. Qed.
Lemma sumQ_scale n c f : sumQ n (fun k => c * f k) == c * sumQ n f.
Proof. revert f. induction n as [|n IH]; intros f; simpl; [ring|]. rewrite IH. ring. Qed.
Lemma sumQ_scale_r n c f : sumQ n (fun k => f k * c) == sumQ n f * c.
Proof. revert f. induction n as [|n IH]; intros f; simpl; [ring|]. rewrite IH. ring. Qed.
Lemma sumQ_zero n : sumQ n (fun _ => 0) == 0.
Proof. induction n; simpl; [reflexivity|]. rewrite IHn. ring. Qed.
Lemma sumQ_swap n m (f : nat -> nat -> Q) :
  sumQ n (fun i => sumQ m (fun j => f i j)) == sumQ m (fun j => sumQ n (fun i => f i j)).
Proof.
  revert f. induction n as [|n IH]; intros f; simpl.
  - symmetry. apply sumQ_zero.
  - rewrite IH. rewrite <- sumQ_plus. reflexivity.
Qed.
Lemma sumQ_delta n i v : (i < n)%nat -> sumQ n (fun j => delta i j * v j) == v i.
Proof.
  revert i v. induction n as [|n IH]; intros i v Hi; [lia|]. simpl.
  destruct i as [|i].
  - unfold delta at 1. simpl.
    rewrite (sumQ_ext n _ (fun _ => 0)); [rewrite sumQ_zero; ring|].
    intros k _. unfold delta. simpl. ring.
  - unfold delta at 1. simpl.
    rewrite (sumQ_ext n _ (fun j => delta i j * v (S j))); [rewrite (IH i (fun j => v (S j))) by lia; ring|].
    intros k _. unfold delta. simpl. reflexivity.
Qed.

(* ---- dot products *)
Lemma dot_sum n a b : length a = n -> length b = n -> dot a b == sumQ n (fun k => nth k a 0 * nth k b 0).
Proof.
  revert a b. induction n as [|n IH]; intros [|x a] [|y b] Ha Hb; simpl in *; try discriminate; [reflexivity|].
  rewrite (IH a b) by lia. reflexivity.
Qed.

Lemma eqlQ_nth n a b : length a = n -> length b = n -> (forall i, (i < n)%nat -> nth i a 0 == nth i b 0) -> eqlQ a b.
Proof.
  revert a b. induction n as [|n IH]; intros [|x a] [|y b] Ha Hb H; simpl in *; try discriminate; [constructor|].
  constructor; [exact (H O ltac:(lia))|]. apply IH; try lia. intros i Hi. exact (H (S i) ltac:(lia)).
Qed.
Lemma eqlQ_length a b : eqlQ a b -> length a = length b.
Proof. induction 1; simpl; congruence. Qed.
Lemma eqlQ_refl a : eqlQ a a.
Proof. induction a; constructor; [reflexivity|assumption]. Qed.
Lemma eqlQ_sym a b : eqlQ a b -> eqlQ b a.
Proof. induction 1; constructor; [symmetry; assumption|assumption]. Qed.
Lemma eqlQ_trans a b c : eqlQ a b -> eqlQ b c -> eqlQ a c.
Proof.
  intros H. revert c. induction H as [|x y a b Hxy H IH]; intros c Hc; inversion Hc as [|y' z b' c' Hyz Hc']; subst; constructor.
  - rewrite Hxy. exact Hyz.
  - apply IH. exact Hc'.
Qed.
Lemma eqlQ_nth' a b i : eqlQ a b -> nth i a 0 == nth i b 0.
Proof. intros H. revert i. induction H; intros [|i]; simpl; try reflexivity; auto. Qed.

Lemma dot_proper_r r a b : eqlQ a b -> dot r a == dot r b.
Proof.
  intros H. revert r. induction H as [|x y a b Hxy H IH]; intros [|z r]; simpl; try reflexivity.
  rewrite Hxy, (IH r). reflexivity.
Qed.
Lemma mvec_proper M a b : eqlQ a b -> eqlQ (mvec M a) (mvec M b).
Proof. intros H. unfold mvec. induction M; simpl; constructor; [apply dot_proper_r; exact H|assumption]. Qed.

Lemma nth_mvec M v i : nth i (mvec M v) 0 = dot (nth i M []) v.
Proof. unfold mvec. exact (map_nth (fun r => dot r v) M [] i). Qed.
Lemma nth_col M i k : nth k (col i M) 0 = nth i (nth k M []) 0.
Proof.
  unfold col. pose proof (map_nth (fun r : list Q => nth i r 0) M [] k) as H.
  cbv beta in H. assert (E : nth i (@nil Q) 0 = 0) by (destruct i; reflexivity). rewrite E in H. exact H.
Qed.
Lemma length_mvec M v : length (mvec M v) = length M.
Proof. apply map_length. Qed.
Lemma length_col M i : length (col i M) = length M.
Proof. apply map_length. Qed.
Lemma length_transpose n M : length (transpose n M) = n.
Proof. unfold transpose. rewrite map_length, seq_length. reflexivity. Qed.
Lemma nth_transpose n M i : (i < n)%nat -> nth i (transpose n M) [] = col i M.
Proof.
  intros Hi. unfold transpose.
  rewrite (nth_indep _ [] (col 0 M)) by (rewrite map_length, seq_length; exact Hi).
  rewrite (map_nth (fun j => col j M) (seq 0 n) 0%nat i). rewrite seq_nth by exact Hi. reflexivity.
Qed.
Lemma mget_transpose n M i k : (i < n)%nat -> mget (transpose n M) i k = mget M k i.
Proof. intros Hi. unfold mget. rewrite nth_transpose by exact Hi. apply nth_col. Qed.
Lemma wfmat_transpose n M : wfmat n M -> wfmat n (transpose n M).
Proof.
  intros [Hl _]. split; [apply length_transpose|].
  unfold transpose. apply Forall_forall. intros r Hr. apply in_map_iff in Hr. destruct Hr as [j [<- _]].
  rewrite length_col. exact Hl.
Qed.
Lemma wfmat_row n M i : wfmat n M -> (i < n)%nat -> length (nth i M []) = n.
Proof.
  intros [Hl Hf] Hi. rewrite Forall_forall in Hf. apply Hf. apply nth_In. lia.
Qed.

(* (A (B v))_i = sum_j (sum_k A_ik B_kj) v_j *)
Lemma mvec_mvec_nth n A B v i : wfmat n A -> wfmat n B -> length v = n -> (i < n)%nat ->
  nth i (mvec A (mvec B v)) 0 == sumQ n (fun j => sumQ n (fun k => mget A i k * mget B k j) * nth j v 0).
Proof.
  intros HA HB Hv Hi.
  rewrite nth_mvec.
  rewrite (dot_sum n) by (try apply wfmat_row; try assumption; rewrite length_mvec; apply HB).
  rewrite (sumQ_ext n _ (fun k => sumQ n (fun j => mget A i k * mget B k j * nth j v 0))).
  - rewrite sumQ_swap. apply sumQ_ext. intros j Hj. rewrite <- sumQ_scale_r. reflexivity.
  - intros k Hk. rewrite nth_mvec. rewrite (dot_sum n) by (try apply wfmat_row; assumption).
    rewrite <- sumQ_scale. apply sumQ_ext. intros j Hj. unfold mget. ring.
Qed.

(* R^T (R v) = v when the columns are orthonormal; R (R^T v) = v when the rows are *)
Lemma rot_inv_dir n M v : wfmat n M -> cols_orthonormal n M -> length v = n ->
  eqlQ (mvec (transpose n M) (mvec M v)) v.
Proof.
  intros HM HO Hv. apply (eqlQ_nth n); [rewrite length_mvec; apply length_transpose|exact Hv|].
  intros i Hi. rewrite (mvec_mvec_nth n) by (try apply wfmat_transpose; assumption).
  rewrite (sumQ_ext n _ (fun j => delta i j * nth j v 0)); [apply sumQ_delta; exact Hi|].
  intros j Hj. rewrite <- (HO i j Hi Hj).
  rewrite (dot_sum n) by (rewrite length_col; apply HM).
  rewrite (sumQ_ext n _ (fun k => nth k (col i M) 0 * nth k (col j M) 0)); [reflexivity|].
  intros k Hk. rewrite mget_transpose by exact Hi. rewrite !nth_col. reflexivity.
Qed.
Lemma rot_dir_inv n M v : wfmat n M -> rows_orthonormal n M -> length v = n ->
  eqlQ (mvec M (mvec (transpose n M) v)) v.
Proof.
  intros HM HO Hv. apply (eqlQ_nth n); [rewrite length_mvec; apply HM|exact Hv|].
  intros i Hi. rewrite (mvec_mvec_nth n) by (try apply wfmat_transpose; assumption).
  rewrite (sumQ_ext n _ (fun j => delta i j * nth j v 0)); [apply sumQ_delta; exact Hi|].
  intros j Hj. rewrite <- (HO i j Hi Hj).
  rewrite (dot_sum n) by (apply wfmat_row; assumption).
  rewrite (sumQ_ext n _ (fun k => nth k (nth i M []) 0 * nth k (nth j M []) 0)); [reflexivity|].
  intros k Hk. rewrite mget_transpose by exact Hk. unfold mget. reflexivity.
Qed.

(* ---- linearity *)
Lemma dot_vadd r a b : length a = length b -> dot r (vadd a b) == dot r a + dot r b.
Proof.
  revert a b. induction r as [|x r IH]; intros [|y a] [|z b] Hl; simpl in *; try discriminate; try ring.
  rewrite IH by lia. ring.
Qed.
Lemma dot_scale r c a : dot r (map (Qmult c) a) == c * dot r a.
Proof. revert a. induction r as [|x r IH]; intros [|y a]; simpl; try ring. rewrite IH. ring. Qed.

(* ---- boolean orthogonality test *)
Lemma forallb_seq_spec n f : forallb f (seq 0 n) = true -> forall i, (i < n)%nat -> f i = true.
Proof. intros H i Hi. rewrite forallb_forall in H. apply H. apply in_seq. lia. Qed.
Lemma orthogonal_b_spec n M : orthogonal_b n M = true -> orthogonal n M.
Proof.
  unfold orthogonal_b. rewrite !andb_true_iff. intros [[Hl Hr] Ho].
  apply Nat.eqb_eq in Hl. rewrite forallb_forall in Hr.
  split; [split; [exact Hl|apply Forall_forall; intros r Hin; apply Nat.eqb_eq; apply Hr; exact Hin]|].
  split; intros i j Hi Hj;
    pose proof (forallb_seq_spec n _ (forallb_seq_spec n _ Ho i Hi) j Hj) as H;
    simpl in H; apply andb_true_iff in H; destruct H as [H1 H2].
  - apply qeqb_true. exact H1.
  - apply qeqb_true. exact H2.
Qed.

Lemma eqlQ_b_complete a b : eqlQ a b -> eqlQ_b a b = true.
Proof. induction 1; simpl; [reflexivity|]. apply andb_true_iff. split; [apply qeqb_true; assumption|assumption]. Qed.

(* C16 spec: the declarative notions the property refers to. *)
From Coq Require Import List ZArith QArith Qround Qabs Qminmax Bool.
From Gst Require Import lib.QAux C16.Model.
Import ListNotations.
Local Open Scope Q_scope.

(* equality of coordinate vectors *)
Definition eqlQ : list Q -> list Q -> Prop := Forall2 Qeq.

(* a well-formed n x n matrix *)
Definition wfmat (n : nat) (M : list (list Q)) : Prop := length M = n /\ Forall (fun r => length r = n) M.

(* R^T R = I (columns orthonormal) and R R^T = I (rows orthonormal) *)
Definition cols_orthonormal (n : nat) (M : list (list Q)) : Prop :=
  forall i j, (i < n)%nat -> (j < n)%nat -> dot (col i M) (col j M) == delta i j.
Definition rows_orthonormal (n : nat) (M : list (list Q)) : Prop :=
  forall i j, (i < n)%nat -> (j < n)%nat -> dot (nth i M []) (nth j M []) == delta i j.
Definition orthogonal (n : nat) (M : list (list Q)) : Prop :=
  wfmat n M /\ cols_orthonormal n M /\ rows_orthonormal n M.

Definition orthogonal_b (n : nat) (M : list (list Q)) : bool :=
  Nat.eqb (length M) n && forallb (fun r => Nat.eqb (length r) n) M &&
  forallb (fun i => forallb (fun j => qeqb (dot (col i M) (col j M)) (delta i j) &&
                                      qeqb (dot (nth i M []) (nth j M [])) (delta i j)) (seq 0 n)) (seq 0 n).

(* a rotation object as the code builds it from a matrix (either flag value: the identity
   short-cut is taken when the matrix is within 1e-10 of the identity) *)
Definition rot_ok (n : nat) (r : rotation) : Prop :=
  r_flag r = false \/ (orthogonal n (r_mat r) /\ r_inv r = transpose n (r_mat r)).

(* a well-formed grid of dimension n: positive counts and meshes *)
Definition wfgrid (n : nat) (g : grid) : Prop :=
  length (g_nx g) = n /\ length (g_x0 g) = n /\ length (g_dx g) = n /\
  Forall (fun k => (0 < k)%Z) (g_nx g) /\ Forall (fun d => 0 < d) (g_dx g) /\ rot_ok n (g_rot g).

(* indices inside the grid *)
Definition inrange (nx ind : list Z) : Prop := Forall2 (fun n i => (0 <= i < n)%Z) nx ind.
Definition inrange_b (nx ind : list Z) : bool :=
  Nat.eqb (length nx) (length ind) && negb (any_out ind nx).

(* the rank of a node: first index varies fastest *)
Fixpoint rank_of (nx ind : list Z) : Z :=
  match nx, ind with
  | n :: ns, i :: is' => (i + n * rank_of ns is')%Z
  | _, _ => 0%Z
  end.

(* reflection of an index into [0, nx-1] by mirroring at 0 and nx-1 (triangle wave of period 2(nx-1)) *)
Definition reflect (nx ix : Z) : Z :=
  let p := (2 * (nx - 1))%Z in
  let m := (ix mod p)%Z in
  if (m <? nx)%Z then m else (p - m)%Z.

(* the cell of index i along one axis, in the grid frame, as the conversion understands it:
   centred:    -dx/2 <= w - i dx + eps dx <  dx/2
   otherwise:      0 <= w - i dx + eps dx <  dx *)
Definition in_cell_axis (centered : bool) (eps w d : Q) (i : Z) : Prop :=
  inject_Z i * d - half_if centered * d <= w + eps * d /\
  w + eps * d < (inject_Z i + 1) * d - half_if centered * d.

(* position in the parent grid of fractional index (ind + percent) *)
Definition frac_node (g : grid) (ind : list Z) (percent : list Q) : list Q := i2c g ind percent true.

(* where the origin (node 0) of a derived grid has to be, by the documented meaning:
   multiple, cell matching : barycentre of the nmult parent nodes 0 .. nmult-1  = fractional index (nmult-1)/2
   multiple, point matching: parent node 0
   divider, cell matching  : centre of the first sub-cell of parent cell 0    = fractional index -1/2 + 1/(2 nmult)
   divider, point matching : parent node 0
   dilate                  : parent node (-mode * nshift)
   sub-grid                : parent node lim0 *)
Definition spec_multiple_x0 (g : grid) (nmult : list Z) (flagCell : bool) : list Q :=
  if flagCell then frac_node g (zerosZ g) (map (fun m => (inject_Z m - 1) / 2) nmult) else node g (zerosZ g).
Definition spec_divider_x0 (g : grid) (nmult : list Z) (flagCell : bool) : list Q :=
  if flagCell then frac_node g (zerosZ g) (map (fun m => -(1 # 2) + 1 / (2 * inject_Z m)) nmult) else node g (zerosZ g).
Definition spec_dilate_x0 (g : grid) (mode : Z) (nshift : list Z) : list Q :=
  node g (map (fun s => (- mode * s)%Z) nshift).
Definition spec_subgrid_x0 (g : grid) (lim0 : list Z) : list Q := node g lim0.

(* margin of a floor decision: distance of t to the nearest integer boundary *)
Definition floor_margin (t : Q) : Q :=
  let f := inject_Z (Qfloor t) in Qmin (t - f) (f + 1 - t).

(* determinants of 2x2 and 3x3 matrices (a rotation has determinant 1) *)
Definition det2 (M : list (list Q)) : Q := mget M 0 0 * mget M 1 1 - mget M 0 1 * mget M 1 0.
Definition det3 (M : list (list Q)) : Q :=
  mget M 0 0 * (mget M 1 1 * mget M 2 2 - mget M 1 2 * mget M 2 1)
  - mget M 0 1 * (mget M 1 0 * mget M 2 2 - mget M 1 2 * mget M 2 0)
  + mget M 0 2 * (mget M 1 0 * mget M 2 1 - mget M 1 1 * mget M 2 0).

(* boolean test of vector equality (used to refute equalities by computation) *)
Fixpoint eqlQ_b (a b : list Q) : bool :=
  match a, b with
  | [], [] => true
  | x :: a', y :: b' => qeqb x y && eqlQ_b a' b'
  | _, _ => false
  end.

From Coq Require Import Extraction ExtrOcamlBasic ExtrOcamlZBigInt ZArith.
From Gst Require Import lib.Sx C16.Run.
Extract Constant Z.gcd => "Big_int_Z.gcd_big_int".
Extraction "model.ml" run.

(* C17 proofs, part 2: parameter identifiers, bounds, constraints, options. *)
From Coq Require Import List Arith ZArith QArith Qabs Bool Lqa Lia Setoid Morphisms.
From Gst Require Import lib.QAux C17.Model C17.ModelPar.
Import ListNotations.

(* ------------------------------------------------------------------ encode / decode *)
Local Open Scope Z_scope.

Lemma quot_step q r : 0 <= q -> 0 <= r < CONGRUENCY -> Z.quot (q * CONGRUENCY + r) CONGRUENCY = q.
Proof.
  intros Hq Hr. unfold CONGRUENCY in *. rewrite Z.quot_div_nonneg by lia.
  rewrite Z.div_add_l by lia. rewrite Z.div_small by lia. lia.
Qed.

Definition small_parid (p : parid) : Prop :=
  0 <= p_imod p < CONGRUENCY /\ 0 <= p_icov p < CONGRUENCY /\ 0 <= p_elem p < CONGRUENCY /\
  0 <= p_ivar p < CONGRUENCY /\ 0 <= p_jvar p < CONGRUENCY.

Lemma decode_encode p : small_parid p -> parid_decode (parid_encode p) = p.
Proof.
  destruct p as [a b c d e]. unfold small_parid. cbn [p_imod p_icov p_elem p_ivar p_jvar].
  intros (Ha & Hb & Hc & Hd & He). unfold parid_decode, parid_encode. cbn [p_imod p_icov p_elem p_ivar p_jvar].
  assert (C0 : 0 < CONGRUENCY) by (unfold CONGRUENCY; lia).
  rewrite (quot_step (((a * CONGRUENCY + b) * CONGRUENCY + c) * CONGRUENCY + d) e) by nia.
  rewrite (quot_step ((a * CONGRUENCY + b) * CONGRUENCY + c) d) by nia.
  rewrite (quot_step (a * CONGRUENCY + b) c) by nia.
  rewrite (quot_step a b) by nia.
  replace (Z.quot a CONGRUENCY) with 0 by (symmetry; apply Z.quot_small; lia).
  f_equal; ring.
Qed.

Lemma encode_inj p q : small_parid p -> small_parid q -> parid_encode p = parid_encode q -> p = q.
Proof. intros Hp Hq E. rewrite <- (decode_encode p Hp), <- (decode_encode q Hq), E. reflexivity. Qed.

(* ------------------------------------------------------------------ options: the "clever setting" only restricts *)
Lemma alter_geom_aniso ndim ndir n2 n3 o :
  o_aniso (alter_geom ndim ndir n2 n3 o) = true -> o_aniso o = true.
Proof.
  unfold alter_geom, alt8, alt7, alt6, alt5, alt4, alt3, alt2, alt1.
  repeat match goal with |- context [if ?c then _ else _] => destruct c; cbn end; auto; discriminate.
Qed.

Lemma alt_rot_steps ndim ndir n2 n3 o :
  o_rot (alt7 (alt6 (alt5 n2 (alt4 ndim n3 (alt3 ndim ndir (alt2 ndim ndir (alt1 ndim n2 n3 o))))))) = true ->
  o_rot o = true.
Proof.
  unfold alt7, alt6, alt5, alt4, alt3, alt2, alt1.
  repeat match goal with |- context [if ?c then _ else _] => destruct c; cbn end; auto; discriminate.
Qed.

Lemma alter_geom_rot ndim ndir n2 n3 o :
  o_rot (alter_geom ndim ndir n2 n3 o) = true ->
  o_rot o = true /\ o_aniso (alter_geom ndim ndir n2 n3 o) = true.
Proof.
  unfold alter_geom. set (o7 := alt7 _). intro H.
  assert (H8 : o_aniso o7 = true /\ o_rot o7 = true).
  { revert H. unfold alt8. destruct (o_aniso o7); cbn; [auto | discriminate]. }
  destruct H8 as [Ha Hr]. split.
  - apply (alt_rot_steps ndim ndir n2 n3 o). exact Hr.
  - unfold alt8. rewrite Ha. cbn. exact Ha.
Qed.

Lemma alter_sill_spec nvar sc sn og o' :
  alter_sill nvar sc sn og = Some o' ->
  o_aniso o' = o_aniso og /\ o_rot o' = o_rot og /\
  (o_goulard o' = true -> o_goulard og = true /\ sc = false) /\
  (o_goulard o' = false -> nvar <= 1).
Proof.
  unfold alter_sill. destruct (sc && sn); [discriminate|].
  destruct sc.
  - cbn [set_goulard o_goulard negb]. rewrite andb_true_r. destruct (1 <? nvar) eqn:E2; [discriminate|].
    intro H. injection H as <-. cbn. apply Z.ltb_ge in E2.
    split; [reflexivity|]. split; [reflexivity|]. split; [discriminate | intros _; exact E2].
  - destruct ((1 <? nvar) && negb (o_goulard og)) eqn:E2; [discriminate|].
    intro H. injection H as <-. split; [reflexivity|]. split; [reflexivity|]. split.
    + intro Hg. split; [exact Hg | reflexivity].
    + intro Hg. rewrite Hg in E2. cbn in E2. rewrite andb_true_r in E2. apply Z.ltb_ge in E2. exact E2.
Qed.

Lemma alter_optvar_restricts ndim ndir zflat nvar sc sn o o' :
  alter_optvar ndim ndir zflat nvar sc sn o = Some o' ->
  (o_aniso o' = true -> o_aniso o = true) /\
  (o_rot o' = true -> o_rot o = true /\ o_aniso o' = true) /\
  (o_goulard o' = true -> o_goulard o = true /\ sc = false) /\
  (o_goulard o' = false -> nvar <= 1).
Proof.
  unfold alter_optvar.
  set (n2 := if ndim =? 2 then _ else _). set (n3 := if ndim =? 3 then _ else _).
  set (og := alter_geom ndim ndir n2 n3 o).
  assert (Gg : o_goulard og = o_goulard o).
  { unfold og, alter_geom, alt8, alt7, alt6, alt5, alt4, alt3, alt2, alt1.
    repeat match goal with |- context [if ?c then _ else _] => destruct c; cbn end; reflexivity. }
  intro H. apply alter_sill_spec in H. destruct H as (Ha & Hr & Hg & Hn).
  split; [rewrite Ha; apply alter_geom_aniso|]. split.
  - rewrite Hr, Ha. apply alter_geom_rot.
  - split; [|exact Hn]. intro G. destruct (Hg G) as [G1 G2]. rewrite <- Gg. auto.
Qed.

(* the variogram-map variant never re-opens what the user locked either *)
Lemma alter_vmap_optvar_restricts ndim nvar sc sn o o' :
  alter_vmap_optvar ndim nvar sc sn o = Some o' ->
  (o_aniso o' = true -> o_aniso o = true) /\
  (o_rot o' = true -> o_rot o = true /\ o_aniso o' = true) /\
  (o_goulard o' = true -> o_goulard o = true /\ sc = false) /\
  (o_goulard o' = false -> nvar <= 1).
Proof.
  unfold alter_vmap_optvar. intro H. apply alter_sill_spec in H. destruct H as (Ha & Hr & Hg & Hn).
  assert (Gg : forall o1 b, o_goulard (set_no3d o1 b) = o_goulard o1) by reflexivity.
  destruct (o_aniso o) eqn:A; cbn [negb] in *.
  - cbn in Ha, Hr, Hg. rewrite A in Ha. split; [auto|]. split; [intro R; rewrite R in Hr; auto|]. split; [exact Hg | exact Hn].
  - cbn in Ha, Hr, Hg. rewrite A in Ha. split; [intro X; congruence|]. split; [intro R; congruence|]. split; [exact Hg | exact Hn].
Qed.

(* ------------------------------------------------------------------ options: list of free parameters *)
Definition is_angle (p : parid) : bool := p_elem p =? E_ANGLE.
Definition is_range (p : parid) : bool := p_elem p =? E_RANGE.
Definition is_anirange (p : parid) : bool := is_range p && (0 <? p_ivar p).

Lemma filter_all {A} (f : A -> bool) l : (forall x, In x l -> f x = true) -> filter f l = l.
Proof.
  induction l as [|a r IH]; intro H; cbn; [reflexivity|].
  rewrite (H a) by (left; reflexivity). f_equal. apply IH. intros x Hx. apply H. right. exact Hx.
Qed.
Lemma filter_none {A} (f : A -> bool) l : (forall x, In x l -> f x = false) -> filter f l = [].
Proof.
  induction l as [|a r IH]; intro H; cbn; [reflexivity|].
  rewrite (H a) by (left; reflexivity). apply IH. intros x Hx. apply H. right. exact Hx.
Qed.

Lemma sill_parids_elem nvar jcov p : In p (sill_parids nvar jcov) -> p_elem p = E_SILL.
Proof.
  unfold sill_parids. rewrite in_flat_map. intros (i & _ & H). apply in_map_iff in H.
  destruct H as (j & <- & _). reflexivity.
Qed.
Lemma anicoef_parids_elem o ndim jcov p :
  In p (anicoef_parids o ndim jcov) -> p_elem p = E_RANGE /\ 0 < p_ivar p.
Proof.
  unfold anicoef_parids. destruct ndim as [|[|[|[|m]]]].
  - cbn. tauto.
  - cbn. tauto.
  - cbn. intros [<-|[]]. cbn. split; [reflexivity | lia].
  - intro H. apply in_app_or in H. destruct H as [H|H].
    + destruct (negb (o_iso2d o)); cbn in H; [|tauto]. destruct H as [<-|[]]. cbn. split; [reflexivity|lia].
    + destruct (negb (o_no3d o)); cbn in H; [|tauto]. destruct H as [<-|[]]. cbn. split; [reflexivity|lia].
  - intro H. apply in_map_iff in H. destruct H as (i & <- & Hi). apply in_seq in Hi. cbn [p_elem p_ivar].
    split; [reflexivity | lia].
Qed.
Lemma anirot_parids_elem o ndim jcov p : In p (anirot_parids o ndim jcov) -> p_elem p = E_ANGLE.
Proof.
  unfold anirot_parids. destruct (_ || _).
  - intros [<-|[]]. reflexivity.
  - intro H. apply in_map_iff in H. destruct H as (i & <- & _). reflexivity.
Qed.

(* the projections other than the one that is set *)
Lemma set_rot_proj o b :
  o_goulard (set_rot o b) = o_goulard o /\ o_aniso (set_rot o b) = o_aniso o /\ o_samerot (set_rot o b) = o_samerot o /\
  o_rot2d (set_rot o b) = o_rot2d o /\ o_no3d (set_rot o b) = o_no3d o /\ o_iso2d (set_rot o b) = o_iso2d o /\
  o_rot (set_rot o b) = b.
Proof. repeat split. Qed.

(* a structure without the ANGLE parameters = the same structure with rotation switched off *)
Lemma parids_cov_rot o ndim nvar jcov ch first first' :
  fst (parids_cov (set_rot o false) ndim nvar jcov ch first)
  = filter (fun p => negb (is_angle p)) (fst (parids_cov (set_rot o true) ndim nvar jcov ch first')).
Proof.
  unfold parids_cov. cbn [fst o_goulard o_aniso o_rot o_samerot set_rot].
  rewrite andb_false_r. cbn [andb].
  rewrite !filter_app.
  assert (K : forall l, (forall p, In p l -> p_elem p <> E_ANGLE) -> filter (fun p => negb (is_angle p)) l = l).
  { intros l H. apply filter_all. intros p Hp. unfold is_angle. apply negb_true_iff. apply Z.eqb_neq. apply H. exact Hp. }
  rewrite K. 2:{ intros p Hp. destruct (negb (o_goulard o)); [|destruct Hp]. rewrite (sill_parids_elem _ _ _ Hp). discriminate. }
  rewrite K. 2:{ intros p Hp. destruct (c_flag_param ch); [|destruct Hp]. destruct Hp as [<-|[]]. discriminate. }
  rewrite K. 2:{ intros p Hp. destruct (0 <? c_flag_range ch); [|destruct Hp]. destruct Hp as [<-|[]]. discriminate. }
  rewrite K. 2:{ intros p Hp. destruct (negb (c_flag_range ch =? 0) && o_aniso o); [|destruct Hp].
                 apply anicoef_parids_elem in Hp. destruct Hp as [-> _]. discriminate. }
  rewrite filter_none; [reflexivity|].
  intros p Hp. destruct (_ && take_rot _ _); [|destruct Hp].
  apply anirot_parids_elem in Hp. unfold is_angle. rewrite Hp. reflexivity.
Qed.

Lemma parid_alloc_rot o ndim nvar chars : forall jcov first first',
  parid_alloc_from (set_rot o false) ndim nvar jcov first chars
  = filter (fun p => negb (is_angle p)) (parid_alloc_from (set_rot o true) ndim nvar jcov first' chars).
Proof.
  induction chars as [|ch r IH]; intros jcov first first'; cbn [parid_alloc_from]; [reflexivity|].
  destruct (parids_cov (set_rot o false) ndim nvar jcov ch first) as [l1 f1] eqn:E1.
  destruct (parids_cov (set_rot o true) ndim nvar jcov ch first') as [l2 f2] eqn:E2.
  rewrite filter_app. rewrite <- (IH (jcov + 1) f1 f2). f_equal.
  change l1 with (fst (l1, f1)). rewrite <- E1. change l2 with (fst (l2, f2)). rewrite <- E2.
  apply parids_cov_rot.
Qed.

(* isotropy: the same list without the ANGLE parameters and without the RANGE parameters of rank >= 1 *)
Definition keep_iso (p : parid) : bool := negb (is_angle p) && negb (is_anirange p).

Lemma parids_cov_iso o ndim nvar jcov ch first first' :
  fst (parids_cov (set_aniso o false) ndim nvar jcov ch first)
  = filter keep_iso (fst (parids_cov (set_aniso o true) ndim nvar jcov ch first')).
Proof.
  unfold parids_cov. cbn [fst o_goulard o_aniso o_rot o_samerot set_aniso].
  rewrite !andb_false_r. cbn [andb]. rewrite !andb_true_r.
  rewrite !filter_app.
  assert (K : forall l, (forall p, In p l -> p_elem p <> E_ANGLE /\ (p_elem p = E_RANGE -> p_ivar p = 0)) -> filter keep_iso l = l).
  { intros l H. apply filter_all. intros p Hp. destruct (H p Hp) as [H1 H2]. unfold keep_iso, is_angle, is_anirange, is_range.
    apply andb_true_iff. split; apply negb_true_iff.
    - apply Z.eqb_neq. exact H1.
    - destruct (Z.eqb_spec (p_elem p) E_RANGE) as [E|E]; [|reflexivity]. rewrite (H2 E). reflexivity. }
  rewrite K. 2:{ intros p Hp. destruct (negb (o_goulard o)); [|destruct Hp]. rewrite (sill_parids_elem _ _ _ Hp). split; discriminate. }
  rewrite K. 2:{ intros p Hp. destruct (c_flag_param ch); [|destruct Hp]. destruct Hp as [<-|[]]. split; discriminate. }
  rewrite K. 2:{ intros p Hp. destruct (0 <? c_flag_range ch); [|destruct Hp]. destruct Hp as [<-|[]]. split; [discriminate | reflexivity]. }
  rewrite (filter_none keep_iso (if negb (c_flag_range ch =? 0) then _ else _)).
  2:{ intros p Hp. destruct (negb (c_flag_range ch =? 0)); [|destruct Hp].
      apply anicoef_parids_elem in Hp. destruct Hp as [He Hi]. unfold keep_iso, is_anirange, is_range, is_angle.
      rewrite He. cbn. apply Z.ltb_lt in Hi. rewrite Hi. reflexivity. }
  rewrite filter_none; [reflexivity|].
  intros p Hp. destruct (_ && take_rot _ _); [|destruct Hp].
  apply anirot_parids_elem in Hp. unfold keep_iso, is_angle. rewrite Hp. reflexivity.
Qed.

Lemma parid_alloc_iso o ndim nvar chars : forall jcov first first',
  parid_alloc_from (set_aniso o false) ndim nvar jcov first chars
  = filter keep_iso (parid_alloc_from (set_aniso o true) ndim nvar jcov first' chars).
Proof.
  induction chars as [|ch r IH]; intros jcov first first'; cbn [parid_alloc_from]; [reflexivity|].
  destruct (parids_cov (set_aniso o false) ndim nvar jcov ch first) as [l1 f1] eqn:E1.
  destruct (parids_cov (set_aniso o true) ndim nvar jcov ch first') as [l2 f2] eqn:E2.
  rewrite filter_app. rewrite <- (IH (jcov + 1) f1 f2). f_equal.
  change l1 with (fst (l1, f1)). rewrite <- E1. change l2 with (fst (l2, f2)). rewrite <- E2.
  apply parids_cov_iso.
Qed.

(* isotropy asked: a structure has a single RANGE parameter (rank 0) if it has a range, none otherwise; no ANGLE *)
Lemma parids_cov_single_range o ndim nvar jcov ch first :
  o_aniso o = false ->
  filter is_range (fst (parids_cov o ndim nvar jcov ch first))
    = (if 0 <? c_flag_range ch then [mkP 0 jcov E_RANGE 0 0] else []) /\
  filter is_angle (fst (parids_cov o ndim nvar jcov ch first)) = [].
Proof.
  intro Ha. unfold parids_cov. cbn [fst]. rewrite Ha. rewrite !andb_false_r. cbn [andb].
  rewrite !app_nil_r. rewrite !filter_app.
  assert (S1 : forall f, (f = is_range \/ f = is_angle) -> filter f (if negb (o_goulard o) then sill_parids nvar jcov else []) = []).
  { intros f Hf. apply filter_none. intros p Hp. destruct (negb (o_goulard o)); [|destruct Hp].
    apply sill_parids_elem in Hp. destruct Hf as [->| ->]; unfold is_range, is_angle; rewrite Hp; reflexivity. }
  rewrite (S1 is_range) by (left; reflexivity). rewrite (S1 is_angle) by (right; reflexivity).
  destruct (c_flag_param ch); destruct (0 <? c_flag_range ch); cbn; split; reflexivity.
Qed.

(* locked rotation: no ANGLE parameter at all *)
Lemma parid_alloc_no_angle o ndim nvar chars : forall jcov first,
  o_rot o = false -> filter is_angle (parid_alloc_from o ndim nvar jcov first chars) = [].
Proof.
  induction chars as [|ch r IH]; intros jcov first Hr; cbn [parid_alloc_from]; [reflexivity|].
  destruct (parids_cov o ndim nvar jcov ch first) as [l1 f1] eqn:E1.
  rewrite filter_app, (IH _ _ Hr), app_nil_r.
  change l1 with (fst (l1, f1)). rewrite <- E1. unfold parids_cov. cbn [fst]. rewrite Hr.
  rewrite !andb_false_r. cbn [andb]. rewrite !filter_app. cbn [filter]. rewrite app_nil_r.
  assert (K : forall l, (forall p, In p l -> p_elem p <> E_ANGLE) -> filter is_angle l = []).
  { intros l H. apply filter_none. intros p Hp. unfold is_angle. apply Z.eqb_neq. apply H. exact Hp. }
  rewrite K. 2:{ intros p Hp. destruct (negb (o_goulard o)); [|destruct Hp]. rewrite (sill_parids_elem _ _ _ Hp). discriminate. }
  rewrite K. 2:{ intros p Hp. destruct (c_flag_param ch); [|destruct Hp]. destruct Hp as [<-|[]]. discriminate. }
  rewrite K. 2:{ intros p Hp. destruct (0 <? c_flag_range ch); [|destruct Hp]. destruct Hp as [<-|[]]. discriminate. }
  rewrite K. 2:{ intros p Hp. destruct (negb (c_flag_range ch =? 0) && o_aniso o); [|destruct Hp].
                 apply anicoef_parids_elem in Hp. destruct Hp as [-> _]. discriminate. }
  reflexivity.
Qed.

(* ------------------------------------------------------------------ constraints_get *)
Lemma constraints_get_none items icase p :
  (forall it, In it items -> designates it p = false) -> constraints_get items icase p = None.
Proof.
  induction items as [|it r IH]; intro H; cbn [constraints_get]; [reflexivity|].
  rewrite (H it) by (left; reflexivity). cbn. apply IH. intros x Hx. apply H. right. exact Hx.
Qed.

Lemma constraints_get_skip pre post icase p :
  (forall it, In it pre -> designates it p = false) ->
  constraints_get (pre ++ post) icase p = constraints_get post icase p.
Proof.
  induction pre as [|it r IH]; intro H; cbn [app constraints_get]; [reflexivity|].
  rewrite (H it) by (left; reflexivity). cbn. apply IH. intros x Hx. apply H. right. exact Hx.
Qed.

(* the first item designating p decides *)
Lemma constraints_get_first pre it post p :
  (forall x, In x pre -> designates x p = false) -> designates it p = true ->
  (ci_case it = T_LOWER -> constraints_get (pre ++ it :: post) T_LOWER p = ci_val it) /\
  (ci_case it = T_UPPER -> constraints_get (pre ++ it :: post) T_UPPER p = ci_val it) /\
  (ci_case it = T_DEFAULT -> constraints_get (pre ++ it :: post) T_DEFAULT p = ci_val it) /\
  (ci_case it = T_EQUAL -> constraints_get (pre ++ it :: post) T_LOWER p = ci_val it /\
                           constraints_get (pre ++ it :: post) T_UPPER p = ci_val it).
Proof.
  intros Hpre Hit. rewrite !(constraints_get_skip pre _ _ p Hpre). cbn [constraints_get]. rewrite Hit. cbn [negb].
  split; [|split; [|split]]; intro E; rewrite E; try reflexivity. split; reflexivity.
Qed.

(* ------------------------------------------------------------------ st_affect and the bound vectors *)
Local Open Scope Q_scope.

Definition merge_lower (user dflt : option Q) : option Q :=
  match dflt with None => user | Some lv => match user with Some x => Some (cmax x lv) | None => Some lv end end.
Definition merge_upper (user dflt : option Q) : option Q :=
  match dflt with None => user | Some uv => match user with Some x => Some (cmin x uv) | None => Some uv end end.

Lemma affect_bounds def lo up p l u :
  snd (fst (affect def lo up (p, l, u))) = merge_lower lo l /\ snd (affect def lo up (p, l, u)) = merge_upper up u.
Proof. unfold affect, merge_lower, merge_upper. destruct l, u; cbn; split; reflexivity. Qed.

Lemma apply_one_bounds items p pp l u :
  snd (fst (apply_one items p (pp, l, u))) = merge_lower (constraints_get items T_LOWER p) l /\
  snd (apply_one items p (pp, l, u)) = merge_upper (constraints_get items T_UPPER p) u.
Proof. unfold apply_one. apply affect_bounds. Qed.

Lemma constraints_apply_nth items : forall ps ts k,
  nth_error (constraints_apply items ps ts) k =
  match nth_error ps k, nth_error ts k with
  | Some p, Some t => Some (apply_one items p t)
  | _, _ => None
  end.
Proof.
  unfold constraints_apply.
  induction ps as [|p pr IH]; intros ts k.
  - cbn. destruct k; reflexivity.
  - destruct ts as [|t tr].
    + cbn. destruct k; cbn; [reflexivity|]. destruct (nth_error pr k); reflexivity.
    + destruct k; cbn; [reflexivity|]. apply IH.
Qed.

Lemma constraints_apply_encoded items ps (ts : list pbound) k p (pp l u : option Q) :
  nth_error ps k = Some p -> nth_error ts k = Some (pp, l, u) ->
  exists t', nth_error (constraints_apply items ps ts) k = Some t' /\
    snd (fst t') = merge_lower (constraints_get items T_LOWER p) l /\
    snd t' = merge_upper (constraints_get items T_UPPER p) u.
Proof.
  intros Hp Ht. exists (apply_one items p (pp, l, u)). split.
  - rewrite constraints_apply_nth. rewrite Hp. cbv beta iota. destruct (nth_error ts k) as [t|]; [|discriminate].
    injection Ht as ->. reflexivity.
  - exact (apply_one_bounds items p pp l u).
Qed.

(* no item designates p: the default bounds are untouched *)
Lemma apply_one_untouched items p pp l u :
  (forall it, In it items -> designates it p = false) ->
  snd (fst (apply_one items p (pp, l, u))) = l /\ snd (apply_one items p (pp, l, u)) = u.
Proof.
  intro H. destruct (apply_one_bounds items p pp l u) as [E1 E2]. rewrite E1, E2.
  rewrite !constraints_get_none by exact H. unfold merge_lower, merge_upper. destruct l, u; split; reflexivity.
Qed.

Lemma cmax_l a b : b <= a -> cmax a b == a.
Proof. intro H. unfold cmax. destruct (qltb_spec b a); lra. Qed.
Lemma cmin_l a b : a <= b -> cmin a b == a.
Proof. intro H. unfold cmin. destruct (qltb_spec a b); lra. Qed.

Definition oq_eq (a : option Q) (v : Q) : Prop := match a with Some x => x == v | None => False end.

(* an equality item (first to designate p) whose value is compatible with the default bounds: lower = upper = value *)
Lemma apply_one_equal pre it post p pp l u v :
  (forall x, In x pre -> designates x p = false) -> designates it p = true ->
  ci_case it = T_EQUAL -> ci_val it = Some v ->
  (match l with Some lv => lv <= v | None => True end) ->
  (match u with Some uv => v <= uv | None => True end) ->
  oq_eq (snd (fst (apply_one (pre ++ it :: post) p (pp, l, u)))) v /\
  oq_eq (snd (apply_one (pre ++ it :: post) p (pp, l, u))) v.
Proof.
  intros Hpre Hit Hc Hv Hl Hu.
  destruct (apply_one_bounds (pre ++ it :: post) p pp l u) as [E1 E2]. rewrite E1, E2.
  destruct (constraints_get_first pre it post p Hpre Hit) as (_ & _ & _ & HE). destruct (HE Hc) as [G1 G2].
  rewrite G1, G2, Hv. unfold merge_lower, merge_upper, oq_eq.
  split.
  - destruct l as [lv|]; [apply cmax_l; exact Hl | reflexivity].
  - destruct u as [uv|]; [apply cmin_l; exact Hu | reflexivity].
Qed.

(* ------------------------------------------------------------------ check_param: the clamp *)
Definition in_bounds (t : pbound) : Prop :=
  match t with
  | (Some p, l, u) => (match l with Some lv => lv <= p | None => True end) /\
                      (match u with Some uv => p <= uv | None => True end)
  | (None, _, _) => True
  end.

Lemma clamp_one_in_bounds t : bad_bounds t = false -> in_bounds (clamp_one t).
Proof.
  destruct t as [[[p|] [l|]] [u|]]; cbn; intro H; try exact I.
  - apply qltb_false in H. destruct (qltb_spec p l); cbn.
    + destruct (qltb_spec u l); cbn; split; lra.
    + destruct (qltb_spec u p); cbn; split; lra.
  - destruct (qltb_spec p l); cbn; split; try exact I; lra.
  - destruct (qltb_spec u p); cbn; split; try exact I; lra.
  - split; exact I.
Qed.

Lemma clamp_one_keeps_bounds t : snd (fst (clamp_one t)) = snd (fst t) /\ snd (clamp_one t) = snd t.
Proof. destruct t as [[p l] u]. cbn. split; reflexivity. Qed.

Lemma check_param_in_bounds ts ts' :
  check_param ts = Some ts' -> Forall in_bounds ts'.
Proof.
  unfold check_param. destruct (existsb bad_bounds ts) eqn:E; [discriminate|]. intro H. injection H as <-.
  apply Forall_forall. intros t Ht. apply in_map_iff in Ht. destruct Ht as (t0 & <- & Ht0).
  apply clamp_one_in_bounds. destruct (bad_bounds t0) eqn:B; [|reflexivity].
  exfalso. assert (existsb bad_bounds ts = true) by (apply existsb_exists; exists t0; auto). congruence.
Qed.

(* lower > upper on some parameter: foxleg_f refuses to start *)
Lemma check_param_rejects ts :
  check_param ts = None <->
  exists p l u, In (p, Some l, Some u) ts /\ u < l.
Proof.
  unfold check_param. split.
  - destruct (existsb bad_bounds ts) eqn:E; [|discriminate]. intros _.
    apply existsb_exists in E. destruct E as ([[p [l|]] [u|]] & Hin & Hb); cbn in Hb; try discriminate.
    exists p, l, u. split; [exact Hin | apply qltb_true; exact Hb].
  - intros (p & l & u & Hin & Hlt).
    assert (E : existsb bad_bounds ts = true).
    { apply existsb_exists. exists (p, Some l, Some u). split; [exact Hin|]. cbn. apply qltb_true. exact Hlt. }
    rewrite E. reflexivity.
Qed.

(* ------------------------------------------------------------------ foxleg steps stay inside *)
Lemma cabs_nonneg a : 0 <= cabs a.
Proof. unfold cabs. destruct (qltb_spec a 0); lra. Qed.

Lemma define_bounds_sound delta scale p l u :
  0 <= delta * scale ->
  (match l with Some lv => lv <= p | None => True end) ->
  (match u with Some uv => p <= uv | None => True end) ->
  let b := define_bounds_one delta scale p l u in
  fst b <= 0 /\ 0 <= snd b /\
  forall h e, 0 <= e -> fst b - e <= h -> h <= snd b + e ->
    (match l with Some lv => lv - e <= p + h | None => True end) /\
    (match u with Some uv => p + h <= uv + e | None => True end).
Proof.
  intros Hd Hl Hu. unfold define_bounds_one. cbn [fst snd].
  set (dloc := delta * scale) in *.
  (* lower side: 0 <= diff <= p - lv *)
  assert (L : match l with
              | Some lv => exists diff, 0 <= diff /\ diff <= p - lv /\
                  (let d0 := p - lv in let d1 := if qltb dloc d0 then dloc else d0 in
                   let d2 := if qltb (cabs (p - d1)) (dloc / 10) then d1 / 2 else d1 in - d2) == - diff
              | None => True end).
  { destruct l as [lv|]; [|exact I]. cbn zeta. cbn in Hl.
    destruct (qltb_spec dloc (p - lv)) as [A|A];
    match goal with |- context [qltb ?x ?y] => destruct (qltb_spec x y) as [B|B] end;
    eexists; (split; [|split; [|reflexivity]]); unfold Qdiv in *; change (/ 2) with (1#2) in *; change (/ 10) with (1#10) in *; lra. }
  assert (U : match u with
              | Some uv => exists diff, 0 <= diff /\ diff <= uv - p /\
                  (let d0 := uv - p in let d1 := if qltb dloc d0 then dloc else d0 in
                   let d2 := if qltb (cabs (p - d1)) (dloc / 10) then d1 / 2 else d1 in d2) == diff
              | None => True end).
  { destruct u as [uv|]; [|exact I]. cbn zeta. cbn in Hu.
    destruct (qltb_spec dloc (uv - p)) as [A|A];
    match goal with |- context [qltb ?x ?y] => destruct (qltb_spec x y) as [B|B] end;
    eexists; (split; [|split; [|reflexivity]]); unfold Qdiv in *; change (/ 2) with (1#2) in *; change (/ 10) with (1#10) in *; lra. }
  destruct l as [lv|], u as [uv|]; cbn zeta in *.
  - destruct L as (d1 & L1 & L2 & L3). destruct U as (d2 & U1 & U2 & U3). rewrite L3, U3.
    split; [lra|]. split; [lra|]. intros h e He H1 H2. split; lra.
  - destruct L as (d1 & L1 & L2 & L3). rewrite L3.
    split; [lra|]. split; [lra|]. intros h e He H1 H2. split; [lra | exact I].
  - destruct U as (d2 & U1 & U2 & U3). rewrite U3.
    split; [lra|]. split; [lra|]. intros h e He H1 H2. split; [exact I | lra].
  - split; [lra|]. split; [lra|]. intros. split; exact I.
Qed.

Lemma shift_ok_spec b s : shift_ok b s = true <-> fst b - eps9 <= s /\ s <= snd b + eps9.
Proof.
  unfold shift_ok. rewrite andb_true_iff, !negb_true_iff, !qltb_false. tauto.
Qed.

Lemma grad_points_in_bounds eps p l u :
  0 <= eps ->
  (match l with Some lv => lv <= p | None => True end) ->
  (match u with Some uv => p <= uv | None => True end) ->
  in_bounds (Some (fst (grad_points eps p l u)), l, u) /\ in_bounds (Some (snd (grad_points eps p l u)), l, u).
Proof.
  intros He Hl Hu. unfold grad_points, in_bounds, cmin, cmax. cbn [fst snd].
  destruct l as [lv|], u as [uv|];
  repeat match goal with |- context [qltb ?x ?y] => destruct (qltb_spec x y) end;
  repeat split; try exact I; lra.
Qed.

(* ------------------------------------------------------------------ ranges written into the model *)
Lemma set_nthq_forall (P : Q -> Prop) k x l : P x -> Forall P l -> Forall P (set_nthq k x l).
Proof.
  intros Hx. revert k. induction l as [|y r IH]; intros k H; destruct k; cbn; try constructor; inversion H; subst; auto.
Qed.

Lemma range_write_forall (P : Q -> Prop) ranges ivar v :
  P v -> Forall P ranges -> Forall P (range_write ranges ivar v).
Proof.
  intros Hv H. unfold range_write.
  assert (H1 : Forall P (if Z.eqb ivar 0 then map (fun _ => v) ranges else ranges)).
  { destruct (Z.eqb ivar 0); [|exact H]. apply Forall_forall. intros x Hx. apply in_map_iff in Hx.
    destruct Hx as (_ & <- & _). exact Hv. }
  destruct (_ && Z.ltb _ _); [apply set_nthq_forall; assumption | exact H1].
Qed.

(* every range written by the fit is one of the RANGE parameters: if those are > 0, so are the ranges *)
Lemma ranges_of_forall (P : Q -> Prop) icov : forall ps vals ranges,
  Forall P ranges ->
  (forall k p v, nth_error ps k = Some p -> nth_error vals k = Some v ->
                 p_icov p = icov -> p_elem p = E_RANGE -> P v) ->
  Forall P (ranges_of icov ps vals ranges).
Proof.
  induction ps as [|p pr IH]; intros vals ranges Hr H; cbn [ranges_of]; [exact Hr|].
  destruct vals as [|v vr]; [exact Hr|].
  apply IH.
  - destruct (Z.eqb_spec (p_icov p) icov) as [E1|E1]; cbn [andb]; [|exact Hr].
    destruct (Z.eqb_spec (p_elem p) E_RANGE) as [E2|E2]; [|exact Hr].
    apply range_write_forall; [|exact Hr]. apply (H O p v); auto.
  - intros k p' v' Hp Hv. apply (H (S k) p' v'); assumption.
Qed.

(* a single RANGE parameter of rank 0: all the ranges of the structure are that value *)
Lemma range_write_iso ranges v : Forall (fun x => x = v) (range_write ranges 0 v).
Proof.
  unfold range_write. cbn [Z.eqb].
  assert (H : Forall (fun x => x = v) (map (fun _ => v) ranges)).
  { apply Forall_forall. intros x Hx. apply in_map_iff in Hx. destruct Hx as (_ & <- & _). reflexivity. }
  destruct (_ && Z.ltb _ _); [apply set_nthq_forall; auto | exact H].
Qed.

(* ------------------------------------------------------------------ angles imposed by equality constraints *)
Lemma imposed_angle_equal pre it post ps icov idim a0 v :
  angle_is_param ps icov idim = false ->
  (forall x, In x pre -> designates x (mkP 0 icov E_ANGLE idim 0) = false) ->
  designates it (mkP 0 icov E_ANGLE idim 0) = true ->
  ci_case it = T_EQUAL -> ci_val it = Some v ->
  imposed_angle (pre ++ it :: post) ps icov idim a0 = v.
Proof.
  intros Hp Hpre Hit Hc Hv. unfold imposed_angle. rewrite Hp.
  destruct (constraints_get_first pre it post _ Hpre Hit) as (_ & _ & _ & HE). destruct (HE Hc) as [G1 G2].
  rewrite G1, G2, Hv. assert (E : qeqb v v = true) by (apply qeqb_true; reflexivity). rewrite E. reflexivity.
Qed.

(* an angle that is a parameter of the fit, or that no item designates, is left alone *)
Lemma imposed_angle_untouched items ps icov idim a0 :
  angle_is_param ps icov idim = true \/ (forall it, In it items -> designates it (mkP 0 icov E_ANGLE idim 0) = false) ->
  imposed_angle items ps icov idim a0 = a0.
Proof.
  intros [H|H]; unfold imposed_angle.
  - rewrite H. reflexivity.
  - destruct (angle_is_param ps icov idim); [reflexivity|]. rewrite !constraints_get_none by exact H. reflexivity.
Qed.

(* ------------------------------------------------------------------ lock_samerot: a single structure carries the rotation *)
Local Open Scope Z_scope.
Lemma anirot_parids_icov o ndim jcov p : In p (anirot_parids o ndim jcov) -> p_icov p = jcov.
Proof.
  unfold anirot_parids. destruct (_ || _).
  - intros [<-|[]]. reflexivity.
  - intro H. apply in_map_iff in H. destruct H as (i & <- & _). reflexivity.
Qed.

Lemma parids_cov_angles o ndim nvar jcov ch first p :
  In p (fst (parids_cov o ndim nvar jcov ch first)) -> is_angle p = true ->
  p_icov p = jcov /\ snd (parids_cov o ndim nvar jcov ch first) = jcov /\ take_rot o first = true.
Proof.
  unfold parids_cov. cbn [fst snd]. intros Hin Ha. unfold is_angle in Ha. apply Z.eqb_eq in Ha.
  repeat (apply in_app_or in Hin; destruct Hin as [Hin|Hin]).
  - destruct (negb (o_goulard o)); [|destruct Hin]. rewrite (sill_parids_elem _ _ _ Hin) in Ha. discriminate.
  - destruct (c_flag_param ch); [|destruct Hin]. destruct Hin as [<-|[]]. discriminate.
  - destruct (0 <? c_flag_range ch); [|destruct Hin]. destruct Hin as [<-|[]]. discriminate.
  - destruct (negb (c_flag_range ch =? 0) && o_aniso o); [|destruct Hin].
    destruct (anicoef_parids_elem _ _ _ _ Hin) as [E _]. rewrite E in Ha. discriminate.
  - destruct (negb (c_flag_range ch =? 0) && o_aniso o && o_rot o && take_rot o first) eqn:E; [|destruct Hin].
    split; [apply (anirot_parids_icov _ _ _ _ Hin)|]. split; [reflexivity|].
    apply andb_true_iff in E. apply E.
Qed.

Lemma parid_alloc_samerot_none o ndim nvar chars : forall jcov first,
  o_samerot o = true -> 0 <= first ->
  forall p, In p (parid_alloc_from o ndim nvar jcov first chars) -> is_angle p = false.
Proof.
  induction chars as [|ch r IH]; intros jcov first Hs Hf p Hin; cbn [parid_alloc_from] in Hin; [destruct Hin|].
  destruct (parids_cov o ndim nvar jcov ch first) as [l f1] eqn:E.
  assert (T : take_rot o first = false).
  { unfold take_rot. rewrite Hs. cbn. destruct (Z.ltb_spec first 0); [lia | reflexivity]. }
  apply in_app_or in Hin. destruct Hin as [Hin|Hin].
  - destruct (is_angle p) eqn:A; [|reflexivity]. exfalso.
    change l with (fst (l, f1)) in Hin. rewrite <- E in Hin.
    destruct (parids_cov_angles _ _ _ _ _ _ _ Hin A) as (_ & _ & T'). congruence.
  - apply (IH (jcov + 1) f1 Hs); [|exact Hin].
    assert (F : f1 = first).
    { change f1 with (snd (l, f1)). rewrite <- E. unfold parids_cov. cbn [snd]. rewrite T. rewrite !andb_false_r. reflexivity. }
    lia.
Qed.

Lemma parid_alloc_samerot o ndim nvar chars : forall jcov first,
  o_samerot o = true -> 0 <= jcov ->
  forall p q, In p (parid_alloc_from o ndim nvar jcov first chars) -> In q (parid_alloc_from o ndim nvar jcov first chars) ->
              is_angle p = true -> is_angle q = true -> p_icov p = p_icov q.
Proof.
  induction chars as [|ch r IH]; intros jcov first Hs Hj p q Hp Hq Ap Aq; cbn [parid_alloc_from] in Hp, Hq; [destruct Hp|].
  destruct (parids_cov o ndim nvar jcov ch first) as [l f1] eqn:E.
  assert (Hl : forall x, In x l -> is_angle x = true -> p_icov x = jcov /\ f1 = jcov).
  { intros x Hx Ax. change l with (fst (l, f1)) in Hx. rewrite <- E in Hx.
    destruct (parids_cov_angles _ _ _ _ _ _ _ Hx Ax) as (H1 & H2 & _). rewrite E in H2. cbn in H2. auto. }
  apply in_app_or in Hp. apply in_app_or in Hq. destruct Hp as [Hp|Hp], Hq as [Hq|Hq].
  - destruct (Hl p Hp Ap) as [-> _]. destruct (Hl q Hq Aq) as [-> _]. reflexivity.
  - exfalso. destruct (Hl p Hp Ap) as [_ F]. pose proof (parid_alloc_samerot_none o ndim nvar r (jcov + 1) f1 Hs ltac:(lia) q Hq). congruence.
  - exfalso. destruct (Hl q Hq Aq) as [_ F]. pose proof (parid_alloc_samerot_none o ndim nvar r (jcov + 1) f1 Hs ltac:(lia) p Hp). congruence.
  - apply (IH (jcov + 1) f1 Hs ltac:(lia) p q Hp Hq Ap Aq).
Qed.

(* C17 model, part 3: from the parameter vector to the Model.  Executable mirror of
     st_model_auto_strmod_define                 /repo/src/Core/model_auto.cpp:2096
     MatrixSquareSymmetric::createFromTLTU       /repo/src/Matrix/MatrixSquareSymmetric.cpp:313
     CovAniso::setRangeIsotropic / setRanges / setAnisoAngles / setParam   /repo/src/Covariances/CovAniso.cpp:198-362
     st_updateAlphaDiag                          model_auto.cpp:2764
   One basic structure at a time: the identifiers of a structure are contiguous in the list (st_parid_alloc) and, when
   the sills are parameters, all of its nvar(nvar+1)/2 terms are (so the work array tritab is rewritten completely).
   No proofs here. *)
From Coq Require Import List Arith ZArith QArith Qabs Bool.
From Gst Require Import lib.QAux lib.LinAlgQ C17.Model C17.ModelPar.
Import ListNotations.
Local Open Scope Q_scope.

Record cova := mkCv { cv_ranges : list Q; cv_angles : list Q; cv_param : Q; cv_sill : mat }.

Definition own (icov : Z) (elem : Z) (p : parid) : bool := Z.eqb (p_icov p) icov && Z.eqb (p_elem p) elem.
Definition has_parid (icov : Z) (ps : list parid) : bool := existsb (fun p => Z.eqb (p_icov p) icov) ps.
Definition has_elem (icov elem : Z) (ps : list parid) : bool := existsb (own icov elem) ps.

(* E_ANGLE: "if (ivar < ndim) angles[ivar] = param" *)
Definition angle_write (angles : list Q) (ivar : Z) (v : Q) : list Q :=
  if Z.leb 0 ivar && Z.ltb ivar (Z.of_nat (length angles)) then set_nthq (Z.to_nat ivar) v angles else angles.
Fixpoint angles_of (icov : Z) (ps : list parid) (vals : list Q) (angles : list Q) : list Q :=
  match ps, vals with
  | p :: pr, v :: vr => angles_of icov pr vr (if own icov E_ANGLE p then angle_write angles (p_ivar p) v else angles)
  | _, _ => angles
  end.

(* E_PARAM: "cova->setParam(param)" : the last one wins *)
Fixpoint param_of (icov : Z) (ps : list parid) (vals : list Q) (p0 : Q) : Q :=
  match ps, vals with
  | p :: pr, v :: vr => param_of icov pr vr (if own icov E_PARAM p then v else p0)
  | _, _ => p0
  end.

(* E_SILL: "ipos = ivar (ivar+1)/2 + jvar; tritab[ipos] = param" (row-wise packing of the lower triangle) *)
Fixpoint tritab_of (icov : Z) (ps : list parid) (vals : list Q) (tri : list Q) : list Q :=
  match ps, vals with
  | p :: pr, v :: vr =>
      tritab_of icov pr vr
        (if own icov E_SILL p
         then let ipos := (p_ivar p * (p_ivar p + 1) / 2 + p_jvar p)%Z in
              if Z.leb 0 ipos && Z.ltb ipos (Z.of_nat (length tri)) then set_nthq (Z.to_nat ipos) v tri else tri
         else tri)
  | _, _ => tri
  end.

(* createFromTLTU: TL(i,k) = tl[k*neq + i - k(k+1)/2] (column-wise packing!), value(i,j) = sum_{k <= min(i,j)} TL(i,k) TL(j,k) *)
Definition tl_get (n : nat) (tri : list Q) (i k : nat) : Q :=
  if (k <=? i)%nat then nth (k * n + i - k * (k + 1) / 2) tri 0 else 0.
Definition tltu_f (n : nat) (tri : list Q) : fmat := fun i j => sumn n (fun k => tl_get n tri i k * tl_get n tri j k).
Definition tltu (n : nat) (tri : list Q) : mat := mkr n n (tltu_f n tri).

(* CovAniso::setRangeIsotropic: "if (range <= EPSILON10) range = 1" *)
Definition eps10 : Q := 1 # 10000000000.
Definition iso_range (r : Q) : Q := if qleb r eps10 then 1 else r.

(* the values of one basic structure after st_model_auto_strmod_define (before the lock_samerot copy) *)
Definition define_cova (aniso : bool) (nvar : nat) (ch : covchar) (icov : Z) (ps : list parid) (vals : list Q) (c0 : cova) : cova :=
  if negb (has_parid icov ps) then c0
  else
    let hasrange := negb (Z.eqb (c_flag_range ch) 0) in
    let R := ranges_of icov ps vals (cv_ranges c0) in
    let R' := if negb hasrange then cv_ranges c0
              else if aniso then R else map (fun _ => iso_range (nth 0 R 0)) R in
    let A := if hasrange && has_elem icov E_ANGLE ps then angles_of icov ps vals (cv_angles c0) else cv_angles c0 in
    let P := if c_flag_param ch then param_of icov ps vals (cv_param c0) else cv_param c0 in
    let S := if has_elem icov E_SILL ps
             then tltu nvar (tritab_of icov ps vals (map (fun _ => 0) (seq 0 (nvar * (nvar + 1) / 2)))) else cv_sill c0 in
    mkCv R' A P S.

(* lock_samerot: the angles of the first structure with a range are copied to the structures of rank >= 1 that have one *)
Fixpoint first_ranged (chars : list covchar) (k : nat) : option nat :=
  match chars with
  | [] => None
  | ch :: r => if negb (Z.eqb (c_flag_range ch) 0) then Some k else first_ranged r (S k)
  end.
Definition samerot_copy (chars : list covchar) (cs : list cova) : list cova :=
  match first_ranged chars O with
  | None => cs
  | Some f =>
      let a := cv_angles (nth f cs (mkCv [] [] 0 [])) in
      map (fun kc => let '(k, ch, c) := kc in
                     if Nat.eqb k O || Nat.eqb k f || Z.eqb (c_flag_range ch) 0 then c
                     else mkCv (cv_ranges c) a (cv_param c) (cv_sill c))
          (combine (combine (seq 0 (length cs)) chars) cs)
  end.

Definition strmod_define (aniso samerot : bool) (nvar : nat) (chars : list covchar) (ps : list parid) (vals : list Q)
                         (cs : list cova) : list cova :=
  let cs1 := map (fun kc => let '(k, ch, c) := kc in define_cova aniso nvar ch (Z.of_nat k) ps vals c)
                 (combine (combine (seq 0 (length cs)) chars) cs) in
  if samerot then samerot_copy chars cs1 else cs1.

(* the field of the Model that parameter p designates *)
Definition read_field (p : parid) (c : cova) : option Q :=
  if Z.eqb (p_elem p) E_RANGE then nth_error (cv_ranges c) (Z.to_nat (p_ivar p))
  else if Z.eqb (p_elem p) E_ANGLE then nth_error (cv_angles c) (Z.to_nat (p_ivar p))
  else if Z.eqb (p_elem p) E_PARAM then Some (cv_param c)
  else None.

(* ------------------------------------------------------------------ constant sill: st_updateAlphaDiag *)
(* srm = sum over the other structures of alpha(ivar0,ivar0); value = consSill / xr^2 - srm; alpha = MAX(0, value) *)
Definition alpha_diag (cons xr srm : Q) : Q := cmax 0 (cons / (xr * xr) - srm).

(* ------------------------------------------------------------------ the constant-sill constraint of Constraints *)
(* /repo/src/Model/Constraints.cpp: _constantSillValue (TEST = None), _constantSills (per variable, TEST = None),
   expandConstantSill(nvar) = "_constantSills.resize(nvar, _constantSillValue)", isConstraintSillDefined,
   model_auto_fit / vmap_auto_fit: "if (!FFFF(getConstantSillValue())) expandConstantSill(nvar)",
   st_goulard_fitting: constrained Goulard iff the scalar value is defined, with consSill = getConstantSills() *)
Record csill := mkCS { cs_value : option Q; cs_sills : list (option Q) }.

(* std::vector::resize(n, v): keeps the first n entries, appends copies of v up to n *)
Definition resize {A} (n : nat) (v : A) (l : list A) : list A := firstn n l ++ repeat v (n - length l).
Definition expand_constant_sill (nvar : nat) (c : csill) : csill := mkCS (cs_value c) (resize nvar (cs_value c) (cs_sills c)).
Definition is_constraint_sill_defined (c : csill) : bool :=
  match cs_value c, cs_sills c with None, [] => false | _, _ => true end.

(* what model_auto_fit hands to the Goulard step: None = unconstrained Goulard *)
Definition fit_cons_sill (nvar : nat) (c : csill) : option (list (option Q)) :=
  match cs_value c with
  | None => None                                  (* the vector alone does not switch the constrained Goulard on *)
  | Some _ => Some (cs_sills (expand_constant_sill nvar c))
  end.

(* the total sill imposed on variable v *)
Definition imposed_total (nvar : nat) (c : csill) (v : nat) : option Q := nth v (cs_sills (expand_constant_sill nvar c)) None.

(* st_goulard_with_constraints / _goulardWithConstraints, reset of the sills before the optimisation under constraints:
   "matcor[icov](ivar,ivar) = FFFF(consSill[ivar]) ? 1 : consSill[ivar] / ncova" *)
Definition reset_diag (cons : option Q) (ncova : nat) : Q :=
  match cons with Some cv => cv / inject_Z (Z.of_nat ncova) | None => 1 end.

(* model_auto_fit / vmap_auto_fit, after the options have been resolved (st_model_auto_count / st_vmap_auto_count):
   "if (constraints.isConstraintSillDefined() && !optvar.getFlagGoulardUsed()) -> error": the constant sill is enforced by
   the Goulard step only *)
Definition constant_sill_refused (o' : optvar) (c : csill) : bool := is_constraint_sill_defined c && negb (o_goulard o').

(* C17 model, part 2: parameters, bounds, constraints, options.  Executable mirror of
     st_parid_encode / st_parid_decode         /repo/src/Core/model_auto.cpp:211-264
     st_parid_alloc                            model_auto.cpp:276
     st_alter_model_optvar                     model_auto.cpp:3788
     modify_constraints_on_sill                /repo/src/Model/Constraints.cpp:160
     constraints_get                           Constraints.cpp:198
     st_affect                                 model_auto.cpp:1574
     st_model_auto_pardef                      model_auto.cpp:1953
     st_model_auto_constraints_apply           model_auto.cpp:1911
     st_check_param                            /repo/src/Core/foxleg.cpp:1127
     st_define_bounds                          foxleg.cpp:939
     st_gradient (evaluation points)           foxleg.cpp:80-83
     foxleg_f (accepted move), st_linear_interpolate (admissible shift)   foxleg.cpp:1338-1362, 1091-1105
     st_model_auto_strmod_define (ranges)      model_auto.cpp:2119-2124
   Integers are Z, reals are Q, undefined (TEST) is None.  No proofs here. *)
From Coq Require Import List Arith ZArith QArith Qabs Bool.
From Gst Require Import lib.QAux C17.Model.
Import ListNotations.
Local Open Scope Z_scope.

(* ------------------------------------------------------------------ parameter identifiers *)
(* EConsElem (include/Enum/EConsElem.hpp) *)
Definition E_RANGE : Z := 1.
Definition E_ANGLE : Z := 2.
Definition E_PARAM : Z := 3.
Definition E_SILL : Z := 4.
(* EConsType (include/Enum/EConsType.hpp) *)
Definition T_LOWER : Z := -1.
Definition T_DEFAULT : Z := 0.
Definition T_UPPER : Z := 1.
Definition T_EQUAL : Z := 2.

Record parid := mkP { p_imod : Z; p_icov : Z; p_elem : Z; p_ivar : Z; p_jvar : Z }.

Definition CONGRUENCY : Z := 50.
Definition parid_encode (p : parid) : Z :=
  (((p_imod p * CONGRUENCY + p_icov p) * CONGRUENCY + p_elem p) * CONGRUENCY + p_ivar p) * CONGRUENCY + p_jvar p.
(* C int division truncates towards zero: Z.quot *)
Definition parid_decode (v : Z) : parid :=
  let d1 := Z.quot v CONGRUENCY in let jvar := v - d1 * CONGRUENCY in
  let d2 := Z.quot d1 CONGRUENCY in let ivar := d1 - d2 * CONGRUENCY in
  let d3 := Z.quot d2 CONGRUENCY in let iic := d2 - d3 * CONGRUENCY in
  let d4 := Z.quot d3 CONGRUENCY in let icov := d3 - d4 * CONGRUENCY in
  let d5 := Z.quot d4 CONGRUENCY in let imod := d4 - d5 * CONGRUENCY in
  mkP imod icov iic ivar jvar.

(* ------------------------------------------------------------------ options *)
Record optvar := mkO {
  o_noreduce : bool; o_goulard : bool; o_aniso : bool; o_rot : bool; o_samerot : bool;
  o_rot2d : bool; o_no3d : bool; o_iso2d : bool; o_keepint : bool; o_intrinsic : bool }.

Definition set_rot (o : optvar) (b : bool) : optvar :=
  mkO (o_noreduce o) (o_goulard o) (o_aniso o) b (o_samerot o) (o_rot2d o) (o_no3d o) (o_iso2d o) (o_keepint o) (o_intrinsic o).
Definition set_aniso (o : optvar) (b : bool) : optvar :=
  mkO (o_noreduce o) (o_goulard o) b (o_rot o) (o_samerot o) (o_rot2d o) (o_no3d o) (o_iso2d o) (o_keepint o) (o_intrinsic o).
Definition set_goulard (o : optvar) (b : bool) : optvar :=
  mkO (o_noreduce o) b (o_aniso o) (o_rot o) (o_samerot o) (o_rot2d o) (o_no3d o) (o_iso2d o) (o_keepint o) (o_intrinsic o).
Definition set_samerot (o : optvar) (b : bool) : optvar :=
  mkO (o_noreduce o) (o_goulard o) (o_aniso o) (o_rot o) b (o_rot2d o) (o_no3d o) (o_iso2d o) (o_keepint o) (o_intrinsic o).
Definition set_rot2d (o : optvar) (b : bool) : optvar :=
  mkO (o_noreduce o) (o_goulard o) (o_aniso o) (o_rot o) (o_samerot o) b (o_no3d o) (o_iso2d o) (o_keepint o) (o_intrinsic o).
Definition set_no3d (o : optvar) (b : bool) : optvar :=
  mkO (o_noreduce o) (o_goulard o) (o_aniso o) (o_rot o) (o_samerot o) (o_rot2d o) b (o_iso2d o) (o_keepint o) (o_intrinsic o).
Definition set_iso2d (o : optvar) (b : bool) : optvar :=
  mkO (o_noreduce o) (o_goulard o) (o_aniso o) (o_rot o) (o_samerot o) (o_rot2d o) (o_no3d o) b (o_keepint o) (o_intrinsic o).

(* st_alter_model_optvar.  zflat: for each direction, isZero(codir(idir,2)) (used in 3-D only);
   sill_cons: constraints.isDefinedForSill(); sill_neg: one of those sill constraints has a negative value
   (modify_constraints_on_sill fails, whatever the Goulard flag since the fix of the pinned tree).  None = the function returns 1 (model_auto_count returns -2).
   The "clever setting of options" is written as a chain of steps, one per source statement. *)
Definition alt1 (ndim n2 n3 : Z) (o : optvar) := if ndim =? 3 then set_iso2d (set_no3d o (n3 <=? 0)) (n2 <=? 0) else o.
Definition alt2 (ndim ndir : Z) (o : optvar) := if ndir <=? ndim then set_rot o false else o.
Definition alt3 (ndim ndir : Z) (o : optvar) := if (ndir <=? 1) || (ndim <=? 1) then set_rot (set_aniso o false) false else o.
Definition alt4 (ndim n3 : Z) (o : optvar) := if (ndim =? 3) && (n3 <=? 0) then set_no3d o true else o.
Definition alt5 (n2 : Z) (o : optvar) := if n2 <=? 1 then set_iso2d o true else o.
Definition alt6 (o : optvar) := if o_iso2d o then set_rot o false else o.
Definition alt7 (o : optvar) := if o_no3d o then set_rot2d o true else o.
Definition alt8 (o : optvar) :=
  if negb (o_aniso o) then set_iso2d (set_no3d (set_rot2d (set_samerot (set_rot o false) false) false) false) false else o.
Definition alter_geom (ndim ndir n2 n3 : Z) (o : optvar) : optvar :=
  alt8 (alt7 (alt6 (alt5 n2 (alt4 ndim n3 (alt3 ndim ndir (alt2 ndim ndir (alt1 ndim n2 n3 o))))))).
(* "Case when constraints involve sill(s)" (after the fix: whatever the Goulard flag, the items are rewritten by
   modify_constraints_on_sill and Goulard is switched off), then "In Multivariate case, Goulard option is mandatory" *)
Definition alter_sill (nvar : Z) (sill_cons sill_neg : bool) (o : optvar) : option optvar :=
  if sill_cons && sill_neg then None
  else
    let o := if sill_cons then set_goulard o false else o in
    if (1 <? nvar) && negb (o_goulard o) then None else Some o.
Definition alter_optvar (ndim ndir : Z) (zflat : list bool) (nvar : Z) (sill_cons sill_neg : bool) (o : optvar)
  : option optvar :=
  let n2 := if ndim =? 2 then ndir else if ndim =? 3 then Z.of_nat (length (filter (fun b => b) zflat)) else 0 in
  let n3 := if ndim =? 3 then Z.of_nat (length (filter negb zflat)) else 0 in
  let o := alter_geom ndim ndir n2 n3 o in
  alter_sill nvar sill_cons sill_neg o.

(* st_alter_vmap_optvar (after the fix "fitFromVMap respects the isotropy and locked-rotation options"):
   no anisotropy => no rotation; third dimension locked in 2-D; then the sill / Goulard part *)
Definition alter_vmap_optvar (ndim nvar : Z) (sill_cons sill_neg : bool) (o : optvar) : option optvar :=
  let o := if negb (o_aniso o) then set_rot o false else o in
  let o := set_no3d o (ndim <=? 2) in
  alter_sill nvar sill_cons sill_neg o.

(* ------------------------------------------------------------------ list of free parameters *)
(* what model_cova_characteristics says of a basic structure *)
Record covchar := mkC {
  c_flag_range : Z;            (* hasRange(): 0 no, 1 yes, -1 "from sill" *)
  c_flag_param : bool;         (* hasParam() *)
  c_parmax : option Q;         (* getParMax(), None = TEST *)
  c_nugget : bool; c_cosexp : bool }.

Definition take_rot (o : optvar) (first : Z) : bool := (o_samerot o && (first <? 0)) || negb (o_samerot o).

Definition sill_parids (nvar : nat) (jcov : Z) : list parid :=
  flat_map (fun ivar => map (fun jvar => mkP 0 jcov E_SILL (Z.of_nat ivar) (Z.of_nat jvar)) (seq 0 (S ivar))) (seq 0 nvar).

Definition anicoef_parids (o : optvar) (ndim : nat) (jcov : Z) : list parid :=
  match ndim with
  | 2%nat => [mkP 0 jcov E_RANGE 1 0]
  | 3%nat => (if negb (o_iso2d o) then [mkP 0 jcov E_RANGE 1 0] else []) ++
             (if negb (o_no3d o) then [mkP 0 jcov E_RANGE 2 0] else [])
  | _ => map (fun idim => mkP 0 jcov E_RANGE (Z.of_nat idim) 0) (seq 1 (ndim - 1))
  end.

Definition anirot_parids (o : optvar) (ndim : nat) (jcov : Z) : list parid :=
  if Nat.eqb ndim 2 || (Nat.eqb ndim 3 && o_rot2d o) then [mkP 0 jcov E_ANGLE 0 0]
  else map (fun idim => mkP 0 jcov E_ANGLE (Z.of_nat idim) 0) (seq 0 ndim).

(* one basic structure of st_parid_alloc; returns the identifiers and the new value of first_covrot *)
Definition parids_cov (o : optvar) (ndim nvar : nat) (jcov : Z) (ch : covchar) (first : Z) : list parid * Z :=
  let aic := if negb (o_goulard o) then sill_parids nvar jcov else [] in
  let third := if c_flag_param ch then [mkP 0 jcov E_PARAM 0 0] else [] in
  let range := if 0 <? c_flag_range ch then [mkP 0 jcov E_RANGE 0 0] else [] in
  let anicoef := if negb (c_flag_range ch =? 0) && o_aniso o then anicoef_parids o ndim jcov else [] in
  let rot := negb (c_flag_range ch =? 0) && o_aniso o && o_rot o && take_rot o first in
  let anirot := if rot then anirot_parids o ndim jcov else [] in
  (aic ++ third ++ range ++ anicoef ++ anirot, if rot then jcov else first).

Fixpoint parid_alloc_from (o : optvar) (ndim nvar : nat) (jcov : Z) (first : Z) (chars : list covchar) : list parid :=
  match chars with
  | [] => []
  | ch :: r => let '(l, first') := parids_cov o ndim nvar jcov ch first in
               l ++ parid_alloc_from o ndim nvar (jcov + 1) first' r
  end.
Definition parid_alloc (o : optvar) (ndim nvar : nat) (chars : list covchar) : list parid :=
  parid_alloc_from o ndim nvar 0 (-1) chars.

(* ------------------------------------------------------------------ constraints *)
Record citem := mkI { ci_igrf : Z; ci_icov : Z; ci_elem : Z; ci_iv1 : Z; ci_iv2 : Z; ci_case : Z; ci_val : option Q }.

(* the matching test of constraints_get *)
Definition designates (it : citem) (p : parid) : bool :=
  (ci_igrf it =? p_imod p) && (ci_icov it =? p_icov p) && (ci_elem it =? p_elem p) && (ci_iv1 it =? p_ivar p) &&
  (negb (p_elem p =? E_SILL) || (ci_iv2 it =? p_jvar p)).

Fixpoint constraints_get (items : list citem) (icase : Z) (p : parid) : option Q :=
  match items with
  | [] => None
  | it :: r =>
      if negb (designates it p) then constraints_get r icase p
      else if ci_case it =? T_EQUAL then
             (if (icase =? T_LOWER) || (icase =? T_UPPER) then ci_val it else constraints_get r icase p)
           else if icase =? ci_case it then ci_val it else constraints_get r icase p
  end.

(* modify_constraints_on_sill: every sill item gets the (certified) square root of its value; an upper bound on
   sill (0,0) also yields the lower bound -sqrt on the same identifier, appended at the end.
   roots: candidate square roots supplied from outside, one per item (ignored for non-sill items);
   a candidate is accepted only if it is non-negative and its square is the value.  None = error / bad certificate. *)
Local Open Scope Q_scope.
Definition root_ok (v r : Q) : bool := qleb 0 r && qeqb (r * r) v.
Fixpoint modify_sill_items (items : list citem) (roots : list Q) : option (list citem * list citem) :=
  match items with
  | [] => Some ([], [])
  | it :: rest =>
      let r := match roots with x :: _ => x | [] => 0 end in
      match modify_sill_items rest (tl roots) with
      | None => None
      | Some (its, extra) =>
          if negb (Z.eqb (ci_elem it) E_SILL) then Some (it :: its, extra)
          else match ci_val it with
               | None => None
               | Some v =>
                   if qltb v 0 then None
                   else if negb (root_ok v r) then None
                   else
                     let it' := mkI (ci_igrf it) (ci_icov it) (ci_elem it) (ci_iv1 it) (ci_iv2 it) (ci_case it) (Some r) in
                     let add := if Z.eqb (ci_iv1 it) 0 && Z.eqb (ci_iv2 it) 0 && Z.eqb (ci_case it) T_UPPER
                                then [mkI (ci_igrf it) (ci_icov it) (ci_elem it) (ci_iv1 it) (ci_iv2 it) T_LOWER (Some (- r))]
                                else [] in
                     Some (it' :: its, add ++ extra)
               end
      end
  end.
Definition modify_constraints_on_sill (items : list citem) (roots : list Q) : option (list citem) :=
  match modify_sill_items items roots with Some (its, extra) => Some (its ++ extra) | None => None end.

(* ------------------------------------------------------------------ st_affect *)
Definition pbound := (option Q * option Q * option Q)%type.       (* param, lower, upper *)

Definition affect (def lo up : option Q) (t : pbound) : pbound :=
  let '(p, l, u) := t in
  let l' := match l with
            | None => lo
            | Some lv => match lo with Some x => Some (cmax x lv) | None => Some lv end
            end in
  let u' := match u with
            | None => up
            | Some uv => match up with Some x => Some (cmin x uv) | None => Some uv end
            end in
  let p1 := match p with None => match def with Some d => d | None => 0 end | Some pv => pv end in
  let p2 := match l', u' with
            | Some lv, Some uv =>
                if qltb p1 lv || qltb uv p1 then (if qltb 0 lv then (lv + uv) / 2 else uv / 2) else p1
            | Some lv, None => if qltb p1 lv then lv + 1 else p1
            | None, Some uv => if qltb uv p1 then uv - 1 else p1
            | None, None => p1
            end in
  (Some p2, l', u').

(* st_model_auto_pardef: default value and default bounds of one parameter *)
Record defaults := mkD {
  d_hmax : Q;
  d_dvar : list Q;          (* varchol[lec] / sqrt(ncova), lec = ivar(ivar+1)/2 + jvar : harvested (sqrt, Cholesky) *)
  d_angles : list Q;        (* reference angles of the variogram : harvested (atan2) *)
  d_nrange : Z;             (* model->getCovaNumber(true) *)
  d_ncova : Z }.

Definition pardef_one (d : defaults) (chars : list covchar) (icovm : Z) (p : parid) (t : pbound) : pbound :=
  let ch := nth (Z.to_nat (p_icov p)) chars (mkC 0 false None false false) in
  if Z.eqb (p_elem p) E_SILL then
    let lec := Z.to_nat (p_ivar p * (p_ivar p + 1) / 2 + p_jvar p)%Z in
    affect (Some (nth lec (d_dvar d) 0)) None None t
  else if Z.eqb (p_elem p) E_PARAM then
    let up := match c_parmax ch with Some m => if qltb m 0 then None else Some m | None => None end in
    let valdef := if c_cosexp ch then d_hmax d / 3 else 1 in
    affect (Some valdef) (Some (1 # 1000)) up t
  else if Z.eqb (p_elem p) E_RANGE then
    let dunit := d_hmax d / inject_Z (d_nrange d) / 2 in
    let dmin := d_hmax d / 1000000 in
    affect (Some (dunit * inject_Z (p_icov p + 1 - icovm))) (Some dmin) None t
  else if Z.eqb (p_elem p) E_ANGLE then
    affect (Some (nth (Z.to_nat (p_ivar p)) (d_angles d) 0)) None None t
  else t.

(* the counter icovm: "if (type == ECov::NUGGET && ivar == 0 && jvar == 0) icovm++", before the switch *)
Fixpoint pardef_from (d : defaults) (chars : list covchar) (icovm : Z) (ps : list parid) (ts : list pbound) : list pbound :=
  match ps, ts with
  | p :: pr, t :: tr =>
      let ch := nth (Z.to_nat (p_icov p)) chars (mkC 0 false None false false) in
      let icovm' := if c_nugget ch && Z.eqb (p_ivar p) 0 && Z.eqb (p_jvar p) 0 then (icovm + 1)%Z else icovm in
      pardef_one d chars icovm' p t :: pardef_from d chars icovm' pr tr
  | _, _ => []
  end.
Definition pardef (d : defaults) (chars : list covchar) (ps : list parid) : list pbound :=
  pardef_from d chars 0 ps (map (fun _ => (None, None, None)) ps).

(* st_model_auto_constraints_apply *)
Definition apply_one (items : list citem) (p : parid) (t : pbound) : pbound :=
  affect (constraints_get items T_DEFAULT p) (constraints_get items T_LOWER p) (constraints_get items T_UPPER p) t.
Definition constraints_apply (items : list citem) (ps : list parid) (ts : list pbound) : list pbound :=
  map (fun pt => apply_one items (fst pt) (snd pt)) (combine ps ts).

(* param/lower/upper as model_auto_fit hands them to foxleg_f *)
Definition bounds_of (d : defaults) (chars : list covchar) (items : list citem) (ps : list parid) : list pbound :=
  constraints_apply items ps (pardef d chars ps).

(* ------------------------------------------------------------------ foxleg: the parts that enforce the bounds *)
(* st_check_param: error when lower > upper, else clamp *)
Definition bad_bounds (t : pbound) : bool :=
  match t with (_, Some l, Some u) => qltb u l | _ => false end.
Definition clamp_one (t : pbound) : pbound :=
  let '(p, l, u) := t in
  let p1 := match p, l with Some pv, Some lv => if qltb pv lv then Some lv else p | _, _ => p end in
  let p2 := match p1, u with Some pv, Some uv => if qltb uv pv then Some uv else p1 | _, _ => p1 end in
  (p2, l, u).
Definition check_param (ts : list pbound) : option (list pbound) :=
  if existsb bad_bounds ts then None else Some (map clamp_one ts).

(* st_define_bounds for one parameter: the admissible step interval [b0, b1] *)
Definition define_bounds_one (delta scale p : Q) (l u : option Q) : Q * Q :=
  let dloc := delta * scale in
  let b0 := match l with
            | None => - dloc
            | Some lv => let diff := p - lv in
                         let diff := if qltb dloc diff then dloc else diff in
                         let diff := if qltb (cabs (p - diff)) (dloc / 10) then diff / 2 else diff in
                         - diff
            end in
  let b1 := match u with
            | None => dloc
            | Some uv => let diff := uv - p in
                         let diff := if qltb dloc diff then dloc else diff in
                         let diff := if qltb (cabs (p - diff)) (dloc / 10) then diff / 2 else diff in
                         diff
            end in
  (b0, b1).

(* st_gradient: the two evaluation points *)
Definition grad_points (eps p : Q) (l u : option Q) : Q * Q :=
  let p1 := p + eps in
  let p1 := match u with Some uv => cmin uv p1 | None => p1 end in
  let p2 := p - eps in
  let p2 := match l with Some lv => cmax lv p2 | None => p2 end in
  (p1, p2).

(* st_linear_interpolate accepts a shift iff  b0 - EPSILON9 <= shift <= b1 + EPSILON9 *)
Definition eps9 : Q := 1 # 1000000000.
Definition shift_ok (b : Q * Q) (shift : Q) : bool :=
  negb (qltb shift (fst b - eps9)) && negb (qltb (snd b + eps9) shift).

(* ------------------------------------------------------------------ angles imposed by equality constraints *)
(* model_auto_fit, after st_model_auto_constraints_apply: for an angle of rank idim of structure icov that is NOT a
   parameter (st_parid_match < 0), "vmin = constraints_get(LOWER); vmax = constraints_get(UPPER);
   if both defined and vmin == vmax: angles[idim] = vmin" *)
Definition angle_is_param (ps : list parid) (icov idim : Z) : bool :=
  existsb (fun p => Z.eqb (p_imod p) 0 && Z.eqb (p_icov p) icov && Z.eqb (p_elem p) E_ANGLE && Z.eqb (p_ivar p) idim) ps.
Definition imposed_angle (items : list citem) (ps : list parid) (icov idim : Z) (a0 : Q) : Q :=
  if angle_is_param ps icov idim then a0
  else match constraints_get items T_LOWER (mkP 0 icov E_ANGLE idim 0), constraints_get items T_UPPER (mkP 0 icov E_ANGLE idim 0) with
       | Some vmin, Some vmax => if qeqb vmin vmax then vmin else a0
       | _, _ => a0
       end.
Fixpoint imposed_angles_from (items : list citem) (ps : list parid) (icov idim : Z) (angles : list Q) : list Q :=
  match angles with
  | [] => []
  | a :: r => imposed_angle items ps icov idim a :: imposed_angles_from items ps icov (idim + 1)%Z r
  end.
Definition imposed_angles (items : list citem) (ps : list parid) (icov : Z) (angles : list Q) : list Q :=
  imposed_angles_from items ps icov 0%Z angles.

(* ------------------------------------------------------------------ ranges written into the model *)
(* st_model_auto_strmod_define, E_RANGE: "if (ivar == 0) fill(ranges, param); if (ivar < ndim) ranges[ivar] = param" *)
Fixpoint set_nthq (k : nat) (x : Q) (l : list Q) : list Q :=
  match l, k with
  | [], _ => []
  | _ :: r, O => x :: r
  | y :: r, S k' => y :: set_nthq k' x r
  end.
Definition range_write (ranges : list Q) (ivar : Z) (v : Q) : list Q :=
  let r1 := if Z.eqb ivar 0 then map (fun _ => v) ranges else ranges in
  if Z.leb 0 ivar && Z.ltb ivar (Z.of_nat (length ranges)) then set_nthq (Z.to_nat ivar) v r1 else r1.
(* all RANGE parameters of structure icov, in the order of the list *)
Fixpoint ranges_of (icov : Z) (ps : list parid) (vals : list Q) (ranges : list Q) : list Q :=
  match ps, vals with
  | p :: pr, v :: vr =>
      ranges_of icov pr vr
        (if Z.eqb (p_icov p) icov && Z.eqb (p_elem p) E_RANGE then range_write ranges (p_ivar p) v else ranges)
  | _, _ => ranges
  end.

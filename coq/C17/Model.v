(* C17 model, part 1: sill matrices.  Executable mirror of
     AModelOptimSills::_truncateNegativeEigen      /repo/src/Model/AModelOptimSills.cpp:409
     st_truncate_negative_eigen                    /repo/src/Core/model_auto.cpp:2398
     AModelOptimSills::_makeDefinitePositive       AModelOptimSills.cpp:272
     st_makeDefinitePositive                       model_auto.cpp:2883
     AModelOptimSills::_goulardWithoutConstraint   AModelOptimSills.cpp:820
     st_goulard_without_constraint                 model_auto.cpp:1374
     st_sill_fitting_intrinsic (final patch)       model_auto.cpp:3368
   Exact rational arithmetic.  The eigen-solver (MatrixSquareSymmetric::computeEigen) and sqrt are
   oracles: parameters of the definitions, instantiated in Run.v with values harvested from impl.
   No proofs here. *)
From Coq Require Import List Arith ZArith QArith Qabs Bool.
From Gst Require Import lib.QAux lib.LinAlgQ.
Import ListNotations.
Local Open Scope Q_scope.

(* geoslib_define.h:71-73   MIN(a,b) = a<b ? a : b   MAX(a,b) = a>b ? a : b   ABS(a) = a<0 ? -a : a *)
Definition cmin (a b : Q) : Q := if qltb a b then a else b.
Definition cmax (a b : Q) : Q := if qltb b a then a else b.
Definition cabs (a : Q) : Q := if qltb a 0 then - a else a.

(* MatrixSquareSymmetric::setValue(i,j,v) stores v at (i,j) and (j,i); every loop below fills jvar <= ivar *)
Definition lowsym (f : fmat) : fmat := fun i j => if (j <=? i)%nat then f i j else f j i.

Fixpoint alln (n : nat) (p : nat -> bool) : bool :=
  match n with O => true | S k => alln k p && p k end.

(* sum += MAX(valpro[kvar],0.) * vecpro(ivar,kvar) * vecpro(jvar,kvar)      AModelOptimSills.cpp:433-436 *)
Definition recon (n : nat) (lam : fvec) (V : fmat) : fmat :=
  fun i j => sumn n (fun k => cmax (lam k) 0 * V i k * V j k).
Definition ftrunc (n : nat) (lam : fvec) (V : fmat) : fmat := lowsym (recon n lam V).

(* "if (valpro[ivar] <= 0) flag_positive = 0"                               AModelOptimSills.cpp:423-425 *)
Definition flag_positive (n : nat) (lam : fvec) : bool := alln n (fun k => qltb 0 (lam k)).
(* "if (valpro[kvar++] < 0) allpos = 0"                                     AModelOptimSills.cpp:956-961 *)
Definition allpos (n : nat) (lam : fvec) : bool := alln n (fun k => negb (qltb (lam k) 0)).

(* _truncateNegativeEigen(icov0): S = _sill[icov0]; (lam,V) = what computeEigen returned for S *)
Definition truncate_negative_eigen (n : nat) (S : fmat) (lam : fvec) (V : fmat) : bool * fmat :=
  if flag_positive n lam then (true, S) else (false, ftrunc n lam V).

(* _makeDefinitePositive(icov0, eps): truncation, then the congruence diag(norme1) . S' . diag(norme1) *)
Inductive nspec := NOne | NZero | NSqrt (q : Q).
Definition norme1_spec (eps : Q) (cons : nat -> option Q) (muold : fvec) (T : fmat) (i : nat) : nspec :=
  match cons i with
  | None => NOne                                               (* FFFF(consSill[ivar]) *)
  | Some _ => if qltb eps (cabs (T i i)) then NSqrt (muold i / T i i)
              else if qltb (cabs (muold i)) eps then NOne else NZero
  end.
Definition nspec_val (sqrtq : Q -> Q) (s : nspec) : Q :=
  match s with NOne => 1 | NZero => 0 | NSqrt q => sqrtq q end.
Definition norme1 (sqrtq : Q -> Q) (eps : Q) (cons : nat -> option Q) (muold : fvec) (T : fmat) (i : nat) : Q :=
  nspec_val sqrtq (norme1_spec eps cons muold T i).
Definition make_dp (sqrtq : Q -> Q) (n : nat) (eps : Q) (cons : nat -> option Q)
                   (S : fmat) (lam : fvec) (V : fmat) : bool * fmat :=
  let muold := fun i => S i i in
  let r := truncate_negative_eigen n S lam V in
  if fst r then r
  else let T := snd r in
       let d := norme1 sqrtq eps cons muold T in
       (false, lowsym (fun i j => T i j * d i * d j)).

(* new sill of one Goulard step                                             AModelOptimSills.cpp:965-981 *)
Definition goulard_newsill (n : nat) (cc : fmat) (lam : fvec) (V : fmat) : fmat :=
  if allpos n lam then lowsym cc else ftrunc n lam V.

(* ------------------------------------------------------------------ Goulard without constraint *)
Fixpoint set_nth {A} (k : nat) (x : A) (l : list A) : list A :=
  match l, k with
  | [], _ => []
  | _ :: r, O => x :: r
  | y :: r, S k' => y :: set_nth k' x r
  end.

(* ijvar <-> (ivar, jvar), jvar <= ivar *)
Definition tri (i j : nat) : nat := (i * (i + 1) / 2 + j)%nat.
Fixpoint tri_pairs (n : nat) : list (nat * nat) :=
  match n with O => [] | S k => tri_pairs k ++ map (fun j => (k, j)) (seq 0 (S k)) end.

Record gconst := {
  g_nvar : nat; g_ncova : nat; g_npadir : nat;
  g_wt : list (list (option Q));       (* nvs2 x npadir, None = TEST *)
  g_gg : mat;                          (* nvs2 x npadir *)
  g_ge : list mat;                     (* ncova of nvs2 x npadir *)
  g_tolred : Q
}.
Record gstate := { g_sill : list mat; g_mp : mat; g_calls : nat }.

Section Goulard.
  Variable c : gconst.
  (* eigen-solver oracle: call number -> matrix -> (eigenvalues, eigenvectors), None = computeEigen failed *)
  Variable eig : nat -> mat -> option (list Q * mat).

  Let n := g_nvar c.
  Let nvs2 := (n * (n + 1) / 2)%nat.
  Let npadir := g_npadir c.
  Let pairs := tri_pairs n.
  Definition iv (ij : nat) : nat := fst (nth ij pairs (O, O)).
  Definition jv (ij : nat) : nat := snd (nth ij pairs (O, O)).
  Definition wt_def (ij ip : nat) : bool :=
    match nth ip (nth ij (g_wt c) []) None with Some _ => true | None => false end.
  Definition wt_val (ij ip : nat) : Q :=
    match nth ip (nth ij (g_wt c) []) None with Some w => w | None => 0 end.
  Definition ge_of (icov : nat) : mat := nth icov (g_ge c) [].

  (* fk, alphak, aic                                                        AModelOptimSills.cpp:880-900 *)
  Definition fk (icov : nat) : mat :=
    mkr nvs2 npadir (fun ij ip => if wt_def ij ip then wt_val ij ip * get (ge_of icov) ij ip else 0).
  Definition sum1 (icov ij : nat) : Q :=
    sumnr npadir (fun ip => if wt_def ij ip then wt_val ij ip * get (ge_of icov) ij ip * get (g_gg c) ij ip else 0).
  Definition sum2 (icov ij : nat) : Q :=
    sumnr npadir (fun ip => if wt_def ij ip then wt_val ij ip * get (ge_of icov) ij ip * get (ge_of icov) ij ip else 0).
  (* "alphak = (sum2 != 0.) ? 1. / sum2 : 0." : a pair of variables without any weighted lag gets a zero cross-sill *)
  Definition alphak (icov ij : nat) : Q := if qeqb (sum2 icov ij) 0 then 0 else Qred (1 / sum2 icov ij).
  Definition aic (icov ij : nat) : Q := Qred (sum1 icov ij * alphak icov ij).

  (* mp = sum over structures of sill * ge                                  AModelOptimSills.cpp:867-878 *)
  Definition mp_init (sill : list mat) : mat :=
    mkr nvs2 npadir (fun ij ip =>
      sumn (g_ncova c) (fun icov => get (nth icov sill []) (iv ij) (jv ij) * get (ge_of icov) ij ip)).

  (* crit                                                                    AModelOptimSills.cpp:902-912, 993-1006 *)
  Definition crit_of (mp : mat) : Q :=
    sumnr nvs2 (fun ij => sumnr npadir (fun ip =>
      if wt_def ij ip then
        let t := get (g_gg c) ij ip - get mp ij ip in
        (if Nat.eqb (iv ij) (jv ij) then 1 else 2) * wt_val ij ip * t * t
      else 0)).

  (* "value = aic - alphak * sum_ipadir fk * mp": the new sill term of the pair of variables ij, before truncation *)
  Definition cc_entry (icov : nat) (f mp1 : mat) (ij : nat) : Q :=
    aic icov ij - alphak icov ij * sumn npadir (fun ip => get f ij ip * get mp1 ij ip).
  (* the part of the criterion that depends on the sill term s of structure icov for the pair ij (mp1 = the other structures) *)
  Definition entry_crit (icov : nat) (mp1 : mat) (ij : nat) (s : Q) : Q :=
    sumn npadir (fun ip => if wt_def ij ip
                           then let t := get (g_gg c) ij ip - get mp1 ij ip - s * get (ge_of icov) ij ip in wt_val ij ip * (t * t)
                           else 0).

  (* one structure of one iteration                                          AModelOptimSills.cpp:924-989 *)
  Definition step_icov (fks : list mat) (icov : nat) (st : gstate) : option gstate :=
    let S0 := nth icov (g_sill st) [] in
    let ge := ge_of icov in
    let mp1 := mkr nvs2 npadir (fun ij ip => get (g_mp st) ij ip - get S0 (iv ij) (jv ij) * get ge ij ip) in
    let f := nth icov fks [] in
    let cc := mkr n n (lowsym (fun i j => cc_entry icov f mp1 (tri i j))) in
    match eig (g_calls st) cc with
    | None => None                                                           (* "if (cc.computeEigen()) return 1" *)
    | Some (lam, V) =>
        let S' := mkr n n (goulard_newsill n (get cc) (vget lam) (get V)) in
        Some {| g_sill := set_nth icov S' (g_sill st);
                g_mp := mkr nvs2 npadir (fun ij ip => get mp1 ij ip + get S' (iv ij) (jv ij) * get ge ij ip);
                g_calls := S (g_calls st) |}
    end.

  Fixpoint sweep (fks : list mat) (icovs : list nat) (st : gstate) : option gstate :=
    match icovs with
    | [] => Some st
    | icov :: r => match step_icov fks icov st with None => None | Some st' => sweep fks r st' end
    end.

  (* _convergenceReached                                                     AModelOptimSills.cpp:1017-1023 *)
  Definition converged (crit crit_mem : Q) : bool :=
    qltb (cabs crit) (g_tolred c) || qltb (cabs (crit - crit_mem) / cabs crit) (g_tolred c).

  (* for (iter = 0; iter < maxiter; iter++) { sweep; crit; if converged break; }   crits: newest first *)
  Fixpoint goulard_loop (fks : list mat) (fuel : nat) (crit : Q) (st : gstate) (crits : list Q)
    : option (gstate * list Q) :=
    match fuel with
    | O => Some (st, crits)
    | S f =>
        match sweep fks (seq 0 (g_ncova c)) st with
        | None => None
        | Some st' =>
            let c' := crit_of (g_mp st') in
            if converged c' crit then Some (st', c' :: crits)
            else goulard_loop fks f c' st' (c' :: crits)
        end
    end.

  Definition goulard (maxiter : nat) (sill0 : list mat) : option (gstate * list Q) :=
    let mp := mp_init sill0 in
    let fks := map fk (seq 0 (g_ncova c)) in
    goulard_loop fks maxiter (crit_of mp) {| g_sill := sill0; g_mp := mp; g_calls := O |} [crit_of mp].
End Goulard.

(* st_sill_fitting_intrinsic, "Patch the final model": sill[icov] = alphau[icov](0,0) * sill1[0]   model_auto.cpp:3370-3380 *)
Definition intrinsic_patch (alpha : Q) (S1 : fmat) : fmat := lowsym (fun i j => alpha * S1 i j).

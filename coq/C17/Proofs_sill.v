(* C17 proofs, part 1: eigen-truncation, definite-positive repair, sequencing of the unconstrained Goulard loop. *)
From Coq Require Import List Arith ZArith QArith Qabs Bool Lqa Lia Setoid Morphisms.
From Gst Require Import lib.QAux lib.LinAlgQ C17.Model.
Import ListNotations.
Local Open Scope Q_scope.

(* ------------------------------------------------------------------ small facts *)
Lemma cmax0_nonneg x : 0 <= cmax x 0.
Proof. unfold cmax. destruct (qltb_spec 0 x); lra. Qed.
Lemma cmax0_of_nonneg x : 0 <= x -> cmax x 0 == x.
Proof. intro H. unfold cmax. destruct (qltb_spec 0 x); lra. Qed.
Lemma cmax0_ge x : x <= cmax x 0.
Proof. unfold cmax. destruct (qltb_spec 0 x); lra. Qed.

Lemma alln_spec n p : alln n p = true <-> forall k, (k < n)%nat -> p k = true.
Proof.
  induction n as [|n IH]; cbn [alln].
  - split; [intros _ k Hk; lia | reflexivity].
  - rewrite andb_true_iff, IH. split.
    + intros [H1 H2] k Hk. destruct (Nat.eq_dec k n) as [->|]; [exact H2 | apply H1; lia].
    + intro H. split; [intros k Hk; apply H; lia | apply H; lia].
Qed.

Lemma flag_positive_spec n lam : flag_positive n lam = true <-> forall k, (k < n)%nat -> 0 < lam k.
Proof.
  unfold flag_positive. rewrite alln_spec. split; intros H k Hk.
  - apply qltb_true. apply H; exact Hk.
  - apply qltb_true. apply H; exact Hk.
Qed.
Lemma allpos_spec n lam : allpos n lam = true <-> forall k, (k < n)%nat -> 0 <= lam k.
Proof.
  unfold allpos. rewrite alln_spec. split; intros H k Hk.
  - specialize (H k Hk). apply negb_true_iff in H. apply qltb_false in H. exact H.
  - apply negb_true_iff. apply qltb_false. apply H; exact Hk.
Qed.

Lemma sumn_mul n m a b :
  sumn n a * sumn m b == sumn n (fun i => sumn m (fun j => a i * b j)).
Proof.
  rewrite <- sumn_scal_r. apply sumn_ext. intros i _. rewrite <- sumn_scal_l. reflexivity.
Qed.

Lemma lowsym_of_sym (f : fmat) i j : (forall a b, f a b == f b a) -> lowsym f i j == f i j.
Proof. intro H. unfold lowsym. destruct (j <=? i)%nat; [reflexivity | apply H]. Qed.
Lemma lowsym_sym (f : fmat) i j : lowsym f i j == lowsym f j i.
Proof.
  unfold lowsym. destruct (Nat.leb_spec j i) as [H1|H1], (Nat.leb_spec i j) as [H2|H2]; try reflexivity.
  - assert (i = j) by lia. subst. reflexivity.
  - lia.
Qed.

(* ------------------------------------------------------------------ quadratic form of a reconstruction *)
Definition proj (n : nat) (V : fmat) (x : fvec) (k : nat) : Q := sumn n (fun i => V i k * x i).

Lemma recon_sym n lam V a b : recon n lam V a b == recon n lam V b a.
Proof. unfold recon. apply sumn_ext. intros; ring. Qed.

(* x' (sum_k m_k v_k v_k') x = sum_k m_k (v_k . x)^2   for ANY weights m, ANY V *)
Lemma quad_weighted n (m : fvec) (V : fmat) (x : fvec) :
  fdot n x (fmv n (fun i j => sumn n (fun k => m k * V i k * V j k)) x)
  == sumn n (fun k => m k * (proj n V x k * proj n V x k)).
Proof.
  unfold fdot, fmv, proj.
  (* push everything inside: sum_i sum_j sum_k x_i m_k V_ik V_jk x_j *)
  rewrite (sumn_ext n _ (fun i => sumn n (fun k => sumn n (fun j => m k * (V i k * x i) * (V j k * x j))))).
  2:{ intros i _. rewrite <- sumn_scal_l.
      rewrite (sumn_ext n _ (fun j => sumn n (fun k => m k * (V i k * x i) * (V j k * x j)))).
      - apply sumn_swap.
      - intros j _. rewrite <- sumn_scal_r. rewrite <- sumn_scal_l. apply sumn_ext. intros; ring. }
  rewrite sumn_swap. apply sumn_ext. intros k _.
  rewrite sumn_mul. rewrite <- sumn_scal_l. apply sumn_ext. intros i _.
  rewrite <- sumn_scal_l. apply sumn_ext. intros; ring.
Qed.

Lemma quad_recon n lam V x :
  fdot n x (fmv n (recon n lam V) x) == sumn n (fun k => cmax (lam k) 0 * (proj n V x k * proj n V x k)).
Proof. unfold recon. apply (quad_weighted n (fun k => cmax (lam k) 0)). Qed.

Lemma quad_ext n A B x :
  (forall i j, (i < n)%nat -> (j < n)%nat -> A i j == B i j) ->
  fdot n x (fmv n A x) == fdot n x (fmv n B x).
Proof.
  intro H. apply fdot_ext; [intros; reflexivity|]. intros l Hl. unfold fmv. apply sumn_ext.
  intros k Hk. rewrite (H l k Hl Hk). reflexivity.
Qed.

Lemma sq_nonneg (a : Q) : 0 <= a * a.
Proof. nra. Qed.

(* ------------------------------------------------------------------ truncation *)
Lemma ftrunc_recon n lam V i j : ftrunc n lam V i j == recon n lam V i j.
Proof. unfold ftrunc. apply lowsym_of_sym. intros; apply recon_sym. Qed.

Lemma ftrunc_psd n lam V x : 0 <= fdot n x (fmv n (ftrunc n lam V) x).
Proof.
  rewrite (quad_ext n _ (recon n lam V)) by (intros; apply ftrunc_recon).
  rewrite quad_recon. apply sumn_nonneg. intros k _.
  pose proof (cmax0_nonneg (lam k)). pose proof (sq_nonneg (proj n V x k)). nra.
Qed.

Lemma ftrunc_sym n lam V : fsym n (ftrunc n lam V).
Proof. intros i j _ _. unfold ftrunc. apply lowsym_sym. Qed.

(* the reconstruction from an exact decomposition with no negative eigenvalue is the matrix itself *)
Definition exact_decomp (n : nat) (S : fmat) (lam : fvec) (V : fmat) : Prop :=
  forall i j, (i < n)%nat -> (j < n)%nat -> S i j == sumn n (fun k => lam k * V i k * V j k).

Lemma recon_exact n S lam V :
  exact_decomp n S lam V -> (forall k, (k < n)%nat -> 0 <= lam k) ->
  forall i j, (i < n)%nat -> (j < n)%nat -> recon n lam V i j == S i j.
Proof.
  intros HD Hpos i j Hi Hj. rewrite (HD i j Hi Hj). unfold recon. apply sumn_ext.
  intros k Hk. rewrite cmax0_of_nonneg by (apply Hpos; exact Hk). reflexivity.
Qed.

(* C17_trunc_psd / C17_trunc_symmetric: whatever the solver returned *)
Lemma trunc_psd n S lam V x :
  fst (truncate_negative_eigen n S lam V) = false ->
  0 <= fdot n x (fmv n (snd (truncate_negative_eigen n S lam V)) x).
Proof.
  unfold truncate_negative_eigen. destruct (flag_positive n lam); cbn [fst snd]; [discriminate|].
  intros _. apply ftrunc_psd.
Qed.

Lemma trunc_symmetric n S lam V :
  fsym n S -> fsym n (snd (truncate_negative_eigen n S lam V)).
Proof.
  intro HS. unfold truncate_negative_eigen. destruct (flag_positive n lam); cbn [snd]; [exact HS | apply ftrunc_sym].
Qed.

(* when the routine leaves the matrix alone (all eigenvalues > 0), the matrix is PSD provided the decomposition is exact *)
Lemma exact_pos_psd n S lam V x :
  exact_decomp n S lam V -> (forall k, (k < n)%nat -> 0 <= lam k) -> 0 <= fdot n x (fmv n S x).
Proof.
  intros HD Hpos.
  rewrite (quad_ext n S (fun i j => sumn n (fun k => lam k * V i k * V j k))) by exact HD.
  rewrite quad_weighted. apply sumn_nonneg. intros k Hk.
  pose proof (Hpos k Hk). pose proof (sq_nonneg (proj n V x k)). nra.
Qed.

Lemma trunc_psd_exact n S lam V x :
  (fst (truncate_negative_eigen n S lam V) = true -> exact_decomp n S lam V) ->
  0 <= fdot n x (fmv n (snd (truncate_negative_eigen n S lam V)) x).
Proof.
  intro HD. destruct (fst (truncate_negative_eigen n S lam V)) eqn:E.
  - specialize (HD eq_refl). revert E. unfold truncate_negative_eigen.
    destruct (flag_positive n lam) eqn:F; cbn [fst snd]; [intros _ | discriminate].
    apply (exact_pos_psd n S lam V x HD). intros k Hk.
    apply flag_positive_spec with (k := k) in F; [lra | exact Hk].
  - apply trunc_psd. exact E.
Qed.

(* C17_trunc_id *)
Lemma trunc_id n S lam V :
  exact_decomp n S lam V -> (forall k, (k < n)%nat -> 0 <= lam k) ->
  forall i j, (i < n)%nat -> (j < n)%nat -> snd (truncate_negative_eigen n S lam V) i j == S i j.
Proof.
  intros HD Hpos i j Hi Hj. unfold truncate_negative_eigen.
  destruct (flag_positive n lam); cbn [snd]; [reflexivity|].
  rewrite ftrunc_recon. apply recon_exact; assumption.
Qed.

(* with an exact decomposition the truncation only ADDS a PSD matrix: x'S'x >= x'Sx *)
Lemma trunc_above n S lam V x :
  exact_decomp n S lam V ->
  fdot n x (fmv n S x) <= fdot n x (fmv n (snd (truncate_negative_eigen n S lam V)) x).
Proof.
  intro HD. unfold truncate_negative_eigen. destruct (flag_positive n lam); cbn [snd]; [lra|].
  rewrite (quad_ext n (ftrunc n lam V) (recon n lam V) x) by (intros; apply ftrunc_recon).
  rewrite quad_recon.
  rewrite (quad_ext n S (fun i j => sumn n (fun k => lam k * V i k * V j k))) by exact HD.
  rewrite quad_weighted.
  assert (H : 0 <= sumn n (fun k => cmax (lam k) 0 * (proj n V x k * proj n V x k))
                   - sumn n (fun k => lam k * (proj n V x k * proj n V x k))).
  { rewrite <- sumn_sub. apply sumn_nonneg. intros k _.
    pose proof (cmax0_ge (lam k)). pose proof (sq_nonneg (proj n V x k)). nra. }
  lra.
Qed.

(* ------------------------------------------------------------------ congruence by a diagonal: D S D is PSD when S is *)
Lemma diag_congruence_psd n (T : fmat) (d x : fvec) :
  (forall y, 0 <= fdot n y (fmv n T y)) ->
  0 <= fdot n x (fmv n (fun i j => T i j * d i * d j) x).
Proof.
  intro HT. specialize (HT (fun i => d i * x i)).
  assert (E : fdot n x (fmv n (fun i j => T i j * d i * d j) x)
              == fdot n (fun i => d i * x i) (fmv n T (fun i => d i * x i))).
  { unfold fdot, fmv. apply sumn_ext. intros i _.
    rewrite <- !sumn_scal_l. apply sumn_ext. intros; ring. }
  rewrite E. exact HT.
Qed.

Lemma lowsym_quad_sym n (f : fmat) x :
  (forall a b, f a b == f b a) -> fdot n x (fmv n (lowsym f) x) == fdot n x (fmv n f x).
Proof. intro H. apply quad_ext. intros i j _ _. apply lowsym_of_sym. exact H. Qed.

(* _makeDefinitePositive: whatever sqrt does, whatever the solver returned, the repaired matrix is symmetric PSD *)
Lemma make_dp_psd sqrtq n eps cons S lam V x :
  fst (make_dp sqrtq n eps cons S lam V) = false ->
  0 <= fdot n x (fmv n (snd (make_dp sqrtq n eps cons S lam V)) x).
Proof.
  unfold make_dp, truncate_negative_eigen.
  destruct (flag_positive n lam); cbn [fst snd]; [discriminate|]. intros _.
  rewrite lowsym_quad_sym.
  - apply diag_congruence_psd. intro y. apply ftrunc_psd.
  - intros a b. rewrite (ftrunc_recon n lam V a b), (ftrunc_recon n lam V b a), (recon_sym n lam V a b). ring.
Qed.

Lemma make_dp_sym sqrtq n eps cons S lam V :
  fsym n S -> fsym n (snd (make_dp sqrtq n eps cons S lam V)).
Proof.
  intro HS. unfold make_dp, truncate_negative_eigen.
  destruct (flag_positive n lam); cbn [fst snd]; [exact HS|].
  intros i j _ _. apply lowsym_sym.
Qed.

(* "diagonal unchanged": for a constrained variable whose truncated diagonal exceeds eps, if sqrtq is a square root there *)
Lemma make_dp_diag sqrtq n eps cons S lam V i c :
  fst (make_dp sqrtq n eps cons S lam V) = false ->
  cons i = Some c -> 0 <= eps ->
  eps < cabs (ftrunc n lam V i i) ->
  sqrtq (S i i / ftrunc n lam V i i) * sqrtq (S i i / ftrunc n lam V i i) == S i i / ftrunc n lam V i i ->
  snd (make_dp sqrtq n eps cons S lam V) i i == S i i.
Proof.
  unfold make_dp, truncate_negative_eigen.
  destruct (flag_positive n lam); cbn [fst snd]; [discriminate|]. intros _ Hc He Heps Hsq.
  unfold lowsym. rewrite Nat.leb_refl. unfold norme1, norme1_spec. rewrite Hc.
  set (T := ftrunc n lam V i i) in *.
  assert (HT : ~ T == 0).
  { intro E. unfold cabs in Heps. destruct (qltb_spec T 0); lra. }
  apply qltb_true in Heps. rewrite Heps. cbn [nspec_val].
  setoid_replace (T * sqrtq (S i i / T) * sqrtq (S i i / T))
    with (T * (sqrtq (S i i / T) * sqrtq (S i i / T))) by ring.
  rewrite Hsq. field. exact HT.
Qed.

(* ------------------------------------------------------------------ Goulard step and loop *)
Lemma newsill_sym n cc lam V : fsym n (goulard_newsill n cc lam V).
Proof.
  intros i j Hi Hj. unfold goulard_newsill. destruct (allpos n lam); [apply lowsym_sym | apply ftrunc_sym; assumption].
Qed.

(* PSD of the new sill: unconditional when something was truncated; when nothing was (allpos), cc itself is kept
   and its PSD-ness rests on the exactness of the decomposition the solver returned for it *)
Lemma newsill_psd n cc lam V x :
  (allpos n lam = true -> exact_decomp n (lowsym cc) lam V) ->
  0 <= fdot n x (fmv n (goulard_newsill n cc lam V) x).
Proof.
  intro HD. unfold goulard_newsill. destruct (allpos n lam) eqn:E.
  - apply (exact_pos_psd n (lowsym cc) lam V x (HD eq_refl)). apply allpos_spec. exact E.
  - apply ftrunc_psd.
Qed.

Lemma length_set_nth {A} k (x : A) l : length (set_nth k x l) = length l.
Proof. revert k; induction l as [|y r IH]; intros [|k]; cbn; auto. Qed.
Lemma nth_set_nth_eq {A} k (x : A) l d : (k < length l)%nat -> nth k (set_nth k x l) d = x.
Proof. revert k; induction l as [|y r IH]; intros [|k] H; cbn in *; try lia; auto. apply IH. lia. Qed.
Lemma nth_set_nth_neq {A} k k' (x : A) l d : k <> k' -> nth k' (set_nth k x l) d = nth k' l d.
Proof. revert k k'; induction l as [|y r IH]; intros [|k] [|k'] H; cbn; try reflexivity; try lia. apply IH. lia. Qed.

Section GoulardProofs.
  Variable c : gconst.
  Variable eig : nat -> mat -> option (list Q * mat).
  Let n := g_nvar c.

  (* "M is the output of the truncation step of some call to the solver" *)
  Definition trunc_output (M : mat) : Prop :=
    exists k cc lam V, eig k cc = Some (lam, V) /\
      M = mkr n n (goulard_newsill n (get cc) (vget lam) (get V)).

  Lemma step_icov_spec fks icov st st' :
    step_icov c eig fks icov st = Some st' ->
    length (g_sill st') = length (g_sill st) /\
    (forall k, k <> icov -> nth k (g_sill st') [] = nth k (g_sill st) []) /\
    ((icov < length (g_sill st))%nat -> trunc_output (nth icov (g_sill st') [])).
  Proof.
    unfold step_icov. set (cc := mkr _ _ _).
    destruct (eig (g_calls st) cc) as [[lam V]|] eqn:E; [|discriminate].
    intro H. injection H as <-. cbn [g_sill]. split; [apply length_set_nth|]. split.
    - intros k Hk. apply nth_set_nth_neq. congruence.
    - intro Hl. rewrite nth_set_nth_eq by exact Hl. exists (g_calls st), cc, lam, V. split; [exact E | reflexivity].
  Qed.

  (* after a sweep over structures lo .. lo+m-1, each of them holds a truncation output; the others are untouched *)
  Lemma sweep_spec fks m : forall lo st st',
    sweep c eig fks (seq lo m) st = Some st' ->
    (lo + m <= length (g_sill st))%nat ->
    length (g_sill st') = length (g_sill st) /\
    (forall k, (k < lo \/ lo + m <= k)%nat -> nth k (g_sill st') [] = nth k (g_sill st) []) /\
    (forall k, (lo <= k < lo + m)%nat -> trunc_output (nth k (g_sill st') [])).
  Proof.
    induction m as [|m IH]; intros lo st st' H Hlen; cbn [seq sweep] in H.
    - injection H as <-. split; [reflexivity|]. split; [reflexivity | intros; lia].
    - destruct (step_icov c eig fks lo st) as [st1|] eqn:E1; [|discriminate].
      apply step_icov_spec in E1. destruct E1 as (L1 & O1 & T1).
      apply IH in H; [|rewrite L1; lia]. destruct H as (L2 & O2 & T2).
      split; [congruence|]. split.
      + intros k Hk. rewrite O2 by lia. apply O1. lia.
      + intros k Hk. destruct (Nat.eq_dec k lo) as [->|Hne].
        * rewrite O2 by lia. apply T1. lia.
        * apply T2. lia.
  Qed.

  Lemma goulard_loop_spec fks : forall fuel crit st crits st' crits',
    goulard_loop c eig fks fuel crit st crits = Some (st', crits') ->
    length (g_sill st) = g_ncova c ->
    (fuel = O /\ st' = st) \/
    (length (g_sill st') = g_ncova c /\ forall k, (k < g_ncova c)%nat -> trunc_output (nth k (g_sill st') [])).
  Proof.
    induction fuel as [|f IH]; intros crit st crits st' crits' H Hlen; cbn [goulard_loop] in H.
    - injection H as <- _. left. split; reflexivity.
    - right. destruct (sweep c eig fks (seq 0 (g_ncova c)) st) as [st1|] eqn:E; [|discriminate].
      apply sweep_spec in E; [|lia]. destruct E as (L & _ & T).
      destruct (converged c (crit_of c (g_mp st1)) crit).
      + injection H as <- _. split; [congruence|]. intros k Hk. apply T. lia.
      + apply IH in H; [|congruence]. destruct H as [[_ ->]|H]; [|exact H].
        split; [congruence|]. intros k Hk. apply T. lia.
  Qed.

  (* C17_goulard_final_psd (sequencing part): with at least one iteration allowed, every sill matrix returned
     by the unconstrained Goulard loop was written last by the truncation step *)
  Lemma goulard_final_trunc maxiter sill0 st crits :
    goulard c eig maxiter sill0 = Some (st, crits) ->
    length sill0 = g_ncova c -> (1 <= maxiter)%nat ->
    forall icov, (icov < g_ncova c)%nat -> trunc_output (nth icov (g_sill st) []).
  Proof.
    unfold goulard. intros H Hlen Hm icov Hi.
    apply goulard_loop_spec in H; [|exact Hlen].
    destruct H as [[H0 _]|[_ H]]; [lia | apply H; exact Hi].
  Qed.

  (* with no iteration allowed the input sills come back untouched *)
  Lemma goulard_zero_iter sill0 st crits :
    goulard c eig O sill0 = Some (st, crits) -> g_sill st = sill0.
  Proof. unfold goulard. cbn [goulard_loop]. intro H. injection H as <- _. reflexivity. Qed.

  Lemma trunc_output_sym M : trunc_output M -> fsym n (get M).
  Proof.
    intros (k & cc & lam & V & _ & ->) i j Hi Hj.
    rewrite !get_mkr by assumption. apply newsill_sym; assumption.
  Qed.

  (* the solver's answers are exact whenever they show no negative eigenvalue *)
  Definition eig_exact_when_allpos : Prop :=
    forall k cc lam V, eig k cc = Some (lam, V) -> allpos n (vget lam) = true ->
      exact_decomp n (lowsym (get cc)) (vget lam) (get V).

  Lemma trunc_output_psd M x : eig_exact_when_allpos -> trunc_output M -> 0 <= fdot n x (fmv n (get M) x).
  Proof.
    intros HE (k & cc & lam & V & E & ->).
    rewrite (quad_ext n _ (goulard_newsill n (get cc) (vget lam) (get V))) by (intros; apply get_mkr; assumption).
    apply newsill_psd. intro Hp. apply (HE k cc lam V E Hp).
  Qed.

  Lemma goulard_final_psd maxiter sill0 st crits :
    eig_exact_when_allpos ->
    goulard c eig maxiter sill0 = Some (st, crits) ->
    length sill0 = g_ncova c -> (1 <= maxiter)%nat ->
    forall icov, (icov < g_ncova c)%nat ->
      fsym n (get (nth icov (g_sill st) [])) /\
      forall x, 0 <= fdot n x (fmv n (get (nth icov (g_sill st) [])) x).
  Proof.
    intros HE H Hlen Hm icov Hi.
    pose proof (goulard_final_trunc maxiter sill0 st crits H Hlen Hm icov Hi) as T.
    split; [apply trunc_output_sym; exact T | intro x; apply trunc_output_psd; assumption].
  Qed.
End GoulardProofs.

(* intrinsic case: a non-negative multiple of a PSD matrix *)
Lemma intrinsic_patch_psd n alpha S1 x :
  0 <= alpha -> (forall a b, S1 a b == S1 b a) -> (forall y, 0 <= fdot n y (fmv n S1 y)) ->
  0 <= fdot n x (fmv n (intrinsic_patch alpha S1) x).
Proof.
  intros Ha Hs HP. unfold intrinsic_patch.
  rewrite lowsym_quad_sym by (intros a b; rewrite (Hs a b); reflexivity).
  assert (E : fdot n x (fmv n (fun i j => alpha * S1 i j) x) == alpha * fdot n x (fmv n S1 x)).
  { unfold fdot, fmv. rewrite <- sumn_scal_l. apply sumn_ext. intros i _.
    assert (E1 : sumn n (fun l => alpha * S1 i l * x l) == alpha * sumn n (fun l => S1 i l * x l))
      by (rewrite <- sumn_scal_l; apply sumn_ext; intros; ring).
    rewrite E1. ring. }
  rewrite E. specialize (HP x). nra.
Qed.

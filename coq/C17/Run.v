(* C17 runner: decodes a case, runs the model, encodes the result.  Executable only.
   kinds:
     0  truncation            (0 n S lam V)
     1  make definite positive (1 n eps cons S lam V)
     2  Goulard without constraint (2 nvar ncova npadir maxiter tolred wt gg ge sill0 eigs)
     3  options -> parameters -> bounds (3 ndim nvar ndir zflat opts chars items roots sillneg defaults vmap)
     4  foxleg bound enforcement (4 delta (list (scale p l u h eps)))
     5  check_param            (5 (list (p l u)))
     6  parameter vector -> Model (6 nvar aniso samerot chars parids vals covas0)
     9  constant sill, diagonal term (9 cons xr srm)
    11  constant-sill constraint   (11 value sills nvar1 nvar2)
     7  one Goulard step       (7 n cc lam V)
     8  angles imposed by equality constraints (8 icov items parids angles) *)
From Coq Require Import List Arith ZArith QArith Qabs Bool.
From Gst Require Import lib.Sx lib.QAux lib.LinAlgQ C17.Model C17.ModelPar C17.ModelMap.
Import ListNotations.
Local Open Scope Q_scope.

Definition asQL (s : sx) : option (list Q) := asListOf asQ s.
Definition asMatQ (s : sx) : option mat := asListOf asQL s.
Definition asOQL (s : sx) : option (list (option Q)) := asListOf asOQ s.
Definition ofMat (n m : nat) (M : mat) : sx := ofList (fun r => ofList ofQ r) (mk n m (get M)).
Definition ofFmat (n m : nat) (f : fmat) : sx := ofList (fun r => ofList ofQ r) (mkr n m f).
Definition ofZ (z : Z) : sx := I z.

Definition ofNspec (s : nspec) : sx :=
  match s with NOne => L [I 0%Z] | NZero => L [I 2%Z] | NSqrt q => L [I 1%Z; ofQ q] end.

(* largest |S - sum_k lam_k v_k v_k'| : how exact the harvested decomposition is (information only) *)
Definition decomp_err (n : nat) (S : fmat) (lam : fvec) (V : fmat) : Q :=
  fold_right (fun i acc => fold_right (fun j acc2 =>
     let e := cabs (S i j - sumn n (fun k => lam k * V i k * V j k)) in if qltb acc2 e then e else acc2) acc (seq 0 n))
     0 (seq 0 n).

Definition asEig (s : sx) : option (list Q * mat) :=
  match s with
  | L [l; v] => match asQL l, asMatQ v with Some l', Some v' => Some (l', v') | _, _ => None end
  | _ => None
  end.

Definition asOpt (s : sx) : option optvar :=
  match asListOf asB s with
  | Some [a; b; c; d; e; f; g; h; i; j] => Some (mkO a b c d e f g h i j)
  | _ => None
  end.
Definition ofOpt (o : optvar) : sx :=
  L (map ofB [o_noreduce o; o_goulard o; o_aniso o; o_rot o; o_samerot o; o_rot2d o; o_no3d o; o_iso2d o; o_keepint o; o_intrinsic o]).

Definition asChar (s : sx) : option covchar :=
  match s with
  | L [fr; fp; pm; ng; ce] =>
      match asZ fr, asB fp, asOQ pm, asB ng, asB ce with
      | Some a, Some b, Some c, Some d, Some e => Some (mkC a b c d e)
      | _, _, _, _, _ => None
      end
  | _ => None
  end.
Definition asItem (s : sx) : option citem :=
  match s with
  | L [g; c; e; i1; i2; k; v] =>
      match asZ g, asZ c, asZ e, asZ i1, asZ i2, asZ k, asOQ v with
      | Some a, Some b, Some c', Some d, Some e', Some f, Some v' => Some (mkI a b c' d e' f v')
      | _, _, _, _, _, _, _ => None
      end
  | _ => None
  end.
Definition asParid (s : sx) : option parid :=
  match asListOf asZ s with
  | Some [a; b; c; d; e] => Some (mkP a b c d e)
  | _ => None
  end.
Definition ofPbound (t : pbound) : sx := let '(p, l, u) := t in L [ofOQ p; ofOQ l; ofOQ u].
Definition asPbound (s : sx) : option pbound :=
  match s with
  | L [p; l; u] => match asOQ p, asOQ l, asOQ u with Some a, Some b, Some c => Some (a, b, c) | _, _, _ => None end
  | _ => None
  end.
Definition asDefaults (s : sx) : option defaults :=
  match s with
  | L [h; dv; an; nr; nc] =>
      match asQ h, asQL dv, asQL an, asZ nr, asZ nc with
      | Some a, Some b, Some c, Some d, Some e => Some (mkD a b c d e)
      | _, _, _, _, _ => None
      end
  | _ => None
  end.

Definition asCova (s : sx) : option cova :=
  match s with
  | L [r; a; p; m] =>
      match asQL r, asQL a, asQ p, asMatQ m with
      | Some r', Some a', Some p', Some m' => Some (mkCv r' a' p' m')
      | _, _, _, _ => None
      end
  | _ => None
  end.

Definition asStep (s : sx) : option (Q * Q * option Q * option Q * Q * Q) :=
  match s with
  | L [sc; p; l; u; h; e] =>
      match asQ sc, asQ p, asOQ l, asOQ u, asQ h, asQ e with
      | Some a, Some b, Some c, Some d, Some e', Some f => Some (a, b, c, d, e', f)
      | _, _, _, _, _, _ => None
      end
  | _ => None
  end.

Definition run (c : sx) : sx :=
  match c with
  | L [I 0%Z; n; s; l; v] =>
      match asNat n, asMatQ s, asQL l, asMatQ v with
      | Some n', Some S0, Some lam, Some V =>
          let r := truncate_negative_eigen n' (lowsym (get S0)) (vget lam) (get V) in
          L [ofB (fst r); ofFmat n' n' (snd r); ofQ (decomp_err n' (lowsym (get S0)) (vget lam) (get V))]
      | _, _, _, _ => sx_error 1
      end
  | L [I 1%Z; n; e; cs; s; l; v] =>
      match asNat n, asQ e, asOQL cs, asMatQ s, asQL l, asMatQ v with
      | Some n', Some eps, Some consl, Some Sm, Some lam, Some V =>
          let S0 := lowsym (get Sm) in
          let r := truncate_negative_eigen n' S0 (vget lam) (get V) in
          let consf := fun i => nth i consl None in
          let T := get (mkr n' n' (snd r)) in
          L [ofB (fst r); ofFmat n' n' (snd r);
             L (map (fun i => ofNspec (if fst r then NOne else norme1_spec eps consf (fun i => S0 i i) T i)) (seq 0 n'))]
      | _, _, _, _, _, _ => sx_error 1
      end
  | L [I 2%Z; nv; nc; np; mi; tol; wt; gg; ge; s0; eg] =>
      match asNat nv, asNat nc, asNat np, asNat mi, asQ tol, asListOf asOQL wt, asMatQ gg, asListOf asMatQ ge,
            asListOf asMatQ s0, asListOf asEig eg with
      | Some nvar, Some ncova, Some npadir, Some maxiter, Some tolred, Some wt', Some gg', Some ge', Some sill0, Some eigs =>
          let gc := {| g_nvar := nvar; g_ncova := ncova; g_npadir := npadir; g_wt := wt'; g_gg := gg'; g_ge := ge';
                       g_tolred := tolred |} in
          let eig := fun (k : nat) (_ : mat) => nth_error eigs k in
          let sill0' := map (fun M => mkr nvar nvar (lowsym (get M))) sill0 in
          match goulard gc eig maxiter sill0' with
               | None => L [I 0%Z]
               | Some (st, crits) =>
                   L [I 1%Z; ofList (ofMat nvar nvar) (g_sill st); ofList ofQ crits; ofNat (g_calls st)]
               end
      | _, _, _, _, _, _, _, _, _, _ => sx_error 1
      end
  | L [I 3%Z; nd; nv; ndr; zf; op; chs; its; rts; sn; df; vm] =>
      match asNat nd, asNat nv, asZ ndr, asListOf asB zf, asOpt op, asListOf asChar chs, asListOf asItem its,
            asQL rts, asB sn, asDefaults df, asB vm with
      | Some ndim, Some nvar, Some ndir, Some zflat, Some o, Some chars, Some items, Some roots, Some sillneg, Some d, Some vmap =>
          let sill_cons := existsb (fun it => Z.eqb (ci_elem it) E_SILL) items in
          match (if vmap then alter_vmap_optvar (Z.of_nat ndim) (Z.of_nat nvar) sill_cons sillneg o
                 else alter_optvar (Z.of_nat ndim) ndir zflat (Z.of_nat nvar) sill_cons sillneg o) with
          | None => L [I 0%Z]
          | Some o' =>
              (* the items are rewritten as soon as one of them is about a sill *)
              let items' := if sill_cons then modify_constraints_on_sill items roots else Some items in
              match items' with
              | None => L [I 2%Z]
              | Some its' =>
                  let ps := parid_alloc o' ndim nvar chars in
                  let bs := bounds_of d chars its' ps in
                  L [I 1%Z; ofOpt o'; L (map (fun p => ofZ (parid_encode p)) ps); L (map ofPbound bs);
                     match check_param bs with None => L [I 0%Z] | Some bs' => L [I 1%Z; L (map ofPbound bs')] end;
                     ofB (forallb (fun p => match parid_decode (parid_encode p) with
                                            | mkP a b c' d' e => Z.eqb a (p_imod p) && Z.eqb b (p_icov p) && Z.eqb c' (p_elem p)
                                                                && Z.eqb d' (p_ivar p) && Z.eqb e (p_jvar p) end) ps)]
              end
          end
      | _, _, _, _, _, _, _, _, _, _, _ => sx_error 1
      end
  | L [I 4%Z; dl; steps] =>
      match asQ dl, asListOf asStep steps with
      | Some delta, Some sts =>
          L (map (fun '(sc, p, l, u, h, eps) =>
                    let b := define_bounds_one delta sc p l u in
                    let g := grad_points eps p l u in
                    L [ofQ (fst b); ofQ (snd b); ofQ (fst g); ofQ (snd g); ofB (shift_ok b h)]) sts)
      | _, _ => sx_error 1
      end
  | L [I 5%Z; ts] =>
      match asListOf asPbound ts with
      | Some ts' => match check_param ts' with None => L [I 0%Z] | Some r => L [I 1%Z; L (map ofPbound r)] end
      | None => sx_error 1
      end
  | L [I 6%Z; nv; an; sr; chs; ps; vs; cs] =>
      match asNat nv, asB an, asB sr, asListOf asChar chs, asListOf asParid ps, asQL vs, asListOf asCova cs with
      | Some nvar, Some aniso, Some samerot, Some chars, Some ps', Some vals, Some covas =>
          L (map (fun cv => L [L (map ofQ (cv_ranges cv)); L (map ofQ (cv_angles cv)); ofQ (cv_param cv); ofMat nvar nvar (cv_sill cv)])
                 (strmod_define aniso samerot nvar chars ps' vals covas))
      | _, _, _, _, _, _, _ => sx_error 1
      end
  | L [I 9%Z; cs; xr; sm] =>
      match asQ cs, asQ xr, asQ sm with
      | Some cs', Some xr', Some srm => L [ofQ (alpha_diag cs' xr' srm)]
      | _, _, _ => sx_error 1
      end
  | L [I 7%Z; n; s; l; v] =>
      match asNat n, asMatQ s, asQL l, asMatQ v with
      | Some n', Some cc, Some lam, Some V =>
          L [ofB (allpos n' (vget lam)); ofFmat n' n' (goulard_newsill n' (get cc) (vget lam) (get V))]
      | _, _, _, _ => sx_error 1
      end
  | L [I 8%Z; ic; its; ps; an] =>
      match asZ ic, asListOf asItem its, asListOf asParid ps, asQL an with
      | Some icov, Some items, Some ps', Some angles => L (map ofQ (imposed_angles items ps' icov angles))
      | _, _, _, _ => sx_error 1
      end
  | L [I 11%Z; vl; sl; n1; n2] =>
      match asOQ vl, asListOf asOQ sl, asNat n1, asNat n2 with
      | Some value, Some sills, Some nvar1, Some nvar2 =>
          let c0 := mkCS value sills in
          let c1 := expand_constant_sill nvar1 c0 in
          let c2 := expand_constant_sill nvar2 c1 in
          L [ofB (is_constraint_sill_defined c0); L (map ofOQ (cs_sills c1)); L (map ofOQ (cs_sills c2));
             match fit_cons_sill nvar1 c0 with None => L [] | Some l => L [L (map ofOQ l)] end]
      | _, _, _, _ => sx_error 1
      end
  | _ => sx_error 0
  end.

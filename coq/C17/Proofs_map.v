(* C17 proofs, part 3: parameter vector -> Model (ranges with locked directions, angles, third parameter, AIC sills). *)
From Coq Require Import List Arith ZArith QArith Qabs Bool Lqa Lia Setoid Morphisms.
From Gst Require Import lib.QAux lib.LinAlgQ C17.Model C17.ModelPar C17.ModelMap C17.Proofs_sill C17.Proofs_par.
Import ListNotations.
Local Open Scope Q_scope.

(* ------------------------------------------------------------------ list updates *)
Lemma length_set_nthq k x l : length (set_nthq k x l) = length l.
Proof. revert k; induction l as [|y r IH]; intros [|k]; cbn; auto. Qed.
Lemma nth_set_nthq_eq k x l d : (k < length l)%nat -> nth k (set_nthq k x l) d = x.
Proof. revert k; induction l as [|y r IH]; intros [|k] H; cbn in *; try lia; auto. apply IH. lia. Qed.
Lemma nth_set_nthq_neq k k' x l d : k <> k' -> nth k' (set_nthq k x l) d = nth k' l d.
Proof. revert k k'; induction l as [|y r IH]; intros [|k] [|k'] H; cbn; try reflexivity; try lia. apply IH. lia. Qed.

Lemma length_range_write r iv v : length (range_write r iv v) = length r.
Proof.
  unfold range_write. destruct (Z.eqb iv 0); destruct (_ && Z.ltb _ _); rewrite ?length_set_nthq, ?map_length; reflexivity.
Qed.

(* a write of rank 0 fills every direction *)
Lemma range_write_zero r v k d : (k < length r)%nat -> nth k (range_write r 0 v) d = v.
Proof.
  intro H. pose proof (range_write_iso r v) as F. rewrite Forall_forall in F.
  apply F. apply nth_In. rewrite length_range_write. exact H.
Qed.

(* a write of rank iv <> 0 leaves the other directions alone *)
Lemma range_write_other r iv v k d : iv <> 0%Z -> iv <> Z.of_nat k -> nth k (range_write r iv v) d = nth k r d.
Proof.
  intros H0 Hk. unfold range_write. destruct (Z.eqb_spec iv 0) as [E|E]; [contradiction|].
  destruct (Z.leb_spec 0 iv) as [P|P]; cbn [andb]; [|reflexivity].
  destruct (Z.ltb_spec iv (Z.of_nat (length r))) as [L|L]; [|reflexivity].
  apply nth_set_nthq_neq. intro E2. apply Hk. rewrite <- E2. rewrite Z2Nat.id; auto.
Qed.

Lemma range_write_same r iv v k d : iv = Z.of_nat k -> (k < length r)%nat -> nth k (range_write r iv v) d = v.
Proof.
  intros -> H. destruct k as [|k]; [apply range_write_zero; exact H|].
  unfold range_write. cbn [Z.eqb Z.of_nat].
  assert (E1 : Z.leb 0 (Z.of_nat (S k)) = true) by (apply Z.leb_le; lia).
  assert (E2 : Z.ltb (Z.of_nat (S k)) (Z.of_nat (length r)) = true) by (apply Z.ltb_lt; lia).
  cbn [Z.of_nat] in E1, E2. rewrite E1, E2. cbn [andb].
  change (Z.pos (Pos.of_succ_nat k)) with (Z.of_nat (S k)). rewrite Nat2Z.id. apply nth_set_nthq_eq. exact H.
Qed.

Lemma ranges_of_length icov : forall ps vals r, length (ranges_of icov ps vals r) = length r.
Proof.
  induction ps as [|p pr IH]; intros vals r; cbn [ranges_of]; [reflexivity|].
  destruct vals as [|v vr]; [reflexivity|]. rewrite IH. destruct (_ && _); [apply length_range_write | reflexivity].
Qed.

Lemma ranges_of_app icov : forall pre vpre ps vals r,
  length pre = length vpre ->
  ranges_of icov (pre ++ ps) (vpre ++ vals) r = ranges_of icov ps vals (ranges_of icov pre vpre r).
Proof.
  induction pre as [|p pr IH]; intros [|v vr] ps vals r H; cbn in H; try discriminate; [reflexivity|].
  cbn [app ranges_of]. apply IH. lia.
Qed.

(* no later identifier of the structure overrides direction k *)
Definition range_untouched (icov : Z) (k : nat) (rest : list parid) : Prop :=
  forall p, In p rest -> own icov E_RANGE p = true -> p_ivar p <> 0%Z /\ p_ivar p <> Z.of_nat k.

Lemma own_range_unfold icov p : own icov E_RANGE p = (Z.eqb (p_icov p) icov && Z.eqb (p_elem p) E_RANGE).
Proof. reflexivity. Qed.

Lemma ranges_of_keeps icov k d : forall rest vrest r,
  range_untouched icov k rest -> nth k (ranges_of icov rest vrest r) d = nth k r d.
Proof.
  induction rest as [|p pr IH]; intros vrest r H; cbn [ranges_of]; [reflexivity|].
  destruct vrest as [|v vr]; [reflexivity|].
  rewrite IH by (intros q Hq; apply H; right; exact Hq).
  destruct (Z.eqb (p_icov p) icov && Z.eqb (p_elem p) E_RANGE) eqn:E; [|reflexivity].
  destruct (H p (or_introl eq_refl) E) as [H0 Hk]. apply range_write_other; assumption.
Qed.

(* C17_ranges_locked: a direction without RANGE parameter of its own takes the range of rank 0 (lock_iso2d, lock_no3d, ...) *)
Lemma ranges_locked icov pre vpre p0 v0 rest vrest ranges k d :
  length pre = length vpre -> own icov E_RANGE p0 = true -> p_ivar p0 = 0%Z -> (k < length ranges)%nat ->
  range_untouched icov k rest ->
  nth k (ranges_of icov (pre ++ p0 :: rest) (vpre ++ v0 :: vrest) ranges) d = v0.
Proof.
  intros HL Hown H0 Hk Hrest. rewrite ranges_of_app by exact HL. cbn [ranges_of].
  rewrite own_range_unfold in Hown. rewrite Hown. rewrite ranges_of_keeps by exact Hrest. rewrite H0.
  apply range_write_zero. rewrite ranges_of_length. exact Hk.
Qed.

(* C17_ranges_written: a direction with its own RANGE parameter takes that value *)
Lemma ranges_written icov pre vpre p v rest vrest ranges k d :
  length pre = length vpre -> own icov E_RANGE p = true -> p_ivar p = Z.of_nat k -> (k < length ranges)%nat ->
  range_untouched icov k rest ->
  nth k (ranges_of icov (pre ++ p :: rest) (vpre ++ v :: vrest) ranges) d = v.
Proof.
  intros HL Hown Hiv Hk Hrest. rewrite ranges_of_app by exact HL. cbn [ranges_of].
  rewrite own_range_unfold in Hown. rewrite Hown. rewrite ranges_of_keeps by exact Hrest.
  apply range_write_same; [exact Hiv | rewrite ranges_of_length; exact Hk].
Qed.

(* ------------------------------------------------------------------ angles, third parameter *)
Lemma length_angle_write a iv v : length (angle_write a iv v) = length a.
Proof. unfold angle_write. destruct (_ && _); [apply length_set_nthq | reflexivity]. Qed.
Lemma angles_of_length icov : forall ps vals a, length (angles_of icov ps vals a) = length a.
Proof.
  induction ps as [|p pr IH]; intros vals a; cbn [angles_of]; [reflexivity|].
  destruct vals as [|v vr]; [reflexivity|]. rewrite IH. destruct (own _ _ _); [apply length_angle_write | reflexivity].
Qed.
Lemma angles_of_app icov : forall pre vpre ps vals a,
  length pre = length vpre ->
  angles_of icov (pre ++ ps) (vpre ++ vals) a = angles_of icov ps vals (angles_of icov pre vpre a).
Proof.
  induction pre as [|p pr IH]; intros [|v vr] ps vals a H; cbn in H; try discriminate; [reflexivity|].
  cbn [app angles_of]. apply IH. lia.
Qed.
Definition angle_untouched (icov : Z) (k : nat) (rest : list parid) : Prop :=
  forall p, In p rest -> own icov E_ANGLE p = true -> p_ivar p <> Z.of_nat k.
Lemma angle_write_other a iv v k d : iv <> Z.of_nat k -> nth k (angle_write a iv v) d = nth k a d.
Proof.
  intro H. unfold angle_write. destruct (Z.leb_spec 0 iv) as [P|P]; cbn [andb]; [|reflexivity].
  destruct (Z.ltb _ _); [|reflexivity]. apply nth_set_nthq_neq. intro E. apply H. rewrite <- E. rewrite Z2Nat.id; auto.
Qed.
Lemma angles_of_keeps icov k d : forall rest vrest a,
  angle_untouched icov k rest -> nth k (angles_of icov rest vrest a) d = nth k a d.
Proof.
  induction rest as [|p pr IH]; intros vrest a H; cbn [angles_of]; [reflexivity|].
  destruct vrest as [|v vr]; [reflexivity|].
  rewrite IH by (intros q Hq; apply H; right; exact Hq).
  destruct (own icov E_ANGLE p) eqn:E; [|reflexivity]. apply angle_write_other. apply (H p (or_introl eq_refl) E).
Qed.
Lemma angles_written icov pre vpre p v rest vrest angles k d :
  length pre = length vpre -> own icov E_ANGLE p = true -> p_ivar p = Z.of_nat k -> (k < length angles)%nat ->
  angle_untouched icov k rest ->
  nth k (angles_of icov (pre ++ p :: rest) (vpre ++ v :: vrest) angles) d = v.
Proof.
  intros HL Hown Hiv Hk Hrest. rewrite angles_of_app by exact HL. cbn [angles_of]. rewrite Hown.
  rewrite angles_of_keeps by exact Hrest. unfold angle_write. rewrite Hiv.
  assert (E1 : Z.leb 0 (Z.of_nat k) = true) by (apply Z.leb_le; lia).
  assert (E2 : Z.ltb (Z.of_nat k) (Z.of_nat (length (angles_of icov pre vpre angles))) = true)
    by (apply Z.ltb_lt; rewrite angles_of_length; lia).
  rewrite E1, E2. cbn [andb]. rewrite Nat2Z.id. apply nth_set_nthq_eq. rewrite angles_of_length. exact Hk.
Qed.

Lemma param_of_app icov : forall pre vpre ps vals p0,
  length pre = length vpre ->
  param_of icov (pre ++ ps) (vpre ++ vals) p0 = param_of icov ps vals (param_of icov pre vpre p0).
Proof.
  induction pre as [|p pr IH]; intros [|v vr] ps vals p0 H; cbn in H; try discriminate; [reflexivity|].
  cbn [app param_of]. apply IH. lia.
Qed.
Lemma param_of_keeps icov : forall rest vrest p0,
  (forall p, In p rest -> own icov E_PARAM p = false) -> param_of icov rest vrest p0 = p0.
Proof.
  induction rest as [|p pr IH]; intros vrest p0 H; cbn [param_of]; [reflexivity|].
  destruct vrest as [|v vr]; [reflexivity|]. rewrite (H p (or_introl eq_refl)).
  apply IH. intros q Hq. apply H. right. exact Hq.
Qed.
Lemma param_written icov pre vpre p v rest vrest p0 :
  length pre = length vpre -> own icov E_PARAM p = true ->
  (forall q, In q rest -> own icov E_PARAM q = false) ->
  param_of icov (pre ++ p :: rest) (vpre ++ v :: vrest) p0 = v.
Proof.
  intros HL Hown Hrest. rewrite param_of_app by exact HL. cbn [param_of]. rewrite Hown. apply param_of_keeps. exact Hrest.
Qed.

(* ------------------------------------------------------------------ round trip: the Model read back at the place a parameter designates *)
Lemma nth_error_of_nth {A} (l : list A) k d v : (k < length l)%nat -> nth k l d = v -> nth_error l k = Some v.
Proof. intros H E. rewrite (nth_error_nth' l d H). rewrite E. reflexivity. Qed.

Lemma has_parid_app icov pre p rest : Z.eqb (p_icov p) icov = true -> has_parid icov (pre ++ p :: rest) = true.
Proof. intro H. unfold has_parid. apply existsb_exists. exists p. split; [apply in_or_app; right; left; reflexivity | exact H]. Qed.
Lemma has_elem_app icov e pre p rest : own icov e p = true -> has_elem icov e (pre ++ p :: rest) = true.
Proof. intro H. unfold has_elem. apply existsb_exists. exists p. split; [apply in_or_app; right; left; reflexivity | exact H]. Qed.

Lemma own_icov icov e p : own icov e p = true -> Z.eqb (p_icov p) icov = true /\ p_elem p = e.
Proof. unfold own. intro H. apply andb_true_iff in H. destruct H as [H1 H2]. split; [exact H1 | apply Z.eqb_eq; exact H2]. Qed.

Lemma roundtrip_range nvar ch icov pre vpre p v rest vrest c0 k :
  Z.eqb (c_flag_range ch) 0 = false ->
  length pre = length vpre -> own icov E_RANGE p = true -> p_ivar p = Z.of_nat k -> (k < length (cv_ranges c0))%nat ->
  range_untouched icov k rest ->
  read_field p (define_cova true nvar ch icov (pre ++ p :: rest) (vpre ++ v :: vrest) c0) = Some v.
Proof.
  intros Hr HL Hown Hiv Hk Hrest. destruct (own_icov _ _ _ Hown) as [Hi He].
  unfold define_cova. rewrite (has_parid_app icov pre p rest Hi). cbn [negb]. rewrite Hr. cbn [negb].
  unfold read_field. cbn [cv_ranges]. rewrite He. cbn [Z.eqb E_RANGE]. rewrite Hiv, Nat2Z.id.
  apply (nth_error_of_nth _ k 0); [rewrite ranges_of_length; exact Hk|].
  apply ranges_written; assumption.
Qed.

Lemma roundtrip_angle aniso nvar ch icov pre vpre p v rest vrest c0 k :
  Z.eqb (c_flag_range ch) 0 = false ->
  length pre = length vpre -> own icov E_ANGLE p = true -> p_ivar p = Z.of_nat k -> (k < length (cv_angles c0))%nat ->
  angle_untouched icov k rest ->
  read_field p (define_cova aniso nvar ch icov (pre ++ p :: rest) (vpre ++ v :: vrest) c0) = Some v.
Proof.
  intros Hr HL Hown Hiv Hk Hrest. destruct (own_icov _ _ _ Hown) as [Hi He].
  unfold define_cova. rewrite (has_parid_app icov pre p rest Hi). cbn [negb]. rewrite Hr. cbn [negb andb].
  rewrite (has_elem_app icov E_ANGLE pre p rest Hown).
  unfold read_field. cbn [cv_angles]. rewrite He. cbn [Z.eqb E_ANGLE E_RANGE]. rewrite Hiv, Nat2Z.id.
  apply (nth_error_of_nth _ k 0); [rewrite angles_of_length; exact Hk|].
  apply angles_written; assumption.
Qed.

Lemma roundtrip_param aniso nvar ch icov pre vpre p v rest vrest c0 :
  c_flag_param ch = true ->
  length pre = length vpre -> own icov E_PARAM p = true ->
  (forall q, In q rest -> own icov E_PARAM q = false) ->
  read_field p (define_cova aniso nvar ch icov (pre ++ p :: rest) (vpre ++ v :: vrest) c0) = Some v.
Proof.
  intros Hp HL Hown Hrest. destruct (own_icov _ _ _ Hown) as [Hi He].
  unfold define_cova. rewrite (has_parid_app icov pre p rest Hi). cbn [negb]. rewrite Hp.
  unfold read_field. rewrite He. change (Z.eqb E_PARAM E_RANGE) with false. change (Z.eqb E_PARAM E_ANGLE) with false.
  change (Z.eqb E_PARAM E_PARAM) with true. cbv iota. cbn [cv_param].
  f_equal. apply param_written; assumption.
Qed.

(* isotropy: whatever the parameters, every direction of a structure with a range gets the same value *)
Lemma define_cova_isotropic nvar ch icov ps vals c0 :
  Z.eqb (c_flag_range ch) 0 = false -> has_parid icov ps = true ->
  exists r, Forall (fun x => x = r) (cv_ranges (define_cova false nvar ch icov ps vals c0)).
Proof.
  intros Hr Hp. unfold define_cova. rewrite Hp. cbn [negb]. rewrite Hr. cbn [negb cv_ranges].
  eexists. apply Forall_forall. intros x Hx. apply in_map_iff in Hx. destruct Hx as (_ & <- & _). reflexivity.
Qed.

(* ------------------------------------------------------------------ sills from AIC parameters: L L' is PSD for any content of tritab *)
Lemma tltu_f_sym n tri i j : tltu_f n tri i j == tltu_f n tri j i.
Proof. unfold tltu_f. apply sumn_ext. intros; ring. Qed.

Lemma tltu_f_psd n tri x : 0 <= fdot n x (fmv n (tltu_f n tri) x).
Proof.
  rewrite (quad_ext n _ (fun i j => sumn n (fun k => 1 * tl_get n tri i k * tl_get n tri j k))).
  2:{ intros i j _ _. unfold tltu_f. apply sumn_ext. intros; ring. }
  rewrite (quad_weighted n (fun _ => 1) (tl_get n tri) x). apply sumn_nonneg. intros k _.
  pose proof (sq_nonneg (proj n (tl_get n tri) x k)). lra.
Qed.

Lemma tltu_psd n tri x : 0 <= fdot n x (fmv n (get (tltu n tri)) x).
Proof.
  unfold tltu. rewrite (quad_ext n _ (tltu_f n tri)) by (intros; apply get_mkr; assumption). apply tltu_f_psd.
Qed.
Lemma tltu_sym n tri : fsym n (get (tltu n tri)).
Proof. intros i j Hi Hj. unfold tltu. rewrite !get_mkr by assumption. apply tltu_f_sym. Qed.

(* one variable: the sill is the square of the parameter *)
Lemma tltu_one a : tltu_f 1 [a] 0%nat 0%nat == a * a.
Proof. unfold tltu_f, tl_get. cbn. ring. Qed.

(* ------------------------------------------------------------------ constant sill: st_updateAlphaDiag *)
Lemma alpha_diag_nonneg cons xr srm : 0 <= alpha_diag cons xr srm.
Proof. unfold alpha_diag, cmax. destruct (qltb_spec (cons / (xr * xr) - srm) 0); lra. Qed.

(* with x = xr^2 > 0: x (srm + alpha) = max(cons, x srm): the sills of the variable add up to the constant sill unless the
   other structures already exceed it *)
Lemma alpha_diag_sum cons xr srm :
  ~ xr == 0 ->
  (srm * (xr * xr) <= cons -> xr * xr * (srm + alpha_diag cons xr srm) == cons) /\
  (cons <= srm * (xr * xr) -> xr * xr * (srm + alpha_diag cons xr srm) == xr * xr * srm).
Proof.
  intro Hx. assert (Hp : 0 < xr * xr) by (destruct (Qlt_le_dec 0 xr); [nra | assert (xr < 0) by (destruct (Qeq_dec xr 0); [contradiction|lra]); nra]).
  assert (Hn : ~ xr * xr == 0) by lra.
  assert (E : cons / (xr * xr) * (xr * xr) == cons) by (field; exact Hx).
  unfold alpha_diag, cmax. set (q := cons / (xr * xr)) in *.
  destruct (qltb_spec (q - srm) 0) as [L|L]; split; intro H.
  - assert (q * (xr * xr) < srm * (xr * xr)) by nra. lra.
  - ring.
  - setoid_replace (xr * xr * (srm + (q - srm))) with (q * (xr * xr)) by ring. exact E.
  - assert (srm * (xr * xr) <= q * (xr * xr)) by nra. assert (q * (xr * xr) == srm * (xr * xr)) by lra.
    setoid_replace (xr * xr * (srm + (q - srm))) with (q * (xr * xr)) by ring. rewrite H1. ring.
Qed.

(* ------------------------------------------------------------------ shape of one structure of st_parid_alloc *)
(* the RANGE parameter of rank 0 comes first; after it only anisotropy ranges (ranks >= 1, the non-locked ones) and angles *)
Lemma parids_cov_range_shape o ndim nvar jcov ch first :
  (0 <? c_flag_range ch)%Z = true ->
  exists pre rest,
    fst (parids_cov o ndim nvar jcov ch first) = pre ++ mkP 0 jcov E_RANGE 0 0 :: rest /\
    forall k, (forall p, In p (anicoef_parids o ndim jcov) -> p_ivar p <> Z.of_nat k) -> range_untouched jcov k rest.
Proof.
  intro Hr. unfold parids_cov. cbn [fst]. rewrite Hr.
  exists ((if negb (o_goulard o) then sill_parids nvar jcov else []) ++ (if c_flag_param ch then [mkP 0 jcov E_PARAM 0 0] else [])),
         ((if negb (c_flag_range ch =? 0)%Z && o_aniso o then anicoef_parids o ndim jcov else []) ++
          (if negb (c_flag_range ch =? 0)%Z && o_aniso o && o_rot o && take_rot o first then anirot_parids o ndim jcov else [])).
  split.
  - rewrite <- app_assoc. reflexivity.
  - intros k Hk p Hp Hown. apply in_app_or in Hp. destruct Hp as [Hp|Hp].
    + destruct (negb (c_flag_range ch =? 0)%Z && o_aniso o); [|destruct Hp].
      destruct (anicoef_parids_elem _ _ _ _ Hp) as [_ Hpos]. split; [lia | apply Hk; exact Hp].
    + exfalso. destruct (_ && take_rot _ _); [|destruct Hp].
      apply anirot_parids_elem in Hp. destruct (own_icov _ _ _ Hown) as [_ He]. rewrite Hp in He. discriminate.
Qed.

(* ------------------------------------------------------------------ constant-sill constraint *)
Lemma resize_length {A} n (v : A) l : length (resize n v l) = n.
Proof. unfold resize. rewrite app_length, firstn_length, repeat_length. lia. Qed.

Lemma nth_repeat_lt {A} (v : A) m : forall i d, (i < m)%nat -> nth i (repeat v m) d = v.
Proof. induction m as [|m IH]; intros i d H; [lia|]. destruct i; cbn; [reflexivity | apply IH; lia]. Qed.

Lemma resize_nth {A} n (v : A) l k d : (k < n)%nat ->
  nth k (resize n v l) d = if (k <? length l)%nat then nth k l d else v.
Proof.
  intro Hk. unfold resize. destruct (Nat.ltb_spec k (length l)) as [L|G].
  - rewrite app_nth1 by (rewrite firstn_length; lia). revert k Hk L. revert n.
    induction l as [|x r IH]; intros n k Hk L; [cbn in L; lia|]. destruct n; [lia|]. destruct k; cbn; [reflexivity|].
    apply IH; cbn in L; lia.
  - rewrite app_nth2 by (rewrite firstn_length; lia). rewrite firstn_length.
    replace (Nat.min n (length l)) with (length l) by lia. apply nth_repeat_lt. lia.
Qed.

(* C17_constant_sill_expand: after the expansion the imposed total of variable v is the user's entry when the user gave one
   (v < length of the vector), the scalar otherwise; exactly nvar entries *)
Lemma expand_spec nvar c v :
  (v < nvar)%nat ->
  length (cs_sills (expand_constant_sill nvar c)) = nvar /\
  imposed_total nvar c v = if (v <? length (cs_sills c))%nat then nth v (cs_sills c) None else cs_value c.
Proof.
  intro Hv. unfold imposed_total, expand_constant_sill. cbn [cs_sills]. split; [apply resize_length | apply resize_nth; exact Hv].
Qed.

(* expanding an already expanded object changes nothing; with another number of variables the entries kept are the same *)
Lemma resize_idem {A} n (v : A) l : resize n v (resize n v l) = resize n v l.
Proof.
  unfold resize at 1. rewrite resize_length. rewrite Nat.sub_diag. cbn [repeat]. rewrite app_nil_r.
  rewrite <- (resize_length n v l) at 1. apply firstn_all.
Qed.
Lemma expand_idem nvar c : expand_constant_sill nvar (expand_constant_sill nvar c) = expand_constant_sill nvar c.
Proof. unfold expand_constant_sill. cbn [cs_value cs_sills]. rewrite resize_idem. reflexivity. Qed.

Lemma expand_twice n1 n2 c v :
  (v < n2)%nat -> (v < n1)%nat ->
  imposed_total n2 (expand_constant_sill n1 c) v = imposed_total n1 c v.
Proof.
  intros H2 H1. unfold imposed_total, expand_constant_sill. cbn [cs_value cs_sills].
  rewrite (resize_nth n2 _ _ v None H2). rewrite resize_length.
  assert (E : (v <? n1)%nat = true) by (apply Nat.ltb_lt; exact H1). rewrite E. reflexivity.
Qed.

(* the vector handed to the constrained Goulard is the expanded one, and only when the scalar is defined *)
Lemma fit_cons_sill_spec nvar c l v :
  fit_cons_sill nvar c = Some l -> (v < nvar)%nat ->
  cs_value c <> None /\ nth v l None = imposed_total nvar c v.
Proof.
  unfold fit_cons_sill. destruct (cs_value c) eqn:E; [|discriminate]. intro H. injection H as <-. intros _.
  split; [discriminate | reflexivity].
Qed.

(* the reset before the optimisation under constraints shares the imposed total equally among the structures *)
Lemma reset_diag_total cv ncova : (0 < ncova)%nat -> inject_Z (Z.of_nat ncova) * reset_diag (Some cv) ncova == cv.
Proof.
  intro H. unfold reset_diag. field. intro E. assert (0 < inject_Z (Z.of_nat ncova)).
  { unfold Qlt, inject_Z. cbn. lia. } lra.
Qed.

(* a constraint item on a sill switches Goulard off: together with a constant-sill constraint the fit is refused *)
Lemma sill_item_and_constant_sill_refused ndim ndir zflat nvar sn o o' c :
  alter_optvar ndim ndir zflat nvar true sn o = Some o' -> is_constraint_sill_defined c = true ->
  constant_sill_refused o' c = true.
Proof.
  intros H Hc. destruct (alter_optvar_restricts _ _ _ _ _ _ _ _ H) as (_ & _ & Hg & _).
  unfold constant_sill_refused. rewrite Hc. cbn [andb]. destruct (o_goulard o') eqn:G; [|reflexivity].
  destruct (Hg eq_refl) as [_ F]. discriminate.
Qed.
Lemma sill_item_and_constant_sill_refused_vmap ndim nvar sn o o' c :
  alter_vmap_optvar ndim nvar true sn o = Some o' -> is_constraint_sill_defined c = true ->
  constant_sill_refused o' c = true.
Proof.
  intros H Hc. destruct (alter_vmap_optvar_restricts _ _ _ _ _ _ H) as (_ & _ & Hg & _).
  unfold constant_sill_refused. rewrite Hc. cbn [andb]. destruct (o_goulard o') eqn:G; [|reflexivity].
  destruct (Hg eq_refl) as [_ F]. discriminate.
Qed.
(* without constant sill nothing is refused on that account *)
Lemma no_constant_sill_not_refused o' : constant_sill_refused o' (mkCS None []) = false.
Proof. reflexivity. Qed.

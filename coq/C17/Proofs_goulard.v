(* C17 proofs, part 4: one Goulard step.  The term written for a pair of variables minimises the weighted sum of squares
   over that term (the other structures fixed); without truncation a step never increases the criterion. *)
From Coq Require Import List Arith ZArith QArith Qabs Bool Lqa Lia Setoid Morphisms.
From Gst Require Import lib.QAux lib.LinAlgQ C17.Model C17.Proofs_sill.
Import ListNotations.
Local Open Scope Q_scope.

(* ------------------------------------------------------------------ one-dimensional weighted least squares *)
Lemma quad_expand n (w g r : nat -> Q) s :
  sumn n (fun i => w i * ((r i - s * g i) * (r i - s * g i)))
  == sumn n (fun i => w i * (r i * r i)) - 2 * s * sumn n (fun i => w i * g i * r i) + s * s * sumn n (fun i => w i * (g i * g i)).
Proof.
  rewrite <- !sumn_scal_l. rewrite <- sumn_sub. rewrite <- sumn_add. apply sumn_ext. intros; ring.
Qed.

(* sum w g^2 = 0 with w >= 0: every w g vanishes *)
Lemma wgg_zero n (w g : nat -> Q) :
  (forall i, (i < n)%nat -> 0 <= w i) -> sumn n (fun i => w i * (g i * g i)) == 0 ->
  forall i, (i < n)%nat -> w i * g i == 0.
Proof.
  induction n as [|n IH]; intros Hw H i Hi; [lia|]. cbn [sumn] in H.
  assert (P : 0 <= sumn n (fun i => w i * (g i * g i))).
  { apply sumn_nonneg. intros k Hk. pose proof (Hw k ltac:(lia)). pose proof (sq_nonneg (g k)). nra. }
  assert (Q0 : 0 <= w n * (g n * g n)) by (pose proof (Hw n ltac:(lia)); pose proof (sq_nonneg (g n)); nra).
  destruct (Nat.eq_dec i n) as [->|Hne].
  - assert (E : w n * (g n * g n) == 0) by lra.
    pose proof (Hw n ltac:(lia)) as Wn.
    destruct (Qeq_dec (g n) 0) as [G|G]; [rewrite G; ring|].
    assert (0 < g n * g n) by (destruct (Qlt_le_dec 0 (g n)); [nra | assert (g n < 0) by lra; nra]).
    assert (w n == 0) by nra. rewrite H1. ring.
  - apply IH; [intros k Hk; apply Hw; lia | lra | lia].
Qed.

(* the minimiser: s* = S1 / S2 (any s* when S2 = 0) *)
Lemma quad_min n (w g r : nat -> Q) sopt s :
  (forall i, (i < n)%nat -> 0 <= w i) ->
  sopt * sumn n (fun i => w i * (g i * g i)) == sumn n (fun i => w i * g i * r i) ->
  sumn n (fun i => w i * ((r i - sopt * g i) * (r i - sopt * g i))) <= sumn n (fun i => w i * ((r i - s * g i) * (r i - s * g i))).
Proof.
  intros Hw E. rewrite !quad_expand.
  set (A := sumn n (fun i => w i * (r i * r i))). set (S1 := sumn n (fun i => w i * g i * r i)) in *.
  set (S2 := sumn n (fun i => w i * (g i * g i))) in *.
  assert (P : 0 <= S2). { apply sumn_nonneg. intros k Hk. pose proof (Hw k Hk). pose proof (sq_nonneg (g k)). nra. }
  assert (D : (A - 2 * s * S1 + s * s * S2) - (A - 2 * sopt * S1 + sopt * sopt * S2) == (s - sopt) * (s - sopt) * S2).
  { rewrite <- E. ring. }
  pose proof (sq_nonneg (s - sopt)). nra.
Qed.

(* ------------------------------------------------------------------ the term written by the Goulard step *)
Section Entry.
  Variable c : gconst.
  Let n := g_nvar c.
  Let nvs2 := (n * (n + 1) / 2)%nat.
  Let npadir := g_npadir c.

  Definition weff (ij ip : nat) : Q := if wt_def c ij ip then wt_val c ij ip else 0.

  Lemma weff_nonneg ij ip : (forall ip, 0 <= wt_val c ij ip) -> 0 <= weff ij ip.
  Proof. intro H. unfold weff. destruct (wt_def c ij ip); [apply H | lra]. Qed.

  Lemma entry_crit_weff icov mp1 ij s :
    entry_crit c icov mp1 ij s ==
    sumn npadir (fun ip => weff ij ip * (((get (g_gg c) ij ip - get mp1 ij ip) - s * get (ge_of c icov) ij ip) *
                                          ((get (g_gg c) ij ip - get mp1 ij ip) - s * get (ge_of c icov) ij ip))).
  Proof.
    unfold entry_crit. apply sumn_ext. intros ip _. unfold weff. destruct (wt_def c ij ip); cbn zeta; ring.
  Qed.

  Lemma sum1_weff icov ij :
    sum1 c icov ij == sumn npadir (fun ip => weff ij ip * get (ge_of c icov) ij ip * get (g_gg c) ij ip).
  Proof. unfold sum1. rewrite sumnr_sumn. apply sumn_ext. intros ip _. unfold weff. destruct (wt_def c ij ip); ring. Qed.
  Lemma sum2_weff icov ij :
    sum2 c icov ij == sumn npadir (fun ip => weff ij ip * (get (ge_of c icov) ij ip * get (ge_of c icov) ij ip)).
  Proof. unfold sum2. rewrite sumnr_sumn. apply sumn_ext. intros ip _. unfold weff. destruct (wt_def c ij ip); ring. Qed.
  Lemma fk_weff icov ij ip : (ij < nvs2)%nat -> (ip < npadir)%nat ->
    get (fk c icov) ij ip == weff ij ip * get (ge_of c icov) ij ip.
  Proof. intros H1 H2. unfold fk. rewrite get_mkr by assumption. unfold weff. destruct (wt_def c ij ip); ring. Qed.

  (* the optimality equation  cc_entry * S2 = S1(residual)  *)
  Lemma cc_entry_normal icov mp1 ij :
    (ij < nvs2)%nat -> (forall ip, 0 <= wt_val c ij ip) ->
    cc_entry c icov (fk c icov) mp1 ij * sumn npadir (fun ip => weff ij ip * (get (ge_of c icov) ij ip * get (ge_of c icov) ij ip))
    == sumn npadir (fun ip => weff ij ip * get (ge_of c icov) ij ip * (get (g_gg c) ij ip - get mp1 ij ip)).
  Proof.
    intros Hij Hw.
    assert (F : sumn npadir (fun ip => get (fk c icov) ij ip * get mp1 ij ip)
                == sumn npadir (fun ip => weff ij ip * get (ge_of c icov) ij ip * get mp1 ij ip)).
    { apply sumn_ext. intros ip Hip. rewrite fk_weff by assumption. reflexivity. }
    assert (R : sumn npadir (fun ip => weff ij ip * get (ge_of c icov) ij ip * (get (g_gg c) ij ip - get mp1 ij ip))
                == sum1 c icov ij - sumn npadir (fun ip => weff ij ip * get (ge_of c icov) ij ip * get mp1 ij ip)).
    { rewrite sum1_weff. rewrite <- sumn_sub. apply sumn_ext. intros; ring. }
    rewrite R. unfold cc_entry. fold npadir. rewrite F.
    set (M := sumn npadir (fun ip => weff ij ip * get (ge_of c icov) ij ip * get mp1 ij ip)).
    pose proof (sum2_weff icov ij) as S2e. rewrite <- S2e.
    unfold aic, alphak.
    destruct (qeqb_spec (sum2 c icov ij) 0) as [Z|NZ].
    - (* no weighted lag: S2 = 0, hence S1 = 0 and M = 0 *)
      assert (WG : forall ip, (ip < npadir)%nat -> weff ij ip * get (ge_of c icov) ij ip == 0).
      { apply (wgg_zero npadir (weff ij) (fun ip => get (ge_of c icov) ij ip)); [intros ip _; apply weff_nonneg; exact Hw|].
        rewrite <- S2e. exact Z. }
      assert (S1z : sum1 c icov ij == 0).
      { rewrite sum1_weff. apply sumn_zero. intros ip Hip. rewrite (WG ip Hip). ring. }
      assert (Mz : M == 0) by (apply sumn_zero; intros ip Hip; rewrite (WG ip Hip); ring).
      rewrite S1z, Mz, Z. ring.
    - rewrite !Qred_correct. field. exact NZ.
  Qed.

  (* C17_goulard_entry_minimiser *)
  Lemma entry_minimiser icov mp1 ij s :
    (ij < nvs2)%nat -> (forall ip, 0 <= wt_val c ij ip) ->
    entry_crit c icov mp1 ij (cc_entry c icov (fk c icov) mp1 ij) <= entry_crit c icov mp1 ij s.
  Proof.
    intros Hij Hw. rewrite !entry_crit_weff.
    apply (quad_min npadir (weff ij) (fun ip => get (ge_of c icov) ij ip) (fun ip => get (g_gg c) ij ip - get mp1 ij ip)).
    - intros ip _. apply weff_nonneg. exact Hw.
    - apply cc_entry_normal; assumption.
  Qed.
End Entry.

(* ------------------------------------------------------------------ index pairs *)
Lemma tri_pairs_length n : length (tri_pairs n) = (n * (n + 1) / 2)%nat.
Proof.
  induction n as [|k IH]; [reflexivity|]. cbn [tri_pairs]. rewrite app_length, map_length, seq_length, IH.
  replace (S k * (S k + 1))%nat with (k * (k + 1) + S k * 2)%nat by ring.
  rewrite Nat.div_add by lia. reflexivity.
Qed.

Lemma tri_pairs_nth n : forall p, (p < length (tri_pairs n))%nat ->
  let ij := nth p (tri_pairs n) (O, O) in (snd ij <= fst ij)%nat /\ (fst ij < n)%nat /\ tri (fst ij) (snd ij) = p.
Proof.
  induction n as [|k IH]; intros p Hp; [cbn in Hp; lia|]. cbn [tri_pairs] in *.
  rewrite app_length, map_length, seq_length in Hp.
  destruct (Nat.lt_ge_cases p (length (tri_pairs k))) as [L|G].
  - rewrite app_nth1 by exact L. destruct (IH p L) as (H1 & H2 & H3). cbn zeta. repeat split; [exact H1 | lia | exact H3].
  - rewrite app_nth2 by exact G. set (q := (p - length (tri_pairs k))%nat).
    assert (Hq : (q < S k)%nat) by (unfold q; lia).
    rewrite (nth_indep _ (O, O) ((fun j => (k, j)) O)) by (rewrite map_length, seq_length; exact Hq).
    rewrite map_nth. rewrite seq_nth by exact Hq. cbn [fst snd plus]. repeat split; [lia | lia|].
    unfold tri. rewrite <- tri_pairs_length. unfold q. lia.
Qed.

(* ------------------------------------------------------------------ a step without truncation never increases the criterion *)
Section Step.
  Variable c : gconst.
  Variable eig : nat -> mat -> option (list Q * mat).
  Let n := g_nvar c.
  Let nvs2 := (n * (n + 1) / 2)%nat.
  Let npadir := g_npadir c.

  Definition coef (ij : nat) : Q := if Nat.eqb (iv c ij) (jv c ij) then 1 else 2.
  Lemma coef_pos ij : 0 < coef ij. Proof. unfold coef. destruct (Nat.eqb _ _); lra. Qed.

  (* the criterion when the current structure contributes the terms S on top of mp1 *)
  Lemma crit_of_split icov (mp1 : mat) (S : fmat) :
    crit_of c (mkr nvs2 npadir (fun ij ip => get mp1 ij ip + S (iv c ij) (jv c ij) * get (ge_of c icov) ij ip))
    == sumn nvs2 (fun ij => coef ij * entry_crit c icov mp1 ij (S (iv c ij) (jv c ij))).
  Proof.
    unfold crit_of. fold n. fold nvs2. fold npadir. rewrite sumnr_sumn. apply sumn_ext. intros ij Hij.
    rewrite sumnr_sumn. unfold entry_crit. fold npadir. rewrite <- sumn_scal_l. apply sumn_ext. intros ip Hip.
    cbv zeta. unfold coef. destruct (wt_def c ij ip); [|ring].
    rewrite (get_mkr nvs2 npadir _ ij ip Hij Hip).
    destruct (Nat.eqb (iv c ij) (jv c ij)); ring.
  Qed.

  Lemma iv_jv_spec ij : (ij < nvs2)%nat -> (jv c ij <= iv c ij)%nat /\ (iv c ij < n)%nat /\ tri (iv c ij) (jv c ij) = ij.
  Proof.
    intro H. unfold iv, jv. fold n. apply (tri_pairs_nth n ij). rewrite tri_pairs_length. exact H.
  Qed.

  (* C17_goulard_step_decrease (partial: the step at which the solver reports no negative eigenvalue, i.e. no truncation) *)
  Lemma step_decrease icov st st' :
    (forall ij ip, 0 <= wt_val c ij ip) ->
    step_icov c eig (map (fk c) (seq 0 (g_ncova c))) icov st = Some st' ->
    (icov < g_ncova c)%nat ->
    (forall cc lam V, eig (g_calls st) cc = Some (lam, V) -> allpos n (vget lam) = true) ->
    crit_of c (g_mp st') <= crit_of c (g_mp st).
  Proof.
    intros Hw Hstep Hic Heig. unfold step_icov in Hstep. fold n in Hstep. fold nvs2 in Hstep. fold npadir in Hstep.
    set (S0 := nth icov (g_sill st) []) in *.
    set (mp1 := mkr nvs2 npadir (fun ij ip => get (g_mp st) ij ip - get S0 (iv c ij) (jv c ij) * get (ge_of c icov) ij ip)) in *.
    set (f := nth icov (map (fk c) (seq 0 (g_ncova c))) []) in *.
    assert (Ff : f = fk c icov).
    { unfold f. rewrite (nth_indep _ [] (fk c O)) by (rewrite map_length, seq_length; exact Hic).
      rewrite map_nth. rewrite seq_nth by exact Hic. reflexivity. }
    set (cc := mkr n n (lowsym (fun i j => cc_entry c icov f mp1 (tri i j)))) in *.
    destruct (eig (g_calls st) cc) as [[lam V]|] eqn:E0; [|discriminate].
    pose proof (Heig cc lam V E0) as Hap. injection Hstep as <-. cbn [g_mp].
    set (S' := mkr n n (goulard_newsill n (get cc) (vget lam) (get V))).
    (* new criterion *)
    rewrite (crit_of_split icov mp1 (get S')).
    (* old criterion: g_mp st = mp1 + S0 * ge on the index range *)
    assert (Old : crit_of c (g_mp st) == sumn nvs2 (fun ij => coef ij * entry_crit c icov mp1 ij (get S0 (iv c ij) (jv c ij)))).
    { rewrite <- (crit_of_split icov mp1 (get S0)). unfold crit_of. fold n. fold nvs2. fold npadir.
      rewrite !sumnr_sumn. apply sumn_ext. intros ij Hij. rewrite !sumnr_sumn. apply sumn_ext. intros ip Hip.
      cbv zeta. destruct (wt_def c ij ip); [|reflexivity].
      rewrite (get_mkr nvs2 npadir _ ij ip Hij Hip). unfold mp1. rewrite (get_mkr nvs2 npadir _ ij ip Hij Hip).
      setoid_replace (get (g_mp st) ij ip - get S0 (iv c ij) (jv c ij) * get (ge_of c icov) ij ip +
                      get S0 (iv c ij) (jv c ij) * get (ge_of c icov) ij ip) with (get (g_mp st) ij ip) by ring.
      reflexivity. }
    rewrite Old.
    assert (D : 0 <= sumn nvs2 (fun ij => coef ij * entry_crit c icov mp1 ij (get S0 (iv c ij) (jv c ij)))
                     - sumn nvs2 (fun ij => coef ij * entry_crit c icov mp1 ij (get S' (iv c ij) (jv c ij)))).
    { rewrite <- sumn_sub. apply sumn_nonneg. intros ij Hij.
      destruct (iv_jv_spec ij Hij) as (Hle & Hlt & Htri).
      assert (Hj : (jv c ij < n)%nat) by lia.
      assert (E : get S' (iv c ij) (jv c ij) == cc_entry c icov (fk c icov) mp1 ij).
      { unfold S'. rewrite get_mkr by assumption. unfold goulard_newsill. rewrite Hap.
        unfold lowsym at 1. assert (L : (jv c ij <=? iv c ij)%nat = true) by (apply Nat.leb_le; exact Hle). rewrite L.
        unfold cc. rewrite get_mkr by assumption. unfold lowsym. rewrite L. rewrite Htri, Ff. reflexivity. }
      assert (M := entry_minimiser c icov mp1 ij (get S0 (iv c ij) (jv c ij)) Hij (Hw ij)).
      assert (EC : entry_crit c icov mp1 ij (get S' (iv c ij) (jv c ij)) == entry_crit c icov mp1 ij (cc_entry c icov (fk c icov) mp1 ij)).
      { unfold entry_crit. apply sumn_ext. intros ip _. destruct (wt_def c ij ip); [|reflexivity]. cbn zeta. rewrite E. reflexivity. }
      rewrite EC. pose proof (coef_pos ij). nra. }
    lra.
  Qed.
End Step.

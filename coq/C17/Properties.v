(* C17 — property theorems only. Each is closed by [exact] of a lemma of Proofs_sill.v / Proofs_par.v. *)
From Coq Require Import List Arith ZArith QArith Bool Lia.
From Gst Require Import lib.QAux lib.LinAlgQ C17.Model C17.ModelPar C17.ModelMap C17.Proofs_sill C17.Proofs_par C17.Proofs_map C17.Proofs_goulard.
Import ListNotations.
Local Open Scope Q_scope.

(* ================================================================== 1. sill matrices *)

(* The reconstruction  S'_ij = sum_k max(lam_k,0) v_ik v_jk  is symmetric and positive semi-definite for ANY
   eigenvalues and ANY "eigenvectors" the solver may have returned (no orthogonality, no exactness):
   x'S'x = sum_k max(lam_k,0) (v_k.x)^2. *)
Theorem C17_trunc_psd : forall n lam V,
  fsym n (ftrunc n lam V) /\ forall x, 0 <= fdot n x (fmv n (ftrunc n lam V) x).
Proof. intros n lam V. split; [exact (ftrunc_sym n lam V) | exact (ftrunc_psd n lam V)]. Qed.
Print Assumptions C17_trunc_psd.

(* _truncateNegativeEigen / st_truncate_negative_eigen as routines: they either leave S alone (every eigenvalue > 0)
   or write the reconstruction *)
Theorem C17_trunc_symmetric : forall n S lam V,
  fsym n S -> fsym n (snd (truncate_negative_eigen n S lam V)).
Proof. exact trunc_symmetric. Qed.
Print Assumptions C17_trunc_symmetric.

Theorem C17_trunc_routine_psd : forall n S lam V x,
  (fst (truncate_negative_eigen n S lam V) = true -> exact_decomp n S lam V) ->
  0 <= fdot n x (fmv n (snd (truncate_negative_eigen n S lam V)) x).
Proof. exact trunc_psd_exact. Qed.
Print Assumptions C17_trunc_routine_psd.

(* an exact decomposition without negative eigenvalue: the sill is unchanged *)
Theorem C17_trunc_id : forall n S lam V,
  exact_decomp n S lam V -> (forall k, (k < n)%nat -> 0 <= lam k) ->
  forall i j, (i < n)%nat -> (j < n)%nat -> snd (truncate_negative_eigen n S lam V) i j == S i j.
Proof. exact trunc_id. Qed.
Print Assumptions C17_trunc_id.

(* with an exact decomposition the truncation only adds a PSD matrix *)
Theorem C17_trunc_above : forall n S lam V x,
  exact_decomp n S lam V ->
  fdot n x (fmv n S x) <= fdot n x (fmv n (snd (truncate_negative_eigen n S lam V)) x).
Proof. exact trunc_above. Qed.
Print Assumptions C17_trunc_above.

(* _makeDefinitePositive / st_makeDefinitePositive: the rescaling is a congruence by a diagonal, whatever sqrt returns *)
Theorem C17_makedp_psd : forall sqrtq n eps cons S lam V x,
  fst (make_dp sqrtq n eps cons S lam V) = false ->
  0 <= fdot n x (fmv n (snd (make_dp sqrtq n eps cons S lam V)) x).
Proof. exact make_dp_psd. Qed.
Print Assumptions C17_makedp_psd.

Theorem C17_makedp_symmetric : forall sqrtq n eps cons S lam V,
  fsym n S -> fsym n (snd (make_dp sqrtq n eps cons S lam V)).
Proof. exact make_dp_sym. Qed.
Print Assumptions C17_makedp_symmetric.

(* "(diagonal unchanged)" holds for a constrained variable as soon as sqrt is a square root at the ratio used *)
Theorem C17_makedp_diag : forall sqrtq n eps cons S lam V i c,
  fst (make_dp sqrtq n eps cons S lam V) = false ->
  cons i = Some c -> 0 <= eps ->
  eps < cabs (ftrunc n lam V i i) ->
  sqrtq (S i i / ftrunc n lam V i i) * sqrtq (S i i / ftrunc n lam V i i) == S i i / ftrunc n lam V i i ->
  snd (make_dp sqrtq n eps cons S lam V) i i == S i i.
Proof. exact make_dp_diag. Qed.
Print Assumptions C17_makedp_diag.

(* sequencing of _goulardWithoutConstraint / st_goulard_without_constraint: with at least one iteration allowed, every
   sill matrix that comes back was written last by the truncation step (for any weights, data, basic structures, any
   number of iterations, any behaviour of the eigen-solver) *)
Theorem C17_goulard_final_trunc : forall c eig maxiter sill0 st crits,
  goulard c eig maxiter sill0 = Some (st, crits) ->
  length sill0 = g_ncova c -> (1 <= maxiter)%nat ->
  forall icov, (icov < g_ncova c)%nat -> trunc_output c eig (nth icov (g_sill st) []).
Proof. exact goulard_final_trunc. Qed.
Print Assumptions C17_goulard_final_trunc.

(* hence symmetric PSD; the only thing asked of the solver is exactness of the answers in which it reports no negative
   eigenvalue (the code then keeps the matrix as it is) *)
Theorem C17_goulard_final_psd : forall c eig maxiter sill0 st crits,
  eig_exact_when_allpos c eig ->
  goulard c eig maxiter sill0 = Some (st, crits) ->
  length sill0 = g_ncova c -> (1 <= maxiter)%nat ->
  forall icov, (icov < g_ncova c)%nat ->
    fsym (g_nvar c) (get (nth icov (g_sill st) [])) /\
    forall x, 0 <= fdot (g_nvar c) x (fmv (g_nvar c) (get (nth icov (g_sill st) [])) x).
Proof. exact goulard_final_psd. Qed.
Print Assumptions C17_goulard_final_psd.

(* maxiter = 0: nothing is written, the initial sills (the identity in every caller) come back *)
Theorem C17_goulard_zero_iter : forall c eig sill0 st crits,
  goulard c eig O sill0 = Some (st, crits) -> g_sill st = sill0.
Proof. exact goulard_zero_iter. Qed.
Print Assumptions C17_goulard_zero_iter.

(* intrinsic case: alpha * S1 with alpha >= 0 *)
Theorem C17_intrinsic_psd : forall n alpha S1 x,
  0 <= alpha -> (forall a b, S1 a b == S1 b a) -> (forall y, 0 <= fdot n y (fmv n S1 y)) ->
  0 <= fdot n x (fmv n (intrinsic_patch alpha S1) x).
Proof. exact intrinsic_patch_psd. Qed.
Print Assumptions C17_intrinsic_psd.

(* ================================================================== 2. parameters, bounds, constraints, options *)

Theorem C17_parid_roundtrip : forall p, small_parid p -> parid_decode (parid_encode p) = p.
Proof. exact decode_encode. Qed.
Print Assumptions C17_parid_roundtrip.

(* st_check_param: if it accepts, every parameter lies in [lower, upper] afterwards *)
Theorem C17_bounds_invariant : forall ts ts', check_param ts = Some ts' -> Forall in_bounds ts'.
Proof. exact check_param_in_bounds. Qed.
Print Assumptions C17_bounds_invariant.

(* ... and it refuses exactly when some parameter has lower > upper (foxleg_f returns 1, the fit reports failure) *)
Theorem C17_bounds_reject : forall ts,
  check_param ts = None <-> exists p l u, In (p, Some l, Some u) ts /\ u < l.
Proof. exact check_param_rejects. Qed.
Print Assumptions C17_bounds_reject.

(* st_define_bounds: from a parameter inside its bounds, any step inside the box [b0,b1] (up to the slack e that
   st_linear_interpolate tolerates) lands inside the bounds (up to e) *)
Theorem C17_bounds_step : forall delta scale p l u,
  0 <= delta * scale ->
  (match l with Some lv => lv <= p | None => True end) ->
  (match u with Some uv => p <= uv | None => True end) ->
  let b := define_bounds_one delta scale p l u in
  fst b <= 0 /\ 0 <= snd b /\
  forall h e, 0 <= e -> fst b - e <= h -> h <= snd b + e ->
    (match l with Some lv => lv - e <= p + h | None => True end) /\
    (match u with Some uv => p + h <= uv + e | None => True end).
Proof. exact define_bounds_sound. Qed.
Print Assumptions C17_bounds_step.

(* st_gradient evaluates the model only at points inside the bounds *)
Theorem C17_bounds_gradient : forall eps p l u,
  0 <= eps ->
  (match l with Some lv => lv <= p | None => True end) ->
  (match u with Some uv => p <= uv | None => True end) ->
  in_bounds (Some (fst (grad_points eps p l u)), l, u) /\ in_bounds (Some (snd (grad_points eps p l u)), l, u).
Proof. exact grad_points_in_bounds. Qed.
Print Assumptions C17_bounds_gradient.

(* st_model_auto_constraints_apply: parameter k gets the user bounds of its own identifier merged with its defaults *)
Theorem C17_constraints_encoded : forall items ps ts k p pp l u,
  nth_error ps k = Some p -> nth_error ts k = Some (pp, l, u) ->
  exists t', nth_error (constraints_apply items ps ts) k = Some t' /\
    snd (fst t') = merge_lower (constraints_get items T_LOWER p) l /\
    snd t' = merge_upper (constraints_get items T_UPPER p) u.
Proof. exact constraints_apply_encoded. Qed.
Print Assumptions C17_constraints_encoded.

(* the value looked up for p is that of the first item designating p (same igrf, icov, type, iv1, and iv2 for sills) *)
Theorem C17_constraints_first : forall pre it post p,
  (forall x, In x pre -> designates x p = false) -> designates it p = true ->
  (ci_case it = T_LOWER -> constraints_get (pre ++ it :: post) T_LOWER p = ci_val it) /\
  (ci_case it = T_UPPER -> constraints_get (pre ++ it :: post) T_UPPER p = ci_val it) /\
  (ci_case it = T_DEFAULT -> constraints_get (pre ++ it :: post) T_DEFAULT p = ci_val it) /\
  (ci_case it = T_EQUAL -> constraints_get (pre ++ it :: post) T_LOWER p = ci_val it /\
                           constraints_get (pre ++ it :: post) T_UPPER p = ci_val it).
Proof. exact constraints_get_first. Qed.
Print Assumptions C17_constraints_first.

(* ... and a parameter designated by no item keeps its default bounds *)
Theorem C17_constraints_no_other : forall items p pp l u,
  (forall it, In it items -> designates it p = false) ->
  snd (fst (apply_one items p (pp, l, u))) = l /\ snd (apply_one items p (pp, l, u)) = u.
Proof. exact apply_one_untouched. Qed.
Print Assumptions C17_constraints_no_other.

(* an equality constraint compatible with the default bounds gives lower = upper = value *)
Theorem C17_constraints_equal : forall pre it post p pp l u v,
  (forall x, In x pre -> designates x p = false) -> designates it p = true ->
  ci_case it = T_EQUAL -> ci_val it = Some v ->
  (match l with Some lv => lv <= v | None => True end) ->
  (match u with Some uv => v <= uv | None => True end) ->
  oq_eq (snd (fst (apply_one (pre ++ it :: post) p (pp, l, u)))) v /\
  oq_eq (snd (apply_one (pre ++ it :: post) p (pp, l, u))) v.
Proof. exact apply_one_equal. Qed.
Print Assumptions C17_constraints_equal.

(* locked rotation removes exactly the ANGLE parameters *)
Theorem C17_options_rotation : forall o ndim nvar chars,
  parid_alloc (set_rot o false) ndim nvar chars
  = filter (fun p => negb (is_angle p)) (parid_alloc (set_rot o true) ndim nvar chars).
Proof. intros. apply parid_alloc_rot. Qed.
Print Assumptions C17_options_rotation.

Theorem C17_options_no_angle : forall o ndim nvar chars,
  o_rot o = false -> filter is_angle (parid_alloc o ndim nvar chars) = [].
Proof. intros. apply parid_alloc_no_angle. assumption. Qed.
Print Assumptions C17_options_no_angle.

(* isotropy removes exactly the ANGLE parameters and the RANGE parameters of rank >= 1 ... *)
Theorem C17_options_isotropy : forall o ndim nvar chars,
  parid_alloc (set_aniso o false) ndim nvar chars
  = filter keep_iso (parid_alloc (set_aniso o true) ndim nvar chars).
Proof. intros. apply parid_alloc_iso. Qed.
Print Assumptions C17_options_isotropy.

(* ... so that a structure keeps a single range parameter *)
Theorem C17_options_single_range : forall o ndim nvar jcov ch first,
  o_aniso o = false ->
  filter is_range (fst (parids_cov o ndim nvar jcov ch first))
    = (if (0 <? c_flag_range ch)%Z then [mkP 0 jcov E_RANGE 0 0] else []) /\
  filter is_angle (fst (parids_cov o ndim nvar jcov ch first)) = [].
Proof. exact parids_cov_single_range. Qed.
Print Assumptions C17_options_single_range.

(* the "clever setting" of st_alter_model_optvar never re-opens what the user locked *)
Theorem C17_options_restrict : forall ndim ndir zflat nvar sc sn o o',
  alter_optvar ndim ndir zflat nvar sc sn o = Some o' ->
  (o_aniso o' = true -> o_aniso o = true) /\
  (o_rot o' = true -> o_rot o = true /\ o_aniso o' = true) /\
  (o_goulard o' = true -> o_goulard o = true /\ sc = false) /\
  (o_goulard o' = false -> (nvar <= 1)%Z).
Proof. exact alter_optvar_restricts. Qed.
Print Assumptions C17_options_restrict.

(* fitFromVMap: same guarantee (the forced "anisotropy + rotation" of the pinned tree is gone) *)
Theorem C17_options_restrict_vmap : forall ndim nvar sc sn o o',
  alter_vmap_optvar ndim nvar sc sn o = Some o' ->
  (o_aniso o' = true -> o_aniso o = true) /\
  (o_rot o' = true -> o_rot o = true /\ o_aniso o' = true) /\
  (o_goulard o' = true -> o_goulard o = true /\ sc = false) /\
  (o_goulard o' = false -> (nvar <= 1)%Z).
Proof. exact alter_vmap_optvar_restricts. Qed.
Print Assumptions C17_options_restrict_vmap.

(* an equality constraint on an angle that is not a parameter of the fit is written into the structure ... *)
Theorem C17_angle_equality_imposed : forall pre it post ps icov idim a0 v,
  angle_is_param ps icov idim = false ->
  (forall x, In x pre -> designates x (mkP 0 icov E_ANGLE idim 0) = false) ->
  designates it (mkP 0 icov E_ANGLE idim 0) = true ->
  ci_case it = T_EQUAL -> ci_val it = Some v ->
  imposed_angle (pre ++ it :: post) ps icov idim a0 = v.
Proof. exact imposed_angle_equal. Qed.
Print Assumptions C17_angle_equality_imposed.

(* ... and an angle that is inferred, or designated by no item, is left to the fit / to its reference value *)
Theorem C17_angle_untouched : forall items ps icov idim a0,
  angle_is_param ps icov idim = true \/ (forall it, In it items -> designates it (mkP 0 icov E_ANGLE idim 0) = false) ->
  imposed_angle items ps icov idim a0 = a0.
Proof. exact imposed_angle_untouched. Qed.
Print Assumptions C17_angle_untouched.

(* every range written into a structure is one of its RANGE parameters: positive parameters give positive ranges *)
Theorem C17_ranges_positive : forall icov ps vals ranges,
  Forall (fun x => 0 < x) ranges ->
  (forall k p v, nth_error ps k = Some p -> nth_error vals k = Some v ->
                 p_icov p = icov -> p_elem p = E_RANGE -> 0 < v) ->
  Forall (fun x => 0 < x) (ranges_of icov ps vals ranges).
Proof. intros icov ps vals ranges. exact (ranges_of_forall (fun x => 0 < x) icov ps vals ranges). Qed.
Print Assumptions C17_ranges_positive.

Theorem C17_ranges_isotropic : forall ranges v, Forall (fun x => x = v) (range_write ranges 0 v).
Proof. exact range_write_iso. Qed.
Print Assumptions C17_ranges_isotropic.

(* ================================================================== 3. one Goulard step *)

(* the term written for the pair of variables ij of structure icov (before truncation) minimises, over that term, the part
   of the weighted sum of squares it enters -- for any data, any other structures (mp1), non-negative weights; a pair
   without weighted lag included *)
Theorem C17_goulard_entry_minimiser : forall c icov mp1 ij s,
  (ij < g_nvar c * (g_nvar c + 1) / 2)%nat -> (forall ip, 0 <= wt_val c ij ip) ->
  entry_crit c icov mp1 ij (cc_entry c icov (fk c icov) mp1 ij) <= entry_crit c icov mp1 ij s.
Proof. exact entry_minimiser. Qed.
Print Assumptions C17_goulard_entry_minimiser.

(* a step of the loop at which the solver reports no negative eigenvalue (nothing is truncated) never increases the
   criterion.  PARTIAL with respect to "monotone decrease of every step": after a truncation the new sill is the Frobenius
   projection of the minimiser, which is not the constrained minimiser of the weighted criterion; nothing is claimed there *)
Theorem C17_goulard_step_decrease_partial : forall c eig icov st st',
  (forall ij ip, 0 <= wt_val c ij ip) ->
  step_icov c eig (map (fk c) (seq 0 (g_ncova c))) icov st = Some st' ->
  (icov < g_ncova c)%nat ->
  (forall cc lam V, eig (g_calls st) cc = Some (lam, V) -> allpos (g_nvar c) (vget lam) = true) ->
  crit_of c (g_mp st') <= crit_of c (g_mp st).
Proof. exact step_decrease. Qed.
Print Assumptions C17_goulard_step_decrease_partial.

(* ================================================================== 4. parameter vector -> Model *)

(* a direction that has no RANGE parameter of its own (locked: lock_iso2d, lock_no3d, isotropy in the plane ...) takes the
   range of rank 0 of the structure *)
Theorem C17_ranges_locked : forall icov pre vpre p0 v0 rest vrest ranges k d,
  length pre = length vpre -> own icov E_RANGE p0 = true -> p_ivar p0 = 0%Z -> (k < length ranges)%nat ->
  range_untouched icov k rest ->
  nth k (ranges_of icov (pre ++ p0 :: rest) (vpre ++ v0 :: vrest) ranges) d = v0.
Proof. exact ranges_locked. Qed.
Print Assumptions C17_ranges_locked.

(* ... and the list st_parid_alloc builds for a structure has exactly that shape *)
Theorem C17_ranges_alloc_shape : forall o ndim nvar jcov ch first,
  (0 <? c_flag_range ch)%Z = true ->
  exists pre rest,
    fst (parids_cov o ndim nvar jcov ch first) = pre ++ mkP 0 jcov E_RANGE 0 0 :: rest /\
    forall k, (forall p, In p (anicoef_parids o ndim jcov) -> p_ivar p <> Z.of_nat k) -> range_untouched jcov k rest.
Proof. exact parids_cov_range_shape. Qed.
Print Assumptions C17_ranges_alloc_shape.

(* round trip: the Model read back at the place a parameter designates gives the value of that parameter (ranges with
   anisotropy authorised, angles, third parameter), provided no later parameter of the structure designates the same place *)
Theorem C17_params_roundtrip_range : forall nvar ch icov pre vpre p v rest vrest c0 k,
  Z.eqb (c_flag_range ch) 0 = false ->
  length pre = length vpre -> own icov E_RANGE p = true -> p_ivar p = Z.of_nat k -> (k < length (cv_ranges c0))%nat ->
  range_untouched icov k rest ->
  read_field p (define_cova true nvar ch icov (pre ++ p :: rest) (vpre ++ v :: vrest) c0) = Some v.
Proof. exact roundtrip_range. Qed.
Print Assumptions C17_params_roundtrip_range.

Theorem C17_params_roundtrip_angle : forall aniso nvar ch icov pre vpre p v rest vrest c0 k,
  Z.eqb (c_flag_range ch) 0 = false ->
  length pre = length vpre -> own icov E_ANGLE p = true -> p_ivar p = Z.of_nat k -> (k < length (cv_angles c0))%nat ->
  angle_untouched icov k rest ->
  read_field p (define_cova aniso nvar ch icov (pre ++ p :: rest) (vpre ++ v :: vrest) c0) = Some v.
Proof. exact roundtrip_angle. Qed.
Print Assumptions C17_params_roundtrip_angle.

Theorem C17_params_roundtrip_param : forall aniso nvar ch icov pre vpre p v rest vrest c0,
  c_flag_param ch = true ->
  length pre = length vpre -> own icov E_PARAM p = true ->
  (forall q, In q rest -> own icov E_PARAM q = false) ->
  read_field p (define_cova aniso nvar ch icov (pre ++ p :: rest) (vpre ++ v :: vrest) c0) = Some v.
Proof. exact roundtrip_param. Qed.
Print Assumptions C17_params_roundtrip_param.

(* isotropy: every direction of a structure with a range carries the same value, whatever the parameters *)
Theorem C17_define_isotropic : forall nvar ch icov ps vals c0,
  Z.eqb (c_flag_range ch) 0 = false -> has_parid icov ps = true ->
  exists r, Forall (fun x => x = r) (cv_ranges (define_cova false nvar ch icov ps vals c0)).
Proof. exact define_cova_isotropic. Qed.
Print Assumptions C17_define_isotropic.

(* sills as parameters (Goulard off): the sill matrix is L L' -- symmetric PSD for ANY parameter values, any packing *)
Theorem C17_aic_sill_psd : forall n tri,
  fsym n (get (tltu n tri)) /\ forall x, 0 <= fdot n x (fmv n (get (tltu n tri)) x).
Proof. intros n tri. split; [exact (tltu_sym n tri) | exact (tltu_psd n tri)]. Qed.
Print Assumptions C17_aic_sill_psd.

(* lock_samerot: the ANGLE parameters all belong to one structure *)
Theorem C17_options_samerot : forall o ndim nvar chars p q,
  o_samerot o = true ->
  In p (parid_alloc o ndim nvar chars) -> In q (parid_alloc o ndim nvar chars) ->
  is_angle p = true -> is_angle q = true -> p_icov p = p_icov q.
Proof. intros o ndim nvar chars p q Hs. apply (parid_alloc_samerot o ndim nvar chars 0%Z (-1)%Z Hs). lia. Qed.
Print Assumptions C17_options_samerot.

(* constant sill, st_updateAlphaDiag: the new term is >= 0 and makes the sills of the variable add up to the constant sill,
   unless the other structures already exceed it *)
Theorem C17_constant_sill_diag : forall cons xr srm,
  0 <= alpha_diag cons xr srm /\
  (~ xr == 0 ->
   (srm * (xr * xr) <= cons -> xr * xr * (srm + alpha_diag cons xr srm) == cons) /\
   (cons <= srm * (xr * xr) -> xr * xr * (srm + alpha_diag cons xr srm) == xr * xr * srm)).
Proof. intros. split; [apply alpha_diag_nonneg | apply alpha_diag_sum]. Qed.
Print Assumptions C17_constant_sill_diag.

(* ================================================================== 5. the constant-sill constraint *)

(* Constraints::expandConstantSill: after the expansion there is one imposed total per variable: the user's entry where the
   user gave a vector entry, the scalar value elsewhere *)
Theorem C17_constant_sill_expand : forall nvar c v,
  (v < nvar)%nat ->
  length (cs_sills (expand_constant_sill nvar c)) = nvar /\
  imposed_total nvar c v = if (v <? length (cs_sills c))%nat then nth v (cs_sills c) None else cs_value c.
Proof. exact expand_spec. Qed.
Print Assumptions C17_constant_sill_expand.

(* expanding again (same object used for another fit), or for another number of variables, keeps the totals already there *)
Theorem C17_constant_sill_reexpand : forall n1 n2 c v,
  expand_constant_sill n1 (expand_constant_sill n1 c) = expand_constant_sill n1 c /\
  ((v < n2)%nat -> (v < n1)%nat -> imposed_total n2 (expand_constant_sill n1 c) v = imposed_total n1 c v).
Proof. intros. split; [apply expand_idem | apply expand_twice]. Qed.
Print Assumptions C17_constant_sill_reexpand.

(* what the fit hands to the constrained Goulard is that vector -- and only if the scalar value is defined: a vector given
   alone does not switch the constrained Goulard on (st_goulard_fitting tests the scalar) *)
Theorem C17_constant_sill_to_goulard : forall nvar c l v,
  fit_cons_sill nvar c = Some l -> (v < nvar)%nat ->
  cs_value c <> None /\ nth v l None = imposed_total nvar c v.
Proof. exact fit_cons_sill_spec. Qed.
Print Assumptions C17_constant_sill_to_goulard.

(* the reset of the constrained Goulard gives each of the ncova structures the share total / ncova *)
Theorem C17_constant_sill_reset : forall cv ncova,
  (0 < ncova)%nat -> inject_Z (Z.of_nat ncova) * reset_diag (Some cv) ncova == cv.
Proof. exact reset_diag_total. Qed.
Print Assumptions C17_constant_sill_reset.

(* a constraint item on a sill (which switches Goulard off) together with a constant-sill constraint: the fit is refused,
   from an experimental variogram and from a variogram map (before the repair the imposed total was dropped silently) *)
Theorem C17_constant_sill_with_sill_item_refused : forall ndim ndir zflat nvar sn o o' c,
  alter_optvar ndim ndir zflat nvar true sn o = Some o' -> is_constraint_sill_defined c = true ->
  constant_sill_refused o' c = true.
Proof. exact sill_item_and_constant_sill_refused. Qed.
Print Assumptions C17_constant_sill_with_sill_item_refused.

Theorem C17_constant_sill_with_sill_item_refused_vmap : forall ndim nvar sn o o' c,
  alter_vmap_optvar ndim nvar true sn o = Some o' -> is_constraint_sill_defined c = true ->
  constant_sill_refused o' c = true.
Proof. exact sill_item_and_constant_sill_refused_vmap. Qed.
Print Assumptions C17_constant_sill_with_sill_item_refused_vmap.

(* ================================================================== non-vacuity *)
Definition ex_S : fmat := fun i j => match i, j with O, O => 1 | 1%nat, 1%nat => 1 | O, 1%nat => 2 | 1%nat, O => 2 | _, _ => 0 end.
Definition ex_lam : fvec := fun k => match k with O => 3 | _ => -(1) end.
(* unnormalised eigenvectors (1,1)/sqrt2, (1,-1)/sqrt2 scaled: V V' = I needs sqrt; exact decomposition with lam/2 *)
Definition ex_V : fmat := fun i k => match i, k with 1%nat, 1%nat => -(1) | _, _ => 1 end.
Definition ex_lam2 : fvec := fun k => match k with O => 3 # 2 | _ => -(1 # 2) end.

(* the truncation really changes an indefinite matrix: [[1,2],[2,1]] -> [[3/2,3/2],[3/2,3/2]] *)
Example C17_trunc_nonvacuous :
  exact_decomp 2 ex_S ex_lam2 ex_V /\
  fst (truncate_negative_eigen 2 ex_S ex_lam2 ex_V) = false /\
  Qeq_bool (snd (truncate_negative_eigen 2 ex_S ex_lam2 ex_V) 0%nat 1%nat) (3 # 2) = true /\
  Qeq_bool (fdot 2 (fun i => match i with O => 1 | _ => -(1) end)
              (fmv 2 ex_S (fun i => match i with O => 1 | _ => -(1) end))) (-(2)) = true.
Proof.
  split; [|vm_compute; repeat split; reflexivity].
  intros i j Hi Hj. destruct i as [|[|i]]; destruct j as [|[|j]]; try lia; vm_compute; reflexivity.
Qed.

(* trunc_id hypotheses are satisfiable with a genuinely PSD matrix [[2,1],[1,2]] = (3/2)(1,1)(1,1)' + (1/2)(1,-1)(1,-1)' *)
Example C17_trunc_id_nonvacuous :
  let S := fun i j : nat => if Nat.eqb i j then 2 else 1 in
  let lam := fun k : nat => match k with O => 3 # 2 | _ => 1 # 2 end in
  exact_decomp 2 S lam ex_V /\ (forall k, (k < 2)%nat -> 0 <= lam k).
Proof.
  split.
  - intros i j Hi Hj. destruct i as [|[|i]]; destruct j as [|[|j]]; try lia; vm_compute; reflexivity.
  - intros k Hk. destruct k as [|[|k]]; try lia; vm_compute; discriminate.
Qed.

(* make_dp: S = [[1,7],[7,1]] = 4 (1,1)(1,1)' - 3 (1,-1)(1,-1)'; truncated to 4 (1,1)(1,1)'; constrained variables:
   norme1 = sqrt(1/4) = 1/2, the result is [[1,1],[1,1]]: PSD with the original diagonal *)
Example C17_makedp_nonvacuous :
  let S := fun i j : nat => if Nat.eqb i j then 1 else 7 in
  let lam := fun k : nat => match k with O => 4 | _ => -(3) end in
  let sq := fun q : Q => if Qeq_bool q (1 # 4) then 1 # 2 else 1 in
  let cons := fun i : nat => Some 1 in
  fst (make_dp sq 2 (1 # 1000000000000) cons S lam ex_V) = false /\
  Qeq_bool (ftrunc 2 lam ex_V 0%nat 0%nat) 4 = true /\
  Qeq_bool (snd (make_dp sq 2 (1 # 1000000000000) cons S lam ex_V) 0%nat 0%nat) 1 = true /\
  Qeq_bool (snd (make_dp sq 2 (1 # 1000000000000) cons S lam ex_V) 0%nat 1%nat) 1 = true.
Proof. vm_compute. repeat split; reflexivity. Qed.

(* Goulard: two structures, two variables, three lags, an oracle that answers with the decomposition along (1,1),(1,-1) *)
Definition ex_gc : gconst :=
  {| g_nvar := 2; g_ncova := 2; g_npadir := 3;
     g_wt := [[Some 1; Some 1; Some 1]; [Some 1; Some 1; None]; [Some 1; Some 1; Some 1]];
     g_gg := [[1; 2; 3]; [1; 3; 0]; [1; 2; 2]];
     g_ge := [[[1; 1; 1]; [1; 1; 1]; [1; 1; 1]]; [[1 # 2; 3 # 4; 1]; [1 # 2; 3 # 4; 1]; [1 # 2; 3 # 4; 1]]];
     g_tolred := 1 # 1000 |}.
Definition ex_eig (k : nat) (cc : mat) : option (list Q * mat) :=
  let a := get cc 0%nat 0%nat in let b := get cc 1%nat 0%nat in
  Some ([(a + b) / 2; (a - b) / 2], [[1; 1]; [1; -(1)]]).
Example C17_goulard_nonvacuous :
  match goulard ex_gc ex_eig 3 [[[1; 0]; [0; 1]]; [[1; 0]; [0; 1]]] with
  | Some (st, crits) => length (g_sill st) = 2%nat /\ (2 <= g_calls st)%nat /\ (2 <= length crits)%nat
  | None => False
  end.
Proof. vm_compute. repeat split; lia. Qed.

(* bounds: a lower > upper triple is rejected, a consistent one is clamped *)
Example C17_bounds_nonvacuous :
  check_param [(Some 5, Some 1, Some 3); (Some 0, Some 1, None)] = Some [(Some 3, Some 1, Some 3); (Some 1, Some 1, None)] /\
  check_param [(Some 2, Some 3, Some 1)] = None.
Proof. vm_compute. split; reflexivity. Qed.

Example C17_bounds_step_nonvacuous :
  let b := define_bounds_one 1 (1 # 2) 1 (Some (3 # 4)) (Some 4) in
  Qeq_bool (fst b) (-(1 # 4)) = true /\ Qeq_bool (snd b) (1 # 2) = true.
Proof. vm_compute. split; reflexivity. Qed.

(* constraints: an equality on the range of structure 1 and an upper bound on the third parameter of structure 2
   land on those two parameters only; the anisotropy range of structure 1 keeps the default lower bound hmax/1e6 *)
Definition oqb (a : option Q) (v : Q) : bool := match a with Some x => Qeq_bool x v | None => false end.
Definition onone (a : option Q) : bool := match a with Some _ => false | None => true end.
Example C17_constraints_nonvacuous :
  let o := mkO false true true true false false false false false false in
  let chars := [mkC 0 false None true false; mkC 1 false None false false; mkC 1 true (Some 2) false false] in
  let ps := parid_alloc o 2 1 chars in
  let d := mkD 10 [1] [0; 0] 2 3 in
  let items := [mkI 0 1 E_RANGE 0 0 T_EQUAL (Some 3); mkI 0 2 E_PARAM 0 0 T_UPPER (Some (3 # 2))] in
  let bs := bounds_of d chars items ps in
  map parid_encode ps = [127500; 127550; 130000; 257500; 252500; 252550; 255000]%Z /\
  map (fun t => oqb (snd (fst t)) 3 && oqb (snd t) 3) bs = [true; false; false; false; false; false; false] /\
  map (fun t => oqb (snd t) (3 # 2)) bs = [false; false; false; true; false; false; false] /\
  map (fun t => oqb (snd (fst t)) (1 # 100000) && onone (snd t)) bs = [false; true; false; false; true; true; false] /\
  map (fun t => onone (snd (fst t)) && onone (snd t)) bs = [false; false; true; false; false; false; true].
Proof. vm_compute. repeat split; reflexivity. Qed.

(* options: three directions in 2-D keep the rotation, two directions lock it; isotropy drops ranges and angles *)
Example C17_options_nonvacuous :
  let o := mkO false true true true false false false false false false in
  let chars := [mkC 0 false None true false; mkC 1 false None false false; mkC 1 true (Some 2) false false] in
  (match alter_optvar 2 3 [] 1 false false o with Some o' => o_rot o' | None => false end) = true /\
  (match alter_optvar 2 2 [] 1 false false o with Some o' => o_rot o' | None => true end) = false /\
  alter_optvar 2 3 [] 2 true false o = None /\
  (match alter_optvar 2 3 [] 1 true false (set_goulard o false) with Some o' => o_goulard o' | None => true end) = false /\
  (match alter_vmap_optvar 2 1 false false (set_aniso o false) with Some o' => o_aniso o' || o_rot o' | None => true end) = false /\
  length (parid_alloc o 2 1 chars) = 7%nat /\
  length (parid_alloc (set_rot o false) 2 1 chars) = 5%nat /\
  length (parid_alloc (set_aniso o false) 2 1 chars) = 3%nat.
Proof. vm_compute. repeat split; reflexivity. Qed.

Example C17_ranges_nonvacuous :
  ranges_of 1 [mkP 0 1 E_RANGE 0 0; mkP 0 1 E_RANGE 1 0; mkP 0 2 E_RANGE 0 0] [5; 2; 9] [1; 1] = [5; 2] /\
  ranges_of 2 [mkP 0 1 E_RANGE 0 0; mkP 0 1 E_RANGE 1 0; mkP 0 2 E_RANGE 0 0] [5; 2; 9] [1; 1] = [9; 9].
Proof. vm_compute. split; reflexivity. Qed.

Example C17_angle_nonvacuous :
  let items := [mkI 0 1 E_ANGLE 0 0 T_EQUAL (Some 30); mkI 0 1 E_ANGLE 0 0 T_EQUAL (Some 45); mkI 0 2 E_ANGLE 0 0 T_LOWER (Some 10)] in
  let ps := [mkP 0 1 E_RANGE 0 0; mkP 0 2 E_RANGE 0 0; mkP 0 3 E_ANGLE 0 0] in
  imposed_angles items ps 1 [0; 0] = [30; 0] /\ imposed_angles items ps 2 [5; 0] = [5; 0] /\
  imposed_angles (mkI 0 3 E_ANGLE 0 0 T_EQUAL (Some 60) :: items) ps 3 [7; 0] = [7; 0].
Proof. vm_compute. repeat split; reflexivity. Qed.

(* one Goulard step on ex_gc (non-negative weights): the entry written beats two other candidates; without truncation
   (first structure, second call of ex_eig reports no negative eigenvalue?) the criterion of the sweep does not go up *)
Example C17_goulard_step_nonvacuous :
  let mp1 := [[1; 1; 1]; [0; 0; 0]; [1; 1; 1]] in
  let s := cc_entry ex_gc 1 (fk ex_gc 1) mp1 0 in
  Qle_bool (entry_crit ex_gc 1 mp1 0%nat s) (entry_crit ex_gc 1 mp1 0%nat (s + 1)) = true /\
  Qle_bool (entry_crit ex_gc 1 mp1 0%nat s) (entry_crit ex_gc 1 mp1 0%nat 0) = true /\
  Qeq_bool (entry_crit ex_gc 1 mp1 0%nat s) (entry_crit ex_gc 1 mp1 0%nat (s + 1)) = false.
Proof. vm_compute. repeat split; reflexivity. Qed.

(* 3-D structure, anisotropy authorised, direction Y locked (lock_iso2d): parameters RANGE 0 and RANGE 2 only *)
Example C17_map_nonvacuous :
  let ps := [mkP 0 0 E_SILL 0 0; mkP 0 1 E_PARAM 0 0; mkP 0 1 E_RANGE 0 0; mkP 0 1 E_RANGE 2 0; mkP 0 1 E_ANGLE 0 0] in
  let vals := [3; 3 # 2; 5; 2; 30] in
  let c0 := mkCv [9; 9; 9] [0; 0; 0] 1 [[1]] in
  let ch := mkC 1 true (Some 2) false false in
  let c1 := define_cova true 1 ch 1 ps vals c0 in
  cv_ranges c1 = [5; 5; 2] /\ cv_angles c1 = [30; 0; 0] /\ cv_param c1 = 3 # 2 /\
  cv_ranges (define_cova false 1 ch 1 ps vals c0) = [5; 5; 5] /\
  Qeq_bool (get (cv_sill (define_cova true 1 (mkC 0 false None true false) 0 ps vals c0)) 0%nat 0%nat) 9 = true /\
  read_field (mkP 0 1 E_RANGE 2 0) c1 = Some 2.
Proof. vm_compute. repeat split; reflexivity. Qed.

Example C17_samerot_nonvacuous :
  let o := mkO false true true true true false false false false false in
  let chars := [mkC 0 false None true false; mkC 1 false None false false; mkC 1 false None false false] in
  map p_icov (filter is_angle (parid_alloc o 2 1 chars)) = [1%Z] /\
  map p_icov (filter is_angle (parid_alloc (set_samerot o false) 2 1 chars)) = [1%Z; 2%Z].
Proof. vm_compute. split; reflexivity. Qed.

Example C17_constant_sill_nonvacuous :
  Qeq_bool (alpha_diag 4 2 (1 # 2)) (1 # 2) = true /\ Qeq_bool (alpha_diag 4 2 3) 0 = true.
Proof. vm_compute. split; reflexivity. Qed.

Example C17_constant_sill_expand_nonvacuous :
  cs_sills (expand_constant_sill 3 (mkCS (Some 1) [Some 5])) = [Some 5; Some 1; Some 1] /\
  cs_sills (expand_constant_sill 2 (mkCS (Some 1) [Some 1; Some 2])) = [Some 1; Some 2] /\
  cs_sills (expand_constant_sill 1 (mkCS (Some 1) [Some 3; Some 2])) = [Some 3] /\
  cs_sills (expand_constant_sill 3 (expand_constant_sill 2 (mkCS (Some 1) [Some 5]))) = [Some 5; Some 1; Some 1] /\
  fit_cons_sill 2 (mkCS None [Some 1; Some 2]) = None /\ is_constraint_sill_defined (mkCS None [Some 1; Some 2]) = true /\
  imposed_total 2 (mkCS (Some 1) [Some 1; Some 2]) 1 = Some 2.
Proof. vm_compute. repeat split; reflexivity. Qed.

Example C17_constant_sill_refused_nonvacuous :
  let o := mkO false true true true false false false false false false in
  (match alter_optvar 2 2 [] 1 true false o with Some o' => constant_sill_refused o' (mkCS (Some 3) []) | None => false end) = true /\
  (match alter_optvar 2 2 [] 1 false false o with Some o' => constant_sill_refused o' (mkCS (Some 3) []) | None => true end) = false /\
  (match alter_optvar 2 2 [] 1 true false o with Some o' => constant_sill_refused o' (mkCS None []) | None => true end) = false.
Proof. vm_compute. repeat split; reflexivity. Qed.

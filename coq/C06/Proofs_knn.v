(* C06 proofs, part B: ball tree.
   (d) construction: the leaves partition the index set, every node's radius bounds its points;
   (a) depth-first query with pruning keeps the k nearest in the heap, for any metric, given the heap
       interface (top = maximum, push = replace the top);
   (b) the array heap with the sift-down of nheap_push satisfies that interface (Proofs_heap.v). *)
From Coq Require Import List ZArith QArith Qabs Bool Arith Lqa Lia Permutation.
From Gst Require Import lib.QAux C06.Knn.
Import ListNotations.
Local Open Scope Q_scope.

(* ------------------------------------------------------------------ order on distances with infinity *)
Lemma ext_le_refl a : ext_le a a = true.
Proof. unfold ext_le, ext_lt. destruct a as [x|]; [|reflexivity]. apply negb_true_iff, qltb_false. lra. Qed.
Lemma ext_lt_le a b : ext_lt a b = true -> ext_le a b = true.
Proof.
  unfold ext_le, ext_lt. destruct a as [x|], b as [y|]; try discriminate; try reflexivity.
  intro H. apply qltb_true in H. apply negb_true_iff, qltb_false. lra.
Qed.
Lemma ext_le_trans a b c : ext_le a b = true -> ext_le b c = true -> ext_le a c = true.
Proof.
  unfold ext_le, ext_lt. destruct a as [x|], b as [y|], c as [z|]; cbn; try discriminate; try reflexivity.
  rewrite !negb_true_iff, !qltb_false. lra.
Qed.
Lemma ext_lt_le_trans a b c : ext_lt a b = true -> ext_le b c = true -> ext_lt a c = true.
Proof.
  unfold ext_le, ext_lt. destruct a as [x|], b as [y|], c as [z|]; cbn; try discriminate; try reflexivity.
  rewrite !negb_true_iff, !qltb_false, !qltb_true. lra.
Qed.
Lemma ext_le_lt_trans a b c : ext_le a b = true -> ext_lt b c = true -> ext_lt a c = true.
Proof.
  unfold ext_le, ext_lt. destruct a as [x|], b as [y|], c as [z|]; cbn; try discriminate; try reflexivity.
  rewrite !negb_true_iff, !qltb_false, !qltb_true. lra.
Qed.
Lemma ext_le_total a b : ext_le a b = true \/ ext_le b a = true.
Proof.
  unfold ext_le, ext_lt. destruct a as [x|], b as [y|]; cbn; auto.
  destruct (qltb_spec y x); [right|left]; cbn; auto. apply negb_true_iff, qltb_false. lra.
Qed.
Lemma ext_lt_false_le a b : ext_lt a b = false -> ext_le b a = true.
Proof. unfold ext_le. intros ->. reflexivity. Qed.
Lemma ext_le_some x y : ext_le (Some x) (Some y) = true <-> x <= y.
Proof. unfold ext_le, ext_lt. rewrite negb_true_iff, qltb_false. tauto. Qed.
Lemma ext_le_none_some x : ext_le None (Some x) = false.
Proof. reflexivity. Qed.

(* ------------------------------------------------------------------ swaps are permutations *)
Lemma set_nth_length {A} (l : list A) i x : length (set_nth l i x) = length l.
Proof.
  unfold set_nth. rewrite app_length, firstn_length.
  destruct (skipn i l) as [|y r] eqn:E.
  - assert (length (skipn i l) = 0%nat) by (rewrite E; reflexivity). rewrite skipn_length in H. cbn. lia.
  - assert (length (skipn i l) = S (length r)) by (rewrite E; reflexivity). rewrite skipn_length in H. cbn. lia.
Qed.
Lemma set_nth_split {A} (l : list A) i (d : A) : (i < length l)%nat ->
  l = firstn i l ++ nth i l d :: skipn (S i) l.
Proof.
  revert i. induction l as [|y r IH]; intros i H; [cbn in H; lia|].
  destruct i; [reflexivity|]. cbn. f_equal. apply IH. cbn in H. lia.
Qed.
Lemma skipn_cons_nth {A} (l : list A) i (d : A) : (i < length l)%nat -> skipn i l = nth i l d :: skipn (S i) l.
Proof.
  revert i. induction l as [|y r IH]; intros i H; [cbn in H; lia|].
  destruct i; [reflexivity|]. cbn [skipn nth]. apply IH. cbn in H. lia.
Qed.
Lemma set_nth_eq {A} (l : list A) i x : (i < length l)%nat -> set_nth l i x = firstn i l ++ x :: skipn (S i) l.
Proof.
  intro H. unfold set_nth. destruct l as [|d0 l0] eqn:El; [cbn in H; lia|]. rewrite <- El in *.
  rewrite (skipn_cons_nth l i d0 H). reflexivity.
Qed.
Lemma nth_set_nth_same {A} (l : list A) i x d : (i < length l)%nat -> nth i (set_nth l i x) d = x.
Proof.
  intro H. rewrite set_nth_eq by exact H. rewrite app_nth2; rewrite firstn_length; [|lia].
  replace (i - Nat.min i (length l))%nat with 0%nat by lia. reflexivity.
Qed.
Lemma nth_set_nth_other {A} (l : list A) i j x d : i <> j -> nth j (set_nth l i x) d = nth j l d.
Proof.
  intro Hne. destruct (Nat.lt_ge_cases i (length l)) as [H|H].
  - rewrite set_nth_eq by exact H. rewrite (set_nth_split l i d H) at 3.
    destruct (Nat.lt_ge_cases j i) as [L|L].
    + rewrite !app_nth1 by (rewrite firstn_length; lia). reflexivity.
    + rewrite !app_nth2 by (rewrite firstn_length; lia). rewrite firstn_length.
      replace (j - Nat.min i (length l))%nat with (S (j - i - 1)) by lia. reflexivity.
  - unfold set_nth. rewrite (skipn_all2 l) by lia. rewrite firstn_all2 by lia. rewrite app_nil_r. reflexivity.
Qed.

Lemma nth_skipn' {A} (l : list A) m k (d : A) : nth k (skipn m l) d = nth (m + k) l d.
Proof.
  revert l. induction m as [|m IH]; intro l; [reflexivity|]. destruct l as [|y r]; [destruct k; reflexivity|].
  cbn [skipn Nat.add nth]. apply IH.
Qed.
Lemma swap_gen_perm {A} (l : list A) i j (d : A) : (i < length l)%nat -> (j < length l)%nat -> i <> j ->
  Permutation (set_nth (set_nth l i (nth j l d)) j (nth i l d)) l.
Proof.
  assert (W : forall (l : list A) i j, (i < j)%nat -> (j < length l)%nat ->
            Permutation (set_nth (set_nth l i (nth j l d)) j (nth i l d)) l /\
            Permutation (set_nth (set_nth l j (nth i l d)) i (nth j l d)) l).
  { clear. intros l i j Hij Hj.
    assert (Hi : (i < length l)%nat) by lia.
    (* l = a ++ x :: b ++ y :: c *)
    pose proof (set_nth_split l i d Hi) as E1.
    set (a := firstn i l) in *. set (x := nth i l d) in *. set (r := skipn (S i) l) in *.
    assert (Hr : (j - S i < length r)%nat) by (unfold r; rewrite skipn_length; lia).
    pose proof (set_nth_split r (j - S i) d Hr) as E2.
    set (b := firstn (j - S i) r) in *. set (c := skipn (S (j - S i)) r) in *.
    assert (Hy : nth (j - S i) r d = nth j l d).
    { unfold r. rewrite nth_skipn'. f_equal. lia. }
    set (y := nth j l d) in *. rewrite Hy in E2.
    assert (La : length a = i) by (unfold a; rewrite firstn_length; lia).
    assert (Lb : length b = (j - S i)%nat) by (unfold b; rewrite firstn_length; lia).
    assert (EL : l = a ++ x :: b ++ y :: c) by (rewrite E1 at 1; rewrite E2 at 1; reflexivity).
    assert (S1 : forall u, set_nth l i u = a ++ u :: b ++ y :: c).
    { intro u. rewrite set_nth_eq by exact Hi. fold a r. rewrite E2 at 1. reflexivity. }
    assert (S2 : forall u v, set_nth (a ++ u :: b ++ y :: c) j v = a ++ u :: b ++ v :: c).
    { intros u v. rewrite set_nth_eq by (rewrite app_length; cbn; rewrite app_length; cbn; lia).
      replace (a ++ u :: b ++ y :: c) with ((a ++ u :: b) ++ y :: c) by (rewrite <- app_assoc; reflexivity).
      assert (Lab : length (a ++ u :: b) = j) by (rewrite app_length; cbn; lia).
      rewrite firstn_app, firstn_all2 by lia. rewrite Lab, Nat.sub_diag. cbn [firstn]. rewrite app_nil_r.
      rewrite skipn_app, (skipn_all2 (a ++ u :: b)) by lia. rewrite Lab.
      replace (S j - j)%nat with 1%nat by lia. cbn [skipn app]. rewrite <- app_assoc. reflexivity. }
    assert (S3 : forall u, set_nth l j u = a ++ x :: b ++ u :: c).
    { intro u. rewrite EL at 1. apply S2. }
    assert (S4 : forall u v, set_nth (a ++ x :: b ++ v :: c) i u = a ++ u :: b ++ v :: c).
    { intros u v. rewrite set_nth_eq by (rewrite app_length; cbn; lia).
      rewrite firstn_app, firstn_all2 by lia. rewrite La, Nat.sub_diag. cbn [firstn]. rewrite app_nil_r.
      rewrite skipn_app, (skipn_all2 a) by lia. rewrite La. replace (S i - i)%nat with 1%nat by lia. reflexivity. }
    split.
    - rewrite S1, S2. apply Permutation_trans with (a ++ x :: b ++ y :: c); [|rewrite <- EL; apply Permutation_refl].
      apply Permutation_app_head.
      transitivity (y :: x :: b ++ c).
      + apply perm_skip. symmetry. apply Permutation_middle.
      + transitivity (x :: y :: b ++ c); [apply perm_swap|]. apply perm_skip. apply Permutation_middle.
    - rewrite S3, S4. apply Permutation_trans with (a ++ x :: b ++ y :: c); [|rewrite <- EL; apply Permutation_refl].
      apply Permutation_app_head.
      transitivity (y :: x :: b ++ c).
      + apply perm_skip. symmetry. apply Permutation_middle.
      + transitivity (x :: y :: b ++ c); [apply perm_swap|]. apply perm_skip. apply Permutation_middle. }
  intros Hi Hj Hne. destruct (Nat.lt_ge_cases i j) as [L|L].
  - apply (W l i j L Hj).
  - apply (W l j i); lia.
Qed.

Lemma swap_perm l i j : Permutation (swap l i j) l.
Proof.
  unfold swap. destruct (i =? j)%nat eqn:E; cbn [orb]; [apply Permutation_refl|].
  destruct (i <? length l)%nat eqn:A; destruct (j <? length l)%nat eqn:B; cbn; try apply Permutation_refl.
  apply Nat.ltb_lt in A, B. apply Nat.eqb_neq in E. apply swap_gen_perm; assumption.
Qed.
Lemma eswap_perm l i j : Permutation (eswap l i j) l.
Proof.
  unfold eswap. destruct (i =? j)%nat eqn:E; cbn [orb]; [apply Permutation_refl|].
  destruct (i <? length l)%nat eqn:A; destruct (j <? length l)%nat eqn:B; cbn; try apply Permutation_refl.
  apply Nat.ltb_lt in A, B. apply Nat.eqb_neq in E. unfold hget. apply swap_gen_perm; assumption.
Qed.

Lemma lomuto_for_perm key a pivot i cnt mid : Permutation (fst (lomuto_for key a pivot i cnt mid)) a.
Proof.
  revert a i mid. induction cnt as [|c IH]; intros a i mid; [apply Permutation_refl|].
  cbn [lomuto_for]. destruct (qltb (key (nth i a 0%nat)) pivot).
  - eapply perm_trans; [apply IH|apply swap_perm].
  - apply IH.
Qed.
Lemma qselect_perm fuel key a left right split : Permutation (qselect fuel key a left right split) a.
Proof.
  revert a left right. induction fuel as [|f IH]; intros a left right; [apply Permutation_refl|].
  cbn [qselect].
  pose proof (lomuto_for_perm key a (key (nth right a 0%nat)) left (right - left) left) as P.
  destruct (lomuto_for key a (key (nth right a 0%nat)) left (right - left) left) as [a1 mid]. cbn [fst] in P.
  assert (P2 : Permutation (swap a1 mid right) a) by (eapply perm_trans; [apply swap_perm|exact P]).
  destruct (mid =? split)%nat; [exact P2|].
  destruct (mid <? split)%nat; (eapply perm_trans; [apply IH|exact P2]).
Qed.

Lemma NoDup_app_inv {A} (l1 l2 : list A) : NoDup (l1 ++ l2) ->
  NoDup l1 /\ NoDup l2 /\ forall x, In x l1 -> ~ In x l2.
Proof.
  induction l1 as [|x l IH]; cbn [app]; intro H.
  - split; [constructor|]. split; [exact H|]. intros x [].
  - inversion H as [|? ? Hx Hl]; subst. destruct (IH Hl) as [N1 [N2 D]].
    split; [constructor; [intro C; apply Hx; apply in_or_app; left; exact C|exact N1]|].
    split; [exact N2|]. intros y [<-|Hy]; [intro C; apply Hx; apply in_or_app; right; exact C|apply D; exact Hy].
Qed.
Lemma filter_len_le {A} (f : A -> bool) l : (length (filter f l) <= length l)%nat.
Proof. induction l as [|x r IH]; [cbn; lia|]. cbn [filter]. destruct (f x); cbn [length]; lia. Qed.
Lemma filter_perm {A} (f : A -> bool) l l' : Permutation l l' -> Permutation (filter f l) (filter f l').
Proof.
  intro H. induction H; cbn [filter].
  - apply Permutation_refl.
  - destruct (f x); [apply perm_skip|]; assumption.
  - destruct (f x); destruct (f y); try apply perm_swap; apply Permutation_refl.
  - eapply perm_trans; eassumption.
Qed.

(* ------------------------------------------------------------------ (d) construction *)
Fixpoint pts_of (t : tree) : list nat :=
  match t with
  | Leaf _ _ idxs => idxs
  | Node _ _ t1 t2 => pts_of t1 ++ pts_of t2
  end.

Section Build.
Variable dist : pt -> pt -> Q.
Variable nfeat : nat.
Variable data : list pt.
(* the points on which [dist] is required to behave as a metric (e.g. coordinate lists of length nfeat) *)
Variable okp : pt -> Prop.
Hypothesis okp_centroid : forall idxs, okp (centroid nfeat data idxs).

Fixpoint wf_tree (t : tree) : Prop :=
  match t with
  | Leaf c r idxs => okp c /\ forall i, In i idxs -> dist c (getp data i) <= r
  | Node c r t1 t2 => okp c /\ wf_tree t1 /\ wf_tree t2 /\ forall i, In i (pts_of t1 ++ pts_of t2) -> dist c (getp data i) <= r
  end.

Lemma radius_of_ge c idxs : forall i, In i idxs -> dist c (getp data i) <= radius_of dist data c idxs.
Proof.
  unfold radius_of.
  assert (G : forall l r0, r0 <= fold_left (fun r i => qmax r (dist c (getp data i))) l r0).
  { induction l as [|x l IH]; intro r0; cbn [fold_left]; [lra|].
    eapply Qle_trans; [|apply IH]. unfold qmax. destruct (qltb_spec r0 (dist c (getp data x))); lra. }
  intros i. generalize 0 as r0. induction idxs as [|x l IH]; intros r0 Hin; [destruct Hin|].
  cbn [fold_left]. destruct Hin as [<-|Hin].
  - eapply Qle_trans; [|apply G]. unfold qmax. destruct (qltb_spec r0 (dist c (getp data x))); lra.
  - apply IH. exact Hin.
Qed.

Lemma build_spec depth : forall prefix cur,
  let '(t, cur') := build dist nfeat data depth prefix cur in
  pts_of t = cur' /\ Permutation cur' cur /\ wf_tree t.
Proof.
  induction depth as [|d IH]; intros prefix cur.
  - cbn [build]. split; [reflexivity|]. split; [apply Permutation_refl|]. cbn. split; [apply okp_centroid|apply radius_of_ge].
  - cbn [build]. destruct (length cur <? 2)%nat.
    + split; [reflexivity|]. split; [apply Permutation_refl|]. cbn. split; [apply okp_centroid|apply radius_of_ge].
    + set (n := length cur). set (nmid := Nat.div2 n).
      set (sub := qselect n (fun i => knthQ (getp data i) (split_dim nfeat data (prefix ++ cur) n)) cur 0 (n - 1) nmid).
      assert (Psub : Permutation sub cur) by apply qselect_perm.
      specialize (IH prefix (firstn nmid sub)) as IH1.
      destruct (build dist nfeat data d prefix (firstn nmid sub)) as [t1 lft].
      destruct IH1 as [E1 [P1 W1]].
      specialize (IH (prefix ++ lft) (skipn nmid sub)) as IH2.
      destruct (build dist nfeat data d (prefix ++ lft) (skipn nmid sub)) as [t2 rgt].
      destruct IH2 as [E2 [P2 W2]].
      assert (Pall : Permutation (lft ++ rgt) cur).
      { eapply perm_trans; [apply Permutation_app; eassumption|]. rewrite firstn_skipn. exact Psub. }
      split; [cbn [pts_of]; rewrite E1, E2; reflexivity|]. split; [exact Pall|].
      cbn [wf_tree]. split; [apply okp_centroid|]. split; [exact W1|]. split; [exact W2|].
      intros i Hi. apply radius_of_ge. rewrite E1, E2 in Hi. apply (Permutation_in _ Pall). exact Hi.
Qed.

Lemma btree_init_spec leaf :
  Permutation (pts_of (btree_init dist nfeat data leaf)) (seq 0 (length data)) /\ wf_tree (btree_init dist nfeat data leaf).
Proof.
  unfold btree_init.
  pose proof (build_spec (tree_depth (Z.of_nat (length data)) leaf) [] (seq 0 (length data))) as H.
  destruct (build dist nfeat data (tree_depth (Z.of_nat (length data)) leaf) [] (seq 0 (length data))) as [t cur'].
  cbn [fst]. destruct H as [E [P W]]. rewrite E. split; assumption.
Qed.

(* ------------------------------------------------------------------ (a) query: pruning is sound for a metric *)
Hypothesis d_nonneg : forall a b, okp a -> okp b -> 0 <= dist a b.
Hypothesis d_sym : forall a b, okp a -> okp b -> dist a b == dist b a.
Hypothesis d_tri : forall a b c, okp a -> okp b -> okp c -> dist a c <= dist a b + dist b c.

Lemma min_dist_sound t q : okp q -> wf_tree t -> forall i, okp (getp data i) -> In i (pts_of t) -> min_dist dist t q <= dist q (getp data i).
Proof.
  intros Hq W i Hoi Hi. unfold min_dist, qmax.
  assert (R : okp (t_centroid t) /\ dist (t_centroid t) (getp data i) <= t_radius t).
  { destruct t as [c r idxs|c r t1 t2]; cbn in *; [destruct W as [Hc W]; split; [exact Hc|apply W; exact Hi]|].
    destruct W as [Hc [_ [_ W]]]. split; [exact Hc|apply W; exact Hi]. }
  destruct R as [Hc R].
  pose proof (d_tri q (getp data i) (t_centroid t) Hq Hoi Hc) as T.
  pose proof (d_sym (getp data i) (t_centroid t) Hoi Hc) as S.
  pose proof (d_nonneg q (getp data i) Hq Hoi) as N.
  destruct (qltb_spec 0 (dist q (t_centroid t) - t_radius t)); lra.
Qed.

(* heap interface: [good] is an invariant under which the first cell is a maximum and a push of a strictly
   smaller value replaces that cell's entry *)
Variable good : heap -> Prop.
Hypothesis good_top : forall h, good h -> forall e, In e h -> ext_le (fst e) (nheap_largest h) = true.
Hypothesis good_top_in : forall h, good h -> h <> [] -> In (hget h 0) h.
Hypothesis good_push : forall h v i, good h -> ext_lt (Some v) (nheap_largest h) = true ->
  good (nheap_push h v i) /\
  exists rest, Permutation h (hget h 0 :: rest) /\ Permutation (nheap_push h v i) ((Some v, i) :: rest).

Variable q : pt.
Hypothesis okp_q : okp q.
Definition dq (i : nat) : Q := dist q (getp data i).
Definition fin_idx (h : heap) : list nat :=
  map snd (filter (fun e => match fst e with Some _ => true | None => false end) h).

(* P = the set of points accounted for so far (visited, or skipped because not closer than the top) *)
Definition Inv (h : heap) (P : nat -> Prop) : Prop :=
  good h /\ h <> [] /\
  (forall v i, In (Some v, i) h -> P i /\ v == dq i) /\
  NoDup (fin_idx h) /\
  (forall j, P j -> In j (fin_idx h) \/ ext_le (nheap_largest h) (Some (dq j)) = true).

Lemma fin_idx_in h j : In j (fin_idx h) <-> exists v, In (Some v, j) h.
Proof.
  unfold fin_idx. rewrite in_map_iff. split.
  - intros [[e i] [<- H]]. apply filter_In in H. destruct H as [H F]. cbn in *. destruct e as [v|]; [|discriminate]. exists v. exact H.
  - intros [v H]. exists (Some v, j). split; [reflexivity|]. apply filter_In. split; [exact H|reflexivity].
Qed.
Lemma fin_idx_perm h h' : Permutation h h' -> Permutation (fin_idx h) (fin_idx h').
Proof. intro H. unfold fin_idx. apply Permutation_map. apply filter_perm. exact H. Qed.

Lemma fin_idx_cons e r : fin_idx (e :: r) = match fst e with Some _ => snd e :: fin_idx r | None => fin_idx r end.
Proof. unfold fin_idx. cbn [filter]. destruct e as [[v|] i]; reflexivity. Qed.

Lemma fin_idx_le h : (length (fin_idx h) <= length h)%nat.
Proof. unfold fin_idx. rewrite map_length. apply filter_len_le. Qed.
Lemma fin_idx_lt h i : In (None, i) h -> (length (fin_idx h) < length h)%nat.
Proof.
  induction h as [|x r IH]; [intros []|]. intros [->|He]; rewrite fin_idx_cons.
  - cbn [fst]. pose proof (fin_idx_le r) as H. change (length ((None, i) :: r)) with (S (length r)).
    apply Nat.lt_succ_r. exact H.
  - specialize (IH He). change (length (x :: r)) with (S (length r)). destruct x as [[v|] k]; cbn [fst snd].
    + change (length (k :: fin_idx r)) with (S (length (fin_idx r))). apply (proj1 (Nat.succ_lt_mono _ _)). exact IH.
    + apply Nat.lt_lt_succ_r. exact IH.
Qed.
Lemma fin_idx_all h : (forall e, In e h -> exists v, fst e = Some v) -> fin_idx h = map snd h.
Proof.
  induction h as [|x r IH]; intro H; [reflexivity|]. rewrite fin_idx_cons.
  destruct (H x (or_introl eq_refl)) as [v Ev]. destruct x as [[w|] k]; cbn [fst snd] in *; [|discriminate].
  cbn [map snd]. f_equal. apply IH. intros e He. apply H. right. exact He.
Qed.

Lemma top_nonempty h : h <> [] -> In (nheap_largest h, snd (hget h 0)) h.
Proof.
  intro H. destruct h as [|e r]; [contradiction|]. left. unfold nheap_largest, hget. cbn. destruct e; reflexivity.
Qed.

Lemma scan_step h (P : nat -> Prop) i :
  Inv h P -> ~ P i ->
  Inv (if ext_lt (Some (dq i)) (nheap_largest h) then nheap_push h (dq i) i else h) (fun j => j = i \/ P j).
Proof.
  intros [G [Hne [I1 [I2 I3]]]] Hfresh.
  destruct (ext_lt (Some (dq i)) (nheap_largest h)) eqn:E.
  - destruct (good_push h (dq i) i G E) as [G' [rest [Ph Ph']]].
    assert (Hne' : nheap_push h (dq i) i <> []).
    { intro C. rewrite C in Ph'. apply Permutation_nil in Ph'. discriminate. }
    assert (Hrest : forall e, In e rest -> In e h).
    { intros e He. apply (Permutation_in _ (Permutation_sym Ph)). right. exact He. }
    assert (Htop' : ext_le (nheap_largest (nheap_push h (dq i) i)) (nheap_largest h) = true).
    { pose proof (top_nonempty _ Hne') as T. apply (Permutation_in _ Ph') in T. destruct T as [T|T].
      - injection T as T _. rewrite <- T. apply ext_lt_le. exact E.
      - apply (good_top h G _ (Hrest _ T)). }
    split; [exact G'|]. split; [exact Hne'|]. split; [|split].
    + intros v j Hin. apply (Permutation_in _ Ph') in Hin. destruct Hin as [Hin|Hin].
      * injection Hin as <- <-. split; [left; reflexivity|reflexivity].
      * destruct (I1 v j (Hrest _ Hin)) as [Pj Ev]. split; [right; exact Pj|exact Ev].
    + apply (Permutation_NoDup (Permutation_sym (fin_idx_perm _ _ Ph'))).
      rewrite fin_idx_cons. cbn [fst snd].
      constructor.
      * intro C. apply fin_idx_in in C. destruct C as [v C]. apply Hfresh. apply (I1 v i (Hrest _ C)).
      * apply (Permutation_NoDup (fin_idx_perm _ _ Ph)) in I2.
        rewrite fin_idx_cons in I2. destruct (fst (hget h 0)); [inversion I2; assumption|exact I2].
    + intros j [->|Pj].
      * left. apply fin_idx_in. exists (dq i). apply (Permutation_in _ (Permutation_sym Ph')). left. reflexivity.
      * destruct (I3 j Pj) as [Hin|Hle].
        -- apply fin_idx_in in Hin. destruct Hin as [v Hin].
           apply (Permutation_in _ Ph) in Hin. destruct Hin as [Hin|Hin].
           ++ right. eapply ext_le_trans; [exact Htop'|].
              unfold nheap_largest. rewrite Hin. cbn [fst].
              destruct (I1 v j ltac:(apply (Permutation_in _ (Permutation_sym Ph)); left; exact Hin)) as [_ Ev].
              apply ext_le_some. lra.
           ++ left. apply fin_idx_in. exists v. apply (Permutation_in _ (Permutation_sym Ph')). right. exact Hin.
        -- right. eapply ext_le_trans; eassumption.
  - split; [exact G|]. split; [exact Hne|]. split; [|split].
    + intros v j Hin. destruct (I1 v j Hin) as [Pj Ev]. split; [right; exact Pj|exact Ev].
    + exact I2.
    + intros j [->|Pj]; [right; apply ext_lt_false_le; exact E|apply I3; exact Pj].
Qed.

Lemma Inv_ext h (P P' : nat -> Prop) : (forall j, P j <-> P' j) -> Inv h P -> Inv h P'.
Proof.
  intros HP [G [Hne [I1 [I2 I3]]]]. split; [exact G|]. split; [exact Hne|]. split; [|split].
  - intros v i Hin. destruct (I1 v i Hin) as [Pi Ev]. split; [apply HP; exact Pi|exact Ev].
  - exact I2.
  - intros j Pj. apply I3. apply HP. exact Pj.
Qed.

Lemma scan_leaf_inv idxs : forall h (P : nat -> Prop),
  Inv h P -> NoDup idxs -> (forall i, In i idxs -> ~ P i) ->
  Inv (scan_leaf dist data q idxs h) (fun j => In j idxs \/ P j).
Proof.
  induction idxs as [|i r IH]; intros h P HI ND Hd.
  - cbn. eapply Inv_ext; [|exact HI]. intro j. tauto.
  - cbn [scan_leaf fold_left]. inversion ND as [|? ? Hni NDr]; subst.
    pose proof (scan_step h P i HI (Hd i (or_introl eq_refl))) as S. fold (dq i) in *.
    specialize (IH _ _ S NDr).
    eapply Inv_ext; [|apply IH].
    + intro j. cbn [In]. split; intro Hx; intuition (subst; auto).
    + intros j Hj [->|Pj]; [contradiction|]. apply (Hd j (or_intror Hj)). exact Pj.
Qed.

Lemma qdf_inv t : forall d h (P : nat -> Prop),
  wf_tree t -> (forall i, In i (pts_of t) -> okp (getp data i)) -> NoDup (pts_of t) -> (forall i, In i (pts_of t) -> ~ P i) ->
  (forall i, In i (pts_of t) -> d <= dq i) ->
  Inv h P -> Inv (qdf dist data t q d h) (fun j => In j (pts_of t) \/ P j).
Proof.
  induction t as [c r idxs|c r t1 IH1 t2 IH2]; intros d h P W Hok ND Hd Hlow HI.
  - cbn [qdf]. destruct (ext_lt (nheap_largest h) (Some d)) eqn:E.
    + (* trimmed: every point of the node is farther than the current top *)
      destruct HI as [G [Hne [I1 [I2 I3]]]]. split; [exact G|]. split; [exact Hne|]. split; [|split].
      * intros v i Hin. destruct (I1 v i Hin). split; [right|]; assumption.
      * exact I2.
      * intros j [Hj|Pj]; [|apply I3; exact Pj]. right.
        apply ext_lt_le. eapply ext_lt_le_trans; [exact E|]. apply ext_le_some. apply Hlow. exact Hj.
    + apply scan_leaf_inv; assumption.
  - cbn [qdf]. destruct (ext_lt (nheap_largest h) (Some d)) eqn:E.
    + destruct HI as [G [Hne [I1 [I2 I3]]]]. split; [exact G|]. split; [exact Hne|]. split; [|split].
      * intros v i Hin. destruct (I1 v i Hin). split; [right|]; assumption.
      * exact I2.
      * intros j [Hj|Pj]; [|apply I3; exact Pj]. right.
        apply ext_lt_le. eapply ext_lt_le_trans; [exact E|]. apply ext_le_some. apply Hlow. exact Hj.
    + cbn [wf_tree pts_of] in *. destruct W as [_ [W1 [W2 _]]].
      assert (Hok1 : forall i, In i (pts_of t1) -> okp (getp data i)) by (intros i Hi; apply Hok; apply in_or_app; left; exact Hi).
      assert (Hok2 : forall i, In i (pts_of t2) -> okp (getp data i)) by (intros i Hi; apply Hok; apply in_or_app; right; exact Hi).
      destruct (NoDup_app_inv _ _ ND) as [ND1 [ND2 Hdisj]].
      destruct (qleb (min_dist dist t1 q) (min_dist dist t2 q)).
      * eapply Inv_ext; [|apply IH2; [exact W2|exact Hok2|exact ND2| |intros i Hi; apply (min_dist_sound t2 q okp_q W2 i (Hok2 i Hi) Hi)|apply IH1; [exact W1|exact Hok1|exact ND1| |intros i Hi; apply (min_dist_sound t1 q okp_q W1 i (Hok1 i Hi) Hi)|exact HI]]].
        -- intro j. rewrite in_app_iff. tauto.
        -- intros i Hi [C|C]; [apply (Hdisj i C Hi)|apply (Hd i); [apply in_or_app; right; exact Hi|exact C]].
        -- intros i Hi. apply Hd. apply in_or_app. left. exact Hi.
      * eapply Inv_ext; [|apply IH1; [exact W1|exact Hok1|exact ND1| |intros i Hi; apply (min_dist_sound t1 q okp_q W1 i (Hok1 i Hi) Hi)|apply IH2; [exact W2|exact Hok2|exact ND2| |intros i Hi; apply (min_dist_sound t2 q okp_q W2 i (Hok2 i Hi) Hi)|exact HI]]].
        -- intro j. rewrite in_app_iff. tauto.
        -- intros i Hi [C|C]; [apply (Hdisj i Hi C)|apply (Hd i); [apply in_or_app; left; exact Hi|exact C]].
        -- intros i Hi. apply Hd. apply in_or_app. right. exact Hi.
Qed.

(* the heap after nheap_load holds k nearest points *)
Hypothesis good_init : forall k, (0 < k)%nat -> good (nheap_init k).

Lemma nheap_load_inv t k : (0 < k)%nat -> wf_tree t -> (forall i, In i (pts_of t) -> okp (getp data i)) -> NoDup (pts_of t) ->
  Inv (nheap_load dist data t k q) (fun j => In j (pts_of t)).
Proof.
  intros Hk W Hok ND. unfold nheap_load.
  eapply Inv_ext; [|apply (qdf_inv t (min_dist dist t q) (nheap_init k) (fun _ => False)); try assumption].
  - intro j. tauto.
  - intros i _ C. exact C.
  - intros i Hi. apply (min_dist_sound t q okp_q W i (Hok i Hi) Hi).
  - split; [apply good_init; exact Hk|]. split; [destruct k; [lia|discriminate]|]. split; [|split].
    + intros v i Hin. unfold nheap_init in Hin. apply repeat_spec in Hin. discriminate.
    + unfold fin_idx, nheap_init. replace (filter _ (repeat (None, 0%nat) k)) with (@nil entry); [constructor|].
      induction k as [|k' IHk]; [reflexivity|]. cbn. destruct k'; [reflexivity|apply IHk; lia].
    + intros j [].
Qed.

Lemma qdf_length t : forall d h, (forall h v i, length (nheap_push h v i) = length h) -> length (qdf dist data t q d h) = length h.
Proof.
  intros d h Hp. revert d h. induction t as [c r idxs|c r t1 IH1 t2 IH2]; intros d h; cbn [qdf];
    destruct (ext_lt (nheap_largest h) (Some d)); try reflexivity.
  - unfold scan_leaf. revert h. induction idxs as [|i l IHl]; intro h; [reflexivity|]. cbn [fold_left].
    rewrite IHl. destruct (ext_lt (Some (dist q (getp data i))) (nheap_largest h)); [apply Hp|reflexivity].
  - destruct (qleb (min_dist dist t1 q) (min_dist dist t2 q)); [rewrite IH2, IH1|rewrite IH1, IH2]; reflexivity.
Qed.

(* final statement of layer (a): with k <= n every cell holds a real point, the reported distance is the
   point's distance, no point is reported twice, and every point left out is at least as far as every
   point reported *)
Lemma knn_heap_correct t k :
  (0 < k)%nat -> (k <= length (pts_of t))%nat -> wf_tree t -> (forall i, In i (pts_of t) -> okp (getp data i)) -> NoDup (pts_of t) ->
  length (nheap_load dist data t k q) = k ->
  let h := nheap_load dist data t k q in
  (forall e, In e h -> exists v, fst e = Some v /\ In (snd e) (pts_of t) /\ v == dq (snd e)) /\
  NoDup (map snd h) /\
  (forall e j, In e h -> In j (pts_of t) -> ~ In j (map snd h) -> ext_le (fst e) (Some (dq j)) = true).
Proof.
  intros Hk Hkn W Hok ND Hlen h.
  destruct (nheap_load_inv t k Hk W Hok ND) as [G [Hne [I1 [I2 I3]]]]. fold h in G, Hne, I1, I2, I3, Hlen.
  (* no infinite entry *)
  assert (Hfin : forall e, In e h -> exists v, fst e = Some v).
  { intros [[v|] i] He; [exists v; reflexivity|]. exfalso.
    assert (Top : nheap_largest h = None).
    { pose proof (good_top h G _ He) as T. cbn [fst] in T. destruct (nheap_largest h); [discriminate|reflexivity]. }
    assert (Hall : incl (pts_of t) (fin_idx h)).
    { intros j Hj. destruct (I3 j Hj) as [H|H]; [exact H|]. rewrite Top in H. discriminate. }
    pose proof (NoDup_incl_length ND Hall) as L.
    pose proof (fin_idx_lt h i He) as L2.
    apply (Nat.lt_irrefl k). eapply Nat.le_lt_trans; [exact Hkn|]. eapply Nat.le_lt_trans; [exact L|].
    rewrite <- Hlen. exact L2. }
  assert (Hall_fin : fin_idx h = map snd h) by (apply fin_idx_all; exact Hfin).
  split; [|split].
  - intros [e i] He. destruct (Hfin _ He) as [v Ev]. cbn in Ev. subst e. exists v. cbn [fst snd].
    destruct (I1 v i He) as [Pi E]. split; [reflexivity|]. split; assumption.
  - rewrite <- Hall_fin. exact I2.
  - intros e j He Hj Hnot. destruct (I3 j Hj) as [H|H]; [rewrite Hall_fin in H; contradiction|].
    eapply ext_le_trans; [apply (good_top h G e He)|exact H].
Qed.

End Build.

(* C06 proofs, part B layer (b): the array max-heap of neighbors_heap.cpp.
   nheap_push (overwrite cell 0, sift the hole down) keeps the heap order and replaces the old top. *)
From Coq Require Import List ZArith QArith Bool Arith Lqa Lia Permutation.
From Gst Require Import lib.QAux C06.Knn C06.Proofs_knn.
Import ListNotations.

Definition child (p c : nat) : Prop := c = (2 * p + 1)%nat \/ c = (2 * p + 2)%nat.
Definition hval (h : heap) (i : nat) : ext := fst (hget h i).
Definition is_heap (h : heap) : Prop :=
  forall p c, child p c -> (c < length h)%nat -> ext_le (hval h c) (hval h p) = true.
Definition heap_except (h : heap) (i : nat) : Prop :=
  forall p c, child p c -> (c < length h)%nat -> p <> i -> c <> i -> ext_le (hval h c) (hval h p) = true.
Definition hole_ok (h : heap) (i : nat) (val : ext) : Prop :=
  forall p, child p i ->
    ext_le val (hval h p) = true /\
    forall c, child i c -> (c < length h)%nat -> ext_le (hval h c) (hval h p) = true.

Lemma hval_set_same h i e : (i < length h)%nat -> hval (set_nth h i e) i = fst e.
Proof. intro H. unfold hval, hget. rewrite nth_set_nth_same by exact H. reflexivity. Qed.
Lemma hval_set_other h i j e : i <> j -> hval (set_nth h i e) j = hval h j.
Proof. intro H. unfold hval, hget. rewrite nth_set_nth_other by exact H. reflexivity. Qed.

Lemma set_nth_twice {A} (l : list A) i x y : set_nth (set_nth l i x) i y = set_nth l i y.
Proof.
  destruct (Nat.lt_ge_cases i (length l)) as [H|H].
  - rewrite (set_nth_eq (set_nth l i x)) by (rewrite set_nth_length; exact H).
    rewrite !(set_nth_eq l) by exact H.
    rewrite firstn_app, firstn_firstn, Nat.min_id, firstn_length.
    replace (i - Nat.min i (length l))%nat with 0%nat by lia. cbn [firstn]. rewrite app_nil_r.
    f_equal. f_equal. rewrite skipn_app, firstn_length.
    rewrite (skipn_all2 (firstn i l)) by (rewrite firstn_length; lia).
    replace (S i - Nat.min i (length l))%nat with 1%nat by lia. reflexivity.
  - unfold set_nth. rewrite !(skipn_all2 l) by lia. rewrite !(firstn_all2 l) by lia. rewrite !app_nil_r.
    rewrite (skipn_all2 l) by lia. rewrite (firstn_all2 l) by lia. rewrite app_nil_r. reflexivity.
Qed.

(* moving a cell's content into the hole and putting x where it came from = putting x into the hole, up to order *)
Lemma perm_shift (h : heap) i c x : (i < length h)%nat -> (c < length h)%nat -> i <> c ->
  Permutation (set_nth (set_nth h i (hget h c)) c x) (set_nth h i x).
Proof.
  intros Hi Hc Hne.
  pose proof (swap_gen_perm (set_nth h i x) i c (None, 0%nat)
                ltac:(rewrite set_nth_length; exact Hi) ltac:(rewrite set_nth_length; exact Hc) Hne) as P.
  rewrite nth_set_nth_other in P by exact Hne.
  rewrite nth_set_nth_same in P by exact Hi.
  rewrite set_nth_twice in P. exact P.
Qed.

Lemma child_gt p c : child p c -> (p < c)%nat.
Proof. unfold child. lia. Qed.
Lemma child_parent_unique p p' c : child p c -> child p' c -> p = p'.
Proof. unfold child. lia. Qed.

(* fill the hole *)
Lemma fill_heap h i val iv :
  (i < length h)%nat -> heap_except h i -> hole_ok h i val ->
  (forall c, child i c -> (c < length h)%nat -> ext_le (hval h c) val = true) ->
  is_heap (set_nth h i (val, iv)).
Proof.
  intros Hi HE HO HC p c Hpc Hlt. rewrite set_nth_length in Hlt.
  pose proof (child_gt p c Hpc) as Hgt.
  destruct (Nat.eq_dec p i) as [->|Hp].
  - rewrite hval_set_same by exact Hi. rewrite hval_set_other by lia. cbn [fst]. apply HC; assumption.
  - destruct (Nat.eq_dec c i) as [->|Hc].
    + rewrite hval_set_same by exact Hi. rewrite hval_set_other by lia. cbn [fst]. apply (HO p Hpc).
    + rewrite !hval_set_other by lia. apply HE; assumption.
Qed.

(* move child c up into the hole i; the hole becomes c *)
Lemma move_hole h i c val :
  (i < length h)%nat -> (c < length h)%nat -> child i c ->
  heap_except h i -> hole_ok h i val ->
  ext_lt val (hval h c) = true ->
  (forall c', child i c' -> (c' < length h)%nat -> ext_le (hval h c') (hval h c) = true) ->
  heap_except (set_nth h i (hget h c)) c /\ hole_ok (set_nth h i (hget h c)) c val.
Proof.
  intros Hi Hc Hic HE HO Hlt Hmax.
  pose proof (child_gt i c Hic) as Hgt.
  split.
  - intros p' c' Hpc Hl Hp Hc'. rewrite set_nth_length in Hl.
    pose proof (child_gt p' c' Hpc) as Hgt'.
    destruct (Nat.eq_dec c' i) as [->|Hci].
    + rewrite hval_set_same by exact Hi. rewrite hval_set_other by lia. fold (hval h c).
      destruct (HO p' Hpc) as [_ H2]. apply H2; assumption.
    + destruct (Nat.eq_dec p' i) as [->|Hpi].
      * rewrite hval_set_same by exact Hi. rewrite hval_set_other by lia. fold (hval h c). apply Hmax; assumption.
      * rewrite !hval_set_other by lia. apply HE; assumption.
  - intros p' Hp'. rewrite (child_parent_unique p' i c Hp' Hic).
    rewrite hval_set_same by exact Hi. fold (hval h c). split.
    + apply ext_lt_le. exact Hlt.
    + intros cc Hcc Hl. rewrite set_nth_length in Hl. pose proof (child_gt c cc Hcc).
      rewrite hval_set_other by lia. apply HE; try assumption; lia.
Qed.

Lemma sift_length fuel : forall h i val iv, length (sift fuel h i val iv) = length h.
Proof.
  induction fuel as [|f IH]; intros h i val iv; cbn [sift]; [apply set_nth_length|].
  repeat match goal with |- context [if ?b then _ else _] => destruct b end;
    rewrite ?IH, ?set_nth_length; reflexivity.
Qed.

Lemma sift_perm fuel : forall h i val iv, (i < length h)%nat ->
  Permutation (sift fuel h i val iv) (set_nth h i (val, iv)).
Proof.
  induction fuel as [|f IH]; intros h i val iv Hi; cbn [sift]; [apply Permutation_refl|].
  destruct (length h <=? 2 * i + 1)%nat eqn:E1; [apply Permutation_refl|].
  apply Nat.leb_gt in E1.
  assert (S1 : Permutation (sift f (set_nth h i (hget h (2 * i + 1))) (2 * i + 1) val iv) (set_nth h i (val, iv))).
  { eapply perm_trans; [apply IH; rewrite set_nth_length; exact E1|]. apply perm_shift; lia. }
  destruct (length h <=? 2 * i + 1 + 1)%nat eqn:E2.
  - destruct (ext_lt val (fst (hget h (2 * i + 1)))); [exact S1|apply Permutation_refl].
  - apply Nat.leb_gt in E2.
    assert (S2 : Permutation (sift f (set_nth h i (hget h (2 * i + 1 + 1))) (2 * i + 1 + 1) val iv) (set_nth h i (val, iv))).
    { eapply perm_trans; [apply IH; rewrite set_nth_length; exact E2|]. apply perm_shift; lia. }
    destruct (ext_le (fst (hget h (2 * i + 1 + 1))) (fst (hget h (2 * i + 1)))).
    + destruct (ext_lt val (fst (hget h (2 * i + 1)))); [exact S1|apply Permutation_refl].
    + destruct (ext_lt val (fst (hget h (2 * i + 1 + 1)))); [exact S2|apply Permutation_refl].
Qed.

Lemma sift_heap fuel : forall h i val iv,
  (i < length h)%nat -> (length h <= fuel + i)%nat -> heap_except h i -> hole_ok h i val ->
  is_heap (sift fuel h i val iv).
Proof.
  induction fuel as [|f IH]; intros h i val iv Hi Hfuel HE HO.
  - cbn in Hfuel. lia.
  - cbn [sift].
    set (c1 := (2 * i + 1)%nat). set (c2 := (c1 + 1)%nat).
    assert (Hc1 : child i c1) by (left; reflexivity).
    assert (Hc2 : child i c2) by (right; unfold c2, c1; lia).
    assert (Hch : forall c, child i c -> c = c1 \/ c = c2) by (unfold child, c1, c2; lia).
    destruct (length h <=? c1)%nat eqn:E1.
    + apply Nat.leb_le in E1. apply fill_heap; try assumption.
      intros c Hc Hl. exfalso. destruct (Hch c Hc); unfold c2 in *; lia.
    + apply Nat.leb_gt in E1.
      destruct (length h <=? c2)%nat eqn:E2.
      * apply Nat.leb_le in E2. fold (hval h c1).
        destruct (ext_lt val (hval h c1)) eqn:L.
        -- destruct (move_hole h i c1 val Hi E1 Hc1 HE HO L) as [HE' HO'].
           { intros c' Hc' Hl. destruct (Hch c' Hc') as [->| ->]; [apply ext_le_refl|lia]. }
           apply IH; try assumption; rewrite ?set_nth_length; unfold c1 in *; lia.
        -- apply fill_heap; try assumption.
           intros c Hc Hl. destruct (Hch c Hc) as [->| ->]; [apply ext_lt_false_le; exact L|lia].
      * apply Nat.leb_gt in E2. fold (hval h c1) (hval h c2).
        destruct (ext_le (hval h c2) (hval h c1)) eqn:C.
        -- destruct (ext_lt val (hval h c1)) eqn:L.
           ++ destruct (move_hole h i c1 val Hi E1 Hc1 HE HO L) as [HE' HO'].
              { intros c' Hc' Hl. destruct (Hch c' Hc') as [->| ->]; [apply ext_le_refl|exact C]. }
              apply IH; try assumption; rewrite ?set_nth_length; unfold c1 in *; lia.
           ++ apply fill_heap; try assumption.
              intros c Hc Hl. apply ext_lt_false_le in L.
              destruct (Hch c Hc) as [->| ->]; [exact L|eapply ext_le_trans; eassumption].
        -- assert (C' : ext_le (hval h c1) (hval h c2) = true).
           { destruct (ext_le_total (hval h c1) (hval h c2)) as [T|T]; [exact T|congruence]. }
           destruct (ext_lt val (hval h c2)) eqn:L.
           ++ destruct (move_hole h i c2 val Hi E2 Hc2 HE HO L) as [HE' HO'].
              { intros c' Hc' Hl. destruct (Hch c' Hc') as [->| ->]; [exact C'|apply ext_le_refl]. }
              apply IH; try assumption; rewrite ?set_nth_length; unfold c2, c1 in *; lia.
           ++ apply fill_heap; try assumption.
              intros c Hc Hl. apply ext_lt_false_le in L.
              destruct (Hch c Hc) as [->| ->]; [eapply ext_le_trans; eassumption|exact L].
Qed.

(* ------------------------------------------------------------------ the interface used by the query proof *)
Definition good_heap (h : heap) : Prop := is_heap h /\ h <> [].

Lemma heap_top h : is_heap h -> forall i, (i < length h)%nat -> ext_le (hval h i) (hval h 0) = true.
Proof.
  intros H i. induction i as [i IH] using lt_wf_ind. intro Hi.
  destruct i as [|i']; [apply ext_le_refl|].
  set (p := Nat.div2 i').
  assert (Hc : child p (S i')).
  { unfold child, p. destruct (Nat.Even_or_Odd i') as [[k ->]|[k ->]].
    - left. rewrite Nat.div2_double. lia.
    - right. replace (2 * k + 1)%nat with (S (2 * k)) by lia. rewrite Nat.div2_succ_double. lia. }
  pose proof (child_gt p (S i') Hc) as Hlt.
  eapply ext_le_trans; [apply (H p (S i') Hc Hi)|]. apply IH; lia.
Qed.

Lemma good_heap_top h : good_heap h -> forall e, In e h -> ext_le (fst e) (nheap_largest h) = true.
Proof.
  intros [H _] e He. destruct (In_nth h e (None, 0%nat) He) as [i [Hi E]].
  pose proof (heap_top h H i Hi) as T. unfold hval, hget in T. rewrite E in T. exact T.
Qed.
Lemma good_heap_top_in h : good_heap h -> h <> [] -> In (hget h 0) h.
Proof. intros _ H. destruct h; [contradiction|]. left. reflexivity. Qed.
Lemma good_heap_init k : (0 < k)%nat -> good_heap (nheap_init k).
Proof.
  intro Hk. split.
  - intros p c _ Hl. unfold hval, hget, nheap_init in *.
    assert (E : forall i, nth i (repeat (@None Q, 0%nat) k) (None, 0%nat) = (None, 0%nat)).
    { intro i. destruct (Nat.lt_ge_cases i k); [apply nth_repeat|apply nth_overflow; rewrite repeat_length; lia]. }
    rewrite !E. reflexivity.
  - destruct k; [lia|discriminate].
Qed.

Lemma nheap_push_length h v i : length (nheap_push h v i) = length h.
Proof.
  unfold nheap_push. destruct (ext_lt (nheap_largest h) (Some v)); [reflexivity|].
  rewrite sift_length, set_nth_length. reflexivity.
Qed.

Lemma good_heap_push h v i : good_heap h -> ext_lt (Some v) (nheap_largest h) = true ->
  good_heap (nheap_push h v i) /\
  exists rest, Permutation h (hget h 0 :: rest) /\ Permutation (nheap_push h v i) ((Some v, i) :: rest).
Proof.
  intros [H Hne] Hlt. unfold nheap_push.
  assert (E : ext_lt (nheap_largest h) (Some v) = false).
  { destruct (ext_lt (nheap_largest h) (Some v)) eqn:C; [|reflexivity].
    pose proof (ext_lt_le_trans _ _ _ Hlt (ext_lt_le _ _ C)) as X.
    unfold ext_lt in X. apply qltb_true in X. lra. }
  rewrite E.
  destruct h as [|h0 r]; [contradiction|].
  assert (Hpos : (0 < length (h0 :: r))%nat) by (cbn; lia).
  set (h' := set_nth (h0 :: r) 0 (Some v, i)).
  assert (Hlen' : length h' = length (h0 :: r)) by apply set_nth_length.
  assert (HE : heap_except h' 0).
  { intros p c Hpc Hl Hp Hc. unfold h' in *. rewrite set_nth_length in Hl. rewrite !hval_set_other by lia. apply H; assumption. }
  assert (HO : hole_ok h' 0 (Some v)).
  { intros p Hp. unfold child in Hp. lia. }
  split.
  - split.
    + apply sift_heap; try assumption; rewrite ?Hlen'; cbn [length]; lia.
    + intro C. apply (f_equal (@length entry)) in C. rewrite sift_length in C. fold h' in C. rewrite Hlen' in C. cbn in C. lia.
  - exists r. split; [apply Permutation_refl|].
    eapply perm_trans; [apply sift_perm; fold h'; rewrite Hlen'; exact Hpos|].
    unfold h'. rewrite set_nth_twice. apply Permutation_refl.
Qed.

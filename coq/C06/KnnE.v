(* C06 model, part B, Euclidean instance of the ball tree (default_distance_function = 1).
   Everything is carried on SQUARED distances: the tree of Knn.v is built with the squared distance (a node then
   stores radius^2; the split / partition code does not depend on the metric), the heap and the final sort order
   squared distances exactly like distances, and the two places where the code subtracts square roots
       min_dist = fmax(0, dist(pt, centroid) - radius)      compared with nheap_largest  (query_depth_first, case 1)
       dist1 <= dist2                                        (which child first)
   are decided exactly on the squares.  No proofs here (Proofs_sqrt.v). *)
From Coq Require Import List ZArith QArith Qabs Bool Arith.
From Gst Require Import lib.QAux C06.Knn.
Import ListNotations.
Local Open Scope Q_scope.

Fixpoint sqeuclid (a b : pt) : Q :=
  match a, b with
  | x :: a', y :: b' => (x - y) * (x - y) + sqeuclid a' b'
  | _, _ => 0
  end.

(* sqrt a - sqrt r > sqrt b      (a, r, b >= 0) *)
Definition sqrt_diff_gt (a r b : Q) : bool :=
  let m := a - r - b in qltb 0 m && qltb (4 * r * b) (m * m).
(* c + sqrt x <= sqrt y          (x, y >= 0) *)
Definition lin_sqrt_le (c x y : Q) : bool :=
  if qleb 0 c then (let m := y - c * c - x in qleb 0 m && qleb (4 * (c * c) * x) (m * m))
  else (let m := x - y - c * c in qleb m 0 || qleb (m * m) (4 * (c * c) * y)).
(* sqrt a1 + sqrt r2 <= sqrt a2 + sqrt r1 *)
Definition sqrt_sum_le (a1 r2 a2 r1 : Q) : bool :=
  lin_sqrt_le ((a1 + r2 - a2 - r1) / 2) (a1 * r2) (a2 * r1).
(* fmax(0, sqrt a1 - sqrt r1) <= fmax(0, sqrt a2 - sqrt r2) *)
Definition bound_le (a1 r1 a2 r2 : Q) : bool :=
  if qleb a1 r1 then true else if qleb a2 r2 then false else sqrt_sum_le a1 r2 a2 r1.
(* fmax(0, sqrt a - sqrt r) > largest, the heap holding squared distances *)
Definition bound_gt_top (a r : Q) (top : ext) : bool :=
  match top with None => false | Some b => sqrt_diff_gt a r b end.

Section BallE.
Variable nfeat : nat.
Variable data : list pt.

Definition btree_init_e (leaf : Z) : tree := btree_init sqeuclid nfeat data leaf.   (* t_radius = radius^2 *)

(* the lower bound of a node is kept as the pair (a, r2) = (squared distance to the centroid, squared radius) *)
Fixpoint qdf_e (t : tree) (q : pt) (a r2 : Q) (h : heap) : heap :=
  if bound_gt_top a r2 (nheap_largest h) then h
  else match t with
       | Leaf _ _ idxs => scan_leaf sqeuclid data q idxs h
       | Node _ _ t1 t2 =>
           let a1 := sqeuclid q (t_centroid t1) in let a2 := sqeuclid q (t_centroid t2) in
           if bound_le a1 (t_radius t1) a2 (t_radius t2)
           then qdf_e t2 q a2 (t_radius t2) (qdf_e t1 q a1 (t_radius t1) h)
           else qdf_e t1 q a1 (t_radius t1) (qdf_e t2 q a2 (t_radius t2) h)
       end.
Definition nheap_load_e (t : tree) (k : nat) (q : pt) : heap :=
  qdf_e t q (sqeuclid q (t_centroid t)) (t_radius t) (nheap_init k).
(* result: (squared distance, index), in increasing order *)
Definition knn_query_e (t : tree) (k : nat) (q : pt) : option heap :=
  if (length data <? k)%nat then None
  else let h := nheap_load_e t k q in Some (ssort (length h) h).
End BallE.

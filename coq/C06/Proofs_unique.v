(* C06 proofs, part B: the k-nearest-neighbour answer is unique (ties excluded), hence it depends on the point
   coordinates, the query and k only -- not on the leaf size, on the way the tree was built, nor on anything else. *)
From Coq Require Import List ZArith QArith Bool Arith Lqa Lia Permutation Sorting.Sorted.
From Gst Require Import lib.QAux C06.Knn C06.Proofs_knn C06.Proofs_heap C06.Proofs_query C06.Proofs_sort.
Import ListNotations.
Local Open Scope Q_scope.

Section Unique.
Variable dist : pt -> pt -> Q.
Variable data : list pt.
Variable q : pt.
Let n := length data.
Let dq (i : nat) : Q := dist q (getp data i).

(* what C06_knn establishes about a result *)
Definition knn_answer (k : nat) (res : heap) : Prop :=
  length res = k /\
  (forall e, In e res -> exists v, fst e = Some v /\ (snd e < n)%nat /\ v == dq (snd e)) /\
  NoDup (map snd res) /\
  (forall e j, In e res -> (j < n)%nat -> ~ In j (map snd res) -> ext_le (fst e) (Some (dq j)) = true) /\
  StronglySorted (fun a b => ext_le (fst a) (fst b) = true) res.

Hypothesis no_ties : forall i j, (i < n)%nat -> (j < n)%nat -> i <> j -> ~ dq i == dq j.

Lemma answer_incl k res1 res2 : knn_answer k res1 -> knn_answer k res2 -> incl (map snd res1) (map snd res2).
Proof.
  intros [L1 [V1 [N1 [F1 _]]]] [L2 [V2 [N2 [F2 _]]]] i Hi.
  destruct (in_dec Nat.eq_dec i (map snd res2)) as [Y|Nin]; [exact Y|exfalso].
  (* some index of res2 is not in res1 *)
  assert (Hex : exists j, In j (map snd res2) /\ ~ In j (map snd res1)).
  { destruct (forallb (fun j => existsb (Nat.eqb j) (map snd res1)) (map snd res2)) eqn:E.
    - exfalso. assert (I21 : incl (map snd res2) (map snd res1)).
      { intros j Hj. rewrite forallb_forall in E. specialize (E j Hj). apply existsb_exists in E.
        destruct E as [x [Hx Ex]]. apply Nat.eqb_eq in Ex. subst x. exact Hx. }
      assert (LL : (length (map snd res1) <= length (map snd res2))%nat).
      { rewrite !map_length. unfold heap, entry, ext in *. rewrite L1, L2. apply Nat.le_refl. }
      pose proof (@NoDup_length_incl nat (map snd res2) (map snd res1) N2 LL I21) as I12.
      apply Nin, I12, Hi.
    - clear - E. induction (map snd res2) as [|j r IH]; [discriminate|]. cbn [forallb] in E.
      destruct (existsb (Nat.eqb j) (map snd res1)) eqn:Ej.
      + cbn [andb] in E. destruct (IH E) as [x [Hx Hn]]. exists x. split; [right; exact Hx|exact Hn].
      + exists j. split; [left; reflexivity|]. intro C.
        assert (existsb (Nat.eqb j) (map snd res1) = true) by (apply existsb_exists; exists j; split; [exact C|apply Nat.eqb_refl]).
        congruence. }
  destruct Hex as [j [Hj Hjn]].
  apply in_map_iff in Hi. destruct Hi as [e1 [E1 He1]]. apply in_map_iff in Hj. destruct Hj as [e2 [E2 He2]].
  destruct (V1 e1 He1) as [v1 [Ev1 [B1 Q1]]]. destruct (V2 e2 He2) as [v2 [Ev2 [B2 Q2]]].
  rewrite E1 in B1, Q1. rewrite E2 in B2, Q2.
  pose proof (F1 e1 j He1 B2 Hjn) as A. rewrite Ev1 in A. apply ext_le_some in A.
  pose proof (F2 e2 i He2 B1 Nin) as B. rewrite Ev2 in B. apply ext_le_some in B.
  assert (Hne : i <> j) by (intro C; apply Nin; rewrite C; apply in_map_iff; exists e2; split; assumption).
  apply (no_ties i j B1 B2 Hne). lra.
Qed.

Lemma answer_sorted_idx k res : knn_answer k res -> StronglySorted (fun a b => dq a < dq b) (map snd res).
Proof.
  intros [_ [V [N [_ S]]]]. clear k. induction S as [|e r S IH F]; [constructor|].
  cbn [map] in *. inversion N as [|? ? Hn Nr]; subst.
  constructor; [apply IH; [intros x Hx; apply V; right; exact Hx|exact Nr]|].
  rewrite Forall_forall. intros j Hj. apply in_map_iff in Hj. destruct Hj as [e' [<- He']].
  rewrite Forall_forall in F. specialize (F e' He').
  destruct (V e (or_introl eq_refl)) as [v [Ev [B Qv]]]. destruct (V e' (or_intror He')) as [v' [Ev' [B' Qv']]].
  rewrite Ev, Ev' in F. apply ext_le_some in F.
  assert (Hne : snd e <> snd e') by (intro C; apply Hn; rewrite C; apply in_map; exact He').
  pose proof (no_ties _ _ B B' Hne) as T.
  destruct (Qlt_le_dec (dq (snd e)) (dq (snd e'))) as [L|L]; [exact L|exfalso]. apply T. lra.
Qed.

Lemma sorted_unique (l1 : list nat) : forall l2,
  NoDup l1 -> NoDup l2 -> (forall i, In i l1 <-> In i l2) ->
  StronglySorted (fun a b => dq a < dq b) l1 -> StronglySorted (fun a b => dq a < dq b) l2 -> l1 = l2.
Proof.
  induction l1 as [|a r1 IH]; intros l2 N1 N2 Hs S1 S2.
  - destruct l2 as [|b r2]; [reflexivity|]. exfalso. apply (proj2 (Hs b)). left. reflexivity.
  - destruct l2 as [|b r2]; [exfalso; apply (proj1 (Hs a)); left; reflexivity|].
    inversion S1 as [|? ? S1r F1]; subst. inversion S2 as [|? ? S2r F2]; subst.
    inversion N1 as [|? ? Na N1r]; subst. inversion N2 as [|? ? Nb N2r]; subst.
    rewrite Forall_forall in F1, F2.
    assert (Eab : a = b).
    { destruct (Nat.eq_dec a b) as [E|Ne]; [exact E|exfalso].
      assert (Ha : In a r2) by (destruct (proj1 (Hs a) (or_introl eq_refl)) as [C|C]; [congruence|exact C]).
      assert (Hb : In b r1) by (destruct (proj2 (Hs b) (or_introl eq_refl)) as [C|C]; [congruence|exact C]).
      pose proof (F2 a Ha). pose proof (F1 b Hb). lra. }
    subst b. f_equal. apply IH; try assumption.
    intro i. split; intro Hi.
    + destruct (proj1 (Hs i) (or_intror Hi)) as [C|C]; [subst i; contradiction|exact C].
    + destruct (proj2 (Hs i) (or_intror Hi)) as [C|C]; [subst i; contradiction|exact C].
Qed.

Theorem knn_answer_unique k res1 res2 :
  knn_answer k res1 -> knn_answer k res2 ->
  map snd res1 = map snd res2 /\
  Forall2 (fun e1 e2 => exists v1 v2, fst e1 = Some v1 /\ fst e2 = Some v2 /\ v1 == v2) res1 res2.
Proof.
  intros A1 A2.
  assert (E : map snd res1 = map snd res2).
  { apply sorted_unique.
    - apply A1.
    - apply A2.
    - intro i. split; [apply (answer_incl k res1 res2 A1 A2)|apply (answer_incl k res2 res1 A2 A1)].
    - apply (answer_sorted_idx k). exact A1.
    - apply (answer_sorted_idx k). exact A2. }
  split; [exact E|].
  destruct A1 as [_ [V1 _]]. destruct A2 as [_ [V2 _]].
  revert res2 E V2. induction res1 as [|e1 r1 IH]; intros res2 E V2; destruct res2 as [|e2 r2]; try discriminate; [constructor|].
  cbn [map] in E. injection E as E0 E.
  constructor.
  - destruct (V1 e1 (or_introl eq_refl)) as [v1 [Ev1 [_ Q1]]]. destruct (V2 e2 (or_introl eq_refl)) as [v2 [Ev2 [_ Q2]]].
    exists v1, v2. split; [exact Ev1|]. split; [exact Ev2|]. rewrite Q1, Q2, E0. reflexivity.
  - apply IH; [intros x Hx; apply V1; right; exact Hx|exact E|intros x Hx; apply V2; right; exact Hx].
Qed.

End Unique.

(* C06 proofs, part B layer (c): simultaneous_sort (median-of-three quicksort, as repaired:
   "pivot_idx + 2 < size") sorts by increasing distance. *)
From Coq Require Import List ZArith QArith Bool Arith Lqa Lia Permutation Sorting.Sorted.
From Gst Require Import lib.QAux C06.Knn C06.Proofs_knn C06.Proofs_heap C06.Proofs_query.
Import ListNotations.

Definition ele (a b : entry) : Prop := ext_le (fst a) (fst b) = true.
Definition hsorted (l : heap) : Prop := StronglySorted ele l.

Lemma ele_trans a b c : ele a b -> ele b c -> ele a c.
Proof. unfold ele. apply ext_le_trans. Qed.

Lemma hsorted_short l : (length l <= 1)%nat -> hsorted l.
Proof.
  destruct l as [|a [|b r]]; intro H; [constructor|constructor; constructor|cbn in H; lia].
Qed.

Lemma hsorted_app_mid l1 m l2 :
  hsorted l1 -> hsorted l2 -> (forall a, In a l1 -> ele a m) -> (forall b, In b l2 -> ele m b) ->
  hsorted (l1 ++ m :: l2).
Proof.
  intros S1 S2 H1 H2. induction S1 as [|a l1 S1 IH F]; cbn [app].
  - constructor; [exact S2|]. rewrite Forall_forall. exact H2.
  - constructor.
    + apply IH. intros x Hx. apply H1. right. exact Hx.
    + rewrite Forall_forall. intros x Hx. apply in_app_or in Hx. destruct Hx as [Hx|[<-|Hx]].
      * rewrite Forall_forall in F. apply F. exact Hx.
      * apply H1. left. reflexivity.
      * eapply ele_trans; [apply H1; left; reflexivity|apply H2; exact Hx].
Qed.

(* ------------------------------------------------------------------ reading a swapped array *)
Lemma eswap_get l i j k : (i < length l)%nat -> (j < length l)%nat ->
  hget (eswap l i j) k = if (k =? i)%nat then hget l j else if (k =? j)%nat then hget l i else hget l k.
Proof.
  intros Hi Hj. unfold eswap.
  destruct (i =? j)%nat eqn:E; cbn [orb].
  - apply Nat.eqb_eq in E. subst j. destruct (k =? i)%nat eqn:K; [apply Nat.eqb_eq in K; subst k|]; reflexivity.
  - rewrite (proj2 (Nat.ltb_lt _ _) Hi), (proj2 (Nat.ltb_lt _ _) Hj). cbn [andb negb].
    apply Nat.eqb_neq in E. unfold hget.
    destruct (k =? i)%nat eqn:K1.
    + apply Nat.eqb_eq in K1. subst k. rewrite nth_set_nth_other by lia.
      rewrite nth_set_nth_same by exact Hi. reflexivity.
    + apply Nat.eqb_neq in K1. destruct (k =? j)%nat eqn:K2.
      * apply Nat.eqb_eq in K2. subst k. rewrite nth_set_nth_same by (rewrite set_nth_length; exact Hj). reflexivity.
      * apply Nat.eqb_neq in K2. rewrite !nth_set_nth_other by lia. reflexivity.
Qed.

Definition hv (l : heap) (k : nat) : ext := fst (hget l k).

(* ------------------------------------------------------------------ the partition loop *)
Lemma part_for_inv pivot cnt : forall l i store,
  (store <= i)%nat -> (i + cnt <= length l)%nat ->
  (forall k, (k < store)%nat -> ext_lt (hv l k) pivot = true) ->
  (forall k, (store <= k < i)%nat -> ext_lt (hv l k) pivot = false) ->
  let r := part_for l pivot i cnt store in
  (store <= snd r <= store + cnt)%nat /\ (snd r <= i + cnt)%nat /\
  length (fst r) = length l /\
  (forall k, (k < snd r)%nat -> ext_lt (hv (fst r) k) pivot = true) /\
  (forall k, (snd r <= k < i + cnt)%nat -> ext_lt (hv (fst r) k) pivot = false) /\
  (forall k, (i + cnt <= k)%nat -> hget (fst r) k = hget l k).
Proof.
  induction cnt as [|c IH]; intros l i store Hsi Hlen Hlt Hge.
  - cbn [part_for fst snd]. repeat split; try lia; try assumption.
    intros k Hk. apply Hge. lia.
  - cbn [part_for]. destruct (ext_lt (fst (hget l i)) pivot) eqn:E.
    + assert (Hi : (i < length l)%nat) by lia. assert (Hs : (store < length l)%nat) by lia.
      specialize (IH (eswap l i store) (S i) (S store) ltac:(lia) ltac:(rewrite eswap_length; lia)).
      destruct IH as [I1 [I2 [I3 [I4 [I5 I6]]]]].
      * intros k Hk. unfold hv. rewrite eswap_get by assumption.
        destruct (k =? i)%nat eqn:K1; [apply Nat.eqb_eq in K1; subst k|].
        -- assert (store = i) by lia. subst store. exact E.
        -- destruct (k =? store)%nat eqn:K2; [exact E|]. apply Nat.eqb_neq in K1, K2. apply Hlt. lia.
      * intros k Hk. unfold hv. rewrite eswap_get by assumption.
        destruct (k =? i)%nat eqn:K1.
        -- apply Nat.eqb_eq in K1. subst k. apply Hge. lia.
        -- apply Nat.eqb_neq in K1. destruct (k =? store)%nat eqn:K2; [apply Nat.eqb_eq in K2; lia|].
           apply Hge. lia.
      * rewrite eswap_length in I3.
        split; [lia|]. split; [lia|]. split; [exact I3|]. split; [exact I4|]. split.
        -- intros k Hk. apply I5. lia.
        -- intros k Hk. rewrite I6 by lia. rewrite eswap_get by assumption.
           destruct (k =? i)%nat eqn:K1; [apply Nat.eqb_eq in K1; lia|].
           destruct (k =? store)%nat eqn:K2; [apply Nat.eqb_eq in K2; lia|]. reflexivity.
    + specialize (IH l (S i) store ltac:(lia) ltac:(lia) Hlt).
      destruct IH as [I1 [I2 [I3 [I4 [I5 I6]]]]].
      * intros k Hk. destruct (Nat.eq_dec k i) as [->|Hne]; [exact E|apply Hge; lia].
      * split; [lia|]. split; [lia|]. split; [exact I3|]. split; [exact I4|]. split.
        -- intros k Hk. apply I5. lia.
        -- intros k Hk. apply I6. lia.
Qed.

Lemma In_firstn_get (l : heap) n a : In a (firstn n l) -> exists k, (k < n)%nat /\ (k < length l)%nat /\ a = hget l k.
Proof.
  intro H. destruct (In_nth _ _ (None, 0%nat) H) as [k [Hk E]]. rewrite firstn_length in Hk.
  exists k. split; [lia|]. split; [lia|]. rewrite <- E. unfold hget.
  rewrite <- (firstn_skipn n l) at 2. rewrite app_nth1 by (rewrite firstn_length; lia). reflexivity.
Qed.
Lemma In_skipn_get (l : heap) n a : In a (skipn n l) -> exists k, (n <= k)%nat /\ (k < length l)%nat /\ a = hget l k.
Proof.
  intro H. destruct (In_nth _ _ (None, 0%nat) H) as [k [Hk E]]. rewrite skipn_length in Hk.
  exists (n + k)%nat. split; [lia|]. split; [lia|]. rewrite <- E. unfold hget. apply nth_skipn'.
Qed.

(* ------------------------------------------------------------------ small arrays *)
Ltac ext_facts :=
  repeat match goal with
         | H : ext_lt ?a ?b = true |- _ => apply ext_lt_le in H
         | H : ext_lt ?a ?b = false |- _ => apply ext_lt_false_le in H
         end.
Ltac ele_solve :=
  unfold ele; cbn [fst] in *;
  first [ assumption | apply ext_le_refl
        | eapply ext_le_trans; [eassumption|assumption]
        | eapply ext_le_trans; [eassumption|eapply ext_le_trans; [eassumption|assumption]] ].
Ltac sorted_solve := repeat (constructor; try ele_solve).

Ltac cmp_step :=
  cbn -[ext_lt];
  match goal with
  | |- context [ext_lt (fst ?x) (fst ?y)] => let E := fresh "E" in destruct (ext_lt (fst x) (fst y)) eqn:E
  end.
Ltac small_sort := unfold egt, hget; cbv zeta; repeat cmp_step; cbn -[ext_lt]; ext_facts; unfold hsorted; sorted_solve.

Lemma sort2 (a b : entry) :
  hsorted (if egt [a; b] 0 1 then eswap [a; b] 0 1 else [a; b]).
Proof. small_sort. Qed.

Lemma sort3 (a b c : entry) :
  let l := [a; b; c] in
  let l1 := if egt l 0 1 then eswap l 0 1 else l in
  hsorted (if egt l1 1 2 then (let l2 := eswap l1 1 2 in if egt l2 0 1 then eswap l2 0 1 else l2) else l1).
Proof. small_sort. Qed.

(* ------------------------------------------------------------------ the quicksort *)
Lemma ssort_sorted fuel : forall l, (length l <= fuel)%nat -> hsorted (ssort fuel l).
Proof.
  induction fuel as [|f IH]; intros l Hf.
  - cbn [ssort]. apply hsorted_short. lia.
  - cbn [ssort].
    destruct (length l <=? 1)%nat eqn:E1; [apply hsorted_short; apply Nat.leb_le; exact E1|]. apply Nat.leb_gt in E1.
    destruct (length l =? 2)%nat eqn:E2.
    { apply Nat.eqb_eq in E2. destruct l as [|a [|b [|c r]]]; cbn in E2; try lia. apply sort2. }
    destruct (length l =? 3)%nat eqn:E3.
    { apply Nat.eqb_eq in E3. destruct l as [|a [|b [|c [|d r]]]]; cbn in E3; try lia. apply (sort3 a b c). }
    apply Nat.eqb_neq in E2, E3.
    set (size := length l) in *.
    set (l1 := if egt l 0 (size - 1) then eswap l 0 (size - 1) else l).
    set (l3 := if egt l1 (size - 1) (Nat.div2 size)
               then (let l2 := eswap l1 (size - 1) (Nat.div2 size) in
                     if egt l2 0 (size - 1) then eswap l2 0 (size - 1) else l2)
               else l1).
    assert (L3 : length l3 = size).
    { unfold l3, l1. repeat match goal with |- context [if ?b then _ else _] => destruct b end;
        cbv zeta; rewrite ?eswap_length; reflexivity. }
    set (pivot := fst (hget l3 (size - 1))).
    pose proof (part_for_inv pivot (size - 1) l3 0%nat 0%nat ltac:(lia) ltac:(lia)
                  ltac:(intros k Hk; lia) ltac:(intros k Hk; lia)) as PI.
    cbv zeta in PI.
    destruct (part_for l3 pivot 0 (size - 1) 0) as [l4 store]. cbn [fst snd] in PI.
    destruct PI as [P1 [P2 [L4 [Plt [Pge Pfix]]]]].
    rewrite L3 in L4.
    assert (Hst : (store < size)%nat) by lia.
    assert (Hlast : (size - 1 < size)%nat) by lia.
    set (l5 := eswap l4 store (size - 1)).
    assert (L5 : length l5 = size) by (unfold l5; rewrite eswap_length; exact L4).
    assert (G5 : forall k, hget l5 k = if (k =? store)%nat then hget l4 (size - 1)
                                        else if (k =? size - 1)%nat then hget l4 store else hget l4 k).
    { intro k. unfold l5. apply eswap_get; rewrite L4; assumption. }
    assert (Hpiv : fst (hget l4 (size - 1)) = pivot) by (rewrite Pfix by lia; reflexivity).
    set (left := firstn store l5). set (mid := hget l5 store). set (right := skipn (S store) l5).
    assert (Hmid : fst mid = pivot).
    { unfold mid. rewrite G5, Nat.eqb_refl. exact Hpiv. }
    assert (Hleft : forall a, In a left -> ext_lt (fst a) pivot = true).
    { intros a Ha. destruct (In_firstn_get _ _ _ Ha) as [k [K1 [K2 ->]]]. rewrite G5.
      rewrite (proj2 (Nat.eqb_neq k store)) by lia. rewrite (proj2 (Nat.eqb_neq k (size - 1))) by lia.
      apply Plt. exact K1. }
    assert (Hright : forall b, In b right -> ext_le pivot (fst b) = true).
    { intros b Hb. destruct (In_skipn_get _ _ _ Hb) as [k [K1 [K2 ->]]]. rewrite L5 in K2. rewrite G5.
      rewrite (proj2 (Nat.eqb_neq k store)) by lia.
      destruct (k =? size - 1)%nat eqn:K3.
      - apply Nat.eqb_eq in K3. apply ext_lt_false_le. apply Pge. lia.
      - apply Nat.eqb_neq in K3. apply ext_lt_false_le. apply Pge. lia. }
    assert (Lleft : length left = store) by (unfold left; rewrite firstn_length; lia).
    assert (Lright : length right = (size - S store)%nat) by (unfold right; rewrite skipn_length; lia).
    set (left' := if (1 <? store)%nat then ssort f left else left).
    set (right' := if (store + 2 <? size)%nat then ssort f right else right).
    assert (Sl : hsorted left').
    { unfold left'. destruct (1 <? store)%nat eqn:B; [apply IH; lia|]. apply Nat.ltb_ge in B. apply hsorted_short. lia. }
    assert (Sr : hsorted right').
    { unfold right'. destruct (store + 2 <? size)%nat eqn:B; [apply IH; lia|]. apply Nat.ltb_ge in B. apply hsorted_short. lia. }
    assert (Pl : Permutation left' left) by (unfold left'; destruct (1 <? store)%nat; [apply ssort_perm|apply Permutation_refl]).
    assert (Pr : Permutation right' right) by (unfold right'; destruct (store + 2 <? size)%nat; [apply ssort_perm|apply Permutation_refl]).
    apply hsorted_app_mid; try assumption.
    + intros a Ha. apply (Permutation_in _ Pl) in Ha. unfold ele. rewrite Hmid. apply ext_lt_le. apply Hleft. exact Ha.
    + intros b Hb. apply (Permutation_in _ Pr) in Hb. unfold ele. rewrite Hmid. apply Hright. exact Hb.
Qed.

(* the result of a query is in increasing distance order *)
Lemma knn_query_sorted dist data t k q res :
  knn_query dist data t k q = Some res -> hsorted res.
Proof.
  unfold knn_query. destruct (length data <? k)%nat; [discriminate|]. intro H. injection H as <-.
  apply ssort_sorted. lia.
Qed.
